(* C12 — Wire codec matches the Seata v1 message layout and round-trips every
   message.  Statements only; proofs live in Codec/*.v. *)
From Coq Require Import String List NArith Bool.
From SeataV Require Import Base.Bytes Codec.Layout Codec.LayoutProofs Codec.Table
     Codec.SeataV1Spec Codec.CodecProofs Gen.GoLayouts.
Import ListNotations.
Open Scope N_scope.

(* generic: any well-formed layout round-trips any message within the limits;
   the whole body is consumed; an over-long error text is cut (canon) *)
Theorem C12_roundtrip : forall L m bs,
  wf_layout L = true -> within_limits L m = true -> encode L m = Some bs ->
  decode L bs = (canon L m, []).
Proof. exact codec_roundtrip. Qed.
Print Assumptions C12_roundtrip.

Theorem C12_roundtrip_exact : forall L m bs,
  wf_layout L = true -> within_limits L m = true -> fits L m = true ->
  encode L m = Some bs -> decode L bs = (m, []).
Proof. exact codec_roundtrip_exact. Qed.
Print Assumptions C12_roundtrip_exact.

(* truncation leaves every other field decodable to its own value *)
Theorem C12_truncation_keeps_fields : forall L prev m i nm k v,
  within_limits L m = true ->
  nth_error L i = Some (nm, k) -> nth_error m i = Some v ->
  (forall w t, k <> FMsgIf w t) ->
  nth_error (canon_from prev L m) i = Some v.
Proof. exact canon_other_fields. Qed.
Print Assumptions C12_truncation_keeps_fields.

(* the 24 client message types, at the layouts regenerated from the Go source *)
Theorem C12_wire_codec :
  forall code mname L, In (code, mname, L) seata_v1 ->
  exists r,
    lookupN go_registry code = Some r
    /\ c_type r = code
    /\ c_msg r = mname
    /\ lookupS go_msg_typecode mname = Some code
    /\ c_enc r = L
    /\ forall m, within_limits L m = true ->
         exists bs, encode (c_enc r) m = Some bs
           /\ encode L m = Some bs
           /\ decode (c_dec r) bs = (canon L m, [])
           /\ (fits L m = true -> decode (c_dec r) bs = (m, [])).
Proof. exact CodecProofs.C12_wire_codec. Qed.
Print Assumptions C12_wire_codec.

Theorem C12_table_size : length seata_v1 = 24%nat.
Proof. reflexivity. Qed.
