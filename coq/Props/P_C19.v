(* C19 — only live sessions are chosen; reconnection restores both directions.
   Statements only; the model is Remoting/LbModel.v (loadbalance.Select and its
   five policies over a registry whose members open and close between
   selections; OnOpen / RegisterResource), the proofs live in Remoting/LbProofs.v.
   `hash` (the first four bytes of md5) is universally quantified. *)
From Coq Require Import String List NArith Bool.
From Coq.Strings Require Import Byte.
From SeataV Require Import Base.Bytes Remoting.LbModel Remoting.LbProofs Remoting.GetXidProofs Gen.GetXidTable.
Import ListNotations.
Open Scope N_scope.

(* whatever the policy, after ANY history of open / close / begin / end / select
   events (in fact in any state at all), a chosen session is registered and open *)
Theorem C19_live : forall hash evs st p xid id,
  In st (run hash evs) ->
  In (Some id) (candidates hash p st xid) ->
  exists s, In s (st_sess st) /\ s_id s = id /\ s_closed s = false.
Proof. exact (fun hash evs st p xid id _ => candidates_live hash p st xid id). Qed.

Theorem C19_live_any_state : forall hash st p xid id,
  In (Some id) (candidates hash p st xid) ->
  exists s, In s (st_sess st) /\ s_id s = id /\ s_closed s = false.
Proof. exact (fun hash st p xid id => candidates_live hash p st xid id). Qed.

(* Select always answers; nil only when no registered session is open, and then nothing else *)
Theorem C19_nil : forall hash evs st p xid,
  In st (run hash evs) ->
  candidates hash p st xid <> []
  /\ (In None (candidates hash p st xid) -> open_ids st = [])
  /\ (open_ids st = [] -> forall c, In c (candidates hash p st xid) -> c = None).
Proof.
  exact (fun hash evs st p xid _ =>
    conj (candidates_nonempty hash p st xid)
   (conj (candidates_nil_only_when_none_open hash p st xid)
         (fun H c => candidates_all_nil_when_none_open hash p st xid c H))).
Qed.

(* XID policy: xid = ip:port:id and an open session connected to ip:port =>
   the request goes to an open session connected to ip:port *)
Theorem C19_xid : forall hash evs st xid a c,
  In st (run hash evs) ->
  xid_target xid = Some a ->
  (exists s, In s (st_sess st) /\ s_closed s = false /\ s_addr s = a) ->
  In c (candidates hash PXid st xid) ->
  exists s, c = Some (s_id s) /\ In s (st_sess st) /\ s_closed s = false /\ s_addr s = a.
Proof. exact (fun hash evs st xid a c _ => candidates_xid hash st xid a c). Qed.

(* the XID clause in the integrated path (SendSync/SendAsync -> selectSession -> getXid):
   at the table regenerated from the source on every run, every message type with an Xid
   field that the client sends is understood by getXid (named, or reached by its reflection
   fallback), so C19_xid applies to it; GlobalLockQueryRequest is one of them *)
Theorem C19_getxid_covers : forall t,
  In t go_xid_messages -> go_getxid_fallback = true \/ In t go_getxid_named.
Proof. exact go_getxid_covers. Qed.

Theorem C19_getxid_lock_query : In "GlobalLockQueryRequest"%string go_xid_messages.
Proof. exact go_xid_messages_has_lock_query. Qed.

(* Re-announcement (FULL statement; the model follows the code after the fix "a newly
   opened session is told the registered resources again").  Over ALL histories of
   register-resource (any branch type) / connection lost (session still open or already
   closed by the peer) / reconnect (to any address, with a first write that succeeds or
   fails) events: every session that gets established carries RegisterTM and, for every
   resource the client holds — also one whose FIRST announcement failed (the resource is
   cached before the send, whatever becomes of it) — a RegisterRM naming it *)
Theorem C19_reannounce : forall evs c sent,
  In (c, sent) (snd (crun cinit evs)) ->
  In RegisterTM sent /\
  forall t r, In (t, r) (cl_resources c) -> exists ids, In (RegisterRM ids) sent /\ In r ids.
Proof. exact reannounce_full. Qed.

(* a client without resources sends nothing extra (first connection unaffected) *)
Theorem C19_reannounce_nothing_extra : forall c,
  cl_resources c = [] -> on_open c = [RegisterTM].
Proof. exact on_open_no_resources. Qed.

(* every REGISTERED open session is an announced one: after ANY history — connections
   lost either way, reconnects to any address, first writes on a fresh connection that
   FAIL while the session stays open (then the session is released again, nothing stays
   registered), resources registered while connected or not — a connected client has had
   RegisterTM written successfully on its session and every resource it holds announced
   on that session — or pending: its own RegisterRM could not be written on this session;
   it is held all the same and C19_reannounce makes the next session carry it *)
Theorem C19_registered_announced : forall evs,
  cl_connected (fst (crun cinit evs)) = true ->
  cl_tm (fst (crun cinit evs)) = true
  /\ forall x, In x (cl_resources (fst (crun cinit evs))) ->
       In x (cl_rm (fst (crun cinit evs))) \/ In x (cl_pending (fst (crun cinit evs))).
Proof. exact registered_announced. Qed.

(* ---- non-vacuity ---- *)
Definition toy_hash (k : bytes) : N := fold_left (fun a b => (a * 31 + b2n b) mod 4294967296) k 7.
Definition ex_a : bytes := [x61; x3a; x31].       (* "a:1" *)
Definition ex_b : bytes := [x62; x3a; x32].       (* "b:2" *)
Definition ex_xid : bytes := ex_b ++ [x3a; x39].  (* "b:2:9" *)
(* the ring is built from sessions 1 and 2, both close, session 3 opens: the stale
   ring is hit, rebuilt, and only session 3 can be chosen *)
Definition ex_history : list event :=
  [EOpen 1 ex_a; EOpen 2 ex_b; ESelect PConsistentHash ex_xid; EClose 1; EClose 2; EOpen 3 ex_b].

Example C19_history_nonvacuous :
  run toy_hash ex_history <> []
  /\ forallb (fun st => match candidates toy_hash PConsistentHash st ex_xid with
                        | [Some 3] => true | _ => false end) (run toy_hash ex_history) = true
  /\ forallb (fun st => match candidates toy_hash PRoundRobin st ex_xid, candidates toy_hash PXid st ex_xid with
                        | [Some 3], [Some 3] => true | _, _ => false end) (run toy_hash ex_history) = true
  /\ candidates toy_hash PLeastActive init ex_xid = [None].
Proof. vm_compute. repeat split; try reflexivity. discriminate. Qed.

Example C19_xid_nonvacuous :
  xid_target ex_xid = Some ex_b /\ xid_target ex_a = None.
Proof. vm_compute. auto. Qed.

(* first connection, lost with the session already closed by the peer, reconnect to
   the SAME address (the stale entry is still recorded), a TCC and two AT resources,
   lost while open, reconnect to ANOTHER address: the third session carries RegisterTM,
   one RegisterRM for the TCC resource and one for both AT resources (sorted) *)
Example C19_reannounce_nonvacuous :
  let a := [x61] in let b := [x62] in
  let r := crun cinit [CReconnect a true; CConnLost true; CReconnect a true;
                       CRegisterResource 1 [x72] true; CRegisterResource 0 [x7a] true; CRegisterResource 0 [x64] true;
                       CConnLost false; CReconnect b true] in
  map snd (snd r) = [[RegisterTM]; [RegisterTM]; [RegisterTM; RegisterRM [[x72]]; RegisterRM [[x64]; [x7a]]]]
  /\ forallb (fun cs => reannounced (fst cs) (snd cs)) (snd r) = true
  /\ cl_server (fst r) = [(a, 1); (b, 1)] /\ cl_all (fst r) = 1
  /\ cl_rm (fst r) = [(1, [x72]); (0, [x7a]); (0, [x64])].
Proof. vm_compute. auto 6. Qed.

(* a reconnect whose announcement cannot be written leaves the client disconnected and
   nothing registered; the next reconnect announces TM and the resource *)
Example C19_registered_announced_nonvacuous :
  let a := [x61] in
  let h := [CReconnect a true; CRegisterResource 1 [x72] true; CConnLost true; CReconnect a false] in
  let c1 := fst (crun cinit h) in
  let c2 := fst (crun cinit (h ++ [CReconnect a true])) in
  cl_connected c1 = false /\ cl_all c1 = 0 /\ cnt_of (cl_server c1) a = 1
  /\ cl_connected c2 = true /\ cl_tm c2 = true /\ cl_all c2 = 1 /\ cl_rm c2 = [(1, [x72])].
Proof. vm_compute. auto 8. Qed.

(* a resource whose first RegisterRM could not be written (write error on the open
   session) is held and pending; the next session names it *)
Example C19_failed_registration_nonvacuous :
  let a := [x61] in
  let h := [CReconnect a true; CRegisterResource 1 [x72] false] in
  let c1 := fst (crun cinit h) in
  let r := crun cinit (h ++ [CConnLost true; CReconnect a true]) in
  snd (cstep (fst (crun cinit [CReconnect a true])) (CRegisterResource 1 [x72] false)) = []
  /\ cl_resources c1 = [(1, [x72])] /\ cl_rm c1 = [] /\ cl_pending c1 = [(1, [x72])]
  /\ map snd (snd r) = [[RegisterTM]; [RegisterTM; RegisterRM [[x72]]]]
  /\ cl_rm (fst r) = [(1, [x72])] /\ cl_pending (fst r) = [].
Proof. vm_compute. auto 8. Qed.
