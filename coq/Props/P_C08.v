(* C08 — Undo-log encoding is lossless under every serializer and compressor setting.
   Statements only; proofs live in At/UndoCodecProofs.v and At/UndoTableProofs.v.
   The model is instantiated at go_undo_table, REGENERATED from the Go source on every run.
   External libraries (time text, compressors, encoding/json text layer, protobuf wire) appear
   as universally quantified functions with their round-trip property as hypotheses. *)
From Coq Require Import List NArith ZArith Bool String.
From SeataV Require Import Base.Bytes At.Values At.UndoCodec At.UndoCodecProofs At.UndoTableProofs Gen.UndoSwitch.
Import ListNotations.
Open Scope Z_scope.

(* B1: the regenerated switch/type tables satisfy what the proofs need of them *)
Theorem C08_table_wf : wf_table go_undo_table = true.
Proof. exact go_table_wf. Qed.

(* what phase one writes is what rollback reads, for every log over the emitted (JDBC type, Go kind)
   pairs and every compress configuration, under the json serializer *)
Theorem C08_lossless :
  forall (fmt_time : tm -> bytes) (parse_time : bytes -> option tm)
         (compress : ckind -> bytes -> bytes) (decompress : ckind -> bytes -> option bytes)
         (json_print : json -> bytes) (json_parse : bytes -> option json)
         (pb_print : plog -> bytes) (pb_parse : bytes -> option plog),
  (forall t, tm_wf t = true -> parse_time (fmt_time t) = Some t) ->
  (forall t, tm_wf t = true -> valid_utf8 (fmt_time t) = true) ->
  (forall k x, decompress k (compress k x) = Some x) ->
  (forall j, json_clean j = true -> json_parse (json_print j) = Some j) ->
  forall c u,
  bytes_eqb (cf_ser c) s_json = true -> clean_text (cf_ctype c) = true -> log_ok u = true ->
  exists ctx info, flush go_undo_table fmt_time compress json_print pb_print c u = Some (ctx, info) /\
  exists u', read_back go_undo_table parse_time decompress json_parse pb_parse ctx info = Ok u'
             /\ log_equiv executor_eq u u' = true.
Proof. exact go_lossless_json. Qed.

Example C08_lossless_nonvacuous : log_ok sample_log = true.
Proof. exact sample_log_ok. Qed.

(* the same for any table that passes wf_table (what a change of the source must preserve) *)
Theorem C08_lossless_any_table :
  forall T (fmt_time : tm -> bytes) (parse_time : bytes -> option tm)
         (compress : ckind -> bytes -> bytes) (decompress : ckind -> bytes -> option bytes)
         (json_print : json -> bytes) (json_parse : bytes -> option json)
         (pb_print : plog -> bytes) (pb_parse : bytes -> option plog),
  (forall t, tm_wf t = true -> parse_time (fmt_time t) = Some t) ->
  (forall t, tm_wf t = true -> valid_utf8 (fmt_time t) = true) ->
  (forall k x, decompress k (compress k x) = Some x) ->
  (forall j, json_clean j = true -> json_parse (json_print j) = Some j) ->
  forall c u,
  wf_table T = true ->
  bytes_eqb (cf_ser c) s_json = true -> clean_text (cf_ctype c) = true -> log_ok u = true ->
  exists ctx info, flush T fmt_time compress json_print pb_print c u = Some (ctx, info) /\
  exists u', read_back T parse_time decompress json_parse pb_parse ctx info = Ok u'
             /\ log_equiv executor_eq u u' = true.
Proof. exact lossless_json. Qed.

(* reading back never panics, whatever the stored bytes and whatever the libraries return *)
Theorem C08_total :
  forall T parse_time decompress json_parse pb_parse ctx info,
  read_back T parse_time decompress json_parse pb_parse ctx info <> Panic.
Proof. exact read_back_total. Qed.

(* the context written beside the log decodes to the same two entries *)
Theorem C08_ctx :
  forall k1 v1 k2 v2,
  clean_text k1 = true -> clean_text v1 = true -> clean_text k2 = true -> clean_text v2 = true ->
  decode_ctx (encode_ctx [(k1, v1); (k2, v2)]) = [(k1, v1); (k2, v2)].
Proof. exact ctx_two_roundtrip. Qed.

Theorem C08_ctx_refuted : exists v,
  ctx_get k_compressor (decode_ctx (encode_ctx [(k_serializer, s_json); (k_compressor, v)])) <> Some v.
Proof. exact ctx_refuted. Qed.

(* the reader's base64 step is exact on what the writer produces, and the text is plain ASCII *)
Theorem C08_base64_exact : forall l, b64_decode (b64_encode l) = Some l.
Proof. exact b64_roundtrip. Qed.

Theorem C08_raw_string_refuted : b64_decode (bs "test") = Some [Byte.xb5; Byte.xeb; Byte.x2d].
Proof. exact raw_string_refuted. Qed.

(* protobuf serializer: lossless exactly on the value shapes it preserves (pb_val_ok: nil, finite float64,
   valid UTF-8 strings, integers whose float64 image denotes the same integer), for every compress configuration *)
Theorem C08_lossless_protobuf_partial :
  forall (fmt_time : tm -> bytes) (parse_time : bytes -> option tm)
         (compress : ckind -> bytes -> bytes) (decompress : ckind -> bytes -> option bytes)
         (json_print : json -> bytes) (json_parse : bytes -> option json)
         (pb_print : plog -> bytes) (pb_parse : bytes -> option plog),
  (forall k x, decompress k (compress k x) = Some x) ->
  (forall j, json_clean j = true -> json_parse (json_print j) = Some j) ->
  (forall p, plog_clean p = true -> pb_parse (pb_print p) = Some p) ->
  forall c u,
  bytes_eqb (cf_ser c) s_protobuf = true -> clean_text (cf_ctype c) = true -> log_pb_ok u = true ->
  exists ctx info, flush go_undo_table fmt_time compress json_print pb_print c u = Some (ctx, info) /\
  exists u', read_back go_undo_table parse_time decompress json_parse pb_parse ctx info = Ok u'
             /\ log_equiv executor_eq u u' = true.
Proof.
  exact (fun f p c d jp jq pp pq H1 H2 H3 cf u =>
           lossless_protobuf_partial go_undo_table f p c d jp jq pp pq H1 H2 H3 cf u go_select_none).
Qed.

Example C08_lossless_protobuf_partial_nonvacuous : log_pb_ok sample_pb_log = true.
Proof. exact sample_pb_log_ok. Qed.

(* ... and outside it the value is lost (what finding C08-protobuf records) *)
Theorem C08_protobuf_refuted_int :
  pb_through (GInt W64 9007199254740993) = Some (GF64 4845873199050653696%N)
  /\ executor_eq (GInt W64 9007199254740993) (GF64 4845873199050653696%N) = false.
Proof. exact pb_refuted_int. Qed.
Theorem C08_protobuf_refuted_bytes : exists v', pb_through (GBytes [Byte.x00; Byte.xff]) = Some v'
  /\ executor_eq (GBytes [Byte.x00; Byte.xff]) v' = false.
Proof. exact pb_refuted_bytes. Qed.
Theorem C08_protobuf_refuted_time : exists v', pb_through (GTime (mkTm 2024 2 29 23 59 58 120000000 0)) = Some v'
  /\ executor_eq (GTime (mkTm 2024 2 29 23 59 58 120000000 0)) v' = false.
Proof. exact pb_refuted_time. Qed.
Theorem C08_protobuf_int_boundary :
  pb_val_ok (GInt W64 9007199254740992) = true /\ pb_val_ok (GInt W64 9007199254740993) = false
  /\ pb_val_ok (GInt W64 (-9223372036854775808)) = true.
Proof. exact pb_int_boundary. Qed.

(* the context codec on arbitrary maps: keys and values without '=' '&' *)
Theorem C08_ctx_map : forall m, ctx_clean m = true -> decode_ctx (encode_ctx m) = m.
Proof. exact ctx_roundtrip. Qed.
Theorem C08_ctx_map_lookup : forall m k, ctx_clean m = true -> NoDup (map fst m) ->
  ctx_get k (decode_ctx (encode_ctx m)) = assoc k m.
Proof. exact ctx_map_roundtrip. Qed.
Theorem C08_ctx_map_refuted_eq : exists m, NoDup (map fst m) /\
  ctx_get (bs "k") (decode_ctx (encode_ctx m)) <> assoc (bs "k") m.
Proof. exact ctx_map_refuted_eq. Qed.
Theorem C08_ctx_map_refuted_amp : exists m, NoDup (map fst m) /\
  ctx_get (bs "x") (decode_ctx (encode_ctx m)) <> assoc (bs "x") m.
Proof. exact ctx_map_refuted_amp. Qed.

(* the context stored beside the log is sufficient: what Undo decodes does not depend on the configuration
   in force when it runs (compression switched off, another type, another serializer, another threshold) *)
Theorem C08_reader_config_independent :
  forall T parse_time decompress json_parse pb_parse (reader1 reader2 : cfg) ctx info,
  undo_read T parse_time decompress json_parse pb_parse reader1 ctx info
  = undo_read T parse_time decompress json_parse pb_parse reader2 ctx info.
Proof. exact undo_read_config_independent. Qed.

(* ... so the log written under ANY writer configuration is restored under ANY reader configuration *)
Theorem C08_lossless_any_reader :
  forall (fmt_time : tm -> bytes) (parse_time : bytes -> option tm)
         (compress : ckind -> bytes -> bytes) (decompress : ckind -> bytes -> option bytes)
         (json_print : json -> bytes) (json_parse : bytes -> option json)
         (pb_print : plog -> bytes) (pb_parse : bytes -> option plog),
  (forall t, tm_wf t = true -> parse_time (fmt_time t) = Some t) ->
  (forall t, tm_wf t = true -> valid_utf8 (fmt_time t) = true) ->
  (forall k x, decompress k (compress k x) = Some x) ->
  (forall j, json_clean j = true -> json_parse (json_print j) = Some j) ->
  forall writer reader u,
  bytes_eqb (cf_ser writer) s_json = true -> clean_text (cf_ctype writer) = true -> log_ok u = true ->
  exists ctx info, flush go_undo_table fmt_time compress json_print pb_print writer u = Some (ctx, info) /\
  exists u', undo_read go_undo_table parse_time decompress json_parse pb_parse reader ctx info = Ok u'
             /\ log_equiv executor_eq u u' = true.
Proof. exact (fun f p c d jp jq pp pq H1 H2 H3 H4 w _ u => go_lossless_json f p c d jp jq pp pq H1 H2 H3 H4 w u). Qed.
