(* C02 — AT phase one: the undo row and the business writes of a branch become durable
   together or not at all, after the branch is registered; a failure of any call of the
   bracket rolls the local transaction back and (when a branch was granted) reports
   PhaseOne_Failed.
   Statements only; the model is At/Commit.v, the proofs live in At/CommitProofs.v.

   `run d0 u sc` is ONE local transaction inside a global transaction: `u` is either one
   DML statement through the pool (Auto: createNewTxOnExecIfNeed + commitOnAT) or an explicit
   BeginTx / statements / Commit-or-Rollback on a pinned connection; `sc` is a fault script:
   the outcome of every database call in issue order, of the BranchRegister and of every
   BranchReport attempt.  The journal is the sequence of calls that reached the database and
   the coordinator.  The database is a separate machine (`replay` of the journal): a
   successful COMMIT moves the working copy of the open transaction into the durable state,
   a ROLLBACK or a crash discards it, a failed call has no effect.
   `stmt_oks u sc` says per statement whether ALL its calls succeeded, which is when the
   statement returns Ok to its caller and records its image (see C02_failure_* for the link
   with o_results). *)
From Coq Require Import List NArith Bool Arith.
From SeataV Require Import At.Commit At.CommitProofs.
Import ListNotations.

(* ---- order *)

(* Brackets: the journal of EVERY run is a failed BEGIN alone, or
   BEGIN, events that neither open nor close a transaction, ONE closing event (successful COMMIT
   or a ROLLBACK attempt), then reports only.  In particular no register, no undo insert and
   no statement occurs before the BEGIN or after the COMMIT/ROLLBACK. *)
Theorem C02_bracket : forall d0 u sc,
  let j := o_journal (run d0 u sc) in
  j = [EDb OBegin false] \/
  exists inner close reps,
    j = EDb OBegin true :: inner ++ close :: reps /\
    forallb inside inner = true /\ is_close close = true /\ forallb is_rep reps = true.
Proof. exact c02_bracket. Qed.

(* Every successful COMMIT (at whatever position of the journal) of a transaction in which
   a statement with rows recorded its image is immediately preceded by the granted register
   and the successful undo insert, in this order, after the BEGIN and after the statement;
   nothing but reports follows. *)
Theorem C02_order : forall d0 u sc i s pre post,
  nth_error (stmts_of u) i = Some s -> st_rows s = true -> nth_error (stmt_oks u sc) i = Some true ->
  o_journal (run d0 u sc) = pre ++ EDb OCommit true :: post ->
  exists b p1,
    pre = EDb OBegin true :: p1 ++ [EReg (Some b); EDb OUndo true] /\
    forallb inside p1 = true /\ (forall g, ~ In (EReg g) p1) /\ (forall r, ~ In (EDb OUndo r) p1) /\
    In (EDb (OStmt (st_id s)) true) p1 /\ forallb is_rep post = true.
Proof. exact c02_order. Qed.

(* the autocommit wrapper: no hypothesis on the statement's calls is needed, a COMMIT is only
   reached when they all succeeded *)
Theorem C02_order_auto : forall d0 s sc pre post,
  st_rows s = true ->
  o_journal (run d0 (Auto s) sc) = pre ++ EDb OCommit true :: post ->
  exists b p1,
    pre = EDb OBegin true :: p1 ++ [EReg (Some b); EDb OUndo true] /\
    forallb inside p1 = true /\ (forall g, ~ In (EReg g) p1) /\ (forall r, ~ In (EDb OUndo r) p1) /\
    In (EDb (OStmt (st_id s)) true) p1 /\ forallb is_rep post = true.
Proof. exact c02_order_auto. Qed.

(* the undo insert is attempted exactly when a branch was granted and a recorded image has rows *)
Theorem C02_undo_iff : forall d0 u sc,
  (exists r, In (EDb OUndo r) (o_journal (run d0 u sc))) <->
  ((exists b, In (EReg (Some b)) (o_journal (run d0 u sc))) /\
   exists i s, nth_error (stmts_of u) i = Some s /\ st_rows s = true /\ nth_error (stmt_oks u sc) i = Some true).
Proof. exact c02_undo_iff. Qed.

(* ---- atomicity *)

(* the durable state of the model is the database's reaction to the journal *)
Theorem C02_durable_is_replay : forall d0 u sc,
  o_durable (run d0 u sc) = fst (replay d0 (o_journal (run d0 u sc))).
Proof. exact run_durable_replay. Qed.

(* the process dies after ANY number of journal events: nothing of the transaction is
   durable, or everything is -- d0 extended with exactly the applied statements and, iff the
   undo insert succeeded, the undo row of the granted branch (all_state) -- and the latter
   only when the COMMIT succeeded *)
Theorem C02_atomic : forall d0 u sc n,
  crash_durable d0 u sc n = d0 \/
  (committed (o_journal (run d0 u sc)) = true /\
   crash_durable d0 u sc n = all_state d0 (o_journal (run d0 u sc))).
Proof. exact c02_atomic. Qed.

Theorem C02_crash_after_end : forall d0 u sc n, length (o_journal (run d0 u sc)) <= n ->
  crash_durable d0 u sc n = o_durable (run d0 u sc).
Proof. exact crash_all. Qed.

(* without a crash: all-state iff the COMMIT succeeded; a transaction stays open on the
   connection exactly when a ROLLBACK call failed *)
Theorem C02_final : forall d0 u sc,
  let o := run d0 u sc in
  o_durable o = (if committed (o_journal o) then all_state d0 (o_journal o) else d0) /\
  o_open o = rollback_failed (o_journal o).
Proof. exact c02_final. Qed.

(* at every crash point: a business write of a statement that recorded an image with rows is
   durable only together with the undo row of the granted branch *)
Theorem C02_together : forall d0 u sc n i s,
  nth_error (stmts_of u) i = Some s -> st_rows s = true -> nth_error (stmt_oks u sc) i = Some true ->
  In (st_id s) (d_biz (crash_durable d0 u sc n)) -> ~ In (st_id s) (d_biz d0) ->
  exists b, In (EReg (Some b)) (o_journal (run d0 u sc)) /\
            d_undo (crash_durable d0 u sc n) = d_undo d0 ++ [b].
Proof. exact c02_together. Qed.

(* ---- failure handling *)

(* all runs: at most one successful COMMIT; without one the last database call is a ROLLBACK
   attempt (or the BEGIN failed); when a branch was granted the report loop ran 1..5 times
   with the status matching the COMMIT and never the other status; without a granted branch
   nothing is reported; after a successful COMMIT no ROLLBACK is issued *)
Theorem C02_general : forall d0 u sc,
  let j := o_journal (run d0 u sc) in
  count is_commit_ok j = (if committed j then 1 else 0) /\
  (committed j = false -> j = [EDb OBegin false] \/ exists r, last_db j = Some (EDb ORollback r)) /\
  (forall b, In (EReg (Some b)) j ->
     1 <= count (is_rep_of (committed j)) j <= max_retries /\ count (is_rep_of (negb (committed j))) j = 0) /\
  ((forall b, ~ In (EReg (Some b)) j) -> count is_rep j = 0) /\
  (committed j = true -> rollback_failed j = false /\ existsb is_rollback j = false).
Proof. exact c02_general. Qed.

(* autocommit: the caller gets Ok exactly when no call of the bracket (BEGIN, statement call,
   register, undo insert, COMMIT) failed.  Any such failure: nothing durable, no COMMIT, the
   last database call is the ROLLBACK (or BEGIN failed), the connection is clean unless the
   script also fails the ROLLBACK, and a granted branch is reported PhaseOne_Failed 1..5 times
   and never PhaseOne_Done.  Ok: all-state, exactly one COMMIT, no ROLLBACK, reported Done. *)
Theorem C02_failure_auto : forall d0 s sc,
  let o := run d0 (Auto s) sc in
  let j := o_journal o in
  o_results o = [negb (call_failed j)] /\
  (call_failed j = true ->
     o_durable o = d0 /\ committed j = false /\
     (j = [EDb OBegin false] \/ exists r, last_db j = Some (EDb ORollback r)) /\
     (rollback_failed j = false -> o_open o = false) /\
     (forall b, In (EReg (Some b)) j ->
        1 <= count (is_rep_of false) j <= 5 /\ count (is_rep_of true) j = 0) /\
     ((forall b, ~ In (EReg (Some b)) j) -> count is_rep j = 0)) /\
  (call_failed j = false ->
     o_durable o = all_state d0 j /\ count is_commit_ok j = 1 /\ o_open o = false /\
     existsb is_rollback j = false /\ In (EDb (OStmt (st_id s)) true) j /\
     (forall b, In (EReg (Some b)) j ->
        1 <= count (is_rep_of true) j <= 5 /\ count (is_rep_of false) j = 0)).
Proof. exact c02_failure_auto. Qed.

(* explicit transaction, user Commit: after a successful BEGIN the results are
   [true] ++ per statement ++ [commit ok], and the commit is Ok exactly when none of register,
   undo insert, COMMIT failed; the two branches as above *)
Theorem C02_failure_explicit : forall d0 ss sc,
  let o := run d0 (Explicit ss true) sc in
  let j := o_journal o in
  (j = [EDb OBegin false] /\ o_results o = [false] /\ o_durable o = d0 /\ o_open o = false) \/
  (o_results o = true :: stmt_oks (Explicit ss true) sc ++ [negb (tail_failed j)] /\
   length (stmt_oks (Explicit ss true) sc) = length ss /\
   (tail_failed j = true ->
      o_durable o = d0 /\ committed j = false /\
      (exists r, last_db j = Some (EDb ORollback r)) /\
      (rollback_failed j = false -> o_open o = false) /\
      (forall b, In (EReg (Some b)) j ->
         1 <= count (is_rep_of false) j <= 5 /\ count (is_rep_of true) j = 0) /\
      ((forall b, ~ In (EReg (Some b)) j) -> count is_rep j = 0)) /\
   (tail_failed j = false ->
      o_durable o = all_state d0 j /\ count is_commit_ok j = 1 /\ o_open o = false /\
      existsb is_rollback j = false /\
      (forall b, In (EReg (Some b)) j ->
         1 <= count (is_rep_of true) j <= 5 /\ count (is_rep_of false) j = 0))).
Proof. exact c02_failure_explicit. Qed.

(* explicit transaction, user Rollback: nothing durable, nothing registered, no undo row,
   nothing reported *)
Theorem C02_user_rollback : forall d0 ss sc,
  let o := run d0 (Explicit ss false) sc in
  let j := o_journal o in
  o_durable o = d0 /\
  (forall g, ~ In (EReg g) j) /\ (forall r, ~ In (EDb OUndo r) j) /\ count is_rep j = 0 /\
  (j = [EDb OBegin false] /\ o_results o = [false] \/
   o_results o = true :: stmt_oks (Explicit ss false) sc ++ [negb (rollback_failed j)] /\
   length (stmt_oks (Explicit ss false) sc) = length ss).
Proof. exact c02_user_rollback. Qed.

(* ---- non-vacuity *)
Definition ex_d0 : durable := {| d_biz := [1; 2] ; d_undo := [9%N] |}.
Definition ex_upd : stmt := {| st_id := 7 ; st_kind := KUpdate ; st_rows := true |}.
Definition ex_del : stmt := {| st_id := 8 ; st_kind := KDelete ; st_rows := false |}.
Definition ex_ins : stmt := {| st_id := 9 ; st_kind := KInsert ; st_rows := true |}.

(* clean: register, undo insert, COMMIT, one PhaseOne_Done; the crash points before the COMMIT
   (7 events) leave d0, the ones after it the all-state *)
Example C02_clean_nonvacuous :
  let sc := {| s_db := [] ; s_reg := [Some 42%N] ; s_rep := [] |} in
  let o := run ex_d0 (Auto ex_upd) sc in
  o_journal o = [EDb OBegin true; EDb OQuery true; EDb (OStmt 7) true; EDb OQuery true;
                 EReg (Some 42%N); EDb OUndo true; EDb OCommit true; ERep true true]
  /\ o_results o = [true]
  /\ o_durable o = {| d_biz := [1; 2; 7] ; d_undo := [9%N; 42%N] |}
  /\ o_open o = false
  /\ map (crash_durable ex_d0 (Auto ex_upd) sc) [0; 3; 5; 6] = [ex_d0; ex_d0; ex_d0; ex_d0]
  /\ map (crash_durable ex_d0 (Auto ex_upd) sc) [7; 8; 20] = [o_durable o; o_durable o; o_durable o]
  /\ stmt_oks (Auto ex_upd) sc = [true].
Proof. vm_compute. repeat split. Qed.

(* the undo insert (5th database call) fails: ROLLBACK, PhaseOne_Failed retried until accepted *)
Example C02_undo_fails_nonvacuous :
  let sc := {| s_db := [true; true; true; true; false] ; s_reg := [Some 42%N] ; s_rep := [false; false; true] |} in
  let o := run ex_d0 (Auto ex_upd) sc in
  o_journal o = [EDb OBegin true; EDb OQuery true; EDb (OStmt 7) true; EDb OQuery true;
                 EReg (Some 42%N); EDb OUndo false; EDb ORollback true;
                 ERep false false; ERep false false; ERep false true]
  /\ o_results o = [false] /\ o_durable o = ex_d0 /\ o_open o = false
  /\ call_failed (o_journal o) = true.
Proof. vm_compute. repeat split. Qed.

(* the register is refused: ROLLBACK, nothing reported; the reports all failing stop after 5 *)
Example C02_refused_nonvacuous :
  let sc := {| s_db := [] ; s_reg := [None] ; s_rep := [] |} in
  let o := run ex_d0 (Auto ex_upd) sc in
  o_journal o = [EDb OBegin true; EDb OQuery true; EDb (OStmt 7) true; EDb OQuery true;
                 EReg None; EDb ORollback true]
  /\ o_results o = [false] /\ o_durable o = ex_d0 /\ o_open o = false.
Proof. vm_compute. repeat split. Qed.

Example C02_commit_fails_five_reports_nonvacuous :
  let sc := {| s_db := [true; true; true; true; true; false; false] ; s_reg := [] ;
               s_rep := [false; false; false; false; false; false; false] |} in
  let o := run ex_d0 (Auto ex_upd) sc in
  o_journal o = [EDb OBegin true; EDb OQuery true; EDb (OStmt 7) true; EDb OQuery true;
                 EReg (Some 1%N); EDb OUndo true; EDb OCommit false; EDb ORollback false;
                 ERep false false; ERep false false; ERep false false; ERep false false; ERep false false]
  /\ o_results o = [false] /\ o_durable o = ex_d0 /\ o_open o = true
  /\ rollback_failed (o_journal o) = true.
Proof. vm_compute. repeat split. Qed.

(* explicit transaction with three statements, the second one fails at its statement call and
   the user commits anyway: the two recorded images are covered by the undo row *)
Example C02_explicit_nonvacuous :
  let sc := {| s_db := [true; true; true; true; true; false] ; s_reg := [Some 5%N] ; s_rep := [] |} in
  let o := run ex_d0 (Explicit [ex_upd; ex_del; ex_ins] true) sc in
  o_journal o = [EDb OBegin true; EDb OQuery true; EDb (OStmt 7) true; EDb OQuery true;
                 EDb OQuery true; EDb (OStmt 8) false;
                 EDb (OStmt 9) true; EDb OQuery true;
                 EReg (Some 5%N); EDb OUndo true; EDb OCommit true; ERep true true]
  /\ o_results o = [true; true; false; true; true]
  /\ o_durable o = {| d_biz := [1; 2; 7; 9] ; d_undo := [9%N; 5%N] |}
  /\ stmt_oks (Explicit [ex_upd; ex_del; ex_ins] true) sc = [true; false; true].
Proof. vm_compute. repeat split. Qed.

(* why C02_order / C02_together speak of statements that RECORDED their image: in an explicit
   transaction a statement whose after-image query fails returns an error but its write stays
   in the open transaction; a user who commits nevertheless makes it durable with no undo row
   (nothing was recorded, so nothing is registered).  The autocommit wrapper never does this
   (C02_order_auto). *)
Example C02_user_commits_failed_statement :
  let sc := {| s_db := [true; true; true; false] ; s_reg := [] ; s_rep := [] |} in
  let o := run ex_d0 (Explicit [ex_upd] true) sc in
  o_journal o = [EDb OBegin true; EDb OQuery true; EDb (OStmt 7) true; EDb OQuery false; EDb OCommit true]
  /\ o_results o = [true; false; true]
  /\ o_durable o = {| d_biz := [1; 2; 7] ; d_undo := [9%N] |}.
Proof. vm_compute. repeat split. Qed.
