(* C04 — each global transaction gets exactly one truthful decision from its
   initiator.  Statements only; proofs live in Tm/TmProofs.v (generic in the code
   shape) and Tm/TmGo.v (instantiated at the shape regenerated from the Go source).

   Setting of every theorem: one call of WithGlobalTx (`leaf m id out`: propagation
   mode m, transaction name id, business callback outcome out in nil/error/panic) on
   an arbitrary context variable v (any xid / role / name) against an arbitrary
   coordinator w (any script of replies ok / failed / transport error / no reply /
   empty, any default reply afterwards, any cancellation point, any request count so
   far), with arbitrary retry counts cf (0 included).  es is the trace: requests with
   their replies, what the callback saw, the returned class res.  The only
   well-formedness hypothesis is that the coordinator never hands out the empty xid. *)
From Coq Require Import List NArith Bool.
From SeataV Require Import Tm.TmModel Gen.TmShape Tm.TmProofs Tm.TmTreeProofs Tm.TmDecisionProofs Tm.TmGo.
Import ListNotations.
Open Scope N_scope.

(* the tables regenerated from pkg/tm/transaction_executor.go realise the documented
   dispositions; WithGlobalTx restores the caller's transaction; Launcher decides,
   Participant does nothing, UnKnow is an error *)
Theorem C04_code_shape : shape_ok go_shape = true.
Proof. exact go_shape_ok. Qed.

(* never both; commit only after a nil outcome, rollback only after error/panic; only for
   the transaction this very call began (xid handed out by its own acknowledged begin);
   at most one begin *)
Theorem C04_decision : forall cf m id out w w' v v' res es,
  w_next w <> 0 ->
  run_scope go_shape cf (leaf m id out) w v = (w', v', res, es) ->
  ((n_commits es > 0)%nat -> out = ONil /\ n_rollbacks es = 0%nat) /\
  ((n_rollbacks es > 0)%nat -> out <> ONil /\ n_commits es = 0%nat) /\
  Forall (fun x => x = w_next w) (sp_xids es) /\
  (sp_xids es <> [] -> began id es = true) /\
  (n_begins es <= 1)%nat.
Proof. exact go_c04_decision. Qed.

(* the "if" direction: an initiator whose context is alive does ask for the decision *)
Theorem C04_decision_complete : forall cf m id out w w' v v' res es,
  w_next w <> 0 ->
  run_scope go_shape cf (leaf m id out) w v = (w', v', res, es) ->
  began id es = true -> w_cancel_after w = None -> w_halt w = false ->
  (out = ONil -> (n_commits es >= 1)%nat) /\ (out <> ONil -> (n_rollbacks es >= 1)%nat).
Proof. exact go_c04_decision_complete. Qed.

(* at most the configured number of sends (count >= 1); for every count, 0 included, a
   send is repeated only after a transport failure (error or no reply) *)
Theorem C04_retry : forall cf m id out w w' v v' res es,
  w_next w <> 0 ->
  run_scope go_shape cf (leaf m id out) w v = (w', v', res, es) ->
  (sp_n cf out <> 0%nat -> (List.length (sp_replies es) <= sp_n cf out)%nat) /\
  Forall (fun r => transport_error r = true) (removelast (sp_replies es)).
Proof. exact go_c04_retry. Qed.

(* the returned value of an initiator: nil exactly when the business returned nil and the
   last thing the coordinator said to a commit request was a well-formed response; never
   a panic class *)
Theorem C04_result_truthful : forall cf m id out w w' v v' res es,
  w_next w <> 0 ->
  run_scope go_shape cf (leaf m id out) w v = (w', v', res, es) ->
  began id es = true ->
  (res = RNilC <-> out = ONil /\ (n_commits es >= 1)%nat /\ acked (last (sp_replies es) RNil) = true) /\
  (res = RNilC \/ res = RErrC).
Proof. exact go_c04_result. Qed.

(* ... and that response says Success unless the coordinator answers ResultCode = Failed
   somewhere (the region of finding tm.second-phase.failed-result) *)
Theorem C04_nil_sound_partial : forall cf m id out w w' v v' res es,
  w_next w <> 0 ->
  run_scope go_shape cf (leaf m id out) w v = (w', v', res, es) ->
  began id es = true -> never_failed w = true -> res = RNilC ->
  last (sp_replies es) RNil = ROk.
Proof. exact go_c04_truthful_partial. Qed.

Theorem C04_nil_sound_refuted :
  exists script d, let '(_, _, res, es) := run_leaf_on 2 2 Required ONil script d None in
                   began 1 es = true /\ res = RNilC /\ last (sp_replies es) RNil = RFailed.
Proof. exact go_c04_nil_sound_refuted. Qed.

(* a business error or panic always surfaces, whatever the role of the scope *)
Theorem C04_surfaces : forall cf m id out w w' v v' res es,
  w_next w <> 0 ->
  run_scope go_shape cf (leaf m id out) w v = (w', v', res, es) ->
  out <> ONil -> res = RErrC.
Proof. exact go_c04_surfaces. Qed.

(* cancellation before the call, during begin or during the business (i.e. before the
   second phase starts) surfaces as an error and nothing is sent in the second phase *)
Theorem C04_cancel_surfaces : forall cf m id out w w' v v' res es,
  w_next w <> 0 ->
  run_scope go_shape cf (leaf m id out) w v = (w', v', res, es) ->
  forall j, began id es = true -> w_cancel_after w = Some j -> (j <= S (w_nreq w))%nat ->
  res = RErrC /\ sp_replies es = [].
Proof. exact go_c04_cancel_surfaces. Qed.

(* a scope that sends no begin (joined, no transaction, or refused) sends nothing at all,
   returns nil exactly when the business did and the mode's precondition held, and runs
   the business exactly when the precondition held *)
Theorem C04_not_initiator : forall cf m id out w w' v v' res es,
  w_next w <> 0 ->
  run_scope go_shape cf (leaf m id out) w v = (w', v', res, es) ->
  n_begins es = 0%nat ->
  es = filter (fun e => negb (is_begin e || is_commit e || is_rollback e)) es /\
  sp_replies es = [] /\
  disposition_of m (is_gtx v) <> DNew /\
  (res = RNilC <-> out = ONil /\ disposition_of m (is_gtx v) <> DFail) /\
  (entered es = true <-> disposition_of m (is_gtx v) <> DFail).
Proof. exact go_c04_not_initiator. Qed.

(* a begin that is refused or lost: error, business not run, nothing else sent *)
Theorem C04_begin_failed : forall cf m id out w w' v v' res es,
  w_next w <> 0 ->
  run_scope go_shape cf (leaf m id out) w v = (w', v', res, es) ->
  began id es = false -> n_begins es <> 0%nat ->
  exists rep, rep <> ROk /\ es = [EReq (QBegin id) rep; ERet id RErrC] /\ res = RErrC.
Proof. exact go_c04_begin_failed. Qed.

(* the call terminates (the send cap is not reached) for every count 1..send_cap, and for
   count 0 as soon as the coordinator eventually answers something else than a transport
   failure; count 0 under permanent transport failure is finding tm.retry0.transport-forever *)
Theorem C04_terminates : forall cf m id out w w' v v' res es,
  w_next w <> 0 ->
  run_scope go_shape cf (leaf m id out) w v = (w', v', res, es) ->
  ((sp_n cf out <> 0%nat /\ (sp_n cf out <= send_cap)%nat) \/
   (transport_error (w_default w) = false /\ (List.length (w_script w) <= send_cap)%nat)) ->
  diverged es = false.
Proof. exact go_c04_terminates. Qed.

Theorem C04_retry0_diverges_refuted :
  exists script d, let '(_, _, res, es) := run_leaf_on 0 0 Required ONil script d None in
                   diverged es = true /\ List.length (sp_replies es) = send_cap.
Proof. exact go_c04_retry0_diverges. Qed.

(* non-vacuity: an initiator that retries a commit through two transport failures, is
   cancelled while the third send is in flight and still reports the acknowledged commit;
   and one whose rollback is never acknowledged *)
Example C04_nonvacuous_commit :
  let '(_, _, res, es) := run_leaf_on 3 1 Required ONil [ROk; RErr; RNoReply; ROk] RErr (Some 4%nat) in
  began 1 es = true /\ never_failed (init_world [ROk; RErr; RNoReply; ROk] RErr (Some 4%nat)) = true /\
  res = RNilC /\ n_commits es = 3%nat /\ n_rollbacks es = 0%nat /\ diverged es = false.
Proof. vm_compute. auto 10. Qed.

Example C04_nonvacuous_rollback :
  let '(_, _, res, es) := run_leaf_on 3 2 RequiresNew OPanic [ROk; RErr] RNoReply None in
  began 1 es = true /\ res = RErrC /\ n_rollbacks es = 2%nat /\ n_commits es = 0%nat.
Proof. vm_compute. auto. Qed.

Example C04_nonvacuous_cancelled :
  let '(_, _, res, es) := run_leaf_on 3 2 Required ONil [ROk; ROk] ROk (Some 1%nat) in
  began 1 es = true /\ res = RErrC /\ sp_replies es = [].
Proof. vm_compute. auto. Qed.

(* ================================================================ C04 lifted to PROGRAMS.
   t is any tree of nested WithGlobalTx calls (any depth and width, shared and fresh contexts,
   every mode and outcome), w ANY coordinator (script, default reply, cancellation point), cf any
   retry counts.  seg x es = the commit/rollback requests naming xid x, with their replies, in the
   order the coordinator received them.  subscopes t = every WithGlobalTx call of the program. *)

(* every transaction for which the coordinator received any commit/rollback was begun by one
   call s of the program (its begin was acknowledged, its callback saw x as Launcher), and ALL
   requests naming x are that call's decision: commits iff its own business returned nil,
   rollbacks otherwise -- never both, nobody else's; resent only after transport failures; at
   most the configured number (>= 1) of times; and s returned nil exactly when its business
   returned nil and the last reply to its commit was a well-formed response.  Joined /
   participant scopes therefore send nothing. *)
Theorem C04_tree_decision : forall cf t w v w' v' res es,
  w_next w <> 0 -> run_scope go_shape cf t w v = (w', v', res, es) ->
  forall x, seg x es <> [] -> exists s, In s (subscopes t) /\ decided cf x s es.
Proof. exact go_c04_tree_decision. Qed.

(* conversely: while the caller's context is never cancelled and the send cap is not hit, every
   call that began a transaction does send its decision *)
Theorem C04_tree_decision_complete : forall cf t w v w' v' res es,
  w_next w <> 0 -> alive w -> run_scope go_shape cf t w v = (w', v', res, es) -> diverged es = false ->
  forall id x nm, x <> 0 -> In (EEnter id x Launcher nm) es -> seg x es <> [].
Proof. exact go_c04_tree_complete. Qed.

(* every call of the program, launcher or not: nil is returned only by a call whose own business
   returned nil (for a launcher C04_tree_decision adds: and whose commit was acknowledged) *)
Theorem C04_tree_nil_truthful : forall cf t w v w' v' res es,
  run_scope go_shape cf t w v = (w', v', res, es) ->
  (res = RNilC -> match t with Scope _ _ _ _ out => out = ONil end) /\
  forall id, In (ERet id RNilC) es -> exists m sh kids, In (Scope m id sh kids ONil) (subscopes t).
Proof. exact go_c04_tree_nil_truthful. Qed.

(* non-vacuity: a three-level program under faults -- the inner RequiresNew fails and its rollback
   needs two sends, a Mandatory grandchild on a fresh context joins it, the outer commit is lost
   once and then acknowledged *)
Example C04_tree_nonvacuous :
  let t := Scope Required 1 true [Scope RequiresNew 2 true [Scope Mandatory 3 false [] ONil] OErr] ONil in
  let '(_, _, res, es) := run_scope go_shape {| cf_commit_retry := 2; cf_rollback_retry := 3 |} t
                                     (init_world [ROk; ROk; RErr; ROk; RNoReply] ROk None) no_ctx in
  seg 2 es = [EReq (QRollback 2) RErr; EReq (QRollback 2) ROk] /\
  seg 1 es = [EReq (QCommit 1) RNoReply; EReq (QCommit 1) ROk] /\ res = RNilC /\ diverged es = false /\
  alive (init_world [ROk; ROk; RErr; ROk; RNoReply] ROk None).
Proof. vm_compute. auto 10. Qed.
