(* C04 — statements only (placeholder while the pipeline is brought up) *)
From Coq Require Import List NArith Bool String.
From SeataV Require Import Tm.TmModel Gen.TmShape Tm.TmProofs.
Import ListNotations.

Theorem C04_shape : shape_ok go_shape = true.
Proof. exact go_shape_ok. Qed.
