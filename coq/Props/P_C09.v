(* C09 — branch rollback never overwrites a foreign write (data validation on).
   Statements only; proofs in At/RollbackC09.v. *)
From Coq Require Import List NArith ZArith Bool.
From SeataV Require Import Base.Bytes At.Db At.RollbackKinds Gen.UndoFlow At.Rollback At.RollbackProofs At.RollbackC09.
Import ListNotations.

(* every undo executor (insert, update, delete) runs the three-way comparison and honours it *)
Theorem C09_every_executor_validates : forall k, exec_validates k = true.
Proof. exact exec_validates_all. Qed.

(* the validation read takes row locks (SELECT .. FOR UPDATE) and treats a result set that breaks off as
   an error (table regenerated from executor.go) ... *)
Theorem C09_validation_read_locks : exec_check_locks = true /\ exec_read_errors_checked = true.
Proof. exact validation_read_locks. Qed.

(* ... and the verdict depends on nothing but the rows that read returned: a write of another session to
   any other row between the validation and the compensating statement cannot change it (writes to
   the rows read wait for the rollback transaction to end) *)
Theorem C09_validation_window : forall dv img t u,
  (forall k, In k (check_keys img) -> lookup k t = lookup k u) ->
  validate dv img t = validate dv img u.
Proof. exact validate_window. Qed.

(* ANY position in the log of ANY branch, any kind of image (insert / update / delete, one or many
   rows): the images recorded after it were replayed, then this image finds current rows that equal
   neither its after image nor its before image: nothing is changed (tables and undo log are exactly
   what they were), the answer is not 'rollbacked', the local transaction is ended *)
Theorem C09_dirty_refused : forall cfg d x row pre img post w,
  with_validation cfg ->
  ulookup x (d_undo d) = Some row -> u_normal row = true -> u_body row = Some (pre ++ img :: post) ->
  undo_images true (rev post) (d_tabs d) = Some w ->
  is_nil (replayed_rows img) = false ->
  differs_from_both img (current_rows img w) ->
  let r := rollback_branch cfg None d x in
  r_db r = d /\ r_out r <> status_ok /\ r_tx_open r = false.
Proof. exact dirty_refused. Qed.

(* one-statement branches, verdict read off the durable state *)
Theorem C09_dirty_refused_1 : forall cfg d x row img,
  with_validation cfg ->
  ulookup x (d_undo d) = Some row -> u_normal row = true -> u_body row = Some [img] ->
  is_nil (replayed_rows img) = false ->
  differs_from_both img (current_rows img (d_tabs d)) ->
  let r := rollback_branch cfg None d x in
  r_db r = d /\ r_out r <> status_ok /\ r_tx_open r = false.
Proof. exact dirty_refused_1. Qed.

Theorem C09_already_before : forall cfg d x row img,
  with_validation cfg ->
  ulookup x (d_undo d) = Some row -> u_normal row = true -> u_body row = Some [img] ->
  is_nil (replayed_rows img) = false ->
  equals_before img (current_rows img (d_tabs d)) ->
  let r := rollback_branch cfg None d x in
  r_out r = status_ok /\ d_tabs (r_db r) = d_tabs d /\ ulookup x (d_undo (r_db r)) = None.
Proof. exact already_before_1. Qed.

Theorem C09_after : forall cfg d x row img t',
  with_validation cfg ->
  ulookup x (d_undo d) = Some row -> u_normal row = true -> u_body row = Some [img] ->
  is_nil (replayed_rows img) = false ->
  equals_after img (current_rows img (d_tabs d)) ->
  compensate img (db_get (i_tn img) (d_tabs d)) = Some t' ->
  let r := rollback_branch cfg None d x in
  r_out r = status_ok /\ d_tabs (r_db r) = db_set (i_tn img) t' (d_tabs d) /\ ulookup x (d_undo (r_db r)) = None.
Proof. exact after_restored_1. Qed.

(* what the compensation does, row by row: inserted keys are gone, updated rows get the before image's
   tracked columns back (other columns as they are now), deleted rows are back *)
Theorem C09_compensate_rows : forall img t t', tbl_wf (i_before img) -> compensate img t = Some t' ->
  match i_kind img with
  | KInsert => forall k, lookup k t' = if memk k (keys (i_after img)) then None else lookup k t
  | KUpdate => forall k, lookup k t' = match lookup k (i_before img) with
                                       | Some r => option_map (merge (i_mask img) r) (lookup k t)
                                       | None => lookup k t end
  | KDelete => forall k, lookup k t' = match lookup k (i_before img) with Some r => Some r | None => lookup k t end
  end.
Proof. exact compensate_rows. Qed.

(* ---- non-vacuity: an inserted row changed by somebody else; a multi-row update, one row changed ---- *)
Definition ex_tn : tablename := [Byte.x74].
Definition ex_cfg : config := {| c_validation := true; c_only_care := true |}.
Definition ex_d0 : dbs := {| d_tabs := [(ex_tn, [([VInt 1], [VInt 10; VInt 5]); ([VInt 2], [VInt 20; VInt 6])])]; d_undo := [] |}.

Example C09_insert_dirty_nonvacuous :
  let '(d1, ok) := phase1_branch ex_cfg (1, 1)%N [SInsert ex_tn [([VInt 7], [VInt 70; VInt 0])]] ex_d0 in
  let d1' := with_tabs d1 (apply_foreign [FSet ex_tn [VInt 7] [VInt 71; VInt 0]] (d_tabs d1)) in
  let r := rollback_branch ex_cfg None d1' (1, 1)%N in
  ok = true /\ r_db r = d1' /\ r_out r = status_plain_error.
Proof. vm_compute. repeat split; reflexivity. Qed.

Example C09_update_cases_nonvacuous :
  let '(d1, ok) := phase1_branch ex_cfg (1, 1)%N
                     [SUpdate ex_tn (Some [true; false]) [([VInt 1], [VInt 11; VNull]); ([VInt 2], [VInt 21; VNull])]] ex_d0 in
  (* a foreign change of an untracked column is kept, the tracked one restored *)
  let dA := with_tabs d1 (apply_foreign [FSet ex_tn [VInt 2] [VInt 21; VInt 99]] (d_tabs d1)) in
  (* a foreign change of the written column of one row: refused *)
  let dB := with_tabs d1 (apply_foreign [FSet ex_tn [VInt 2] [VInt 22; VInt 6]] (d_tabs d1)) in
  (* both rows already back to the before image: success without a write *)
  let dC := with_tabs d1 (apply_foreign [FSet ex_tn [VInt 1] [VInt 10; VInt 5]; FSet ex_tn [VInt 2] [VInt 20; VInt 6]] (d_tabs d1)) in
  r_out (rollback_branch ex_cfg None dA (1, 1)%N) = status_ok /\
  lookup [VInt 2] (db_get ex_tn (d_tabs (r_db (rollback_branch ex_cfg None dA (1, 1)%N)))) = Some [VInt 20; VInt 99] /\
  r_out (rollback_branch ex_cfg None dB (1, 1)%N) = status_plain_error /\ r_db (rollback_branch ex_cfg None dB (1, 1)%N) = dB /\
  r_out (rollback_branch ex_cfg None dC (1, 1)%N) = status_ok /\
  d_tabs (r_db (rollback_branch ex_cfg None dC (1, 1)%N)) = d_tabs dC.
Proof. vm_compute. repeat split; reflexivity. Qed.
