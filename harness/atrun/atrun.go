// Package atrun is the shared AT/XA scenario runner: a Scenario (JSON) is run
// through the real proxy drivers over fakedb with the call-level coordinator
// stub, and everything observable is returned as a Trace. See docs/ATRUN.md.
package atrun

import (
	"context"
	"database/sql"
	"database/sql/driver"
	"encoding/hex"
	"errors"
	"fmt"
	"os"
	"path/filepath"
	"sort"
	"strconv"
	"strings"
	"sync"
	"sync/atomic"
	"time"
	"unicode/utf8"

	"github.com/go-sql-driver/mysql"

	"seata.apache.org/seata-go/pkg/client"
	"seata.apache.org/seata-go/pkg/compressor"
	seatasql "seata.apache.org/seata-go/pkg/datasource/sql"
	"seata.apache.org/seata-go/pkg/datasource/sql/datasource"
	"seata.apache.org/seata-go/pkg/datasource/sql/exec/at"
	"seata.apache.org/seata-go/pkg/datasource/sql/types"
	"seata.apache.org/seata-go/pkg/datasource/sql/undo"
	undoparser "seata.apache.org/seata-go/pkg/datasource/sql/undo/parser"
	"seata.apache.org/seata-go/pkg/protocol/branch"
	"seata.apache.org/seata-go/pkg/rm"
	"seata.apache.org/seata-go/pkg/tm"
	"seata.apache.org/seata-go/pkg/util/collection"

	"verifh/fakedb"
	"verifh/hutil"
	"verifh/tcstub"
)

// Driver names registered by Init.
const (
	ATDriver = "verif-at"
	XADriver = "verif-xa"
)

// DefaultParams are the DSN parameters of the seata-go samples.
const DefaultParams = "interpolateParams=true&parseTime=true&multiStatements=true"

// ---------------------------------------------------------------- scenario

// Arg is a bound argument: T one of null int uint float str bytes(hex) time bool.
type Arg struct {
	T string `json:"t"`
	V string `json:"v,omitempty"`
}

// Config is the run-time configuration applied before the steps run.
type Config struct {
	Serializer            string `json:"serializer,omitempty"`               // json (default) | protobuf
	Compress              string `json:"compress,omitempty"`                 // None (default) | Gzip | Zip | ... (compressor.CompressorType)
	DataValidation        *bool  `json:"data_validation,omitempty"`          // default true
	OnlyCareUpdateColumns *bool  `json:"only_care_update_columns,omitempty"` // default true
	LockRetryTimes        int    `json:"lock_retry_times,omitempty"`         // default 1
	LockRetryIntervalMs   int    `json:"lock_retry_interval_ms,omitempty"`   // default 1
	// AutoIncrementIncrement: fakedb's auto_increment_increment (generated keys 1, 1+n, ...; SHOW VARIABLES answers it); default 1.
	// The step `db_autoinc` {n} changes it in the middle of a scenario.
	AutoIncrementIncrement int  `json:"auto_increment_increment,omitempty"`
	ResetDiscardsTx        bool `json:"reset_discards_tx,omitempty"` // fakedb: ResetSession rolls an open tx back
	StepLimitMs            int  `json:"step_limit_ms,omitempty"`     // per-step wall-clock limit (default 10000)
}

// Step is one sequential step. See docs/ATRUN.md for the kinds.
type Step struct {
	Op   string `json:"op"`
	Via  string `json:"via,omitempty"`  // at | xa | bare ("" = Scenario.Mode)
	Conn string `json:"conn,omitempty"` // named connection ("" = the pool)
	SQL  string `json:"sql,omitempty"`
	Args []Arg  `json:"args,omitempty"`
	// Prepared: db.Prepare + stmt.Exec/Query instead of db.Exec/Query
	Prepared bool `json:"prepared,omitempty"`
	NoCtx    bool `json:"no_ctx,omitempty"` // use context.Background() even inside a global transaction
	// tx_begin options (sql.TxOptions): read-only, isolation level (sql.IsolationLevel number, 0 = default)
	ReadOnly  bool `json:"read_only,omitempty"`
	Isolation int  `json:"isolation,omitempty"`
	// Cancelable: the step runs under its own cancellable child context, which a db_fault with action
	// "cancel" cancels just before refusing the matching statement
	Cancelable bool `json:"cancelable,omitempty"`

	// gtx
	Name        string `json:"name,omitempty"`
	TimeoutMs   int    `json:"timeout_ms,omitempty"`
	Propagation int    `json:"propagation,omitempty"`
	End         string `json:"end,omitempty"`   // gtx: commit (default) | rollback (business error) | panic
	Steps       []Step `json:"steps,omitempty"` // gtx body / tc_hook body

	// faults
	Fault *fakedb.Fault `json:"fault,omitempty"`
	N     int           `json:"n,omitempty"`
	Rules []tcstub.Rule `json:"rules,omitempty"`
	Kind  string        `json:"kind,omitempty"` // tc_hook: request kind
	Skip  int           `json:"skip,omitempty"`

	// phase two
	Action   string `json:"action,omitempty"` // commit | rollback
	Gtx      int    `json:"gtx,omitempty"`    // index of the global transaction in begin order (-1: last)
	Branch   int    `json:"branch,omitempty"` // index of the branch in that transaction (-1: all, in reverse order for rollback)
	Repeat   int    `json:"repeat,omitempty"` // deliveries per branch (default 1)
	Direct   bool   `json:"direct,omitempty"` // call the resource manager directly (status only)
	Xid      string `json:"xid,omitempty"`    // explicit target instead of Gtx/Branch
	BranchID int64  `json:"branch_id,omitempty"`

	// misc
	Tables []string `json:"tables,omitempty"` // dump
	Table  string   `json:"table,omitempty"`  // tc_seed_lock
	PK     string   `json:"pk,omitempty"`
	Ms     int      `json:"ms,omitempty"` // sleep
}

// Scenario is a self-contained run.
type Scenario struct {
	Name string `json:"name"`
	Mode string `json:"mode,omitempty"` // at (default) | xa | bare
	DB   string `json:"db,omitempty"`   // schema name (default: derived from Name); a run-unique suffix is added unless FixedDB
	// FixedDB: the schema name is used as is (several scenarios of one process then share a DATABASE NAME, as several data
	// sources with equally named schemas do); the run-unique part goes into the host address instead
	FixedDB bool `json:"fixed_db,omitempty"`
	// AutoIncStep: auto_increment_increment of the scenario's server (0/1 = 1)
	AutoIncStep int      `json:"auto_inc_step,omitempty"`
	Params      string   `json:"params,omitempty"` // DSN parameters (default DefaultParams)
	Version     string   `json:"version,omitempty"`
	Config      Config   `json:"config"`
	Setup       []string `json:"setup"` // DDL + initial rows, run on the bare database before the journal starts (undo_log is created automatically)
	Steps       []Step   `json:"steps"`
}

// ---------------------------------------------------------------- trace

// Val is a driver value as database/sql delivered it.
type Val struct {
	K string `json:"k"` // null int float float32 raw rawhex str time bool other
	V string `json:"v,omitempty"`
}

// ImageCol / ImageRow / Image are a decoded undo image.
type ImageCol struct {
	Name    string `json:"name"`
	KeyType int    `json:"key_type"`
	Type    int    `json:"type"`
	Value   Val    `json:"value"`
	GoType  string `json:"go_type"`
}
type Image struct {
	Table   string       `json:"table"`
	SQLType int          `json:"sql_type"`
	Rows    [][]ImageCol `json:"rows"`
}
type UndoItem struct {
	SQLType int    `json:"sql_type"`
	Table   string `json:"table"`
	Before  *Image `json:"before"`
	After   *Image `json:"after"`
}

// UndoRow is one undo_log row, raw and decoded with the repository's parsers.
type UndoRow struct {
	Xid        string     `json:"xid"`
	BranchID   int64      `json:"branch_id"`
	Status     int64      `json:"status"`
	Context    string     `json:"context"`
	RawHex     string     `json:"raw_hex"`
	DecodeErr  string     `json:"decode_err,omitempty"`
	Serializer string     `json:"serializer,omitempty"`
	Compressor string     `json:"compressor,omitempty"`
	Items      []UndoItem `json:"items,omitempty"`
}

// StepResult is the outcome of one step.
type StepResult struct {
	Path     string                  `json:"path"` // "3" or "3.1" (nested in a gtx / hook)
	Op       string                  `json:"op"`
	Class    string                  `json:"class"`     // ok | err | panic | diverged
	ErrClass string                  `json:"err_class"` // none | sql:<n> | driver:<x> | sqlpkg:<x> | seata:<kind> | panic | diverged | other
	ErrText  string                  `json:"err_text,omitempty"`
	Affected int64                   `json:"affected"`
	LastID   int64                   `json:"last_id"`
	Columns  []string                `json:"columns,omitempty"`
	ColTypes []string                `json:"col_types,omitempty"`
	Rows     [][]Val                 `json:"rows,omitempty"`
	SeqFrom  int64                   `json:"seq_from"` // events of this step have seq_from < seq <= seq_to
	SeqTo    int64                   `json:"seq_to"`
	Xid      string                  `json:"xid,omitempty"`
	ConnID   int                     `json:"conn_id,omitempty"` // fakedb connection id behind a named connection (0 unknown)
	Undo     []UndoRow               `json:"undo,omitempty"`    // undo_log after a local COMMIT happened in this step
	Dump     []fakedb.TableDump      `json:"dump,omitempty"`
	Phase2   []tcstub.PhaseTwoResult `json:"phase2,omitempty"`
	Locks    []string                `json:"locks,omitempty"` // db_locks: row locks held in the database at this point
	Sub      []StepResult            `json:"sub,omitempty"`
}

// Event is one entry of the merged journal.
type Event struct {
	Seq int64                `json:"seq"`
	Src string               `json:"src"` // db | tc
	DB  *fakedb.JournalEntry `json:"db,omitempty"`
	TC  *tcstub.Event        `json:"tc,omitempty"`
}

// Trace is everything observable of one run.
type Trace struct {
	Scenario      string                `json:"scenario"`
	Mode          string                `json:"mode"`
	DB            string                `json:"db"`
	ResourceID    string                `json:"resource_id"`
	SetupErr      string                `json:"setup_err,omitempty"`
	Steps         []StepResult          `json:"steps"`
	Journal       []Event               `json:"journal"`
	FinalDump     []fakedb.TableDump    `json:"final_dump"`
	FinalUndo     []UndoRow             `json:"final_undo"`
	PoolReturnsTx []fakedb.JournalEntry `json:"pool_returns_in_tx"` // RESET/CLOSE entries that arrived inside an open transaction
	OpenTxAtEnd   []int                 `json:"open_tx_at_end"`
	PreparedXA    []string              `json:"prepared_xa_at_end"`
	DBLocksAtEnd  []string              `json:"db_locks_at_end"`
	TCLocksAtEnd  []string              `json:"tc_locks_at_end"`
	Globals       []tcstub.Global       `json:"globals"`
	HookResults   []StepResult          `json:"hook_results,omitempty"`
}

// ---------------------------------------------------------------- init

var (
	initOnce sync.Once
	stub     *tcstub.Stub
	runNo    int64
	runMu    sync.Mutex
)

// RepoDir is the repository under check (VERIF_REPO, default /repo).
func RepoDir() string {
	if v := os.Getenv("VERIF_REPO"); v != "" {
		return v
	}
	return "/repo"
}

// Init initialises the seata client offline, installs the coordinator stub
// and registers the proxy drivers over fakedb. Idempotent.
func Init() *tcstub.Stub {
	initOnce.Do(func() {
		stub = tcstub.Install()
		client.InitPath(filepath.Join(RepoDir(), "testdata/conf/seatago.yml"))
		seatasql.RegisterVerifDrivers(ATDriver, XADriver, fakedb.Driver)
	})
	return stub
}

func applyConfig(c Config) {
	u := undo.Config{DataValidation: true, OnlyCareUpdateColumns: true, LogSerialization: "json", LogTable: "undo_log"}
	u.CompressConfig = undo.CompressConfig{Enable: false, Type: string(compressor.CompressorNone), Threshold: "64k"}
	if c.Serializer != "" {
		u.LogSerialization = c.Serializer
	}
	if c.Compress != "" {
		u.CompressConfig.Type = c.Compress
		u.CompressConfig.Enable = true
	}
	if c.DataValidation != nil {
		u.DataValidation = *c.DataValidation
	}
	if c.OnlyCareUpdateColumns != nil {
		u.OnlyCareUpdateColumns = *c.OnlyCareUpdateColumns
	}
	undo.UndoConfig = u
	lc := rm.LockConfig{RetryTimes: 1, RetryInterval: time.Millisecond}
	if c.LockRetryTimes > 0 {
		lc.RetryTimes = c.LockRetryTimes
	}
	if c.LockRetryIntervalMs > 0 {
		lc.RetryInterval = time.Duration(c.LockRetryIntervalMs) * time.Millisecond
	}
	at.LockConfig = lc
}

// ---------------------------------------------------------------- runner

type runner struct {
	sc      Scenario
	srv     *fakedb.Server
	dsn     map[string]string
	dbs     map[string]*sql.DB
	conns   map[string]*sql.Conn
	txs     map[string]*sql.Tx
	limit   time.Duration
	tr      *Trace
	hookSeq int
	mu      sync.Mutex
}

func sanitize(s string) string {
	var sb strings.Builder
	for _, r := range strings.ToLower(s) {
		if (r >= 'a' && r <= 'z') || (r >= '0' && r <= '9') {
			sb.WriteRune(r)
		}
	}
	if sb.Len() == 0 {
		return "db"
	}
	if sb.Len() > 24 {
		return sb.String()[:24]
	}
	return sb.String()
}

// Run executes a scenario. Runs are serialised (the client, the stub and the
// undo configuration are process-wide).
func Run(sc Scenario) *Trace {
	runMu.Lock()
	defer runMu.Unlock()
	st := Init()
	st.Reset()
	st.ResetIDs()
	applyConfig(sc.Config)
	if sc.Mode == "" {
		sc.Mode = "at"
	}
	params := sc.Params
	if params == "" {
		params = DefaultParams
	}
	base := sc.DB
	if base == "" {
		base = sanitize(sc.Name)
	}
	n := atomic.AddInt64(&runNo, 1)
	dbname, host := fmt.Sprintf("%s_r%d", base, n), "127.0.0.1"
	if sc.FixedDB {
		dbname, host = base, fmt.Sprintf("10.%d.%d.%d", (n>>16)&255, (n>>8)&255, n&255)
	}
	mk := func(tag string) string {
		return fmt.Sprintf("u:p@tcp(%s:3306)/%s?%s&tag=%s", host, dbname, params, tag)
	}
	r := &runner{sc: sc, dsn: map[string]string{"at": mk("at"), "xa": mk("xa"), "bare": mk("bare")},
		dbs: map[string]*sql.DB{}, conns: map[string]*sql.Conn{}, txs: map[string]*sql.Tx{}}
	r.limit = 10 * time.Second
	if sc.Config.StepLimitMs > 0 {
		r.limit = time.Duration(sc.Config.StepLimitMs) * time.Millisecond
	}
	tr := &Trace{Scenario: sc.Name, Mode: sc.Mode, DB: dbname, Steps: []StepResult{}, Journal: []Event{}, FinalDump: []fakedb.TableDump{}, FinalUndo: []UndoRow{},
		PoolReturnsTx: []fakedb.JournalEntry{}, OpenTxAtEnd: []int{}, PreparedXA: []string{}, DBLocksAtEnd: []string{}, TCLocksAtEnd: []string{}, Globals: []tcstub.Global{}}
	r.tr = tr
	tr.ResourceID = strings.SplitN(r.dsn["at"], "?", 2)[0]
	srv, err := fakedb.Driver.Server(r.dsn["bare"])
	if err != nil {
		tr.SetupErr = err.Error()
		return tr
	}
	r.srv = srv
	srv.ResetDiscardsTx = sc.Config.ResetDiscardsTx
	if sc.Config.AutoIncrementIncrement > 0 {
		srv.SetAutoIncStep(int64(sc.Config.AutoIncrementIncrement))
	} else {
		srv.SetAutoIncStep(int64(sc.AutoIncStep))
	}
	if sc.Version != "" {
		srv.SetVersion(sc.Version)
	}
	// setup on the bare database
	bare, err := sql.Open(fakedb.BareName, mk("setup"))
	if err != nil {
		tr.SetupErr = err.Error()
		return tr
	}
	for _, q := range append([]string{fakedb.UndoDDL}, sc.Setup...) {
		if _, err := bare.Exec(q); err != nil {
			tr.SetupErr = fmt.Sprintf("%s: %v", q, err)
			bare.Close()
			return tr
		}
	}
	bare.Close()
	srv.ResetJournal()
	start := fakedb.CurSeq()

	r.runSteps(context.Background(), sc.Steps, "", &tr.Steps)

	// tear down: close named connections and pools (journalled)
	for k, t := range r.txs {
		_ = t
		delete(r.txs, k)
	}
	endSeq := fakedb.CurSeq()
	if c, x := srv.OpenTransactions(); true {
		tr.OpenTxAtEnd, tr.PreparedXA = append(tr.OpenTxAtEnd, c...), append(tr.PreparedXA, x...)
	}
	tr.DBLocksAtEnd = append(tr.DBLocksAtEnd, srv.HeldLocks()...)
	tr.TCLocksAtEnd = append(tr.TCLocksAtEnd, st.SortedLocks()...)
	tr.Globals = append(tr.Globals, st.Globals()...)
	tr.FinalDump = srv.Dump()
	tr.FinalUndo = r.undoRows()
	tr.Journal = r.merged(start, endSeq)
	for _, e := range tr.Journal {
		if e.DB != nil && e.DB.OpenTx && (e.DB.Kind == fakedb.JReset || e.DB.Kind == fakedb.JClose) {
			tr.PoolReturnsTx = append(tr.PoolReturnsTx, *e.DB)
		}
	}
	hutil.Guard(5*time.Second, func() error {
		for _, c := range r.conns {
			c.Close()
		}
		for _, d := range r.dbs {
			d.Close()
		}
		return nil
	})
	fakedb.Driver.DropServer(r.dsn["bare"])
	return tr
}

func (r *runner) merged(from, to int64) []Event {
	var out []Event
	for _, e := range r.srv.Journal(from) {
		if e.Seq <= to {
			e := e
			out = append(out, Event{Seq: e.Seq, Src: "db", DB: &e})
		}
	}
	for _, e := range stub.Log(from) {
		if e.Seq <= to {
			e := e
			out = append(out, Event{Seq: e.Seq, Src: "tc", TC: &e})
		}
	}
	sort.Slice(out, func(i, j int) bool { return out[i].Seq < out[j].Seq })
	if out == nil {
		out = []Event{}
	}
	return out
}

func (r *runner) via(s Step) string {
	v := s.Via
	if v == "" {
		v = r.sc.Mode
	}
	return v
}

func (r *runner) db(via string) (*sql.DB, error) {
	if d, ok := r.dbs[via]; ok {
		return d, nil
	}
	name := map[string]string{"at": ATDriver, "xa": XADriver, "bare": fakedb.BareName}[via]
	if name == "" {
		return nil, fmt.Errorf("atrun: unknown via %q", via)
	}
	d, err := sql.Open(name, r.dsn[via])
	if err != nil {
		return nil, err
	}
	r.dbs[via] = d
	return d, nil
}

func goArg(a Arg) (interface{}, error) {
	switch a.T {
	case "null", "":
		return nil, nil
	case "int":
		return strconv.ParseInt(a.V, 10, 64)
	case "uint":
		return strconv.ParseUint(a.V, 10, 64)
	case "float":
		return strconv.ParseFloat(a.V, 64)
	case "str":
		return a.V, nil
	case "bytes":
		return hex.DecodeString(a.V)
	case "bool":
		return a.V == "true" || a.V == "1", nil
	case "time":
		for _, l := range []string{time.RFC3339Nano, "2006-01-02 15:04:05.999999", "2006-01-02"} {
			if t, err := time.Parse(l, a.V); err == nil {
				return t, nil
			}
		}
		return nil, fmt.Errorf("atrun: bad time %q", a.V)
	}
	return nil, fmt.Errorf("atrun: unknown arg type %q", a.T)
}

// ToVal renders a driver value.
func ToVal(v interface{}) Val {
	switch x := v.(type) {
	case nil:
		return Val{K: "null"}
	case int64:
		return Val{K: "int", V: strconv.FormatInt(x, 10)}
	case uint64:
		return Val{K: "uint", V: strconv.FormatUint(x, 10)}
	case int, int8, int16, int32, uint, uint8, uint16, uint32:
		return Val{K: "int", V: fmt.Sprint(x)}
	case float64:
		return Val{K: "float", V: strconv.FormatFloat(x, 'g', -1, 64)}
	case float32:
		return Val{K: "float32", V: strconv.FormatFloat(float64(x), 'g', -1, 32)}
	case []byte:
		if utf8.Valid(x) {
			return Val{K: "raw", V: string(x)}
		}
		return Val{K: "rawhex", V: hex.EncodeToString(x)}
	case string:
		if utf8.ValidString(x) {
			return Val{K: "str", V: x}
		}
		return Val{K: "strhex", V: hex.EncodeToString([]byte(x))}
	case time.Time:
		return Val{K: "time", V: x.UTC().Format("2006-01-02 15:04:05.000000")}
	case bool:
		return Val{K: "bool", V: strconv.FormatBool(x)}
	}
	return Val{K: "other", V: fmt.Sprintf("%T:%v", v, v)}
}

// ClassifyErr maps an error of the code under test to a stable class.
func ClassifyErr(err error) string {
	if err == nil {
		return "none"
	}
	var me *mysql.MySQLError
	if errors.As(err, &me) {
		return "sql:" + strconv.Itoa(int(me.Number))
	}
	switch {
	case errors.Is(err, driver.ErrBadConn):
		return "driver:badconn"
	case errors.Is(err, mysql.ErrInvalidConn):
		return "driver:invalidconn"
	case errors.Is(err, sql.ErrNoRows):
		return "sqlpkg:norows"
	case errors.Is(err, sql.ErrTxDone):
		return "sqlpkg:txdone"
	case errors.Is(err, sql.ErrConnDone):
		return "sqlpkg:conndone"
	case errors.Is(err, context.Canceled), errors.Is(err, context.DeadlineExceeded):
		return "ctx"
	}
	return ClassifyText(err.Error())
}

// ClassifyText classifies by message text (errors that crossed fmt.Errorf("%v")).
func ClassifyText(t string) string {
	l := strings.ToLower(t)
	switch {
	case strings.Contains(l, "atrun: business error"):
		if strings.Contains(l, "second phase error: <nil>") {
			return "business"
		}
		return "business+phase2"
	case strings.Contains(l, "global lock acquire failed"), strings.Contains(l, "lock conflict"), strings.Contains(l, "get lock failed"), strings.Contains(l, "global lock"):
		return "seata:lock-conflict"
	case strings.Contains(l, "tcstub: transport"):
		return "seata:transport"
	case strings.Contains(l, "wait response timeout"), strings.Contains(l, "no reply"):
		return "seata:noreply"
	case strings.Contains(l, "tcstub:"):
		return "seata:tc-failed"
	case strings.Contains(l, "invalid conn"):
		return "seata:invalid-conn"
	case strings.Contains(l, "near \"") && strings.Contains(l, "line "), strings.Contains(l, "syntax error"):
		return "seata:parse"
	case strings.Contains(l, "error 1") && strings.Contains(l, "fakedb: injected"):
		return "sql:injected"
	case strings.Contains(l, "could not found global transaction"):
		return "seata:unknown-xid"
	case strings.Contains(l, "dirty"):
		return "seata:dirty"
	}
	if i := strings.Index(t, "Error "); i >= 0 {
		// "Error 1062: ..." inside wrapped text
		rest := t[i+6:]
		j := 0
		for j < len(rest) && rest[j] >= '0' && rest[j] <= '9' {
			j++
		}
		if j >= 4 && j <= 5 {
			return "sql:" + rest[:j]
		}
	}
	return "other"
}

func (r *runner) runSteps(ctx context.Context, steps []Step, prefix string, out *[]StepResult) {
	for i, s := range steps {
		path := strconv.Itoa(i)
		if prefix != "" {
			path = prefix + "." + path
		}
		*out = append(*out, r.runStep(ctx, s, path))
	}
}

func (r *runner) runStep(ctx context.Context, s Step, path string) StepResult {
	res := StepResult{Path: path, Op: s.Op, ErrClass: "none"}
	res.SeqFrom = fakedb.CurSeq()
	var err error
	var class, detail string
	switch s.Op {
	case "gtx":
		class, detail, err = r.gtx(ctx, s, path, &res)
	default:
		class, detail = hutil.Guard(r.limit, func() error {
			err = r.simple(ctx, s, path, &res)
			return nil
		})
	}
	res.Class = class
	switch class {
	case hutil.OutPanic:
		res.ErrClass, res.ErrText = "panic", firstLine(detail)
	case hutil.OutDiverged:
		res.ErrClass, res.ErrText = "diverged", detail
	default:
		if err != nil {
			res.Class = hutil.OutErr
			res.ErrClass, res.ErrText = ClassifyErr(err), err.Error()
		}
	}
	res.SeqTo = fakedb.CurSeq()
	for _, e := range r.srv.Journal(res.SeqFrom) {
		if e.Seq <= res.SeqTo && e.Kind == fakedb.JCommit && e.Err == "" {
			res.Undo = r.undoRows()
			break
		}
	}
	return res
}

func firstLine(s string) string {
	if i := strings.IndexByte(s, '\n'); i >= 0 {
		return s[:i]
	}
	return s
}

func (r *runner) gtx(ctx context.Context, s Step, path string, res *StepResult) (string, string, error) {
	name := s.Name
	if name == "" {
		name = "gtx-" + path
	}
	var err error
	limit := r.limit * time.Duration(len(s.Steps)+2)
	class, detail := hutil.Guard(limit, func() error {
		err = tm.WithGlobalTx(ctx, &tm.GtxConfig{Name: name, Timeout: time.Duration(s.TimeoutMs) * time.Millisecond, Propagation: tm.Propagation(s.Propagation)},
			func(gctx context.Context) error {
				res.Xid = tm.GetXID(gctx)
				r.runSteps(gctx, s.Steps, path, &res.Sub)
				switch s.End {
				case "rollback":
					return errors.New("atrun: business error (scenario asks for rollback)")
				case "panic":
					panic("atrun: business panic (scenario asks for it)")
				}
				return nil
			})
		return nil
	})
	return class, detail, err
}

func (r *runner) stepCtx(ctx context.Context, s Step) context.Context {
	if s.NoCtx {
		return context.Background()
	}
	return ctx
}

func (r *runner) namedConn(ctx context.Context, via, name string) (*sql.Conn, error) {
	key := via + ":" + name
	if c, ok := r.conns[key]; ok {
		return c, nil
	}
	d, err := r.db(via)
	if err != nil {
		return nil, err
	}
	c, err := d.Conn(ctx)
	if err != nil {
		return nil, err
	}
	r.conns[key] = c
	return c, nil
}

type execer interface {
	ExecContext(ctx context.Context, q string, args ...interface{}) (sql.Result, error)
	QueryContext(ctx context.Context, q string, args ...interface{}) (*sql.Rows, error)
	PrepareContext(ctx context.Context, q string) (*sql.Stmt, error)
}

func (r *runner) target(ctx context.Context, s Step) (execer, error) {
	via := r.via(s)
	if s.Conn == "" {
		return r.db(via)
	}
	key := via + ":" + s.Conn
	if t, ok := r.txs[key]; ok {
		return t, nil
	}
	return r.namedConn(ctx, via, s.Conn)
}

func (r *runner) simple(ctx context.Context, s Step, path string, res *StepResult) error {
	ctx = r.stepCtx(ctx, s)
	if s.Cancelable {
		var cancel context.CancelFunc
		ctx, cancel = context.WithCancel(ctx)
		r.srv.SetCancel(cancel)
		defer func() { r.srv.SetCancel(nil); cancel() }()
	}
	via := r.via(s)
	switch s.Op {
	case "exec", "query":
		args := make([]interface{}, len(s.Args))
		for i, a := range s.Args {
			v, err := goArg(a)
			if err != nil {
				return err
			}
			args[i] = v
		}
		tg, err := r.target(ctx, s)
		if err != nil {
			return err
		}
		if s.Conn != "" {
			if c, ok := r.conns[via+":"+s.Conn]; ok {
				c.Raw(func(dc interface{}) error { res.ConnID = connID(dc); return nil })
			}
		}
		if s.Op == "exec" {
			var rs sql.Result
			if s.Prepared {
				st, err := tg.PrepareContext(ctx, s.SQL)
				if err != nil {
					return err
				}
				defer st.Close()
				rs, err = st.ExecContext(ctx, args...)
				if err != nil {
					return err
				}
			} else if rs, err = tg.ExecContext(ctx, s.SQL, args...); err != nil {
				return err
			}
			res.Affected, _ = rs.RowsAffected()
			res.LastID, _ = rs.LastInsertId()
			return nil
		}
		var rows *sql.Rows
		if s.Prepared {
			st, err := tg.PrepareContext(ctx, s.SQL)
			if err != nil {
				return err
			}
			defer st.Close()
			if rows, err = st.QueryContext(ctx, args...); err != nil {
				return err
			}
		} else if rows, err = tg.QueryContext(ctx, s.SQL, args...); err != nil {
			return err
		}
		defer rows.Close()
		cols, err := rows.Columns()
		if err != nil {
			return err
		}
		res.Columns = cols
		if cts, err := rows.ColumnTypes(); err == nil {
			for _, ct := range cts {
				res.ColTypes = append(res.ColTypes, ct.DatabaseTypeName())
			}
		}
		res.Rows = [][]Val{}
		for rows.Next() {
			vals := make([]interface{}, len(cols))
			ptrs := make([]interface{}, len(cols))
			for i := range vals {
				ptrs[i] = &vals[i]
			}
			if err := rows.Scan(ptrs...); err != nil {
				return err
			}
			row := make([]Val, len(cols))
			for i, v := range vals {
				row[i] = ToVal(v)
			}
			res.Rows = append(res.Rows, row)
		}
		return rows.Err()
	case "tx_begin":
		name := s.Conn
		if name == "" {
			return errors.New("atrun: tx_begin needs a conn name")
		}
		if _, open := r.txs[via+":"+name]; open {
			return errors.New("atrun: a tx is already open on conn " + name) // database/sql would block for ever
		}
		c, err := r.namedConn(ctx, via, name)
		if err != nil {
			return err
		}
		c.Raw(func(dc interface{}) error { res.ConnID = connID(dc); return nil })
		var topts *sql.TxOptions
		if s.ReadOnly || s.Isolation != 0 {
			topts = &sql.TxOptions{ReadOnly: s.ReadOnly, Isolation: sql.IsolationLevel(s.Isolation)}
		}
		t, err := c.BeginTx(ctx, topts)
		if err != nil {
			return err
		}
		r.txs[via+":"+name] = t
		return nil
	case "tx_commit", "tx_rollback":
		key := via + ":" + s.Conn
		t, ok := r.txs[key]
		if !ok {
			return errors.New("atrun: no open tx on conn " + s.Conn)
		}
		delete(r.txs, key)
		if s.Op == "tx_commit" {
			return t.Commit()
		}
		return t.Rollback()
	case "conn_close":
		key := via + ":" + s.Conn
		c, ok := r.conns[key]
		if !ok {
			return nil
		}
		delete(r.conns, key)
		delete(r.txs, key)
		return c.Close()
	case "db_fault":
		if s.Fault != nil {
			r.srv.AddFault(*s.Fault)
		}
		return nil
	case "meta_refresh":
		// a second handle of the AT proxy on the same data source: opening it installs a fresh table-meta cache
		// (what an expiry / refresh / another instance does): the next statement loads its table metadata again
		d, err := sql.Open(ATDriver, r.dsn["at"])
		if err != nil {
			return err
		}
		r.dbs[fmt.Sprintf("at#%d", len(r.dbs))] = d
		return nil
	case "meta_real_refresh":
		// the REAL background refresh of the current table-meta cache (verif hook), then time for its pass to finish
		if c, ok := datasource.GetTableCache(types.DBTypeMySQL).(interface{ VerifRefreshNow() }); ok {
			c.VerifRefreshNow()
			time.Sleep(60 * time.Millisecond)
			return nil
		}
		return fmt.Errorf("atrun: the table-meta cache has no VerifRefreshNow hook")
	case "db_autoinc":
		r.srv.SetAutoIncStep(int64(s.N))
		return nil
	case "db_locks":
		res.Locks = append([]string{}, r.srv.HeldLocks()...)
		return nil
	case "db_hook":
		// run Steps (background context) right after the database call selected by Fault (action forced to "call")
		if s.Fault != nil {
			body := s.Steps
			r.srv.OnCall(func() {
				var sub []StepResult
				r.runSteps(context.Background(), body, "dbhook"+path, &sub)
				r.mu.Lock()
				r.tr.HookResults = append(r.tr.HookResults, sub...)
				r.mu.Unlock()
			})
			f := *s.Fault
			f.Action = "call"
			r.srv.AddFault(f)
		}
		return nil
	case "db_fault_clear":
		r.srv.ClearFaults()
		r.srv.OnCall(nil)
		return nil
	case "db_fail_connect":
		r.srv.FailConnect(s.N)
		return nil
	case "tc_script":
		stub.Script(s.Rules...)
		return nil
	case "tc_hook":
		r.hookSeq++
		name := fmt.Sprintf("hook%d", r.hookSeq)
		body := s.Steps
		stub.OnHook(name, func(ev tcstub.Event) {
			var sub []StepResult
			r.runSteps(context.Background(), body, "hook"+path, &sub)
			r.mu.Lock()
			r.tr.HookResults = append(r.tr.HookResults, sub...)
			r.mu.Unlock()
		})
		stub.Script(tcstub.Rule{Kind: s.Kind, Skip: s.Skip, Action: "hook", Hook: name})
		return nil
	case "tc_seed_lock":
		x := s.Xid
		if x == "" {
			x = "foreign"
		}
		stub.SeedLock(r.tr.ResourceID, s.Table, s.PK, x)
		return nil
	case "tc_release":
		stub.ReleaseXid(s.Xid)
		return nil
	case "phase2":
		return r.phase2(s, res)
	case "dump":
		if len(s.Tables) == 0 {
			res.Dump = r.srv.Dump()
		}
		for _, t := range s.Tables {
			if d, ok := r.srv.DumpTable(t); ok {
				res.Dump = append(res.Dump, d)
			}
		}
		res.Undo = r.undoRows()
		return nil
	case "sleep":
		time.Sleep(time.Duration(s.Ms) * time.Millisecond)
		return nil
	}
	return fmt.Errorf("atrun: unknown op %q", s.Op)
}

func connID(dc interface{}) int {
	if id, ok := fakedb.ConnID(dc); ok {
		return id
	}
	return 0
}

func (r *runner) phase2(s Step, res *StepResult) error {
	type tgt struct {
		xid string
		id  int64
		res string
		bt  int
		app string
	}
	var tgts []tgt
	if s.Xid != "" {
		tgts = append(tgts, tgt{s.Xid, s.BranchID, r.tr.ResourceID, int(branch.BranchTypeAT), ""})
	} else {
		gs := stub.Globals()
		gi := s.Gtx
		if gi < 0 {
			gi = len(gs) + gi
		}
		if gi < 0 || gi >= len(gs) {
			return fmt.Errorf("atrun: phase2: no global transaction %d", s.Gtx)
		}
		bs := gs[gi].Branches
		if s.Branch >= 0 {
			if s.Branch >= len(bs) {
				return fmt.Errorf("atrun: phase2: no branch %d", s.Branch)
			}
			bs = bs[s.Branch : s.Branch+1]
		}
		for _, b := range bs {
			tgts = append(tgts, tgt{b.Xid, b.ID, b.ResourceID, b.Type, b.AppData})
		}
		if s.Action != "commit" {
			for i, j := 0, len(tgts)-1; i < j; i, j = i+1, j-1 {
				tgts[i], tgts[j] = tgts[j], tgts[i]
			}
		}
	}
	rep := s.Repeat
	if rep <= 0 {
		rep = 1
	}
	for _, t := range tgts {
		for k := 0; k < rep; k++ {
			if s.Direct {
				var st branch.BranchStatus
				var err error
				class, detail := hutil.Guard(r.limit, func() error {
					rmgr := rm.GetRmCacheInstance().GetResourceManager(branch.BranchType(t.bt))
					br := rm.BranchResource{BranchType: branch.BranchType(t.bt), ResourceId: t.res, Xid: t.xid, BranchId: t.id, ApplicationData: []byte(t.app)}
					if s.Action == "commit" {
						st, err = rmgr.BranchCommit(context.Background(), br)
					} else {
						st, err = rmgr.BranchRollback(context.Background(), br)
					}
					return nil
				})
				p := tcstub.PhaseTwoResult{Class: class, Detail: firstLine(detail), Status: int(st), Xid: t.xid, BranchID: t.id, ResultCode: 1}
				if err != nil {
					p.ResultCode, p.Msg = 0, err.Error()
				}
				res.Phase2 = append(res.Phase2, p)
				continue
			}
			p := stub.Deliver(s.Action == "commit", t.xid, t.id, t.res, branch.BranchType(t.bt), []byte(t.app), r.limit)
			p.Detail = firstLine(p.Detail)
			res.Phase2 = append(res.Phase2, p)
		}
	}
	return nil
}

// ---------------------------------------------------------------- undo_log decoding

func (r *runner) undoRows() []UndoRow {
	cols, rows := r.srv.RawRows("undo_log")
	idx := map[string]int{}
	for i, c := range cols {
		idx[strings.ToLower(c)] = i
	}
	out := []UndoRow{}
	for _, row := range rows {
		u := UndoRow{Xid: row[idx["xid"]].S, BranchID: row[idx["branch_id"]].I, Status: row[idx["log_status"]].I,
			Context: row[idx["context"]].S}
		raw := []byte(row[idx["rollback_info"]].S)
		u.RawHex = hex.EncodeToString(raw)
		decodeUndo(&u, raw)
		out = append(out, u)
	}
	sort.SliceStable(out, func(i, j int) bool {
		if out[i].Xid != out[j].Xid {
			return out[i].Xid < out[j].Xid
		}
		return out[i].BranchID < out[j].BranchID
	})
	return out
}

// decodeUndo decodes rollback_info the way BaseUndoLogManager.Undo does.
func decodeUndo(u *UndoRow, raw []byte) {
	defer func() {
		if p := recover(); p != nil {
			u.DecodeErr = fmt.Sprintf("panic: %v", p)
		}
	}()
	ctx := collection.DecodeMap([]byte(u.Context))
	u.Serializer, u.Compressor = ctx["serializerKey"], ctx["compressorTypeKey"]
	data := raw
	if v, ok := ctx["compressorTypeKey"]; ok {
		d, err := compressor.CompressorType(v).GetCompressor().Decompress(raw)
		if err != nil {
			u.DecodeErr = "decompress: " + err.Error()
			return
		}
		data = d
	}
	if u.Serializer == "" {
		u.DecodeErr = "no serializer in context"
		return
	}
	p, err := undoparser.GetCache().Load(u.Serializer)
	if err != nil {
		u.DecodeErr = "parser: " + err.Error()
		return
	}
	bl, err := p.Decode(data)
	if err != nil {
		u.DecodeErr = "decode: " + err.Error()
		return
	}
	for _, l := range bl.Logs {
		it := UndoItem{SQLType: int(l.SQLType), Table: l.TableName}
		for k := 0; k < 2; k++ {
			src := l.BeforeImage
			if k == 1 {
				src = l.AfterImage
			}
			if src == nil {
				continue
			}
			img := &Image{Table: src.TableName, SQLType: int(src.SQLType), Rows: [][]ImageCol{}}
			for _, rw := range src.Rows {
				var cs []ImageCol
				for _, c := range rw.Columns {
					cs = append(cs, ImageCol{Name: c.ColumnName, KeyType: int(c.KeyType), Type: int(c.ColumnType), Value: ToVal(c.Value), GoType: fmt.Sprintf("%T", c.Value)})
				}
				img.Rows = append(img.Rows, cs)
			}
			if k == 0 {
				it.Before = img
			} else {
				it.After = img
			}
		}
		u.Items = append(u.Items, it)
	}
}
