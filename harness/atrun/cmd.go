package atrun

import (
	"encoding/json"
	"fmt"
	"os"

	"verifh/hutil"
)

// Generators by name: func(rng, index) Scenario. Add yours with Register.
var generators = map[string]func(r *hutil.Rng, i int) Scenario{}

// Register adds a scenario generator usable as `atrun gen=<name>`.
func Register(name string, g func(r *hutil.Rng, i int) Scenario) { generators[name] = g }

// Generate produces n scenarios of a generator from a seed.
func Generate(name string, seed uint64, n int) ([]Scenario, error) {
	g, ok := generators[name]
	if !ok {
		return nil, fmt.Errorf("atrun: unknown generator %q", name)
	}
	rng := hutil.NewRng(seed)
	out := make([]Scenario, 0, n)
	for i := 0; i < n; i++ {
		out = append(out, g(rng.Fork(uint64(i)), i))
	}
	return out, nil
}

// Output of the sub-command.
type Output struct {
	Scenarios []Scenario `json:"scenarios,omitempty"`
	Traces    []*Trace   `json:"traces"`
}

// Main is the `atrun` sub-command:
//
//	atrun scenario=<file.json> out=<trace.json>       run one scenario (or a JSON array of scenarios)
//	atrun gen=<name> seed=<n> n=<k> out=<file.json>   generate k scenarios and run them
//	                 [emit=1: only write the scenarios, do not run]
func Main(args map[string]string) {
	out := hutil.ArgStr(args, "out", "")
	if out == "" {
		fmt.Fprintln(os.Stderr, "atrun: out= is required")
		os.Exit(2)
	}
	var scs []Scenario
	if f := hutil.ArgStr(args, "scenario", ""); f != "" {
		b, err := os.ReadFile(f)
		if err != nil {
			fmt.Fprintln(os.Stderr, "atrun:", err)
			os.Exit(2)
		}
		var one Scenario
		if err := json.Unmarshal(b, &one); err == nil && (one.Name != "" || len(one.Steps) > 0) {
			scs = []Scenario{one}
		} else if err := json.Unmarshal(b, &scs); err != nil {
			fmt.Fprintln(os.Stderr, "atrun: cannot parse scenario file:", err)
			os.Exit(2)
		}
	} else {
		var err error
		scs, err = Generate(hutil.ArgStr(args, "gen", "smoke"), hutil.ArgU64(args, "seed", 1), hutil.ArgInt(args, "n", 1))
		if err != nil {
			fmt.Fprintln(os.Stderr, err)
			os.Exit(2)
		}
	}
	o := Output{Traces: []*Trace{}}
	if hutil.ArgInt(args, "emit", 0) == 1 {
		o.Scenarios = scs
		hutil.WriteJSON(out, o)
		return
	}
	if hutil.ArgInt(args, "with_scenarios", 0) == 1 {
		o.Scenarios = scs
	}
	for _, sc := range scs {
		o.Traces = append(o.Traces, Run(sc))
	}
	hutil.WriteJSON(out, o)
}
