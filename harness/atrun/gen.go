package atrun

import (
	"fmt"
	"strconv"

	"verifh/hutil"
)

// UserDDL is the table of the smoke scenario.
const UserDDL = "CREATE TABLE t_user (id BIGINT NOT NULL AUTO_INCREMENT, name VARCHAR(32) DEFAULT NULL, age INT NOT NULL DEFAULT 0, PRIMARY KEY (id))"

func I(n int64) Arg      { return Arg{T: "int", V: strconv.FormatInt(n, 10)} }
func S(s string) Arg     { return Arg{T: "str", V: s} }
func NullArg() Arg       { return Arg{T: "null"} }
func boolp(b bool) *bool { return &b }

// Smoke: a parametrised UPDATE inside a global transaction that is rolled
// back, then phase-two rollback of the branch, then the same committed.
func Smoke(r *hutil.Rng, i int) Scenario {
	return Scenario{
		Name:  fmt.Sprintf("smoke-%d", i),
		Setup: []string{UserDDL, "INSERT INTO t_user (id, name, age) VALUES (1, 'Jack', 10), (2, 'Rose', 20)"},
		Steps: []Step{
			{Op: "exec", SQL: "UPDATE t_user SET age = age + 1 WHERE id = 2"},
			{Op: "gtx", End: "rollback", Steps: []Step{
				{Op: "exec", SQL: "UPDATE t_user SET name = ? WHERE id = ?", Args: []Arg{S("Jim"), I(1)}},
				{Op: "dump", Tables: []string{"t_user"}},
			}},
			{Op: "phase2", Action: "rollback", Gtx: -1, Branch: -1},
			{Op: "dump"},
			{Op: "gtx", Steps: []Step{
				{Op: "exec", SQL: "INSERT INTO t_user (name, age) VALUES (?, ?)", Args: []Arg{S("Ann"), I(int64(30 + r.Intn(10)))}},
				{Op: "exec", SQL: "DELETE FROM t_user WHERE id = ?", Args: []Arg{I(2)}},
				{Op: "query", SQL: "SELECT id, name, age FROM t_user ORDER BY id"},
			}},
			{Op: "phase2", Action: "commit", Gtx: -1, Branch: -1},
			{Op: "dump"},
		},
	}
}

// Mix: random DML inside and outside global transactions on one table, with
// optional phase two; a template for property-specific generators.
func Mix(r *hutil.Rng, i int) Scenario {
	sc := Scenario{Name: fmt.Sprintf("mix-%d", i), Setup: []string{UserDDL}}
	nrows := 2 + r.Intn(4)
	for k := 1; k <= nrows; k++ {
		sc.Setup = append(sc.Setup, fmt.Sprintf("INSERT INTO t_user (id, name, age) VALUES (%d, 'n%d', %d)", k, k, 10*k))
	}
	if r.Chance(1, 3) {
		sc.Config.Serializer = "protobuf"
	}
	dml := func() Step {
		id := int64(1 + r.Intn(nrows+1))
		switch r.Intn(4) {
		case 0:
			return Step{Op: "exec", SQL: "UPDATE t_user SET age = ? WHERE id = ?", Args: []Arg{I(int64(r.Intn(100))), I(id)}}
		case 1:
			return Step{Op: "exec", SQL: "INSERT INTO t_user (name, age) VALUES (?, ?)", Args: []Arg{S("x" + strconv.Itoa(r.Intn(50))), I(int64(r.Intn(100)))}}
		case 2:
			return Step{Op: "exec", SQL: "DELETE FROM t_user WHERE id = ?", Args: []Arg{I(id)}}
		}
		return Step{Op: "query", SQL: "SELECT id, name, age FROM t_user WHERE id <= ? ORDER BY id", Args: []Arg{I(id)}}
	}
	for k := 0; k < 2+r.Intn(3); k++ {
		if r.Chance(1, 2) {
			sc.Steps = append(sc.Steps, dml())
			continue
		}
		g := Step{Op: "gtx"}
		for j := 0; j < 1+r.Intn(3); j++ {
			g.Steps = append(g.Steps, dml())
		}
		act := "commit"
		if r.Chance(1, 2) {
			g.End, act = "rollback", "rollback"
		}
		sc.Steps = append(sc.Steps, g, Step{Op: "phase2", Action: act, Gtx: -1, Branch: -1}, Step{Op: "dump"})
	}
	return sc
}

func init() {
	Register("smoke", Smoke)
	Register("mix", Mix)
}
