// Package frame (C13): drives the REAL RpcPackageHandler.Read / Write of
// pkg/remoting/getty exactly as getty's session.handleTCPPackage does and
// records what it observed; the driver compares it with the Coq model
// (coq/Frame/FrameModel.v).  The property's own statement is evaluated here on
// the real code (direct oracle): on streams of written frames the deliveries
// are the original messages in order; on strict prefixes Read answers "need
// more" without a package or an error; on arbitrary bytes no panic, no hang,
// no package with consumed 0.
package frame

import (
	"bytes"
	"encoding/hex"
	"encoding/json"
	"fmt"
	"os"
	"reflect"
	"sort"
	"time"

	gxbytes "github.com/dubbogo/gost/bytes"

	"seata.apache.org/seata-go/pkg/protocol/branch"
	"seata.apache.org/seata-go/pkg/protocol/codec"
	"seata.apache.org/seata-go/pkg/protocol/message"
	"seata.apache.org/seata-go/pkg/remoting/getty"

	"verifh/hutil"
)

// ---- observables ----

type Msg struct {
	ID    uint32      `json:"id"`
	Type  int         `json:"type"`
	Codec int         `json:"codec"`
	Comp  int         `json:"comp"`
	Head  [][2]string `json:"head"` // sorted by key, hex
	// Body: the bytes of the frame the body was decoded from, PROVIDED decoding those
	// bytes independently with the real CodecManager gives a value deeply equal to the
	// delivered Body (heart-beats: the ping/pong constant and no bytes); otherwise
	// BodyOK is false and Body carries the re-encoded delivered value.
	Body   string `json:"body"`
	BodyOK bool   `json:"bodyok"`
}

type Res struct {
	C      string `json:"c"` // err | need | msg | panic | diverged
	N      int    `json:"n"`
	M      *Msg   `json:"m,omitempty"`
	Detail string `json:"detail,omitempty"`
	Stall  bool   `json:"stall,omitempty"` // "need more" although a complete frame is at the head of the buffer
}

type Ev struct {
	E string `json:"e"` // deliver | close | spin | panic | diverged
	M *Msg   `json:"m,omitempty"`
}

type ReadCase struct {
	Kind   string `json:"kind"`
	Data   string `json:"data"`
	Res    Res    `json:"res"`
	// the same bytes given to a handler instance that has served other calls before
	// (History: the buffers of those calls): Read must answer the same
	History []string `json:"history,omitempty"`
	After   *Res     `json:"after,omitempty"`
	Oracle  string   `json:"oracle"`
}

// two connections served by one handler instance
type InterleaveCase struct {
	Kind   string   `json:"kind"`
	A      string   `json:"a"`     // bytes connection A receives (cut off mid-frame)
	B      string   `json:"b"`     // bytes connection B receives (complete frames)
	Sched  [][2]int `json:"sched"` // arrival order: [side (0 = A, 1 = B), chunk length]
	EvA    []Ev     `json:"ev_a"`
	EvB    []Ev     `json:"ev_b"`
	WantA  []Msg    `json:"want_a"`
	WantB  []Msg    `json:"want_b"`
	Oracle string   `json:"oracle"`
}

type PrefixCase struct {
	Kind   string `json:"kind"`
	Data   string `json:"data"`
	Tbl    []Res  `json:"tbl"`
	Obs    []int  `json:"obs"` // per prefix length 0..len(data): index into Tbl
	Frames []int  `json:"frames"`
	Want   []Msg  `json:"want,omitempty"`
	Oracle string `json:"oracle"`
	BadAt  int    `json:"bad_at"`
}

type Part struct {
	Lens []int `json:"lens"`
	Ev   int   `json:"ev"`
}

type DriveCase struct {
	Kind   string  `json:"kind"`
	Data   string  `json:"data"`
	Tbl    [][]Ev  `json:"tbl"`
	Parts  []Part  `json:"parts"`
	BadFrame int   `json:"bad_frame"` // index of the frame with an undecodable body (-1: none)
	NMsgs  int     `json:"nmsgs"` // messages written into the stream (valid streams), -1 for garbage
	Oracle string  `json:"oracle"`
	BadAt  int     `json:"bad_at"`
	Want   []Msg   `json:"want,omitempty"`
}

type WriteCase struct {
	M      Msg    `json:"m"`
	Out    string `json:"out"`
	Oracle string `json:"oracle"`
}

type Result struct {
	Reads     []ReadCase   `json:"reads"`
	Prefixes  []PrefixCase `json:"prefixes"`
	Drives    []DriveCase  `json:"drives"`
	Writes    []WriteCase  `json:"writes"`
	Interleaves []InterleaveCase `json:"interleaves"`
	ReadCalls int          `json:"read_calls"`
	Aborted   string       `json:"aborted"`
}

var (
	// the handler under test. One instance serves every session of the real client; here every
	// case starts with a fresh one (so that a case replays in isolation) and uses it for all the
	// calls / connections of the case
	handler   = &getty.RpcPackageHandler{}
	readCalls int
	diverged  int
)

const readLimit = 5 * time.Second

func hx(b []byte) string { return hex.EncodeToString(b) }

func headOf(m map[string]string) [][2]string {
	keys := make([]string, 0, len(m))
	for k := range m {
		keys = append(keys, k)
	}
	sort.Strings(keys)
	out := make([][2]string, 0, len(keys))
	for _, k := range keys {
		out = append(out, [2]string{hx([]byte(k)), hx([]byte(m[k]))})
	}
	return out
}

// decodeGuarded decodes body bytes with the real codec manager; a panic is reported
func decodeGuarded(ct byte, b []byte) (v interface{}, panicked bool) {
	defer func() {
		if p := recover(); p != nil {
			panicked = true
		}
	}()
	return codec.GetCodecManager().Decode(codec.CodecType(ct), b), false
}

func encodeGuarded(ct byte, v interface{}) (b []byte) {
	defer func() {
		if p := recover(); p != nil {
			b = []byte("<<unencodable>>")
		}
	}()
	if v == nil {
		return nil
	}
	return codec.GetCodecManager().Encode(codec.CodecType(ct), v)
}

// observe turns a delivered RpcMessage into the compared record. `data` is the
// buffer Read was called on.
func observe(rm message.RpcMessage, data []byte) *Msg {
	m := &Msg{ID: uint32(rm.ID), Type: int(rm.Type), Codec: int(rm.Codec), Comp: int(rm.Compressor), Head: headOf(rm.HeadMap)}
	switch rm.Type {
	case message.GettyRequestTypeHeartbeatRequest:
		m.BodyOK = reflect.DeepEqual(rm.Body, message.HeartBeatMessagePing)
	case message.GettyRequestTypeHeartbeatResponse:
		m.BodyOK = reflect.DeepEqual(rm.Body, message.HeartBeatMessagePong)
	default:
		// the harness' own reading of the two length fields (fixed offsets)
		if len(data) >= 16 {
			total := int(uint32(data[3])<<24 | uint32(data[4])<<16 | uint32(data[5])<<8 | uint32(data[6]))
			hl := int(uint16(data[7])<<8 | uint16(data[8]))
			if hl >= 16 && hl <= total && total <= len(data) {
				slice := data[hl:total]
				var exp interface{}
				pan := false
				if len(slice) > 0 {
					exp, pan = decodeGuarded(rm.Codec, slice)
				}
				if !pan && reflect.DeepEqual(exp, rm.Body) {
					m.BodyOK = true
					m.Body = hx(slice)
				}
			}
		}
	}
	if !m.BodyOK {
		enc := encodeGuarded(rm.Codec, rm.Body)
		if len(enc) > 96 { // a body fabricated from bytes outside the frame can be huge
			enc = enc[:96]
		}
		m.Body = hx(append([]byte("<<body differs>>"), enc...))
	}
	return m
}

// readOnce calls the real Read on an exact-size copy of buf under a guard.
func freshHandler() { handler = &getty.RpcPackageHandler{} }

// completeFrame: the harness' own reading of the fixed header: a complete, well-delimited
// frame is at the head of the buffer (magic, 16 <= head length <= total length <= available)
func completeFrame(data []byte) bool {
	if len(data) < 16 || data[0] != 0xda || data[1] != 0xda {
		return false
	}
	total := int(uint32(data[3])<<24 | uint32(data[4])<<16 | uint32(data[5])<<8 | uint32(data[6]))
	hl := int(uint16(data[7])<<8 | uint16(data[8]))
	return hl >= 16 && hl <= total && total <= len(data)
}

func readOnce(buf []byte) Res {
	data := make([]byte, len(buf))
	copy(data, buf)
	r, _ := readRaw(data, data)
	return r
}

// readRaw calls the real Read on `data` as it is (no copy); `ref` holds the same bytes in
// storage nobody else writes to (the observation is made against it). The delivered
// RpcMessage object is returned as well.
func readRaw(data, ref []byte) (Res, *message.RpcMessage) {
	readCalls++
	var r Res
	var obj *message.RpcMessage
	class, detail := hutil.Guard(readLimit, func() error {
		pkg, n, err := handler.Read(nil, data)
		if err != nil {
			r = Res{C: "err", N: n}
			return nil
		}
		if pkg == nil {
			r = Res{C: "need", N: n}
			return nil
		}
		rm, ok := pkg.(message.RpcMessage)
		if !ok {
			r = Res{C: "msg", N: n, M: &Msg{Body: hx([]byte("<<not an RpcMessage>>"))}}
			return nil
		}
		r = Res{C: "msg", N: n, M: observe(rm, ref)}
		obj = &rm
		return nil
	})
	switch class {
	case hutil.OutPanic:
		if len(detail) > 600 {
			detail = detail[:600]
		}
		return Res{C: "panic", Detail: detail}, nil
	case hutil.OutDiverged:
		diverged++
		return Res{C: "diverged", Detail: detail}, nil
	}
	if r.C == "need" && completeFrame(ref) {
		r.Stall = true
	}
	return r, obj
}

// driveLoop is getty v1.5.0 session.handleTCPPackage: append what was received;
// while the buffer is non-empty: Read; error => close; nil package => wait for
// more; package => deliver, drop pkgLen bytes.  A package with pkgLen 0 would be
// delivered again and again without the buffer shrinking: Spin.
func driveLoop(chunks [][]byte) []Ev {
	var evs []Ev
	var buf []byte
	for _, c := range chunks {
		if len(c) == 0 {
			continue
		}
		buf = append(buf, c...)
		for len(buf) > 0 {
			r := readOnce(buf)
			switch r.C {
			case "panic":
				return append(evs, Ev{E: "panic"})
			case "diverged":
				return append(evs, Ev{E: "diverged"})
			case "err":
				return append(evs, Ev{E: "close"})
			}
			if r.C == "need" {
				if r.Stall {
					return append(evs, Ev{E: "stall"})
				}
				break
			}
			evs = append(evs, Ev{E: "deliver", M: r.M})
			if r.N <= 0 {
				return append(evs, Ev{E: "spin"})
			}
			if r.N >= len(buf) {
				buf = buf[:0]
			} else {
				buf = buf[r.N:]
			}
		}
	}
	return evs
}

const gettyReadBufLen = 4 * 1024 // getty v1.5.0 maxReadBufLen

// driveLoopShared is the same loop over getty's own receive buffer (gost bytes.Buffer:
// WriteNextBegin / WriteNextEnd / Bytes / Next): ONE storage that is reused once everything in it
// has been consumed. The delivered message OBJECTS are kept and looked at again after the whole
// stream (and one more receive) has gone through the buffer.
func driveLoopShared(chunks [][]byte) (evs []Ev, late string) {
	if diverged >= 1 {
		return nil, ""
	}
	type kept struct {
		obj   *message.RpcMessage
		frame []byte
		obs   *Msg
	}
	var keep []kept
	pktBuf := gxbytes.NewBuffer(nil)
	recv := func(c []byte) {
		for len(c) > 0 {
			buf := pktBuf.WriteNextBegin(gettyReadBufLen)
			n := copy(buf, c)
			pktBuf.WriteNextEnd(n)
			c = c[n:]
		}
	}
	done := false
	for _, c := range chunks {
		if len(c) == 0 || done {
			continue
		}
		recv(c)
		for pktBuf.Len() > 0 {
			data := pktBuf.Bytes()
			ref := append([]byte{}, data...)
			r, obj := readRaw(data, ref)
			switch r.C {
			case "panic", "diverged":
				evs, done = append(evs, Ev{E: r.C}), true
			case "err":
				evs, done = append(evs, Ev{E: "close"}), true
			}
			if done {
				break
			}
			if r.C == "need" {
				if r.Stall {
					evs, done = append(evs, Ev{E: "stall"}), true
				}
				break
			}
			evs = append(evs, Ev{E: "deliver", M: r.M})
			if obj != nil {
				keep = append(keep, kept{obj, ref, r.M})
			}
			if r.N <= 0 {
				evs, done = append(evs, Ev{E: "spin"}), true
				break
			}
			pktBuf.Next(r.N)
		}
	}
	// one more receive goes through the buffer, then the delivered objects are looked at again
	filler := make([]byte, 96)
	for i := range filler {
		filler[i] = 0xee
	}
	recv(filler)
	for i, k := range keep {
		if again := observe(*k.obj, k.frame); !sameMsg(again, k.obs) {
			return evs, fmt.Sprintf("delivered message %d changed after later bytes were received (it shares storage with the receive buffer)", i)
		}
	}
	return evs, ""
}

func sameEvs(a, b []Ev) bool {
	x, _ := json.Marshal(a)
	y, _ := json.Marshal(b)
	return bytes.Equal(x, y)
}

// ---- generators ----

func rstr(r *hutil.Rng, max int) string {
	n := r.Intn(max + 1)
	if r.Chance(1, 5) {
		n = 0
	}
	return string(r.Bytes(n))
}

func genBody(r *hutil.Rng) interface{} {
	bt := branch.BranchType(r.Intn(4))
	switch r.Intn(9) {
	case 0:
		return message.GlobalBeginRequest{Timeout: time.Duration(r.Intn(100000)) * time.Millisecond, TransactionName: rstr(r, 40)}
	case 1:
		return message.BranchRegisterRequest{Xid: rstr(r, 30), BranchType: bt, ResourceId: rstr(r, 30), LockKey: rstr(r, 300), ApplicationData: []byte(rstr(r, 60))}
	case 2:
		return message.BranchCommitRequest{AbstractBranchEndRequest: message.AbstractBranchEndRequest{Xid: rstr(r, 30), BranchId: int64(r.Next()), BranchType: bt, ResourceId: rstr(r, 20), ApplicationData: []byte(rstr(r, 40))}}
	case 3:
		return message.RegisterTMRequest{AbstractIdentifyRequest: message.AbstractIdentifyRequest{Version: "1.5." + fmt.Sprint(r.Intn(9)), ApplicationId: rstr(r, 20), TransactionServiceGroup: rstr(r, 20), ExtraData: []byte(rstr(r, 20))}}
	case 4:
		return message.RegisterRMRequest{AbstractIdentifyRequest: message.AbstractIdentifyRequest{Version: "1.5.2", ApplicationId: rstr(r, 20), TransactionServiceGroup: rstr(r, 20)}, ResourceIds: rstr(r, 80)}
	case 5:
		return message.GlobalCommitRequest{AbstractGlobalEndRequest: message.AbstractGlobalEndRequest{Xid: rstr(r, 40), ExtraData: []byte(rstr(r, 10))}}
	case 6:
		return message.BranchRollbackRequest{AbstractBranchEndRequest: message.AbstractBranchEndRequest{Xid: rstr(r, 30), BranchId: int64(r.Next()), BranchType: bt, ResourceId: rstr(r, 20), ApplicationData: []byte(rstr(r, 50))}}
	case 7:
		return message.BranchReportRequest{Xid: rstr(r, 30), BranchId: int64(r.Next()), ResourceId: rstr(r, 20), Status: branch.BranchStatus(r.Intn(10)), ApplicationData: []byte(rstr(r, 20)), BranchType: bt}
	default:
		return message.GlobalRollbackRequest{AbstractGlobalEndRequest: message.AbstractGlobalEndRequest{Xid: rstr(r, 40)}}
	}
}

func genHead(r *hutil.Rng) map[string]string {
	switch r.Intn(6) {
	case 0, 1:
		return nil
	case 2:
		return map[string]string{}
	}
	h := map[string]string{}
	n := 1 + r.Intn(4)
	for i := 0; i < n; i++ {
		k, v := rstr(r, 12), rstr(r, 20)
		switch r.Intn(6) {
		case 0:
			k = ""
		case 1:
			v = ""
		case 2:
			k, v = "", ""
		}
		h[k] = v
	}
	return h
}

func genMsg(r *hutil.Rng) message.RpcMessage {
	m := message.RpcMessage{ID: int32(uint32(r.Next())), Codec: byte(codec.CodecTypeSeata), Compressor: byte(r.Intn(2) * r.Intn(8)), HeadMap: genHead(r)}
	if r.Chance(1, 8) {
		m.ID = []int32{0, -1, 1, 2147483647, -2147483648}[r.Intn(5)]
	}
	switch r.Intn(8) {
	case 0:
		m.Type = message.GettyRequestTypeHeartbeatRequest
		m.Body = message.HeartBeatMessagePing
	case 1:
		m.Type = message.GettyRequestTypeHeartbeatResponse
		m.Body = message.HeartBeatMessagePong
	case 2:
		m.Type = message.GettyRequestTypeRequestOneway
		m.Body = genBody(r)
	case 3:
		m.Type = message.GettyRequestTypeResponse
		m.Body = genBody(r)
	default:
		m.Type = message.GettyRequestTypeRequestSync
		m.Body = genBody(r)
	}
	return m
}

// expected record of a written message (what the property says Read must give back)
func expectOf(m message.RpcMessage) Msg {
	e := Msg{ID: uint32(m.ID), Type: int(m.Type), Codec: int(m.Codec), Comp: int(m.Compressor), Head: headOf(m.HeadMap), BodyOK: true}
	if m.Type != message.GettyRequestTypeHeartbeatRequest && m.Type != message.GettyRequestTypeHeartbeatResponse {
		e.Body = hx(codec.GetCodecManager().Encode(codec.CodecType(m.Codec), m.Body))
	}
	return e
}

func sameMsg(a, b *Msg) bool {
	if a == nil || b == nil {
		return false
	}
	x, _ := json.Marshal(a)
	y, _ := json.Marshal(b)
	return bytes.Equal(x, y)
}

// the frame returned by the previous Write and a private copy of its bytes: a frame handed to the
// transport must keep its bytes while later frames are encoded (getty encodes first, writes later)
var prevFrame, prevFrameCopy []byte

func writeFrame(m message.RpcMessage) ([]byte, error) {
	var out []byte
	var err error
	class, detail := hutil.Guard(readLimit, func() error {
		out, err = handler.Write(nil, m)
		return err
	})
	if class != hutil.OutOK {
		return nil, fmt.Errorf("Write: %s %s", class, detail)
	}
	if prevFrame != nil && !bytes.Equal(prevFrame, prevFrameCopy) {
		prevFrame, prevFrameCopy = nil, nil
		return out, fmt.Errorf("the frame returned by the previous Write was overwritten by this Write (buffers shared between calls)")
	}
	prevFrame, prevFrameCopy = out, append([]byte{}, out...)
	return out, nil
}

// a frame built by hand (header fields free), used for body-less non-heartbeat
// frames and for hostile lengths
func rawFrame(total uint32, headLen uint16, ty, ct, comp byte, id uint32, ver byte, rest []byte) []byte {
	b := []byte{0xda, 0xda, ver, byte(total >> 24), byte(total >> 16), byte(total >> 8), byte(total),
		byte(headLen >> 8), byte(headLen), ty, ct, comp, byte(id >> 24), byte(id >> 16), byte(id >> 8), byte(id)}
	return append(b, rest...)
}

func encHead(entries [][2][]byte) []byte {
	var b []byte
	for _, e := range entries {
		b = append(b, byte(len(e[0])>>8), byte(len(e[0])))
		b = append(b, e[0]...)
		b = append(b, byte(len(e[1])>>8), byte(len(e[1])))
		b = append(b, e[1]...)
	}
	return b
}

// structured garbage: valid magic, hostile lengths / head maps
func genHostile(r *hutil.Rng) []byte {
	tail := r.Bytes(r.Intn(60))
	ty := byte(r.Intn(6))
	if r.Chance(1, 6) {
		ty = byte(r.Next())
	}
	ct := byte(1)
	if r.Chance(1, 4) {
		ct = byte(r.Next())
	}
	id := uint32(r.Next())
	ver := byte(1)
	if r.Chance(1, 5) {
		ver = byte(r.Next())
	}
	switch r.Intn(12) {
	case 0: // head length below the fixed header
		hl := uint16(r.Intn(16))
		return rawFrame(uint32(16+r.Intn(40)), hl, ty, ct, 0, id, ver, tail)
	case 1: // total below head length
		hl := uint16(16 + r.Intn(40))
		return rawFrame(uint32(r.Intn(int(hl))), hl, ty, ct, 0, id, ver, tail)
	case 2: // total far beyond what is there
		return rawFrame(uint32(r.Next()), uint16(16+r.Intn(8)), ty, ct, 0, id, ver, tail)
	case 3: // total = 0 / head length = 0
		return rawFrame(0, 0, ty, ct, 0, id, ver, tail)
	case 4: // head map whose key length points beyond the head
		hm := []byte{0x00, byte(5 + r.Intn(200)), 'a', 'b', 'c'}
		hm = append(hm, r.Bytes(r.Intn(6))...)
		body := r.Bytes(r.Intn(20))
		hl := 16 + len(hm)
		return append(rawFrame(uint32(hl+len(body)), uint16(hl), ty, ct, 0, id, ver, hm), append(body, tail...)...)
	case 5: // head map with a value length beyond the head, odd sizes
		hm := append([]byte{0x00, 0x01, 'k', 0x00, byte(3 + r.Intn(100))}, r.Bytes(r.Intn(5))...)
		hl := 16 + len(hm)
		return append(rawFrame(uint32(hl), uint16(hl), ty, ct, 0, id, ver, hm), tail...)
	case 6: // head region of 1..7 arbitrary bytes (shorter than one entry, or an odd remainder)
		hm := r.Bytes(1 + r.Intn(7))
		if r.Chance(1, 2) {
			hm = append([]byte{0, 0, 0, 0}, hm[:1+r.Intn(len(hm))]...)
		}
		hl := 16 + len(hm)
		body := r.Bytes(r.Intn(10))
		return append(rawFrame(uint32(hl+len(body)), uint16(hl), ty, ct, 0, id, ver, hm), append(body, tail...)...)
	case 7: // duplicate keys in the head map (later one wins)
		hm := encHead([][2][]byte{{[]byte("k"), []byte("1")}, {[]byte(""), []byte("")}, {[]byte("k"), []byte("2")}, {[]byte(""), []byte("x")}})
		hl := 16 + len(hm)
		return append(rawFrame(uint32(hl), uint16(hl), ty, ct, 0, id, ver, hm), tail...)
	case 8: // well-formed frame without body, non-heartbeat type
		return append(rawFrame(16, 16, byte(r.Intn(3)), ct, 0, id, ver, nil), tail...)
	case 9: // well-formed lengths, body of arbitrary bytes (unknown type code, short bodies)
		body := r.Bytes(r.Intn(12))
		if r.Chance(1, 2) && len(body) >= 2 {
			body[0], body[1] = 0, byte(r.Intn(130))
		}
		return append(rawFrame(uint32(16+len(body)), 16, ty, ct, 0, id, ver, body), tail...)
	case 10: // heart-beat that carries bytes after the head
		body := r.Bytes(r.Intn(9))
		return append(rawFrame(uint32(16+len(body)), 16, byte(3+r.Intn(2)), ct, 0, id, ver, body), tail...)
	default: // fully random header after the magic
		b := append([]byte{0xda, 0xda}, r.Bytes(14)...)
		if r.Chance(1, 2) { // keep the lengths small so the frame can be complete
			b[3], b[4], b[5] = 0, 0, 0
			b[7] = 0
			b[6] = byte(r.Intn(90))
			b[8] = byte(r.Intn(40))
		}
		return append(b, tail...)
	}
}

func genRandomGarbage(r *hutil.Rng) []byte {
	n := r.Intn(48)
	b := make([]byte, n)
	for i := range b {
		b[i] = byte(r.Next())
	}
	switch r.Intn(4) {
	case 0:
		if n > 0 {
			b[0] = 0xda
		}
	case 1:
		if n > 1 {
			b[0], b[1] = 0xda, 0xda
		}
	}
	return b
}

// ---- oracles ----

// need-more on every strict prefix of every frame boundary-aligned position, the
// message at a complete frame; frames = lengths of the written frames in data
func prefixOracle(k int, r Res, frames []int, want []Msg) string {
	// only the FIRST frame decides what Read(prefix) must be
	if len(frames) == 0 {
		return ""
	}
	if k == 0 {
		return "" // Read is never called on an empty buffer by the loop; compared with the model only
	}
	f0 := frames[0]
	if k < f0 {
		if r.C != "need" {
			return fmt.Sprintf("strict prefix (%d of %d bytes) of a written frame: Read answered %q instead of 'need more data'", k, f0, r.C)
		}
		return ""
	}
	if r.C != "msg" {
		return fmt.Sprintf("complete frame (%d bytes, %d available): Read answered %q", f0, k, r.C)
	}
	if r.N != f0 {
		return fmt.Sprintf("complete frame of %d bytes: consumed length %d", f0, r.N)
	}
	if !sameMsg(r.M, &want[0]) {
		return fmt.Sprintf("complete frame: Read returned a message different from the one written")
	}
	return ""
}

func garbageOracleRes(r Res) string {
	switch r.C {
	case "panic":
		return "Read panicked: " + firstLine(r.Detail)
	case "diverged":
		return "Read did not return within " + readLimit.String()
	case "msg":
		if r.N <= 0 {
			return "Read returned a package with consumed length 0 (the transport loop spins)"
		}
		if r.M != nil && !r.M.BodyOK {
			return "the delivered body is not what the codec decodes from the bytes of this frame (head length .. total length): it depends on bytes outside the frame"
		}
	case "need":
		if r.Stall {
			return "Read answered 'need more data' although a complete frame is at the head of the buffer: the frame is neither delivered nor rejected, the transport loop waits for ever"
		}
	}
	return ""
}

func firstLine(s string) string {
	for i := 0; i < len(s); i++ {
		if s[i] == '\n' {
			return s[:i]
		}
	}
	return s
}

func garbageOracleEvs(evs []Ev) string {
	for _, e := range evs {
		switch e.E {
		case "panic":
			return "Read panicked inside the receive loop"
		case "diverged":
			return "Read hung inside the receive loop"
		case "spin":
			return "a package with consumed length 0 was delivered: the transport loop spins"
		case "deliver":
			if e.M != nil && !e.M.BodyOK {
				return "a delivered body is not what the codec decodes from the bytes of its own frame (head length .. total length): it depends on bytes outside the frame, i.e. on where the stream is cut"
			}
		case "stall":
			return "'need more data' with a complete frame at the head of the buffer: neither delivered nor rejected, every later frame of the connection is stuck behind it"
		}
	}
	return ""
}

func streamOracle(evs []Ev, want []Msg) string {
	if s := garbageOracleEvs(evs); s != "" {
		return s
	}
	if len(evs) != len(want) {
		for _, e := range evs {
			if e.E == "close" {
				return fmt.Sprintf("session closed after %d of %d messages of a valid stream", len(evs)-1, len(want))
			}
		}
		return fmt.Sprintf("%d deliveries for %d written messages", len(evs), len(want))
	}
	for i, e := range evs {
		if e.E != "deliver" {
			return fmt.Sprintf("event %d of a valid stream is %q", i, e.E)
		}
		if !sameMsg(e.M, &want[i]) {
			return fmt.Sprintf("delivery %d differs from the message written", i)
		}
	}
	return ""
}

// ---- partitions ----

func cut(data []byte, lens []int) [][]byte {
	var out [][]byte
	p := 0
	for _, n := range lens {
		if p+n > len(data) {
			n = len(data) - p
		}
		out = append(out, data[p:p+n])
		p += n
	}
	return append(out, data[p:])
}

func randomPartition(r *hutil.Rng, n int) []int {
	var lens []int
	left := n
	for left > 0 {
		var c int
		switch r.Intn(6) {
		case 0:
			c = 0
		case 1:
			c = 1
		case 2:
			c = 1 + r.Intn(7)
		case 3:
			c = 1 + r.Intn(16)
		case 4:
			c = 1 + r.Intn(40)
		default:
			c = 1 + r.Intn(left)
		}
		if c >= left {
			break
		}
		lens = append(lens, c)
		left -= c
	}
	return lens
}

type tblEv struct {
	tbl  [][]Ev
	keys map[string]int
}

func (t *tblEv) add(evs []Ev) int {
	if evs == nil {
		evs = []Ev{}
	}
	k, _ := json.Marshal(evs)
	if i, ok := t.keys[string(k)]; ok {
		return i
	}
	t.keys[string(k)] = len(t.tbl)
	t.tbl = append(t.tbl, evs)
	return len(t.tbl) - 1
}

// lenientStreamOracle: a stream of good frames with ONE well-delimited frame whose body no
// codec understands at index bad. That frame may be delivered (with whatever body) or rejected
// with an error (session closed) — but the loop must not stall, and the good frames are delivered
// in order: all of them, or those before the rejected one.
func lenientStreamOracle(evs []Ev, want []Msg, bad int) string {
	if s := garbageOracleEvs(evs); s != "" {
		return s
	}
	for i, e := range evs {
		if e.E == "close" {
			if i < bad {
				return fmt.Sprintf("session closed at frame %d, before the frame with the undecodable body (%d)", i, bad)
			}
			return ""
		}
		if i >= len(want) {
			return "more deliveries than frames"
		}
		if i != bad && !sameMsg(e.M, &want[i]) {
			return fmt.Sprintf("delivery %d differs from the message written", i)
		}
	}
	if len(evs) < len(want) {
		return fmt.Sprintf("%d of %d frames delivered, the connection is open and waits: the frames behind the one with the undecodable body are stuck", len(evs), len(want))
	}
	return ""
}

func driveCase(kind string, data []byte, parts [][]int, want []Msg, valid bool) DriveCase {
	return driveCaseBad(kind, data, parts, want, valid, -1)
}

func driveCaseBad(kind string, data []byte, parts [][]int, want []Msg, valid bool, bad int) DriveCase {
	dc := DriveCase{Kind: kind, Data: hx(data), NMsgs: -1, BadAt: -1, BadFrame: bad}
	if valid || bad >= 0 {
		dc.Want = want
	}
	if valid {
		dc.NMsgs = len(want)
	}
	t := &tblEv{keys: map[string]int{}}
	for pi, lens := range parts {
		if diverged >= 1 {
			break
		}
		freshHandler()
		evs := driveLoop(cut(data, lens))
		dc.Parts = append(dc.Parts, Part{Lens: append([]int{}, lens...), Ev: t.add(evs)})
		freshHandler()
		evs2, late := driveLoopShared(cut(data, lens))
		if diverged >= 1 {
			evs2 = evs // a hang was met: the run is being cut short
		}
		if dc.Oracle == "" {
			var o string
			if valid {
				o = streamOracle(evs, want)
			} else if bad >= 0 {
				o = lenientStreamOracle(evs, want, bad)
			} else {
				o = garbageOracleEvs(evs)
			}
			if o == "" && late != "" {
				o = late
			}
			if o == "" && !sameEvs(evs, evs2) {
				o = "the deliveries through getty's reusable receive buffer differ from the deliveries on private copies of the same bytes"
			}
			if o != "" {
				dc.Oracle, dc.BadAt = o, pi
			}
		}
	}
	dc.Tbl = t.tbl
	return dc
}

func prefixCase(kind string, data []byte, frames []int, want []Msg) PrefixCase {
	pc := PrefixCase{Kind: kind, Data: hx(data), Frames: frames, Want: want, BadAt: -1}
	freshHandler()
	keys := map[string]int{}
	for k := 0; k <= len(data); k++ {
		if diverged >= 1 {
			break
		}
		r := readOnce(data[:k])
		key, _ := json.Marshal(r)
		i, ok := keys[string(key)]
		if !ok {
			i = len(pc.Tbl)
			keys[string(key)] = i
			pc.Tbl = append(pc.Tbl, r)
		}
		pc.Obs = append(pc.Obs, i)
		if pc.Oracle == "" {
			o := garbageOracleRes(r)
			if o == "" {
				o = prefixOracle(k, r, frames, want)
			}
			if o != "" {
				pc.Oracle, pc.BadAt = o, k
			}
		}
	}
	return pc
}

// history: buffers an earlier connection may have shown to the same handler: a frame that
// stopped arriving after its header, a few bytes of one, garbage
func history(r *hutil.Rng) [][]byte {
	long, err := writeFrame(message.RpcMessage{ID: 7, Type: message.GettyRequestTypeRequestSync, Codec: 1,
		Body: message.BranchRegisterRequest{Xid: "10.0.0.1:8091:1", ResourceId: "r", LockKey: string(r.Bytes(200 + r.Intn(200)))}})
	if err != nil {
		return nil
	}
	var h [][]byte
	switch r.Intn(3) {
	case 0:
		h = append(h, long[:16+r.Intn(40)])
	case 1:
		h = append(h, long[:1+r.Intn(15)], long[:20])
	default:
		h = append(h, genHostile(r), long[:len(long)-1])
	}
	return h
}

// readCase: Read(data) on a fresh handler, and the same bytes on a handler that has served
// other buffers before (history): the answers must be the same
func readCase(kind string, data []byte, history [][]byte) ReadCase {
	freshHandler()
	rr := readOnce(data)
	rc := ReadCase{Kind: kind, Data: hx(data), Res: rr, Oracle: garbageOracleRes(rr)}
	if len(history) > 0 && diverged < 1 {
		freshHandler()
		for _, h := range history {
			rc.History = append(rc.History, hx(h))
			readOnce(h)
		}
		after := readOnce(data)
		rc.After = &after
		a, _ := json.Marshal(rr)
		b, _ := json.Marshal(after)
		if rc.Oracle == "" && !bytes.Equal(a, b) {
			rc.Oracle = fmt.Sprintf("Read answered (%s, consumed %d) for these bytes on a fresh handler and (%s, consumed %d) on the handler after %d earlier call(s): it is not a function of the bytes it is given", rr.C, rr.N, after.C, after.N, len(history))
		}
	}
	return rc
}

// interleaveCase: two connections, each with its own receive buffer, served by ONE handler
// instance; A is cut off mid-frame, B receives complete frames; chunks arrive as scheduled
func interleaveCase(kind string, a, b []byte, sched [][2]int, wantA, wantB []Msg) InterleaveCase {
	ic := InterleaveCase{Kind: kind, A: hx(a), B: hx(b), Sched: sched, WantA: wantA, WantB: wantB, EvA: []Ev{}, EvB: []Ev{}}
	freshHandler()
	data := [2][]byte{a, b}
	var buf [2][]byte
	var closed [2]bool
	var evs [2][]Ev
	for _, sc := range sched {
		side, n := sc[0], sc[1]
		if n > len(data[side]) {
			n = len(data[side])
		}
		chunk := data[side][:n]
		data[side] = data[side][n:]
		if closed[side] || len(chunk) == 0 {
			continue
		}
		buf[side] = append(buf[side], chunk...)
		for len(buf[side]) > 0 && !closed[side] {
			r := readOnce(buf[side])
			switch r.C {
			case "panic", "diverged":
				evs[side], closed[side] = append(evs[side], Ev{E: r.C}), true
			case "err":
				evs[side], closed[side] = append(evs[side], Ev{E: "close"}), true
			}
			if closed[side] {
				break
			}
			if r.C == "need" {
				if r.Stall {
					evs[side], closed[side] = append(evs[side], Ev{E: "stall"}), true
				}
				break
			}
			evs[side] = append(evs[side], Ev{E: "deliver", M: r.M})
			if r.N <= 0 {
				evs[side], closed[side] = append(evs[side], Ev{E: "spin"}), true
				break
			}
			if r.N >= len(buf[side]) {
				buf[side] = buf[side][:0]
			} else {
				buf[side] = buf[side][r.N:]
			}
		}
	}
	if evs[0] != nil {
		ic.EvA = evs[0]
	}
	if evs[1] != nil {
		ic.EvB = evs[1]
	}
	if o := streamOracle(ic.EvB, wantB); o != "" {
		ic.Oracle = "connection B, served by the same handler as a connection that stopped mid-frame: " + o
	} else if o := streamOracle(ic.EvA, wantA); o != "" {
		ic.Oracle = "connection A (cut off mid-frame, complete frames before the cut expected): " + o
	}
	return ic
}

// replay re-runs the inputs of recorded cases (a Result-shaped file: the inputs
// of its reads / prefixes / drives are taken, the observations are made afresh)
func replay(path string, res *Result) {
	raw, err := os.ReadFile(path)
	if err != nil {
		return
	}
	var in Result
	if json.Unmarshal(raw, &in) != nil {
		return
	}
	for _, c := range in.Reads {
		data, _ := hex.DecodeString(c.Data)
		var hist [][]byte
		for _, h := range c.History {
			b, _ := hex.DecodeString(h)
			hist = append(hist, b)
		}
		res.Reads = append(res.Reads, readCase(c.Kind, data, hist))
	}
	for _, c := range in.Interleaves {
		a, _ := hex.DecodeString(c.A)
		b, _ := hex.DecodeString(c.B)
		res.Interleaves = append(res.Interleaves, interleaveCase(c.Kind, a, b, c.Sched, c.WantA, c.WantB))
	}
	for _, c := range in.Prefixes {
		data, _ := hex.DecodeString(c.Data)
		frames := c.Frames
		if len(c.Want) == 0 {
			frames = nil
		}
		res.Prefixes = append(res.Prefixes, prefixCase(c.Kind, data, frames, c.Want))
	}
	for _, c := range in.Drives {
		data, _ := hex.DecodeString(c.Data)
		var parts [][]int
		for _, p := range c.Parts {
			parts = append(parts, p.Lens)
		}
		res.Drives = append(res.Drives, driveCaseBad(c.Kind, data, parts, c.Want, c.NMsgs >= 0, c.BadFrame))
	}
}

// Run: sub-command `frame`.
//
//	seed=  n= number of generated streams  garbage= number of garbage inputs
//	maxcut2= streams up to this many bytes get every 2-cut partition
//	replay=<file> re-run the inputs of a recorded case instead of generating
func Run(a map[string]string) {
	// whatever the code under test does (multi-gigabyte allocations after reading a length from
	// the wrong place, ...): the run ends, and says so
	time.AfterFunc(150*time.Second, func() {
		hutil.WriteJSON(a["out"], Result{Aborted: "the harness run did not finish within 150 s (reads that hang or allocate without bound)"})
		os.Exit(0)
	})
	codec.Init()
	seed := hutil.ArgU64(a, "seed", 1)
	n := hutil.ArgInt(a, "n", 40)
	ng := hutil.ArgInt(a, "garbage", 300)
	maxcut2 := hutil.ArgInt(a, "maxcut2", 70)
	nrand := hutil.ArgInt(a, "nrand", 12)
	root := hutil.NewRng(seed)
	res := Result{}
	if rp := hutil.ArgStr(a, "replay", ""); rp != "" {
		replay(rp, &res)
		res.ReadCalls = readCalls
		hutil.WriteJSON(a["out"], res)
		return
	}

	// (1) Write against the model; (2) single frames followed by arbitrary bytes
	for i := 0; i < n && diverged < 1; i++ {
		r := root.Fork(uint64(1000 + i))
		m := genMsg(r)
		out, err := writeFrame(m)
		e := expectOf(m)
		wc := WriteCase{M: e, Out: hx(out)}
		if err != nil {
			wc.Oracle = err.Error()
		}
		res.Writes = append(res.Writes, wc)
		if err != nil {
			continue
		}
		rest := r.Bytes(r.Intn(24))
		if r.Chance(1, 3) {
			rest = nil
		}
		data := append(append([]byte{}, out...), rest...)
		rc := readCase("frame+rest", data, history(r))
		rr := rc.Res
		if rc.Oracle == "" {
			rc.Oracle = prefixOracle(len(data), rr, []int{len(out)}, []Msg{e})
		}
		res.Reads = append(res.Reads, rc)
	}

	// (3) streams of 1..5 frames: every prefix, every 2-cut partition when short,
	// random partitions always
	for i := 0; i < n && diverged < 1; i++ {
		r := root.Fork(uint64(2000 + i))
		k := 1 + r.Intn(5)
		if i%3 == 0 {
			k = 1 + r.Intn(2)
		}
		var data []byte
		var frames []int
		var want []Msg
		ok := true
		for j := 0; j < k; j++ {
			m := genMsg(r)
			if i%3 == 0 && r.Chance(2, 3) { // short streams: heart-beats and small bodies
				m.HeadMap = nil
				if r.Chance(1, 2) {
					m.Type, m.Body = message.GettyRequestTypeHeartbeatRequest, message.HeartBeatMessagePing
				} else {
					m.Body = message.GlobalRollbackRequest{AbstractGlobalEndRequest: message.AbstractGlobalEndRequest{Xid: rstr(r, 4)}}
				}
			}
			out, err := writeFrame(m)
			if err != nil {
				ok = false
				break
			}
			data = append(data, out...)
			frames = append(frames, len(out))
			want = append(want, expectOf(m))
		}
		if !ok {
			continue
		}
		res.Prefixes = append(res.Prefixes, prefixCase("stream-prefixes", data, frames, want))
		var parts [][]int
		parts = append(parts, []int{}) // one read
		if len(data) <= maxcut2 {
			for x := 0; x <= len(data); x++ {
				for y := x; y <= len(data); y++ {
					parts = append(parts, []int{x, y - x})
				}
			}
		} else {
			// every single cut inside the first header and around every frame boundary
			for x := 0; x <= 17 && x <= len(data); x++ {
				parts = append(parts, []int{x})
			}
			p := 0
			for _, f := range frames {
				for d := -2; d <= 18; d++ {
					if p+d > 0 && p+d < len(data) {
						parts = append(parts, []int{p + d})
					}
				}
				p += f
			}
		}
		for j := 0; j < nrand; j++ {
			parts = append(parts, randomPartition(r, len(data)))
		}
		// byte by byte
		if len(data) <= 400 {
			ones := make([]int, len(data)-1)
			for j := range ones {
				ones[j] = 1
			}
			parts = append(parts, ones)
		}
		res.Drives = append(res.Drives, driveCase("stream", data, parts, want, true))

		// (3b) the same kind of stream with ONE well-delimited frame whose body no codec understands
		// (unknown type code, unregistered serializer, no body at all) somewhere in it
		if i%2 == 0 {
			bad := r.Intn(len(frames) + 1)
			var body []byte
			ct := byte(1)
			switch r.Intn(3) {
			case 0:
				body = append([]byte{0x77, byte(r.Intn(256))}, r.Bytes(r.Intn(12))...)
			case 1:
				ct = byte(2 + r.Intn(6)) // a serializer nobody registered
				body = []byte{0x00, 0x01, 0x00, 0x00, 0x00, 0x00}
			}
			bf := rawFrame(uint32(16+len(body)), 16, byte(r.Intn(3)), ct, 0, uint32(r.Next()), 1, body)
			var d2 []byte
			var w2 []Msg
			var cuts []int
			p := 0
			for j := 0; j <= len(frames); j++ {
				if j == bad {
					d2 = append(d2, bf...)
					w2 = append(w2, Msg{ID: uint32(bf[12])<<24 | uint32(bf[13])<<16 | uint32(bf[14])<<8 | uint32(bf[15]), Type: int(bf[9]), Codec: int(ct), Head: [][2]string{}, Body: hx(body), BodyOK: true})
					cuts = append(cuts, len(d2))
				}
				if j < len(frames) {
					d2 = append(d2, data[p:p+frames[j]]...)
					w2 = append(w2, want[j])
					p += frames[j]
					cuts = append(cuts, len(d2))
				}
			}
			parts2 := [][]int{{}}
			for _, c := range cuts {
				if c < len(d2) {
					parts2 = append(parts2, []int{c})
				}
			}
			for j := 0; j < 4; j++ {
				parts2 = append(parts2, randomPartition(r, len(d2)))
			}
			res.Drives = append(res.Drives, driveCaseBad("stream+undecodable", d2, parts2, w2, false, bad))
		}

		// (3b') a frame whose body is SHORTER than what its codec reads (a peer that omits trailing
		// fields): the body cut at a random point, the total length adjusted, further frames behind it.
		// Its delivery is what the codec makes of exactly these bytes, wherever the stream is cut.
		if len(frames) >= 2 {
			var cand []int
			p := 0
			for j, f := range frames {
				hl := int(uint16(data[p+7])<<8 | uint16(data[p+8]))
				if j < len(frames)-1 && f-hl >= 4 && data[p+9] != 3 && data[p+9] != 4 {
					cand = append(cand, j)
				}
				p += f
			}
			if len(cand) > 0 {
				j := cand[r.Intn(len(cand))]
				var d3 []byte
				var w3 []Msg
				var cuts []int
				p = 0
				for x, f := range frames {
					fr := append([]byte{}, data[p:p+f]...)
					w := want[x]
					if x == j {
						hl := int(uint16(fr[7])<<8 | uint16(fr[8]))
						drop := 1 + r.Intn(f-hl-2) // at least the type code stays
						fr = fr[:f-drop]
						t := uint32(len(fr))
						fr[3], fr[4], fr[5], fr[6] = byte(t>>24), byte(t>>16), byte(t>>8), byte(t)
						w.Body = hx(fr[hl:])
					}
					d3 = append(d3, fr...)
					w3 = append(w3, w)
					cuts = append(cuts, len(d3))
					p += f
				}
				parts3 := [][]int{{}}
				for _, c := range cuts {
					if c < len(d3) {
						parts3 = append(parts3, []int{c}, []int{c + 1}, []int{c + 3})
					}
				}
				for x := 0; x < 4; x++ {
					parts3 = append(parts3, randomPartition(r, len(d3)))
				}
				res.Reads = append(res.Reads, readCase("shortbody+rest", d3, nil))
				res.Drives = append(res.Drives, driveCase("stream+shortbody", d3, parts3, w3, true))
			}
		}

		// (3c) two connections on one handler: A receives this stream but stops mid-frame, B receives
		// another stream completely; the receives are interleaved
		{
			var bData []byte
			var wantB []Msg
			for j := 0; j < 1+r.Intn(3); j++ {
				m := genMsg(r)
				out, err := writeFrame(m)
				if err != nil {
					continue
				}
				bData = append(bData, out...)
				wantB = append(wantB, expectOf(m))
			}
			// A: complete frames up to `keepFrames`, then 1..(len-1) bytes of the next frame
			keepFrames := r.Intn(len(frames))
			cutAt := 0
			for j := 0; j < keepFrames; j++ {
				cutAt += frames[j]
			}
			cutAt += 1 + r.Intn(frames[keepFrames]-1)
			aData := data[:cutAt]
			var sched [][2]int
			la, lb := len(aData), len(bData)
			for la > 0 || lb > 0 {
				side := r.Intn(2)
				if la == 0 {
					side = 1
				} else if lb == 0 {
					side = 0
				}
				n := 1 + r.Intn(40)
				if side == 0 {
					if n > la {
						n = la
					}
					la -= n
				} else {
					if n > lb {
						n = lb
					}
					lb -= n
				}
				sched = append(sched, [2]int{side, n})
			}
			if len(bData) > 0 {
				res.Interleaves = append(res.Interleaves, interleaveCase("interleave", aData, bData, sched, want[:keepFrames], wantB))
			}
		}
	}

	// (4) garbage: structured (valid magic, hostile lengths) and random; single
	// reads, all prefixes, and through the loop under random partitions; also
	// valid frames followed by garbage and garbage in the middle of a stream
	for i := 0; i < ng && diverged < 1; i++ {
		r := root.Fork(uint64(3000 + i))
		var data []byte
		kind := "hostile"
		switch {
		case i%4 == 3:
			data, kind = genRandomGarbage(r), "random"
		case i%8 == 5:
			m := genMsg(r)
			out, err := writeFrame(m)
			if err != nil {
				continue
			}
			data, kind = append(out, genHostile(r)...), "frame+hostile"
		default:
			data = genHostile(r)
		}
		var hist [][]byte
		if i%2 == 0 {
			hist = history(r)
		}
		res.Reads = append(res.Reads, readCase(kind, data, hist))
		if i%3 == 0 {
			res.Prefixes = append(res.Prefixes, prefixCase(kind+"-prefixes", data, nil, nil))
		}
		parts := [][]int{{}}
		for j := 0; j < 4; j++ {
			parts = append(parts, randomPartition(r, len(data)))
		}
		if len(data) <= 40 && i%5 == 0 {
			for x := 0; x <= len(data); x++ {
				parts = append(parts, []int{x})
			}
		}
		res.Drives = append(res.Drives, driveCase(kind, data, parts, nil, false))
	}
	res.ReadCalls = readCalls
	if diverged >= 1 {
		res.Aborted = "Read did not return on an input; the run was cut short"
	}
	hutil.WriteJSON(a["out"], res)
}
