package workerrun

import "verifh/hutil"

func pick(r *hutil.Rng, xs ...int) int { return xs[r.Intn(len(xs))] }

var branchPool = []int64{1001, 1002, 1003, 7, 0, 9223372036854775807, 10010}

func pattern(r *hutil.Rng, vals []int, heavy bool) []int {
	if !r.Chance(2, 5) && !heavy {
		return nil
	}
	n := 1 + r.Intn(5)
	p := make([]int, n)
	for i := range p {
		if r.Chance(2, 3) {
			p[i] = vals[r.Intn(len(vals))]
		}
	}
	return p
}

// genScen: the mostly-valid stream (requests for existing rows on registered resources, shared
// branch ids across xids and shared xids across branches and resources, transient faults, late
// resources) and, with malformed set, the malformed stream (empty resource id, resources that are
// never registered, requests without a row, duplicates, xids nobody wrote).
func genScen(r *hutil.Rng, id int, malformed bool) Scen {
	sc := Scen{ID: id, Class: "safe"}
	sc.NRes = 1 + r.Intn(4)
	sc.NXid = 1 + r.Intn(4)
	tight := !malformed && r.Chance(1, 5)
	// burst: several resources in one batch while connections fail
	burst := !tight && r.Chance(2, 5)
	if burst {
		sc.NRes = 3 + r.Intn(2)
	}
	sc.ResMode = make([]int, sc.NRes+1)
	sc.ConnPat = make([][]int, sc.NRes+1)
	sc.DelPat = make([][]int, sc.NRes+1)
	sc.CommitPat = make([][]int, sc.NRes+1)
	// some callers pass a context that is cancelled or expires (a refused call is not a lost one)
	ctxy := r.Chance(1, 4)
	for k := 1; k <= sc.NRes && !tight; k++ {
		if r.Chance(1, 4) {
			sc.ResMode[k] = 1
		}
		if malformed && r.Chance(1, 4) {
			sc.ResMode[k] = 2
		}
		sc.ConnPat[k] = pattern(r, []int{1}, burst)
		sc.DelPat[k] = pattern(r, []int{1, 2, 3, 3, 4, 5, 6}, false)
		sc.CommitPat[k] = pattern(r, []int{1, 1, 2}, false)
	}
	nb := 1 + r.Intn(4)
	branches := make([]int64, nb)
	for i := range branches {
		branches[i] = branchPool[r.Intn(len(branchPool))]
	}
	seen := map[Item]bool{}
	nrows := 2 + r.Intn(14)
	for i := 0; i < nrows; i++ {
		it := Item{X: 1 + r.Intn(sc.NXid), B: branches[r.Intn(nb)], R: 1 + r.Intn(sc.NRes)}
		if !seen[it] {
			seen[it] = true
			sc.Rows = append(sc.Rows, it)
		}
	}
	nreq := 1 + r.Intn(12)
	lanes := 1 + r.Intn(3)
	iv := pick(r, 1, 1, 2, 3)
	for i := 0; i < nreq; i++ {
		var it Item
		if r.Chance(4, 5) || !malformed {
			it = sc.Rows[r.Intn(len(sc.Rows))]
			if !malformed && r.Chance(1, 10) { // no such row: nothing to delete
				it.B = branchPool[r.Intn(len(branchPool))]
			}
		} else {
			switch r.Intn(4) {
			case 0:
				it = Item{X: 1 + r.Intn(sc.NXid), B: branches[r.Intn(nb)], R: 0} // empty resource id
			case 1:
				it = Item{X: sc.NXid + 1, B: branches[r.Intn(nb)], R: 1 + r.Intn(sc.NRes)} // unknown xid
			case 2:
				it = sc.Rows[r.Intn(len(sc.Rows))]
				it.R = 1 + r.Intn(sc.NRes) // the pair under another resource
			default:
				it = Item{X: 1 + r.Intn(sc.NXid), B: branchPool[r.Intn(len(branchPool))], R: 1 + r.Intn(sc.NRes)}
			}
		}
		q := Req{Item: it, Lane: r.Intn(lanes)}
		if burst {
			q.Lane = 0
		} else if r.Chance(1, 2) {
			q.PauseUs = r.Intn(2000 * iv)
		}
		if ctxy && r.Chance(1, 2) {
			q.Ctx = 1 + r.Intn(2)
			q.CtxUs = pick(r, 1, 50, 500, 5000)
		}
		sc.Reqs = append(sc.Reqs, q)
		if malformed && r.Chance(1, 6) { // duplicate request
			sc.Reqs = append(sc.Reqs, Req{Item: it, Lane: r.Intn(lanes)})
		}
	}
	n := len(sc.Reqs)
	sc.Cfg = Cfg{
		BufferLimit: pick(r, 0, 1, 2, 3, 4, 6, 10, 100, 10000),
		IntervalMs:  iv,
		Workers:     pick(r, 1, 1, 2, 3, 10),
		FanBuf:      pick(r, 0, 1, 2, 10, 1000),
	}
	if burst {
		sc.Cfg.BufferLimit = pick(r, 6, 10, 100, 10000)
	}
	if tight {
		// no fault and every resource registered: nothing is ever re-queued, so small channels are safe
		sc.Class = "tight"
		sc.Cfg.RecvSize = r.Intn(n + 1)
		if sc.Cfg.RecvSize >= n && n > 0 {
			sc.Cfg.RecvSize = n - 1
		}
	} else {
		sc.Cfg.RecvSize = n + pick(r, 0, 0, 1, 5, 10000)
	}
	sc.LateAfterMs = iv * (1 + r.Intn(12))
	return sc
}

// genFinding: the configuration region of finding worker.small-buffers — receive queue smaller
// than the number of requests while something re-queues (resource registered late).
func genFinding(r *hutil.Rng, id int) Scen {
	sc := Scen{ID: id, Class: "finding", NRes: 1, NXid: 3}
	sc.ResMode = []int{0, 1}
	sc.ConnPat = [][]int{nil, nil}
	sc.DelPat = [][]int{nil, nil}
	n := 6 + r.Intn(6)
	for i := 0; i < n; i++ {
		it := Item{X: 1 + i%3, B: int64(1001 + i/3), R: 1}
		sc.Rows = append(sc.Rows, it)
		sc.Reqs = append(sc.Reqs, Req{Item: it, Lane: i % 3})
	}
	sc.Rows = append(sc.Rows, Item{X: 1, B: 7, R: 1})
	sc.Cfg = Cfg{BufferLimit: pick(r, 0, 1), IntervalMs: 1, RecvSize: pick(r, 0, 1, 2), Workers: 1, FanBuf: 0}
	sc.LateAfterMs = 30
	return sc
}
