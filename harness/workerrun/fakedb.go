// Package workerrun (C11) drives the real AsyncWorker of the AT resource manager
// on a tiny stateful database/sql driver that holds one undo_log table per
// resource and understands the DELETE statements of the undo-log manager, with
// fault injection on Connect and on the DELETE.
package workerrun

import (
	"context"
	"database/sql"
	"database/sql/driver"
	"errors"
	"fmt"
	"regexp"
	"strconv"
	"strings"
	"sync"
)

// Item is an undo_log row / a branch-commit request: xid index (1-based into
// the scenario's xid strings), branch id, resource index (0 = empty resource id).
type Item struct {
	X int   `json:"x"`
	B int64 `json:"b"`
	R int   `json:"r"`
}

// Ev is one entry of the observed trace.
//
//	S  request i is about to be submitted      A  BranchCommit returned for request i
//	R  resource r registered                   C  Connect on resource r (Ok)
//	D  DELETE executed on r (Ok, Rm = rows it removed; X,B = its single pair or 0,0)
//	P  Prepare failed on r (injected)          U  unknown statement on r
type Ev struct {
	K   string  `json:"k"`
	I   int     `json:"i,omitempty"`
	R   int     `json:"r,omitempty"`
	X   int     `json:"x,omitempty"`
	B   int64   `json:"b,omitempty"`
	Ok  bool    `json:"ok,omitempty"`
	St  int     `json:"st,omitempty"`
	Err string  `json:"err,omitempty"`
	Rm  []Item  `json:"rm,omitempty"`
	Xs  []int   `json:"xs,omitempty"` // a DELETE naming several xids / branch ids (cross product)
	Bs  []int64 `json:"bs,omitempty"`
	Sql string  `json:"sql,omitempty"`
}

type world struct {
	mu      sync.Mutex
	xids    []string // index 1..
	tables  map[int][]Item
	connPat map[int][]int // per resource, consumed per Connect: 1 = fail
	// per resource, consumed per DELETE: 0 = succeeds; Exec fails with 1 = a generic error,
	// 3 = driver.ErrBadConn (database/sql closes the pinned Conn and surfaces sql.ErrConnDone; every
	// further statement on that Conn then fails with sql.ErrConnDone without reaching the driver),
	// 5 = context.Canceled, 6 = an error wrapping sql.ErrConnDone; Prepare fails with 2 = a generic
	// error, 4 = driver.ErrBadConn (surfaces as such)
	delPat    map[int][]int
	commitPat map[int][]int // per resource, consumed per transaction COMMIT: 1 = fails (rolled back), 2 = driver.ErrBadConn (rolled back)
	trace     []Ev
	healed    bool
}

func (w *world) log(e Ev) {
	w.mu.Lock()
	w.trace = append(w.trace, e)
	w.mu.Unlock()
}

func (w *world) xidIndex(s string) int {
	for i, x := range w.xids {
		if i > 0 && x == s {
			return i
		}
	}
	return -1
}

func (w *world) snapshot() []Item {
	w.mu.Lock()
	defer w.mu.Unlock()
	var out []Item
	for _, rows := range w.tables {
		out = append(out, rows...)
	}
	return out
}

type connector struct {
	w *world
	r int
}

func (c *connector) Connect(ctx context.Context) (driver.Conn, error) {
	w := c.w
	w.mu.Lock()
	fail := false
	if !w.healed && len(w.connPat[c.r]) > 0 {
		fail = w.connPat[c.r][0] == 1
		w.connPat[c.r] = w.connPat[c.r][1:]
	}
	w.trace = append(w.trace, Ev{K: "C", R: c.r, Ok: !fail})
	w.mu.Unlock()
	if fail {
		return nil, errors.New("fakedb: connection refused (injected)")
	}
	return &conn{w: w, r: c.r}, nil
}

func (c *connector) Driver() driver.Driver { return fakeDriver{} }

type fakeDriver struct{}

func (fakeDriver) Open(string) (driver.Conn, error) {
	return nil, errors.New("fakedb: use the connector")
}

type conn struct {
	w  *world
	r  int
	tx *tx // open local transaction: its deletes become durable (and visible in the trace) at Commit
}

type tx struct {
	c      *conn
	staged []Ev // successful DELETEs of the transaction (Rm = rows they will remove)
}

func (c *conn) Begin() (driver.Tx, error) {
	c.w.mu.Lock()
	defer c.w.mu.Unlock()
	if c.tx != nil {
		return nil, errors.New("fakedb: transaction already open")
	}
	c.tx = &tx{c: c}
	return c.tx, nil
}

func (c *conn) Close() error {
	c.w.mu.Lock()
	defer c.w.mu.Unlock()
	if c.tx != nil {
		c.tx.end(false)
	}
	return nil
}

// end applies or discards the staged deletes (w.mu held); discarded ones show as failed DELETEs
func (t *tx) end(commit bool) {
	w := t.c.w
	for _, ev := range t.staged {
		if commit {
			var keep []Item
			for _, row := range w.tables[t.c.r] {
				del := false
				for _, d := range ev.Rm {
					del = del || d == row
				}
				if !del {
					keep = append(keep, row)
				}
			}
			w.tables[t.c.r] = keep
			ev.Ok = true
		} else {
			ev.Ok, ev.Rm = false, nil
		}
		w.trace = append(w.trace, ev)
	}
	t.staged = nil
	t.c.tx = nil
}

func (t *tx) Commit() error {
	w := t.c.w
	w.mu.Lock()
	defer w.mu.Unlock()
	if t.c.tx != t {
		return errors.New("fakedb: transaction has already ended")
	}
	mode := 0
	if !w.healed && len(w.commitPat[t.c.r]) > 0 {
		mode = w.commitPat[t.c.r][0]
		w.commitPat[t.c.r] = w.commitPat[t.c.r][1:]
	}
	t.end(mode == 0)
	switch mode {
	case 0:
		return nil
	case 2:
		return driver.ErrBadConn
	}
	return errors.New("fakedb: commit failed (injected): transaction rolled back")
}

func (t *tx) Rollback() error {
	w := t.c.w
	w.mu.Lock()
	defer w.mu.Unlock()
	if t.c.tx == t {
		t.end(false)
	}
	return nil
}

type cond struct {
	col string
	n   int
}

var reDelete = regexp.MustCompile(`(?is)^\s*DELETE\s+FROM\s+\S+\s+WHERE\s+(.*?)\s*;?\s*$`)
var reCond = regexp.MustCompile(`(?is)^\s*` + "`?" + `(branch_id|xid)` + "`?" + `\s*(?:(=)\s*\?|IN\s*\(([?,\s]*)\))\s*$`)

func parseDelete(q string) ([]cond, bool) {
	m := reDelete.FindStringSubmatch(q)
	if m == nil {
		return nil, false
	}
	parts := regexp.MustCompile(`(?i)\s+AND\s+`).Split(m[1], -1)
	var cs []cond
	for _, p := range parts {
		cm := reCond.FindStringSubmatch(p)
		if cm == nil {
			return nil, false
		}
		n := 1
		if cm[2] != "=" {
			n = strings.Count(cm[3], "?")
		}
		cs = append(cs, cond{col: strings.ToLower(cm[1]), n: n})
	}
	return cs, true
}

func (c *conn) Prepare(q string) (driver.Stmt, error) {
	cs, ok := parseDelete(q)
	if !ok {
		c.w.log(Ev{K: "U", R: c.r, Sql: q})
		return nil, fmt.Errorf("fakedb: statement not understood: %s", q)
	}
	w := c.w
	w.mu.Lock()
	mode := 0
	if !w.healed && len(w.delPat[c.r]) > 0 {
		mode = w.delPat[c.r][0]
		w.delPat[c.r] = w.delPat[c.r][1:]
	}
	if mode == 2 || mode == 4 {
		w.trace = append(w.trace, Ev{K: "P", R: c.r})
	}
	w.mu.Unlock()
	if mode == 2 {
		return nil, errors.New("fakedb: prepare failed (injected)")
	}
	if mode == 4 {
		return nil, driver.ErrBadConn
	}
	n := 0
	for _, x := range cs {
		n += x.n
	}
	return &stmt{c: c, conds: cs, nargs: n, failExec: mode}, nil
}

type stmt struct {
	c        *conn
	conds    []cond
	nargs    int
	failExec int // 0 or the Exec failure kind of delPat
}

func (s *stmt) Close() error  { return nil }
func (s *stmt) NumInput() int { return s.nargs }
func (s *stmt) Query([]driver.Value) (driver.Rows, error) {
	return nil, errors.New("fakedb: not a query")
}

// MySQL compares a string with a BIGINT column numerically, reading the
// leading integer of the string.
func leadingInt(v driver.Value) (int64, bool) {
	switch t := v.(type) {
	case int64:
		return t, true
	case []byte:
		return leadingInt(string(t))
	case string:
		s := strings.TrimSpace(t)
		end := 0
		for end < len(s) && (s[end] >= '0' && s[end] <= '9' || (end == 0 && (s[end] == '-' || s[end] == '+'))) {
			end++
		}
		n, err := strconv.ParseInt(s[:end], 10, 64)
		return n, err == nil
	}
	return 0, false
}

func asString(v driver.Value) string {
	switch t := v.(type) {
	case string:
		return t
	case []byte:
		return string(t)
	case int64:
		return strconv.FormatInt(t, 10)
	}
	return fmt.Sprint(v)
}

func (s *stmt) Exec(args []driver.Value) (driver.Result, error) {
	w := s.c.w
	r := s.c.r
	var branches []int64
	var xids []string
	hasB, hasX := false, false
	k := 0
	for _, cd := range s.conds {
		for j := 0; j < cd.n && k < len(args); j++ {
			if cd.col == "branch_id" {
				hasB = true
				if n, ok := leadingInt(args[k]); ok {
					branches = append(branches, n)
				}
			} else {
				hasX = true
				xids = append(xids, asString(args[k]))
			}
			k++
		}
	}
	ev := Ev{K: "D", R: r}
	if len(branches) == 1 && len(xids) == 1 {
		ev.B = branches[0]
		ev.X = w.xidIndex(xids[0])
	} else {
		ev.Bs = branches
		for _, x := range xids {
			ev.Xs = append(ev.Xs, w.xidIndex(x))
		}
	}
	w.mu.Lock()
	defer w.mu.Unlock()
	if s.failExec != 0 {
		w.trace = append(w.trace, ev)
		switch s.failExec {
		case 3:
			return nil, driver.ErrBadConn
		case 5:
			return nil, context.Canceled
		case 6:
			return nil, fmt.Errorf("fakedb: server has gone away: %w", sql.ErrConnDone)
		}
		return nil, errors.New("fakedb: delete failed (injected)")
	}
	staged := map[Item]bool{}
	if s.c.tx != nil {
		for _, e := range s.c.tx.staged {
			for _, row := range e.Rm {
				staged[row] = true
			}
		}
	}
	var keep []Item
	for _, row := range w.tables[r] {
		match := !staged[row]
		if hasB {
			in := false
			for _, b := range branches {
				in = in || b == row.B
			}
			match = match && in
		}
		if hasX {
			in := false
			for _, x := range xids {
				in = in || x == w.xids[row.X]
			}
			match = match && in
		}
		if match {
			ev.Rm = append(ev.Rm, row)
		} else {
			keep = append(keep, row)
		}
	}
	if s.c.tx != nil {
		s.c.tx.staged = append(s.c.tx.staged, ev)
		return driver.RowsAffected(len(ev.Rm)), nil
	}
	w.tables[r] = keep
	ev.Ok = true
	w.trace = append(w.trace, ev)
	return driver.RowsAffected(len(ev.Rm)), nil
}
