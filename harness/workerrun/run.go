package workerrun

import (
	"context"
	stdsql "database/sql"
	"encoding/json"
	"fmt"
	"os"
	"runtime"
	"sort"
	"strings"
	"sync"
	"sync/atomic"
	"time"

	"verifh/hutil"

	seatasql "seata.apache.org/seata-go/pkg/datasource/sql"
	undomysql "seata.apache.org/seata-go/pkg/datasource/sql/undo/mysql"
	"seata.apache.org/seata-go/pkg/rm"
)

// Cfg mirrors AsyncWorkerConfig (interval in milliseconds).
type Cfg struct {
	BufferLimit int `json:"buffer_limit"`
	IntervalMs  int `json:"interval_ms"`
	RecvSize    int `json:"recv_size"`
	Workers     int `json:"workers"`
	FanBuf      int `json:"fan_buf"`
}

type Req struct {
	Item
	PauseUs int `json:"pause_us"`
	Lane    int `json:"lane"`
	Ctx     int `json:"ctx,omitempty"` // 0 context.Background, 1 cancelled before the call, 2 deadline CtxUs after the call starts
	CtxUs   int `json:"ctx_us,omitempty"`
}

// Scen is one generated (or replayed) scenario.
type Scen struct {
	ID          int     `json:"id"`
	MinOf       int     `json:"min_of,omitempty"` // minimised from the scenario with this id (+1)
	Class       string  `json:"class"`            // safe | tight | finding
	Cfg         Cfg     `json:"cfg"`
	NRes        int     `json:"nres"`
	ResMode     []int   `json:"res_mode"` // index 1..NRes: 0 registered at start, 1 registered late, 2 never
	LateAfterMs int     `json:"late_after_ms"`
	NXid        int     `json:"nxid"`
	Rows        []Item  `json:"rows"`
	Reqs        []Req   `json:"reqs"`
	ConnPat     [][]int `json:"conn_pat"` // index 1..NRes
	DelPat      [][]int `json:"del_pat"`
	CommitPat   [][]int `json:"commit_pat,omitempty"` // only consumed by code that deletes inside a transaction
}

type Answer struct {
	I        int    `json:"i"`
	Returned bool   `json:"returned"`
	St       int    `json:"st"`
	Err      string `json:"err"`
}

// accepted: answered PhasetwoCommitted; refused: a failure status together with an error (the
// request was not taken over, e.g. its context was done) — anything else is a wrong answer.
func (a Answer) accepted() bool { return a.Returned && a.St == 5 && a.Err == "" }
func (a Answer) refused() bool  { return a.Returned && a.St != 5 && a.Err != "" }

type Result struct {
	Scen       Scen     `json:"scen"`
	Answers    []Answer `json:"answers"`
	Trace      []Ev     `json:"trace"`
	Final      []Item   `json:"final"`
	Expected   []Item   `json:"expected"`
	Quiescent  bool     `json:"quiescent"`
	WaitedMs   int      `json:"waited_ms"`
	RunBlocked bool     `json:"run_blocked"`    // goroutine dump: run() waits in commitWorker.Do
	WrkBlocked bool     `json:"worker_blocked"` // goroutine dump: a fanout proc waits sending to commitQueue
	// direct oracle on the real run
	NotCommitted []int  `json:"not_committed"`
	Imprecise    []Item `json:"imprecise"`
	Lost         []Item `json:"lost"`
	Unknown      int    `json:"unknown_statements"`
}

func xidString(i int) string {
	// index 2 is a proper extension of index 1 (prefix matching must not confuse them)
	switch i {
	case 1:
		return "10.0.0.1:8091:9"
	case 2:
		return "10.0.0.1:8091:90"
	}
	return fmt.Sprintf("10.0.0.%d:8091:%d", i, 1000+i)
}

func resID(r int) string {
	if r == 0 {
		return ""
	}
	return fmt.Sprintf("u:p@tcp(127.0.0.1:3306)/db%d", r)
}

func sortItems(a []Item) []Item {
	b := append([]Item{}, a...)
	sort.Slice(b, func(i, j int) bool {
		if b[i].R != b[j].R {
			return b[i].R < b[j].R
		}
		if b[i].X != b[j].X {
			return b[i].X < b[j].X
		}
		return b[i].B < b[j].B
	})
	return b
}

func sameItems(a, b []Item) bool {
	if len(a) != len(b) {
		return false
	}
	a, b = sortItems(a), sortItems(b)
	for i := range a {
		if a[i] != b[i] {
			return false
		}
	}
	return true
}

var initOnce sync.Once

func runScenario(sc Scen) *Result { return runScenarioSlack(sc, 3*time.Second) }

func runScenarioSlack(sc Scen, slack time.Duration) *Result {
	initOnce.Do(undomysql.InitUndoLogManager)
	res := &Result{Scen: sc}
	iv := time.Duration(sc.Cfg.IntervalMs) * time.Millisecond
	w := &world{tables: map[int][]Item{}, connPat: map[int][]int{}, delPat: map[int][]int{}, commitPat: map[int][]int{}}
	w.xids = make([]string, sc.NXid+2)
	for i := 1; i < len(w.xids); i++ {
		w.xids[i] = xidString(i)
	}
	for _, row := range sc.Rows {
		w.tables[row.R] = append(w.tables[row.R], row)
	}
	for r := 1; r <= sc.NRes; r++ {
		w.connPat[r] = append([]int{}, sc.ConnPat[r]...)
		w.delPat[r] = append([]int{}, sc.DelPat[r]...)
		if r < len(sc.CommitPat) {
			w.commitPat[r] = append([]int{}, sc.CommitPat[r]...)
		}
	}
	mgr := seatasql.VerifNewATSourceManager(seatasql.AsyncWorkerConfig{
		BufferLimit:            sc.Cfg.BufferLimit,
		BufferCleanInterval:    iv,
		ReceiveChanSize:        sc.Cfg.RecvSize,
		CommitWorkerCount:      sc.Cfg.Workers,
		CommitWorkerBufferSize: sc.Cfg.FanBuf,
	})
	dbs := make([]*stdsql.DB, sc.NRes+1)
	for r := 1; r <= sc.NRes; r++ {
		dbs[r] = stdsql.OpenDB(&connector{w: w, r: r})
		dbs[r].SetMaxIdleConns(0) // every Conn() goes through Connect
	}
	register := func(r int) {
		w.log(Ev{K: "R", R: r})
		seatasql.VerifCacheResource(mgr, resID(r), dbs[r])
	}
	for r := 1; r <= sc.NRes; r++ {
		if sc.ResMode[r] == 0 {
			register(r)
		}
	}
	start := time.Now()
	var wg sync.WaitGroup
	wg.Add(1)
	go func() {
		defer wg.Done()
		time.Sleep(time.Duration(sc.LateAfterMs) * time.Millisecond)
		for r := 1; r <= sc.NRes; r++ {
			if sc.ResMode[r] == 1 {
				register(r)
			}
		}
	}()
	answers := make([]Answer, len(sc.Reqs))
	var amu sync.Mutex
	lanes := map[int][]int{}
	for i, q := range sc.Reqs {
		lanes[q.Lane] = append(lanes[q.Lane], i)
		answers[i].I = i
	}
	for _, idx := range lanes {
		idx := idx
		wg.Add(1)
		go func() {
			defer wg.Done()
			for _, i := range idx {
				q := sc.Reqs[i]
				time.Sleep(time.Duration(q.PauseUs) * time.Microsecond)
				w.log(Ev{K: "S", I: i})
				ctx, cancel := context.Background(), func() {}
				switch q.Ctx {
				case 1:
					ctx, cancel = context.WithCancel(ctx)
					cancel()
				case 2:
					ctx, cancel = context.WithTimeout(ctx, time.Duration(q.CtxUs)*time.Microsecond)
				}
				st, err := mgr.BranchCommit(ctx, rm.BranchResource{
					ResourceId: resID(q.R), Xid: w.xids[q.X], BranchId: q.B})
				cancel()
				e := ""
				if err != nil {
					e = err.Error()
				}
				w.log(Ev{K: "A", I: i, St: int(st), Err: e})
				amu.Lock()
				answers[i] = Answer{I: i, Returned: true, St: int(st), Err: e}
				amu.Unlock()
			}
		}()
	}
	// "eventually" on the implementation: 200 worker intervals (plus slack for a loaded machine;
	// a lost request stays lost, so slack costs no detection power)
	limit := 200*iv + slack
	deadline := start.Add(limit)
	done := make(chan struct{})
	go func() { wg.Wait(); close(done) }()
	select {
	case <-done:
	case <-time.After(limit):
	}
	amu.Lock()
	res.Answers = append([]Answer{}, answers...)
	amu.Unlock()
	// expected final table: rows of returned requests on valid, eventually registered resources are gone
	gone := map[Item]bool{}
	for i, q := range sc.Reqs {
		if res.Answers[i].accepted() && q.R >= 1 && q.R <= sc.NRes && sc.ResMode[q.R] != 2 {
			gone[q.Item] = true
		}
	}
	for _, row := range sc.Rows {
		if !gone[row] {
			res.Expected = append(res.Expected, row)
		}
	}
	// quiescent = the table is the expected one AND every returned request on a valid, eventually
	// registered resource has had its successful DELETE (a request without a row, or a duplicate,
	// is still being retried while the table already looks final)
	want := map[Item]int{}
	for i, q := range sc.Reqs {
		if res.Answers[i].accepted() && gone[q.Item] {
			want[q.Item]++
		}
	}
	settled := func() (bool, int) {
		w.mu.Lock()
		n := len(w.trace)
		got := map[Item]int{}
		for _, e := range w.trace {
			if e.K == "D" && e.Ok && e.X >= 1 {
				got[Item{X: e.X, B: e.B, R: e.R}]++
			}
			if e.K == "D" && e.Ok {
				for _, x := range e.Xs {
					for _, b := range e.Bs {
						got[Item{X: x, B: b, R: e.R}]++
					}
				}
			}
		}
		w.mu.Unlock()
		for it, k := range want {
			if got[it] < k {
				return false, n
			}
		}
		return true, n
	}
	// beyond the deadline keep waiting only while the database still sees activity (loaded machine),
	// never more than twice the slack
	hard := start.Add(limit + 2*slack)
	lastN, lastChange := -1, time.Now()
	for {
		ok, n := settled()
		if ok && sameItems(w.snapshot(), res.Expected) {
			break
		}
		now := time.Now()
		if n != lastN {
			lastN, lastChange = n, now
		}
		if now.After(deadline) && (now.Sub(lastChange) > time.Second || now.After(hard)) {
			break
		}
		time.Sleep(iv / 2)
	}
	time.Sleep(5*iv + 5*time.Millisecond) // anything deleted late shows up in the final sample
	res.Final = sortItems(w.snapshot())
	res.Expected = sortItems(res.Expected)
	st, _ := settled()
	res.Quiescent = st && sameItems(res.Final, res.Expected)
	res.WaitedMs = int(time.Since(start) / time.Millisecond)
	if !res.Quiescent {
		buf := make([]byte, 4<<20)
		for {
			n := runtime.Stack(buf, true)
			if n < len(buf) || len(buf) >= 512<<20 {
				buf = buf[:n]
				break
			}
			buf = make([]byte, 2*len(buf))
		}
		for _, g := range strings.Split(string(buf), "\n\n") {
			if !strings.Contains(g, "[chan send") && !strings.Contains(g, "[select") {
				continue
			}
			if strings.Contains(g, "fanout.(*Fanout).Do") && strings.Contains(g, "(*AsyncWorker).run") {
				res.RunBlocked = true
			}
			if strings.Contains(g, "[chan send") && strings.Contains(g, "dealWithGroupedContexts") {
				res.WrkBlocked = true
			}
		}
	}
	w.mu.Lock()
	res.Trace = append([]Ev{}, w.trace...)
	w.healed = true
	w.mu.Unlock()
	// ---- direct oracle
	submitted := map[Item]bool{}
	for _, q := range sc.Reqs {
		submitted[q.Item] = true
	}
	for i, a := range res.Answers {
		if !a.accepted() && !a.refused() {
			res.NotCommitted = append(res.NotCommitted, i)
		}
	}
	for _, e := range res.Trace {
		if e.K == "U" {
			res.Unknown++
		}
		for _, row := range e.Rm {
			if !submitted[row] {
				res.Imprecise = append(res.Imprecise, row)
			}
		}
	}
	for _, row := range res.Final {
		if gone[row] {
			res.Lost = append(res.Lost, row)
		}
	}
	// ---- clean up: let the leaked worker drain so that it idles
	for r := 1; r <= sc.NRes; r++ {
		if sc.ResMode[r] == 2 {
			seatasql.VerifCacheResource(mgr, resID(r), dbs[r])
		}
	}
	if res.Quiescent {
		end := time.Now().Add(100 * iv)
		for time.Now().Before(end) {
			left := false
			for _, row := range w.snapshot() {
				if submitted[row] {
					left = true
				}
			}
			if !left {
				break
			}
			time.Sleep(iv)
		}
	}
	return res
}

// Run: sub-command "workerrun". Arguments: seed, n (generated scenarios), nf (scenarios of the
// small-buffers class), par (scenarios in flight), scen=<file> (run these scenarios instead).
func Run(args map[string]string) {
	seed := hutil.ArgU64(args, "seed", 1)
	n := hutil.ArgInt(args, "n", 40)
	nf := hutil.ArgInt(args, "nf", 2)
	par := hutil.ArgInt(args, "par", 4)
	var scens []Scen
	if f := hutil.ArgStr(args, "scen", ""); f != "" {
		b, err := os.ReadFile(f)
		if err != nil {
			fmt.Fprintln(os.Stderr, "scen:", err)
			os.Exit(2)
		}
		if err := json.Unmarshal(b, &scens); err != nil {
			fmt.Fprintln(os.Stderr, "scen:", err)
			os.Exit(2)
		}
	} else {
		rng := hutil.NewRng(seed)
		for i := 0; i < n; i++ {
			scens = append(scens, genScen(rng.Fork(uint64(i)), i, i%5 == 4))
		}
		for i := 0; i < nf; i++ {
			scens = append(scens, genFinding(rng.Fork(uint64(1000+i)), n+i))
		}
	}
	results := make([]*Result, len(scens))
	// the small-buffers class runs first and alone: its goroutine dump must show only its own
	// worker (every scenario leaks its worker's goroutines; there is no Close on AsyncWorker)
	for i := range scens {
		if scens[i].Class == "finding" {
			results[i] = runScenario(scens[i])
		}
	}
	// once a few violating scenarios are known the rest is not explored: the first one is minimised
	// instead, so that a violation is reported quickly
	maxViol := int32(hutil.ArgInt(args, "maxviol", 3))
	var nviol int32
	sem := make(chan struct{}, par)
	var wg sync.WaitGroup
	for i := range scens {
		if scens[i].Class == "finding" {
			continue
		}
		if atomic.LoadInt32(&nviol) >= maxViol {
			break
		}
		i := i
		wg.Add(1)
		sem <- struct{}{}
		go func() {
			defer wg.Done()
			if atomic.LoadInt32(&nviol) < maxViol {
				results[i] = runScenario(scens[i])
				if violating(results[i]) {
					atomic.AddInt32(&nviol, 1)
				}
			}
			<-sem
		}()
	}
	wg.Wait()
	var out []*Result
	skipped := 0
	var first *Result
	for _, r := range results {
		if r == nil {
			skipped++
			continue
		}
		if violating(r) && (first == nil || rank[kind(r)] > rank[kind(first)]) {
			first = r // the clearest kind of violation is the one minimised
		}
		out = append(out, r)
	}
	if first != nil && hutil.ArgStr(args, "scen", "") == "" {
		if m := minimise(first, 25*time.Second); m != nil {
			out = append([]*Result{m}, out...)
		}
	}
	hutil.WriteJSON(args["out"], map[string]interface{}{"results": out, "skipped": skipped})
}

// violating: the direct oracle's verdict on a scenario outside the small-buffers class.
func violating(r *Result) bool {
	if r.Scen.Class == "finding" {
		return false
	}
	return !r.Quiescent || len(r.NotCommitted) > 0 || len(r.Imprecise) > 0 || len(r.Lost) > 0 || r.Unknown > 0
}

// minimise greedily removes requests, rows, pauses and lanes while the scenario keeps violating
// (short slack while searching; the result is confirmed with the full bound).
func minimise(first *Result, budget time.Duration) *Result {
	sc, want := first.Scen, kind(first)
	end := time.Now().Add(budget)
	cur := sc
	try := func(c Scen) bool {
		if time.Now().After(end) {
			return false
		}
		r := runScenarioSlack(c, time.Second)
		return violating(r) && kind(r) == want
	}
	clone := func(c Scen) Scen {
		d := c
		d.Reqs = append([]Req{}, c.Reqs...)
		d.Rows = append([]Item{}, c.Rows...)
		return d
	}
	for i := len(cur.Reqs) - 1; i >= 0 && len(cur.Reqs) > 1; i-- {
		c := clone(cur)
		c.Reqs = append(c.Reqs[:i], c.Reqs[i+1:]...)
		if try(c) {
			cur = c
		}
	}
	c := clone(cur)
	for i := range c.Reqs {
		c.Reqs[i].PauseUs, c.Reqs[i].Lane = 0, 0
	}
	if try(c) {
		cur = c
	}
	c = clone(cur)
	named := map[Item]bool{}
	for _, q := range c.Reqs {
		named[q.Item] = true
	}
	c.Rows = c.Rows[:0]
	for _, row := range cur.Rows {
		if named[row] {
			c.Rows = append(c.Rows, row)
		}
	}
	if len(c.Rows) > 0 && try(c) {
		cur = c
	}
	cur.MinOf = sc.ID + 1
	if r := runScenario(cur); violating(r) && kind(r) == want {
		return r
	}
	return nil
}

var rank = map[string]int{"imprecise": 3, "lost": 2, "answer": 1, "unsettled": 0}

// kind of violation, kept while minimising
func kind(r *Result) string {
	switch {
	case len(r.Imprecise) > 0 || r.Unknown > 0:
		return "imprecise"
	case len(r.Lost) > 0:
		return "lost"
	case !r.Quiescent:
		return "unsettled"
	}
	return "answer"
}
