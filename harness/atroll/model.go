// Package atroll: generators, shadow evaluation, direct oracles and case
// extraction for C01 (AT rollback restores), C10 (rollback idempotent, blocks a
// late phase one) and C09 (rollback never overwrites a foreign write).  The
// scenarios run through the shared engine (verifh/atrun) on the REAL AT proxy.
package atroll

import (
	"encoding/hex"
	"fmt"
	"math"
	"sort"
	"strconv"
	"strings"
	"time"

	"verifh/atrun"
	"verifh/fakedb"
)

// ---------------------------------------------------------------- values, tables

// Val is a cell value of the quick universe: NULL, integer, ASCII string.
type Val struct {
	K string `json:"k"` // null | int | str
	V string `json:"v,omitempty"`
}

func vInt(n int64) Val     { return Val{K: "int", V: strconv.FormatInt(n, 10)} }
func vStr(s string) Val    { return Val{K: "str", V: s} }
func vFloat(f float64) Val { return Val{K: "float", V: strconv.FormatFloat(f, 'g', -1, 64)} }
func (v Val) float() float64 {
	f, _ := strconv.ParseFloat(v.V, 64)
	return f
}
func vNull() Val { return Val{K: "null"} }
func (v Val) int() int64 {
	n, _ := strconv.ParseInt(v.V, 10, 64)
	return n
}
func (v Val) arg() atrun.Arg {
	switch v.K {
	case "int":
		return atrun.Arg{T: "int", V: v.V}
	case "str":
		return atrun.Arg{T: "str", V: v.V}
	case "float":
		return atrun.Arg{T: "float", V: v.V}
	}
	return atrun.Arg{T: "null"}
}

// bindable: kinds the generators pass as bound parameters (the others are written as literals)
func (v Val) bindable() bool { return v.K == "int" || v.K == "str" || v.K == "float" || v.K == "null" }

func (v Val) lit() string {
	switch v.K {
	case "int":
		return v.V
	case "float":
		return strconv.FormatFloat(v.float(), 'e', -1, 64)
	case "str":
		return "'" + v.V + "'"
	case "dec":
		return v.V
	case "time":
		return "'" + strings.TrimSuffix(v.V, " 00:00:00.000000") + "'"
	case "bytes":
		return "x'" + v.V + "'"
	}
	return "NULL"
}

type Col struct {
	Name     string `json:"name"`
	Typ      string `json:"typ"` // BIGINT | INT | VARCHAR
	Nullable bool   `json:"nullable"`
	AutoInc  bool   `json:"auto_inc,omitempty"`
	Big      bool   `json:"big,omitempty"` // key: consecutive values above 2^53
	Num      bool   `json:"num,omitempty"` // key: character strings that read as numbers
}

type Table struct {
	Name string `json:"name"`
	Keys []Col  `json:"keys"`
	Cols []Col  `json:"cols"` // non-key columns
}

func (t *Table) ddl() string {
	var parts, pk []string
	for _, c := range t.Keys {
		s := c.Name + " " + sqlType(c) + " NOT NULL"
		if c.AutoInc {
			s += " AUTO_INCREMENT"
		}
		parts = append(parts, s)
		pk = append(pk, c.Name)
	}
	for _, c := range t.Cols {
		s := c.Name + " " + sqlType(c)
		if !c.Nullable {
			s += " NOT NULL"
		}
		parts = append(parts, s)
	}
	return "CREATE TABLE " + t.Name + " (" + strings.Join(parts, ", ") + ", PRIMARY KEY (" + strings.Join(pk, ", ") + "))"
}

func sqlType(c Col) string {
	if c.Typ == "VARCHAR" {
		return "VARCHAR(16)"
	}
	switch c.Typ {
	case "DECIMAL":
		return "DECIMAL(10,2)"
	case "DATETIME":
		return "DATETIME(6)"
	case "TIMESTAMP":
		return "TIMESTAMP(3) NULL"
	case "CHAR":
		return "CHAR(16)"
	case "VARBINARY":
		return "VARBINARY(16)"
	}
	return c.Typ
}

// Row is a row split into its key and the other columns.
type Row struct {
	Key  []Val `json:"key"`
	Vals []Val `json:"vals"`
}

func keyStr(k []Val) string {
	var b strings.Builder
	for _, v := range k {
		b.WriteString(v.K[:1])
		b.WriteString(strconv.Itoa(len(v.V)))
		b.WriteByte(':')
		b.WriteString(v.V)
		b.WriteByte('|')
	}
	return b.String()
}

// TabState: the committed rows of one table (shadow or parsed dump).
type TabState struct {
	Name string `json:"name"`
	Rows []Row  `json:"rows"`
}

func (t *TabState) find(k []Val) int {
	ks := keyStr(k)
	for i := range t.Rows {
		if keyStr(t.Rows[i].Key) == ks {
			return i
		}
	}
	return -1
}

func (t *TabState) clone() *TabState {
	c := &TabState{Name: t.Name}
	for _, r := range t.Rows {
		c.Rows = append(c.Rows, Row{Key: append([]Val{}, r.Key...), Vals: append([]Val{}, r.Vals...)})
	}
	return c
}

func (t *TabState) canon() string {
	var rows []string
	for _, r := range t.Rows {
		rows = append(rows, keyStr(r.Key)+"=>"+keyStr(r.Vals))
	}
	sort.Strings(rows)
	return strings.Join(rows, "\n")
}

type DBState map[string]*TabState

func (d DBState) clone() DBState {
	c := DBState{}
	for k, v := range d {
		c[k] = v.clone()
	}
	return c
}

func (d DBState) list(tables []*Table) []*TabState {
	var out []*TabState
	for _, t := range tables {
		if s, ok := d[t.Name]; ok {
			out = append(out, s)
		} else {
			out = append(out, &TabState{Name: t.Name})
		}
	}
	return out
}

func sameDB(a, b DBState, tables []*Table) bool {
	for _, t := range tables {
		x, y := a[t.Name], b[t.Name]
		if x == nil {
			x = &TabState{}
		}
		if y == nil {
			y = &TabState{}
		}
		if x.canon() != y.canon() {
			return false
		}
	}
	return true
}

func tagged(v fakedb.TaggedValue) (Val, bool) {
	switch v.K {
	case "null":
		return vNull(), true
	case "int", "uint":
		return Val{K: "int", V: v.V}, true
	case "str":
		return vStr(v.V), true
	case "float":
		f, err := strconv.ParseFloat(v.V, 64)
		return vFloat(f), err == nil
	}
	return Val{}, false
}

const timeCanon = "2006-01-02 15:04:05.000000"

func vDec(f float64) Val    { return Val{K: "dec", V: strconv.FormatFloat(f, 'f', 2, 64)} }
func vTime(t time.Time) Val { return Val{K: "time", V: t.UTC().Format(timeCanon)} }
func vBytes(b []byte) Val   { return Val{K: "bytes", V: hex.EncodeToString(b)} }

func parseTimeAny(s string) (time.Time, bool) {
	for _, l := range []string{timeCanon, "2006-01-02 15:04:05.999999", "2006-01-02 15:04:05", "2006-01-02", time.RFC3339Nano} {
		if t, err := time.Parse(l, s); err == nil {
			return t.UTC(), true
		}
	}
	return time.Time{}, false
}

// canonCell: a dump cell or a decoded image value (kind, text) of column c in the harness's canonical form;
// the Go type a value arrives in differs between the two (DECIMAL: decimal text / float64, binary: bytes / string)
func canonCell(c Col, kind, text string) (Val, bool) {
	if kind == "null" {
		return vNull(), true
	}
	switch c.Typ {
	case "DECIMAL":
		f, err := strconv.ParseFloat(text, 64)
		return vDec(f), err == nil
	case "DATETIME", "TIMESTAMP", "DATE":
		t, ok := parseTimeAny(text)
		return vTime(t), ok
	case "VARBINARY", "BLOB":
		switch kind {
		case "bytes", "rawhex", "strhex":
			return Val{K: "bytes", V: text}, true
		case "raw", "str":
			return vBytes([]byte(text)), true
		}
		return Val{}, false
	case "FLOAT":
		f, err := strconv.ParseFloat(text, 64)
		return vFloat(float64(float32(f))), err == nil
	case "DOUBLE":
		f, err := strconv.ParseFloat(text, 64)
		return vFloat(f), err == nil
	case "VARCHAR", "CHAR", "TEXT":
		if kind == "str" || kind == "raw" {
			return vStr(text), true
		}
		return Val{}, false
	}
	if kind == "int" || kind == "uint" {
		return Val{K: "int", V: text}, true
	}
	return Val{}, false
}

// parseDump turns the engine's table dumps into DBState (tables of the scenario only).
func parseDump(dump []fakedb.TableDump, tables []*Table) (DBState, map[string]int64, error) {
	out, auto := DBState{}, map[string]int64{}
	for _, t := range tables {
		out[t.Name] = &TabState{Name: t.Name}
	}
	for _, d := range dump {
		var t *Table
		for _, x := range tables {
			if strings.EqualFold(x.Name, d.Name) {
				t = x
			}
		}
		if t == nil {
			continue
		}
		auto[t.Name] = d.AutoInc
		nk := len(t.Keys)
		for _, r := range d.Rows {
			if len(r) != nk+len(t.Cols) {
				return nil, nil, fmt.Errorf("dump of %s: %d cells", d.Name, len(r))
			}
			var row Row
			for i, c := range r {
				col := Col{}
				if i < nk {
					col = t.Keys[i]
				} else {
					col = t.Cols[i-nk]
				}
				v, ok := canonCell(col, c.K, c.V)
				if !ok {
					return nil, nil, fmt.Errorf("dump of %s: value kind %s", d.Name, c.K)
				}
				if i < nk {
					row.Key = append(row.Key, v)
				} else {
					row.Vals = append(row.Vals, v)
				}
			}
			out[t.Name].Rows = append(out[t.Name].Rows, row)
		}
	}
	return out, auto, nil
}

// ---------------------------------------------------------------- statements

// Cond is the WHERE of an UPDATE / DELETE.
type Cond struct {
	Kind string  `json:"kind"`          // pk | pkin | ge | between
	Key  []Val   `json:"key,omitempty"` // pk: the full key
	Keys [][]Val `json:"keys,omitempty"`
	Col  int     `json:"col,omitempty"` // ge / between: index into Cols (non-key), -1 = first key column
	Lo   int64   `json:"lo,omitempty"`
	Hi   int64   `json:"hi,omitempty"`
}

type SetItem struct {
	Col int    `json:"col"`
	Op  string `json:"op"` // val | inc
	V   Val    `json:"v"`
	N   int64  `json:"n,omitempty"`
}

// Stmt is a generated DML statement in structured form plus its SQL text.
type Stmt struct {
	Kind  string      `json:"kind"` // insert | update | delete | upsert
	Table string      `json:"table"`
	Rows  []Row       `json:"rows,omitempty"` // insert / upsert (auto-increment key: Key empty)
	Set   []SetItem   `json:"set,omitempty"`  // update; upsert: the columns taken from VALUES()
	Where *Cond       `json:"where,omitempty"`
	SQL   string      `json:"sql"`
	Args  []atrun.Arg `json:"args,omitempty"`
}

// Effect is the row-level effect handed to the Coq model.
type Effect struct {
	Kind  string `json:"kind"` // insert | update | delete
	Table string `json:"table"`
	Mask  []bool `json:"mask,omitempty"` // update: SET columns; nil = every column
	Rows  []Row  `json:"rows"`           // insert: rows; update: key + new values; delete: keys
}

func (c *Cond) match(t *Table, r Row) bool {
	switch c.Kind {
	case "pk":
		return keyStr(r.Key) == keyStr(c.Key)
	case "pkin":
		for _, k := range c.Keys {
			if keyStr(r.Key) == keyStr(k) {
				return true
			}
		}
		return false
	case "ge", "between":
		var v Val
		if c.Col < 0 {
			v = r.Key[0]
		} else {
			v = r.Vals[c.Col]
		}
		if v.K != "int" {
			return false
		}
		if c.Kind == "ge" {
			return v.int() >= c.Lo
		}
		return v.int() >= c.Lo && v.int() <= c.Hi
	}
	return false
}

// apply evaluates the statement on the shadow state; returns the effects (an
// upsert yields an insert or an update effect) or ok=false when the statement
// is outside what the shadow predicts.
// nextAuto: the smallest generated key 1 + k*step that is >= from (auto_increment_offset 1)
func nextAuto(from, step int64) int64 {
	if step <= 1 || from < 1 {
		return from
	}
	if r := (from - 1) % step; r != 0 {
		return from + step - r
	}
	return from
}

// autoStep: auto_increment_increment of the plan being evaluated (set by runShadow; the harness is sequential)
var autoStep int64 = 1

func (s *Stmt) apply(t *Table, st *TabState, auto *int64) ([]Effect, bool) {
	switch s.Kind {
	case "insert":
		e := Effect{Kind: "insert", Table: t.Name}
		for _, r := range s.Rows {
			row := Row{Key: append([]Val{}, r.Key...), Vals: append([]Val{}, r.Vals...)}
			if len(row.Key) == 0 {
				gen := nextAuto(*auto, autoStep)
				row.Key = []Val{vInt(gen)}
				*auto = gen + 1
			} else if len(t.Keys) == 1 && t.Keys[0].AutoInc && row.Key[0].int() >= *auto {
				*auto = row.Key[0].int() + 1
			}
			if st.find(row.Key) >= 0 {
				return nil, false
			}
			st.Rows = append(st.Rows, row)
			e.Rows = append(e.Rows, row)
		}
		return []Effect{e}, true
	case "upsert":
		var effs []Effect
		for _, r := range s.Rows {
			i := st.find(r.Key)
			if i < 0 {
				row := Row{Key: append([]Val{}, r.Key...), Vals: append([]Val{}, r.Vals...)}
				if len(t.Keys) == 1 && t.Keys[0].AutoInc && row.Key[0].int() >= *auto {
					*auto = row.Key[0].int() + 1
				}
				st.Rows = append(st.Rows, row)
				effs = append(effs, Effect{Kind: "insert", Table: t.Name, Rows: []Row{row}})
				continue
			}
			nv := append([]Val{}, st.Rows[i].Vals...)
			for _, it := range s.Set {
				nv[it.Col] = r.Vals[it.Col]
			}
			st.Rows[i].Vals = nv
			effs = append(effs, Effect{Kind: "update", Table: t.Name, Rows: []Row{{Key: r.Key, Vals: append([]Val{}, nv...)}}})
		}
		return effs, true
	case "update":
		mask := make([]bool, len(t.Cols))
		for _, it := range s.Set {
			mask[it.Col] = true
		}
		e := Effect{Kind: "update", Table: t.Name, Mask: mask, Rows: []Row{}}
		for i := range st.Rows {
			if !s.Where.match(t, st.Rows[i]) {
				continue
			}
			nv := append([]Val{}, st.Rows[i].Vals...)
			out := make([]Val, len(t.Cols))
			for j := range out {
				out[j] = vNull()
			}
			for _, it := range s.Set {
				switch it.Op {
				case "val":
					nv[it.Col] = it.V
				case "inc":
					if nv[it.Col].K == "int" {
						nv[it.Col] = vInt(nv[it.Col].int() + it.N)
					}
				case "incd": // DECIMAL(10,2): + N hundredths, exactly
					if nv[it.Col].K == "dec" {
						f, _ := strconv.ParseFloat(nv[it.Col].V, 64)
						nv[it.Col] = vDec(float64(int64(math.Round(f*100))+it.N) / 100)
					}
				}
				out[it.Col] = nv[it.Col]
			}
			st.Rows[i].Vals = nv
			e.Rows = append(e.Rows, Row{Key: st.Rows[i].Key, Vals: out})
		}
		return []Effect{e}, true
	case "delete":
		e := Effect{Kind: "delete", Table: t.Name, Rows: []Row{}}
		var keep []Row
		for _, r := range st.Rows {
			if s.Where.match(t, r) {
				e.Rows = append(e.Rows, Row{Key: r.Key})
			} else {
				keep = append(keep, r)
			}
		}
		st.Rows = keep
		return []Effect{e}, true
	}
	return nil, false
}
