package atroll

import (
	"encoding/json"
	"fmt"
	"os"
)

func readPlans(path string) []*Plan {
	b, err := os.ReadFile(path)
	if err != nil {
		fmt.Fprintln(os.Stderr, "atroll:", err)
		os.Exit(2)
	}
	var f struct {
		Plans []*Plan `json:"plans"`
	}
	if err := json.Unmarshal(b, &f); err != nil {
		fmt.Fprintln(os.Stderr, "atroll: cannot parse replay file:", err)
		os.Exit(2)
	}
	return f.Plans
}
