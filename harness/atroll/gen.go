package atroll

import (
	"fmt"
	"math"
	"strconv"
	"strings"
	"time"

	"verifh/atrun"
	"verifh/hutil"
)

// Branch is one local transaction of the global transaction: a single
// autocommit statement or an explicit BEGIN .. COMMIT on a named connection.
type Branch struct {
	Explicit bool   `json:"explicit"`
	Stmts    []Stmt `json:"stmts"`
}

// Foreign is a committed write of somebody else (through the bare driver).
type Foreign struct {
	SQL   string `json:"sql"`
	Table string `json:"table"`
	Key   []Val  `json:"key"`
	Set   []Val  `json:"set,omitempty"` // the row after the write (non-key columns); nil = deleted
	// Before: 0 = after phase one; i >= 1 = inside the global transaction, right before branch i-1 (during phase one)
	Before int `json:"before,omitempty"`
}

// Delivery is one phase-two rollback delivery of a branch.
type Delivery struct {
	Branch int  `json:"branch"` // index in Plan.Branches
	Fault  int  `json:"fault"`  // -1: none; k: the k-th database call of the rollback fails
	Drop   bool `json:"drop,omitempty"`
	// Hold: another connection holds a row lock while this delivery runs ("undo": the branch's undo_log row, as a
	// concurrent delivery of the same rollback does; "row": a business row the branch wrote); released afterwards
	Hold string `json:"hold,omitempty"`
	// ReadOn: the Read-th query of the rollback transaction delivers ReadRows rows and then breaks off
	// (Rows.Next returns an error; the connection stays usable)
	ReadOn   bool `json:"read_on,omitempty"`
	Read     int  `json:"read,omitempty"`
	ReadRows int  `json:"read_rows,omitempty"`
}

// Plan is a generated case before it is turned into an engine scenario.
type Plan struct {
	Name        string           `json:"name"`
	Stream      string           `json:"stream"` // c01 | c10fault | c10repeat | c10marker | c09 | corrupt
	Seed        uint64           `json:"seed"`
	Index       int              `json:"index"`
	Config      atrun.Config     `json:"config"`
	Tables      []*Table         `json:"tables"`
	Init        []string         `json:"init"` // INSERT statements of the initial rows
	InitRows    map[string][]Row `json:"init_rows"`
	Branches    []Branch         `json:"branches"`
	Foreign     []Foreign        `json:"foreign,omitempty"`
	Corrupt     int              `json:"corrupt"` // -1 or the branch whose rollback_info is overwritten
	Deliver     []Delivery       `json:"deliver"`
	Marker      bool             `json:"marker,omitempty"`       // deliver the rollback of branch 0 between its registration and its flush
	MarkerN     int              `json:"marker_n,omitempty"`     // ... that many times (1..3)
	ReportFails bool             `json:"report_fails,omitempty"` // marker stream: every BranchReport of the late phase one fails (transport)
	AutoStep    int              `json:"auto_step,omitempty"`    // auto_increment_increment of the plan's server (0/1, 2, 5)
	// HookWrite: a foreign write attempted right after the first validation query of the first delivery, i.e. between
	// the SELECT .. FOR UPDATE and the compensating statement of the same rollback transaction
	HookWrite *Foreign `json:"hook_write,omitempty"`
}

var names = []string{"ann", "bob", "cy", "dee", "eve", "flo", "gus", "hal"}

func genTable(r *hutil.Rng, name string) *Table {
	t := &Table{Name: name}
	switch r.Intn(18) {
	case 16:
		t.Keys = []Col{{Name: "id", Typ: "BIGINT", Big: true}}
	case 17:
		t.Keys = []Col{{Name: "code", Typ: "VARCHAR", Num: true}}
	case 14, 15:
		t.Keys = []Col{{Name: "id", Typ: "BIGINT", AutoInc: true}}
	case 12, 13:
		t.Keys = []Col{{Name: "k1", Typ: "VARCHAR"}, {Name: "k2", Typ: "VARCHAR"}}
	case 10: // consecutive ids no float64 can tell apart
		t.Keys = []Col{{Name: "id", Typ: "BIGINT", Big: true}}
	case 11: // character keys that denote the same number
		t.Keys = []Col{{Name: "code", Typ: "VARCHAR", Num: true}}
	case 8, 9: // unsigned / narrow integer keys at the boundaries of their widths
		t.Keys = []Col{{Name: "id", Typ: []string{"INT UNSIGNED", "SMALLINT UNSIGNED", "TINYINT UNSIGNED", "SMALLINT"}[r.Intn(4)]}}
	case 6, 7: // two character key columns: joined key texts that collide unless the separator is unambiguous
		t.Keys = []Col{{Name: "k1", Typ: "VARCHAR"}, {Name: "k2", Typ: "VARCHAR"}}
	case 0: // auto-increment single key
		t.Keys = []Col{{Name: "id", Typ: "BIGINT", AutoInc: true}}
	case 1:
		t.Keys = []Col{{Name: "id", Typ: "INT"}}
	case 2:
		t.Keys = []Col{{Name: "code", Typ: "VARCHAR"}}
	case 3:
		t.Keys = []Col{{Name: "k1", Typ: "BIGINT"}, {Name: "k2", Typ: "VARCHAR"}}
	case 4:
		t.Keys = []Col{{Name: "k1", Typ: "INT"}, {Name: "k2", Typ: "INT"}, {Name: "k3", Typ: "VARCHAR"}}
	default:
		t.Keys = []Col{{Name: "id", Typ: "BIGINT"}}
	}
	n := 1 + r.Intn(5)
	for i := 0; i < n; i++ {
		c := Col{Name: fmt.Sprintf("c%d", i+1)}
		c.Typ = []string{"INT", "BIGINT", "DOUBLE", "TINYINT", "VARCHAR", "VARCHAR", "DECIMAL", "DATETIME", "DATE", "TIMESTAMP",
			"CHAR", "TEXT", "VARBINARY", "BLOB", "FLOAT", "INT", "VARCHAR", "BIGINT",
			"TINYINT UNSIGNED", "SMALLINT", "SMALLINT UNSIGNED", "INT UNSIGNED", "DOUBLE", "DOUBLE", "FLOAT", "BIGINT"}[r.Intn(26)]
		c.Nullable = r.Chance(1, 2)
		t.Cols = append(t.Cols, c)
	}
	if len(t.Keys) == 2 && t.Keys[0].Typ == "VARCHAR" {
		// a column to select many rows by (the keys are character strings)
		t.Cols[len(t.Cols)-1] = Col{Name: t.Cols[len(t.Cols)-1].Name, Typ: "INT"}
	}
	return t
}

var doubles = []float64{12345678.9, 98765432.125, 500, 0.5, 1000000.01, 1000000.02, 3.25, -17.125, 1e15 + 0.5, 123456789.123, 0.1, 2}

func genVal(r *hutil.Rng, c Col) Val {
	if c.Nullable && r.Chance(1, 5) {
		return vNull()
	}
	base := time.Date(2024, 2, 28, 23, 59, 59, 0, time.UTC)
	switch c.Typ {
	case "DECIMAL":
		if r.Chance(1, 2) { // balances whose cents are below 1e-6 of their magnitude
			return vDec(float64(1000000000+r.Intn(8999999999)) / 100)
		}
		return vDec(float64(r.Intn(200000)-50000) / 100)
	case "DATETIME":
		return vTime(base.Add(time.Duration(r.Intn(200000))*time.Second + time.Duration(r.Intn(1000000))*time.Microsecond))
	case "TIMESTAMP":
		return vTime(base.Add(time.Duration(r.Intn(200000))*time.Second + time.Duration(r.Intn(1000))*time.Millisecond))
	case "DATE":
		return vTime(time.Date(2024, 2, 27+r.Intn(5), 0, 0, 0, 0, time.UTC))
	case "VARBINARY", "BLOB":
		n := 1 + r.Intn(6)
		b := make([]byte, n)
		for i := range b {
			b[i] = []byte{0x00, 0xff, 0x80, 0x27, 0x5c, 0x41, 0x0a, 0x7f}[r.Intn(8)]
		}
		return vBytes(b)
	case "FLOAT":
		return vFloat(float64(float32(float64(r.Intn(4000)-1000) / 8)))
	case "CHAR", "TEXT":
		return vStr(names[r.Intn(len(names))] + fmt.Sprint(r.Intn(10)))
	case "VARCHAR":
		if r.Chance(1, 6) {
			return vStr([]string{"ann1 ", "Ann1", "a_b", "x_##$$_y", "p,q;r:s", ""}[r.Intn(6)])
		}
		return vStr(names[r.Intn(len(names))] + fmt.Sprint(r.Intn(10)))
	case "DOUBLE":
		if r.Chance(1, 2) {
			return vFloat(doubles[r.Intn(len(doubles))])
		}
		return vFloat(float64(r.Intn(4000)-1000) / 8)
	case "TINYINT UNSIGNED", "SMALLINT", "SMALLINT UNSIGNED", "INT UNSIGNED", "INT", "TINYINT":
		if b := intBounds[c.Typ]; r.Chance(1, 2) {
			return vInt(b[r.Intn(len(b))])
		}
		if strings.HasSuffix(c.Typ, "UNSIGNED") || c.Typ == "TINYINT" {
			return vInt(int64(r.Intn(100)))
		}
	case "BIGINT":
		if r.Chance(1, 4) { // beyond the integers a float64 can tell apart
			return vInt([]int64{1 << 53, 1 << 60, 1 << 62, -(1 << 55)}[r.Intn(4)] + int64(r.Intn(4)))
		}
	}
	return vInt(int64(r.Intn(60)) - 10)
}

// a value next to v that coarse comparisons confuse with it
func nearVal(r *hutil.Rng, c Col, v Val) (Val, bool) {
	switch {
	case v.K == "float" && c.Typ == "FLOAT":
		if r.Chance(1, 2) {
			return vFloat(float64(math.Nextafter32(float32(v.float()), float32(math.Inf(1))))), true
		}
		return vFloat(float64(math.Nextafter32(float32(v.float()), float32(math.Inf(-1))))), true
	case v.K == "float":
		f := v.float()
		if r.Chance(1, 2) {
			return vFloat(math.Nextafter(f, math.Inf(1))), true
		}
		return vFloat(math.Nextafter(f, math.Inf(-1))), true
	case v.K == "dec":
		f, _ := strconv.ParseFloat(v.V, 64)
		return vDec(f + 0.01), true
	case v.K == "time" && c.Typ == "DATETIME":
		t, _ := parseTimeAny(v.V)
		return vTime(t.Add(time.Microsecond)), true
	case v.K == "time" && c.Typ == "TIMESTAMP":
		t, _ := parseTimeAny(v.V)
		return vTime(t.Add(time.Millisecond)), true
	case v.K == "bytes":
		return Val{K: "bytes", V: v.V + "00"}, len(v.V) < 30
	case v.K == "int" && c.Typ == "BIGINT":
		return vInt(v.int() + int64(1-2*r.Intn(2))), true
	case v.K == "str" && v.V != "":
		switch r.Intn(3) {
		case 0:
			return vStr(v.V + " "), true
		case 1:
			return vStr(strings.ToUpper(v.V[:1]) + v.V[1:]), strings.ToUpper(v.V[:1]) != v.V[:1]
		}
		return vStr(strings.TrimRight(v.V, " ")), strings.TrimRight(v.V, " ") != v.V
	}
	return v, false
}

// the values at which a width's sign bit / range ends
var intBounds = map[string][]int64{
	"TINYINT":           {-128, -127, 126, 127, 0},
	"TINYINT UNSIGNED":  {0, 127, 128, 129, 254, 255},
	"SMALLINT":          {-32768, -32767, 32766, 32767, 128, -129},
	"SMALLINT UNSIGNED": {0, 32767, 32768, 32769, 65534, 65535, 255, 256},
	"INT":               {-2147483648, -2147483647, 2147483646, 2147483647, 32768, -32769, 65536},
	"INT UNSIGNED":      {0, 2147483647, 2147483648, 2147483649, 4294967294, 4294967295, 65535, 65536},
}

// pairs of character keys whose joined texts collide under a naive separator
var keyPairs = [][2]string{{"a", "b_c"}, {"a_b", "c"}, {"x", "y_##$$_z"}, {"x_##$$_y", "z"}, {"p,q", "r"}, {"p", "q,r"}, {"eu", "west_db"}, {"eu_west", "db"}}

// key number i of a table (deterministic, distinct for distinct i)
func keyOf(t *Table, i int) []Val {
	var k []Val
	if len(t.Keys) == 2 && t.Keys[0].Typ == "VARCHAR" && t.Keys[1].Typ == "VARCHAR" && i >= 1 && i <= len(keyPairs) {
		return []Val{vStr(keyPairs[i-1][0]), vStr(keyPairs[i-1][1])}
	}
	if len(t.Keys) == 1 && t.Keys[0].Big && t.Keys[0].Typ == "BIGINT" {
		return []Val{vInt(1800000000000000000 + int64(i))}
	}
	if len(t.Keys) == 1 && t.Keys[0].Num && t.Keys[0].Typ == "VARCHAR" {
		if num := []string{"1", "01", "1.0", "1e0", " 1", "10.5", "10.50", "+1"}; i >= 1 && i <= len(num) {
			return []Val{vStr(num[i-1])}
		}
	}
	if _, ok := intBounds[t.Keys[0].Typ]; ok && len(t.Keys) == 1 && t.Keys[0].Typ != "INT" {
		// keys 1.. run through boundary values first, then count on with small values (distinct from them)
		pos := map[string][]int64{
			"INT UNSIGNED":      {2147483648, 2147483647, 4294967295, 2147483649, 65536, 4294967294},
			"SMALLINT UNSIGNED": {32768, 32767, 65535, 32769, 256, 65534},
			"TINYINT UNSIGNED":  {128, 127, 255, 129, 254, 126},
			"SMALLINT":          {-32768, 32767, -32767, 32766, -129, 128},
		}[t.Keys[0].Typ]
		if i >= 1 && i <= len(pos) {
			return []Val{vInt(pos[i-1])}
		}
		return []Val{vInt(int64(i) + 1)}
	}
	for j, c := range t.Keys {
		if c.Typ == "VARCHAR" {
			k = append(k, vStr(fmt.Sprintf("%s%d", names[(i+j)%len(names)], i)))
		} else if j == 0 {
			k = append(k, vInt(int64(i)))
		} else {
			// never 0: on the integrated tree an explicit 0 in a primary-key column is taken for "generate it" and the INSERT
			// fails when the table has no AUTO_INCREMENT column (phase one, C18's subject; reported)
			k = append(k, vInt(int64(i%3)+1))
		}
	}
	return k
}

func insertSQL(t *Table, rows []Row, params bool, withKey bool) (string, []atrun.Arg) {
	var cols []string
	if withKey {
		for _, c := range t.Keys {
			cols = append(cols, c.Name)
		}
	}
	for _, c := range t.Cols {
		cols = append(cols, c.Name)
	}
	var groups []string
	var args []atrun.Arg
	for _, r := range rows {
		var vs []Val
		if withKey {
			vs = append(vs, r.Key...)
		}
		vs = append(vs, r.Vals...)
		var items []string
		for _, v := range vs {
			if params && v.bindable() {
				items = append(items, "?")
				args = append(args, v.arg())
			} else {
				items = append(items, v.lit())
			}
		}
		groups = append(groups, "("+strings.Join(items, ", ")+")")
	}
	return "INSERT INTO " + t.Name + " (" + strings.Join(cols, ", ") + ") VALUES " + strings.Join(groups, ", "), args
}

// whereSQL renders a condition with bound parameters only (string literals in
// a WHERE are the listed finding where.string-literal)
func whereSQL(t *Table, c *Cond, lit bool) (string, []atrun.Arg) {
	var args []atrun.Arg
	val := func(v Val) string {
		if lit && v.K == "int" {
			return v.V
		}
		args = append(args, v.arg())
		return "?"
	}
	switch c.Kind {
	case "pk":
		var parts []string
		for i, k := range t.Keys {
			parts = append(parts, k.Name+" = "+val(c.Key[i]))
		}
		return strings.Join(parts, " AND "), args
	case "pkin":
		var parts []string
		for _, k := range c.Keys {
			parts = append(parts, val(k[0]))
		}
		return t.Keys[0].Name + " IN (" + strings.Join(parts, ", ") + ")", args
	case "ge":
		return condCol(t, c) + " >= " + val(vInt(c.Lo)), args
	case "between":
		a := val(vInt(c.Lo))
		b := val(vInt(c.Hi))
		return condCol(t, c) + " BETWEEN " + a + " AND " + b, args
	}
	return "1 = 0", nil
}

func condCol(t *Table, c *Cond) string {
	if c.Col < 0 {
		return t.Keys[0].Name
	}
	return t.Cols[c.Col].Name
}

type genCtx struct {
	r      *hutil.Rng
	tables []*Table
	nrows  map[string]int // keys 1..nrows exist initially; fresh keys start above
	fresh  map[string]int
	ranges bool // range conditions allowed (no foreign writer that could be hit by them)
	rows   map[string][]Row
}

func (g *genCtx) genCond(t *Table, own func(i int) bool) *Cond {
	r := g.r
	n := g.nrows[t.Name]
	pick := func() int { // an initial key index that the transaction may touch (or a missing one)
		for try := 0; try < 8; try++ {
			i := 1 + r.Intn(n+1)
			if own(i) {
				return i
			}
		}
		return n + 50 // matches nothing
	}
	intCols := []int{}
	for i, c := range t.Cols {
		if _, bounded := intBounds[c.Typ]; bounded {
			intCols = append(intCols, i)
		}
	}
	k := r.Intn(10)
	if g.ranges && len(t.Keys) == 2 && t.Keys[0].Typ == "VARCHAR" && len(intCols) > 0 && r.Chance(1, 2) {
		return &Cond{Kind: "ge", Col: intCols[len(intCols)-1], Lo: -1000} // all rows: images whose joined key texts may collide
	}
	if k >= 5 && k < 7 && len(t.Keys) == 1 {
		c := &Cond{Kind: "pkin"}
		for j := 0; j < 1+r.Intn(3); j++ {
			c.Keys = append(c.Keys, keyOf(t, pick()))
		}
		return c
	}
	if k >= 7 && g.ranges {
		col := -1
		if t.Keys[0].Typ == "VARCHAR" || r.Chance(1, 2) {
			if len(intCols) == 0 {
				return &Cond{Kind: "pk", Key: keyOf(t, pick())}
			}
			col = intCols[r.Intn(len(intCols))]
		}
		lo := int64(r.Intn(12)) - 2
		if r.Chance(1, 3) {
			return &Cond{Kind: "ge", Col: col, Lo: -1000} // every row with a value there
		}
		if r.Chance(1, 2) {
			return &Cond{Kind: "ge", Col: col, Lo: lo}
		}
		return &Cond{Kind: "between", Col: col, Lo: lo, Hi: lo + int64(r.Intn(20))}
	}
	return &Cond{Kind: "pk", Key: keyOf(t, pick())}
}

// genStmt: one DML statement on a table. own(i) says whether key index i may
// be touched by this global transaction (the others belong to foreign writers).
func (g *genCtx) genStmt(t *Table, own func(i int) bool, explicit bool) Stmt {
	r := g.r
	auto := len(t.Keys) == 1 && t.Keys[0].AutoInc
	newRow := func(withKey bool) Row {
		row := Row{}
		if withKey {
			g.fresh[t.Name]++
			row.Key = keyOf(t, g.fresh[t.Name])
		}
		for _, c := range t.Cols {
			row.Vals = append(row.Vals, genVal(r, c))
		}
		return row
	}
	k := r.Intn(10)
	if auto && r.Chance(1, 3) {
		k = 0 // INSERT: generated keys
	}
	if len(t.Keys) == 2 && t.Keys[0].Typ == "VARCHAR" && r.Chance(1, 2) {
		k = 5 // UPDATE: images holding several rows with composite character keys
	}
	switch {
	case k < 3: // INSERT
		s := Stmt{Kind: "insert", Table: t.Name}
		withKey := !(auto && r.Chance(2, 3))
		n := 1
		params := r.Chance(1, 2)
		if r.Chance(1, 3) || (auto && !withKey && r.Chance(1, 2)) {
			// multi-row: literals only (bound key parameters are the region insert.multirow.params); the generated-key
			// form (auto-increment key left out) is allowed
			n, params = 2+r.Intn(2), false
		}
		for i := 0; i < n; i++ {
			s.Rows = append(s.Rows, newRow(withKey))
		}
		s.SQL, s.Args = insertSQL(t, s.Rows, params, withKey)
		return s
	case k < 7: // UPDATE
		s := Stmt{Kind: "update", Table: t.Name, Where: g.genCond(t, own)}
		seen := map[int]bool{}
		var sets []string
		for j := 0; j < 1+r.Intn(2); j++ {
			ci := r.Intn(len(t.Cols))
			if j == 0 && r.Chance(1, 2) {
				// prefer a column whose own change can be tiny (a cent on a large balance, the next representable double)
				var fine []int
				for x, c := range t.Cols {
					if c.Typ == "DECIMAL" || c.Typ == "DOUBLE" || c.Typ == "FLOAT" {
						fine = append(fine, x)
					}
				}
				if len(fine) > 0 {
					ci = fine[r.Intn(len(fine))]
				}
			}
			if seen[ci] {
				continue
			}
			seen[ci] = true
			c := t.Cols[ci]
			if c.Typ == "DECIMAL" && r.Chance(2, 3) {
				n := int64(1 + r.Intn(2))
				s.Set = append(s.Set, SetItem{Col: ci, Op: "incd", N: n})
				sets = append(sets, fmt.Sprintf("%s = %s + 0.0%d", c.Name, c.Name, n))
				continue
			}
			if (c.Typ == "DOUBLE" || c.Typ == "FLOAT") && r.Chance(1, 2) {
				if rows := g.rows[t.Name]; len(rows) > 0 {
					if nv, ok := nearVal(r, c, rows[r.Intn(len(rows))].Vals[ci]); ok {
						s.Set = append(s.Set, SetItem{Col: ci, Op: "val", V: nv})
						sets = append(sets, c.Name+" = "+nv.lit())
						continue
					}
				}
			}
			if c.Typ == "BIGINT" && r.Chance(1, 3) {
				n := int64(1 + r.Intn(5))
				s.Set = append(s.Set, SetItem{Col: ci, Op: "inc", N: n})
				sets = append(sets, fmt.Sprintf("%s = %s + %d", c.Name, c.Name, n))
				continue
			}
			v := genVal(r, c)
			if rows := g.rows[t.Name]; len(rows) > 0 && (r.Chance(1, 2) || (len(t.Keys) == 2 && t.Keys[0].Typ == "VARCHAR" && r.Chance(1, 2))) {
				v = rows[r.Intn(len(rows))].Vals[ci] // what some (perhaps matched) row already holds: that part of the image is unchanged
			}
			s.Set = append(s.Set, SetItem{Col: ci, Op: "val", V: v})
			if r.Chance(1, 2) || v.K == "null" || !v.bindable() {
				sets = append(sets, c.Name+" = "+v.lit())
			} else {
				sets = append(sets, c.Name+" = ?")
				s.Args = append(s.Args, v.arg())
			}
		}
		w, wa := whereSQL(t, s.Where, r.Chance(1, 3))
		s.SQL = "UPDATE " + t.Name + " SET " + strings.Join(sets, ", ") + " WHERE " + w
		s.Args = append(s.Args, wa...)
		return s
	case k < 9: // DELETE
		s := Stmt{Kind: "delete", Table: t.Name, Where: g.genCond(t, own)}
		w, wa := whereSQL(t, s.Where, r.Chance(1, 3))
		s.SQL, s.Args = "DELETE FROM "+t.Name+" WHERE "+w, wa
		return s
	default: // INSERT .. ON DUPLICATE KEY UPDATE, one row: an existing own key or a fresh one
		s := Stmt{Kind: "upsert", Table: t.Name}
		row := newRow(true)
		if r.Chance(1, 2) {
			for try := 0; try < 8; try++ {
				i := 1 + r.Intn(g.nrows[t.Name]+1)
				if own(i) && i <= g.nrows[t.Name] {
					row.Key = keyOf(t, i)
					break
				}
			}
		}
		s.Rows = []Row{row}
		var ups []string
		seen := map[int]bool{}
		for j := 0; j < 1+r.Intn(2); j++ {
			ci := r.Intn(len(t.Cols))
			if seen[ci] {
				continue
			}
			seen[ci] = true
			s.Set = append(s.Set, SetItem{Col: ci})
			ups = append(ups, fmt.Sprintf("%s = VALUES(%s)", t.Cols[ci].Name, t.Cols[ci].Name))
		}
		q, a := insertSQL(t, s.Rows, true, true)
		s.SQL, s.Args = q+" ON DUPLICATE KEY UPDATE "+strings.Join(ups, ", "), a
		return s
	}
}

// genPlan: schema, initial rows, program; the stream decides what happens
// between phase one and the deliveries.
func genPlan(r *hutil.Rng, stream string, seed uint64, idx int) *Plan {
	p := &Plan{Name: fmt.Sprintf("%s-%d-%d", stream, seed, idx), Stream: stream, Seed: seed, Index: idx, Corrupt: -1}
	if r.Chance(1, 4) {
		p.Config.Serializer = "protobuf"
	}
	if p.Config.Serializer == "" && r.Chance(1, 2) {
		// Lz4 is the listed finding C08-lz4; protobuf runs stay uncompressed (one dimension at a time there)
		p.Config.Compress = []string{"Gzip", "Zip", "Bzip2", "Deflate", "Zstd"}[r.Intn(5)]
	}
	dv, oc := !r.Chance(1, 4), !r.Chance(1, 3)
	if stream == "c09" {
		dv = true
	}
	p.Config.DataValidation, p.Config.OnlyCareUpdateColumns = &dv, &oc
	p.Config.StepLimitMs = 1500 // a step that blocks (a transaction left open by a broken rollback) is an observable, not a wait
	nt := 1
	if r.Chance(1, 4) {
		nt = 2
	}
	g := &genCtx{r: r, nrows: map[string]int{}, fresh: map[string]int{}, rows: map[string][]Row{}}
	withForeign := stream == "c01" && r.Chance(1, 2)
	g.ranges = !withForeign
	p.InitRows = map[string][]Row{}
	for i := 0; i < nt; i++ {
		t := genTable(r, fmt.Sprintf("t%c", 'a'+i))
		if p.Config.Serializer == "protobuf" {
			// the protobuf serializer loses integer typing (listed finding C08-protobuf): strings only besides the keys
			for j := range t.Cols {
				t.Cols[j].Typ = "VARCHAR"
			}
			for j := range t.Keys {
				t.Keys[j].Typ, t.Keys[j].AutoInc = "VARCHAR", false
			}
		}
		g.tables = append(g.tables, t)
		n := r.Intn(7)
		if len(t.Keys) == 2 && t.Keys[0].Typ == "VARCHAR" && n < 2 {
			n = 2 + r.Intn(5) // the colliding key pairs are neighbours
		}
		g.nrows[t.Name], g.fresh[t.Name] = n, n+10
		var rows []Row
		for k := 1; k <= n; k++ {
			row := Row{Key: keyOf(t, k)}
			for _, c := range t.Cols {
				row.Vals = append(row.Vals, genVal(r, c))
			}
			rows = append(rows, row)
		}
		p.InitRows[t.Name] = rows
		g.rows[t.Name] = rows
		if n > 0 {
			q, _ := insertSQL(t, rows, false, true)
			p.Init = append(p.Init, q)
		}
	}
	p.Tables = g.tables
	if r.Chance(1, 2) {
		p.AutoStep = []int{2, 5}[r.Intn(2)]
	}
	for _, t := range g.tables {
		if len(t.Keys) == 2 && t.Keys[0].Typ == "VARCHAR" {
			// composite character keys: exercise the validation's row matching on images that hold many rows
			withForeign, g.ranges = false, true
			if r.Chance(3, 4) {
				dv = true
			}
		}
	}
	// odd initial keys belong to the transaction, even ones to foreign writers (c01); c09/c10: everything is the transaction's
	own := func(i int) bool { return !withForeign || i%2 == 1 || i > 6 }
	nb := 1 + r.Intn(3)
	if stream == "c09" || stream == "c10fault" || stream == "c10marker" || stream == "corrupt" || stream == "c10race" {
		nb = 1
	}
	budget := 1 + r.Intn(5)
	for b := 0; b < nb; b++ {
		br := Branch{Explicit: r.Chance(1, 3)}
		ns := 1
		if br.Explicit {
			ns = 1 + r.Intn(3)
		}
		for s := 0; s < ns && budget > 0; s++ {
			t := g.tables[r.Intn(len(g.tables))]
			st := g.genStmt(t, own, br.Explicit)
			if stream == "c10fault" && s == 0 && g.nrows[t.Name] > 0 && idx%3 != 0 {
				// the fault stream cycles through the undo executors: every third plan free, else a DELETE of one / of many rows
				// (its undo re-inserts row by row) or an UPDATE of an existing row
				c := &Cond{Kind: "pk", Key: keyOf(t, 1)}
				if len(t.Keys) == 1 && g.nrows[t.Name] > 1 && r.Chance(1, 2) {
					c = &Cond{Kind: "pkin"}
					for k := 1; k <= g.nrows[t.Name] && k <= 3; k++ {
						c.Keys = append(c.Keys, keyOf(t, k))
					}
				}
				if idx%3 == 1 {
					w, wa := whereSQL(t, c, false)
					st = Stmt{Kind: "delete", Table: t.Name, Where: c, SQL: "DELETE FROM " + t.Name + " WHERE " + w, Args: wa}
				} else {
					st = g.fixedUpdate(t, c)
				}
			}
			if stream == "c10marker" && s == 0 && (st.Kind == "update" || st.Kind == "delete") {
				// make sure the marker case has something to flush: hit an existing row when there is one
				if g.nrows[t.Name] > 0 {
					st.Where = &Cond{Kind: "pk", Key: keyOf(t, 1)}
					w, wa := whereSQL(t, st.Where, false)
					if st.Kind == "delete" {
						st.SQL, st.Args = "DELETE FROM "+t.Name+" WHERE "+w, wa
					} else {
						st = g.fixedUpdate(t, st.Where)
					}
				}
			}
			br.Stmts = append(br.Stmts, st)
			budget--
		}
		if len(br.Stmts) > 0 {
			p.Branches = append(p.Branches, br)
		}
	}
	if len(p.Branches) == 0 {
		t := g.tables[0]
		p.Branches = []Branch{{Stmts: []Stmt{g.genStmt(t, own, false)}}}
	}
	switch stream {
	case "c01":
		// foreign committed writes on the even keys (never touched by the transaction) and on fresh keys of their own
		for k := 0; withForeign && k < 1+r.Intn(3); k++ {
			t := g.tables[r.Intn(len(g.tables))]
			n := g.nrows[t.Name]
			if n < 2 {
				continue
			}
			i := 2 * (1 + r.Intn(n/2))
			if i > 6 {
				continue
			}
			f := g.foreignWrite(t, keyOf(t, i), r.Chance(1, 4))
			f.Before = r.Intn(len(p.Branches) + 2) // 0: after phase one; else before that branch, during phase one
			if f.Before > len(p.Branches) {
				f.Before = 0
			}
			p.Foreign = append(p.Foreign, f)
		}
		for b := len(p.Branches) - 1; b >= 0; b-- {
			p.Deliver = append(p.Deliver, Delivery{Branch: b, Fault: -1})
		}
	case "c10repeat":
		for b := len(p.Branches) - 1; b >= 0; b-- {
			for k := 0; k < 1+r.Intn(3); k++ {
				p.Deliver = append(p.Deliver, Delivery{Branch: b, Fault: -1})
			}
		}
	case "c10race":
		p.Deliver = []Delivery{{Branch: 0, Fault: -1, Hold: []string{"undo", "undo", "row"}[r.Intn(3)]}, {Branch: 0, Fault: -1}}
		if r.Chance(1, 3) {
			p.Deliver = append(p.Deliver, Delivery{Branch: 0, Fault: -1})
		}
	case "c10fault":
		p.Deliver = []Delivery{{Branch: 0, Fault: -1}} // the driver expands it: one plan per fault index
	case "c10marker":
		p.Marker = true
		p.MarkerN = 1 + r.Intn(3)
		p.ReportFails = r.Chance(1, 6)
		p.Deliver = []Delivery{{Branch: 0, Fault: -1}}
	case "corrupt":
		p.Corrupt = 0
		p.Deliver = []Delivery{{Branch: 0, Fault: -1}, {Branch: 0, Fault: -1}}
	case "c09":
		p.Deliver = []Delivery{{Branch: 0, Fault: -1}}
	}
	return p
}

func (g *genCtx) fixedUpdate(t *Table, c *Cond) Stmt {
	s := Stmt{Kind: "update", Table: t.Name, Where: c}
	ci := g.r.Intn(len(t.Cols))
	v := genVal(g.r, t.Cols[ci])
	s.Set = []SetItem{{Col: ci, Op: "val", V: v}}
	w, wa := whereSQL(t, c, false)
	if v.bindable() {
		s.SQL = "UPDATE " + t.Name + " SET " + t.Cols[ci].Name + " = ? WHERE " + w
		s.Args = append([]atrun.Arg{v.arg()}, wa...)
	} else {
		s.SQL = "UPDATE " + t.Name + " SET " + t.Cols[ci].Name + " = " + v.lit() + " WHERE " + w
		s.Args = wa
	}
	return s
}

// foreignWrite: set every non-key column of a row (insert it when missing) or delete it
func (g *genCtx) foreignWrite(t *Table, key []Val, del bool) Foreign {
	w := litWhere(t, key)
	if del {
		return Foreign{SQL: "DELETE FROM " + t.Name + " WHERE " + w, Table: t.Name, Key: key}
	}
	row := Row{Key: key}
	var sets []string
	for _, c := range t.Cols {
		v := genVal(g.r, c)
		row.Vals = append(row.Vals, v)
		sets = append(sets, c.Name+" = "+v.lit())
	}
	q, _ := insertSQL(t, []Row{row}, false, true)
	return Foreign{SQL: q + " ON DUPLICATE KEY UPDATE " + strings.Join(sets, ", "), Table: t.Name, Key: key, Set: row.Vals}
}

// foreign statements go through the bare driver: string literals are fine there
func litWhere(t *Table, key []Val) string {
	var parts []string
	for i, k := range t.Keys {
		parts = append(parts, k.Name+" = "+key[i].lit())
	}
	return strings.Join(parts, " AND ")
}
