package atroll

import (
	"fmt"
	"os"
	"sort"
	"strconv"
	"strings"
	"time"

	"verifh/atrun"
	"verifh/fakedb"
	"verifh/hutil"
	"verifh/tcstub"
)

// ---------------------------------------------------------------- output

type ImageJ struct {
	Table  string `json:"table"`
	Kind   string `json:"kind"`
	Mask   []bool `json:"mask"`
	Before []Row  `json:"before"`
	After  []Row  `json:"after"`
}

type EventJ struct {
	E      string      `json:"e"` // branch | foreign | corrupt | rollback
	B      int64       `json:"b"`
	Stmts  []Effect    `json:"stmts,omitempty"`
	OK     bool        `json:"ok"`
	Images []ImageJ    `json:"images,omitempty"`
	Writes []Foreign   `json:"writes,omitempty"`
	Fault  int         `json:"fault"`
	Out    int         `json:"out"` // branch status of the response, -1 = no response
	Fired  bool        `json:"fired"`
	Tabs   []*TabState `json:"tabs,omitempty"`
	Ops    int         `json:"ops"`
}

type UndoJ struct {
	B      int64 `json:"b"`
	Normal bool  `json:"normal"`
}

type CaseJ struct {
	Name     string         `json:"name"`
	Stream   string         `json:"stream"`
	Plan     *Plan          `json:"plan"`
	Fault    int            `json:"fault"`
	DV       bool           `json:"dv"`
	OC       bool           `json:"oc"`
	Xid      int64          `json:"xid"`
	Init     []*TabState    `json:"init"`
	Events   []EventJ       `json:"events"`
	Final    []*TabState    `json:"final"`
	Undo     []UndoJ        `json:"undo"`
	Oracle   []string       `json:"oracle"`   // the property's own statement evaluated on the real run: violations
	Excluded string         `json:"excluded"` // non-empty: the shadow did not predict the run; no correspondence for this case
	Stats    map[string]int `json:"stats"`
	Notes    []string       `json:"notes,omitempty"`    // failing steps (free text, not an observable)
	ExecIdx  []int          `json:"exec_idx,omitempty"` // call indices of the Execs of the compensating statements (clean delivery)
}

// ---------------------------------------------------------------- shadow

type shadowRun struct {
	s0      DBState
	after   []DBState  // after each branch
	effects [][]Effect // per branch
	ok      bool
}

func tableOf(p *Plan, name string) *Table {
	for _, t := range p.Tables {
		if t.Name == name {
			return t
		}
	}
	return nil
}

func runShadow(p *Plan) *shadowRun {
	sr := &shadowRun{s0: DBState{}, ok: true}
	autoStep = int64(p.AutoStep)
	auto := map[string]*int64{}
	for _, t := range p.Tables {
		st := &TabState{Name: t.Name}
		for _, r := range p.InitRows[t.Name] {
			st.Rows = append(st.Rows, r)
		}
		sr.s0[t.Name] = st
		n := int64(len(p.InitRows[t.Name]) + 1)
		auto[t.Name] = &n
	}
	cur := sr.s0.clone()
	for bi, b := range p.Branches {
		for _, f := range p.Foreign {
			if f.Before == bi+1 {
				applyForeign(cur, f)
			}
		}
		var effs []Effect
		for i := range b.Stmts {
			s := &b.Stmts[i]
			e, ok := s.apply(tableOf(p, s.Table), cur[s.Table], auto[s.Table])
			if !ok {
				sr.ok = false
			}
			effs = append(effs, e...)
		}
		sr.effects = append(sr.effects, effs)
		sr.after = append(sr.after, cur.clone())
	}
	return sr
}

func applyForeign(d DBState, f Foreign) {
	st := d[f.Table]
	i := st.find(f.Key)
	if f.Set == nil {
		if i >= 0 {
			st.Rows = append(st.Rows[:i], st.Rows[i+1:]...)
		}
		return
	}
	if i >= 0 {
		st.Rows[i].Vals = append([]Val{}, f.Set...)
	} else {
		st.Rows = append(st.Rows, Row{Key: f.Key, Vals: append([]Val{}, f.Set...)})
	}
}

// ---------------------------------------------------------------- c09: foreign step chosen from the branch's effect

func rowsEq(mask []bool, a, b []Row) bool {
	if len(a) != len(b) {
		return false
	}
	for _, x := range a {
		found := false
		for _, y := range b {
			if keyStr(x.Key) != keyStr(y.Key) {
				continue
			}
			found = true
			for i := range x.Vals {
				if (mask == nil || mask[i]) && (x.Vals[i] != y.Vals[i]) {
					return false
				}
			}
		}
		if !found {
			return false
		}
	}
	return true
}

func rowsAt(st *TabState, keys [][]Val) []Row {
	var out []Row
	for _, k := range keys {
		if i := st.find(k); i >= 0 {
			out = append(out, st.Rows[i])
		}
	}
	return out
}

func keysOf(rows []Row) [][]Val {
	var ks [][]Val
	for _, r := range rows {
		ks = append(ks, r.Key)
	}
	return ks
}

// c09Foreign picks a foreign modification of a row the (single) statement wrote
func c09Foreign(p *Plan, sr *shadowRun, r *hutil.Rng) {
	if len(sr.effects) == 0 || len(sr.effects[0]) == 0 {
		return
	}
	e := sr.effects[0][len(sr.effects[0])-1]
	if len(e.Rows) == 0 {
		return
	}
	t := tableOf(p, e.Table)
	pre, post := sr.s0[e.Table], sr.after[0][e.Table]
	g := &genCtx{r: r}
	row := e.Rows[r.Intn(len(e.Rows))]
	differentVals := func(base []Val, cols []int) []Val {
		nv := append([]Val{}, base...)
		if len(cols) == 1 && r.Chance(2, 3) {
			// prefer a column of the same group (written / unwritten) that has a NEARBY value: sub-second, last digit, trailing blank
			var near []int
			for ci := range t.Cols {
				inMask := e.Mask == nil || e.Mask[ci]
				baseIn := e.Mask == nil || e.Mask[cols[0]]
				if _, ok := nearVal(hutil.NewRng(1), t.Cols[ci], base[ci]); ok && inMask == baseIn {
					near = append(near, ci)
				}
			}
			if len(near) > 0 {
				cols = []int{near[r.Intn(len(near))]}
			}
		}
		for _, ci := range cols {
			if nv2, ok := nearVal(r, t.Cols[ci], base[ci]); ok && r.Chance(1, 2) {
				nv[ci] = nv2
				continue
			}
			for try := 0; try < 20; try++ {
				v := genVal(r, t.Cols[ci])
				if v != base[ci] {
					nv[ci] = v
					break
				}
			}
		}
		return nv
	}
	setRow := func(key []Val, vals []Val) Foreign {
		var sets []string
		for i, c := range t.Cols {
			sets = append(sets, c.Name+" = "+vals[i].lit())
		}
		q, _ := insertSQL(t, []Row{{Key: key, Vals: vals}}, false, true)
		return Foreign{SQL: q + " ON DUPLICATE KEY UPDATE " + strings.Join(sets, ", "), Table: t.Name, Key: key, Set: vals}
	}
	del := func(key []Val) Foreign {
		return Foreign{SQL: "DELETE FROM " + t.Name + " WHERE " + litWhere(t, key), Table: t.Name, Key: key}
	}
	_ = g
	switch e.Kind {
	case "insert":
		cur := post.Rows[post.find(row.Key)]
		switch r.Intn(4) {
		case 0:
			p.Foreign = []Foreign{setRow(row.Key, differentVals(cur.Vals, []int{r.Intn(len(t.Cols))}))}
		case 1:
			p.Foreign = []Foreign{del(row.Key)}
		case 2:
			for _, x := range e.Rows {
				p.Foreign = append(p.Foreign, del(x.Key))
			}
		}
	case "update":
		i := post.find(row.Key)
		if i < 0 {
			return
		}
		cur := post.Rows[i]
		var written, unwritten []int
		for ci := range t.Cols {
			if e.Mask == nil || e.Mask[ci] {
				written = append(written, ci)
			} else {
				unwritten = append(unwritten, ci)
			}
		}
		switch r.Intn(6) {
		case 0:
			p.Foreign = []Foreign{setRow(row.Key, differentVals(cur.Vals, []int{written[r.Intn(len(written))]}))}
		case 1:
			if len(unwritten) > 0 {
				p.Foreign = []Foreign{setRow(row.Key, differentVals(cur.Vals, []int{unwritten[r.Intn(len(unwritten))]}))}
			}
		case 2:
			p.Foreign = []Foreign{del(row.Key)}
		case 3: // every row back to what the branch found
			for _, x := range e.Rows {
				if j := pre.find(x.Key); j >= 0 {
					p.Foreign = append(p.Foreign, setRow(x.Key, pre.Rows[j].Vals))
				}
			}
		case 4: // only one row back
			if j := pre.find(row.Key); j >= 0 {
				p.Foreign = []Foreign{setRow(row.Key, pre.Rows[j].Vals)}
			}
		}
	case "delete":
		j := pre.find(row.Key)
		if j < 0 {
			return
		}
		switch r.Intn(4) {
		case 0:
			p.Foreign = []Foreign{setRow(row.Key, pre.Rows[j].Vals)}
		case 1:
			for _, x := range e.Rows {
				if jj := pre.find(x.Key); jj >= 0 {
					p.Foreign = append(p.Foreign, setRow(x.Key, pre.Rows[jj].Vals))
				}
			}
		case 2:
			p.Foreign = []Foreign{setRow(row.Key, differentVals(pre.Rows[j].Vals, []int{r.Intn(len(t.Cols))}))}
		}
	}
}

// ---------------------------------------------------------------- scenario

type stepIdx struct {
	d0, gtx, d1, df int
	branchSteps     [][]int // indices inside the gtx body per branch
	deliveries      []int   // phase2 step per delivery
	dumps           []int   // dump step after each delivery
}

const faultPattern = "^(?i)\\s*(START TRANSACTION|BEGIN|COMMIT|UPDATE|DELETE|INSERT|SELECT \\x60branch_id|SELECT \\* FROM)"

var faultKinds = []string{"BEGIN", "EXEC", "QUERY", "PREPARE", "STMT_EXEC", "STMT_QUERY", "COMMIT"}

func buildScenario(p *Plan) (atrun.Scenario, *stepIdx) {
	// every plan runs under the same database name (on its own server): process-wide state keyed by database name is shared
	sc := atrun.Scenario{Name: p.Name, Config: p.Config, DB: "atroll", FixedDB: true, AutoIncStep: p.AutoStep}
	for _, t := range p.Tables {
		sc.Setup = append(sc.Setup, t.ddl())
	}
	sc.Setup = append(sc.Setup, p.Init...)
	ix := &stepIdx{}
	add := func(s atrun.Step) int { sc.Steps = append(sc.Steps, s); return len(sc.Steps) - 1 }
	ix.d0 = add(atrun.Step{Op: "dump"})
	if p.Marker {
		n := p.MarkerN
		if n < 1 {
			n = 1
		}
		var hs []atrun.Step
		for i := 0; i < n; i++ {
			hs = append(hs, atrun.Step{Op: "phase2", Action: "rollback", Xid: "127.0.0.1:8091:1", BranchID: 1})
		}
		hs = append(hs, atrun.Step{Op: "dump"})
		add(atrun.Step{Op: "tc_hook", Kind: "BranchRegister", Skip: 0, Steps: hs})
		if p.ReportFails {
			add(atrun.Step{Op: "tc_script", Rules: []tcstub.Rule{{Kind: "BranchReport", Count: 20, Action: "transport"}}})
		}
	}
	g := atrun.Step{Op: "gtx", End: "rollback"}
	for bi, b := range p.Branches {
		var idx []int
		for _, f := range p.Foreign {
			if f.Before == bi+1 {
				g.Steps = append(g.Steps, atrun.Step{Op: "exec", Via: "bare", SQL: f.SQL, NoCtx: true})
			}
		}
		conn := fmt.Sprintf("c%d", bi)
		if b.Explicit {
			g.Steps = append(g.Steps, atrun.Step{Op: "tx_begin", Conn: conn})
			idx = append(idx, len(g.Steps)-1)
		}
		for _, s := range b.Stmts {
			st := atrun.Step{Op: "exec", SQL: s.SQL, Args: s.Args}
			if b.Explicit {
				st.Conn = conn
			}
			g.Steps = append(g.Steps, st)
			idx = append(idx, len(g.Steps)-1)
		}
		if b.Explicit {
			g.Steps = append(g.Steps, atrun.Step{Op: "tx_commit", Conn: conn})
			idx = append(idx, len(g.Steps)-1)
			g.Steps = append(g.Steps, atrun.Step{Op: "conn_close", Conn: conn})
		}
		ix.branchSteps = append(ix.branchSteps, idx)
	}
	ix.gtx = add(g)
	if p.Marker {
		// the next users of the pooled connections: whatever the late phase one left open would be committed by them
		for i := 0; i < 2; i++ {
			c := fmt.Sprintf("probe%d", i)
			add(atrun.Step{Op: "tx_begin", Conn: c})
			add(atrun.Step{Op: "query", Conn: c, SQL: "SELECT COUNT(*) FROM " + p.Tables[0].Name})
			add(atrun.Step{Op: "tx_commit", Conn: c})
			add(atrun.Step{Op: "conn_close", Conn: c})
		}
	}
	ix.d1 = add(atrun.Step{Op: "dump"})
	for _, f := range p.Foreign {
		if f.Before == 0 {
			add(atrun.Step{Op: "exec", Via: "bare", SQL: f.SQL})
		}
	}
	if p.Corrupt >= 0 {
		add(atrun.Step{Op: "exec", Via: "bare", SQL: fmt.Sprintf("UPDATE undo_log SET rollback_info = 'not an undo log' WHERE branch_id = %d", p.Corrupt+1)})
	}
	ix.df = add(atrun.Step{Op: "dump"})
	for di, d := range p.Deliver {
		if d.Fault >= 0 {
			act := "error"
			if d.Drop {
				act = "drop"
			}
			add(atrun.Step{Op: "db_fault", Fault: &fakedb.Fault{Kinds: faultKinds, Pattern: faultPattern, Skip: d.Fault, Count: 1, Action: act}})
		}
		if d.ReadOn {
			add(atrun.Step{Op: "db_fault", Fault: &fakedb.Fault{Kinds: []string{"QUERY", "STMT_QUERY"}, Pattern: faultPattern, Skip: d.Read, Count: 1,
				Action: "breakrows", Rows: d.ReadRows, ErrNo: 1213}})
		}
		if di == 0 && p.HookWrite != nil {
			add(atrun.Step{Op: "db_hook", Fault: &fakedb.Fault{Kinds: []string{"QUERY"}, Pattern: "^(?i)\\s*SELECT \\* FROM", Count: 1},
				Steps: []atrun.Step{{Op: "exec", Via: "bare", SQL: p.HookWrite.SQL}}})
		}
		if d.Hold != "" {
			add(atrun.Step{Op: "tx_begin", Via: "bare", Conn: "holder"})
			add(atrun.Step{Op: "query", Via: "bare", Conn: "holder", SQL: holdSQL(p, d)})
		}
		ix.deliveries = append(ix.deliveries, add(atrun.Step{Op: "phase2", Action: "rollback", Gtx: 0, Branch: d.Branch}))
		if d.Fault >= 0 || d.ReadOn || (di == 0 && p.HookWrite != nil) {
			add(atrun.Step{Op: "db_fault_clear"})
		}
		if d.Hold != "" {
			add(atrun.Step{Op: "tx_rollback", Via: "bare", Conn: "holder"})
			add(atrun.Step{Op: "conn_close", Via: "bare", Conn: "holder"})
		}
		ix.dumps = append(ix.dumps, add(atrun.Step{Op: "dump"}))
	}
	return sc, ix
}

// holdSQL: the locking read of the other connection
func holdSQL(p *Plan, d Delivery) string {
	undo := fmt.Sprintf("SELECT branch_id FROM undo_log WHERE branch_id = %d FOR UPDATE", d.Branch+1)
	if d.Hold != "row" {
		return undo
	}
	sr := runShadow(p)
	if d.Branch < len(sr.effects) {
		for i := len(sr.effects[d.Branch]) - 1; i >= 0; i-- {
			e := sr.effects[d.Branch][i]
			if len(e.Rows) > 0 && e.Kind != "delete" {
				t := tableOf(p, e.Table)
				return "SELECT * FROM " + t.Name + " WHERE " + litWhere(t, e.Rows[0].Key) + " FOR UPDATE"
			}
		}
	}
	return undo
}

// ---------------------------------------------------------------- observed images

func imageVal(v atrun.Val) (Val, bool) {
	switch v.K {
	case "null":
		return vNull(), true
	case "int", "uint":
		return Val{K: "int", V: v.V}, true
	case "str", "raw":
		return vStr(v.V), true
	case "float", "float32":
		f, err := strconv.ParseFloat(v.V, 64)
		return vFloat(f), err == nil
	}
	return Val{}, false
}

func imageRows(t *Table, img *atrun.Image) ([]Row, []bool, bool) {
	mask := make([]bool, len(t.Cols))
	var rows []Row
	if img == nil {
		return nil, nil, true
	}
	for ri, r := range img.Rows {
		row := Row{Key: make([]Val, len(t.Keys)), Vals: make([]Val, len(t.Cols))}
		for i := range row.Vals {
			row.Vals[i] = vNull()
		}
		seenKey := 0
		for _, c := range r {
			hit := false
			for i, k := range t.Keys {
				if strings.EqualFold(k.Name, c.Name) {
					v, ok := canonCell(k, c.Value.K, c.Value.V)
					if !ok {
						return nil, nil, false
					}
					row.Key[i], hit = v, true
					seenKey++
				}
			}
			for i, k := range t.Cols {
				if strings.EqualFold(k.Name, c.Name) {
					v, ok := canonCell(k, c.Value.K, c.Value.V)
					if !ok {
						return nil, nil, false
					}
					row.Vals[i], hit = v, true
					if ri == 0 {
						mask[i] = true
					} else if !mask[i] {
						return nil, nil, false // rows of one image with different columns
					}
				}
			}
			if !hit {
				return nil, nil, false
			}
		}
		if seenKey < len(t.Keys) {
			return nil, nil, false
		}
		rows = append(rows, row)
	}
	if len(img.Rows) == 0 {
		return rows, nil, true
	}
	return rows, mask, true
}

var kindOfSQLType = map[int]string{1: "insert", 2: "update", 3: "delete"}

func observedImages(p *Plan, u *atrun.UndoRow) ([]ImageJ, bool) {
	var out []ImageJ
	for _, it := range u.Items {
		t := tableOf(p, strings.ToLower(it.Table))
		k, ok := kindOfSQLType[it.SQLType]
		if t == nil || !ok {
			return nil, false
		}
		b, mb, ok1 := imageRows(t, it.Before)
		a, ma, ok2 := imageRows(t, it.After)
		if !ok1 || !ok2 {
			return nil, false
		}
		m := mb
		if m == nil {
			m = ma
		}
		if m == nil {
			m = make([]bool, len(t.Cols))
		}
		if mb != nil && ma != nil {
			for i := range mb {
				if mb[i] != ma[i] {
					return nil, false
				}
			}
		}
		out = append(out, ImageJ{Table: t.Name, Kind: k, Mask: m, Before: b, After: a})
	}
	return out, true
}

// ---------------------------------------------------------------- one case

func journalOf(tr *atrun.Trace, s *atrun.StepResult) (fired bool, ops int) {
	fired, ops, _ = journalOf3(tr, s)
	return
}

// journalOf3 also returns the index (among the counted calls) of the first call that failed, -1 if none
func journalOf3(tr *atrun.Trace, s *atrun.StepResult) (fired bool, ops int, firstErr int) {
	firstErr = -1
	for _, e := range tr.Journal {
		if e.Seq <= s.SeqFrom || e.Seq > s.SeqTo || e.DB == nil {
			continue
		}
		if e.DB.DSNTag == "bare" {
			continue // another session (lock holder, hook write): not a call of the rollback
		}
		if e.DB.Injected {
			fired = true
		}
		switch e.DB.Kind {
		case "BEGIN", "EXEC", "QUERY", "PREPARE", "STMT_EXEC", "STMT_QUERY", "COMMIT":
			if !strings.Contains(strings.ToUpper(e.DB.SQL), "INFORMATION_SCHEMA") {
				if (e.DB.Err != "" || (e.DB.Injected && (e.DB.Kind == "QUERY" || e.DB.Kind == "STMT_QUERY"))) && firstErr < 0 {
					firstErr = ops
				}
				ops++
			}
		}
	}
	return
}

func normalUndo(us []atrun.UndoRow) string {
	var ks []string
	for _, u := range us {
		ks = append(ks, fmt.Sprintf("%s/%d/%d/%s", u.Xid, u.BranchID, u.Status, u.RawHex))
	}
	sort.Strings(ks)
	return strings.Join(ks, ";")
}

func runPlan(p *Plan, faultAt int) (*CaseJ, int) {
	c := &CaseJ{Name: p.Name, Stream: p.Stream, Plan: p, Fault: faultAt, DV: *p.Config.DataValidation, OC: *p.Config.OnlyCareUpdateColumns,
		Xid: 1, Oracle: []string{}, Stats: map[string]int{}}
	sr := runShadow(p)
	sc, ix := buildScenario(p)
	tr := atrun.Run(sc)
	bad := func(f string, a ...interface{}) { c.Oracle = append(c.Oracle, fmt.Sprintf(f, a...)) }
	excl := func(f string, a ...interface{}) {
		if c.Excluded == "" {
			c.Excluded = fmt.Sprintf(f, a...)
		}
	}
	if tr.SetupErr != "" || len(tr.Steps) != len(sc.Steps) {
		excl("setup: %s", tr.SetupErr)
		return c, 0
	}
	dumpOf := func(i int) DBState {
		d, _, err := parseDump(tr.Steps[i].Dump, p.Tables)
		if err != nil {
			excl("dump: %v", err)
			return DBState{}
		}
		return d
	}
	d0, d1, df := dumpOf(ix.d0), dumpOf(ix.d1), dumpOf(ix.df)
	c.Init = d0.list(p.Tables)
	if !sr.ok || !sameDB(d0, sr.s0, p.Tables) {
		excl("shadow: initial state not predicted")
	}
	// ---- phase one
	gt := tr.Steps[ix.gtx]
	for _, s := range gt.Sub {
		if s.Class != "ok" {
			c.Notes = append(c.Notes, fmt.Sprintf("step %s %s: %s %s", s.Path, s.Op, s.ErrClass, s.ErrText))
		}
	}
	var bids []int64
	if len(tr.Globals) == 1 {
		for _, b := range tr.Globals[0].Branches {
			bids = append(bids, b.ID)
		}
	}
	if len(bids) != len(p.Branches) {
		excl("branches: %d registered, %d planned", len(bids), len(p.Branches))
	}
	undoByBranch := map[int64]*atrun.UndoRow{}
	for i := range tr.Steps[ix.d1].Undo {
		u := &tr.Steps[ix.d1].Undo[i]
		undoByBranch[u.BranchID] = u
	}
	var markerEvs []EventJ
	if p.Marker {
		n := len(tr.HookResults) - 1
		if n >= 1 && len(tr.HookResults[n].Dump) > 0 {
			hd, _, _ := parseDump(tr.HookResults[n].Dump, p.Tables)
			for i := 0; i < n; i++ {
				if len(tr.HookResults[i].Phase2) != 1 {
					excl("marker: hook delivery %d has no result", i)
					continue
				}
				ph := tr.HookResults[i].Phase2[0]
				out := -1
				if ph.Replied {
					out = ph.Status
				}
				fired, ops := journalOf(tr, &tr.HookResults[i])
				ev := EventJ{E: "rollback", B: 1, Fault: -1, Out: out, Fired: fired, Ops: ops}
				if i == n-1 {
					ev.Tabs = hd.list(p.Tables)
				}
				markerEvs = append(markerEvs, ev)
				if out != 8 {
					bad("C10 marker: delivery %d of the rollback that found no undo log answered %d, not PhaseTwo_Rollbacked", i+1, out)
				}
			}
		} else {
			excl("marker: hook did not run")
		}
	}
	for bi := range p.Branches {
		ok := true
		for _, si := range ix.branchSteps[bi] {
			if si < len(gt.Sub) && gt.Sub[si].Class != "ok" {
				ok = false
			}
		}
		var early []Foreign
		for _, f := range p.Foreign {
			if f.Before == bi+1 {
				early = append(early, f)
			}
		}
		if len(early) > 0 {
			c.Events = append(c.Events, EventJ{E: "foreign", Writes: early, Fault: -1, Out: -1})
		}
		ev := EventJ{E: "branch", Stmts: sr.effects[bi], OK: ok, Fault: -1, Out: -1}
		if bi < len(bids) {
			ev.B = bids[bi]
			if u := undoByBranch[bids[bi]]; u != nil && u.Status == 0 {
				imgs, iok := observedImages(p, u)
				if !iok || u.DecodeErr != "" {
					excl("images of branch %d outside the value universe (%s)", bids[bi], u.DecodeErr)
				}
				ev.Images = imgs
			}
		}
		if !ok && !p.Marker {
			excl("a generated statement failed")
		}
		if p.Marker && bi == 0 && len(markerEvs) > 0 {
			c.Events = append(c.Events, markerEvs...)
			nonEmpty := false
			for _, e := range sr.effects[0] {
				if len(e.Rows) > 0 {
					nonEmpty = true
				}
			}
			if nonEmpty && ok {
				bad("C10 marker: the late phase one of branch 1 committed although the rollback had left its marker")
			}
		}
		c.Events = append(c.Events, ev)
	}
	if !p.Marker && (len(c.Notes) > 0 || len(bids) != len(p.Branches)) {
		// a generated statement failed in phase one (the generator avoids that; after such a failure the
		// proxy leaves the local transaction open, C02's subject): no verdict from this case
		excl("a generated statement failed")
		c.Oracle = []string{}
		return c, 0
	}
	if p.Marker {
		if !sameDB(d1, d0, p.Tables) {
			bad("C10 marker: the late phase one changed durable business data")
		}
	} else if len(sr.after) > 0 && !sameDB(d1, sr.after[len(sr.after)-1], p.Tables) {
		excl("shadow: state after phase one not predicted")
	}
	// ---- foreign / corrupt
	var late []Foreign
	for _, f := range p.Foreign {
		if f.Before == 0 {
			late = append(late, f)
		}
	}
	if len(late) > 0 {
		c.Events = append(c.Events, EventJ{E: "foreign", Writes: late, Fault: -1, Out: -1})
		exp := d1.clone()
		for _, f := range late {
			applyForeign(exp, f)
		}
		if !sameDB(df, exp, p.Tables) {
			excl("shadow: foreign writes not predicted")
		}
	}
	if p.Corrupt >= 0 && p.Corrupt < len(bids) {
		c.Events = append(c.Events, EventJ{E: "corrupt", B: bids[p.Corrupt], Fault: -1, Out: -1})
	}
	// ---- c09 expectation from the property text (one statement, its image, the current rows)
	exp09 := ""
	if p.Stream == "c09" && len(sr.effects) == 1 && len(sr.effects[0]) > 0 {
		e := sr.effects[0][len(sr.effects[0])-1]
		if len(sr.effects[0]) == 1 && len(e.Rows) > 0 {
			pre, post, cur := sr.s0[e.Table], sr.after[0][e.Table], df[e.Table]
			var before, after, current []Row
			mask := e.Mask
			if !c.OC {
				mask = nil
			}
			switch e.Kind {
			case "insert":
				mask = nil
				after = rowsAt(post, keysOf(e.Rows))
				current = rowsAt(cur, keysOf(e.Rows))
			case "update":
				before = rowsAt(pre, keysOf(e.Rows))
				after = rowsAt(post, keysOf(e.Rows))
				current = rowsAt(cur, keysOf(e.Rows))
			case "delete":
				mask = nil
				before = rowsAt(pre, keysOf(e.Rows))
				current = rowsAt(cur, keysOf(e.Rows))
			}
			switch {
			case rowsEq(mask, before, after):
				exp09 = "stop"
			case rowsEq(mask, after, current):
				exp09 = "go"
			case rowsEq(mask, before, current):
				exp09 = "stop"
			default:
				exp09 = "dirty"
			}
			c.Stats["c09."+e.Kind+"."+exp09]++
		}
	}
	// ---- deliveries
	prev, prevUndo := df, normalUndo(tr.Steps[ix.df].Undo)
	firstDone := map[int]DBState{}
	maxOps := 0
	for di, d := range p.Deliver {
		st := &tr.Steps[ix.deliveries[di]]
		if len(st.Phase2) != 1 || d.Branch >= len(bids) {
			excl("delivery %d: no phase-two result", di)
			continue
		}
		ph := st.Phase2[0]
		out := -1
		if ph.Replied {
			out = ph.Status
		}
		fired, ops, firstErr := journalOf3(tr, st)
		if di == 0 && p.HookWrite != nil && !d.ReadOn && d.Fault < 0 {
			fired = false // the hook's trigger is journalled as injected; it fails nothing
		}
		if d.ReadOn && fired && firstErr >= 0 {
			// the result set of that query broke off: the call with that index failed (the error surfaces at rows.Err())
			d.Fault = firstErr
		} else if d.ReadOn {
			fired = false
		}
		if d.Hold != "" && firstErr >= 0 {
			// the lock holder made that call fail (1205, not applied): the same observable as an injected failure there
			fired, d.Fault = true, firstErr
		}
		after := dumpOf(ix.dumps[di])
		afterUndo := normalUndo(tr.Steps[ix.dumps[di]].Undo)
		if ph.Class != "ok" {
			bad("rollback of branch %d: processor call ended %s", bids[d.Branch], ph.Class)
		}
		hookLanded := false
		if di == 0 && p.HookWrite != nil {
			for _, h := range tr.HookResults {
				if h.Op == "exec" && h.Class == "ok" {
					hookLanded = true
				}
			}
			if hookLanded {
				// (only possible when the validation read took no row lock) the write of the other session landed in
				// the middle of the rollback transaction
				c.Events = append(c.Events, EventJ{E: "foreign", Writes: []Foreign{*p.HookWrite}, Fault: -1, Out: -1})
				i := after[p.HookWrite.Table].find(p.HookWrite.Key)
				kept := i >= 0 && p.HookWrite.Set != nil && keyStr(after[p.HookWrite.Table].Rows[i].Vals) == keyStr(p.HookWrite.Set)
				if out == 8 && !kept {
					bad("C09: a foreign write that landed between the validation read and the compensating statement of the rollback of branch %d was overwritten, PhaseTwo_Rollbacked answered", bids[d.Branch])
				}
			}
		}
		c.Events = append(c.Events, EventJ{E: "rollback", B: bids[d.Branch], Fault: d.Fault, Out: out, Fired: fired, Tabs: after.list(p.Tables), Ops: ops})
		if d.Fault < 0 && ops > maxOps {
			maxOps = ops
			nq := 0
			for _, e := range tr.Journal {
				if e.Seq > st.SeqFrom && e.Seq <= st.SeqTo && e.DB != nil && (e.DB.Kind == "QUERY" || e.DB.Kind == "STMT_QUERY") &&
					!strings.Contains(strings.ToUpper(e.DB.SQL), "INFORMATION_SCHEMA") {
					nq++
				}
			}
			c.Stats["queries"] = nq
			// positions (among the counted calls) of every Exec of a prepared compensating statement of this delivery
			c.ExecIdx = nil
			pos := 0
			for _, e := range tr.Journal {
				if e.Seq <= st.SeqFrom || e.Seq > st.SeqTo || e.DB == nil || e.DB.DSNTag == "bare" {
					continue
				}
				switch e.DB.Kind {
				case "BEGIN", "EXEC", "QUERY", "PREPARE", "STMT_EXEC", "STMT_QUERY", "COMMIT":
					if strings.Contains(strings.ToUpper(e.DB.SQL), "INFORMATION_SCHEMA") {
						continue
					}
					if e.DB.Kind == "STMT_EXEC" && !strings.Contains(strings.ToLower(e.DB.SQL), "undo_log") {
						c.ExecIdx = append(c.ExecIdx, pos)
					}
					pos++
				}
			}
		}
		switch {
		case fired:
			// C01 failure reported / C10 no partial compensation
			if out == 8 {
				bad("a database failure during the rollback of branch %d (call %d) was answered PhaseTwo_Rollbacked", bids[d.Branch], d.Fault)
			}
			if !sameDB(after, prev, p.Tables) || afterUndo != prevUndo {
				bad("a failed rollback attempt of branch %d (call %d) left changes behind", bids[d.Branch], d.Fault)
			}
		case p.Stream == "corrupt" && undoByBranch[bids[d.Branch]] != nil && undoByBranch[bids[d.Branch]].Status == 0:
			if out == 8 {
				bad("an undecodable undo log of branch %d was answered PhaseTwo_Rollbacked", bids[d.Branch])
			}
			if !sameDB(after, prev, p.Tables) || afterUndo != prevUndo {
				bad("a refused rollback of branch %d changed data", bids[d.Branch])
			}
		case p.Stream == "c09" && exp09 != "" && !hookLanded:
			switch exp09 {
			case "dirty":
				if out == 8 {
					bad("C09: rows of branch %d differ from both images, yet the rollback answered PhaseTwo_Rollbacked", bids[d.Branch])
				}
				if !sameDB(after, prev, p.Tables) || afterUndo != prevUndo {
					bad("C09: a refused rollback of branch %d touched the rows or the undo log", bids[d.Branch])
				}
			case "stop":
				if out != 8 {
					bad("C09: rows of branch %d already equal the before image, the rollback answered %d", bids[d.Branch], out)
				}
				if !sameDB(after, prev, p.Tables) {
					bad("C09: rows of branch %d already equal the before image, yet the rollback wrote", bids[d.Branch])
				}
			case "go":
				if out != 8 {
					bad("C09: rows of branch %d still equal the after image, the rollback answered %d", bids[d.Branch], out)
				}
				// restored: tracked columns back to the values before the transaction, other columns as they are now
				e := sr.effects[0][0]
				want := prev.clone()
				t := tableOf(p, e.Table)
				for _, r := range e.Rows {
					i := want[e.Table].find(r.Key)
					j := sr.s0[e.Table].find(r.Key)
					switch e.Kind {
					case "insert":
						if i >= 0 {
							want[e.Table].Rows = append(want[e.Table].Rows[:i], want[e.Table].Rows[i+1:]...)
						}
					case "delete":
						if j >= 0 && i < 0 {
							want[e.Table].Rows = append(want[e.Table].Rows, sr.s0[e.Table].Rows[j])
						}
					case "update":
						if i >= 0 && j >= 0 {
							for ci := range t.Cols {
								if !c.OC || e.Mask == nil || e.Mask[ci] {
									want[e.Table].Rows[i].Vals[ci] = sr.s0[e.Table].Rows[j].Vals[ci]
								}
							}
						}
					}
				}
				if !sameDB(after, want, p.Tables) {
					bad("C09: rows of branch %d equal the after image but were not restored to the before image", bids[d.Branch])
				}
			}
		default:
			if out != 8 && p.Stream != "c09" {
				bad("the rollback of branch %d answered %d, not PhaseTwo_Rollbacked", bids[d.Branch], out)
			}
			if s, ok := firstDone[d.Branch]; ok && out == 8 && !sameDB(after, s, p.Tables) {
				bad("C10: a repeated rollback delivery of branch %d changed the tables again", bids[d.Branch])
			}
		}
		if out == 8 {
			if _, ok := firstDone[d.Branch]; !ok {
				firstDone[d.Branch] = after
			}
		}
		prev, prevUndo = after, afterUndo
	}
	// ---- end state
	fin, _, err := parseDump(tr.FinalDump, p.Tables)
	if err != nil {
		excl("final dump: %v", err)
		fin = DBState{}
	}
	c.Final = fin.list(p.Tables)
	for _, u := range tr.FinalUndo {
		c.Undo = append(c.Undo, UndoJ{B: u.BranchID, Normal: u.Status == 0})
	}
	allOK := true
	for _, e := range c.Events {
		if e.E == "rollback" && e.Out != 8 {
			allOK = false
		}
	}
	switch p.Stream {
	case "c01", "c10repeat", "c10fault", "c10race":
		exp := d0.clone()
		for at := 1; at <= len(p.Branches); at++ {
			for _, f := range p.Foreign {
				if f.Before == at {
					applyForeign(exp, f)
				}
			}
		}
		for _, f := range late {
			applyForeign(exp, f)
		}
		if allOK || p.Stream == "c10fault" || p.Stream == "c10race" {
			if !sameDB(fin, exp, p.Tables) {
				bad("C01: after the rollback of every branch the tables differ from their contents before the global transaction")
			}
			for _, u := range tr.FinalUndo {
				if u.Status == 0 {
					bad("C01: undo log of branch %d is still there after 'rollbacked'", u.BranchID)
				}
			}
		}
	}
	{
		if len(tr.OpenTxAtEnd) > 0 || len(tr.PoolReturnsTx) > 0 {
			bad("C10: a local transaction of the rollback / of the refused late phase one was left open (%d open, %d connections returned inside a transaction)", len(tr.OpenTxAtEnd), len(tr.PoolReturnsTx))
		}
	}
	return c, maxOps
}

// ---------------------------------------------------------------- sub-command

// Run is the `atroll` sub-command: seed=, n01= n10r= n10f= n10m= n09= ncor= kf= (fault indices per base case, 0 = all) out=
// or replay=<file with {"plans":[...]}>.
func Run(args map[string]string) {
	out := hutil.ArgStr(args, "out", "")
	if out == "" {
		fmt.Fprintln(os.Stderr, "atroll: out= is required")
		os.Exit(2)
	}
	seed := hutil.ArgU64(args, "seed", 1)
	var cases []*CaseJ
	truncated := false
	emit := func(p *Plan, r *hutil.Rng, kf int) {
		switch p.Stream {
		case "c09":
			switch r.Intn(8) {
			case 0: // no foreign write beforehand: one is attempted in the middle of the rollback transaction instead
				sr := runShadow(p)
				c09Foreign(p, sr, r)
				// only a row that exists when the validation reads it can be locked by that read (no gap locks in the
				// stand-in database): the mid-transaction write targets rows the branch inserted or updated
				if len(p.Foreign) == 1 && p.Foreign[0].Set != nil && len(sr.after) > 0 && sr.after[0][p.Foreign[0].Table].find(p.Foreign[0].Key) >= 0 {
					f := p.Foreign[0]
					p.HookWrite, p.Foreign = &f, nil
				}
			case 1: // foreign write, then the validation read breaks off; a clean delivery follows
				c09Foreign(p, runShadow(p), r)
				p.Deliver = []Delivery{{Branch: 0, Fault: -1, ReadOn: true, Read: 1, ReadRows: r.Intn(2)}, {Branch: 0, Fault: -1}}
			default:
				c09Foreign(p, runShadow(p), r)
			}
			c, _ := runPlan(p, -1)
			cases = append(cases, c)
		case "c10fault":
			base, ops := runPlan(p, -1)
			cases = append(cases, base)
			if base.Excluded != "" || ops == 0 {
				return
			}
			var ks []int
			for k := 0; k < ops; k++ {
				ks = append(ks, k)
			}
			if kf > 0 && len(ks) > kf {
				// always the first, the last (COMMIT) and a sample in between
				pick := []int{0, ops - 1}
				// every Exec of every prepared compensating statement (insert / update / delete undo alike, one per row),
				// at most six of them when there are more
				ex := append([]int{}, base.ExecIdx...)
				for len(ex) > 6 {
					i := r.Intn(len(ex))
					ex = append(ex[:i], ex[i+1:]...)
				}
				pick = append(pick, ex...)
				for len(pick) < kf+len(ex) && ops > 2 {
					pick = append(pick, 1+r.Intn(ops-2))
				}
				ks = pick
			}
			for _, k := range ks {
				q := *p
				q.Name = fmt.Sprintf("%s-f%d", p.Name, k)
				q.Deliver = []Delivery{{Branch: 0, Fault: k, Drop: k == ops-1}, {Branch: 0, Fault: -1}}
				c, _ := runPlan(&q, k)
				cases = append(cases, c)
			}
			// every query of the rollback transaction (undo_log select, validation reads) breaks off after 0 / 1 rows
			for j := 0; j < base.Stats["queries"]; j++ {
				for _, n := range []int{0, 1} {
					if kf > 0 && !(n == 0 || r.Chance(1, 3)) {
						continue
					}
					q := *p
					q.Name = fmt.Sprintf("%s-r%d.%d", p.Name, j, n)
					q.Deliver = []Delivery{{Branch: 0, Fault: -1, ReadOn: true, Read: j, ReadRows: n}, {Branch: 0, Fault: -1}}
					c, _ := runPlan(&q, -1)
					cases = append(cases, c)
				}
			}
		default:
			c, _ := runPlan(p, -1)
			cases = append(cases, c)
		}
	}
	if rp := hutil.ArgStr(args, "replay", ""); rp != "" {
		for _, p := range readPlans(rp) {
			c, _ := runPlan(p, -1)
			cases = append(cases, c)
		}
	} else {
		kf := hutil.ArgInt(args, "kf", 4)
		// wall-clock budget: on the unchanged tree a quick run takes seconds; a rollback that leaves its transaction
		// open makes every later step and teardown run into its limit, so stop generating and report what was seen
		deadline := time.Now().Add(time.Duration(hutil.ArgInt(args, "budget_s", 3000)) * time.Second)
		for _, sn := range []struct {
			stream, arg string
			def         int
		}{{"c01", "n01", 40}, {"c10repeat", "n10r", 10}, {"c10fault", "n10f", 6}, {"c10marker", "n10m", 6}, {"c09", "n09", 30}, {"corrupt", "ncor", 4}, {"c10race", "n10x", 0}} {
			n := hutil.ArgInt(args, sn.arg, sn.def)
			rng := hutil.NewRng(seed*1000003 + uint64(len(sn.stream))*7919 + uint64(sn.stream[2]))
			for i := 0; i < n; i++ {
				if time.Now().After(deadline) {
					truncated = true
					break
				}
				r := rng.Fork(uint64(i))
				p := genPlan(r, sn.stream, seed, i)
				for try := 0; try < 6 && !runShadow(p).ok; try++ {
					p = genPlan(r, sn.stream, seed, i) // a statement of the plan would fail (key collision): draw again
				}
				if !runShadow(p).ok {
					continue
				}
				emit(p, r, kf)
			}
		}
	}
	hutil.WriteJSON(out, map[string]interface{}{"cases": cases, "truncated": truncated})
}
