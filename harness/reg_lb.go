package main

import "verifh/lb"

func init() { subcommands["lb"] = lb.Run }
