package main

import "verifh/undorun"

func init() { subcommands["undo"] = undorun.Run }
