package main

// splitmix64: every random choice of the harness derives from one state so a
// case replays from (seed, index); cases are also self-contained in the output.
type rng struct{ s uint64 }

func newRng(seed uint64) *rng { return &rng{s: seed*0x9E3779B97F4A7C15 + 0x1234567} }

func (r *rng) next() uint64 {
	r.s += 0x9E3779B97F4A7C15
	z := r.s
	z = (z ^ (z >> 30)) * 0xBF58476D1CE4E5B9
	z = (z ^ (z >> 27)) * 0x94D049BB133111EB
	return z ^ (z >> 31)
}

func (r *rng) intn(n int) int {
	if n <= 0 {
		return 0
	}
	return int(r.next() % uint64(n))
}

func (r *rng) chance(num, den int) bool { return r.intn(den) < num }

func (r *rng) pick(xs []int) int { return xs[r.intn(len(xs))] }

func (r *rng) bytes(n int) []byte {
	b := make([]byte, n)
	mode := r.intn(4)
	for i := range b {
		switch mode {
		case 0:
			b[i] = byte('a' + r.intn(26))
		case 1:
			b[i] = byte(r.next())
		case 2:
			// multi-byte utf-8 (U+4E2D) interleaved with ascii
			b[i] = []byte{0xe4, 0xb8, 0xad, 'x'}[i%4]
		default:
			b[i] = byte(0x20 + r.intn(0x5f))
		}
	}
	return b
}

func (r *rng) fork(tag uint64) *rng { return newRng(r.next() ^ tag) }
