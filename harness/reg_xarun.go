package main

import "verifh/xarun"

func init() { subcommands["xarun"] = xarun.Run }
