// Package tcstub is a call-level scripted Seata coordinator (DESIGN 4.4):
// gomonkey replaces SendSyncRequest / SendAsyncRequest / SendAsyncResponse of
// the getty client singleton. The harness binary must be built with
// -gcflags=all=-l or the patches are bypassed by inlining.
package tcstub

import (
	"errors"
	"fmt"
	"reflect"
	"sort"
	"strings"
	"sync"
	"time"

	"github.com/agiledragon/gomonkey/v2"

	"seata.apache.org/seata-go/pkg/protocol/branch"
	"seata.apache.org/seata-go/pkg/protocol/message"
	"seata.apache.org/seata-go/pkg/remoting/getty"
	serrors "seata.apache.org/seata-go/pkg/util/errors"

	"verifh/fakedb"
	"verifh/hutil"
)

// Event is one entry of the coordinator request log.
type Event struct {
	Seq        int64  `json:"seq"`
	Kind       string `json:"kind"` // GlobalBegin GlobalCommit GlobalRollback GlobalStatus GlobalReport BranchRegister BranchReport GlobalLockQuery RegisterRM RegisterTM AsyncRequest:<type> BranchCommitResponse BranchRollbackResponse Response:<type> Deliver:BranchCommit Deliver:BranchRollback
	Xid        string `json:"xid,omitempty"`
	BranchID   int64  `json:"branch_id,omitempty"`
	ResourceID string `json:"resource_id,omitempty"`
	LockKey    string `json:"lock_key,omitempty"`
	BranchType int    `json:"branch_type"`
	Status     int    `json:"status"`  // BranchReport: reported status; responses: branch status
	Outcome    string `json:"outcome"` // ok | lock-conflict | failed | transport | noreply | unknown-xid
	MsgID      int32  `json:"msg_id,omitempty"`
	ResultCode int    `json:"result_code,omitempty"` // responses: 1 success, 0 failed
	Detail     string `json:"detail,omitempty"`
}

// Rule is one entry of the fault script. A request matches when Kind equals
// the event kind ("" any) and Xid (if set) equals the request's xid. The first
// Skip matches are answered normally, the next Count (default 1, -1 for ever)
// follow Action.
type Rule struct {
	Kind   string `json:"kind,omitempty"`
	Xid    string `json:"xid,omitempty"`
	Skip   int    `json:"skip,omitempty"`
	Count  int    `json:"count,omitempty"`
	Action string `json:"action"`         // fail | fail-nocode (failed result, error code Unknown) | transport | noreply | hook | lock-conflict
	Hook   string `json:"hook,omitempty"` // action hook: name of the callback run BEFORE the request is answered normally
	seen   int
	fired  int
}

// Branch is a registered branch.
type Branch struct {
	ID         int64    `json:"id"`
	Xid        string   `json:"xid"`
	ResourceID string   `json:"resource_id"`
	Type       int      `json:"type"`
	LockKey    string   `json:"lock_key"`
	Locks      []string `json:"locks"`
	Status     int      `json:"status"` // last reported / phase-two status
	AppData    string   `json:"app_data,omitempty"`
}

// Global is a global transaction as the stub sees it.
type Global struct {
	Xid      string    `json:"xid"`
	Name     string    `json:"name"`
	Status   int       `json:"status"` // message.GlobalStatus
	Branches []*Branch `json:"branches"`
}

// Stub is the scripted coordinator.
type Stub struct {
	mu        sync.Mutex
	log       []Event
	rules     []*Rule
	hooks     map[string]func(Event)
	globals   map[string]*Global
	order     []string
	locks     map[string]string // resource^table^pk -> xid
	nextXid   int64
	nextBr    int64
	nextMsg   int32
	responses map[int32]interface{}
	patches   *gomonkey.Patches
}

var (
	inst     *Stub
	instOnce sync.Once
)

// Install patches the client singleton (once per process) and returns the stub.
func Install() *Stub {
	instOnce.Do(func() {
		s := &Stub{}
		s.resetLocked()
		cl := getty.GetGettyRemotingClient()
		p := gomonkey.NewPatches()
		p.ApplyMethod(reflect.TypeOf(cl), "SendSyncRequest", func(_ *getty.GettyRemotingClient, msg interface{}) (interface{}, error) {
			return s.sync(msg)
		})
		p.ApplyMethod(reflect.TypeOf(cl), "SendAsyncRequest", func(_ *getty.GettyRemotingClient, msg interface{}) error {
			return s.asyncRequest(msg)
		})
		p.ApplyMethod(reflect.TypeOf(cl), "SendAsyncResponse", func(_ *getty.GettyRemotingClient, id int32, msg interface{}) error {
			return s.asyncResponse(id, msg)
		})
		s.patches = p
		inst = s
	})
	return inst
}

func (s *Stub) resetLocked() {
	s.log, s.rules = nil, nil
	s.hooks = map[string]func(Event){}
	s.globals = map[string]*Global{}
	s.order = nil
	s.locks = map[string]string{}
	s.responses = map[int32]interface{}{}
}

// Reset forgets transactions, locks, script, hooks and log (id counters keep
// running so xids stay unique within the process).
func (s *Stub) Reset() { s.mu.Lock(); s.resetLocked(); s.mu.Unlock() }

// ResetIDs restarts xid / branch id numbering (deterministic traces).
func (s *Stub) ResetIDs() { s.mu.Lock(); s.nextXid, s.nextBr, s.nextMsg = 0, 0, 0; s.mu.Unlock() }

// Script appends fault rules.
func (s *Stub) Script(rules ...Rule) {
	s.mu.Lock()
	defer s.mu.Unlock()
	for i := range rules {
		r := rules[i]
		if r.Count == 0 {
			r.Count = 1
		}
		s.rules = append(s.rules, &r)
	}
}

// OnHook registers the callback run by rules with Action "hook".
func (s *Stub) OnHook(name string, fn func(Event)) { s.mu.Lock(); s.hooks[name] = fn; s.mu.Unlock() }

// Log returns the events with Seq > afterSeq.
func (s *Stub) Log(afterSeq int64) []Event {
	s.mu.Lock()
	defer s.mu.Unlock()
	var out []Event
	for _, e := range s.log {
		if e.Seq > afterSeq {
			out = append(out, e)
		}
	}
	return out
}

// Globals returns a snapshot of the global transactions in begin order.
func (s *Stub) Globals() []Global {
	s.mu.Lock()
	defer s.mu.Unlock()
	out := make([]Global, 0, len(s.order))
	for _, x := range s.order {
		g := *s.globals[x]
		bs := make([]*Branch, len(g.Branches))
		for i, b := range g.Branches {
			c := *b
			bs[i] = &c
		}
		g.Branches = bs
		out = append(out, g)
	}
	return out
}

// Locks returns the lock table (key -> owner xid), keys `resource^table^pk`.
func (s *Stub) Locks() map[string]string {
	s.mu.Lock()
	defer s.mu.Unlock()
	out := make(map[string]string, len(s.locks))
	for k, v := range s.locks {
		out[k] = v
	}
	return out
}

// SeedLock makes `xid` (any string, e.g. "foreign") own a row lock, as if
// another application held it.
func (s *Stub) SeedLock(resourceID, table, pk, xid string) {
	s.mu.Lock()
	s.locks[lockID(resourceID, table, pk)] = xid
	s.mu.Unlock()
}

// ReleaseXid drops every lock owned by xid.
func (s *Stub) ReleaseXid(xid string) {
	s.mu.Lock()
	for k, v := range s.locks {
		if v == xid {
			delete(s.locks, k)
		}
	}
	s.mu.Unlock()
}

func lockID(res, table, pk string) string {
	return res + "^" + strings.ToUpper(table) + "^" + pk
}

// ParseLockKey splits Seata's lock key string `t1:1,2;t2:a_b;` into row ids.
func ParseLockKey(resourceID, lockKey string) []string {
	var out []string
	for _, part := range strings.Split(lockKey, ";") {
		part = strings.TrimSpace(part)
		if part == "" {
			continue
		}
		i := strings.IndexByte(part, ':')
		if i < 0 {
			out = append(out, lockID(resourceID, part, ""))
			continue
		}
		for _, pk := range strings.Split(part[i+1:], ",") {
			out = append(out, lockID(resourceID, part[:i], pk))
		}
	}
	return out
}

func (s *Stub) match(kind, xid string) *Rule {
	for _, r := range s.rules {
		if r.Kind != "" && r.Kind != kind {
			continue
		}
		if r.Xid != "" && r.Xid != xid {
			continue
		}
		if r.Count > 0 && r.fired >= r.Count {
			continue
		}
		r.seen++
		if r.seen <= r.Skip {
			continue
		}
		r.fired++
		return r
	}
	return nil
}

func okResult() message.AbstractTransactionResponse {
	return message.AbstractTransactionResponse{AbstractResultMessage: message.AbstractResultMessage{ResultCode: message.ResultCodeSuccess}}
}

func failResult(msg string, code serrors.TransactionErrorCode) message.AbstractTransactionResponse {
	return message.AbstractTransactionResponse{AbstractResultMessage: message.AbstractResultMessage{ResultCode: message.ResultCodeFailed, Msg: msg}, TransactionErrorCode: code}
}

var errNoReply = errors.New("wait response timeout (tcstub: no reply)")

// sync answers one SendSyncRequest.
func (s *Stub) sync(msg interface{}) (interface{}, error) {
	s.mu.Lock()
	ev := Event{Seq: fakedb.NextSeq(), Outcome: "ok"}
	switch m := msg.(type) {
	case message.GlobalBeginRequest:
		ev.Kind, ev.Detail = "GlobalBegin", m.TransactionName
	case message.GlobalCommitRequest:
		ev.Kind, ev.Xid = "GlobalCommit", m.Xid
	case message.GlobalRollbackRequest:
		ev.Kind, ev.Xid = "GlobalRollback", m.Xid
	case message.GlobalStatusRequest:
		ev.Kind, ev.Xid = "GlobalStatus", m.Xid
	case message.GlobalReportRequest:
		ev.Kind, ev.Xid, ev.Status = "GlobalReport", m.Xid, int(m.GlobalStatus)
	case message.BranchRegisterRequest:
		ev.Kind, ev.Xid, ev.ResourceID, ev.LockKey, ev.BranchType = "BranchRegister", m.Xid, m.ResourceId, m.LockKey, int(m.BranchType)
		ev.Detail = string(m.ApplicationData)
	case message.BranchReportRequest:
		ev.Kind, ev.Xid, ev.BranchID, ev.Status, ev.BranchType = "BranchReport", m.Xid, m.BranchId, int(m.Status), int(m.BranchType)
	case message.GlobalLockQueryRequest:
		ev.Kind, ev.Xid, ev.ResourceID, ev.LockKey, ev.BranchType = "GlobalLockQuery", m.Xid, m.ResourceId, m.LockKey, int(m.BranchType)
	case message.RegisterRMRequest:
		ev.Kind, ev.ResourceID = "RegisterRM", m.ResourceIds
	case message.RegisterTMRequest:
		ev.Kind = "RegisterTM"
	default:
		ev.Kind = fmt.Sprintf("Sync:%T", msg)
	}
	rule := s.match(ev.Kind, ev.Xid)
	if rule != nil && rule.Action == "hook" {
		fn := s.hooks[rule.Hook]
		s.mu.Unlock()
		if fn != nil {
			fn(ev)
		}
		s.mu.Lock()
		rule = nil
	}
	var resp interface{}
	var err error
	action := ""
	if rule != nil {
		action = rule.Action
	}
	switch action {
	case "transport":
		ev.Outcome, err = "transport", errors.New("tcstub: transport error (connection reset by peer)")
	case "noreply":
		ev.Outcome, err = "noreply", errNoReply
	default:
		resp = s.answer(msg, &ev, action)
	}
	s.log = append(s.log, ev)
	s.mu.Unlock()
	return resp, err
}

// answer computes the normal (or failure-result) reply; s.mu held.
func (s *Stub) answer(msg interface{}, ev *Event, action string) interface{} {
	fail := action == "fail" || action == "fail-nocode"
	if fail {
		ev.Outcome = "failed"
	}
	// fail-nocode: ResultCode Failed with a message but TransactionErrorCode Unknown (what a coordinator
	// sends for an exception that is not a TransactionException)
	nocode := func(c serrors.TransactionErrorCode) serrors.TransactionErrorCode {
		if action == "fail-nocode" {
			return serrors.TransactionErrorCodeUnknown
		}
		return c
	}
	switch m := msg.(type) {
	case message.GlobalBeginRequest:
		if fail {
			return message.GlobalBeginResponse{AbstractTransactionResponse: failResult("tcstub: begin failed", nocode(serrors.TransactionErrorCodeBeginFailed))}
		}
		s.nextXid++
		xid := fmt.Sprintf("127.0.0.1:8091:%d", s.nextXid)
		s.globals[xid] = &Global{Xid: xid, Name: m.TransactionName, Status: int(message.GlobalStatusBegin)}
		s.order = append(s.order, xid)
		ev.Xid = xid
		return message.GlobalBeginResponse{AbstractTransactionResponse: okResult(), Xid: xid}
	case message.GlobalCommitRequest:
		g := s.globals[m.Xid]
		if fail || g == nil {
			if g == nil && !fail {
				ev.Outcome = "unknown-xid"
			}
			return message.GlobalCommitResponse{AbstractGlobalEndResponse: message.AbstractGlobalEndResponse{
				AbstractTransactionResponse: failResult("tcstub: commit failed", serrors.TransactionErrorCodeUnknown), GlobalStatus: message.GlobalStatusUnKnown}}
		}
		g.Status = int(message.GlobalStatusCommitted)
		s.releaseXidLocked(m.Xid)
		return message.GlobalCommitResponse{AbstractGlobalEndResponse: message.AbstractGlobalEndResponse{AbstractTransactionResponse: okResult(), GlobalStatus: message.GlobalStatusCommitted}}
	case message.GlobalRollbackRequest:
		g := s.globals[m.Xid]
		if fail || g == nil {
			if g == nil && !fail {
				ev.Outcome = "unknown-xid"
			}
			return message.GlobalRollbackResponse{AbstractGlobalEndResponse: message.AbstractGlobalEndResponse{
				AbstractTransactionResponse: failResult("tcstub: rollback failed", serrors.TransactionErrorCodeUnknown), GlobalStatus: message.GlobalStatusUnKnown}}
		}
		// branch rollbacks are delivered by the scenario; the locks stay until
		// every branch answered PhaseTwo_Rollbacked (or ReleaseXid)
		g.Status = int(message.GlobalStatusRollbacking)
		if len(g.Branches) == 0 {
			g.Status = int(message.GlobalStatusRollbacked)
			s.releaseXidLocked(m.Xid)
		}
		return message.GlobalRollbackResponse{AbstractGlobalEndResponse: message.AbstractGlobalEndResponse{AbstractTransactionResponse: okResult(), GlobalStatus: message.GlobalStatus(g.Status)}}
	case message.GlobalStatusRequest:
		st := message.GlobalStatusUnKnown
		if g := s.globals[m.Xid]; g != nil {
			st = message.GlobalStatus(g.Status)
		}
		return message.GlobalStatusResponse{AbstractGlobalEndResponse: message.AbstractGlobalEndResponse{AbstractTransactionResponse: okResult(), GlobalStatus: st}}
	case message.GlobalReportRequest:
		return message.GlobalReportResponse{AbstractGlobalEndResponse: message.AbstractGlobalEndResponse{AbstractTransactionResponse: okResult(), GlobalStatus: m.GlobalStatus}}
	case message.BranchRegisterRequest:
		if fail {
			return message.BranchRegisterResponse{AbstractTransactionResponse: failResult("tcstub: branch register failed", nocode(serrors.TransactionErrorCodeBranchRegisterFailed))}
		}
		g := s.globals[m.Xid]
		if g == nil || g.Status != int(message.GlobalStatusBegin) {
			ev.Outcome = "unknown-xid"
			return message.BranchRegisterResponse{AbstractTransactionResponse: failResult(
				fmt.Sprintf("Could not found global transaction xid = %s, may be has finished.", m.Xid), serrors.TransactionErrorCodeGlobalTransactionNotExist)}
		}
		var rows []string
		if m.BranchType == branch.BranchTypeAT {
			rows = ParseLockKey(m.ResourceId, m.LockKey)
		}
		conflict := action == "lock-conflict"
		for _, r := range rows {
			if o, held := s.locks[r]; held && o != m.Xid {
				conflict = true
			}
		}
		if conflict {
			ev.Outcome = "lock-conflict"
			return message.BranchRegisterResponse{AbstractTransactionResponse: failResult(
				fmt.Sprintf("Global lock acquire failed xid = %s branchId = %d", m.Xid, s.nextBr+1), serrors.TransactionErrorCodeLockKeyConflict)}
		}
		s.nextBr++
		b := &Branch{ID: s.nextBr, Xid: m.Xid, ResourceID: m.ResourceId, Type: int(m.BranchType), LockKey: m.LockKey, Status: int(branch.BranchStatusRegistered), AppData: string(m.ApplicationData)}
		for _, r := range rows {
			if _, held := s.locks[r]; !held {
				s.locks[r] = m.Xid
				b.Locks = append(b.Locks, r)
			}
		}
		g.Branches = append(g.Branches, b)
		ev.BranchID = b.ID
		return message.BranchRegisterResponse{AbstractTransactionResponse: okResult(), BranchId: b.ID}
	case message.BranchReportRequest:
		if fail {
			return message.BranchReportResponse{AbstractTransactionResponse: failResult("tcstub: branch report failed", nocode(serrors.TransactionErrorCodeBranchReportFailed))}
		}
		if b := s.findBranch(m.Xid, m.BranchId); b != nil {
			b.Status = int(m.Status)
		} else {
			ev.Outcome = "unknown-xid"
			return message.BranchReportResponse{AbstractTransactionResponse: failResult("tcstub: no such branch", serrors.TransactionErrorCodeBranchTransactionNotExist)}
		}
		return message.BranchReportResponse{AbstractTransactionResponse: okResult()}
	case message.GlobalLockQueryRequest:
		if fail {
			return message.GlobalLockQueryResponse{AbstractTransactionResponse: failResult("tcstub: lock query failed", serrors.TransactionErrorCodeUnknown)}
		}
		lockable := action != "lock-conflict"
		for _, r := range ParseLockKey(m.ResourceId, m.LockKey) {
			if o, held := s.locks[r]; held && o != m.Xid {
				lockable = false
			}
		}
		if !lockable {
			ev.Outcome = "lock-conflict"
		}
		return message.GlobalLockQueryResponse{AbstractTransactionResponse: okResult(), Lockable: lockable}
	case message.RegisterRMRequest:
		return message.RegisterRMResponse{AbstractIdentifyResponse: message.AbstractIdentifyResponse{
			AbstractResultMessage: message.AbstractResultMessage{ResultCode: message.ResultCodeSuccess}, Version: "1.5.2", Identified: !fail}}
	case message.RegisterTMRequest:
		return message.RegisterTMResponse{AbstractIdentifyResponse: message.AbstractIdentifyResponse{
			AbstractResultMessage: message.AbstractResultMessage{ResultCode: message.ResultCodeSuccess}, Version: "1.5.2", Identified: !fail}}
	}
	ev.Outcome = "unknown-request"
	return nil
}

func (s *Stub) findBranch(xid string, id int64) *Branch {
	g := s.globals[xid]
	if g == nil {
		return nil
	}
	for _, b := range g.Branches {
		if b.ID == id {
			return b
		}
	}
	return nil
}

func (s *Stub) releaseXidLocked(xid string) {
	for k, v := range s.locks {
		if v == xid {
			delete(s.locks, k)
		}
	}
}

func (s *Stub) asyncRequest(msg interface{}) error {
	s.mu.Lock()
	defer s.mu.Unlock()
	ev := Event{Seq: fakedb.NextSeq(), Kind: fmt.Sprintf("AsyncRequest:%T", msg), Outcome: "ok"}
	var err error
	if r := s.match("AsyncRequest", ""); r != nil && (r.Action == "transport" || r.Action == "noreply") {
		ev.Outcome, err = r.Action, errors.New("tcstub: transport error")
	}
	s.log = append(s.log, ev)
	return err
}

func (s *Stub) asyncResponse(id int32, msg interface{}) error {
	s.mu.Lock()
	defer s.mu.Unlock()
	ev := Event{Seq: fakedb.NextSeq(), MsgID: id, Outcome: "ok"}
	switch m := msg.(type) {
	case message.BranchCommitResponse:
		ev.Kind, ev.Xid, ev.BranchID, ev.Status, ev.ResultCode, ev.Detail = "BranchCommitResponse", m.Xid, m.BranchId, int(m.BranchStatus), int(m.ResultCode), m.Msg
		if b := s.findBranch(m.Xid, m.BranchId); b != nil {
			b.Status = int(m.BranchStatus)
		}
	case message.BranchRollbackResponse:
		ev.Kind, ev.Xid, ev.BranchID, ev.Status, ev.ResultCode, ev.Detail = "BranchRollbackResponse", m.Xid, m.BranchId, int(m.BranchStatus), int(m.ResultCode), m.Msg
		if b := s.findBranch(m.Xid, m.BranchId); b != nil {
			b.Status = int(m.BranchStatus)
			if m.BranchStatus == branch.BranchStatusPhasetwoRollbacked {
				for _, l := range b.Locks {
					if s.locks[l] == m.Xid {
						delete(s.locks, l)
					}
				}
				b.Locks = nil
			}
		}
	default:
		ev.Kind = fmt.Sprintf("Response:%T", msg)
	}
	var err error
	if r := s.match(ev.Kind, ev.Xid); r != nil && (r.Action == "transport" || r.Action == "noreply") {
		ev.Outcome, err = r.Action, errors.New("tcstub: transport error on response")
	}
	s.responses[id] = msg
	s.log = append(s.log, ev)
	return err
}

// PhaseTwoResult is what a delivered phase-two request produced.
type PhaseTwoResult struct {
	MsgID      int32  `json:"msg_id"`
	Class      string `json:"class"`   // hutil outcome class of the processor call: ok | panic | diverged
	Replied    bool   `json:"replied"` // a response was sent
	ResultCode int    `json:"result_code"`
	Status     int    `json:"status"` // branch status in the response
	Xid        string `json:"xid"`
	BranchID   int64  `json:"branch_id"`
	Msg        string `json:"msg,omitempty"`
	Detail     string `json:"detail,omitempty"`
}

// Deliver sends a branch commit (commit=true) or rollback request through the
// real client handler (`OnMessage` -> processor -> resource manager) and
// returns the captured response.
func (s *Stub) Deliver(commit bool, xid string, branchID int64, resourceID string, bt branch.BranchType, appData []byte, limit time.Duration) PhaseTwoResult {
	s.mu.Lock()
	s.nextMsg++
	id := 1_000_000 + s.nextMsg
	kind := "Deliver:BranchRollback"
	if commit {
		kind = "Deliver:BranchCommit"
	}
	s.log = append(s.log, Event{Seq: fakedb.NextSeq(), Kind: kind, Xid: xid, BranchID: branchID, ResourceID: resourceID, BranchType: int(bt), MsgID: id, Outcome: "ok"})
	s.mu.Unlock()
	var body interface{}
	end := message.AbstractBranchEndRequest{Xid: xid, BranchId: branchID, BranchType: bt, ResourceId: resourceID, ApplicationData: appData}
	typ := message.GettyRequestTypeRequestSync
	if commit {
		body = message.BranchCommitRequest{AbstractBranchEndRequest: end}
	} else {
		body = message.BranchRollbackRequest{AbstractBranchEndRequest: end}
	}
	class, detail := hutil.Guard(limit, func() error {
		getty.GetGettyClientHandlerInstance().OnMessage(nil, message.RpcMessage{ID: id, Type: typ, Codec: 1, Body: body})
		return nil
	})
	res := PhaseTwoResult{MsgID: id, Class: class, Detail: detail, Xid: xid, BranchID: branchID}
	s.mu.Lock()
	defer s.mu.Unlock()
	if r, ok := s.responses[id]; ok {
		res.Replied = true
		switch m := r.(type) {
		case message.BranchCommitResponse:
			res.ResultCode, res.Status, res.Msg, res.Xid, res.BranchID = int(m.ResultCode), int(m.BranchStatus), m.Msg, m.Xid, m.BranchId
		case message.BranchRollbackResponse:
			res.ResultCode, res.Status, res.Msg, res.Xid, res.BranchID = int(m.ResultCode), int(m.BranchStatus), m.Msg, m.Xid, m.BranchId
		}
	}
	return res
}

// SortedLocks renders the lock table deterministically.
func (s *Stub) SortedLocks() []string {
	m := s.Locks()
	out := make([]string, 0, len(m))
	for k, v := range m {
		out = append(out, k+" -> "+v)
	}
	sort.Strings(out)
	return out
}
