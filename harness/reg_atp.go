package main

import "verifh/atp"

func init() { subcommands["atp"] = atp.Run }
