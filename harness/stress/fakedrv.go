package stress

// A trivial database/sql driver standing in for MySQL behind the AT proxy: it answers
// the information-schema queries of the table-meta cache, image SELECTs (one row whose
// values are derived from the selected column names), the undo_log statements and
// accepts every DML.  It keeps no data: C20 only needs the client's code paths to run.
// Kept behind the small dbBackend interface so that a real in-memory MySQL can replace it.

import (
	"context"
	"database/sql/driver"
	"errors"
	"fmt"
	"io"
	"os"
	"regexp"
	"runtime"
	"strings"
	"sync"
	"sync/atomic"
)

type dbBackend interface {
	driver.Driver
	Opened() int64
	Closed() int64
}

type fakeDriver struct {
	opened, closed int64
	mu             sync.Mutex
	conns          map[*fakeConn]bool
	markers        map[string]bool
}

// Busy lists the connections database/sql has handed out and not taken back (IsValid is
// called by database/sql whenever a connection returns to its pool), with the last
// statement each ran: the attribution of a connection that is never given back.
func (d *fakeDriver) Busy() []string {
	d.mu.Lock()
	defer d.mu.Unlock()
	var out []string
	for c := range d.conns {
		c.mu.Lock()
		if c.busy && !c.closed && c.kind == "pool" {
			out = append(out, c.last)
		}
		c.mu.Unlock()
	}
	return out
}

func (d *fakeDriver) Opened() int64 { return atomic.LoadInt64(&d.opened) }
func (d *fakeDriver) Closed() int64 { return atomic.LoadInt64(&d.closed) }

func (d *fakeDriver) Open(name string) (driver.Conn, error) {
	atomic.AddInt64(&d.opened, 1)
	c := &fakeConn{d: d, kind: openerKind()}
	d.mu.Lock()
	if d.conns == nil {
		d.conns = map[*fakeConn]bool{}
	}
	d.conns[c] = true
	d.mu.Unlock()
	return c, nil
}

// openerKind tells who asked the driver for a connection: the proxy connector on behalf
// of the application's handle ("proxy"), the resource's one-off version probe ("probe"),
// or a database/sql pool over the bare connector ("pool": the target handle).
func openerKind() string {
	pcs := make([]uintptr, 24)
	n := runtime.Callers(2, pcs)
	fr := runtime.CallersFrames(pcs[:n])
	for {
		f, more := fr.Next()
		if strings.Contains(f.Function, "seataConnector).Connect") || strings.Contains(f.Function, "seataATConnector).Connect") || strings.Contains(f.Function, "seataXAConnector).Connect") {
			return "proxy"
		}
		if strings.Contains(f.Function, "DBResource).init") {
			return "probe"
		}
		if !more {
			break
		}
	}
	return "pool"
}

type fakeConn struct {
	kind   string
	d      *fakeDriver
	mu     sync.Mutex
	closed bool
	busy   bool
	last   string
}

func (c *fakeConn) use(q string) {
	if debugSQL {
		fmt.Fprintf(os.Stderr, "SQL[%s] %.120s\n", c.kind, q)
	}
	c.mu.Lock()
	c.busy = true
	if len(q) > 90 {
		q = q[:90]
	}
	c.last = q
	c.mu.Unlock()
}

func (c *fakeConn) IsValid() bool {
	c.mu.Lock()
	c.busy = false
	c.mu.Unlock()
	return true
}

func (c *fakeConn) Prepare(q string) (driver.Stmt, error) {
	c.use(q)
	return &fakeStmt{q: q, c: c}, nil
}
func (c *fakeConn) Close() error {
	c.mu.Lock()
	was := c.closed
	c.closed = true
	c.mu.Unlock()
	if !was {
		atomic.AddInt64(&c.d.closed, 1)
		c.d.mu.Lock()
		delete(c.d.conns, c)
		c.d.mu.Unlock()
	}
	return nil
}
func (c *fakeConn) Begin() (driver.Tx, error) { c.use("BEGIN"); return fakeTx{}, nil }
func (c *fakeConn) BeginTx(ctx context.Context, opts driver.TxOptions) (driver.Tx, error) {
	c.use("BEGIN")
	return fakeTx{}, nil
}
func (c *fakeConn) ExecContext(ctx context.Context, q string, args []driver.NamedValue) (driver.Result, error) {
	c.use(q)
	return fakeResult{}, nil
}
func (c *fakeConn) QueryContext(ctx context.Context, q string, args []driver.NamedValue) (driver.Rows, error) {
	c.use(q)
	vals := make([]driver.Value, len(args))
	for i := range args {
		vals[i] = args[i].Value
	}
	return (&fakeStmt{q: q, c: c}).Query(vals)
}

type fakeTx struct{}

func (fakeTx) Commit() error   { return nil }
func (fakeTx) Rollback() error { return nil }

type fakeStmt struct {
	q string
	c *fakeConn
}

func (s *fakeStmt) Close() error  { return nil }
func (s *fakeStmt) NumInput() int { return -1 }
func (s *fakeStmt) Exec(args []driver.Value) (driver.Result, error) {
	// the one piece of state: a "global finished" marker row written by a phase-two rollback that
	// found no undo log; a later (duplicate, retried) rollback of the same branch reads it back
	if s.c != nil && len(args) >= 5 && strings.Contains(strings.ToUpper(s.q), "INSERT INTO UNDO_LOG") {
		if st, ok := args[4].(int64); ok && st == 1 {
			s.c.d.mu.Lock()
			if s.c.d.markers == nil {
				s.c.d.markers = map[string]bool{}
			}
			s.c.d.markers[fmt.Sprint(args[0])] = true
			s.c.d.mu.Unlock()
		}
	}
	return fakeResult{}, nil
}

type fakeResult struct{}

func (fakeResult) LastInsertId() (int64, error) { return 1, nil }
func (fakeResult) RowsAffected() (int64, error) { return 1, nil }

var valueSeq int64
var debugSQL = os.Getenv("STRESS_DEBUG") == "2"

var reSelectList = regexp.MustCompile(`(?is)^\s*select\s+(?:sql_no_cache\s+)?(.*?)\s+from\s`)

func (s *fakeStmt) Query(args []driver.Value) (driver.Rows, error) {
	q := strings.ToUpper(s.q)
	switch {
	case strings.Contains(q, "INFORMATION_SCHEMA.COLUMNS"), strings.Contains(q, "STATISTICS"):
		// fault injection by table name: T_QERR* = the query fails, T_NOCOL* = no such table,
		// T_NOIDX* = a table without any index (the client refuses it)
		tbl := "T_USER"
		if len(args) > 1 {
			if t, ok := args[1].(string); ok {
				tbl = strings.ToUpper(t)
			}
		}
		if s.c != nil {
			s.c.use("META " + s.q[:40] + " /*table " + tbl + "*/")
		}
		isCols := strings.Contains(q, "INFORMATION_SCHEMA.COLUMNS")
		if strings.HasPrefix(tbl, "T_QERR") {
			return nil, errors.New("fake driver: injected query error")
		}
		if isCols {
			cols := []string{"TABLE_NAME", "TABLE_SCHEMA", "COLUMN_NAME", "DATA_TYPE", "COLUMN_TYPE", "COLUMN_KEY", "IS_NULLABLE", "COLUMN_DEFAULT", "EXTRA"}
			if strings.HasPrefix(tbl, "T_NOCOL") {
				return &fakeRows{cols: cols}, nil
			}
			return &fakeRows{cols: cols, data: [][]driver.Value{
				{tbl, "db", "id", "bigint", "bigint(20)", "PRI", "NO", nil, ""},
				{tbl, "db", "name", "varchar", "varchar(64)", "", "YES", nil, ""},
			}}, nil
		}
		if strings.HasPrefix(tbl, "T_NOIDX") || strings.HasPrefix(tbl, "T_NOCOL") {
			return &fakeRows{cols: []string{"INDEX_NAME", "COLUMN_NAME", "NON_UNIQUE"}}, nil
		}
		return &fakeRows{cols: []string{"INDEX_NAME", "COLUMN_NAME", "NON_UNIQUE"}, data: [][]driver.Value{
			{"PRIMARY", "id", int64(0)},
		}}, nil
	case strings.Contains(q, "VERSION()"):
		return &fakeRows{cols: []string{"VERSION()"}, data: [][]driver.Value{{"5.7.30"}}}, nil
	case strings.Contains(q, "UNDO_LOG"):
		cols := []string{"branch_id", "xid", "context", "rollback_info", "log_status"}
		if s.c != nil && len(args) >= 2 {
			s.c.d.mu.Lock()
			marked := s.c.d.markers[fmt.Sprint(args[0])]
			s.c.d.mu.Unlock()
			if marked { // a rollback of this branch was already answered: its marker row
				return &fakeRows{cols: cols, data: [][]driver.Value{{args[0], args[1], []byte("serializerKey=json"), []byte("{}"), int64(1)}}}, nil
			}
		}
		// no undo row: phase-two rollback of an unknown branch
		return &fakeRows{cols: cols}, nil
	}
	m := reSelectList.FindStringSubmatch(s.q)
	if m == nil {
		return nil, errors.New("fake driver: query not understood: " + s.q)
	}
	var cols []string
	var row []driver.Value
	for _, c := range strings.Split(m[1], ",") {
		c = strings.Trim(strings.TrimSpace(c), "`")
		if i := strings.LastIndex(c, "."); i >= 0 {
			c = strings.Trim(c[i+1:], "`")
		}
		cols = append(cols, c)
		if strings.EqualFold(c, "id") {
			var v driver.Value = int64(1)
			if len(args) > 0 {
				v = args[len(args)-1]
			}
			row = append(row, v)
		} else if c == "*" {
			cols = []string{"id", "name"}
			row = []driver.Value{int64(1), "n"}
			break
		} else {
			// a fresh value per query, so that before and after images differ
			row = append(row, fmt.Sprintf("n%d", atomic.AddInt64(&valueSeq, 1)))
		}
	}
	return &fakeRows{cols: cols, data: [][]driver.Value{row}}, nil
}

type fakeRows struct {
	cols []string
	data [][]driver.Value
	i    int
}

func (r *fakeRows) Columns() []string { return r.cols }
func (r *fakeRows) Close() error      { return nil }
func (r *fakeRows) Next(dest []driver.Value) error {
	if r.i >= len(r.data) {
		return io.EOF
	}
	copy(dest, r.data[r.i])
	r.i++
	return nil
}
