// Package stress: C20 — N goroutines drive ONE initialised seata client (TM, TCC, AT over a
// trivial fake driver, load-balance selection over sessions that open and close, table-meta
// cache, sql.Open of new proxy handles, phase-two requests through the real client handler)
// in a child process built with the race detector.  The parent reports the child's
// observations (completion, goroutine / connection accounting) and the raw race logs;
// the Python driver matches the race sites against the lock-set table.
package stress

import (
	"context"
	"database/sql"
	"encoding/json"
	"errors"
	"fmt"
	"os"
	"os/exec"
	"path/filepath"
	"reflect"
	"runtime"
	"strings"
	"sync"
	"sync/atomic"
	"syscall"
	"time"

	"github.com/agiledragon/gomonkey/v2"
	getty "github.com/apache/dubbo-getty"

	"seata.apache.org/seata-go/pkg/client"
	sqlproxy "seata.apache.org/seata-go/pkg/datasource/sql"
	"seata.apache.org/seata-go/pkg/datasource/sql/datasource"
	sqlexec "seata.apache.org/seata-go/pkg/datasource/sql/exec"
	"seata.apache.org/seata-go/pkg/datasource/sql/types"
	"seata.apache.org/seata-go/pkg/protocol/branch"
	"seata.apache.org/seata-go/pkg/protocol/message"
	sgetty "seata.apache.org/seata-go/pkg/remoting/getty"
	"seata.apache.org/seata-go/pkg/remoting/loadbalance"
	"seata.apache.org/seata-go/pkg/rm"
	"seata.apache.org/seata-go/pkg/rm/tcc"
	"seata.apache.org/seata-go/pkg/tm"

	"verifh/hutil"
)

// ---------------------------------------------------------------- parent

type parentResult struct {
	Child     *childResult `json:"child"`
	ChildExit int          `json:"child_exit"`
	Diverged  bool         `json:"diverged"`
	RaceLogs  []string     `json:"race_logs"`
	Stderr    string       `json:"stderr_tail"`
	Secs      float64      `json:"secs"`
}

func Run(args map[string]string) {
	if args["child"] == "1" {
		child(args)
		return
	}
	out := args["out"]
	secs := hutil.ArgInt(args, "secs", 5)
	dir := filepath.Dir(out)
	racePrefix := filepath.Join(dir, "race")
	childOut := out + ".child"
	os.Remove(childOut)
	olds, _ := filepath.Glob(racePrefix + ".*")
	for _, f := range olds {
		os.Remove(f)
	}
	var cargs []string
	cargs = append(cargs, "stress", "child=1", "out="+childOut)
	for k, v := range args {
		if k != "out" && k != "child" {
			cargs = append(cargs, k+"="+v)
		}
	}
	cmd := exec.Command(os.Args[0], cargs...)
	cmd.Env = append(os.Environ(), "GORACE=halt_on_error=0 log_path="+racePrefix+" history_size=3")
	errf, _ := os.Create(filepath.Join(dir, "child.stderr"))
	cmd.Stdout = nil
	cmd.Stderr = errf
	t0 := time.Now()
	res := parentResult{}
	if err := cmd.Start(); err != nil {
		fmt.Fprintln(os.Stderr, "cannot start child:", err)
		os.Exit(2)
	}
	done := make(chan error, 1)
	go func() { done <- cmd.Wait() }()
	limit := time.Duration(secs)*time.Second*3 + 150*time.Second
	select {
	case err := <-done:
		if ee, ok := err.(*exec.ExitError); ok {
			res.ChildExit = ee.ExitCode()
		}
	case <-time.After(limit):
		// ask the Go runtime for a goroutine dump (stderr), then end the child
		cmd.Process.Signal(syscall.SIGQUIT)
		select {
		case <-done:
		case <-time.After(5 * time.Second):
			cmd.Process.Kill()
			<-done
		}
		res.Diverged = true
		res.ChildExit = -1
	}
	errf.Close()
	res.Secs = time.Since(t0).Seconds()
	if b, err := os.ReadFile(childOut); err == nil {
		var cr childResult
		if hutilUnmarshal(b, &cr) == nil {
			res.Child = &cr
		}
	}
	logs, _ := filepath.Glob(racePrefix + ".*")
	for _, f := range logs {
		if b, err := os.ReadFile(f); err == nil {
			res.RaceLogs = append(res.RaceLogs, string(b))
		}
	}
	if b, err := os.ReadFile(filepath.Join(dir, "child.stderr")); err == nil {
		s := string(b)
		keep := 6000
		if res.Diverged {
			keep = 30000
		}
		if len(s) > keep {
			s = s[len(s)-keep:]
		}
		res.Stderr = s
	}
	hutil.WriteJSON(out, res)
}

// ---------------------------------------------------------------- child

type unitObs struct {
	Kind     string `json:"kind"`
	Outcome  string `json:"outcome"`
	Runs     int    `json:"runs"`
	OK       int    `json:"ok"`
	Err      int    `json:"err"`
	Panic    int    `json:"panic"`
	InUse0   int    `json:"inuse0"` // delta of the proxy pool after settling
	InUse1   int    `json:"inuse1"` // delta of the target pool(s) after settling
	Gor      int    `json:"gor"`    // delta of client goroutines after settling
	Sample   string `json:"sample,omitempty"`
	Settled  bool   `json:"settled"`
	Stmts    int    `json:"stmts"`
	MetaMiss int    `json:"meta_miss"`
}

type childResult struct {
	Seed        uint64         `json:"seed"`
	Workers     int            `json:"workers"`
	Secs        int            `json:"secs"`
	Units       []unitObs      `json:"units"`
	Started     map[string]int `json:"started"`
	Finished    map[string]int `json:"finished"`
	Errors      map[string]int `json:"errors"`
	Panics      []string       `json:"panics"`
	Stuck       []string       `json:"stuck"`
	StuckDump   string         `json:"stuck_dump,omitempty"`
	GorBefore   int            `json:"gor_before"`
	GorAfter    int            `json:"gor_after"`
	GorLeft     []string       `json:"gor_left"`
	InUse0Delta int            `json:"inuse0_delta"`
	InUse1Delta int            `json:"inuse1_delta"`
	Phase2Sent  int            `json:"phase2_sent"`
	Phase2Resp  int            `json:"phase2_resp"`
	Opens       int            `json:"opens"`
	SessionOps  int            `json:"session_ops"`
	RefreshTick bool           `json:"refresh_tick_seen"`
	Rpc         map[string]int `json:"rpc"`
	Busy        []string       `json:"busy_conns"`
	BusyBefore  int            `json:"busy_before"`
	DrvOpened   int64          `json:"drv_opened"`
	DrvClosed   int64          `json:"drv_closed"`
	Note        string         `json:"note,omitempty"`
}

// ---- coordinator stub (gomonkey on the remoting client)

type coord struct {
	xid      int64
	branchID int64
	mu       sync.Mutex
	branches []message.BranchCommitRequest // registered branches awaiting phase two
	resp     int64
}

func (c *coord) sendSync(_ *sgetty.GettyRemotingClient, msg interface{}) (interface{}, error) {
	ok := message.AbstractTransactionResponse{AbstractResultMessage: message.AbstractResultMessage{ResultCode: message.ResultCodeSuccess}}
	switch m := msg.(type) {
	case message.GlobalBeginRequest:
		return message.GlobalBeginResponse{AbstractTransactionResponse: ok, Xid: fmt.Sprintf("127.0.0.1:8091:%d", atomic.AddInt64(&c.xid, 1))}, nil
	case message.GlobalCommitRequest:
		return message.GlobalCommitResponse{AbstractGlobalEndResponse: message.AbstractGlobalEndResponse{AbstractTransactionResponse: ok, GlobalStatus: message.GlobalStatusCommitted}}, nil
	case message.GlobalRollbackRequest:
		return message.GlobalRollbackResponse{AbstractGlobalEndResponse: message.AbstractGlobalEndResponse{AbstractTransactionResponse: ok, GlobalStatus: message.GlobalStatusRollbacked}}, nil
	case message.BranchRegisterRequest:
		id := atomic.AddInt64(&c.branchID, 1)
		c.mu.Lock()
		if len(c.branches) < 4096 {
			c.branches = append(c.branches, message.BranchCommitRequest{AbstractBranchEndRequest: message.AbstractBranchEndRequest{
				Xid: m.Xid, BranchId: id, BranchType: m.BranchType, ResourceId: m.ResourceId, ApplicationData: m.ApplicationData}})
		}
		c.mu.Unlock()
		return message.BranchRegisterResponse{AbstractTransactionResponse: ok, BranchId: id}, nil
	case message.BranchReportRequest:
		return message.BranchReportResponse{AbstractTransactionResponse: ok}, nil
	case message.RegisterTMRequest:
		return message.RegisterTMResponse{AbstractIdentifyResponse: message.AbstractIdentifyResponse{AbstractResultMessage: ok.AbstractResultMessage, Identified: true}}, nil
	case message.RegisterRMRequest:
		return message.RegisterRMResponse{AbstractIdentifyResponse: message.AbstractIdentifyResponse{AbstractResultMessage: ok.AbstractResultMessage, Identified: true}}, nil
	case message.GlobalLockQueryRequest:
		return message.GlobalLockQueryResponse{AbstractTransactionResponse: ok, Lockable: true}, nil
	}
	return nil, fmt.Errorf("coordinator stub: unexpected request %T", msg)
}

func (c *coord) takeBranch() (message.BranchCommitRequest, bool) {
	c.mu.Lock()
	defer c.mu.Unlock()
	if len(c.branches) == 0 {
		return message.BranchCommitRequest{}, false
	}
	b := c.branches[len(c.branches)-1]
	c.branches = c.branches[:len(c.branches)-1]
	return b, true
}

// ---- a session whose peer is the coordinator stub: the REAL remoting layer of the client (id
// generator, pending-future table, SendSync/sendAsync, response processors) runs on top of it.
// A share of the requests is answered from INSIDE WritePkg (the reply is processed before
// WritePkg returns to the sender), the rest from another goroutine.
type coordSession struct {
	getty.Session
	co      *coord
	closed  int32
	inline  int64
	async   int64
	unknown int64
}

func (s *coordSession) IsClosed() bool                        { return atomic.LoadInt32(&s.closed) == 1 }
func (s *coordSession) RemoteAddr() string                    { return "127.0.0.1:8091" }
func (s *coordSession) LocalAddr() string                     { return "127.0.0.1:40001" }
func (s *coordSession) Stat() string                          { return "coordinator-stub session" }
func (s *coordSession) Close()                                { atomic.StoreInt32(&s.closed, 1) }
func (s *coordSession) GetAttribute(interface{}) interface{}  { return nil }
func (s *coordSession) SetAttribute(interface{}, interface{}) {}
func (s *coordSession) RemoveAttribute(interface{})           {}
func (s *coordSession) ID() uint32                            { return 7 }
func (s *coordSession) GetActive() time.Time                  { return time.Now() }
func (s *coordSession) WritePkg(pkg interface{}, _ time.Duration) (int, int, error) {
	m, ok := pkg.(message.RpcMessage)
	if !ok {
		return 0, 0, fmt.Errorf("coordinator stub: not an RpcMessage: %T", pkg)
	}
	if m.Type != message.GettyRequestTypeRequestSync {
		return 1, 1, nil
	}
	resp, err := s.co.sendSync(nil, m.Body)
	if err != nil {
		atomic.AddInt64(&s.unknown, 1)
		return 1, 1, nil
	}
	reply := message.RpcMessage{ID: m.ID, Type: message.GettyRequestTypeResponse, Codec: m.Codec, Compressor: m.Compressor, Body: resp}
	h := sgetty.GetGettyClientHandlerInstance()
	if m.ID%3 == 0 {
		atomic.AddInt64(&s.inline, 1)
		h.OnMessage(s, reply) // the coordinator was faster than the sender's return from WritePkg
	} else {
		atomic.AddInt64(&s.async, 1)
		go h.OnMessage(s, reply)
	}
	return 1, 1, nil
}

// ---- fake sessions for load-balance selection

type fakeSession struct {
	getty.Session
	addr   string
	closed int32
	active time.Time
}

func (s *fakeSession) IsClosed() bool       { return atomic.LoadInt32(&s.closed) == 1 }
func (s *fakeSession) RemoteAddr() string   { return s.addr }
func (s *fakeSession) GetActive() time.Time { return s.active }
func (s *fakeSession) Close()               { atomic.StoreInt32(&s.closed, 1) }
func (s *fakeSession) Stat() string         { return s.addr }

// ---- SQL hooks: one common hook and typed hooks, registered before the workload starts (the
// registration API is documented "not goroutine safe": it is used single-threaded here)
type countingHook struct {
	t types.SQLType
	n int64
}

func (h *countingHook) Type() types.SQLType { return h.t }
func (h *countingHook) Before(ctx context.Context, execCtx *types.ExecContext) error {
	atomic.AddInt64(&h.n, 1)
	return nil
}
func (h *countingHook) After(ctx context.Context, execCtx *types.ExecContext) error { return nil }

// ---- TCC action

type tccAction struct {
	prepared, committed, rolledback int64
}

func (a *tccAction) Prepare(ctx context.Context, params interface{}) (bool, error) {
	atomic.AddInt64(&a.prepared, 1)
	return true, nil
}
func (a *tccAction) Commit(ctx context.Context, bac *tm.BusinessActionContext) (bool, error) {
	atomic.AddInt64(&a.committed, 1)
	return true, nil
}
func (a *tccAction) Rollback(ctx context.Context, bac *tm.BusinessActionContext) (bool, error) {
	atomic.AddInt64(&a.rolledback, 1)
	return true, nil
}
func (a *tccAction) GetActionName() string { return "verifStressAction" }

// ---- environment of one child run

type env struct {
	co        *coord
	drv       *fakeDriver
	proxy     *sql.DB // shared AT proxy handle (pool 0)
	maxTarget int
	tmu       sync.Mutex
	targets   []*sql.DB // handles whose pools serve meta-data / undo (pool 1): found through the resources
	metaDB    *sql.DB   // plain handle over the fake driver for direct cache access (pool 1)
	tccP      *tcc.TCCServiceProxy
	sess      sync.Map
	sessSeq   int64
	lbTypes   []string
	opens     int64
	sessOps   int64
	p2sent    int64
}

const dsn = "u:p@tcp(127.0.0.1:3306)/db?interpolateParams=true"
const dsn2 = "u:p@tcp(127.0.0.1:3306)/db2?interpolateParams=true"

var backgroundFrames = []string{
	"BaseTableMetaCache).refresh", "BaseTableMetaCache).scanExpire", "database/sql.(*DB).connectionOpener",
	"database/sql.(*DB).connectionCleaner",
}

// clientGoroutines: stacks of goroutines running client code (pkg/ of the repository or
// database/sql on its behalf), background tickers excluded by name (DESIGN 5a, C20)
func clientGoroutines() []string {
	buf := make([]byte, 1<<22)
	n := runtime.Stack(buf, true)
	var out []string
	for _, g := range strings.Split(string(buf[:n]), "\n\n") {
		if !strings.Contains(g, "seata.apache.org/seata-go/pkg/") && !strings.Contains(g, "database/sql.") {
			continue
		}
		if strings.Contains(g, "verifh/stress.clientGoroutines") {
			continue
		}
		bg := false
		for _, f := range backgroundFrames {
			if strings.Contains(g, f) {
				bg = true
			}
		}
		// long-lived workers started once by the client's initialisation
		for _, f := range []string{"AsyncWorker).run", "AsyncWorker).", "RunEventLoop", "gxsync", "getty.(*client)", "initSessionManager", "xaTwoPhaseTimeoutChecker", "XaTwoPhaseTimeoutChecker"} {
			if strings.Contains(g, f) {
				bg = true
			}
		}
		if !bg {
			lines := strings.Split(g, "\n")
			if len(lines) > 9 {
				lines = lines[:9]
			}
			out = append(out, strings.Join(lines, " | "))
		}
	}
	return out
}

func (e *env) inUse() (int, int) {
	p0 := e.proxy.Stats().InUse
	p1 := e.metaDB.Stats().InUse
	e.tmu.Lock()
	defer e.tmu.Unlock()
	for _, t := range e.targets {
		p1 += t.Stats().InUse
	}
	return p0, p1
}

// noteTargets remembers the target handles of the registered AT resources (their pools
// serve meta-data queries, undo and the asynchronous commit worker)
func (e *env) noteTargets() {
	rmgr := rm.GetRmCacheInstance().GetResourceManager(branch.BranchTypeAT)
	c, ok := rmgr.(interface{ GetCachedResources() *sync.Map })
	if !ok {
		return
	}
	c.GetCachedResources().Range(func(_, v interface{}) bool {
		if r, ok := v.(interface{ GetDB() *sql.DB }); ok {
			db := r.GetDB()
			e.tmu.Lock()
			seen := false
			for _, t := range e.targets {
				if t == db {
					seen = true
				}
			}
			if !seen && db != nil {
				// a small pool, so that lock / pool ordering problems show as a lock-up (watchdog)
				db.SetMaxOpenConns(e.maxTarget)
				e.targets = append(e.targets, db)
			}
			e.tmu.Unlock()
		}
		return true
	})
}

func (e *env) settle(g0, a0, b0 int) (int, int, int, bool) {
	var g, a, b int
	for i := 0; i < 40; i++ {
		g = len(clientGoroutines())
		a, b = e.inUse()
		if g <= g0 && a == a0 && b == b0 {
			return g - g0, a - a0, b - b0, true
		}
		time.Sleep(50 * time.Millisecond)
	}
	return g - g0, a - a0, b - b0, false
}

// ---- the units

func (e *env) unitTm(ctx context.Context, commit bool) error {
	err := tm.WithGlobalTx(ctx, &tm.GtxConfig{Name: "stress-tm", Timeout: 30 * time.Second}, func(ctx context.Context) error {
		if !commit {
			return errors.New("business failure")
		}
		return nil
	})
	if !commit && err != nil && strings.Contains(err.Error(), "business failure") {
		return nil
	}
	return err
}

func (e *env) unitTcc(ctx context.Context, commit bool) error {
	err := tm.WithGlobalTx(ctx, &tm.GtxConfig{Name: "stress-tcc", Timeout: 30 * time.Second}, func(ctx context.Context) error {
		if _, err := e.tccP.Prepare(ctx, map[string]interface{}{"k": 1}); err != nil {
			return err
		}
		if !commit {
			return errors.New("business failure")
		}
		return nil
	})
	if !commit && err != nil && strings.Contains(err.Error(), "business failure") {
		err = nil
	}
	e.phase2(commit)
	return err
}

func (e *env) unitAt(ctx context.Context, commit bool, stmts int, id int64) error {
	err := tm.WithGlobalTx(ctx, &tm.GtxConfig{Name: "stress-at", Timeout: 30 * time.Second}, func(ctx context.Context) error {
		for i := 0; i < stmts; i++ {
			if _, err := e.proxy.ExecContext(ctx, "UPDATE t_user SET name = ? WHERE id = ?", fmt.Sprintf("n%d", i), id); err != nil {
				return err
			}
		}
		if !commit {
			return errors.New("business failure")
		}
		return nil
	})
	if !commit && err != nil && strings.Contains(err.Error(), "business failure") {
		err = nil
	}
	return err
}

// phase2 delivers one pending phase-two request through the real client handler
func (e *env) phase2(commit bool) bool { return e.phase2n(commit, 1) }

// phase2n delivers the phase-two request of one pending branch `times` times (the coordinator
// repeats a request whose answer it did not see: duplicate / retried deliveries)
func (e *env) phase2n(commit bool, times int) bool {
	b, ok := e.co.takeBranch()
	if !ok {
		return false
	}
	atomic.AddInt64(&e.p2sent, int64(times))
	if os.Getenv("STRESS_DEBUG") != "" {
		fmt.Fprintf(os.Stderr, "PHASE2 commit=%v type=%v res=%s\n", commit, b.BranchType, b.ResourceId)
	}
	var body interface{} = b
	if !commit {
		body = message.BranchRollbackRequest{AbstractBranchEndRequest: b.AbstractBranchEndRequest}
	}
	for i := 0; i < times; i++ {
		sgetty.GetGettyClientHandlerInstance().OnMessage(nil, message.RpcMessage{ID: int32(b.BranchId), Body: body})
	}
	return true
}

func (e *env) unitSelect(r *hutil.Rng) error {
	xid := fmt.Sprintf("127.0.0.1:8091:%d", r.Intn(1000))
	s := loadbalance.Select(e.lbTypes[r.Intn(len(e.lbTypes))], &e.sess, xid)
	_ = s
	return nil
}

func (e *env) unitSessionChurn(r *hutil.Rng) {
	atomic.AddInt64(&e.sessOps, 1)
	if r.Chance(1, 2) {
		n := atomic.AddInt64(&e.sessSeq, 1)
		e.sess.Store(&fakeSession{addr: fmt.Sprintf("10.0.0.%d:8091", n%250), active: time.Now()}, true)
		return
	}
	k := r.Intn(4)
	e.sess.Range(func(key, _ interface{}) bool {
		if k == 0 {
			key.(*fakeSession).Close()
			return false
		}
		k--
		return true
	})
}

func (e *env) unitMeta(ctx context.Context, r *hutil.Rng, table string) error {
	c := datasource.GetTableCache(types.DBTypeMySQL)
	if c == nil {
		return errors.New("no table cache registered")
	}
	_, err := c.GetTableMeta(ctx, "db", table)
	return err
}

var failTables = []string{"t_qerr", "t_nocol", "t_noidx"}

// unitMetaFail: a lookup that must fail (cache miss + failing meta-data load); cancelled = with
// a context that is already cancelled.  A lookup that unexpectedly succeeds is reported.
func (e *env) unitMetaFail(ctx context.Context, table string, cancelled bool) error {
	c := datasource.GetTableCache(types.DBTypeMySQL)
	if c == nil {
		return errors.New("no table cache registered")
	}
	if cancelled {
		cctx, cancel := context.WithCancel(ctx)
		cancel()
		ctx = cctx
	}
	if _, err := c.GetTableMeta(ctx, "db", table); err == nil {
		return errors.New("lookup of " + table + " succeeded, a failure was expected")
	}
	return nil
}

// unitAtFail: an AT statement on a table whose meta-data cannot be loaded, inside a global
// transaction: the statement fails and the transaction is rolled back
func (e *env) unitAtFail(ctx context.Context, table string) error {
	err := tm.WithGlobalTx(ctx, &tm.GtxConfig{Name: "stress-at-fail", Timeout: 30 * time.Second}, func(ctx context.Context) error {
		_, err := e.proxy.ExecContext(ctx, "UPDATE "+table+" SET name = ? WHERE id = ?", "x", 1)
		if err == nil {
			return errors.New("statement on " + table + " succeeded, a failure was expected")
		}
		return errors.New("expected failure")
	})
	if err != nil && strings.Contains(err.Error(), "expected failure") {
		return nil
	}
	return err
}

func (e *env) unitOpen() error {
	db, err := sql.Open("seata-at-verif-stress", dsn2)
	if err != nil {
		return err
	}
	atomic.AddInt64(&e.opens, 1)
	e.noteTargets()
	return db.Close()
}

// blockedDump: stacks of the goroutines that are inside client code, for a lock-up report
func blockedDump() string {
	buf := make([]byte, 1<<22)
	n := runtime.Stack(buf, true)
	var out []string
	total := 0
	for _, g := range strings.Split(string(buf[:n]), "\n\n") {
		if !strings.Contains(g, "seata.apache.org/seata-go/pkg/") {
			continue
		}
		bg := false
		for _, f := range backgroundFrames {
			if strings.Contains(g, f) {
				bg = true
			}
		}
		if bg || strings.Contains(g, "RunEventLoop") || strings.Contains(g, "fanout.(*Fanout).proc") || strings.Contains(g, "AsyncWorker).run") {
			continue
		}
		lines := strings.Split(g, "\n")
		if len(lines) > 21 {
			lines = lines[:21]
		}
		t := strings.Join(lines, "\n")
		total += len(t)
		if total > 24000 {
			break
		}
		if strings.Contains(lines[0], "sync.") || strings.Contains(lines[0], "semacquire") {
			out = append([]string{t}, out...) // waiting for a lock: first
		} else {
			out = append(out, t)
		}
	}
	return strings.Join(out, "\n\n")
}

// watched: wall-clock watchdog around a piece of the run.  When f does not come back the
// lock-up is recorded with a goroutine dump, the result is written and the child ends, so a
// dead-locked client is an observation of the run, never a hang of the check.
func (res *childResult) watched(out, name string, limit time.Duration, mu *sync.Mutex, f func()) {
	done := make(chan struct{})
	go func() {
		defer close(done)
		f()
	}()
	select {
	case <-done:
	case <-time.After(limit):
		d := blockedDump()
		if mu != nil {
			mu.Lock()
		}
		res.Stuck = append(res.Stuck, name+" (no return within "+limit.String()+")")
		res.StuckDump = d
		hutil.WriteJSON(out, res)
		os.Exit(3)
	}
}

func guard(f func() error) (class, detail string) {
	defer func() {
		if p := recover(); p != nil {
			class, detail = "panic", fmt.Sprint(p)
		}
	}()
	if err := f(); err != nil {
		return "err", err.Error()
	}
	return "ok", ""
}

func hutilUnmarshal(b []byte, v interface{}) error { return jsonUnmarshal(b, v) }

func child(args map[string]string) {
	seed := hutil.ArgU64(args, "seed", 1)
	secs := hutil.ArgInt(args, "secs", 5)
	workers := hutil.ArgInt(args, "workers", 12)
	repo := hutil.ArgStr(args, "repo", "/repo")
	res := &childResult{Seed: seed, Workers: workers, Secs: secs, Started: map[string]int{}, Finished: map[string]int{}, Errors: map[string]int{}}
	rng := hutil.NewRng(seed)

	e := &env{maxTarget: hutil.ArgInt(args, "maxtarget", 4), co: &coord{}, drv: &fakeDriver{}, lbTypes: []string{"RandomLoadBalance", "XID", "ConsistentHashLoadBalance", "LeastActiveLoadBalance", "RoundRobinLoadBalance"}}
	client.InitPath(filepath.Join(repo, "testdata/conf/seatago.yml"))

	// ---- remoting phase: global transactions through the REAL remoting layer over a session whose
	// peer answers at once (a third of the replies from inside WritePkg).  Every transaction must end
	// well below the 20 s RPC timeout; the watchdog turns a sender that waits for a reply it lost
	// into a lock-up report.
	rpcSecs := hutil.ArgInt(args, "rpcsecs", 2)
	cs := &coordSession{co: e.co}
	h := sgetty.GetGettyClientHandlerInstance()
	_ = h.OnOpen(cs)
	res.Rpc = map[string]int{}
	var rmu sync.Mutex
	res.watched(args["out"], "remoting phase (global transactions through the real getty client; bound 10 s)", time.Duration(rpcSecs)*time.Second+10*time.Second, &rmu, func() {
		var wg sync.WaitGroup
		until := time.Now().Add(time.Duration(rpcSecs) * time.Second)
		for w := 0; w < 8; w++ {
			wg.Add(1)
			r := rng.Fork(uint64(5000 + w))
			go func() {
				defer wg.Done()
				for time.Now().Before(until) {
					t0 := time.Now()
					cls, det := guard(func() error { return e.unitTm(context.Background(), r.Chance(2, 3)) })
					d := time.Since(t0)
					rmu.Lock()
					res.Rpc["tx_"+cls]++
					if ms := int(d.Milliseconds()); ms > res.Rpc["max_ms"] {
						res.Rpc["max_ms"] = ms
					}
					if cls != "ok" {
						count := res.Errors
						count["rpc: "+trim(det)]++
					}
					if d > 5*time.Second {
						res.Stuck = append(res.Stuck, fmt.Sprintf("a global transaction through the real remoting layer took %v (bound 5 s)", d))
					}
					rmu.Unlock()
				}
			}()
		}
		wg.Wait()
	})
	res.Rpc["replies_from_inside_WritePkg"] = int(atomic.LoadInt64(&cs.inline))
	res.Rpc["replies_async"] = int(atomic.LoadInt64(&cs.async))
	res.Rpc["requests_not_understood"] = int(atomic.LoadInt64(&cs.unknown))
	h.OnClose(cs)

	// ---- from here on the coordinator is the stub patched over the remoting client
	cl := sgetty.GetGettyRemotingClient()
	p := gomonkey.ApplyMethod(reflect.TypeOf(cl), "SendSyncRequest", e.co.sendSync)
	p.ApplyMethod(reflect.TypeOf(cl), "SendAsyncRequest", func(_ *sgetty.GettyRemotingClient, msg interface{}) error { return nil })
	p.ApplyMethod(reflect.TypeOf(cl), "SendAsyncResponse", func(_ *sgetty.GettyRemotingClient, id int32, msg interface{}) error {
		atomic.AddInt64(&e.co.resp, 1)
		return nil
	})
	defer p.Reset()

	sqlproxy.RegisterVerifDrivers("seata-at-verif-stress", "", e.drv)
	sql.Register("verif-stress-plain", e.drv)

	sqlexec.RegisterCommonHook(&countingHook{t: types.SQLTypeUnknown})
	for _, t := range []types.SQLType{types.SQLTypeUpdate, types.SQLTypeInsert, types.SQLTypeDelete, types.SQLTypeSelectForUpdate} {
		sqlexec.RegisterHook(&countingHook{t: t})
	}
	var err error
	if e.tccP, err = tcc.NewTCCServiceProxy(&tccAction{}); err != nil {
		res.Note = "tcc proxy: " + err.Error()
	}
	if e.proxy, err = sql.Open("seata-at-verif-stress", dsn); err != nil {
		res.Note += " open proxy: " + err.Error()
		hutil.WriteJSON(args["out"], res)
		return
	}
	e.proxy.SetMaxOpenConns(8)
	// a reused pooled proxy connection skips the phase-one bracket on the pinned tree (no BEGIN, no undo
	// log, no branch): fresh connections keep the whole AT path under stress
	e.proxy.SetMaxIdleConns(0)
	e.noteTargets()
	e.metaDB, _ = sql.Open("verif-stress-plain", dsn)
	for i := 0; i < 6; i++ {
		e.sess.Store(&fakeSession{addr: fmt.Sprintf("10.0.1.%d:8091", i), active: time.Now()}, true)
	}
	ctx := context.Background()

	// ---- warm-up: every unit once, so lazily started workers exist before the baselines
	res.watched(args["out"], "warm-up", 60*time.Second, nil, func() {
		guard(func() error { return e.unitTm(ctx, true) })
		guard(func() error { return e.unitTcc(ctx, true) })
		guard(func() error { return e.unitAt(ctx, true, 1, 1) })
		guard(func() error { e.phase2(true); return nil })
		guard(func() error { return e.unitMeta(ctx, rng, "t_user") })
		guard(func() error { return e.unitSelect(rng) })
	})
	time.Sleep(300 * time.Millisecond)

	// ---- accounting: each unit kind sequentially, deltas after settling
	type ukind struct {
		kind, outcome   string
		stmts, metaMiss int
		f               func(i int) error
	}
	kinds := []ukind{
		{"tm", "commit", 0, 0, func(i int) error { return e.unitTm(ctx, true) }},
		{"tm", "rollback", 0, 0, func(i int) error { return e.unitTm(ctx, false) }},
		{"tcc", "commit", 0, 0, func(i int) error { return e.unitTcc(ctx, true) }},
		{"tcc", "rollback", 0, 0, func(i int) error { return e.unitTcc(ctx, false) }},
		{"at", "commit", 2, 0, func(i int) error { return e.unitAt(ctx, true, 2, int64(i+1)) }},
		{"at", "rollback", 2, 0, func(i int) error { return e.unitAt(ctx, false, 2, int64(i+1)) }},
		{"at_phase2", "commit", 0, 0, func(i int) error {
			if err := e.unitAt(ctx, true, 1, int64(i+1)); err != nil {
				return err
			}
			e.phase2(true)
			return nil
		}},
		{"at_phase2", "rollback", 0, 0, func(i int) error {
			if err := e.unitAt(ctx, true, 1, int64(i+1)); err != nil {
				return err
			}
			e.phase2(false)
			return nil
		}},
		{"at_phase2_dup", "rollback", 0, 0, func(i int) error {
			// the same BranchRollback delivered three times: the first finds no undo log and leaves the
			// marker row, the repeats find the marker
			if err := e.unitAt(ctx, true, 1, int64(i+1)); err != nil {
				return err
			}
			e.phase2n(false, 3)
			return nil
		}},
		{"select", "commit", 0, 0, func(i int) error { return e.unitSelect(rng) }},
		{"meta", "commit", 0, 1, func(i int) error { return e.unitMeta(ctx, rng, fmt.Sprintf("t_acc_%d_%d", seed, i)) }},
		{"meta", "commit", 0, 0, func(i int) error { return e.unitMeta(ctx, rng, "t_user") }},
		{"meta_fail", "rollback", 0, 1, func(i int) error {
			return e.unitMetaFail(ctx, fmt.Sprintf("%s_%d_%d", failTables[i%len(failTables)], seed, i), false)
		}},
		{"meta_fail_cancelled", "rollback", 0, 1, func(i int) error {
			return e.unitMetaFail(ctx, fmt.Sprintf("t_cancel_%d_%d", seed, i), true)
		}},
		{"at_fail", "rollback", 1, 1, func(i int) error {
			return e.unitAtFail(ctx, fmt.Sprintf("%s_at_%d_%d", failTables[i%len(failTables)], seed, i))
		}},
		{"open", "commit", 0, 0, func(i int) error { return e.unitOpen() }},
	}
	for _, k := range kinds {
		g0 := len(clientGoroutines())
		a0, b0 := e.inUse()
		o := unitObs{Kind: k.kind, Outcome: k.outcome, Stmts: k.stmts, MetaMiss: k.metaMiss}
		runs := 3 + rng.Intn(3)
		for i := 0; i < runs; i++ {
			o.Runs++
			var cls, det string
			res.watched(args["out"], fmt.Sprintf("sequential unit %s/%s run %d", k.kind, k.outcome, i), 30*time.Second, nil, func() {
				cls, det = guard(func() error { return k.f(i) })
			})
			switch cls {
			case "ok":
				o.OK++
			case "err":
				o.Err++
				o.Sample = det
			default:
				o.Panic++
				o.Sample = det
			}
		}
		o.Gor, o.InUse0, o.InUse1, o.Settled = e.settle(g0, a0, b0)
		res.Units = append(res.Units, o)
	}

	// ---- stress: everything at once
	res.GorBefore = len(clientGoroutines())
	a0, b0 := e.inUse()
	res.BusyBefore = len(e.drv.Busy())
	deadline := time.Now().Add(time.Duration(secs) * time.Second)
	var mu sync.Mutex
	var wg sync.WaitGroup
	running := map[string]string{}
	count := func(m map[string]int, k string) {
		mu.Lock()
		m[k]++
		mu.Unlock()
	}
	runUnit := func(w int, name string, f func() error) {
		count(res.Started, name)
		mu.Lock()
		running[fmt.Sprint(w)] = name
		mu.Unlock()
		cls, det := guard(f)
		mu.Lock()
		delete(running, fmt.Sprint(w))
		mu.Unlock()
		count(res.Finished, name)
		if cls == "err" {
			count(res.Errors, name+": "+trim(det))
		} else if cls == "panic" {
			mu.Lock()
			if len(res.Panics) < 10 {
				res.Panics = append(res.Panics, name+": "+trim(det))
			}
			mu.Unlock()
		}
	}
	for w := 0; w < workers; w++ {
		wg.Add(1)
		r := rng.Fork(uint64(w) + 1)
		go func(w int) {
			defer wg.Done()
			for time.Now().Before(deadline) {
				commit := r.Chance(2, 3)
				switch r.Intn(14) {
				case 12:
					runUnit(w, "meta_fail", func() error {
						return e.unitMetaFail(ctx, fmt.Sprintf("%s_%d", failTables[r.Intn(3)], r.Intn(40)), r.Chance(1, 4))
					})
				case 13:
					runUnit(w, "at_fail", func() error { return e.unitAtFail(ctx, fmt.Sprintf("%s_%d", failTables[r.Intn(3)], r.Intn(40))) })
				case 0, 1:
					runUnit(w, "tm", func() error { return e.unitTm(ctx, commit) })
				case 2, 3, 4:
					runUnit(w, "tcc", func() error { return e.unitTcc(ctx, commit) })
				case 5, 6, 7:
					runUnit(w, "at", func() error { return e.unitAt(ctx, commit, 1+r.Intn(3), int64(1+r.Intn(50))) })
				case 8:
					runUnit(w, "select", func() error {
						for i := 0; i < 20; i++ {
							e.unitSelect(r)
						}
						return nil
					})
				case 9:
					runUnit(w, "meta", func() error { return e.unitMeta(ctx, r, fmt.Sprintf("t_%d", r.Intn(6))) })
				case 10:
					runUnit(w, "phase2", func() error { e.phase2n(commit, 1+r.Intn(3)); return nil })
				default:
					runUnit(w, "hooks", func() error {
						// the registration API that takes the hook lock, used while transactions run
						sqlproxy.CleanTxHooks()
						return nil
					})
				}
			}
		}(w)
	}
	// sessions opening and closing; new proxy handles being opened
	for x := 0; x < 2; x++ {
		wg.Add(1)
		r := rng.Fork(uint64(1000 + x))
		go func(x int) {
			defer wg.Done()
			for time.Now().Before(deadline) {
				if x == 0 {
					e.unitSessionChurn(r)
					time.Sleep(time.Duration(r.Intn(3)) * time.Millisecond)
				} else {
					runUnit(100+x, "open", func() error { return e.unitOpen() })
					time.Sleep(time.Duration(5+r.Intn(20)) * time.Millisecond)
				}
			}
		}(x)
	}
	doneCh := make(chan struct{})
	go func() { wg.Wait(); close(doneCh) }()
	select {
	case <-doneCh:
	case <-time.After(time.Duration(secs)*time.Second + 25*time.Second):
		d := blockedDump()
		mu.Lock()
		for w, n := range running {
			res.Stuck = append(res.Stuck, "worker "+w+": "+n)
		}
		if len(res.Stuck) == 0 {
			res.Stuck = append(res.Stuck, "workers did not finish")
		}
		res.StuckDump = d
		hutil.WriteJSON(args["out"], res)
		os.Exit(3)
	}
	// drain the remaining phase-two requests
	res.watched(args["out"], "phase-two drain", 60*time.Second, &mu, func() {
		for e.phase2(true) {
		}
	})
	gd, ad, bd, _ := e.settle(res.GorBefore, a0, b0)
	res.GorAfter = res.GorBefore + gd
	if gd > 0 {
		gs := clientGoroutines()
		if len(gs) > 12 {
			gs = gs[:12]
		}
		res.GorLeft = gs
	}
	res.InUse0Delta, res.InUse1Delta = ad, bd
	res.Phase2Sent = int(atomic.LoadInt64(&e.p2sent))
	res.Phase2Resp = int(atomic.LoadInt64(&e.co.resp))
	res.Opens = int(atomic.LoadInt64(&e.opens))
	res.SessionOps = int(atomic.LoadInt64(&e.sessOps))
	res.RefreshTick = secs >= 60
	res.Busy = e.drv.Busy()
	res.DrvOpened, res.DrvClosed = e.drv.Opened(), e.drv.Closed()
	mu.Lock()
	hutil.WriteJSON(args["out"], res)
	mu.Unlock()
}

func trim(s string) string {
	if len(s) > 160 {
		return s[:160]
	}
	return s
}

func jsonUnmarshal(b []byte, v interface{}) error { return json.Unmarshal(b, v) }
