package main

// run_codec (C12): encodes and decodes generated messages of all client
// message types with the real CodecManager and records bytes and decoded
// values; also dumps the run-time registry (type code -> codec, codec's
// GetMessageType, message's GetTypeCode).  The direct oracle (decode(encode m)
// equals m up to the documented truncation / success-without-text rule, and
// the leading type code is the message's) is evaluated here on the real code.

import (
	"encoding/hex"
	"fmt"
	"math"
	"reflect"
	"strconv"
	"time"

	"seata.apache.org/seata-go/pkg/protocol/codec"
	"seata.apache.org/seata-go/pkg/protocol/message"
)

func init() { subcommands["codec"] = runCodec }

var msgTypes = []reflect.Type{
	reflect.TypeOf(message.GlobalBeginRequest{}),
	reflect.TypeOf(message.GlobalBeginResponse{}),
	reflect.TypeOf(message.BranchCommitRequest{}),
	reflect.TypeOf(message.BranchCommitResponse{}),
	reflect.TypeOf(message.BranchRollbackRequest{}),
	reflect.TypeOf(message.BranchRollbackResponse{}),
	reflect.TypeOf(message.GlobalCommitRequest{}),
	reflect.TypeOf(message.GlobalCommitResponse{}),
	reflect.TypeOf(message.GlobalRollbackRequest{}),
	reflect.TypeOf(message.GlobalRollbackResponse{}),
	reflect.TypeOf(message.BranchRegisterRequest{}),
	reflect.TypeOf(message.BranchRegisterResponse{}),
	reflect.TypeOf(message.BranchReportRequest{}),
	reflect.TypeOf(message.BranchReportResponse{}),
	reflect.TypeOf(message.GlobalStatusRequest{}),
	reflect.TypeOf(message.GlobalStatusResponse{}),
	reflect.TypeOf(message.GlobalReportRequest{}),
	reflect.TypeOf(message.GlobalReportResponse{}),
	reflect.TypeOf(message.GlobalLockQueryRequest{}),
	reflect.TypeOf(message.GlobalLockQueryResponse{}),
	reflect.TypeOf(message.RegisterTMRequest{}),
	reflect.TypeOf(message.RegisterTMResponse{}),
	reflect.TypeOf(message.RegisterRMRequest{}),
	reflect.TypeOf(message.RegisterRMResponse{}),
}

// fields of the identify responses that Seata v1 does not put on the wire
var offWire = map[string]map[string]bool{
	"RegisterTMResponse": {"ResultCode": true, "Msg": true, "ExtraData": true},
	"RegisterRMResponse": {"ResultCode": true, "Msg": true, "ExtraData": true},
}

type fld struct {
	Name string `json:"n"`
	Kind string `json:"k"` // S bytes(hex) | I unsigned decimal (bit pattern) | B bool | D nanoseconds
	Val  string `json:"v"`
	w    int    // byte width of an integer kind
}

// leaf fields of a message struct in declaration order, embedded structs flattened
func flatten(v reflect.Value, out *[]reflect.Value, names *[]string) {
	t := v.Type()
	for i := 0; i < t.NumField(); i++ {
		f := t.Field(i)
		fv := v.Field(i)
		if f.Type.Kind() == reflect.Interface {
			continue
		}
		if f.Anonymous && f.Type.Kind() == reflect.Struct {
			flatten(fv, out, names)
			continue
		}
		*out = append(*out, fv)
		*names = append(*names, f.Name)
	}
}

var durType = reflect.TypeOf(time.Duration(0))

func readField(name string, fv reflect.Value) fld {
	switch {
	case fv.Type() == durType:
		return fld{Name: name, Kind: "D", Val: strconv.FormatInt(fv.Int(), 10)}
	case fv.Kind() == reflect.String:
		return fld{Name: name, Kind: "S", Val: hex.EncodeToString([]byte(fv.String()))}
	case fv.Kind() == reflect.Slice:
		return fld{Name: name, Kind: "S", Val: hex.EncodeToString(fv.Bytes())}
	case fv.Kind() == reflect.Bool:
		return fld{Name: name, Kind: "B", Val: strconv.FormatBool(fv.Bool())}
	case fv.Kind() >= reflect.Int && fv.Kind() <= reflect.Int64:
		w := int(fv.Type().Size())
		u := uint64(fv.Int())
		if w < 8 {
			u &= (uint64(1) << (8 * uint(w))) - 1
		}
		return fld{Name: name, Kind: "I", Val: strconv.FormatUint(u, 10), w: w}
	case fv.Kind() >= reflect.Uint && fv.Kind() <= reflect.Uint64:
		return fld{Name: name, Kind: "I", Val: strconv.FormatUint(fv.Uint(), 10), w: int(fv.Type().Size())}
	}
	return fld{Name: name, Kind: "?", Val: fv.Type().String()}
}

var strLens = []int{0, 0, 0, 1, 1, 2, 3, 5, 7, 9, 12, 16, 20, 24, 33, 40, 0, 1, 2, 3, 5, 8, 126, 127, 128, 129, 254, 255, 256, 257, 300, 1000}
var bigLens = []int{32766, 32767, 32768, 40000, 65534, 65535}
var overLens = []int{65536, 65537, 70000}

// fills one message; returns whether every value is within the wire limits
// searchMs >= 0 pins every duration field to that many milliseconds (failing-input search sweeps it)
var searchMs int64 = -1

func genMessage(r *rng, t reflect.Type, big bool) (reflect.Value, bool) {
	v := reflect.New(t).Elem()
	var fs []reflect.Value
	var ns []string
	flatten(v, &fs, &ns)
	within := true
	for i, fv := range fs {
		name := ns[i]
		if offWire[t.Name()][name] {
			continue
		}
		switch {
		case fv.Type() == durType:
			ms := []int64{0, 1, 999, 1000, 60000, 3600000, math.MaxInt32, math.MaxInt32 + 1, math.MaxUint32}[r.intn(9)]
			if r.chance(1, 3) {
				ms = int64(r.intn(200000)) // non-round millisecond counts
			}
			if searchMs >= 0 {
				ms = searchMs
			}
			ns := ms * 1000000
			if searchMs < 0 && r.chance(1, 10) {
				ns += int64(1 + r.intn(999999)) // sub-millisecond part: lost by design, outside the limits
				within = false
			}
			fv.SetInt(ns)
		case fv.Kind() == reflect.String || fv.Kind() == reflect.Slice:
			n := r.pick(strLens)
			if big && r.chance(1, 3) {
				n = r.pick(bigLens)
			}
			if name == "Msg" && big {
				n = r.pick(append(append([]int{}, bigLens...), overLens...))
			}
			// (a non-Msg string beyond its 16-bit prefix is outside the property's domain and is
			// not generated: the wrapped length makes Decode read a garbage 32-bit length and
			// allocate gigabytes)
			b := r.bytes(n)
			if fv.Kind() == reflect.String {
				fv.SetString(string(b))
			} else if n > 0 || r.chance(1, 2) {
				fv.SetBytes(b)
			}
		case fv.Kind() == reflect.Bool:
			fv.SetBool(r.chance(1, 2))
		case fv.Kind() >= reflect.Int && fv.Kind() <= reflect.Int64:
			size := fv.Type().Size()
			if size == 8 {
				fv.SetInt([]int64{0, 1, -1, math.MinInt64, math.MaxInt64, int64(r.next()), int64(r.intn(100000))}[r.intn(7)])
			} else if size == 1 {
				fv.SetInt(int64(int8(r.next())))
			} else {
				fv.SetInt(int64(r.intn(256))) // written as one byte
			}
		case fv.Kind() >= reflect.Uint && fv.Kind() <= reflect.Uint64:
			if name == "ResultCode" {
				fv.SetUint(uint64([]int{0, 0, 1, 1, r.intn(256)}[r.intn(5)]))
			} else {
				fv.SetUint(uint64(r.intn(256)))
			}
		}
	}
	return v, within
}

func fieldsOf(v reflect.Value) []fld {
	var fs []reflect.Value
	var ns []string
	flatten(v, &fs, &ns)
	var out []fld
	for i := range fs {
		if offWire[v.Type().Name()][ns[i]] {
			continue
		}
		out = append(out, readField(ns[i], fs[i]))
	}
	return out
}

// the property's own reading of "an equal message": a non-failed result carries
// no text; a failed one carries the text cut to 32767 bytes
func expectedDecoded(in []fld) []fld {
	out := append([]fld{}, in...)
	rc := ""
	for _, f := range out {
		if f.Name == "ResultCode" {
			rc = f.Val
		}
	}
	for i, f := range out {
		if f.Name == "Msg" {
			if rc != "0" {
				out[i].Val = ""
			} else if len(f.Val) > 2*32767 {
				out[i].Val = f.Val[:2*32767]
			}
		}
	}
	return out
}

type codecCase struct {
	Type   string `json:"type"`
	Code   int    `json:"code"`
	Within bool   `json:"within"`
	Fields []fld  `json:"fields"`
	Enc    string `json:"enc"`
	HasEnc bool   `json:"has_enc"`
	Dec    []fld  `json:"dec"`
	DecTyp string `json:"dec_type"`
	Oracle string `json:"oracle"` // "" = the property's statement holds on this case
	Panic  string `json:"panic"`
}

type regRow struct {
	Code      int    `json:"code"`
	Codec     string `json:"codec"`
	CodecType int    `json:"codec_type"`
}

func runCodec(a map[string]string) {
	seed := argU64(a, "seed", 1)
	n := argInt(a, "n", 100) // cases per message type
	nbig := argInt(a, "big", 1) // message types that get one case with strings around the 16-bit limits (costly to evaluate in Coq)
	codec.Init()
	cm := codec.GetCodecManager()
	var reg []regRow
	for code := 0; code < 256; code++ {
		c := cm.GetCodec(codec.CodecTypeSeata, message.MessageType(code))
		if c != nil {
			reg = append(reg, regRow{code, reflect.TypeOf(c).Elem().Name(), int(c.GetMessageType())})
		}
	}
	root := newRng(seed)
	var cases []codecCase
	var prevEnc []byte
	var prevHex string
	// search=1: failing-input search (direct oracle only): many more cases per type, strings around
	// the prefix limits in every 8th case, every millisecond count 0..130000 for duration fields;
	// only failing cases are kept
	search := argInt(a, "search", 0) == 1
	for ti, t := range msgTypes {
		r := root.fork(uint64(ti))
		hasDur := false
		for fi := 0; fi < t.NumField(); fi++ {
			if t.Field(fi).Type == durType {
				hasDur = true
			}
		}
		total := n
		if search && hasDur {
			total = n + 130001
		}
		kept := 0
		for i := 0; i < total; i++ {
			// big cases rotate over the message types with the seed: nbig types get one each
			isBig := i == 0 && (ti+int(seed))%len(msgTypes) < nbig
			searchMs = -1
			if search {
				isBig = i%8 == 0 && i < n
				if i >= n {
					searchMs = int64(i - n)
				}
			}
			v, within := genMessage(r, t, isBig)
			c := codecCase{Type: t.Name(), Within: within}
			c.Code = int(v.Interface().(message.MessageTypeAware).GetTypeCode())
			c.Fields = fieldsOf(v)
			func() {
				defer func() {
					if e := recover(); e != nil {
						c.Panic = fmt.Sprint(e)
					}
				}()
				enc := cm.Encode(codec.CodecTypeSeata, v.Interface())
				if enc == nil {
					c.Oracle = "no codec registered: Encode returned nil"
					return
				}
				c.HasEnc = true
				c.Enc = hex.EncodeToString(enc)
				// a frame handed out by an earlier Encode must keep its bytes when the codec is
				// used again (buffers must not be shared between calls)
				if prevEnc != nil && hex.EncodeToString(prevEnc) != prevHex {
					c.Oracle = "the bytes returned by the previous Encode call were overwritten by this Encode call"
				}
				prevEnc, prevHex = enc, c.Enc
				if len(enc) < 2 || int(enc[0])<<8|int(enc[1]) != c.Code {
					c.Oracle = "leading type code differs from the message's GetTypeCode"
				}
				d := cm.Decode(codec.CodecTypeSeata, enc)
				if d == nil {
					c.Oracle = "Decode returned nil"
					return
				}
				dv := reflect.ValueOf(d)
				c.DecTyp = dv.Type().Name()
				c.Dec = fieldsOf(dv)
				if within && c.Oracle == "" {
					exp := expectedDecoded(c.Fields)
					if c.DecTyp != c.Type {
						c.Oracle = "decoded message has type " + c.DecTyp
					} else if len(exp) != len(c.Dec) {
						c.Oracle = "decoded message has another field set"
					} else {
						for k := range exp {
							if exp[k].Name != c.Dec[k].Name || exp[k].Val != c.Dec[k].Val {
								c.Oracle = "field " + exp[k].Name + " does not survive the round trip"
								break
							}
						}
					}
				}
			}()
			if c.Panic != "" && c.Oracle == "" {
				c.Oracle = "panic: " + c.Panic
			}
			if search && (c.Oracle == "" || kept >= 3) {
				continue
			}
			kept++
			cases = append(cases, c)
		}
	}
	writeJSON(a["out"], map[string]interface{}{"registry": reg, "cases": cases})
}
