package undorun

// End-to-end stream of C08: scenarios through the shared AT engine (atrun: real proxy driver, real
// image builders and row scanner, real FlushUndoLog inside phase one, real Undo in phase two, on
// fakedb) over the column-type universe fakedb supports x serializer x compress type.  For every
// undo_log row written in phase one the expected BranchUndoLog is predicted from the ROW VALUES
// (column type -> JDBC code through the real MySQLStrToJavaType, value -> the Go value the real
// scanner must yield) and handed to the same tie as the other streams (model marshal vs. stored
// document, model read_back vs. decoded log); the direct oracle adds: phase-two rollback answers
// PhaseTwo_Rollbacked and the table dump equals the dump before the global transaction.

import (
	"encoding/hex"
	"encoding/json"
	"fmt"
	"math"
	"strconv"
	"strings"
	"time"

	"seata.apache.org/seata-go/pkg/datasource/sql/types"
	"seata.apache.org/seata-go/pkg/datasource/sql/undo"

	"verifh/atrun"
	"verifh/hutil"
)

type e2eVal struct {
	lit string      // SQL literal (setup)
	arg atrun.Arg   // bound argument (DML inside the global transaction)
	gov interface{} // the Go value the image builder's scanner must yield
}

type e2eType struct {
	ddl      string // column type in CREATE TABLE
	dataType string // information_schema DATA_TYPE
	feature  string // "" | finding predicate this type falls under
	notNull  bool   // declared NOT NULL: the scanner takes the non-Null scan target
	vals     []e2eVal
}

func ival(n int64) e2eVal {
	s := strconv.FormatInt(n, 10)
	return e2eVal{s, atrun.Arg{T: "int", V: s}, n}
}
func fval(s string) e2eVal {
	f, _ := strconv.ParseFloat(s, 64)
	return e2eVal{s, atrun.Arg{T: "float", V: s}, f}
}
func sval(s string) e2eVal {
	return e2eVal{"'" + strings.ReplaceAll(s, "'", "''") + "'", atrun.Arg{T: "str", V: s}, s}
}

// a character value of a column the image builder scans into sql.RawBytes (MEDIUMTEXT, LONGTEXT)
func rval(s string) e2eVal {
	v := sval(s)
	v.gov = []byte(s)
	return v
}
func bval(b []byte, pad int) e2eVal {
	h := hex.EncodeToString(b)
	stored := append([]byte{}, b...)
	for len(stored) < pad {
		stored = append(stored, 0)
	}
	return e2eVal{"x'" + h + "'", atrun.Arg{T: "bytes", V: h}, stored}
}
func tval(s string, layout string) e2eVal {
	t, err := time.ParseInLocation(layout, s, time.UTC)
	if err != nil {
		panic(err)
	}
	return e2eVal{"'" + s + "'", atrun.Arg{T: "str", V: s}, t}
}

var e2eNull = e2eVal{"NULL", atrun.Arg{T: "null"}, nil}

const (
	featScan = "undo.e2e.scan-unsupported" // the image builder's scan target cannot hold the driver value: phase one fails
)

var allBytes = func() []byte {
	b := make([]byte, 256)
	for i := range b {
		b[i] = byte(i)
	}
	return b
}()

var e2eTypes = []e2eType{
	{"TINYINT", "tinyint", "", false, []e2eVal{ival(-128), ival(127), ival(0), ival(20)}},
	{"TINYINT UNSIGNED", "tinyint", "", false, []e2eVal{ival(200), ival(255), ival(128), ival(1)}},
	{"SMALLINT", "smallint", "", false, []e2eVal{ival(-32768), ival(32767), ival(-129)}},
	{"SMALLINT UNSIGNED", "smallint", "", false, []e2eVal{ival(65535), ival(40000), ival(32768)}},
	{"MEDIUMINT", "mediumint", "", false, []e2eVal{ival(8388607), ival(-8388608)}},
	{"INT", "int", "", false, []e2eVal{ival(2147483647), ival(-2147483648), ival(0)}},
	{"INT UNSIGNED", "int", "", false, []e2eVal{ival(4294967295), ival(3000000000), ival(2147483648)}},
	{"BIGINT", "bigint", "", false, []e2eVal{ival(9007199254740993), ival(-9007199254740993), ival(math.MaxInt64), ival(math.MinInt64), ival(4611686018427387905)}},
	{"BIGINT UNSIGNED", "bigint", "", false, []e2eVal{ival(math.MaxInt64), ival(9007199254740995)}},
	{"FLOAT", "float", "", false, []e2eVal{fval("1.5"), fval("0.5"), fval("-0.25"), fval("16777216"), fval("3")}},
	{"FLOAT", "float", "", false, []e2eVal{fval("1.1"), fval("0.1"), fval("3.14159")}},
	{"FLOAT NOT NULL", "float", "", true, []e2eVal{fval("1.1"), fval("0.1"), fval("3.14159"), fval("0.5"), fval("16777216")}},
	{"DOUBLE NOT NULL", "double", "", true, []e2eVal{fval("0.1"), fval("123456789.125"), fval("1e+20")}},
	{"DECIMAL(10,2) NOT NULL", "decimal", "", true, []e2eVal{fval("12345.67"), fval("-0.01"), fval("0")}},
	{"INT NOT NULL", "int", "", true, []e2eVal{ival(2147483647), ival(-2147483648), ival(0)}},
	{"TINYINT UNSIGNED NOT NULL", "tinyint", "", true, []e2eVal{ival(200), ival(255), ival(0)}},
	{"BIGINT NOT NULL", "bigint", "", true, []e2eVal{ival(9007199254740993), ival(math.MinInt64), ival(math.MaxInt64)}},
	{"VARCHAR(32) NOT NULL", "varchar", "", true, []e2eVal{sval("test"), sval(""), sval("dGVzdA==")}},
	{"VARBINARY(16) NOT NULL", "varbinary", "", true, []e2eVal{bval([]byte{0, 0xff}, 0), bval([]byte("test"), 0)}},
	{"DATETIME(3) NOT NULL", "datetime", "", true, []e2eVal{tval("2024-02-29 23:59:58.120", "2006-01-02 15:04:05.000"), tval("1999-12-31 23:59:59.999", "2006-01-02 15:04:05.000")}},
	{"YEAR", "year", "", false, []e2eVal{ival(2024), ival(1999), ival(1901), ival(2155)}},
	{"LONGBLOB", "longblob", "", false, []e2eVal{bval([]byte{1, 2}, 0), bval(allBytes, 0), bval([]byte("test"), 0)}},
	{"DOUBLE", "double", "", false, []e2eVal{fval("0.1"), fval("123456789.125"), fval("-2.5e-07"), fval("1e+20"), fval("9007199254740992"), fval("1.7976931348623157e+308")}},
	{"DECIMAL(14,3)", "decimal", "", false, []e2eVal{fval("12345.678"), fval("-0.001"), fval("0"), fval("2.5")}},
	{"CHAR(12)", "char", "", false, []e2eVal{sval("test"), sval(""), sval("a b"), sval("dGVzdA==")}},
	{"VARCHAR(64)", "varchar", "", false, []e2eVal{sval("dGVzdA=="), sval("你好，世界"), sval("1234"), sval(`{"a":1}`), sval("it's"), sval("test"), sval("AAAA"), sval("12.5"), sval("null")}},
	{"TINYTEXT", "tinytext", "", false, []e2eVal{sval("tiny"), sval("abcd")}},
	{"TEXT", "text", "", false, []e2eVal{sval("some text with <html>&amp;"), sval(strings.Repeat("blank ", 400)), sval("")}},
	{"MEDIUMTEXT", "mediumtext", "", false, []e2eVal{rval("medium"), rval("YQ=="), rval("")}},
	{"LONGTEXT", "longtext", "", false, []e2eVal{rval("long text"), rval("====")}},
	{"JSON", "json", "", false, []e2eVal{sval(`{"a": 1}`), sval(`[1, 2]`)}},
	{"BINARY(4)", "binary", "", false, []e2eVal{bval([]byte{0, 0xff}, 4), bval([]byte("test"), 4)}},
	{"VARBINARY(300)", "varbinary", "", false, []e2eVal{bval([]byte{0, 1, 0xfe, 0xff}, 0), bval(allBytes, 0), bval([]byte("test"), 0), bval([]byte{}, 0)}},
	{"TINYBLOB", "tinyblob", "", false, []e2eVal{bval([]byte{1}, 0), bval([]byte("dGVzdA=="), 0)}},
	{"BLOB", "blob", "", false, []e2eVal{bval([]byte("test\n"), 0), bval(allBytes, 0), bval(make([]byte, 3000), 0)}},
	{"MEDIUMBLOB", "mediumblob", "", false, []e2eVal{bval([]byte{0xff, 0xfe}, 0)}},
	{"DATE", "date", "", false, []e2eVal{tval("2024-02-29", "2006-01-02"), tval("1000-01-01", "2006-01-02"), tval("9999-12-31", "2006-01-02")}},
	{"DATETIME", "datetime", "", false, []e2eVal{tval("2024-02-29 23:59:58", "2006-01-02 15:04:05"), tval("1970-01-01 00:00:00", "2006-01-02 15:04:05")}},
	{"DATETIME(6)", "datetime", "", false, []e2eVal{tval("2024-02-29 23:59:58.120000", "2006-01-02 15:04:05.000000"), tval("2023-12-31 23:59:59.999999", "2006-01-02 15:04:05.000000"), tval("2000-01-01 00:00:00.000001", "2006-01-02 15:04:05.000000")}},
	{"TIMESTAMP(3) NULL", "timestamp", "", false, []e2eVal{tval("2024-02-29 23:59:58.123", "2006-01-02 15:04:05.000"), tval("2038-01-19 03:14:07.999", "2006-01-02 15:04:05.000")}},
	{"TIME", "time", featScan, false, []e2eVal{{"'12:00:01'", atrun.Arg{T: "str", V: "12:00:01"}, nil}, {"'01:02:03'", atrun.Arg{T: "str", V: "01:02:03"}, nil}}},
}

type e2eCol struct {
	name string
	ty   e2eType
}

type e2ePlan struct {
	sc      atrun.Scenario
	cols    []e2eCol
	cfg     Cfg
	feature string
	// per DML of the global transaction: rows (by id) before and after, in the column universe
	before []map[int64]map[string]interface{}
	after  []map[int64]map[string]interface{}
	kinds  []string // update | delete | insert
}

var e2eSerializers = []string{"json", "json", "json", "protobuf"}
var e2eCompress = []string{"", "None", "Gzip", "Zip", "Bzip2", "Deflate", "Zstd", "zip", "Sevenz", "gzip"}

func copyRows(m map[int64]map[string]interface{}) map[int64]map[string]interface{} {
	out := map[int64]map[string]interface{}{}
	for id, r := range m {
		c := map[string]interface{}{}
		for k, v := range r {
			c[k] = v
		}
		out[id] = c
	}
	return out
}

func e2eGen(r *hutil.Rng, i int, focus int) e2ePlan {
	p := e2ePlan{}
	ncols := 1 + r.Intn(4)
	feature := ""
	// one column of the focus type (every type is the focus in turn), the rest random clean types
	pick := []int{focus % len(e2eTypes)}
	if f := e2eTypes[pick[0]].feature; f != "" {
		feature = f
	}
	for len(pick) < ncols {
		k := r.Intn(len(e2eTypes))
		if e2eTypes[k].feature != "" {
			continue
		}
		pick = append(pick, k)
	}
	var ddl []string
	for j, k := range pick {
		c := e2eCol{fmt.Sprintf("c%d_%s", j, e2eTypes[k].dataType), e2eTypes[k]}
		p.cols = append(p.cols, c)
		ddl = append(ddl, c.name+" "+c.ty.ddl)
	}
	p.feature = feature
	ser := e2eSerializers[(i+r.Intn(2))%len(e2eSerializers)]
	comp := e2eCompress[(i/2+r.Intn(3))%len(e2eCompress)]
	only := r.Chance(1, 2)
	p.cfg = Cfg{Ser: ser, Enable: comp != "", CType: comp, Threshold: "64k"}
	if comp == "" {
		p.cfg.CType = "None"
	}
	p.sc = atrun.Scenario{Name: fmt.Sprintf("c08e2e-%d", i), Config: atrun.Config{Serializer: ser, Compress: comp, OnlyCareUpdateColumns: &only}}
	p.sc.Setup = []string{"CREATE TABLE t_e2e (id BIGINT NOT NULL, " + strings.Join(ddl, ", ") + ", PRIMARY KEY (id))"}
	rows := map[int64]map[string]interface{}{}
	nrows := 2 + r.Intn(2)
	pickVal := func(c e2eCol) e2eVal {
		if r.Chance(1, 8) && c.ty.feature != featScan && !c.ty.notNull {
			return e2eNull
		}
		return c.ty.vals[r.Intn(len(c.ty.vals))]
	}
	for id := int64(1); id <= int64(nrows); id++ {
		lits := []string{strconv.FormatInt(id, 10)}
		row := map[string]interface{}{"id": id}
		for _, c := range p.cols {
			v := pickVal(c)
			lits = append(lits, v.lit)
			row[c.name] = v.gov
		}
		rows[id] = row
		p.sc.Setup = append(p.sc.Setup, "INSERT INTO t_e2e VALUES ("+strings.Join(lits, ", ")+")")
	}
	var body []atrun.Step
	ndml := 1 + r.Intn(2)
	nextID := int64(nrows + 1)
	for d := 0; d < ndml; d++ {
		p.before = append(p.before, copyRows(rows))
		kind := []string{"update", "update", "delete", "insert"}[r.Intn(4)]
		if feature == featScan {
			kind = "update"
		}
		switch kind {
		case "update":
			id := int64(1 + r.Intn(nrows))
			if _, ok := rows[id]; !ok {
				id = 0
				for k := range rows {
					if id == 0 || k < id {
						id = k
					}
				}
			}
			var sets []string
			var args []atrun.Arg
			for j, c := range p.cols {
				if j > 0 && r.Chance(1, 3) {
					continue
				}
				v := pickVal(c)
				sets = append(sets, c.name+" = ?")
				args = append(args, v.arg)
				rows[id][c.name] = v.gov
			}
			args = append(args, atrun.I(id))
			body = append(body, atrun.Step{Op: "exec", SQL: "UPDATE t_e2e SET " + strings.Join(sets, ", ") + " WHERE id = ?", Args: args})
		case "delete":
			var id int64
			for k := range rows {
				if id == 0 || k > id {
					id = k
				}
			}
			delete(rows, id)
			body = append(body, atrun.Step{Op: "exec", SQL: "DELETE FROM t_e2e WHERE id = ?", Args: []atrun.Arg{atrun.I(id)}})
		case "insert":
			names, marks := []string{"id"}, []string{"?"}
			args := []atrun.Arg{atrun.I(nextID)}
			row := map[string]interface{}{"id": nextID}
			for _, c := range p.cols {
				v := pickVal(c)
				names, marks, args = append(names, c.name), append(marks, "?"), append(args, v.arg)
				row[c.name] = v.gov
			}
			rows[nextID] = row
			nextID++
			body = append(body, atrun.Step{Op: "exec", SQL: "INSERT INTO t_e2e (" + strings.Join(names, ", ") + ") VALUES (" + strings.Join(marks, ", ") + ")", Args: args})
		}
		p.kinds = append(p.kinds, kind)
		p.after = append(p.after, copyRows(rows))
	}
	p.sc.Steps = []atrun.Step{{Op: "dump", Tables: []string{"t_e2e"}},
		{Op: "gtx", End: "rollback", Steps: body},
		{Op: "phase2", Action: "rollback", Gtx: -1, Branch: -1},
		{Op: "dump", Tables: []string{"t_e2e"}}}
	return p
}

// the expected image: structure (names, order, key flags) as decoded, values and JDBC types as predicted
func (p *e2ePlan) expectImage(dec *types.RecordImage, rows map[int64]map[string]interface{}) (*types.RecordImage, string) {
	if dec == nil {
		return nil, ""
	}
	out := &types.RecordImage{TableName: dec.TableName, SQLType: dec.SQLType, Rows: []types.RowImage{}}
	byName := map[string]e2eCol{}
	for _, c := range p.cols {
		byName[strings.ToLower(c.name)] = c
	}
	for _, dr := range dec.Rows {
		var id int64 = -1
		for _, c := range dr.Columns {
			if strings.EqualFold(c.ColumnName, "id") {
				if v, ok := asInt(c.Value); ok {
					id = v
				} else if f, ok := c.Value.(float64); ok && f == math.Trunc(f) && math.Abs(f) < 1e15 { // protobuf serializer
					id = int64(f)
				}
			}
		}
		row, ok := rows[id]
		if !ok {
			return nil, fmt.Sprintf("image holds a row with id %d that the statement did not touch", id)
		}
		er := types.RowImage{Columns: []types.ColumnImage{}}
		for _, c := range dr.Columns {
			ec := types.ColumnImage{KeyType: types.IndexTypeNull, ColumnName: c.ColumnName}
			if strings.EqualFold(c.ColumnName, "id") {
				ec.KeyType, ec.ColumnType, ec.Value = types.IndexTypePrimaryKey, types.MySQLStrToJavaType("bigint"), id
			} else if col, ok := byName[strings.ToLower(c.ColumnName)]; ok {
				ec.ColumnType, ec.Value = types.MySQLStrToJavaType(col.ty.dataType), row[col.name]
			} else {
				return nil, "image holds an unknown column " + c.ColumnName
			}
			er.Columns = append(er.Columns, ec)
		}
		out.Rows = append(out.Rows, er)
	}
	return out, ""
}

func findStep(steps []atrun.StepResult, op string, nth int) *atrun.StepResult {
	k := 0
	for i := range steps {
		if steps[i].Op == op {
			if k == nth {
				return &steps[i]
			}
			k++
		}
	}
	return nil
}

func (o *Out) e2eCase(r *hutil.Rng, i int, focus int) {
	p := e2eGen(r, i, focus)
	tr := atrun.Run(p.sc)
	feats := []string{}
	if p.feature != "" {
		feats = append(feats, p.feature)
	}
	mk := func() Case {
		return Case{Stream: "e2e", InModel: false, Features: append([]string{}, feats...), Cfg: p.cfg, Flush: "-", Dec: "-",
			What: fmt.Sprintf("%s %v %s", p.sc.Setup[0], p.kinds, mustJSON(p.sc.Steps[1]))}
	}
	fail := func(msg string) {
		c := mk()
		c.Oracle = msg
		o.Cases = append(o.Cases, c)
	}
	if tr.SetupErr != "" {
		c := mk()
		c.Stream, c.What = "e2e-skipped", "setup: "+tr.SetupErr
		o.Cases = append(o.Cases, c)
		return
	}
	gtx := findStep(tr.Steps, "gtx", 0)
	d0, d1 := findStep(tr.Steps, "dump", 0), findStep(tr.Steps, "dump", 1)
	p2 := findStep(tr.Steps, "phase2", 0)
	if gtx == nil || d0 == nil || d1 == nil || p2 == nil {
		fail("trace lacks a step")
		return
	}
	for k, s := range gtx.Sub {
		if s.Class != "ok" {
			fail(fmt.Sprintf("phase one failed on statement %d (%s): %s %s", k, p.kinds[k], s.ErrClass, trim(s.ErrText)))
			return
		}
	}
	var rows []atrun.UndoRow
	if n := len(gtx.Sub); n > 0 {
		rows = gtx.Sub[n-1].Undo
	}
	if len(rows) != len(p.kinds) {
		fail(fmt.Sprintf("%d statements wrote %d undo_log rows", len(p.kinds), len(rows)))
		return
	}
	// ---- codec: every stored row against the prediction from the row values
	for k, u := range rows {
		c := mk()
		c.Stream, c.InModel, c.Flush = "e2e", true, "ok"
		c.Stream = "valid" // compared exactly like a valid-stream case
		c.What = "e2e " + c.What
		ctx, info := []byte(u.Context), mustHex(u.RawHex)
		c.Ctx, c.Info = hex.EncodeToString(ctx), u.RawHex
		c.Trees = decompressAll(info)
		cls, det, dl, dep := decodeAcross(ctx, info)
		c.Dec, c.DecErr, c.ReaderDep = cls, trim(det), dep
		if cls != hutil.OutOK {
			c.Oracle = "the undo_log row written in phase one does not read back (" + cls + "): " + trim(det)
			c.InModel = false
			o.Cases = append(o.Cases, c)
			continue
		}
		c.DecLog = canonLog(dl)
		exp := &undo.BranchUndoLog{Xid: u.Xid, BranchID: uint64(u.BranchID), Logs: []undo.SQLUndoLog{}}
		bad := ""
		for _, it := range dl.Logs {
			b, m1 := p.expectImage(it.BeforeImage, p.before[k])
			a, m2 := p.expectImage(it.AfterImage, p.after[k])
			if m1+m2 != "" {
				bad = m1 + m2
			}
			exp.Logs = append(exp.Logs, undo.SQLUndoLog{SQLType: it.SQLType, TableName: it.TableName, BeforeImage: b, AfterImage: a})
		}
		if len(dl.Logs) != 1 {
			bad = fmt.Sprintf("one statement produced %d sql undo logs", len(dl.Logs))
		}
		if bad != "" {
			c.Oracle, c.InModel = "phase one image: "+bad, false
			o.Cases = append(o.Cases, c)
			continue
		}
		c.Log = canonLog(exp)
		c.Features = append(c.Features, features(p.cfg, exp)...)
		c.Oracle = logEq(exp, dl)
		if c.Oracle != "" {
			c.Oracle = "row values vs decoded image: " + c.Oracle
		}
		o.Cases = append(o.Cases, c)
	}
	// ---- rollback restores the rows exactly
	c := mk()
	c.Stream = "e2e-rollback"
	if p.cfg.Ser == "protobuf" { // the primary key alone is an integer value
		c.Features = append(c.Features, "undo.serializer.protobuf")
	}
	status := []string{}
	okAll := len(p2.Phase2) == len(p.kinds)
	for _, r2 := range p2.Phase2 {
		status = append(status, fmt.Sprintf("%d:%s", r2.Status, trim(r2.Msg)))
		if r2.Status != 8 || r2.Class != "ok" {
			okAll = false
		}
	}
	same := mustJSON(d0.Dump) == mustJSON(d1.Dump)
	if !okAll || !same {
		c.Oracle = fmt.Sprintf("global rollback did not restore the rows (branch statuses %v, table equal to the initial table: %v)", status, same)
	}
	o.Cases = append(o.Cases, c)
}

func mustHex(s string) []byte {
	b, _ := hex.DecodeString(s)
	return b
}

func mustJSON(v interface{}) string {
	b, _ := json.Marshal(v)
	return string(b)
}
