// Package undorun (C08): runs the REAL flush-side encoding (BaseUndoLogManager.FlushUndoLog over a
// capturing driver.Conn) and the REAL undo-side decoding (base.VerifDecodeUndoLog = the helpers Undo
// composes) on generated branch undo logs x configurations, on malformed stored columns, and on
// garbage; records the observables the Coq model is compared with and evaluates the property's own
// statement (decoded log equals the original up to the executors' equality; no panic) on the run.
package undorun

import (
	"bytes"
	"database/sql"
	"database/sql/driver"
	"encoding/hex"
	"encoding/json"
	"fmt"
	"io"
	"math"
	"sort"
	"strconv"
	"strings"
	"time"
	"unicode/utf8"

	"seata.apache.org/seata-go/pkg/compressor"
	"seata.apache.org/seata-go/pkg/datasource/sql/datasource"
	"seata.apache.org/seata-go/pkg/datasource/sql/types"
	"seata.apache.org/seata-go/pkg/datasource/sql/undo"
	"seata.apache.org/seata-go/pkg/datasource/sql/undo/base"
	undoparser "seata.apache.org/seata-go/pkg/datasource/sql/undo/parser"

	"verifh/hutil"
)

// ---------------------------------------------------------------- output schema
type Val struct {
	K string  `json:"k"`           // nil i f s b t B o
	W int     `json:"w,omitempty"` // width of an integer
	V string  `json:"v,omitempty"` // decimal (i, f = bits) or hex (s, b)
	T []int64 `json:"t,omitempty"` // year month day hour min sec nsec offset
}
type Col struct {
	PK   bool   `json:"pk"`
	Name string `json:"name"` // hex
	Type int    `json:"type"`
	Val  Val    `json:"val"`
}
type Image struct {
	Table   string  `json:"table"`
	SQLType int     `json:"sqltype"`
	Rows    [][]Col `json:"rows"`
}
type Item struct {
	SQLType int    `json:"sqltype"`
	Table   string `json:"table"`
	Before  *Image `json:"before"`
	After   *Image `json:"after"`
}
type Log struct {
	Xid    string `json:"xid"`
	Branch uint64 `json:"branch"`
	Items  []Item `json:"items"`
}
type Cfg struct {
	Ser       string `json:"ser"`
	Enable    bool   `json:"enable"`
	CType     string `json:"ctype"`
	Threshold string `json:"threshold"`
}
type TreeOf struct {
	Kind string      `json:"kind"`
	Tree interface{} `json:"tree"`
}
type Case struct {
	Stream   string   `json:"stream"` // valid | malformed | garbage
	InModel  bool     `json:"inmodel"`
	Features []string `json:"features"`
	Cfg      Cfg      `json:"cfg"`
	Log      *Log     `json:"log,omitempty"`
	Flush    string   `json:"flush"` // ok err panic noinsert -
	FlushErr string   `json:"flush_err,omitempty"`
	Ctx      string   `json:"ctx"`  // hex
	Info     string   `json:"info"` // hex
	Trees    []TreeOf `json:"trees"`
	Dec      string   `json:"dec"` // ok err panic diverged
	DecErr   string   `json:"dec_err,omitempty"`
	DecLog   *Log     `json:"declog,omitempty"`
	Oracle   string   `json:"oracle"` // "" = the property's statement holds on this run
	// inside the region of a known finding: the outcome the finding records for this input, and a
	// message when the run shows another one (always a violation)
	// non-empty when decoding the same stored (context, rollback_info) gives another result under another
	// READER configuration (always a violation: the context alone must pick decoder and decompressor)
	ReaderDep       string `json:"reader_dep,omitempty"`
	Expect          string `json:"expect,omitempty"`
	RegionViolation string `json:"region_violation,omitempty"`
	What            string `json:"what,omitempty"`
}
type Out struct {
	Cases     []Case           `json:"cases"`
	HypFail   []string         `json:"hyp_fail"`
	HypRuns   int              `json:"hyp_runs"`
	EmitPairs [][2]interface{} `json:"emit_pairs"`
	SQLTypes  map[string]int   `json:"sqltypes"`
}

// ---------------------------------------------------------------- capturing connection
// capConn keeps the arguments of the undo_log INSERT. The driver consumes them at the END of Exec:
// onExec (if set) runs first, then ctx/info are copied (snapCtx/snapInfo); args keeps the slices themselves.
type capConn struct {
	args              []driver.Value
	onExec            func()
	snapCtx, snapInfo []byte
}
type capStmt struct{ c *capConn }

func (c *capConn) Prepare(q string) (driver.Stmt, error) { return &capStmt{c}, nil }
func (c *capConn) Close() error                          { return nil }
func (c *capConn) Begin() (driver.Tx, error)             { return nil, fmt.Errorf("no tx") }
func (s *capStmt) Close() error                          { return nil }
func (s *capStmt) NumInput() int                         { return -1 }
func (s *capStmt) Exec(a []driver.Value) (driver.Result, error) {
	s.c.args = a
	if s.c.onExec != nil {
		s.c.onExec()
	}
	if len(a) >= 4 {
		if b, ok := a[2].([]byte); ok {
			s.c.snapCtx = append([]byte{}, b...)
		}
		if b, ok := a[3].([]byte); ok {
			s.c.snapInfo = append([]byte{}, b...)
		}
	}
	return driver.RowsAffected(1), nil
}
func (s *capStmt) Query(a []driver.Value) (driver.Rows, error) { return nil, fmt.Errorf("no query") }

// ---------------------------------------------------------------- canonical values
func hx(s string) string { return hex.EncodeToString([]byte(s)) }

func canonVal(v interface{}) Val {
	switch x := v.(type) {
	case nil:
		return Val{K: "nil"}
	case int8:
		return Val{K: "i", W: 8, V: strconv.FormatInt(int64(x), 10)}
	case int16:
		return Val{K: "i", W: 16, V: strconv.FormatInt(int64(x), 10)}
	case int32:
		return Val{K: "i", W: 32, V: strconv.FormatInt(int64(x), 10)}
	case int64:
		return Val{K: "i", W: 64, V: strconv.FormatInt(x, 10)}
	case float64:
		return Val{K: "f", V: strconv.FormatUint(math.Float64bits(x), 10)}
	case string:
		return Val{K: "s", V: hx(x)}
	case []byte:
		if x == nil {
			return Val{K: "nil"}
		}
		return Val{K: "b", V: hex.EncodeToString(x)}
	case sql.RawBytes:
		if x == nil {
			return Val{K: "nil"}
		}
		return Val{K: "b", V: hex.EncodeToString(x)}
	case time.Time:
		y, mo, d := x.Date()
		h, mi, s := x.Clock()
		_, off := x.Zone()
		return Val{K: "t", T: []int64{int64(y), int64(mo), int64(d), int64(h), int64(mi), int64(s), int64(x.Nanosecond()), int64(off)}}
	case bool:
		if x {
			return Val{K: "B", V: "1"}
		}
		return Val{K: "B", V: "0"}
	}
	return Val{K: "o", V: fmt.Sprintf("%T", v)}
}

func canonImage(im *types.RecordImage) *Image {
	if im == nil {
		return nil
	}
	out := &Image{Table: hx(im.TableName), SQLType: int(im.SQLType), Rows: [][]Col{}}
	for _, r := range im.Rows {
		row := []Col{}
		for _, c := range r.Columns {
			row = append(row, Col{PK: c.KeyType == types.IndexTypePrimaryKey, Name: hx(c.ColumnName), Type: int(c.ColumnType), Val: canonVal(c.Value)})
		}
		out.Rows = append(out.Rows, row)
	}
	return out
}

func canonLog(l *undo.BranchUndoLog) *Log {
	out := &Log{Xid: hx(l.Xid), Branch: l.BranchID, Items: []Item{}}
	for _, it := range l.Logs {
		out.Items = append(out.Items, Item{SQLType: int(it.SQLType), Table: hx(it.TableName), Before: canonImage(it.BeforeImage), After: canonImage(it.AfterImage)})
	}
	return out
}

// generic JSON document -> tree (numbers keep ParseInt / ParseFloat results, objects keep text order)
func parseTree(data []byte) (interface{}, bool) {
	dec := json.NewDecoder(bytes.NewReader(data))
	dec.UseNumber()
	t, err := readTree(dec)
	if err != nil {
		return nil, false
	}
	if _, err := dec.Token(); err != io.EOF {
		return nil, false
	}
	return t, true
}

func readTree(dec *json.Decoder) (interface{}, error) {
	tok, err := dec.Token()
	if err != nil {
		return nil, err
	}
	switch x := tok.(type) {
	case nil:
		return "n", nil
	case bool:
		return map[string]interface{}{"B": x}, nil
	case json.Number:
		m := map[string]interface{}{}
		if i, err := strconv.ParseInt(x.String(), 10, 64); err == nil {
			m["i"] = strconv.FormatInt(i, 10)
		}
		if f, err := strconv.ParseFloat(x.String(), 64); err == nil {
			m["f"] = strconv.FormatUint(math.Float64bits(f), 10)
		}
		return map[string]interface{}{"N": m}, nil
	case string:
		return map[string]interface{}{"s": hx(x)}, nil
	case json.Delim:
		if x == '[' {
			arr := []interface{}{}
			for dec.More() {
				e, err := readTree(dec)
				if err != nil {
					return nil, err
				}
				arr = append(arr, e)
			}
			if _, err := dec.Token(); err != nil {
				return nil, err
			}
			return map[string]interface{}{"a": arr}, nil
		}
		if x == '{' {
			obj := []interface{}{}
			for dec.More() {
				k, err := dec.Token()
				if err != nil {
					return nil, err
				}
				ks, _ := k.(string)
				e, err := readTree(dec)
				if err != nil {
					return nil, err
				}
				obj = append(obj, []interface{}{hx(ks), e})
			}
			if _, err := dec.Token(); err != nil {
				return nil, err
			}
			return map[string]interface{}{"o": obj}, nil
		}
	}
	return nil, fmt.Errorf("unexpected token")
}

// ---------------------------------------------------------------- the executors' equality, on the real values
func asBytes(v interface{}) ([]byte, bool) {
	switch x := v.(type) {
	case string:
		return []byte(x), true
	case []byte:
		return x, x != nil
	case sql.RawBytes:
		return []byte(x), x != nil
	}
	return nil, false
}

func isNil(v interface{}) bool {
	switch x := v.(type) {
	case nil:
		return true
	case []byte:
		return x == nil
	case sql.RawBytes:
		return x == nil
	}
	return false
}

func asInt(v interface{}) (int64, bool) {
	switch x := v.(type) {
	case int8:
		return int64(x), true
	case int16:
		return int64(x), true
	case int32:
		return int64(x), true
	case int64:
		return x, true
	case int:
		return int64(x), true
	}
	return 0, false
}

// executorEq: datasource.DeepEqual (the real function) agrees AND the bound parameter is the same
func executorEq(a, b interface{}) bool {
	if isNil(a) || isNil(b) {
		return isNil(a) && isNil(b)
	}
	if x, ok := asInt(a); ok {
		if y, ok := asInt(b); ok {
			return datasource.DeepEqual(a, b) && x == y
		}
		if f, ok := b.(float64); ok {
			return datasource.DeepEqual(a, b) && f == math.Trunc(f) && math.Abs(f) < 9.3e18 && int64(f) == x
		}
		return false
	}
	if f, ok := a.(float64); ok {
		if g, ok := b.(float64); ok {
			return datasource.DeepEqual(a, b) && f == g
		}
		if y, ok := asInt(b); ok {
			return datasource.DeepEqual(a, b) && f == math.Trunc(f) && math.Abs(f) < 9.3e18 && int64(f) == y
		}
		return false
	}
	if x, ok := asBytes(a); ok {
		y, ok := asBytes(b)
		return ok && bytes.Equal(x, y)
	}
	if x, ok := a.(time.Time); ok {
		y, ok := b.(time.Time)
		if !ok {
			return false
		}
		_, ox := x.Zone()
		_, oy := y.Zone()
		return x.Equal(y) && ox == oy
	}
	if x, ok := a.(bool); ok {
		y, ok := b.(bool)
		return ok && x == y
	}
	return false
}

func imageEq(a, b *types.RecordImage, where string) string {
	if (a == nil) != (b == nil) {
		return where + ": image presence differs"
	}
	if a == nil {
		return ""
	}
	if a.TableName != b.TableName || a.SQLType != b.SQLType {
		return fmt.Sprintf("%s: table/sqlType %q/%d decoded as %q/%d", where, a.TableName, a.SQLType, b.TableName, b.SQLType)
	}
	if len(a.Rows) != len(b.Rows) {
		return fmt.Sprintf("%s: %d rows decoded as %d", where, len(a.Rows), len(b.Rows))
	}
	for i := range a.Rows {
		ca, cb := a.Rows[i].Columns, b.Rows[i].Columns
		if len(ca) != len(cb) {
			return fmt.Sprintf("%s row %d: %d columns decoded as %d", where, i, len(ca), len(cb))
		}
		for j := range ca {
			if ca[j].ColumnName != cb[j].ColumnName || ca[j].ColumnType != cb[j].ColumnType ||
				(ca[j].KeyType == types.IndexTypePrimaryKey) != (cb[j].KeyType == types.IndexTypePrimaryKey) {
				return fmt.Sprintf("%s row %d col %d: name/type/key flag changed", where, i, j)
			}
			if !executorEq(ca[j].Value, cb[j].Value) {
				return fmt.Sprintf("%s row %d column %q (JDBC type %d): %T %v decoded as %T %v", where, i, ca[j].ColumnName,
					ca[j].ColumnType, ca[j].Value, short(ca[j].Value), cb[j].Value, short(cb[j].Value))
			}
		}
	}
	return ""
}

func short(v interface{}) string {
	s := fmt.Sprintf("%v", v)
	if b, ok := asBytes(v); ok {
		s = fmt.Sprintf("%q", string(b))
	}
	if len(s) > 60 {
		s = s[:60] + "..."
	}
	return s
}

func logEq(a, b *undo.BranchUndoLog) string {
	if a.Xid != b.Xid || a.BranchID != b.BranchID {
		return "xid/branch id changed"
	}
	if len(a.Logs) != len(b.Logs) {
		return fmt.Sprintf("%d sql undo logs decoded as %d", len(a.Logs), len(b.Logs))
	}
	for i := range a.Logs {
		if a.Logs[i].SQLType != b.Logs[i].SQLType || a.Logs[i].TableName != b.Logs[i].TableName {
			return fmt.Sprintf("log %d: sqlType/table changed", i)
		}
		if m := imageEq(a.Logs[i].BeforeImage, b.Logs[i].BeforeImage, fmt.Sprintf("log %d before image", i)); m != "" {
			return m
		}
		if m := imageEq(a.Logs[i].AfterImage, b.Logs[i].AfterImage, fmt.Sprintf("log %d after image", i)); m != "" {
			return m
		}
	}
	return ""
}

// ---------------------------------------------------------------- compressors
var kinds = []string{"None", "Gzip", "Zip", "Bzip2", "Lz4", "Zstd", "Deflate"}

func decompressAll(info []byte) []TreeOf {
	var out []TreeOf
	for _, k := range kinds {
		var plain []byte
		cls, _ := hutil.Guard(5*time.Second, func() error {
			p, err := compressor.CompressorType(k).GetCompressor().Decompress(info)
			plain = p
			return err
		})
		if cls != hutil.OutOK {
			continue
		}
		if t, ok := parseTree(plain); ok {
			out = append(out, TreeOf{Kind: k, Tree: t})
		}
	}
	return out
}

func (o *Out) hypothesis(x []byte) {
	for _, k := range kinds[1:] {
		o.HypRuns++
		var back []byte
		cls, det := hutil.Guard(20*time.Second, func() error {
			c := compressor.CompressorType(k).GetCompressor()
			y, err := c.Compress(x)
			if err != nil {
				return err
			}
			back, err = c.Decompress(y)
			return err
		})
		if cls != hutil.OutOK || !bytes.Equal(back, x) {
			if len(det) > 200 {
				det = det[:200]
			}
			o.HypFail = append(o.HypFail, fmt.Sprintf("%s: decompress(compress(x)) != x for a payload of %d bytes (%s %s) payload=%s", k, len(x), cls, det, hex.EncodeToString(x[:min(len(x), 64)])))
		}
	}
}

func min(a, b int) int {
	if a < b {
		return a
	}
	return b
}

// ---------------------------------------------------------------- generators
type emit struct {
	dataType string
	jdbc     types.JDBCType
	kind     string // i f s b t
}

// MySQL DATA_TYPE names; the JDBC code comes from the real MySQLStrToJavaType, the Go kind from the
// scan target base_executor.go GetScanSlice picks (mirrored here: it is a method of an unexported type)
var dataTypes = []struct{ name, kind string }{
	{"tinyint", "i"}, {"smallint", "i"}, {"mediumint", "i"}, {"int", "i"}, {"bigint", "i"}, {"bit", "i"}, {"year", "i"},
	{"decimal", "f"}, {"double", "f"}, {"float", "f"},
	{"date", "t"}, {"datetime", "t"}, {"timestamp", "t"}, {"time", "t"},
	{"varchar", "s"}, {"char", "s"}, {"text", "s"}, {"json", "s"}, {"tinytext", "s"},
	{"mediumtext", "b"}, {"longtext", "b"}, {"enum", "b"}, {"set", "b"}, {"binary", "b"}, {"varbinary", "b"},
	{"tinyblob", "b"}, {"blob", "b"}, {"mediumblob", "b"}, {"longblob", "b"}, {"geometry", "b"}, {"point", "b"},
}

func emits() []emit {
	var out []emit
	for _, d := range dataTypes {
		out = append(out, emit{d.name, types.MySQLStrToJavaType(d.name), d.kind})
	}
	return out
}

var intBounds = []int64{0, 1, -1, 20, 127, 128, 200, 255, -128, -129, 32767, 32768, 65535, -32768, -32769, 2147483647, 2147483648,
	-2147483648, -2147483649, 9007199254740991, 9007199254740992, 9007199254740993, -9007199254740993, 9007199254740995,
	math.MaxInt64, math.MinInt64, math.MaxInt64 - 1, 4611686018427387905}

var floatBounds = []float64{0, math.Copysign(0, -1), 1.5, 3, -3, 0.1, 8899.778, 1e20, 1e21, 1e-7, 123456789.125, 9007199254740992,
	9223372036854775808, -9223372036854775808, math.MaxFloat64, -math.MaxFloat64, math.SmallestNonzeroFloat64, 4.9e-324, 2.2250738585072014e-308,
	float64(float32(0.1)), 1e6, 1e-6, 999999999999999900000}

var stringBounds = []string{"", "test", "dGVzdA==", "AAAA", "abcd", "1234", "12.5", "-0", "1e5", `{"a":1}`, `[1,2]`, "null", "true", `"quoted"`,
	"你好，世界", "a\nb\r\n", "tab\there", "<html>&amp;", "  ", "back\\slash", "Seata-go", "====", "YQ==", "YQ=", "a b", "+/+/",
	"2024-02-29T23:59:58Z", "\x00\x01", "\xff\xfe\xfd", "ok\xc3", "\xed\xa0\x80", "emoji 😀"}

func genString(r *hutil.Rng) string {
	if r.Chance(3, 5) {
		return stringBounds[r.Intn(len(stringBounds))]
	}
	n := []int{1, 2, 3, 4, 5, 7, 8, 12, 33, 100}[r.Intn(10)]
	return string(r.Bytes(n))
}

func genBytes(r *hutil.Rng) []byte {
	switch r.Intn(8) {
	case 0:
		return nil
	case 1:
		return []byte{}
	case 2:
		b := make([]byte, 256)
		for i := range b {
			b[i] = byte(i)
		}
		return b
	case 3:
		return []byte(stringBounds[r.Intn(len(stringBounds))])
	}
	n := []int{1, 2, 3, 4, 5, 6, 7, 16, 31, 64}[r.Intn(10)]
	b := make([]byte, n)
	for i := range b {
		b[i] = byte(r.Next())
	}
	return b
}

var zones []*time.Location

func init() {
	zones = []*time.Location{time.UTC, time.UTC, time.FixedZone("IST", 19800), time.FixedZone("", -8*3600), time.FixedZone("X", 14*3600), time.FixedZone("Y", -(9*3600 + 30*60)), time.Local}
	for _, n := range []string{"Asia/Shanghai", "America/New_York", "Europe/London"} {
		if l, err := time.LoadLocation(n); err == nil {
			zones = append(zones, l)
		}
	}
}

func genTime(r *hutil.Rng) time.Time {
	if r.Chance(1, 12) {
		return time.Time{}
	}
	years := []int{1, 1000, 1970, 1999, 2000, 2024, 2038, 9999, 1900, 2023}
	y := years[r.Intn(len(years))]
	mo := 1 + r.Intn(12)
	d := 1 + r.Intn(28)
	if r.Chance(1, 6) {
		y, mo, d = 2024, 2, 29
	}
	if r.Chance(1, 10) {
		mo, d = 12, 31
	}
	ns := []int{0, 0, 1, 120000000, 999999999, 500, 123456789, 100}[r.Intn(8)]
	loc := zones[r.Intn(len(zones))]
	t := time.Date(y, time.Month(mo), d, r.Intn(24), r.Intn(60), r.Intn(60), ns, loc)
	if _, off := t.Zone(); off%60 != 0 || t.Year() < 0 || t.Year() > 9999 {
		return t.UTC()
	}
	if t.Year() < 1 || t.Year() > 9999 {
		return time.Date(2000, 1, 1, 0, 0, 0, ns, time.UTC)
	}
	return t
}

func genValue(r *hutil.Rng, kind string, pbSafe bool) interface{} {
	if r.Chance(1, 9) {
		return nil
	}
	switch kind {
	case "i":
		if r.Chance(2, 3) {
			return intBounds[r.Intn(len(intBounds))]
		}
		return int64(r.Next()) >> uint(r.Intn(64))
	case "f":
		if r.Chance(2, 3) {
			return floatBounds[r.Intn(len(floatBounds))]
		}
		for {
			f := math.Float64frombits(r.Next())
			if !math.IsNaN(f) && !math.IsInf(f, 0) {
				return f
			}
		}
	case "s":
		s := genString(r)
		if pbSafe && !utf8.ValidString(s) {
			return "valid"
		}
		return s
	case "b":
		b := genBytes(r)
		if r.Chance(1, 2) {
			return sql.RawBytes(b)
		}
		return b
	case "t":
		return genTime(r)
	}
	return nil
}

var tableNames = []string{"t_user", "T_ORDER", "表", "order-detail", "a.b", "with space", "t\"q", "x<y>&z"}
var colNames = []string{"id", "name", "Age", "创建时间", "col with space", "c\"q", "value", "type", "keyType", "blob_col", "a&b=c"}
var sqlTypes = []types.SQLType{types.SQLTypeInsert, types.SQLTypeUpdate, types.SQLTypeDelete, types.SQLTypeInsertOnDuplicateUpdate}

func genImage(r *hutil.Rng, table string, st types.SQLType, cols []emit, names []string, nrows int, pbSafe bool) *types.RecordImage {
	im := &types.RecordImage{TableName: table, SQLType: st, Rows: []types.RowImage{}}
	for i := 0; i < nrows; i++ {
		row := types.RowImage{Columns: []types.ColumnImage{}}
		for j, e := range cols {
			kt := types.IndexTypeNull
			if j == 0 {
				kt = types.IndexTypePrimaryKey
			}
			row.Columns = append(row.Columns, types.ColumnImage{KeyType: kt, ColumnName: names[j], ColumnType: e.jdbc, Value: genValue(r, e.kind, pbSafe)})
		}
		im.Rows = append(im.Rows, row)
	}
	return im
}

func pbLossy(v interface{}) bool {
	switch x := v.(type) {
	case nil, float64:
		return false
	case string:
		return !utf8.ValidString(x)
	case []byte:
		return x != nil
	case sql.RawBytes:
		return x != nil
	}
	return true
}

func features(cfg Cfg, l *undo.BranchUndoLog) []string {
	var fs []string
	if cfg.Ser == "protobuf" {
		lossy := false
		for _, it := range l.Logs {
			for _, im := range []*types.RecordImage{it.BeforeImage, it.AfterImage} {
				if im == nil {
					continue
				}
				for _, row := range im.Rows {
					for _, c := range row.Columns {
						if pbLossy(c.Value) {
							lossy = true
						}
					}
				}
			}
		}
		if lossy {
			fs = append(fs, "undo.serializer.protobuf")
		}
	}
	return fs
}

var ctypes = []string{"None", "Gzip", "Zip", "Bzip2", "Lz4", "Deflate", "Zstd", "zip", "", "Sevenz", "gzip", "NONE"}
var thresholds = []string{"64k", "1", "0", "", "1m"}

func genCfg(r *hutil.Rng, i int) Cfg {
	ser := "json"
	switch r.Intn(10) {
	case 0, 1, 2:
		ser = "protobuf"
	case 3:
		if r.Chance(1, 3) {
			ser = []string{"", "xml", "JSON"}[r.Intn(3)]
		}
	}
	return Cfg{Ser: ser, Enable: r.Chance(3, 4), CType: ctypes[(i+r.Intn(3))%len(ctypes)], Threshold: thresholds[r.Intn(len(thresholds))]}
}

func setCfg(c Cfg) {
	undo.UndoConfig = undo.Config{DataValidation: true, LogSerialization: c.Ser, LogTable: "undo_log",
		CompressConfig: undo.CompressConfig{Enable: c.Enable, Type: c.CType, Threshold: c.Threshold}}
}

// the BranchUndoLog FlushUndoLog is expected to build from the round images
func expectedLog(xid string, branch uint64, before, after []*types.RecordImage) *undo.BranchUndoLog {
	l := &undo.BranchUndoLog{Xid: xid, BranchID: branch, Logs: []undo.SQLUndoLog{}}
	n := len(before)
	if len(after) > n {
		n = len(after)
	}
	for i := 0; i < n; i++ {
		var b, a *types.RecordImage
		if i < len(before) {
			b = before[i]
		}
		if i < len(after) {
			a = after[i]
		}
		it := undo.SQLUndoLog{BeforeImage: b, AfterImage: a}
		if b != nil {
			it.SQLType, it.TableName = b.SQLType, b.TableName
		} else {
			it.SQLType, it.TableName = a.SQLType, a.TableName
		}
		l.Logs = append(l.Logs, it)
	}
	return l
}

var mgr = base.NewBaseUndoLogManager()

// bytes handed to the driver by the previous flush: the slice itself and a private copy taken when the
// driver consumed it; a later FlushUndoLog must not change them
var held struct {
	alias, copy []byte
	idx         int
}

func flushReal(xid string, branch uint64, before, after []*types.RecordImage, onExec func()) (cls, det string, ctx, info, alias []byte) {
	tc := &types.TransactionContext{XID: xid, BranchID: branch, RoundImages: &types.RoundRecordImage{}}
	for _, b := range before {
		tc.RoundImages.AppendBeofreImage(b)
	}
	for _, a := range after {
		tc.RoundImages.AppendAfterImage(a)
	}
	conn := &capConn{onExec: onExec}
	cls, det = hutil.Guard(60*time.Second, func() error { return mgr.FlushUndoLog(tc, conn) })
	if cls == hutil.OutOK {
		if conn.args == nil {
			return "noinsert", "", nil, nil, nil
		}
		ctx, info = conn.snapCtx, conn.snapInfo
		alias, _ = conn.args[3].([]byte)
	}
	return cls, det, ctx, info, alias
}

// what the Lz4 compressor itself does with the serialized log: the outcome finding C08-lz4 records
func lz4Expect(ser string, exp *undo.BranchUndoLog) string {
	p, err := undoparser.GetCache().Load(ser)
	if err != nil {
		return ""
	}
	out := ""
	hutil.Guard(60*time.Second, func() error {
		plain, err := p.Encode(exp)
		if err != nil {
			return nil
		}
		plain = append([]byte{}, plain...)
		c := compressor.CompressorType("Lz4").GetCompressor()
		y, err := c.Compress(plain)
		if err != nil {
			out = "refused"
			return nil
		}
		back, err := c.Decompress(y)
		if err != nil || !bytes.Equal(back, plain) {
			out = "undecodable"
			return nil
		}
		out = "ok"
		return nil
	})
	return out
}

// reader configurations that differ from any writer's: compression switched, other type, other serializer, other threshold
var readerCfgs = []Cfg{
	{Ser: "json", Enable: false, CType: "None", Threshold: "0"},
	{Ser: "protobuf", Enable: true, CType: "Gzip", Threshold: "1"},
	{Ser: "", Enable: true, CType: "Lz4", Threshold: ""},
	{Ser: "json", Enable: true, CType: "Zstd", Threshold: "1m"},
}

// decodeAcross decodes under the configuration in force and then under every reader configuration:
// class and decoded log must be the same (the rollback may run after a restart or on another instance)
func decodeAcross(ctx, info []byte) (cls, det string, l *undo.BranchUndoLog, dep string) {
	saved := undo.UndoConfig
	defer func() { undo.UndoConfig = saved }()
	cls, det, l = decodeReal(ctx, info)
	ref := ""
	if cls == hutil.OutOK {
		b, _ := json.Marshal(canonLog(l))
		ref = string(b)
	}
	for _, rc := range readerCfgs {
		setCfg(rc)
		c2, d2, l2 := decodeReal(ctx, info)
		got := ""
		if c2 == hutil.OutOK {
			b, _ := json.Marshal(canonLog(l2))
			got = string(b)
		}
		if c2 != cls || got != ref {
			dep = fmt.Sprintf("decoding the stored undo log depends on the READER's configuration: %s under the writer's configuration, %s (%s) under reader configuration %+v",
				cls, c2, trim(d2), rc)
			break
		}
	}
	return
}

func decodeReal(ctx, info []byte) (cls, det string, l *undo.BranchUndoLog) {
	cls, det = hutil.Guard(30*time.Second, func() error {
		var err error
		l, err = base.VerifDecodeUndoLog(mgr, ctx, info)
		return err
	})
	if cls == hutil.OutOK && l == nil {
		cls, det = hutil.OutPanic, "decode returned a nil log and a nil error (Undo dereferences it)"
	}
	return
}

func trim(s string) string {
	if i := strings.Index(s, "\n"); i > 0 {
		s = s[:i]
	}
	if len(s) > 300 {
		s = s[:300]
	}
	return s
}

func (o *Out) validCase(r *hutil.Rng, i int, em []emit) {
	cfg := genCfg(r, i)
	pbSafe := cfg.Ser == "protobuf" && r.Chance(2, 3)
	xid, branch, before, after := genLog(r, i, em, pbSafe)
	if cfg.Enable && cfg.CType == "Lz4" && r.Chance(1, 2) { // a payload lz4 cannot shrink
		big := make([]byte, 20000+r.Intn(100000))
		for k := range big {
			big[k] = byte(r.Next())
		}
		before[0].Rows = append(before[0].Rows, types.RowImage{Columns: []types.ColumnImage{{KeyType: types.IndexTypePrimaryKey, ColumnName: "id", ColumnType: types.JDBCTypeBigInt, Value: int64(1)},
			{ColumnName: "photo", ColumnType: types.JDBCTypeLongVarBinary, Value: big}}})
	}
	o.runValid(cfg, xid, branch, before, after, expectedLog(xid, branch, before, after))
}

func genLog(r *hutil.Rng, i int, em []emit, pbSafe bool) (string, uint64, []*types.RecordImage, []*types.RecordImage) {
	nitems := 1 + r.Intn(2)
	var before, after []*types.RecordImage
	for k := 0; k < nitems; k++ {
		table := tableNames[r.Intn(len(tableNames))]
		st := sqlTypes[r.Intn(len(sqlTypes))]
		ncols := 1 + r.Intn(5)
		var cols []emit
		perm := colNames
		off := r.Intn(len(perm))
		var names []string
		for j := 0; j < ncols; j++ {
			e := em[(i*7+k*3+j*11+r.Intn(len(em)))%len(em)]
			if pbSafe && e.kind != "f" && e.kind != "s" {
				e = em[[]int{7, 8, 9, 15, 16, 17}[r.Intn(6)]]
			}
			cols = append(cols, e)
			names = append(names, perm[(off+j)%len(perm)])
		}
		nb, na := r.Intn(3), r.Intn(3)
		switch st {
		case types.SQLTypeInsert:
			nb, na = 0, 1+r.Intn(2)
		case types.SQLTypeDelete:
			nb, na = 1+r.Intn(2), 0
		default:
			nb = 1 + r.Intn(2)
			na = nb
		}
		before = append(before, genImage(r, table, st, cols, names, nb, pbSafe))
		after = append(after, genImage(r, table, st, cols, names, na, pbSafe))
	}
	if r.Chance(1, 10) { // lists of different length: the tail has only one of the images
		if r.Chance(1, 2) {
			after = after[:len(after)-1]
			if len(before[len(before)-1].Rows) == 0 {
				before[len(before)-1] = genImage(r, "t_tail", types.SQLTypeDelete, em[:2], colNames[:2], 1, pbSafe)
			}
		} else {
			after = append(after, genImage(r, "t_tail", types.SQLTypeInsert, []emit{em[4], em[15]}, colNames[:2], 1, pbSafe))
		}
	}
	xid := []string{"192.168.0.1:8091:2000042948", "xid-1", "全局", ""}[r.Intn(4)]
	branch := []uint64{0, 1, 2000042936, math.MaxInt64, 9007199254740993}[r.Intn(5)]
	return xid, branch, before, after
}

func (o *Out) runValid(cfg Cfg, xid string, branch uint64, before, after []*types.RecordImage, exp *undo.BranchUndoLog) {
	o.runValidHook(cfg, xid, branch, before, after, exp, nil)
}

// onExec runs inside the driver's Exec of the undo_log INSERT, before the driver consumes its arguments
func (o *Out) runValidHook(cfg Cfg, xid string, branch uint64, before, after []*types.RecordImage, exp *undo.BranchUndoLog, onExec func()) {
	setCfg(cfg)
	c := Case{Stream: "valid", InModel: true, Cfg: cfg, Log: canonLog(exp), Features: features(cfg, exp), Dec: "-"}
	known := cfg.Ser == "json" || cfg.Ser == "protobuf"
	if known && cfg.Enable && cfg.CType == "Lz4" {
		c.Expect = lz4Expect(cfg.Ser, exp)
	}
	cls, det, ctx, info, alias := flushReal(xid, branch, before, after, onExec)
	if onExec != nil {
		setCfg(cfg)
	}
	// the previous flush's bytes must have survived this one
	if held.alias != nil && !bytes.Equal(held.alias, held.copy) && held.idx < len(o.Cases) && o.Cases[held.idx].Oracle == "" {
		o.Cases[held.idx].Oracle = "the rollback_info bytes this flush handed to the driver were overwritten by a later FlushUndoLog (the returned slice aliases reused memory)"
	}
	held.alias = nil
	c.Flush, c.FlushErr = cls, trim(det)
	c.Ctx, c.Info = hex.EncodeToString(ctx), hex.EncodeToString(info)
	observed := ""
	switch cls {
	case hutil.OutPanic, hutil.OutDiverged:
		c.Oracle = "FlushUndoLog " + cls + ": " + trim(det)
		observed = cls
	case hutil.OutErr:
		if known {
			c.Oracle = "FlushUndoLog failed on a supported log: " + trim(det)
		}
		observed = "refused"
	case "noinsert":
		c.InModel = false
	case hutil.OutOK:
		held.alias, held.copy, held.idx = alias, append([]byte{}, alias...), len(o.Cases)
		if len(info) < 1<<16 {
			c.Trees = decompressAll(info)
			o.hypothesis(info)
		} else {
			c.InModel = false
		}
		dcls, ddet, dl, dep := decodeAcross(ctx, info)
		c.Dec, c.DecErr, c.ReaderDep = dcls, trim(ddet), dep
		if dcls == hutil.OutOK {
			c.DecLog = canonLog(dl)
			c.Oracle = logEq(exp, dl)
			observed = "ok"
		} else {
			c.Oracle = "the log written by FlushUndoLog does not read back (" + dcls + "): " + trim(ddet)
			observed = "undecodable"
		}
	}
	if c.Expect != "" && observed != "" && observed != c.Expect {
		c.RegionViolation = fmt.Sprintf("compress type Lz4: the Lz4 compressor's own behaviour on this log is %q (finding C08-lz4), FlushUndoLog/read-back showed %q: %s %s",
			c.Expect, observed, c.FlushErr, c.DecErr)
	}
	if len(c.Info) > 1<<17 { // keep the output small: big payloads are reproducible from the seed
		c.Info = c.Info[:1<<17]
	}
	o.Cases = append(o.Cases, c)
}

// two branches flushing at the same time: B's FlushUndoLog runs while A's INSERT has been issued but the
// driver has not consumed A's arguments yet. A must still store A's log.
func (o *Out) interleavedCase(r *hutil.Rng, i int, em []emit) {
	cfg := Cfg{Ser: "json", Enable: i%3 != 0, CType: []string{"None", "zip", "", "Gzip", "Sevenz", "Zstd"}[i%6], Threshold: "64k"}
	if i%7 == 6 {
		cfg.Ser = "protobuf"
	}
	xa, ba, befa, afta := genLog(r.Fork(1), i, em, false)
	xb, bb, befb, aftb := genLog(r.Fork(2), i+1, em, false)
	expA, expB := expectedLog(xa, ba, befa, afta), expectedLog(xb+"-b", bb/2+1, befb, aftb)
	n := len(o.Cases)
	o.runValidHook(cfg, xa, ba, befa, afta, expA, func() {
		o.runValid(cfg, xb+"-b", bb/2+1, befb, aftb, expB)
	})
	for k := n; k < len(o.Cases); k++ {
		o.Cases[k].What = "interleaved: the second log is flushed while the first INSERT is in the driver"
	}
}

// ---------------------------------------------------------------- malformed stream
var jdbcCodes = []int{-7, -6, 5, 4, -5, 6, 7, 8, 2, 3, 1, 12, -1, 91, 92, 93, -2, -3, -4, 0, 1111, 2000, 2001, 2002, 2003, 2004, 2005, 2006,
	70, 16, -8, -15, -9, -16, 2011, 2009, 2012, 2013, 2014, 9999, -32768, 32767}

func rawNum(s string) json.Number { return json.Number(s) }

var badValues = []interface{}{
	"dGVzdA==", "test", "te st", "YQ=\n=", "YQ==YQ==", "=", "", "A", "AA", "AAA", "AAA=", "AA=A",
	"2024-02-29T23:59:58.12+05:30", "2024-02-30T00:00:00Z", "2023-02-29T00:00:00Z", "2024-02-29T23:59:58Z", "2024-02-29T24:00:00Z",
	"2024-02-29T23:59:60Z", "2024-02-29 23:59:58Z", "2024-02-29T23:59:58", "2024-02-29T23:59:58.Z", "2024-02-29T23:59:58.123456789-08:00",
	"0001-01-01T00:00:00Z", "2024-13-01T00:00:00Z", "2024-02-29T23:59:58+24:00", "2024-02-29T23:59:58+05:60", "2024-02-29T23:59:58+05:61", "2024-02-29T23:59:58z",
	rawNum("0"), rawNum("-0"), rawNum("1e2"), rawNum("1.0"), rawNum("1.5"), rawNum("9007199254740993"), rawNum("99999999999999999999"),
	rawNum("1e400"), rawNum("-1e400"), rawNum("127"), rawNum("128"), rawNum("-129"), rawNum("32768"), rawNum("2147483648"), rawNum("-9223372036854775808"),
	rawNum("9223372036854775808"), rawNum("1E-7"), rawNum("0.1"),
	true, false, []interface{}{rawNum("1")}, map[string]interface{}{"a": rawNum("1")}, nil,
}

func (o *Out) malformedCase(r *hutil.Rng, i int) {
	// a small valid document to start from
	col := map[string]interface{}{"keyType": "NULL", "name": "c", "type": rawNum(strconv.Itoa(jdbcCodes[i%len(jdbcCodes)])), "value": badValues[(i/len(jdbcCodes)+r.Intn(len(badValues)))%len(badValues)]}
	feat := []string{}
	switch r.Intn(14) {
	case 0:
		col["keyType"] = []interface{}{rawNum("5"), nil, "x", "PRIMARY_KEY", true}[r.Intn(5)]
	case 1:
		delete(col, "keyType")
	case 2:
		col["name"] = []interface{}{rawNum("5"), nil, []interface{}{}}[r.Intn(3)]
	case 3:
		delete(col, "name")
	case 4:
		col["type"] = []interface{}{"12", rawNum("1.5"), rawNum("70000"), rawNum("-40000"), nil, rawNum("1e1"), rawNum("-0"), true, rawNum("99999999999999999999")}[r.Intn(9)]
	case 5:
		delete(col, "type")
	case 6:
		delete(col, "value")
	case 7:
		col["extra"] = "ignored"
	}
	var colv interface{} = col
	if r.Chance(1, 25) {
		colv = []interface{}{nil, rawNum("5"), "x", []interface{}{}, map[string]interface{}{}, true}[r.Intn(6)]
	}
	doc := map[string]interface{}{"xid": "x", "branchId": rawNum("7"), "sqlUndoLogs": []interface{}{
		map[string]interface{}{"sqlType": "UPDATE", "tableName": "t", "afterImage": nil, "beforeImage": map[string]interface{}{
			"tableName": "t", "sqlType": "UPDATE", "rows": []interface{}{map[string]interface{}{"fields": []interface{}{colv}}}}}}}
	plain, err := json.Marshal(doc)
	if err != nil {
		return
	}
	ctype := []string{"None", "None", "Gzip", "Zstd", "Lz4", "zip", "Deflate", "Bzip2", "Zip"}[r.Intn(9)]
	info := plain
	if r.Chance(3, 4) {
		if y, err := compressor.CompressorType(ctype).GetCompressor().Compress(plain); err == nil {
			info = y
		}
	} else if ctype != "None" {
		feat = append(feat, "declared-but-not-compressed")
	}
	ctx := "serializerKey=json&compressorTypeKey=" + ctype
	inmodel := true
	switch r.Intn(16) {
	case 0:
		ctx = "serializerKey=json"
		info = plain
	case 1:
		ctx = "compressorTypeKey=" + ctype
	case 2:
		ctx = "serializerKey=xml&compressorTypeKey=" + ctype
	case 3:
		ctx = "serializerKey=json&compressorTypeKey=Gzip&compressorTypeKey=" + ctype
	case 4:
		ctx = "serializerKey=json&&junk&compressorTypeKey=" + ctype + "&"
	case 5:
		ctx = "serializerKey=json=x&compressorTypeKey=" + ctype
	case 6:
		ctx = []string{"", "&", "=", "=&=", "serializerKey", "serializerKey="}[r.Intn(6)]
	case 7:
		ctx = "compressorTypeKey=" + ctype + "&serializerKey=json"
	}
	o.runStored("malformed", inmodel, feat, []byte(ctx), info)
}

func (o *Out) runStored(stream string, inmodel bool, feat []string, ctx, info []byte) {
	c := Case{Stream: stream, InModel: inmodel, Features: feat, Flush: "-", Ctx: hex.EncodeToString(ctx), Info: hex.EncodeToString(info)}
	if inmodel {
		c.Trees = decompressAll(info)
	}
	cls, det, l, dep := decodeAcross(ctx, info)
	c.Dec, c.DecErr, c.ReaderDep = cls, trim(det), dep
	if cls == hutil.OutOK {
		c.DecLog = canonLog(l)
	}
	if cls == hutil.OutPanic || cls == hutil.OutDiverged {
		c.Oracle = "decoding the stored undo log " + cls + ": " + trim(det)
	}
	o.Cases = append(o.Cases, c)
}

func (o *Out) garbageCase(r *hutil.Rng, i int, seedDoc []byte) {
	var info []byte
	switch r.Intn(6) {
	case 0:
		info = r.Bytes(r.Intn(40))
	case 1:
		info = seedDoc[:r.Intn(len(seedDoc)+1)]
	case 2:
		y, _ := compressor.CompressorType(kinds[1+r.Intn(6)]).GetCompressor().Compress(seedDoc)
		if len(y) > 0 {
			info = y[:r.Intn(len(y))]
		}
	case 3:
		info = []byte([]string{"null", "[]", "5", `"x"`, "{}", `{"sqlUndoLogs":5}`, `{"sqlUndoLogs":[null]}`, `{"sqlUndoLogs":[{"beforeImage":{"rows":[null]}}]}`,
			`{"sqlUndoLogs":[{"beforeImage":{"rows":[{"fields":[null]}]}}]}`, `{"sqlUndoLogs":[{"beforeImage":{"rows":[{"fields":[{"keyType":"NULL","name":"a","type":12,"type":7,"value":1.5}]}]}}]}`,
			`{"branchId":-1}`, `{"xid":5}`, ``}[r.Intn(13)])
	case 4:
		info = append([]byte{}, seedDoc...)
		if len(info) > 0 {
			info[r.Intn(len(info))] ^= byte(1 << uint(r.Intn(8)))
		}
	default:
		info = nil
	}
	ser := []string{"json", "protobuf", "json", "", "xml"}[r.Intn(5)]
	ctx := "serializerKey=" + ser + "&compressorTypeKey=" + ctypes[r.Intn(len(ctypes))]
	if r.Chance(1, 6) {
		ctx = string(r.Bytes(r.Intn(30)))
	}
	o.runStored("garbage", false, nil, []byte(ctx), info)
}

// ---------------------------------------------------------------- entry points
func Run(args map[string]string) {
	seed := hutil.ArgU64(args, "seed", 1)
	n := hutil.ArgInt(args, "n", 200)
	nm := hutil.ArgInt(args, "malformed", 200)
	ng := hutil.ArgInt(args, "garbage", 100)
	ne := hutil.ArgInt(args, "e2e", 0)
	ni := hutil.ArgInt(args, "interleaved", 0)
	r := hutil.NewRng(seed)
	o := &Out{Cases: []Case{}, HypFail: []string{}, SQLTypes: map[string]int{}}
	em := emits()
	seen := map[string]bool{}
	for _, e := range em {
		k := fmt.Sprintf("%d/%s", e.jdbc, e.kind)
		if !seen[k] {
			seen[k] = true
			o.EmitPairs = append(o.EmitPairs, [2]interface{}{int(e.jdbc), e.kind})
		}
	}
	for _, st := range sqlTypes {
		b, _ := st.MarshalText()
		o.SQLTypes[string(b)] = int(st)
	}
	o.knownProtobuf()
	o.knownLz4(r.Fork(7))
	// every emitted (type, kind) x every boundary value at least once: a deterministic sweep first
	o.sweep(r.Fork(1), em)
	for i := 0; i < n; i++ {
		o.validCase(r.Fork(uint64(1000+i)), i, em)
	}
	for i := 0; i < ni; i++ {
		o.interleavedCase(r.Fork(uint64(3000000+i)), i, em)
	}
	for i := 0; i < nm; i++ {
		o.malformedCase(r.Fork(uint64(500000+i)), i+int(seed)*7)
	}
	seedDoc := []byte(`{"xid":"x","branchId":7,"sqlUndoLogs":[{"sqlType":"UPDATE","tableName":"t","beforeImage":{"tableName":"t","sqlType":"UPDATE","rows":[{"fields":[{"keyType":"PRIMARY_KEY","name":"id","type":-5,"value":1}]}]},"afterImage":null}]}`)
	for i := 0; i < ng; i++ {
		o.garbageCase(r.Fork(uint64(900000+i)), i, seedDoc)
	}
	for i := 0; i < ne; i++ {
		o.e2eCase(r.Fork(uint64(2000000+i)), i, i+int(seed)*5)
	}
	o.hypothesis([]byte{})
	big := r.Bytes(200000)
	o.hypothesis(big)
	o.hypothesis(bytes.Repeat([]byte("undo log "), 30000))
	sort.Strings(o.HypFail)
	hutil.WriteJSON(args["out"], o)
}

// one single-column log per (emitted type, boundary value), rotating the configuration
func (o *Out) sweep(r *hutil.Rng, em []emit) {
	i := 0
	one := func(e emit, v interface{}) {
		cfg := Cfg{Ser: "json", Enable: i%5 != 0, CType: ctypes[i%len(ctypes)], Threshold: thresholds[i%len(thresholds)]}
		if i%6 == 5 {
			cfg.Ser = "protobuf"
		}
		i++
		key := types.ColumnImage{KeyType: types.IndexTypePrimaryKey, ColumnName: "id", ColumnType: types.JDBCTypeBigInt, Value: int64(i)}
		colB := types.ColumnImage{KeyType: types.IndexTypeNull, ColumnName: "c_" + e.dataType, ColumnType: e.jdbc, Value: v}
		b := &types.RecordImage{TableName: "t_sweep", SQLType: types.SQLTypeUpdate, Rows: []types.RowImage{{Columns: []types.ColumnImage{key, colB}}}}
		a := &types.RecordImage{TableName: "t_sweep", SQLType: types.SQLTypeUpdate, Rows: []types.RowImage{{Columns: []types.ColumnImage{key, {KeyType: types.IndexTypeNull, ColumnName: "c_" + e.dataType, ColumnType: e.jdbc, Value: nil}}}}}
		before, after := []*types.RecordImage{b}, []*types.RecordImage{a}
		o.runValid(cfg, "sweep", uint64(i), before, after, expectedLog("sweep", uint64(i), before, after))
	}
	// rotate which slice of the boundary lists this run sweeps, so that quick stays small
	for ei, e := range em {
		switch e.kind {
		case "i":
			for k := 0; k < 6; k++ {
				one(e, intBounds[(ei*5+k+int(r.Next()%uint64(len(intBounds))))%len(intBounds)])
			}
		case "f":
			for k := 0; k < 6; k++ {
				one(e, floatBounds[(ei*5+k+int(r.Next()%uint64(len(floatBounds))))%len(floatBounds)])
			}
		case "s":
			for k := 0; k < 8; k++ {
				one(e, stringBounds[(ei*5+k+int(r.Next()%uint64(len(stringBounds))))%len(stringBounds)])
			}
		case "b":
			for k := 0; k < 4; k++ {
				one(e, genBytes(r))
			}
			one(e, sql.RawBytes("test"))
		case "t":
			for k := 0; k < 4; k++ {
				one(e, genTime(r))
			}
		}
	}
}

// the inputs of finding C08-lz4: a small log and a log dominated by 100 kB of high-entropy bytes (both refused by
// Lz4.Compress), and a 300 kB blank-padded text (compressed beyond the 100x cap of Lz4.Decompress)
func (o *Out) knownLz4(r *hutil.Rng) {
	big := make([]byte, 100000)
	for k := range big {
		big[k] = byte(r.Next())
	}
	for k, v := range []interface{}{int64(7), big, strings.Repeat(" ", 300000)} {
		key := types.ColumnImage{KeyType: types.IndexTypePrimaryKey, ColumnName: "id", ColumnType: types.JDBCTypeBigInt, Value: int64(k + 1)}
		col := types.ColumnImage{ColumnName: "payload", ColumnType: []types.JDBCType{types.JDBCTypeInteger, types.JDBCTypeLongVarBinary, types.JDBCTypeLongVarchar}[k], Value: v}
		b := &types.RecordImage{TableName: "t_lz4", SQLType: types.SQLTypeDelete, Rows: []types.RowImage{{Columns: []types.ColumnImage{key, col}}}}
		a := &types.RecordImage{TableName: "t_lz4", SQLType: types.SQLTypeDelete, Rows: []types.RowImage{}}
		before, after := []*types.RecordImage{b}, []*types.RecordImage{a}
		cfg := Cfg{Ser: "json", Enable: true, CType: "Lz4", Threshold: "64k"}
		o.runValid(cfg, "lz4", uint64(k+1), before, after, expectedLog("lz4", uint64(k+1), before, after))
		o.Cases[len(o.Cases)-1].What = "C08-lz4"
	}
}

// the committed input of finding C08-protobuf: integer beyond 2^53, binary and time values under the
// protobuf serializer (replays/known/C08-protobuf.json describes the same log)
func (o *Out) knownProtobuf() {
	key := types.ColumnImage{KeyType: types.IndexTypePrimaryKey, ColumnName: "id", ColumnType: types.JDBCTypeBigInt, Value: int64(9007199254740993)}
	bin := types.ColumnImage{ColumnName: "data", ColumnType: types.JDBCTypeVarBinary, Value: []byte{0, 1, 2, 0xff}}
	at := types.ColumnImage{ColumnName: "at", ColumnType: types.JDBCTypeTimestamp, Value: time.Date(2024, 2, 29, 23, 59, 58, 120000000, time.UTC)}
	b := &types.RecordImage{TableName: "t_known", SQLType: types.SQLTypeDelete, Rows: []types.RowImage{{Columns: []types.ColumnImage{key, bin, at}}}}
	a := &types.RecordImage{TableName: "t_known", SQLType: types.SQLTypeDelete, Rows: []types.RowImage{}}
	before, after := []*types.RecordImage{b}, []*types.RecordImage{a}
	cfg := Cfg{Ser: "protobuf", Enable: false, CType: "None", Threshold: "64k"}
	o.runValid(cfg, "known", 1, before, after, expectedLog("known", 1, before, after))
	o.Cases[len(o.Cases)-1].What = "C08-protobuf"
}
