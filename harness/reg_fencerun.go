package main

import "verifh/fencerun"

func init() { subcommands["fence"] = fencerun.Run }
