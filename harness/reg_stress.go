package main

import "verifh/stress"

func init() { subcommands["stress"] = stress.Run }
