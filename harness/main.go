package main

import (
	"encoding/json"
	"fmt"
	"os"
	"strconv"
)

// verifh <subcommand> key=value ...   ; results go to the file named by out=
func main() {
	if len(os.Args) < 2 {
		fmt.Fprintln(os.Stderr, "usage: verifh <sub> k=v ...")
		os.Exit(2)
	}
	args := map[string]string{}
	for _, a := range os.Args[2:] {
		for i := 0; i < len(a); i++ {
			if a[i] == '=' {
				args[a[:i]] = a[i+1:]
				break
			}
		}
	}
	sub, ok := subcommands[os.Args[1]]
	if !ok {
		fmt.Fprintln(os.Stderr, "unknown subcommand", os.Args[1])
		os.Exit(2)
	}
	sub(args)
}

var subcommands = map[string]func(map[string]string){}

func argInt(a map[string]string, k string, def int) int {
	if v, ok := a[k]; ok {
		n, err := strconv.Atoi(v)
		if err == nil {
			return n
		}
	}
	return def
}

func argU64(a map[string]string, k string, def uint64) uint64 {
	if v, ok := a[k]; ok {
		n, err := strconv.ParseUint(v, 10, 64)
		if err == nil {
			return n
		}
	}
	return def
}

func writeJSON(path string, v interface{}) {
	b, err := json.Marshal(v)
	if err != nil {
		fmt.Fprintln(os.Stderr, "marshal:", err)
		os.Exit(2)
	}
	if err := os.WriteFile(path, b, 0o644); err != nil {
		fmt.Fprintln(os.Stderr, "write:", err)
		os.Exit(2)
	}
}
