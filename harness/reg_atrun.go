package main

import "verifh/atrun"

func init() { subcommands["atrun"] = atrun.Main }
