package main

import "verifh/stmtrun"

func init() { subcommands["stmtx"] = stmtrun.Run; subcommands["txx"] = stmtrun.RunTx }
