package main

import "verifh/atroll"

func init() { subcommands["atroll"] = atroll.Run }
