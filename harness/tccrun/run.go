package tccrun

import (
	"context"
	"encoding/hex"
	"encoding/json"
	"errors"
	"fmt"
	"reflect"
	"sync"
	"time"

	"github.com/agiledragon/gomonkey/v2"

	"seata.apache.org/seata-go/pkg/client"
	"seata.apache.org/seata-go/pkg/protocol/branch"
	"seata.apache.org/seata-go/pkg/protocol/message"
	"seata.apache.org/seata-go/pkg/remoting/getty"
	"seata.apache.org/seata-go/pkg/rm/tcc"
	"seata.apache.org/seata-go/pkg/tm"
	serrors "seata.apache.org/seata-go/pkg/util/errors"

	"verifh/hutil"
)

// Event is one observable step, in order of occurrence.
//
//	kind = register | try | invoke | respond
type Event struct {
	Kind     string `json:"kind"`
	Action   string `json:"action,omitempty"` // try/invoke: which registered service ran
	Method   string `json:"method,omitempty"` // invoke: commit | rollback
	Xid      string `json:"xid,omitempty"`
	Branch   int64  `json:"branch"`
	Resource string `json:"resource,omitempty"` // register: resource id; invoke: ActionName of the context
	BType    int    `json:"btype,omitempty"`
	LockKey  string `json:"lock_key,omitempty"`
	Data     *Val   `json:"data,omitempty"`      // register: decoded application data; invoke: the action context
	DataRaw  string `json:"data_raw,omitempty"`  // register: application data bytes (hex)
	MsgID    int32  `json:"msg_id,omitempty"`    // respond
	Status   int    `json:"status,omitempty"`    // respond: branch status
	Code     int    `json:"code,omitempty"`      // respond: result code
	RespKind string `json:"resp_kind,omitempty"` // respond: commit | rollback
	Phase    int    `json:"phase,omitempty"`     // try/invoke: fence phase in the context
}

var (
	mu        sync.Mutex
	events    []Event
	regMode   string // ok | failcode | failcode-errcode | error | nil-reply | wrong-type | wrong-type-failed | pointer-reply
	nextBID   int64
	failUser  bool
	userBool  bool
	patchOnce sync.Once
	proxies   []*tcc.TCCServiceProxy
	names     = []string{"actAlpha", "actBeta", "actTagged"}
)

func record(e Event) {
	mu.Lock()
	events = append(events, e)
	mu.Unlock()
}

// ---- user services ------------------------------------------------------------
type svc struct{ name string }

func ifaceVal(m map[string]interface{}) *Val {
	v := describe(reflect.ValueOf(m))
	return &v
}

func (s *svc) Prepare(ctx context.Context, params interface{}) (bool, error) {
	e := Event{Kind: "try", Action: s.name, Phase: int(tm.GetFencePhase(ctx))}
	if bac := tm.GetBusinessActionContext(ctx); bac != nil {
		e.Branch, e.Xid, e.Resource = bac.BranchId, bac.Xid, bac.ActionName
	}
	record(e)
	return true, nil
}

func phase2(name, method string, ctx context.Context, bac *tm.BusinessActionContext) (bool, error) {
	e := Event{Kind: "invoke", Action: name, Method: method, Phase: int(tm.GetFencePhase(ctx))}
	if bac != nil {
		e.Xid, e.Branch, e.Resource, e.Data = bac.Xid, bac.BranchId, bac.ActionName, ifaceVal(bac.ActionContext)
	}
	record(e)
	mu.Lock()
	f, b := failUser, userBool
	mu.Unlock()
	// every combination of the two results: the status must depend on the error only
	if f {
		return b, errors.New("user " + method + " failed")
	}
	return b, nil
}

func (s *svc) Commit(ctx context.Context, bac *tm.BusinessActionContext) (bool, error) {
	return phase2(s.name, "commit", ctx, bac)
}
func (s *svc) Rollback(ctx context.Context, bac *tm.BusinessActionContext) (bool, error) {
	return phase2(s.name, "rollback", ctx, bac)
}
func (s *svc) GetActionName() string { return s.name }

// a service declared through struct tags instead of TwoPhaseInterface
type taggedSvc struct {
	Try     func(ctx context.Context, params interface{}) (bool, error)            `seataTwoPhaseAction:"prepare" seataTwoPhaseServiceName:"actTagged"`
	Confirm func(ctx context.Context, bac *tm.BusinessActionContext) (bool, error) `seataTwoPhaseAction:"commit"`
	Cancel  func(ctx context.Context, bac *tm.BusinessActionContext) (bool, error) `seataTwoPhaseAction:"rollback"`
}

// ---- remoting recorders ---------------------------------------------------------
func decodeData(b []byte) *Val {
	if len(b) == 0 {
		return nil
	}
	var x interface{}
	if err := json.Unmarshal(b, &x); err != nil {
		return &Val{T: "unsupported"}
	}
	v := describe(reflect.ValueOf(x))
	return &v
}

func setup(repo string) error {
	var err error
	patchOnce.Do(func() {
		cl := getty.GetGettyRemotingClient()
		gomonkey.ApplyMethod(reflect.TypeOf(cl), "SendSyncRequest", func(_ *getty.GettyRemotingClient, msg interface{}) (interface{}, error) {
			switch m := msg.(type) {
			case message.RegisterRMRequest:
				return message.RegisterRMResponse{AbstractIdentifyResponse: message.AbstractIdentifyResponse{
					AbstractResultMessage: message.AbstractResultMessage{ResultCode: message.ResultCodeSuccess}, Identified: true}}, nil
			case message.BranchRegisterRequest:
				record(Event{Kind: "register", Xid: m.Xid, Resource: m.ResourceId, BType: int(m.BranchType), LockKey: m.LockKey,
					Data: decodeData(m.ApplicationData), DataRaw: hex.EncodeToString(m.ApplicationData)})
				mu.Lock()
				mode := regMode
				nextBID++
				bid := nextBID
				mu.Unlock()
				switch mode {
				case "failcode":
					return message.BranchRegisterResponse{AbstractTransactionResponse: message.AbstractTransactionResponse{
						AbstractResultMessage: message.AbstractResultMessage{ResultCode: message.ResultCodeFailed, Msg: "refused"}}}, nil
				case "failcode-errcode":
					return message.BranchRegisterResponse{AbstractTransactionResponse: message.AbstractTransactionResponse{
						AbstractResultMessage: message.AbstractResultMessage{ResultCode: message.ResultCodeFailed, Msg: "refused"},
						TransactionErrorCode:  serrors.TransactionErrorCodeGlobalTransactionNotExist}}, nil
				case "error":
					return message.BranchRegisterResponse{}, errors.New("tc unreachable")
				// malformed replies: the call returns without an error, but not with a BranchRegisterResponse value
				case "nil-reply":
					return nil, nil
				case "wrong-type":
					return message.BranchReportResponse{AbstractTransactionResponse: message.AbstractTransactionResponse{
						AbstractResultMessage: message.AbstractResultMessage{ResultCode: message.ResultCodeSuccess}}}, nil
				case "wrong-type-failed":
					return message.GlobalBeginResponse{AbstractTransactionResponse: message.AbstractTransactionResponse{
						AbstractResultMessage: message.AbstractResultMessage{ResultCode: message.ResultCodeFailed, Msg: "refused"}}}, nil
				case "pointer-reply":
					return &message.BranchRegisterResponse{AbstractTransactionResponse: message.AbstractTransactionResponse{
						AbstractResultMessage: message.AbstractResultMessage{ResultCode: message.ResultCodeSuccess}}, BranchId: bid}, nil
				}
				return message.BranchRegisterResponse{AbstractTransactionResponse: message.AbstractTransactionResponse{
					AbstractResultMessage: message.AbstractResultMessage{ResultCode: message.ResultCodeSuccess}}, BranchId: bid}, nil
			}
			return nil, fmt.Errorf("verif: unexpected sync request %T", msg)
		})
		gomonkey.ApplyMethod(reflect.TypeOf(cl), "SendAsyncResponse", func(_ *getty.GettyRemotingClient, id int32, msg interface{}) error {
			switch m := msg.(type) {
			case message.BranchCommitResponse:
				record(Event{Kind: "respond", RespKind: "commit", MsgID: id, Xid: m.Xid, Branch: m.BranchId, Status: int(m.BranchStatus), Code: int(m.ResultCode)})
			case message.BranchRollbackResponse:
				record(Event{Kind: "respond", RespKind: "rollback", MsgID: id, Xid: m.Xid, Branch: m.BranchId, Status: int(m.BranchStatus), Code: int(m.ResultCode)})
			default:
				record(Event{Kind: "respond", RespKind: fmt.Sprintf("%T", msg), MsgID: id})
			}
			return nil
		})
		client.InitPath(repo + "/testdata/conf/seatago.yml")
		for i, n := range names {
			var p *tcc.TCCServiceProxy
			if i == 2 {
				s := &svc{name: n}
				p, err = tcc.NewTCCServiceProxy(&taggedSvc{Try: s.Prepare, Confirm: s.Commit, Cancel: s.Rollback})
			} else {
				p, err = tcc.NewTCCServiceProxy(&svc{name: n})
			}
			if err != nil {
				return
			}
			proxies = append(proxies, p)
		}
	})
	return err
}

// ---- cases ----------------------------------------------------------------------
type PrepareCase struct {
	Action   int     `json:"action"`
	InGtx    bool    `json:"in_gtx"`
	Xid      string  `json:"xid"`
	RegMode  string  `json:"reg_mode"`
	Shape    string  `json:"shape"`
	IsStruct bool    `json:"is_struct"`
	Fields   []Field `json:"fields"`
	BID      int64   `json:"bid"` // branch id the stub hands out
	Events   []Event `json:"events"`
	Outcome  string  `json:"outcome"` // ok | err | panic | diverged
	Detail   string  `json:"detail,omitempty"`
	Oracle   string  `json:"oracle"`
	Volatile bool    `json:"volatile_ok"` // action-start-time / host-name present and well-typed
	Seq      int     `json:"seq"`         // prepares with the same seq share ONE seata context (one global transaction)
	Pos      int     `json:"pos"`         // position in that sequence
	// same-named parameter types (reflect.Type.String() equal, types distinct) prepared earlier in this process
	Before []string `json:"before,omitempty"`
}

type Phase2Case struct {
	Method    string  `json:"method"` // commit | rollback
	Resource  string  `json:"resource"`
	Known     bool    `json:"known"`
	Xid       string  `json:"xid"`
	Branch    int64   `json:"branch"`
	MsgID     int32   `json:"msg_id"`
	AppKind   string  `json:"app_kind"`           // captured | empty | noctx | malformed
	AppData   string  `json:"app_data"`           // hex of the bytes sent
	Captured  []Field `json:"captured,omitempty"` // the parameter fields of the prepare whose data is replayed
	CapAction string  `json:"cap_action,omitempty"`
	UserFails bool    `json:"user_fails"`
	UserBool  bool    `json:"user_bool"` // the bool the user method returns next to its error
	BType     int     `json:"btype"`
	Events    []Event `json:"events"`
	Outcome   string  `json:"outcome"`
	Detail    string  `json:"detail,omitempty"`
	Oracle    string  `json:"oracle"`
}

func take() []Event {
	mu.Lock()
	defer mu.Unlock()
	e := events
	events = nil
	return e
}

// newTxContext: the context of one (possibly absent) global transaction; a business method calls the
// Prepare of one or several TCC actions - or of the same action several times - with it
func newTxContext(inGtx bool, xid string) context.Context {
	ctx := tm.InitSeataContext(context.Background())
	if inGtx {
		tm.SetXID(ctx, xid)
	}
	return ctx
}

func runPrepare(ctx context.Context, c *PrepareCase, param interface{}) {
	take()
	mu.Lock()
	regMode = c.RegMode
	c.BID = nextBID + 1
	mu.Unlock()
	c.Outcome, c.Detail = hutil.Guard(120*time.Second, func() error {
		_, err := proxies[c.Action].Prepare(ctx, param)
		return err
	})
	c.Events = take()
	c.Oracle = oraclePrepare(c)
}

func oraclePrepare(c *PrepareCase) string {
	if c.Outcome == hutil.OutPanic || c.Outcome == hutil.OutDiverged {
		return "prepare " + c.Outcome + ": " + c.Detail
	}
	nreg, ntry, regAt, tryAt := 0, 0, -1, -1
	for i, e := range c.Events {
		if e.Kind == "register" {
			nreg++
			regAt = i
		}
		if e.Kind == "try" {
			ntry++
			tryAt = i
		}
	}
	if !c.InGtx {
		if nreg != 0 || ntry != 1 {
			return fmt.Sprintf("outside a global transaction: %d registrations, %d try calls", nreg, ntry)
		}
		return ""
	}
	if nreg != 1 {
		return fmt.Sprintf("%d branch registrations for one prepare", nreg)
	}
	r := c.Events[regAt]
	if r.BType != int(branch.BranchTypeTCC) || r.Resource != names[c.Action] || r.Xid != c.Xid {
		return fmt.Sprintf("registration is not (TCC, %s, %s): got (%d, %s, %s)", names[c.Action], c.Xid, r.BType, r.Resource, r.Xid)
	}
	if c.RegMode != "ok" {
		if ntry != 0 {
			return "try ran although no registration was accepted (coordinator reply: " + c.RegMode + ")"
		}
		if c.Outcome != hutil.OutErr {
			return "prepare reported success although no registration was accepted (coordinator reply: " + c.RegMode + ")"
		}
		return ""
	}
	if ntry != 1 {
		return fmt.Sprintf("%d try calls", ntry)
	}
	if tryAt < regAt {
		return "try ran before the branch was registered"
	}
	if c.Events[tryAt].Branch != c.BID || c.Events[tryAt].Xid != c.Xid || c.Events[tryAt].Resource != names[c.Action] {
		return "try did not see the registered branch id / xid / action name in its business action context"
	}
	if c.Events[tryAt].Phase != 1 {
		return fmt.Sprintf("try ran with fence phase %d (want prepare)", c.Events[tryAt].Phase)
	}
	if r.LockKey != "" {
		return "tcc registration carries lock keys"
	}
	// application data = the tagged parameters (checked against the model in Coq; here: shape only)
	if r.Data == nil || r.Data.T != "map" {
		return "application data is not a JSON object"
	}
	return ""
}

func runPhase2(c *Phase2Case) {
	take()
	mu.Lock()
	failUser, userBool = c.UserFails, c.UserBool
	mu.Unlock()
	data, _ := hex.DecodeString(c.AppData)
	end := message.AbstractBranchEndRequest{Xid: c.Xid, BranchId: c.Branch, BranchType: branch.BranchType(c.BType),
		ResourceId: c.Resource, ApplicationData: data}
	var body interface{}
	if c.Method == "commit" {
		body = message.BranchCommitRequest{AbstractBranchEndRequest: end}
	} else {
		body = message.BranchRollbackRequest{AbstractBranchEndRequest: end}
	}
	c.Outcome, c.Detail = hutil.Guard(120*time.Second, func() error {
		getty.GetGettyClientHandlerInstance().OnMessage(nil, message.RpcMessage{ID: c.MsgID, Type: message.GettyRequestTypeRequestSync, Body: body})
		return nil
	})
	if len(c.Detail) > 300 {
		c.Detail = c.Detail[:300]
	}
	c.Events = take()
	c.Oracle = oraclePhase2(c)
}

func oraclePhase2(c *Phase2Case) string {
	var inv, resp []Event
	for _, e := range c.Events {
		switch e.Kind {
		case "invoke":
			inv = append(inv, e)
		case "respond":
			resp = append(resp, e)
		default:
			return "unexpected event " + e.Kind
		}
	}
	if !c.Known {
		if len(inv) != 0 {
			return "user code ran for an unknown resource"
		}
		return ""
	}
	if c.Outcome != hutil.OutOK {
		return "phase two " + c.Outcome + ": " + c.Detail
	}
	okStatus, retry := int(branch.BranchStatusPhasetwoCommitted), int(branch.BranchStatusPhasetwoCommitFailedRetryable)
	if c.Method == "rollback" {
		okStatus, retry = int(branch.BranchStatusPhasetwoRollbacked), int(branch.BranchStatusPhasetwoRollbackFailedRetryable)
	}
	if c.AppKind == "malformed" {
		// nothing valid was captured: the user method must not be run on a made-up context, and the
		// coordinator must be told that the branch is not finished
		if len(inv) != 0 {
			return "user code ran although the application data cannot be read"
		}
		if len(resp) != 1 {
			return fmt.Sprintf("%d responses for a request with malformed application data: no status reported", len(resp))
		}
		r := resp[0]
		if r.MsgID != c.MsgID || r.Xid != c.Xid || r.Branch != c.Branch || r.RespKind != c.Method {
			return "response does not echo the request's id / xid / branch / kind"
		}
		if r.Status != retry {
			return fmt.Sprintf("status %d reported for a request whose application data cannot be read (want retryable failure %d)", r.Status, retry)
		}
		return ""
	}
	if len(inv) != 1 {
		return fmt.Sprintf("%d invocations for one request", len(inv))
	}
	i := inv[0]
	if i.Action != c.Resource || i.Method != c.Method || i.Xid != c.Xid || i.Branch != c.Branch {
		return fmt.Sprintf("dispatched to %s.%s(%s,%d) for request %s.%s(%s,%d)", i.Action, i.Method, i.Xid, i.Branch, c.Resource, c.Method, c.Xid, c.Branch)
	}
	wantPhase := 2
	if c.Method == "rollback" {
		wantPhase = 3
	}
	if i.Phase != wantPhase {
		return fmt.Sprintf("user %s invoked with fence phase %d in its context (want %d)", c.Method, i.Phase, wantPhase)
	}
	if i.Resource != c.Resource {
		return "action context names another action than the request's resource"
	}
	if c.AppKind == "captured" {
		// the property's own statement: the context is JSON-equivalent to what was captured at prepare,
		// i.e. to what encoding/json reads back from the registered application data
		data, _ := hex.DecodeString(c.AppData)
		want := decodeData(data)
		var wantCtx *Val
		if want != nil && want.T == "map" {
			for j, k := range want.K {
				if k == hex.EncodeToString([]byte("actionContext")) {
					wantCtx = &want.L[j]
				}
			}
		}
		a, _ := json.Marshal(wantCtx)
		b, _ := json.Marshal(i.Data)
		if wantCtx == nil || string(a) != string(b) {
			return "the action context handed to the user's " + c.Method + " is not JSON-equivalent to the one registered at prepare"
		}
	}
	if len(resp) != 1 {
		return fmt.Sprintf("%d responses for one request (user failed = %v): no status reported", len(resp), c.UserFails)
	}
	r := resp[0]
	if r.MsgID != c.MsgID || r.Xid != c.Xid || r.Branch != c.Branch || r.RespKind != c.Method {
		return "response does not echo the request's id / xid / branch / kind"
	}
	if !c.UserFails && r.Status != okStatus {
		return fmt.Sprintf("user method returned (%v, nil) - no error - but status %d reported (want %d)", c.UserBool, r.Status, okStatus)
	}
	if c.UserFails && r.Status != retry {
		return fmt.Sprintf("user method failed but status %d reported (want retryable failure %d)", r.Status, retry)
	}
	return ""
}
