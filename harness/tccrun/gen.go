package tccrun

import (
	"encoding/hex"
	"encoding/json"
	"fmt"
	"math"
	"math/big"
	"os"
	"reflect"

	"seata.apache.org/seata-go/pkg/protocol/branch"
	"seata.apache.org/seata-go/pkg/tm"

	"verifh/hutil"
	pa "verifh/tccrun/pa/params"
	pb "verifh/tccrun/pb/params"
)

// two DIFFERENT function-local types, both printed "tccrun.Params" by reflect.Type.String()
func localParamsA(r *hutil.Rng) interface{} {
	type Params struct {
		From   string `tccParam:"from"`
		Amount int64  `tccParam:"amount"`
	}
	return Params{From: rStr(r), Amount: rInt(r)}
}

func localParamsB(r *hutil.Rng) interface{} {
	type Params struct {
		Flag   bool    `tccParam:"flag"`
		To     string  `tccParam:"to"`
		Amount float64 `tccParam:"amount"`
		Extra  []byte  `tccParam:"extra"`
	}
	return Params{Flag: r.Chance(1, 2), To: rStr(r), Amount: rFloat(r), Extra: rBytes(r)}
}

// the same-named families: shape -> constructor
var sameName = map[string]func(r *hutil.Rng) interface{}{
	"local-params-a": localParamsA,
	"local-params-b": localParamsB,
	"pkg-params-a": func(r *hutil.Rng) interface{} {
		return pa.Params{Account: rStr(r), Amount: rInt(r), Note: rStr(r)}
	},
	"pkg-params-b": func(r *hutil.Rng) interface{} {
		return &pb.Params{Urgent: r.Chance(1, 2), Memo: rStr(r), Ratio: rFloat(r), Amount: rInt(r)}
	},
}
var sameNameOrder = []string{"local-params-a", "local-params-b", "pkg-params-b", "pkg-params-a"}
var seenSameName []string

// ---- the fixed family of hand-declared parameter types --------------------------
type pTagged struct {
	A int     `tccParam:"a"`
	B string  `tccParam:"b"`
	C bool    `tccParam:"c"`
	D float64 `tccParam:"d"`
}

type pMixed struct {
	A      int64 `tccParam:"a"`
	Skip   string
	Dash   string `tccParam:"-"`
	Empty  string `tccParam:""`
	hidden int    `tccParam:"h"`
	Bs     []byte `tccParam:"bs"`
	U      uint64 `tccParam:"u"`
	Other  int    `json:"other" tccParam:"sys::x"`
}

type inner struct {
	X int
	Y string
	Z []int64
	w int
	F float64
}

type pNested struct {
	In inner            `tccParam:"in"`
	P  *inner           `tccParam:"p"`
	L  []string         `tccParam:"l"`
	M  map[string]int64 `tccParam:"m"`
	N  []inner          `tccParam:"n"`
}

type pEmbedCtx struct {
	tm.BusinessActionContext
	A int `tccParam:"a"`
}

type pPtrCtx struct {
	Ctx *tm.BusinessActionContext
	A   string `tccParam:"a"`
}

type pDup struct {
	A int    `tccParam:"k"`
	B string `tccParam:"k"`
	N string `tccParam:"actionName"`
	S int    `tccParam:"sys::commit"`
}

var ints = []int64{0, 1, -1, 42, 1 << 31, -(1 << 31), 1<<53 - 1, 1 << 53, 1<<53 + 1, -(1<<53 + 1), 1<<53 + 2, 1<<53 + 3,
	1<<54 + 2, 1<<54 + 6, math.MaxInt64, math.MinInt64, 1<<62 + 1, 123456789012345678, 9007199254740993, 4611686018427387905}
var floats = []float64{0, 1, -1, 0.5, 0.1, -2.75, 3, 1e300, 1e-300, 1.7976931348623157e308, 5e-324, 123456.789, 1 << 60, 0.30000000000000004}
var strs = []string{"", "a", "hello world", "quote\"back\\slash", "<tag>&amp;", "line\nbreak\ttab", "中文字符", "emoji 😀", " sep", "null", "{\"actionContext\":5}"}

func rInt(r *hutil.Rng) int64 {
	if r.Chance(1, 3) {
		return int64(r.Next())
	}
	return ints[r.Intn(len(ints))]
}
func rFloat(r *hutil.Rng) float64 {
	if r.Chance(1, 3) {
		f := math.Float64frombits(r.Next())
		if math.IsNaN(f) || math.IsInf(f, 0) {
			return 0.25
		}
		return f
	}
	return floats[r.Intn(len(floats))]
}
func rStr(r *hutil.Rng) string {
	if r.Chance(1, 3) {
		n := r.Intn(12)
		b := make([]byte, n)
		for i := range b {
			b[i] = byte(0x20 + r.Intn(0x5f))
		}
		return string(b)
	}
	return strs[r.Intn(len(strs))]
}
func rBytes(r *hutil.Rng) []byte {
	if r.Chance(1, 6) {
		return nil
	}
	n := r.Intn(9)
	b := make([]byte, n)
	for i := range b {
		b[i] = byte(r.Next())
	}
	return b
}
func rInner(r *hutil.Rng) inner {
	in := inner{X: int(rInt(r)), Y: rStr(r), w: 7, F: rFloat(r)}
	if r.Chance(2, 3) {
		in.Z = []int64{}
		for i := r.Intn(3); i > 0; i-- {
			in.Z = append(in.Z, rInt(r))
		}
	}
	return in
}

var tagPool = []string{"a", "b", "k", "actionName", "sys::commit", "-", "", "x y", "中", "k"}

func genStructOf(r *hutil.Rng) interface{} {
	n := 1 + r.Intn(5)
	var fs []reflect.StructField
	kinds := []reflect.Type{reflect.TypeOf(int64(0)), reflect.TypeOf(""), reflect.TypeOf(true), reflect.TypeOf(float64(0)),
		reflect.TypeOf([]byte(nil)), reflect.TypeOf([]int64(nil)), reflect.TypeOf(uint32(0)), reflect.TypeOf(map[string]string(nil))}
	for i := 0; i < n; i++ {
		f := reflect.StructField{Name: fmt.Sprintf("F%d", i), Type: kinds[r.Intn(len(kinds))]}
		if r.Chance(3, 4) {
			f.Tag = reflect.StructTag(fmt.Sprintf("tccParam:%q", tagPool[r.Intn(len(tagPool))]))
		}
		fs = append(fs, f)
	}
	v := reflect.New(reflect.StructOf(fs)).Elem()
	for i := 0; i < n; i++ {
		f := v.Field(i)
		switch f.Kind() {
		case reflect.Int64:
			f.SetInt(rInt(r))
		case reflect.String:
			f.SetString(rStr(r))
		case reflect.Bool:
			f.SetBool(r.Chance(1, 2))
		case reflect.Float64:
			f.SetFloat(rFloat(r))
		case reflect.Uint32:
			f.SetUint(uint64(uint32(r.Next())))
		case reflect.Map:
			if r.Chance(2, 3) {
				m := map[string]string{}
				for j := r.Intn(3); j > 0; j-- {
					m[rStr(r)] = rStr(r)
				}
				f.Set(reflect.ValueOf(m))
			}
		case reflect.Slice:
			if f.Type().Elem().Kind() == reflect.Uint8 {
				f.SetBytes(rBytes(r))
			} else if r.Chance(2, 3) {
				s := []int64{}
				for j := r.Intn(4); j > 0; j-- {
					s = append(s, rInt(r))
				}
				f.Set(reflect.ValueOf(s))
			}
		}
	}
	if r.Chance(1, 3) {
		return v.Addr().Interface()
	}
	return v.Interface()
}

func genParam(r *hutil.Rng) (string, interface{}) {
	switch r.Intn(18) {
	case 0:
		return "nil", nil
	case 1:
		return "tagged", pTagged{A: int(rInt(r)), B: rStr(r), C: r.Chance(1, 2), D: rFloat(r)}
	case 2:
		return "ptr-tagged", &pTagged{A: int(rInt(r)), B: rStr(r), C: r.Chance(1, 2), D: rFloat(r)}
	case 3:
		return "mixed", pMixed{A: rInt(r), Skip: rStr(r), Dash: rStr(r), Empty: rStr(r), hidden: 3, Bs: rBytes(r), U: r.Next(), Other: int(rInt(r))}
	case 4:
		p := pNested{In: rInner(r), L: []string{rStr(r), rStr(r)}}
		if r.Chance(1, 2) {
			x := rInner(r)
			p.P = &x
		}
		if r.Chance(1, 2) {
			p.M = map[string]int64{rStr(r): rInt(r), rStr(r): rInt(r), "z": 1}
		}
		if r.Chance(1, 2) {
			p.N = []inner{rInner(r)}
		}
		if r.Chance(1, 4) {
			p.L = nil
		}
		return "nested", p
	case 5:
		return "embed-ctx", pEmbedCtx{BusinessActionContext: tm.BusinessActionContext{ActionContext: map[string]interface{}{"pre": 1}}, A: int(rInt(r))}
	case 6:
		p := pPtrCtx{A: rStr(r)}
		if r.Chance(1, 2) {
			p.Ctx = &tm.BusinessActionContext{ActionContext: map[string]interface{}{"pre": "x"}}
		}
		return "ptr-ctx", p
	case 7:
		return "dup-tags", pDup{A: int(rInt(r)), B: rStr(r), N: rStr(r), S: int(rInt(r))}
	case 8:
		return "bac-value", tm.BusinessActionContext{}
	case 9:
		return "bac-ptr", &tm.BusinessActionContext{ActionContext: map[string]interface{}{"pre": true}}
	case 11:
		return "nil-ptr-struct", (*pTagged)(nil)
	case 12:
		x, y := 7, "s"
		return "ptr-non-struct", []interface{}{&x, &y}[r.Intn(2)]
	case 13, 14:
		s := sameNameOrder[r.Intn(len(sameNameOrder))]
		return s, sameName[s](r)
	case 10:
		return "non-struct", []interface{}{5, "str", 2.5, true}[r.Intn(4)]
	default:
		return "structof", genStructOf(r)
	}
}

type Output struct {
	Prepares []PrepareCase  `json:"prepares"`
	Phase2   []Phase2Case   `json:"phase2"`
	Names    []string       `json:"names"`
	Dist     map[string]int `json:"dist"`
	Setup    string         `json:"setup,omitempty"`
}

// every way a registration can fail to be accepted: failure result (with / without a transaction error code),
// transport error, and malformed replies (no error, but not a BranchRegisterResponse value)
var regFailures = []string{"failcode", "failcode-errcode", "error", "nil-reply", "wrong-type", "wrong-type-failed", "pointer-reply"}

var malformed = []string{"{not json", "{\"actionContext\":5}", "[1]", "{\"actionContext\":null}", "\"str\""}
var noctx = []string{"{}", "{\"other\":1}", "null", "{\"actionContext\":{}}"}

// Run: sub-command "tcc". n = prepare cases, each followed by phase-two requests.
func Run(args map[string]string) {
	seed := hutil.ArgU64(args, "seed", 1)
	n := hutil.ArgInt(args, "n", 200)
	repo := hutil.ArgStr(args, "repo", "/repo")
	out := Output{Names: names, Dist: map[string]int{}}
	if err := setup(repo); err != nil {
		out.Setup = err.Error()
		hutil.WriteJSON(args["out"], out)
		return
	}
	if replay := hutil.ArgStr(args, "replay", ""); replay != "" {
		// re-run one recorded case: a phase-two request is self-contained; a prepare is re-run after the
		// same-named parameter types seen before it in its process (Before) and after the earlier prepares of
		// its global transaction (prefix) on the same context; parameters are rebuilt from their described
		// fields (the real hand-declared type for the same-named families, reflect.StructOf otherwise)
		var rc struct {
			Kind   string            `json:"kind"`
			Case   json.RawMessage   `json:"case"`
			Prefix []json.RawMessage `json:"prefix"`
		}
		if b, err := os.ReadFile(replay); err == nil && json.Unmarshal(b, &rc) == nil {
			if rc.Kind == "q" {
				var q Phase2Case
				if json.Unmarshal(rc.Case, &q) == nil {
					q.Events, q.Oracle, q.Outcome, q.Detail = nil, "", "", ""
					runPhase2(&q)
					out.Phase2 = append(out.Phase2, q)
				}
			} else {
				var pcs []PrepareCase
				ok := true
				for _, raw := range append(rc.Prefix, rc.Case) {
					var pc PrepareCase
					if json.Unmarshal(raw, &pc) != nil {
						ok = false
					}
					pcs = append(pcs, pc)
				}
				if ok && len(pcs) > 0 {
					last := pcs[len(pcs)-1]
					wr := hutil.NewRng(seed)
					for _, shape := range last.Before {
						if mk, known := sameName[shape]; known {
							warm := PrepareCase{Action: 0, InGtx: true, Xid: "warm-up", RegMode: "ok", Shape: shape}
							runPrepare(newTxContext(true, "warm-up"), &warm, mk(wr))
						}
					}
					ctx := newTxContext(last.InGtx, last.Xid)
					for i := range pcs {
						pc := pcs[i]
						param, rebuilt := rebuildParam(&pc)
						if !rebuilt {
							out.Prepares = nil
							break
						}
						pc.Events, pc.Oracle, pc.Outcome, pc.Detail = nil, "", "", ""
						pc.Fields, pc.IsStruct = describeFields(param)
						runPrepare(ctx, &pc, param)
						out.Prepares = append(out.Prepares, pc)
					}
				}
			}
		}
		hutil.WriteJSON(args["out"], out)
		return
	}
	rng := hutil.NewRng(seed)
	seq := 0
	for i := 0; i < n; seq++ {
		rs := rng.Fork(uint64(seq) + 1<<32)
		// one (possibly absent) global transaction: ONE context, 1..4 prepares on it - the same action again
		// (one transfer debiting two accounts) or different actions interleaved
		seqLen := []int{1, 1, 2, 2, 3, 4}[rs.Intn(6)]
		inGtx := !rs.Chance(1, 10)
		xid := fmt.Sprintf("127.0.0.1:8091:%d", 1000+rs.Intn(100000))
		sameAction, action0 := rs.Chance(1, 2), rs.Intn(len(names))
		var forced []string
		if seq < 2 {
			// both same-named pairs are always prepared in one process, in this order (first wave of every run)
			seqLen, inGtx, sameAction = 2, true, seq == 0
			forced = sameNameOrder[2*seq : 2*seq+2]
		}
		ctx := newTxContext(inGtx, xid)
		for pos := 0; pos < seqLen; pos, i = pos+1, i+1 {
			r := rng.Fork(uint64(i))
			shape, param := genParam(r)
			if forced != nil {
				shape, param = forced[pos], sameName[forced[pos]](r)
			}
			pc := PrepareCase{Action: r.Intn(len(names)), InGtx: inGtx, Xid: xid, RegMode: "ok", Shape: shape, Seq: seq, Pos: pos}
			if sameAction {
				pc.Action = action0
			}
			if r.Chance(1, 4) && forced == nil {
				pc.RegMode = regFailures[r.Intn(len(regFailures))]
			}
			if _, ok := sameName[shape]; ok {
				pc.Before = append([]string{}, seenSameName...)
				seenSameName = append(seenSameName, shape)
			}
			pc.Fields, pc.IsStruct = describeFields(param)
			runPrepare(ctx, &pc, param)
			out.Prepares = append(out.Prepares, pc)
			out.Dist["prepare."+shape]++
			out.Dist["prepare.reg-"+pc.RegMode]++
			out.Dist[fmt.Sprintf("prepare.position-%d-in-its-transaction", pos)]++
			// phase two: replay what the coordinator would send for this branch, and variations
			var raw string
			for _, e := range pc.Events {
				if e.Kind == "register" {
					raw = e.DataRaw
				}
			}
			nreq := 1 + r.Intn(3)
			for j := 0; j < nreq; j++ {
				q := Phase2Case{Method: []string{"commit", "rollback"}[r.Intn(2)], Resource: names[pc.Action], Known: true, Xid: pc.Xid,
					Branch: pc.BID, MsgID: int32(r.Next()), AppKind: "captured", AppData: raw, Captured: pc.Fields, CapAction: names[pc.Action],
					UserFails: r.Chance(1, 4), UserBool: r.Chance(2, 3), BType: int(branch.BranchTypeTCC)}
				if raw == "" {
					q.AppKind = "empty"
				}
				switch r.Intn(10) {
				case 0:
					q.Resource, q.Known = []string{"nosuch", "", "actalpha", "actAlpha "}[r.Intn(4)], false
				case 1:
					q.AppKind, q.AppData, q.Captured = "empty", "", nil
				case 2:
					q.AppKind, q.AppData, q.Captured = "noctx", hex.EncodeToString([]byte(noctx[r.Intn(len(noctx))])), nil
				case 3:
					q.AppKind, q.AppData, q.Captured = "malformed", hex.EncodeToString([]byte(malformed[r.Intn(len(malformed))])), nil
				case 4:
					// another registered action receives this branch's data
					q.Resource = names[(pc.Action+1)%len(names)]
				}
				reps := 1
				if r.Chance(1, 5) {
					reps = 2 // the coordinator repeats the request
				}
				for k := 0; k < reps; k++ {
					qq := q
					runPhase2(&qq)
					out.Phase2 = append(out.Phase2, qq)
					out.Dist["phase2."+qq.AppKind]++
					if !qq.Known {
						out.Dist["phase2.unknown-resource"]++
					}
					out.Dist[fmt.Sprintf("phase2.user-returns-(%v,err=%v)", qq.UserBool, qq.UserFails)]++
				}
			}
		}
	}
	hutil.WriteJSON(args["out"], out)
}

// rebuildParam reconstructs a parameter from the described fields of a recorded prepare case
// (exported fields of kind int / float / string / bool / []byte; nil and non-struct shapes directly)
func rebuildParam(pc *PrepareCase) (interface{}, bool) {
	if mk, known := sameName[pc.Shape]; known {
		// the real hand-declared type, its exported fields set from the recorded values
		proto := reflect.ValueOf(mk(hutil.NewRng(1)))
		ptr := proto.Kind() == reflect.Ptr
		if ptr {
			proto = proto.Elem()
		}
		v := reflect.New(proto.Type()).Elem()
		for i, f := range pc.Fields {
			if i >= v.NumField() || !f.Exported {
				continue
			}
			fv := v.Field(i)
			switch f.Value.T {
			case "int":
				n, _ := new(big.Int).SetString(f.Value.Z, 10)
				if n != nil && fv.Kind() == reflect.Int64 {
					fv.SetInt(n.Int64())
				}
			case "flt":
				m, _ := new(big.Float).SetString(f.Value.Z)
				if m != nil && fv.Kind() == reflect.Float64 {
					x, _ := m.Float64()
					fv.SetFloat(math.Ldexp(x, f.Value.E))
				}
			case "str":
				b, _ := hex.DecodeString(f.Value.H)
				if fv.Kind() == reflect.String {
					fv.SetString(string(b))
				}
			case "bytes":
				b, _ := hex.DecodeString(f.Value.H)
				if fv.Kind() == reflect.Slice {
					fv.SetBytes(b)
				}
			case "bool":
				if fv.Kind() == reflect.Bool {
					fv.SetBool(f.Value.B)
				}
			}
		}
		if ptr {
			return v.Addr().Interface(), true
		}
		return v.Interface(), true
	}
	if !pc.IsStruct {
		if pc.Shape == "nil" {
			return nil, true
		}
		return 5, true
	}
	var fs []reflect.StructField
	var vals []reflect.Value
	for i, f := range pc.Fields {
		if !f.Exported {
			continue
		}
		var v reflect.Value
		switch f.Value.T {
		case "int":
			n, ok := new(big.Int).SetString(f.Value.Z, 10)
			if !ok {
				return nil, false
			}
			if n.IsInt64() {
				v = reflect.ValueOf(n.Int64())
			} else {
				v = reflect.ValueOf(n.Uint64())
			}
		case "flt":
			m, _ := new(big.Float).SetString(f.Value.Z)
			x, _ := m.Float64()
			v = reflect.ValueOf(math.Ldexp(x, f.Value.E))
		case "str":
			b, _ := hex.DecodeString(f.Value.H)
			v = reflect.ValueOf(string(b))
		case "bytes":
			b, _ := hex.DecodeString(f.Value.H)
			v = reflect.ValueOf(b)
		case "bool":
			v = reflect.ValueOf(f.Value.B)
		case "nil":
			v = reflect.ValueOf([]byte(nil))
		default:
			return nil, false
		}
		sf := reflect.StructField{Name: fmt.Sprintf("F%d", i), Type: v.Type()}
		if f.HasTag {
			tag, _ := hex.DecodeString(f.Tag)
			sf.Tag = reflect.StructTag(fmt.Sprintf("tccParam:%q", string(tag)))
		}
		fs = append(fs, sf)
		vals = append(vals, v)
	}
	st := reflect.New(reflect.StructOf(fs)).Elem()
	for i, v := range vals {
		st.Field(i).Set(v)
	}
	return st.Interface(), true
}
