// Package params (under pb): same package name and type name as verifh/tccrun/pa/params.Params,
// a different layout.
package params

type Params struct {
	Urgent bool    `tccParam:"urgent"`
	Memo   string  `tccParam:"memo"`
	Ratio  float64 `tccParam:"ratio"`
	Amount int64   `tccParam:"amount"`
}
