// Package tccrun (C05): drives the real TCC service proxy (prepare inside a
// global transaction: branch registration, then the user's try) and the real
// phase-two processors (getty client handler -> rm branch commit/rollback
// processor -> TCCResourceManager -> reflective call of the user's method),
// with the two remoting calls (SendSyncRequest, SendAsyncResponse) replaced by
// recorders.
package tccrun

import (
	"encoding/hex"
	"math"
	"reflect"
	"sort"
	"strconv"
)

// Val describes a Go value structurally (the Coq model's `goval`).
//
//	t = nil | bool | int | flt | str | bytes | list | map | struct
type Val struct {
	T string   `json:"t"`
	B bool     `json:"b,omitempty"`
	Z string   `json:"z,omitempty"` // int: decimal; flt: mantissa (value = m * 2^e)
	E int      `json:"e,omitempty"`
	H string   `json:"h,omitempty"` // str / bytes: hex
	L []Val    `json:"l,omitempty"`
	K []string `json:"k,omitempty"` // map / struct: keys (hex), parallel to L
}

func fltVal(f float64) Val {
	if f == 0 {
		return Val{T: "flt", Z: "0"}
	}
	frac, exp := math.Frexp(f)
	m := int64(frac * (1 << 53))
	return Val{T: "flt", Z: strconv.FormatInt(m, 10), E: exp - 53}
}

// describe: a typed Go value as encoding/json sees it (exported fields only, nil
// slices / maps / pointers are nil, []byte is bytes)
func describe(v reflect.Value) Val {
	if !v.IsValid() {
		return Val{T: "nil"}
	}
	switch v.Kind() {
	case reflect.Bool:
		return Val{T: "bool", B: v.Bool()}
	case reflect.Int, reflect.Int8, reflect.Int16, reflect.Int32, reflect.Int64:
		return Val{T: "int", Z: strconv.FormatInt(v.Int(), 10)}
	case reflect.Uint, reflect.Uint8, reflect.Uint16, reflect.Uint32, reflect.Uint64:
		return Val{T: "int", Z: strconv.FormatUint(v.Uint(), 10)}
	case reflect.Float32, reflect.Float64:
		return fltVal(v.Float())
	case reflect.String:
		return Val{T: "str", H: hex.EncodeToString([]byte(v.String()))}
	case reflect.Slice:
		if v.IsNil() {
			return Val{T: "nil"}
		}
		if v.Type().Elem().Kind() == reflect.Uint8 {
			return Val{T: "bytes", H: hex.EncodeToString(v.Bytes())}
		}
		out := Val{T: "list", L: []Val{}}
		for i := 0; i < v.Len(); i++ {
			out.L = append(out.L, describe(v.Index(i)))
		}
		return out
	case reflect.Array:
		out := Val{T: "list", L: []Val{}}
		for i := 0; i < v.Len(); i++ {
			out.L = append(out.L, describe(v.Index(i)))
		}
		return out
	case reflect.Map:
		if v.IsNil() {
			return Val{T: "nil"}
		}
		out := Val{T: "map", L: []Val{}, K: []string{}}
		keys := v.MapKeys()
		sort.Slice(keys, func(i, j int) bool { return keys[i].String() < keys[j].String() })
		for _, k := range keys {
			out.K = append(out.K, hex.EncodeToString([]byte(k.String())))
			out.L = append(out.L, describe(v.MapIndex(k)))
		}
		return out
	case reflect.Struct:
		out := Val{T: "struct", L: []Val{}, K: []string{}}
		for i := 0; i < v.NumField(); i++ {
			f := v.Type().Field(i)
			if f.PkgPath != "" {
				continue
			}
			out.K = append(out.K, hex.EncodeToString([]byte(f.Name)))
			out.L = append(out.L, describe(v.Field(i)))
		}
		return out
	case reflect.Ptr, reflect.Interface:
		if v.IsNil() {
			return Val{T: "nil"}
		}
		return describe(v.Elem())
	}
	return Val{T: "unsupported"}
}

// Field is one field of the prepare parameter struct as the proxy's reflection sees it.
type Field struct {
	Name     string `json:"name"`
	Exported bool   `json:"exported"`
	HasTag   bool   `json:"has_tag"`
	Tag      string `json:"tag"` // hex
	Value    Val    `json:"value"`
}

func describeFields(p interface{}) (fields []Field, isStruct bool) {
	if p == nil {
		return nil, false
	}
	v := reflect.ValueOf(p)
	if v.Kind() == reflect.Ptr {
		v = v.Elem()
	}
	if !v.IsValid() || v.Kind() != reflect.Struct {
		return nil, false
	}
	for i := 0; i < v.NumField(); i++ {
		f := v.Type().Field(i)
		tag, has := f.Tag.Lookup("tccParam")
		fd := Field{Name: f.Name, Exported: f.PkgPath == "", HasTag: has, Tag: hex.EncodeToString([]byte(tag))}
		if fd.Exported {
			fd.Value = describe(v.Field(i))
		} else {
			fd.Value = Val{T: "nil"}
		}
		fields = append(fields, fd)
	}
	return fields, true
}
