// Package params (under pa): a prepare parameter type whose reflect.Type.String() ("params.Params")
// is the same as that of the DIFFERENT type verifh/tccrun/pb/params.Params.
package params

type Params struct {
	Account string `tccParam:"account"`
	Amount  int64  `tccParam:"amount"`
	Note    string
}
