package main

import "verifh/tccrun"

func init() { subcommands["tcc"] = tccrun.Run }
