package atp

import (
	"encoding/json"
	"fmt"
	"os"
	"strings"

	"verifh/atrun"
	"verifh/hutil"
)

type Output struct {
	Cases []Case `json:"cases"`
}

// streams of a property: (name, share of n)
func streams(prop string) []string {
	switch prop {
	case "c03":
		return []string{"finding:lockkey.separator", "finding:upsert.pk-listed.unique-changed"}
	case "c18":
		return []string{"finding:where.node.func", "finding:where.string-literal", "finding:upsert.pk-listed.unique-changed"}
	}
	return nil
}

// Run is the `atp` sub-command:
//
//	atp prop=c18|c03|c02 seed=<n> n=<clean> m=<malformed> f=<per finding stream> out=<file>
//	atp replay=<file with {"cases":[{scenario, meta}]}> out=<file>
func Run(args map[string]string) {
	out := hutil.ArgStr(args, "out", "")
	if out == "" {
		fmt.Fprintln(os.Stderr, "atp: out= is required")
		os.Exit(2)
	}
	var cases []Case
	if f := hutil.ArgStr(args, "replay", ""); f != "" {
		b, err := os.ReadFile(f)
		if err != nil {
			fmt.Fprintln(os.Stderr, "atp:", err)
			os.Exit(2)
		}
		var o Output
		if err := json.Unmarshal(b, &o); err != nil {
			fmt.Fprintln(os.Stderr, "atp: cannot parse replay file:", err)
			os.Exit(2)
		}
		cases = o.Cases
	} else {
		prop := hutil.ArgStr(args, "prop", "c18")
		seed := hutil.ArgU64(args, "seed", 1)
		rng := hutil.NewRng(seed ^ uint64(len(prop))<<32 ^ uint64(prop[2]))
		add := func(stream string, n int) {
			sr := rng.Fork(uint64(len(stream))*1000003 + uint64(stream[len(stream)-1]))
			for i := 0; i < n; i++ {
				cases = append(cases, generate(prop, stream, sr.Fork(uint64(i)), i))
			}
		}
		if prop == "c02" {
			cases = c02Cases(rng, hutil.ArgInt(args, "n", 10), hutil.ArgInt(args, "thorough", 0) == 1)
			goto run
		}
		add("clean", hutil.ArgInt(args, "n", 10))
		add("malformed", hutil.ArgInt(args, "m", 0))
		for _, s := range streams(prop) {
			add(s, hutil.ArgInt(args, "f", 0))
		}
		cases = append(cases, fixed(prop)...)
	}
run:
	for i := range cases {
		cases[i].Trace = atrun.Run(cases[i].Scenario)
	}
	hutil.WriteJSON(out, Output{Cases: cases})
}

func generate(prop, stream string, r *hutil.Rng, i int) Case {
	switch {
	case prop == "c03" && stream == "clean" && i%4 == 1:
		sc, meta := sfuScenario(r, i, stream)
		return Case{Scenario: sc, Meta: meta}
	case prop == "c18" && stream == "clean" && i%8 == 5:
		sc, meta := etxScenario(r, i)
		return Case{Scenario: sc, Meta: meta}
	case prop == "c18" && stream == "clean" && i%16 == 3:
		sc, meta := autostepScenario(r, i)
		return Case{Scenario: sc, Meta: meta}
	case prop == "c18" && stream == "clean" && i%16 == 7:
		sc, meta := refreshScenario(r, i)
		return Case{Scenario: sc, Meta: meta}
	case prop == "c03" && stream == "malformed" && i%3 == 0:
		sc, meta := sfuBadScenario(r, i)
		return Case{Scenario: sc, Meta: meta}
	case prop == "c03" && stream == "clean" && i%16 == 8:
		// generated-key batches with a changing auto_increment_increment: every generated row must be named by a lock key
		sc, meta := autostepScenario(r, i)
		return Case{Scenario: sc, Meta: meta}
	case prop == "c03" && stream == "clean" && i%4 == 3:
		sc, meta := txScenario(r, i)
		return Case{Scenario: sc, Meta: meta}
	case prop == "c03" && stream == "clean" && i%4 == 2:
		sc, meta := isoScenario(r, i)
		return Case{Scenario: sc, Meta: meta}
	default:
		sc, meta := buildScenario(r, i, stream, prop)
		return Case{Scenario: sc, Meta: meta}
	}
}

func fixed(prop string) []Case { return nil }

var _ = strings.TrimSpace
