package atp

import (
	"fmt"
	"strings"

	"verifh/atrun"
	"verifh/fakedb"
	"verifh/hutil"
)

// etxScenario (C18): ONE explicit local transaction of 2-4 statements inside a global transaction; one of them may be
// refused by the database AFTER its image query ran (lock wait timeout, deadlock, generic error, cancelled context);
// the application handles the error, goes on and commits. Around every statement the table is read inside the
// transaction (SELECT * on the same connection, no xid), so each statement has its own row diff.
func etxScenario(r *hutil.Rng, i int) (atrun.Scenario, Meta) {
	g0 = &genState{}
	t := mkTable(r, []int{0, 1, 3, 2}[r.Intn(4)], false)
	for t.nkeys < 3 {
		t = mkTable(r, 3, false)
	}
	onlyCare := r.Chance(1, 2)
	sc := atrun.Scenario{Name: fmt.Sprintf("c18-etx-%d", i), Setup: append([]string{t.ddl}, t.setup...)}
	sc.Config.OnlyCareUpdateColumns = &onlyCare
	meta := Meta{Stream: "clean", Table: t.name, Cols: t.cols, PK: t.pk, AutoInc: t.auto, OnlyCare: onlyCare, Extra: map[string]string{"shape": "etx"}}
	snap := "SELECT * FROM " + t.name + " ORDER BY " + strings.Join(t.pkNames(), ", ")
	body := []atrun.Step{{Op: "dump"}, {Op: "tx_begin", Conn: "c1"}}
	meta.Extra["dump_pre"] = "0.0"
	nst := 2 + r.Intn(3)
	failing := -1
	if r.Chance(3, 4) {
		failing = r.Intn(nst)
	}
	body = append(body, atrun.Step{Op: "query", Conn: "c1", NoCtx: true, SQL: snap})
	for s := 0; s < nst; s++ {
		o := stmtOpt{where: whereOpt{depth: 1 + r.Intn(2), keyBias: true}}
		var sql string
		var sm StmtMeta
		switch k := r.Intn(10); {
		case k < 4:
			sql, sm = genUpdate(r, &t, o)
		case k < 7:
			sql, sm = genDelete(r, &t, o)
		default:
			sql, sm = genInsert(r, &t, o)
		}
		sm.Conn, sm.Step = "c1", 1
		sm.SnapPre = fmt.Sprintf("0.%d", len(body)-1)
		if sm.Kind != "insert" {
			sel := "SELECT " + strings.Join(t.pkNames(), ", ") + " FROM " + t.name + sql[tailStart(sql):]
			nTail := strings.Count(sql[tailStart(sql):], "?")
			margs := sm.Args
			if nTail <= len(margs) {
				margs = margs[len(margs)-nTail:]
			}
			sm.MatchPath = fmt.Sprintf("0.%d", len(body))
			body = append(body, atrun.Step{Op: "query", Conn: "c1", NoCtx: true, SQL: sel, Args: margs})
		}
		st := atrun.Step{Op: "exec", Conn: "c1", SQL: sql, Args: sm.Args}
		if s == failing {
			f := fakedb.Fault{Kinds: []string{"EXEC"}, Pattern: "^(UPDATE|DELETE|INSERT)", Count: 1, Action: "error"}
			switch r.Intn(4) {
			case 0:
				f.ErrNo = 1205 // lock wait timeout
			case 1:
				f.ErrNo = 1213 // deadlock
			case 2:
				f.Action = "cancel"
				st.Cancelable = true
			}
			body = append(body, atrun.Step{Op: "db_fault", Fault: &f})
			sm.Expect = "reject-db"
		}
		sm.Path = fmt.Sprintf("0.%d", len(body))
		body = append(body, st)
		if s == failing {
			body = append(body, atrun.Step{Op: "db_fault_clear"})
		}
		sm.SnapPost = fmt.Sprintf("0.%d", len(body))
		body = append(body, atrun.Step{Op: "query", Conn: "c1", NoCtx: true, SQL: snap})
		sm.Roots = ParseRoots(sql)
		meta.Stmts = append(meta.Stmts, sm)
	}
	meta.Extra["commit_path"] = fmt.Sprintf("0.%d", len(body))
	body = append(body, atrun.Step{Op: "tx_commit", Conn: "c1"}, atrun.Step{Op: "conn_close", Conn: "c1"})
	sc.Steps = []atrun.Step{{Op: "gtx", Steps: body}}
	return sc, meta
}

// refreshScenario (C18): three same-shaped tables with the same keys and different contents are all used (cached), one is
// dropped behind the proxy's back, the table-meta cache runs its REAL background refresh, then the other two are written.
func refreshScenario(r *hutil.Rng, i int) (atrun.Scenario, Meta) {
	g0 = &genState{}
	names := []string{"t_ra", "t_rb", "t_rc"}
	cols := []ColMeta{{"k", "int", false}, {"Val", "int", false}}
	sc := atrun.Scenario{Name: fmt.Sprintf("c18-refresh-%d", i)}
	for n, tn := range names {
		sc.Setup = append(sc.Setup, "CREATE TABLE "+tn+" (k INT NOT NULL, Val INT NOT NULL DEFAULT 0, PRIMARY KEY (k))")
		for k := 1; k <= 4; k++ {
			sc.Setup = append(sc.Setup, fmt.Sprintf("INSERT INTO %s (k,Val) VALUES (%d,%d)", tn, k, 100*(n+1)+k))
		}
	}
	onlyCare := r.Chance(1, 2)
	sc.Config.OnlyCareUpdateColumns = &onlyCare
	meta := Meta{Stream: "clean", Table: names[0], Cols: cols, PK: []int{0}, OnlyCare: onlyCare, Extra: map[string]string{"shape": "refresh"}}
	var body []atrun.Step
	sure := false // after the refresh: updates that certainly match rows
	stmt := func(tn string) {
		t := table{name: tn, cols: cols, pk: []int{0}, nkeys: 4}
		o := stmtOpt{where: whereOpt{depth: 1, keyBias: true}}
		var sql string
		var sm StmtMeta
		switch {
		case sure && r.Chance(3, 4):
			lim := int64(2 + r.Intn(3))
			sm = StmtMeta{Kind: "update", Expect: "ok", Cols: []int{1}, Sets: []SetMeta{{Col: 1, Op: "add", V: atrun.I(7)}}, Args: []atrun.Arg{atrun.I(lim)}}
			sql = "UPDATE " + tn + " SET Val = Val + 7 WHERE k <= ?"
		case r.Chance(2, 3):
			sql, sm = genUpdate(r, &t, o)
		default:
			sql, sm = genDelete(r, &t, o)
		}
		sm.Table, sm.Step = tn, 1
		sel := "SELECT k FROM " + tn + sql[tailStart(sql):]
		nTail := strings.Count(sql[tailStart(sql):], "?")
		margs := sm.Args
		if nTail <= len(margs) {
			margs = margs[len(margs)-nTail:]
		}
		sm.MatchPath = fmt.Sprintf("0.%d", len(body))
		body = append(body, atrun.Step{Op: "query", Via: "bare", NoCtx: true, SQL: sel, Args: margs})
		sm.DumpPre = fmt.Sprintf("0.%d", len(body))
		body = append(body, atrun.Step{Op: "dump", Tables: []string{tn}})
		sm.Path = fmt.Sprintf("0.%d", len(body))
		body = append(body, atrun.Step{Op: "exec", SQL: sql, Args: sm.Args})
		sm.DumpPost = fmt.Sprintf("0.%d", len(body))
		body = append(body, atrun.Step{Op: "dump", Tables: []string{tn}})
		sm.Roots = ParseRoots(sql)
		meta.Stmts = append(meta.Stmts, sm)
	}
	for _, tn := range names {
		stmt(tn)
	}
	// Go walks a small map from a random slot of its one bucket: the first-cached table leads most walks, and only a
	// table that is asked for BEFORE the others can shift them
	drop := 0
	if r.Chance(1, 2) {
		drop = r.Intn(3)
	}
	body = append(body, atrun.Step{Op: "exec", Via: "bare", NoCtx: true, SQL: "DROP TABLE " + names[drop]}, atrun.Step{Op: "meta_real_refresh"})
	meta.Extra["dropped"] = names[drop]
	sure = true
	for n, tn := range names {
		if n != drop {
			stmt(tn)
			stmt(tn)
		}
	}
	sc.Steps = []atrun.Step{{Op: "gtx", Steps: body}}
	return sc, meta
}

// autostepScenario (C18): multi-row INSERTs whose keys the database generates, with the session's
// auto_increment_increment changed between them.
func autostepScenario(r *hutil.Rng, i int) (atrun.Scenario, Meta) {
	g0 = &genState{}
	t := mkTable(r, 0, false)
	onlyCare := r.Chance(1, 2)
	sc := atrun.Scenario{Name: fmt.Sprintf("c18-autostep-%d", i), Setup: append([]string{t.ddl}, t.setup...)}
	sc.Config.OnlyCareUpdateColumns = &onlyCare
	steps := []int{1, 2, 3, 5}
	cur := steps[r.Intn(4)]
	sc.Config.AutoIncrementIncrement = cur
	meta := Meta{Stream: "clean", Table: t.name, Cols: t.cols, PK: t.pk, AutoInc: true, OnlyCare: onlyCare, Extra: map[string]string{"shape": "autostep"}}
	body := []atrun.Step{{Op: "dump", Tables: []string{t.name}}}
	for s, n := 0, 2+r.Intn(2); s < n; s++ {
		if s > 0 {
			for nx := steps[r.Intn(4)]; ; nx = steps[r.Intn(4)] {
				if nx != cur {
					cur = nx
					break
				}
			}
			body = append(body, atrun.Step{Op: "db_autoinc", N: cur})
		}
		sql, sm := genInsert(r, &t, stmtOpt{insMode: "gen-batch"})
		sm.Step = cur
		sm.DumpPre = fmt.Sprintf("0.%d", lastDump(body))
		sm.Path = fmt.Sprintf("0.%d", len(body))
		body = append(body, atrun.Step{Op: "exec", SQL: sql, Args: sm.Args})
		sm.DumpPost = fmt.Sprintf("0.%d", len(body))
		body = append(body, atrun.Step{Op: "dump", Tables: []string{t.name}})
		meta.Stmts = append(meta.Stmts, sm)
	}
	sc.Steps = []atrun.Step{{Op: "gtx", Steps: body}}
	return sc, meta
}
