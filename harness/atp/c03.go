package atp

import (
	"fmt"
	"strconv"
	"strings"

	"verifh/atrun"
	"verifh/hutil"
)

// ---- C03: SELECT ... FOR UPDATE scenarios and two global transactions on overlapping rows

// sfuScenario: a locking read inside a global transaction, autocommit or inside an explicit local transaction, with
// or without a foreign global transaction holding one of the rows at the coordinator.
func sfuScenario(r *hutil.Rng, i int, stream string) (atrun.Scenario, Meta) {
	variant := []int{0, 3, 2, 6, 7, 1, 1}[r.Intn(7)]
	t := mkTable(r, variant, false)
	for t.nkeys < 3 {
		t = mkTable(r, variant, false)
	}
	sc := atrun.Scenario{Name: fmt.Sprintf("c03-sfu-%s-%d", strings.ReplaceAll(stream, ":", "-"), i), Setup: append([]string{t.ddl}, t.setup...)}
	meta := Meta{Stream: stream, Table: t.name, Cols: t.cols, PK: t.pk, AutoInc: t.auto, OnlyCare: true, Extra: map[string]string{"shape": "sfu"}}
	// lock.retry-times / lock.retry-interval: a global lock conflict is final whatever they say
	sc.Config.LockRetryTimes = 1 + r.Intn(3)
	sc.Config.LockRetryIntervalMs = 1
	meta.Extra["retry_times"] = strconv.Itoa(sc.Config.LockRetryTimes)
	var steps []atrun.Step
	conflict := r.Chance(2, 5)
	if conflict {
		// a foreign global transaction owns row 1 or 2 at the coordinator
		pk := strconv.Itoa(1 + r.Intn(2))
		if variant >= 6 {
			pk = "1.25e+06"
		}
		if variant == 1 {
			pk = "c" + pk
		}
		if variant == 2 {
			pk = "1_" + []string{"x", "y"}[r.Intn(2)]
		}
		steps = append(steps, atrun.Step{Op: "tc_seed_lock", Table: strings.ToUpper(t.name), PK: pk})
		meta.Extra["seed"] = pk
	}
	b := &sqlb{}
	keycol := t.cols[t.pk[0]].Name
	switch r.Intn(3) {
	case 0:
		b.w(keycol + " <= ")
		b.intVal(r, int64(1+r.Intn(3)))
	case 1:
		b.w(keycol + " IN (")
		b.intVal(r, 1)
		b.w(", ")
		b.intVal(r, int64(2+r.Intn(3)))
		b.w(")")
	default:
		b.w(keycol + " = ")
		b.intVal(r, int64(1+r.Intn(3)))
	}
	if r.Chance(1, 8) {
		b = &sqlb{}
		b.w(keycol + " = ")
		b.intVal(r, 999)
	}
	if t.cols[t.pk[0]].Kind == "str" && len(t.pk) == 1 {
		// character keys, some ending in a blank
		b = &sqlb{}
		switch r.Intn(3) {
		case 0:
			b.w(keycol + " >= ?")
			b.args = append(b.args, atrun.S("c"))
		case 1:
			b.w(keycol + " IN (?, ?, ?)")
			b.args = append(b.args, atrun.S("c3 "), atrun.S("c1"), atrun.S("c2"))
		default:
			b.w(keycol + " = ?")
			b.args = append(b.args, atrun.S("c3 "))
		}
	}
	if t.cols[t.pk[0]].Kind == "num" {
		b = &sqlb{}
		switch r.Intn(3) {
		case 0:
			b.w(keycol + " >= ")
			b.intVal(r, 0)
		case 1:
			b.w(keycol + " IN (?, ?)")
			b.args = append(b.args, atrun.I(1250000), atrun.Arg{T: "float", V: "12.5"})
		default:
			b.w(keycol + " > ")
			b.intVal(r, 1000)
		}
	}
	where := b.sb.String()
	// ORDER BY a non-key column (+ key as tie-break) with LIMIT [OFFSET]: the rows handed out are a strict, order
	// dependent subset of the rows matching WHERE
	var ordcol string
	for c := range t.cols {
		if !t.isPK(c) && t.cols[c].Kind == "int" {
			ordcol = t.cols[c].Name
		}
	}
	if ordcol != "" && r.Chance(2, 5) {
		where += " ORDER BY " + ordcol
		if r.Chance(1, 2) {
			where += " DESC"
		}
		where += ", " + strings.Join(t.pkNames(), ", ") + " LIMIT " + strconv.Itoa(1+r.Intn(2))
		if r.Chance(1, 3) {
			where += " OFFSET 1"
		}
		meta.Extra["ordered"] = "1"
	}
	explicit := r.Chance(1, 2)
	conn := ""
	var body []atrun.Step
	if explicit {
		conn = "c1"
		body = append(body, atrun.Step{Op: "tx_begin", Conn: conn})
	}
	sm := StmtMeta{Kind: "sfu", Args: b.args, Expect: "any", Conn: conn}
	if explicit && meta.Extra["ordered"] == "" && r.Chance(1, 2) {
		// the local transaction first writes exactly the rows it then reads with FOR UPDATE
		var nonpk string
		for c := range t.cols {
			if !t.isPK(c) && t.cols[c].Kind == "int" {
				nonpk = t.cols[c].Name
			}
		}
		body = append(body, atrun.Step{Op: "exec", Conn: conn, SQL: "UPDATE " + t.name + " SET " + nonpk + " = " + nonpk + " + 1 WHERE " + where, Args: b.args})
		meta.Extra["wrote_first"] = "1"
	}
	sm.MatchPath = fmt.Sprintf("%d.%d", len(steps), len(body))
	body = append(body, atrun.Step{Op: "query", Via: "bare", NoCtx: true, SQL: "SELECT " + strings.Join(t.pkNames(), ", ") + " FROM " + t.name + " WHERE " + where, Args: b.args})
	if explicit {
		meta.Extra["locks_pre"] = fmt.Sprintf("%d.%d", len(steps), len(body))
		body = append(body, atrun.Step{Op: "db_locks"})
	}
	spelled := t.name
	if r.Chance(1, 3) {
		spelled = caseVariant(r, t.name)
		if r.Chance(1, 2) {
			body = append(body, atrun.Step{Op: "meta_refresh"})
			if explicit {
				meta.Extra["locks_pre"] = fmt.Sprintf("%d.%d", len(steps), len(body))
				body = append(body, atrun.Step{Op: "db_locks"})
			}
		}
	}
	sm.Path = fmt.Sprintf("%d.%d", len(steps), len(body))
	body = append(body, atrun.Step{Op: "query", Conn: conn, SQL: "SELECT * FROM " + spelled + " WHERE " + where + " FOR UPDATE", Args: b.args})
	if explicit {
		meta.Extra["locks_post"] = fmt.Sprintf("%d.%d", len(steps), len(body))
		body = append(body, atrun.Step{Op: "db_locks"})
	}
	if explicit {
		body = append(body, atrun.Step{Op: "tx_commit", Conn: conn}, atrun.Step{Op: "conn_close", Conn: conn})
	}
	meta.Stmts = []StmtMeta{sm}
	steps = append(steps, atrun.Step{Op: "gtx", Steps: body})
	sc.Steps = steps
	return sc, meta
}

// isoScenario: global transaction A writes some rows; while A is open, global transaction B (RequiresNew) writes rows,
// some of them the same; then A writes again. Every statement is an autocommit UPDATE/DELETE/INSERT on integer keys.
func isoScenario(r *hutil.Rng, i int) (atrun.Scenario, Meta) {
	t := mkTable(r, 3, false)
	for t.nkeys < 4 {
		t = mkTable(r, 3, false)
	}
	sc := atrun.Scenario{Name: fmt.Sprintf("c03-iso-%d", i), Setup: append([]string{t.ddl}, t.setup...)}
	meta := Meta{Stream: "clean", Table: t.name, Cols: t.cols, PK: t.pk, OnlyCare: true, Extra: map[string]string{"shape": "iso"}}
	stmt := func() atrun.Step {
		k := int64(1 + r.Intn(4))
		switch r.Intn(4) {
		case 0:
			return atrun.Step{Op: "exec", SQL: "DELETE FROM t_kv WHERE k = ?", Args: []atrun.Arg{atrun.I(k)}}
		case 1:
			return atrun.Step{Op: "exec", SQL: "INSERT INTO t_kv (k, Val) VALUES (?, ?)", Args: []atrun.Arg{atrun.I(int64(10 + r.Intn(3))), atrun.I(1)}}
		case 2:
			return atrun.Step{Op: "exec", SQL: "UPDATE t_kv SET Val = Val + 1 WHERE k <= ?", Args: []atrun.Arg{atrun.I(k)}}
		}
		return atrun.Step{Op: "exec", SQL: "UPDATE t_kv SET Val = ? WHERE k = ?", Args: []atrun.Arg{atrun.I(int64(r.Intn(90))), atrun.I(k)}}
	}
	var a []atrun.Step
	add := func(list *[]atrun.Step, n int) {
		for j := 0; j < n; j++ {
			*list = append(*list, atrun.Step{Op: "dump", Tables: []string{t.name}}, stmt())
		}
		*list = append(*list, atrun.Step{Op: "dump", Tables: []string{t.name}})
	}
	add(&a, 1+r.Intn(2))
	var bsteps []atrun.Step
	add(&bsteps, 1+r.Intn(3))
	end := "commit"
	if r.Chance(1, 3) {
		end = "rollback"
	}
	// A stays open while B runs; nothing of A after B (the inner scope clobbers the shared context: C07)
	a = append(a, atrun.Step{Op: "gtx", Propagation: 1, End: end, Steps: bsteps})
	sc.Steps = []atrun.Step{{Op: "gtx", Steps: a}}
	return sc, meta
}

// txScenario: ONE explicit local transaction with 2-4 write statements on one table inside a global transaction;
// keys are drawn from small pools in which one key text is often a proper prefix of another (1/10/100, ab/abc).
func txScenario(r *hutil.Rng, i int) (atrun.Scenario, Meta) {
	strKeys := r.Chance(1, 3)
	var t table
	var pool, fresh []atrun.Arg
	if strKeys {
		t = table{name: "t_item", pk: []int{0}, cols: []ColMeta{{"code", "str", false}, {"Qty", "int", false}, {"note", "str", true}},
			ddl: "CREATE TABLE t_item (code VARCHAR(16) NOT NULL, Qty INT NOT NULL DEFAULT 0, note VARCHAR(32) DEFAULT NULL, PRIMARY KEY (code))"}
		for _, k := range []string{"a", "ab", "abc", "b", "ba", "c1"} {
			pool = append(pool, atrun.S(k))
			t.setup = append(t.setup, fmt.Sprintf("INSERT INTO t_item (code,Qty,note) VALUES ('%s',%d,'n')", k, r.Intn(50)))
		}
		for _, k := range []string{"abcd", "bab", "c", "c10"} {
			fresh = append(fresh, atrun.S(k))
		}
	} else {
		t = table{name: "t_kv", pk: []int{0}, cols: []ColMeta{{"k", "int", false}, {"Val", "int", false}},
			ddl: "CREATE TABLE t_kv (k INT NOT NULL, Val INT NOT NULL DEFAULT 0, PRIMARY KEY (k))"}
		for _, k := range []int64{1, 2, 10, 11, 20, 100} {
			pool = append(pool, atrun.I(k))
			t.setup = append(t.setup, fmt.Sprintf("INSERT INTO t_kv (k,Val) VALUES (%d,%d)", k, r.Intn(50)))
		}
		for _, k := range []int64{12, 101, 21, 3, 1000} {
			fresh = append(fresh, atrun.I(k))
		}
	}
	sc := atrun.Scenario{Name: fmt.Sprintf("c03-tx-%d", i), Setup: append([]string{t.ddl}, t.setup...)}
	meta := Meta{Stream: "clean", Table: t.name, Cols: t.cols, PK: t.pk, OnlyCare: r.Chance(1, 2), Extra: map[string]string{"shape": "tx"}}
	oc := meta.OnlyCare
	sc.Config.OnlyCareUpdateColumns = &oc
	keycol, valcol := t.cols[0].Name, t.cols[1].Name
	body := []atrun.Step{{Op: "dump", Tables: []string{t.name}}, {Op: "tx_begin", Conn: "c1"}}
	meta.Extra["dump_pre"] = "0.0"
	used := map[string]bool{}
	pick := func(from []atrun.Arg) atrun.Arg {
		for tries := 0; tries < 20; tries++ {
			a := from[r.Intn(len(from))]
			if !used[a.V] {
				used[a.V] = true
				return a
			}
		}
		return from[r.Intn(len(from))]
	}
	for j, n := 0, 2+r.Intn(3); j < n; j++ {
		var st atrun.Step
		sm := StmtMeta{Expect: "any", Conn: "c1"}
		switch r.Intn(4) {
		case 0:
			sm.Kind = "delete"
			st = atrun.Step{Op: "exec", Conn: "c1", SQL: "DELETE FROM " + t.name + " WHERE " + keycol + " = ?", Args: []atrun.Arg{pick(pool)}}
		case 1:
			sm.Kind = "insert"
			st = atrun.Step{Op: "exec", Conn: "c1", SQL: "INSERT INTO " + t.name + " (" + keycol + ", " + valcol + ") VALUES (?, ?)", Args: []atrun.Arg{pick(fresh), atrun.I(int64(r.Intn(90)))}}
		default:
			sm.Kind = "update"
			st = atrun.Step{Op: "exec", Conn: "c1", SQL: "UPDATE " + t.name + " SET " + valcol + " = ? WHERE " + keycol + " = ?", Args: []atrun.Arg{atrun.I(int64(100 + r.Intn(90))), pick(pool)}}
		}
		sm.Args = st.Args
		sm.Path = fmt.Sprintf("0.%d", len(body))
		body = append(body, st)
		meta.Stmts = append(meta.Stmts, sm)
	}
	meta.Extra["commit_path"] = fmt.Sprintf("0.%d", len(body))
	body = append(body, atrun.Step{Op: "tx_commit", Conn: "c1"}, atrun.Step{Op: "conn_close", Conn: "c1"})
	meta.Extra["dump_post"] = fmt.Sprintf("0.%d", len(body))
	body = append(body, atrun.Step{Op: "dump", Tables: []string{t.name}})
	sc.Steps = []atrun.Step{{Op: "gtx", Steps: body}}
	return sc, meta
}

// sfuBadScenario: locking reads the select-for-update executor cannot describe (joins, comma joins, derived tables, no
// table at all) inside a global transaction: they must be refused, or the coordinator must be asked before rows come back -
// a FOR UPDATE text handed to the database un-consulted is what the property forbids.
func sfuBadScenario(r *hutil.Rng, i int) (atrun.Scenario, Meta) {
	sc := atrun.Scenario{Name: fmt.Sprintf("c03-sfubad-%d", i), Setup: []string{
		"CREATE TABLE t_kv (k INT NOT NULL, Val INT NOT NULL DEFAULT 0, PRIMARY KEY (k))", "INSERT INTO t_kv (k,Val) VALUES (1,10),(2,20),(3,30)",
		"CREATE TABLE t_b (k INT NOT NULL, w INT NOT NULL DEFAULT 0, PRIMARY KEY (k))", "INSERT INTO t_b (k,w) VALUES (1,5),(2,6)"}}
	meta := Meta{Stream: "malformed", Table: "t_kv", Cols: []ColMeta{{"k", "int", false}, {"Val", "int", false}}, PK: []int{0}, OnlyCare: true,
		Extra: map[string]string{"shape": "sfubad"}}
	shapes := []string{
		"SELECT a.k, a.Val FROM t_kv a JOIN t_b b ON a.k = b.k WHERE a.k <= ? FOR UPDATE",
		"SELECT a.k FROM t_kv a, t_b b WHERE a.k = b.k AND a.k <= ? FOR UPDATE",
		"SELECT a.k FROM t_kv a LEFT JOIN t_b b ON a.k = b.k WHERE a.k <= ? FOR UPDATE",
		"SELECT x.k FROM (SELECT k FROM t_kv WHERE k <= ?) x FOR UPDATE",
		"SELECT ? FROM DUAL FOR UPDATE",
		"SELECT ? FOR UPDATE",
	}
	var steps []atrun.Step
	if r.Chance(1, 2) {
		steps = append(steps, atrun.Step{Op: "tc_seed_lock", Table: "T_KV", PK: strconv.Itoa(1 + r.Intn(2))})
	}
	conn := ""
	var body []atrun.Step
	if r.Chance(1, 2) {
		conn = "c1"
		body = append(body, atrun.Step{Op: "tx_begin", Conn: conn})
	}
	sm := StmtMeta{Kind: "sfubad", Expect: "any", Conn: conn, Args: []atrun.Arg{atrun.I(int64(1 + r.Intn(3)))}}
	sm.Path = fmt.Sprintf("%d.%d", len(steps), len(body))
	body = append(body, atrun.Step{Op: "query", Conn: conn, SQL: shapes[r.Intn(len(shapes))], Args: sm.Args})
	if conn != "" {
		body = append(body, atrun.Step{Op: "tx_rollback", Conn: conn}, atrun.Step{Op: "conn_close", Conn: conn})
	}
	meta.Stmts = []StmtMeta{sm}
	steps = append(steps, atrun.Step{Op: "gtx", Steps: body})
	sc.Steps = steps
	return sc, meta
}
