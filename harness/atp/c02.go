package atp

import (
	"fmt"
	"strconv"

	"verifh/atrun"
	"verifh/fakedb"
	"verifh/hutil"
	"verifh/tcstub"
)

// ---- C02: one local transaction of a global transaction under a fault script.
// Scenario: warm-up (meta cache, RM registration), dump, arm faults, the use (autocommit statement or explicit
// BeginTx..Commit/Rollback on a pinned connection), clear faults, dump, probe read + probe write through the pool, dump.

type c02Fault struct {
	name string
	db   []fakedb.Fault
	tc   []tcstub.Rule
}

func dbF(kind, pattern string) fakedb.Fault {
	return fakedb.Fault{Kinds: []string{kind}, Pattern: pattern, Count: 1, Action: "error"}
}

var (
	fBegin  = dbF("BEGIN", "")
	fQ      = dbF("QUERY", "FOR UPDATE")
	fS      = dbF("EXEC", "^(UPDATE|DELETE|INSERT)")
	fQ2     = dbF("QUERY", `\) IN \(\(`)
	fUPrep  = dbF("PREPARE", "undo_log")
	fUExec  = dbF("STMT_EXEC", "undo_log")
	fCommit = dbF("COMMIT", "")
	fRollb  = dbF("ROLLBACK", "")
	// the proxy retries a failed driver-level rollback as SQL text
	fRollbSQL = dbF("EXEC", "^ROLLBACK")
)

func cancelF(kind, pattern string) fakedb.Fault {
	return fakedb.Fault{Kinds: []string{kind}, Pattern: pattern, Count: 1, Action: "cancel"}
}

func actF(kind, pattern, action string) fakedb.Fault {
	return fakedb.Fault{Kinds: []string{kind}, Pattern: pattern, Count: 1, Action: action}
}

func errnoF(kind, pattern string, errno uint16) fakedb.Fault {
	return fakedb.Fault{Kinds: []string{kind}, Pattern: pattern, Count: 1, Action: "error", ErrNo: errno}
}

func regRule(action string) tcstub.Rule {
	return tcstub.Rule{Kind: "BranchRegister", Count: 1, Action: action}
}
func repRule(k int) tcstub.Rule {
	return tcstub.Rule{Kind: "BranchReport", Count: k, Action: "transport"}
}

// repFailRule: the coordinator ANSWERS the report with ResultCode Failed k times, then accepts it
func repFailRule(k int) tcstub.Rule {
	return tcstub.Rule{Kind: "BranchReport", Count: k, Action: "fail"}
}

func c02AutoFaults() []c02Fault {
	fs := []c02Fault{{name: "none"},
		{name: "begin", db: []fakedb.Fault{fBegin}}, {name: "q", db: []fakedb.Fault{fQ}}, {name: "s", db: []fakedb.Fault{fS}},
		{name: "q2", db: []fakedb.Fault{fQ2}}, {name: "uprep", db: []fakedb.Fault{fUPrep}}, {name: "uexec", db: []fakedb.Fault{fUExec}},
		{name: "commit", db: []fakedb.Fault{fCommit}},
		{name: "s+rollback", db: []fakedb.Fault{fS, fRollb, fRollbSQL}}, {name: "uexec+rollback", db: []fakedb.Fault{fUExec, fRollb, fRollbSQL}},
		{name: "commit+rollback", db: []fakedb.Fault{fCommit, fRollb, fRollbSQL}},
		{name: "commit+rollback1", db: []fakedb.Fault{fCommit, fRollb}},
		{name: "reg-fail", tc: []tcstub.Rule{regRule("fail")}}, {name: "reg-transport", tc: []tcstub.Rule{regRule("transport")}},
		{name: "reg-noreply", tc: []tcstub.Rule{regRule("noreply")}}, {name: "reg-conflict", tc: []tcstub.Rule{regRule("lock-conflict")}},
		{name: "reg-fail-nocode", tc: []tcstub.Rule{regRule("fail-nocode")}},
		// the caller's context expires between two calls of the bracket: that call is refused, the connection lives on
		{name: "cancel-q", db: []fakedb.Fault{cancelF("QUERY", "FOR UPDATE")}},
		{name: "cancel-s", db: []fakedb.Fault{cancelF("EXEC", "^(UPDATE|DELETE|INSERT)")}},
		{name: "cancel-q2", db: []fakedb.Fault{cancelF("QUERY", `\) IN \(\(`)}},
		// error KINDS: the connection is lost at that call; badconn = driver.ErrBadConn (database/sql retries a pool
		// statement on a fresh connection: every attempt is its own phase one), drop = mysql.ErrInvalidConn (no retry)
		{name: "badconn-begin", db: []fakedb.Fault{actF("BEGIN", "", "badconn")}},
		{name: "badconn-q", db: []fakedb.Fault{actF("QUERY", "FOR UPDATE", "badconn")}},
		{name: "badconn-s", db: []fakedb.Fault{actF("EXEC", "^(UPDATE|DELETE|INSERT)", "badconn")}},
		{name: "badconn-uexec", db: []fakedb.Fault{actF("STMT_EXEC", "undo_log", "badconn")}},
		{name: "badconn-commit", db: []fakedb.Fault{actF("COMMIT", "", "badconn")}},
		{name: "drop-s", db: []fakedb.Fault{actF("EXEC", "^(UPDATE|DELETE|INSERT)", "drop")}},
		{name: "drop-uexec", db: []fakedb.Fault{actF("STMT_EXEC", "undo_log", "drop")}},
		{name: "drop-commit", db: []fakedb.Fault{actF("COMMIT", "", "drop")}},
		// error NUMBERS at the undo insert: duplicate key (what the INSERT gets when a phase-two rollback left its marker),
		// lock wait timeout, deadlock
		{name: "uexec-1062", db: []fakedb.Fault{errnoF("STMT_EXEC", "undo_log", 1062)}},
		{name: "uexec-1205", db: []fakedb.Fault{errnoF("STMT_EXEC", "undo_log", 1205)}},
		{name: "uexec-1213", db: []fakedb.Fault{errnoF("STMT_EXEC", "undo_log", 1213)}},
		{name: "uprep-1062", db: []fakedb.Fault{errnoF("PREPARE", "undo_log", 1062)}},
		{name: "commit-1213", db: []fakedb.Fault{errnoF("COMMIT", "", 1213)}},
		{name: "s-1062", db: []fakedb.Fault{errnoF("EXEC", "^(UPDATE|DELETE|INSERT)", 1062)}},
		{name: "reg-fail+rollback", db: []fakedb.Fault{fRollb, fRollbSQL}, tc: []tcstub.Rule{regRule("fail")}},
	}
	for _, k := range []int{1, 2, 5} {
		fs = append(fs, c02Fault{name: "report" + strconv.Itoa(k), tc: []tcstub.Rule{repRule(k)}})
		fs = append(fs, c02Fault{name: "commit+report" + strconv.Itoa(k), db: []fakedb.Fault{fCommit}, tc: []tcstub.Rule{repRule(k)}})
	}
	fs = append(fs, c02Fault{name: "uexec+report3", db: []fakedb.Fault{fUExec}, tc: []tcstub.Rule{repRule(3)}})
	// report refused at message level (ResultCode Failed), then accepted on the retry
	fs = append(fs, c02Fault{name: "reportfail1", tc: []tcstub.Rule{repFailRule(1)}},
		c02Fault{name: "commit+reportfail1", db: []fakedb.Fault{fCommit}, tc: []tcstub.Rule{repFailRule(1)}},
		c02Fault{name: "commit+reportfail3", db: []fakedb.Fault{fCommit}, tc: []tcstub.Rule{repFailRule(3)}},
		c02Fault{name: "uexec+reportfail2", db: []fakedb.Fault{fUExec}, tc: []tcstub.Rule{repFailRule(2)}},
		c02Fault{name: "commit+reportfail5", db: []fakedb.Fault{fCommit}, tc: []tcstub.Rule{repFailRule(5)}},
		c02Fault{name: "commit+reportfail1+transport1", db: []fakedb.Fault{fCommit}, tc: []tcstub.Rule{repFailRule(1), repRule(1)}})
	return fs
}

func c02CommitFaults() []c02Fault {
	return []c02Fault{{name: "none"}, {name: "begin", db: []fakedb.Fault{fBegin}}, {name: "uexec", db: []fakedb.Fault{fUExec}},
		{name: "commit", db: []fakedb.Fault{fCommit}}, {name: "commit+rollback", db: []fakedb.Fault{fCommit, fRollb, fRollbSQL}},
		{name: "reg-fail", tc: []tcstub.Rule{regRule("fail")}}, {name: "reg-conflict", tc: []tcstub.Rule{regRule("lock-conflict")}},
		{name: "reg-fail-nocode", tc: []tcstub.Rule{regRule("fail-nocode")}},
		{name: "uexec-1062", db: []fakedb.Fault{errnoF("STMT_EXEC", "undo_log", 1062)}},
		{name: "report1", tc: []tcstub.Rule{repRule(1)}}, {name: "commit+report4", db: []fakedb.Fault{fCommit}, tc: []tcstub.Rule{repRule(4)}}}
}

type c02Stmt struct {
	kind string
	rows bool
	// viaQuery: the DML text is sent through Query (db.QueryContext), which database/sql allows
	viaQuery bool
}

const c02DDL = "CREATE TABLE t_kv (k INT NOT NULL, Val INT NOT NULL DEFAULT 0, PRIMARY KEY (k))"

func c02Step(j int, s c02Stmt, conn string) (atrun.Step, StmtMeta) {
	m := StmtMeta{Kind: s.kind, NRows: 0, Conn: conn}
	if s.rows {
		m.NRows = 1
	}
	var st atrun.Step
	switch s.kind {
	case "update":
		k := int64(j + 1)
		if !s.rows {
			k = int64(900 + j)
		}
		st = atrun.Step{Op: "exec", Conn: conn, Cancelable: conn == "", SQL: "UPDATE t_kv SET Val = ? WHERE k = ?", Args: []atrun.Arg{atrun.I(int64(1000 + j)), atrun.I(k)}}
	case "delete":
		st = atrun.Step{Op: "exec", Conn: conn, Cancelable: conn == "", SQL: "DELETE FROM t_kv WHERE k = ?", Args: []atrun.Arg{atrun.I(int64(j + 1))}}
	default:
		st = atrun.Step{Op: "exec", Conn: conn, Cancelable: conn == "", SQL: "INSERT INTO t_kv (k, Val) VALUES (?, ?)", Args: []atrun.Arg{atrun.I(int64(100 + j)), atrun.I(int64(1000 + j))}}
	}
	if s.viaQuery {
		st.Op = "query"
	}
	m.Args = st.Args
	return st, m
}

func c02Case(idx int, mode string, commit bool, stmts []c02Stmt, f c02Fault, stream string) Case {
	sc := atrun.Scenario{Name: fmt.Sprintf("c02-%s-%d-%s", mode, idx, f.name), Setup: []string{c02DDL}}
	for k := 1; k <= 6; k++ {
		sc.Setup = append(sc.Setup, fmt.Sprintf("INSERT INTO t_kv (k,Val) VALUES (%d,%d)", k, 10*k))
	}
	meta := Meta{Stream: stream, Table: "t_kv", Cols: []ColMeta{{"k", "int", false}, {"Val", "int", false}}, PK: []int{0}, OnlyCare: true,
		Extra: map[string]string{"mode": mode, "commit": strconv.FormatBool(commit), "fault": f.name}}
	steps := []atrun.Step{
		{Op: "gtx", Steps: []atrun.Step{{Op: "exec", SQL: "UPDATE t_kv SET Val = Val + 1 WHERE k = 6"}}},
		{Op: "dump"},
	}
	for i := range f.db {
		ff := f.db[i]
		steps = append(steps, atrun.Step{Op: "db_fault", Fault: &ff})
	}
	if len(f.tc) > 0 {
		steps = append(steps, atrun.Step{Op: "tc_script", Rules: f.tc})
	}
	g := len(steps)
	var body []atrun.Step
	beginFails := len(f.db) > 0 && f.db[0].Kinds[0] == "BEGIN"
	if mode == "auto" {
		st, m := c02Step(0, stmts[0], "")
		m.Path = fmt.Sprintf("%d.0", g)
		body = append(body, st)
		meta.Stmts = append(meta.Stmts, m)
	} else {
		body = append(body, atrun.Step{Op: "tx_begin", Conn: "c1"})
		meta.Extra["begin_path"] = fmt.Sprintf("%d.0", g)
		if !beginFails {
			for j, s := range stmts {
				st, m := c02Step(j, s, "c1")
				m.Path = fmt.Sprintf("%d.%d", g, len(body))
				body = append(body, st)
				meta.Stmts = append(meta.Stmts, m)
			}
			meta.Extra["end_path"] = fmt.Sprintf("%d.%d", g, len(body))
			if commit {
				body = append(body, atrun.Step{Op: "tx_commit", Conn: "c1"})
			} else {
				body = append(body, atrun.Step{Op: "tx_rollback", Conn: "c1"})
			}
		} else {
			meta.Stmts = nil
		}
		body = append(body, atrun.Step{Op: "conn_close", Conn: "c1"})
	}
	meta.Extra["use_path"] = strconv.Itoa(g)
	meta.Extra["dump_pre"] = "1"
	steps = append(steps, atrun.Step{Op: "gtx", Steps: body}, atrun.Step{Op: "db_fault_clear"})
	meta.Extra["dump_post"] = strconv.Itoa(len(steps))
	steps = append(steps, atrun.Step{Op: "dump"})
	meta.Extra["probe_q"] = strconv.Itoa(len(steps))
	steps = append(steps, atrun.Step{Op: "query", SQL: "SELECT k, Val FROM t_kv ORDER BY k"})
	meta.Extra["probe_x"] = strconv.Itoa(len(steps))
	steps = append(steps, atrun.Step{Op: "exec", SQL: "UPDATE t_kv SET Val = 7777 WHERE k = 5"})
	meta.Extra["dump_end"] = strconv.Itoa(len(steps))
	steps = append(steps, atrun.Step{Op: "dump"})
	sc.Steps = steps
	return Case{Scenario: sc, Meta: meta}
}

// c02Cases: the enumerated fault positions (every shape x every fault) + n seeded multi-statement explicit uses
func c02Cases(r *hutil.Rng, n int, thorough bool) []Case {
	var out []Case
	idx := 0
	autoShapes := [][]c02Stmt{{{kind: "update", rows: true}}, {{kind: "update", rows: false}}, {{kind: "delete", rows: true}}, {{kind: "insert", rows: true}}}
	for _, sh := range autoShapes {
		for _, f := range c02AutoFaults() {
			out = append(out, c02Case(idx, "auto", true, sh, f, "clean"))
			idx++
		}
	}
	// DML sent through the QUERY path (db.Query with an UPDATE/DELETE/INSERT text)
	qFaults := []c02Fault{{name: "none"}, {name: "s-query", db: []fakedb.Fault{dbF("QUERY", "^(UPDATE|DELETE|INSERT)")}}, {name: "q2", db: []fakedb.Fault{fQ2}},
		{name: "uexec", db: []fakedb.Fault{fUExec}}, {name: "commit", db: []fakedb.Fault{fCommit}}, {name: "reg-fail", tc: []tcstub.Rule{regRule("fail")}},
		{name: "commit+reportfail1", db: []fakedb.Fault{fCommit}, tc: []tcstub.Rule{repFailRule(1)}}}
	for _, sh := range [][]c02Stmt{{{kind: "update", rows: true, viaQuery: true}}, {{kind: "delete", rows: true, viaQuery: true}}, {{kind: "insert", rows: true, viaQuery: true}}, {{kind: "update", rows: false, viaQuery: true}}} {
		for _, f := range qFaults {
			out = append(out, c02Case(idx, "auto", true, sh, f, "clean"))
			idx++
		}
	}
	out = append(out, c02Case(idx, "explicit", true, []c02Stmt{{kind: "update", rows: true, viaQuery: true}, {kind: "insert", rows: true, viaQuery: false}}, c02Fault{name: "none"}, "clean"))
	idx++
	out = append(out, c02Case(idx, "explicit", true, []c02Stmt{{kind: "delete", rows: true, viaQuery: true}}, c02Fault{name: "uexec", db: []fakedb.Fault{fUExec}}, "clean"))
	idx++
	out = append(out, c02Pinned(idx, []c02Stmt{{kind: "update", rows: true, viaQuery: true}, {kind: "insert", rows: true, viaQuery: true}}, c02Fault{name: "none"}))
	idx++
	// an explicit transaction whose FIRST statement matches no row while a later one writes rows
	for _, sh := range [][]c02Stmt{{{kind: "update", rows: false}, {kind: "insert", rows: true}}, {{kind: "update", rows: false}, {kind: "update", rows: true}, {kind: "delete", rows: true}}} {
		for _, f := range []c02Fault{{name: "none"}, {name: "uexec", db: []fakedb.Fault{fUExec}}, {name: "commit", db: []fakedb.Fault{fCommit}}} {
			out = append(out, c02Case(idx, "explicit", true, sh, f, "clean"))
			idx++
		}
	}
	expShapes := [][]c02Stmt{{{kind: "update", rows: true}}, {{kind: "update", rows: true}, {kind: "insert", rows: true}}, {{kind: "delete", rows: true}, {kind: "update", rows: false}}, {}, {{kind: "update", rows: false}}}
	for _, sh := range expShapes {
		for _, f := range c02CommitFaults() {
			out = append(out, c02Case(idx, "explicit", true, sh, f, "clean"))
			idx++
		}
	}
	for _, sh := range expShapes[:3] {
		for _, f := range []c02Fault{{name: "none"}, {name: "rollback", db: []fakedb.Fault{fRollb}}, {name: "s", db: []fakedb.Fault{fS}}, {name: "q", db: []fakedb.Fault{fQ}}} {
			out = append(out, c02Case(idx, "explicit", false, sh, f, "clean"))
			idx++
		}
	}
	// pinned connection: 2-3 consecutive autocommit uses of ONE *sql.Conn inside one global transaction (no
	// ResetSession in between), faults in the first use, the full phase-one oracle on every use
	pinFaults := []c02Fault{{name: "none"}, {name: "s", db: []fakedb.Fault{fS}}, {name: "q2", db: []fakedb.Fault{fQ2}},
		{name: "uexec", db: []fakedb.Fault{fUExec}}, {name: "commit", db: []fakedb.Fault{fCommit}},
		{name: "commit+rollback1", db: []fakedb.Fault{fCommit, fRollb}}, {name: "uexec+rollback1", db: []fakedb.Fault{fUExec, fRollb}},
		{name: "reg-fail", tc: []tcstub.Rule{regRule("fail")}}, {name: "reg-conflict", tc: []tcstub.Rule{regRule("lock-conflict")}},
		{name: "reg-fail+rollback1", db: []fakedb.Fault{fRollb}, tc: []tcstub.Rule{regRule("fail")}},
		{name: "commit+report2", db: []fakedb.Fault{fCommit}, tc: []tcstub.Rule{repRule(2)}}}
	pinShapes := [][]c02Stmt{{{kind: "update", rows: true}, {kind: "update", rows: true}}, {{kind: "insert", rows: true}, {kind: "delete", rows: true}, {kind: "update", rows: true}}, {{kind: "update", rows: false}, {kind: "insert", rows: true}}, {{kind: "delete", rows: true}, {kind: "update", rows: true}}}
	for si, sh := range pinShapes {
		for fi, f := range pinFaults {
			if thorough || (si+fi)%2 == 0 || f.name == "commit+rollback1" {
				out = append(out, c02Pinned(idx, sh, f))
				idx++
			}
		}
	}
	// seeded: longer explicit transactions with a random commit-path fault
	kinds := []string{"update", "delete", "insert"}
	for i := 0; i < n; i++ {
		var sh []c02Stmt
		for j, k := 0, 1+r.Intn(4); j < k; j++ {
			sh = append(sh, c02Stmt{kind: kinds[r.Intn(3)], rows: r.Chance(3, 4), viaQuery: r.Chance(1, 5)})
			if sh[j].kind != "update" {
				sh[j].rows = true
			}
		}
		fs := c02CommitFaults()
		commit := r.Chance(4, 5)
		f := fs[r.Intn(len(fs))]
		if !commit {
			f = c02Fault{name: "none"}
		}
		out = append(out, c02Case(idx, "explicit", commit, sh, f, "clean"))
		idx++
	}
	// malformed stream: a statement fault inside an explicit transaction that the user commits anyway
	for _, f := range []c02Fault{{name: "s", db: []fakedb.Fault{fS}}, {name: "q2", db: []fakedb.Fault{fQ2}}, {name: "q", db: []fakedb.Fault{fQ}}} {
		out = append(out, c02Case(idx, "explicit", true, []c02Stmt{{kind: "update", rows: true}, {kind: "insert", rows: true}}, f, "malformed"))
		idx++
	}
	return out
}

// c02Pinned: consecutive autocommit statements on one pinned connection inside one global transaction.
func c02Pinned(idx int, stmts []c02Stmt, f c02Fault) Case {
	sc := atrun.Scenario{Name: fmt.Sprintf("c02-pinned-%d-%s", idx, f.name), Setup: []string{c02DDL}}
	for k := 1; k <= 6; k++ {
		sc.Setup = append(sc.Setup, fmt.Sprintf("INSERT INTO t_kv (k,Val) VALUES (%d,%d)", k, 10*k))
	}
	meta := Meta{Stream: "clean", Table: "t_kv", Cols: []ColMeta{{"k", "int", false}, {"Val", "int", false}}, PK: []int{0}, OnlyCare: true,
		Extra: map[string]string{"mode": "pinned", "commit": "true", "fault": f.name, "uses": strconv.Itoa(len(stmts))}}
	steps := []atrun.Step{
		{Op: "gtx", Steps: []atrun.Step{{Op: "exec", SQL: "UPDATE t_kv SET Val = Val + 1 WHERE k = 6"}}},
	}
	for i := range f.db {
		ff := f.db[i]
		steps = append(steps, atrun.Step{Op: "db_fault", Fault: &ff})
	}
	if len(f.tc) > 0 {
		steps = append(steps, atrun.Step{Op: "tc_script", Rules: f.tc})
	}
	g := len(steps)
	body := []atrun.Step{{Op: "dump"}}
	for j, s := range stmts {
		st, m := c02Step(j, s, "p1")
		meta.Extra[fmt.Sprintf("dump_pre.%d", j)] = fmt.Sprintf("%d.%d", g, len(body)-1)
		m.Path = fmt.Sprintf("%d.%d", g, len(body))
		meta.Extra[fmt.Sprintf("use_path.%d", j)] = m.Path
		body = append(body, st)
		meta.Extra[fmt.Sprintf("dump_post.%d", j)] = fmt.Sprintf("%d.%d", g, len(body))
		body = append(body, atrun.Step{Op: "dump"})
		meta.Stmts = append(meta.Stmts, m)
	}
	body = append(body, atrun.Step{Op: "conn_close", Conn: "p1"})
	steps = append(steps, atrun.Step{Op: "gtx", Steps: body}, atrun.Step{Op: "db_fault_clear"})
	meta.Extra["dump_post"] = strconv.Itoa(len(steps))
	steps = append(steps, atrun.Step{Op: "dump"})
	meta.Extra["probe_q"] = strconv.Itoa(len(steps))
	steps = append(steps, atrun.Step{Op: "query", SQL: "SELECT k, Val FROM t_kv ORDER BY k"})
	meta.Extra["probe_x"] = strconv.Itoa(len(steps))
	steps = append(steps, atrun.Step{Op: "exec", SQL: "UPDATE t_kv SET Val = 7777 WHERE k = 5"})
	meta.Extra["dump_end"] = strconv.Itoa(len(steps))
	steps = append(steps, atrun.Step{Op: "dump"})
	sc.Steps = steps
	return Case{Scenario: sc, Meta: meta}
}
