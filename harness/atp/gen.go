// Package atp: generators, statement metadata and the sub-command of the C18 / C03 / C02 checks.
// Scenarios run through verifh/atrun (the REAL AT proxy over fakedb + tcstub); this package only
// decides WHAT to run and records, per statement, what the generator knows about it (kind, columns,
// SET assignments, which arguments belong to WHERE, the parser's syntax tree of WHERE/ORDER/LIMIT).
package atp

import (
	"fmt"
	"strconv"
	"strings"

	"verifh/atrun"
	"verifh/hutil"
)

type ColMeta struct {
	Name     string `json:"name"`
	Kind     string `json:"kind"` // int | str
	Nullable bool   `json:"nullable"`
}

type SetMeta struct {
	Col int       `json:"col"`
	Op  string    `json:"op"` // const | add
	V   atrun.Arg `json:"v"`
}

// StmtMeta: what the generator knows about one DML statement of a scenario.
type StmtMeta struct {
	Path      string        `json:"path"`       // step path of the statement
	MatchPath string        `json:"match_path"` // step path of the bare SELECT of the matched keys ("" none)
	DumpPre   string        `json:"dump_pre"`
	DumpPost  string        `json:"dump_post"`
	Kind      string        `json:"kind"` // update | delete | insert | sfu
	Cols      []int         `json:"cols"` // SET columns / INSERT column list
	Sets      []SetMeta     `json:"sets,omitempty"`
	Args      []atrun.Arg   `json:"args"`
	Listed    [][]atrun.Arg `json:"listed"` // insert: key values per VALUES row (nil: key column omitted)
	NRows     int           `json:"nrows"`
	Roots     []Root        `json:"roots"`  // syntax tree of WHERE / ORDER BY / LIMIT as the parser sees it
	Expect    string        `json:"expect"` // ok | reject (pk change, duplicate key, ...) | any
	Pred      string        `json:"pred"`   // finding predicate this statement falls under ("" clean)
	Conn      string        `json:"conn,omitempty"`
	Table     string        `json:"table,omitempty"`    // statement's own table when the scenario has several
	SnapPre   string        `json:"snap_pre,omitempty"` // explicit transaction: in-transaction SELECT * before / after the statement
	SnapPost  string        `json:"snap_post,omitempty"`
	Step      int           `json:"step,omitempty"` // auto_increment_increment in force when the statement runs
}

type Meta struct {
	Stream   string            `json:"stream"` // clean | malformed | finding:<pred>
	Table    string            `json:"table"`
	Cols     []ColMeta         `json:"cols"`
	PK       []int             `json:"pk"`
	AutoInc  bool              `json:"auto_inc"`
	OnlyCare bool              `json:"only_care"`
	Stmts    []StmtMeta        `json:"stmts"`
	Extra    map[string]string `json:"extra,omitempty"`
}

type Case struct {
	Scenario atrun.Scenario `json:"scenario"`
	Meta     Meta           `json:"meta"`
	Trace    *atrun.Trace   `json:"trace,omitempty"`
}

// ---------------------------------------------------------------- tables

type table struct {
	name  string
	cols  []ColMeta
	pk    []int
	auto  bool
	ddl   string
	setup []string
	nkeys int
	pairs [][2]string // t_doc: existing (docname, ver) pairs
}

func mkTable(r *hutil.Rng, variant int, sepKeys bool) table {
	var t table
	n := r.Intn(7)
	t.nkeys = n
	str := func(i int) string { return "s" + strconv.Itoa(i) }
	switch variant {
	case 0:
		t.name, t.auto, t.pk = "t_acc", true, []int{0}
		t.cols = []ColMeta{{"id", "int", false}, {"userName", "str", true}, {"user_id", "int", false}, {"Score", "int", true}}
		t.ddl = "CREATE TABLE t_acc (id BIGINT NOT NULL AUTO_INCREMENT, userName VARCHAR(32) DEFAULT NULL, user_id INT NOT NULL DEFAULT 0, Score BIGINT DEFAULT NULL, PRIMARY KEY (id))" // user_id: a column whose name CONTAINS the key's name
		for i := 1; i <= n; i++ {
			sc := "NULL"
			if r.Chance(2, 3) {
				sc = strconv.Itoa(r.Intn(50))
			}
			t.setup = append(t.setup, fmt.Sprintf("INSERT INTO t_acc (id,userName,user_id,Score) VALUES (%d,'%s',%d,%s)", i, str(r.Intn(5)), r.Intn(50), sc))
		}
	case 1:
		t.name, t.pk = "t_item", []int{0}
		t.cols = []ColMeta{{"code", "str", false}, {"Qty", "int", false}, {"note", "str", true}}
		t.ddl = "CREATE TABLE t_item (code VARCHAR(16) NOT NULL, Qty INT NOT NULL DEFAULT 0, note VARCHAR(32) DEFAULT NULL, PRIMARY KEY (code))"
		for i := 1; i <= n; i++ {
			code := "c" + strconv.Itoa(i)
			if i%3 == 0 {
				code += " " // a VARCHAR key value that ends in a blank
			}
			if sepKeys && i%2 == 0 {
				code = "c_" + strconv.Itoa(i)
			}
			t.setup = append(t.setup, fmt.Sprintf("INSERT INTO t_item (code,Qty,note) VALUES ('%s',%d,'%s')", code, r.Intn(50), str(r.Intn(5))))
		}
	case 2:
		t.name, t.pk = "t_pair", []int{0, 1}
		t.cols = []ColMeta{{"a", "int", false}, {"b", "str", false}, {"v", "int", true}, {"w", "str", true}}
		t.ddl = "CREATE TABLE t_pair (a INT NOT NULL, b VARCHAR(8) NOT NULL, v INT DEFAULT NULL, w VARCHAR(16) DEFAULT NULL, PRIMARY KEY (a,b))"
		for i := 1; i <= n; i++ {
			t.setup = append(t.setup, fmt.Sprintf("INSERT INTO t_pair (a,b,v,w) VALUES (%d,'%s',%d,'%s')", (i+1)/2, []string{"x", "y"}[i%2], r.Intn(50), str(r.Intn(5))))
		}
	case 5:
		// auto-increment key with an upper-case name + a secondary unique index (upserts)
		t.name, t.auto, t.pk = "t_doc", true, []int{0}
		t.cols = []ColMeta{{"ID", "int", false}, {"docname", "str", false}, {"ver", "int", false}, {"body", "str", true}}
		t.ddl = "CREATE TABLE t_doc (ID BIGINT NOT NULL AUTO_INCREMENT, docname VARCHAR(32) NOT NULL, ver INT NOT NULL DEFAULT 0, body VARCHAR(32) DEFAULT NULL, PRIMARY KEY (ID), UNIQUE KEY uk_doc (docname, ver))"
		all := [][2]string{{"a", "1"}, {"b", "1"}, {"b", "2"}, {"c", "1"}, {"a", "2"}, {"c", "2"}}
		if n < 2 {
			n = 2
			t.nkeys = 2
		}
		for i := 1; i <= n; i++ {
			t.pairs = append(t.pairs, all[i-1])
			t.setup = append(t.setup, fmt.Sprintf("INSERT INTO t_doc (ID,docname,ver,body) VALUES (%d,'%s',%s,'%s')", i, all[i-1][0], all[i-1][1], str(r.Intn(5))))
		}
	case 6, 7:
		// non-integer numeric keys with large and small magnitudes (rendered with an exponent by %v)
		t.name, t.pk = "t_px", []int{0}
		ty := "DOUBLE"
		if variant == 7 {
			t.name, ty = "t_dc", "DECIMAL(14,5)"
		}
		t.cols = []ColMeta{{"amt", "num", false}, {"v", "int", false}}
		t.ddl = "CREATE TABLE " + t.name + " (amt " + ty + " NOT NULL, v INT NOT NULL DEFAULT 0, PRIMARY KEY (amt))"
		t.nkeys = 6
		for i, a := range []string{"1250000", "12.5", "0.00005", "3", "2500000.5", "10000000"} {
			t.setup = append(t.setup, fmt.Sprintf("INSERT INTO %s (amt,v) VALUES (%s,%d)", t.name, a, i))
		}
	case 4:
		t.name, t.pk = "t_rev", []int{0, 1}
		t.cols = []ColMeta{{"a", "int", false}, {"b", "str", false}, {"v", "int", true}}
		t.ddl = "CREATE TABLE t_rev (a INT NOT NULL, b VARCHAR(8) NOT NULL, v INT DEFAULT NULL, PRIMARY KEY (b, a))"
		for i := 1; i <= n; i++ {
			t.setup = append(t.setup, fmt.Sprintf("INSERT INTO t_rev (a,b,v) VALUES (%d,'%s',%d)", (i+1)/2, []string{"x", "y"}[i%2], r.Intn(50)))
		}
	default:
		t.name, t.pk = "t_kv", []int{0}
		t.cols = []ColMeta{{"k", "int", false}, {"Val", "int", false}}
		t.ddl = "CREATE TABLE t_kv (k INT NOT NULL, Val INT NOT NULL DEFAULT 0, PRIMARY KEY (k))"
		for i := 1; i <= n; i++ {
			t.setup = append(t.setup, fmt.Sprintf("INSERT INTO t_kv (k,Val) VALUES (%d,%d)", i, r.Intn(50)))
		}
	}
	return t
}

func (t *table) isPK(c int) bool {
	for _, p := range t.pk {
		if p == c {
			return true
		}
	}
	return false
}

func (t *table) pkNames() []string {
	var s []string
	for _, p := range t.pk {
		s = append(s, t.cols[p].Name)
	}
	return s
}

// ---------------------------------------------------------------- expressions

type sqlb struct {
	sb   strings.Builder
	args []atrun.Arg
}

func (b *sqlb) w(s string) { b.sb.WriteString(s) }
func (b *sqlb) intVal(r *hutil.Rng, n int64) {
	if r.Chance(2, 3) {
		b.w("?")
		b.args = append(b.args, atrun.I(n))
	} else {
		b.w(strconv.FormatInt(n, 10))
	}
}
func (b *sqlb) strParam(s string) {
	b.w("?")
	b.args = append(b.args, atrun.S(s))
}

type whereOpt struct {
	depth   int
	extra   string // "" | func | strlit  (finding streams)
	keyBias bool
}

func genAtom(r *hutil.Rng, t *table, b *sqlb, o whereOpt) {
	c := r.Intn(len(t.cols))
	if o.keyBias && r.Chance(1, 2) {
		c = t.pk[r.Intn(len(t.pk))]
	}
	col := t.cols[c]
	if col.Kind == "int" {
		hi := int64(8)
		if !t.isPK(c) {
			hi = 50
		}
		switch r.Intn(7) {
		case 0, 1:
			b.w(col.Name + " " + []string{"=", "<>", "<", "<=", ">", ">="}[r.Intn(6)] + " ")
			b.intVal(r, int64(r.Intn(int(hi))))
		case 2:
			b.w(col.Name + " IN (")
			for i, k := 0, 1+r.Intn(3); i < k; i++ {
				if i > 0 {
					b.w(", ")
				}
				b.intVal(r, int64(r.Intn(int(hi))))
			}
			b.w(")")
		case 3:
			lo := int64(r.Intn(int(hi)))
			b.w(col.Name + " BETWEEN ")
			b.intVal(r, lo)
			b.w(" AND ")
			b.intVal(r, lo+int64(r.Intn(int(hi))))
		case 4:
			if col.Nullable {
				b.w(col.Name + []string{" IS NULL", " IS NOT NULL"}[r.Intn(2)])
			} else {
				b.w(col.Name + " >= ")
				b.intVal(r, 0)
			}
		case 5:
			b.intVal(r, int64(r.Intn(int(hi))))
			b.w(" " + []string{"=", "<", ">="}[r.Intn(3)] + " " + col.Name)
		default:
			if o.extra == "func" {
				b.w(col.Name + " = abs(?)")
				b.args = append(b.args, atrun.I(int64(r.Intn(int(hi)))))
			} else {
				b.w(col.Name + " = -")
				b.intVal(r, -int64(r.Intn(int(hi))))
			}
		}
		return
	}
	pool := []string{"s0", "s1", "s2", "s3", "s4", "x", "y", "c1", "c2", "c3", "c4"}
	switch r.Intn(5) {
	case 0, 1:
		if o.extra == "strlit" {
			b.w(col.Name + " = '" + pool[r.Intn(len(pool))] + "'")
		} else {
			b.w(col.Name + " " + []string{"=", "<>", ">="}[r.Intn(3)] + " ")
			b.strParam(pool[r.Intn(len(pool))])
		}
	case 2:
		b.w(col.Name + " IN (")
		for i, k := 0, 1+r.Intn(3); i < k; i++ {
			if i > 0 {
				b.w(", ")
			}
			b.strParam(pool[r.Intn(len(pool))])
		}
		b.w(")")
	case 3:
		b.w(col.Name + " LIKE ")
		b.strParam([]string{"s%", "c%", "%1", "x", "%"}[r.Intn(5)])
	default:
		if col.Nullable {
			b.w(col.Name + []string{" IS NULL", " IS NOT NULL"}[r.Intn(2)])
		} else {
			b.w(col.Name + " <> ")
			b.strParam("zz")
		}
	}
}

func genExpr(r *hutil.Rng, t *table, b *sqlb, o whereOpt) {
	if o.depth <= 0 || r.Chance(2, 5) {
		genAtom(r, t, b, o)
		return
	}
	o.depth--
	switch r.Intn(6) {
	case 0:
		b.w("(")
		genExpr(r, t, b, o)
		b.w(" AND ")
		genExpr(r, t, b, o)
		b.w(")")
	case 1:
		b.w("(")
		genExpr(r, t, b, o)
		b.w(" OR ")
		genExpr(r, t, b, o)
		b.w(")")
	case 2:
		b.w("NOT (")
		genExpr(r, t, b, o)
		b.w(")")
	case 3:
		genExpr(r, t, b, o)
		b.w(" AND ")
		genAtom(r, t, b, o)
	case 4:
		genAtom(r, t, b, o)
		b.w(" OR ")
		genExpr(r, t, b, o)
	default:
		b.w("(")
		genExpr(r, t, b, o)
		b.w(")")
	}
}

// WHERE ... [ORDER BY pk [DESC]] [LIMIT n|?]; returns the text (starting with " WHERE" or empty) and its args
func genTail(r *hutil.Rng, t *table, o whereOpt) (string, []atrun.Arg) {
	b := &sqlb{}
	if !r.Chance(1, 12) {
		b.w(" WHERE ")
		genExpr(r, t, b, o)
	}
	if r.Chance(1, 4) {
		b.w(" ORDER BY " + t.cols[t.pk[0]].Name)
		if r.Chance(1, 2) {
			b.w(" DESC")
		}
		if len(t.pk) > 1 {
			b.w(", " + t.cols[t.pk[1]].Name)
		}
		b.w(" LIMIT ")
		b.intVal(r, int64(1+r.Intn(3)))
	}
	return b.sb.String(), b.args
}

// ---------------------------------------------------------------- statements

type genState struct {
	fresh int
}

func (g *genState) freshInt() int64 { g.fresh++; return int64(100 + g.fresh) }

func litOf(a atrun.Arg) string {
	switch a.T {
	case "null":
		return "NULL"
	case "int":
		return a.V
	}
	return "'" + a.V + "'"
}

type stmtOpt struct {
	where    whereOpt
	pkChange bool
	insMode  string // "" | mixed-pk (explicit and NULL/0 key values in one statement: refused) | dup | gen-batch
	upMode   string // "" | pk-unique (upsert lists a fresh key, collides on the unique index and changes a column of it)
}

func genUpdate(r *hutil.Rng, t *table, o stmtOpt) (string, StmtMeta) {
	m := StmtMeta{Kind: "update", Expect: "ok"}
	b := &sqlb{}
	b.w("UPDATE " + t.name + " SET ")
	var nonpk []int
	for c := range t.cols {
		if !t.isPK(c) && !(t.name == "t_doc" && t.cols[c].Name != "body") {
			nonpk = append(nonpk, c)
		}
	}
	var cols []int
	if o.pkChange {
		cols = append(cols, t.pk[r.Intn(len(t.pk))])
		m.Expect = "reject"
	}
	k := 1 + r.Intn(2)
	perm := append([]int{}, nonpk...)
	for i := range perm {
		j := i + r.Intn(len(perm)-i)
		perm[i], perm[j] = perm[j], perm[i]
	}
	for i := 0; i < k && i < len(perm); i++ {
		cols = append(cols, perm[i])
	}
	for i, c := range cols {
		if i > 0 {
			b.w(", ")
		}
		col := t.cols[c]
		b.w(col.Name + " = ")
		switch {
		case col.Kind == "int" && (r.Chance(1, 3) || (t.isPK(c) && r.Chance(2, 3))):
			n := int64(1 + r.Intn(5))
			if t.isPK(c) {
				n += 100
			}
			b.w(col.Name + " + " + strconv.FormatInt(n, 10))
			m.Sets = append(m.Sets, SetMeta{Col: c, Op: "add", V: atrun.I(n)})
		case col.Kind == "int":
			v := atrun.I(int64(r.Intn(90)))
			if t.isPK(c) {
				v = atrun.I(g0.freshInt())
			}
			if col.Nullable && r.Chance(1, 6) {
				v = atrun.NullArg()
			}
			if r.Chance(2, 3) {
				b.w("?")
				b.args = append(b.args, v)
			} else {
				b.w(litOf(v))
			}
			m.Sets = append(m.Sets, SetMeta{Col: c, Op: "const", V: v})
		default:
			v := atrun.S("u" + strconv.Itoa(r.Intn(40)))
			if col.Nullable && r.Chance(1, 6) {
				v = atrun.NullArg()
			}
			if r.Chance(2, 3) {
				b.w("?")
				b.args = append(b.args, v)
			} else {
				b.w(litOf(v))
			}
			m.Sets = append(m.Sets, SetMeta{Col: c, Op: "const", V: v})
		}
	}
	m.Cols = cols
	tail, targs := genTail(r, t, o.where)
	b.w(tail)
	m.Args = append(b.args, targs...)
	return b.sb.String(), m
}

// g0 is reset per scenario (generation is single threaded)
var g0 = &genState{}

func genDelete(r *hutil.Rng, t *table, o stmtOpt) (string, StmtMeta) {
	m := StmtMeta{Kind: "delete", Expect: "ok"}
	tail, targs := genTail(r, t, o.where)
	m.Args = targs
	return "DELETE FROM " + t.name + tail, m
}

func genInsert(r *hutil.Rng, t *table, o stmtOpt) (string, StmtMeta) {
	m := StmtMeta{Kind: "insert", Expect: "ok"}
	batch := o.insMode == "gen-batch" // 2-3 rows whose keys the database generates
	omit := t.auto && ((o.insMode == "" && r.Chance(1, 3)) || (batch && r.Chance(1, 2)))
	// the key column is listed but every row says NULL or 0: the database generates the keys
	genAll := t.auto && !omit && ((o.insMode == "" && r.Chance(1, 4)) || batch)
	var cols []int
	for c := range t.cols {
		if t.isPK(c) {
			if !omit {
				cols = append(cols, c)
			}
		} else if r.Chance(3, 4) || t.cols[c].Name == "docname" {
			cols = append(cols, c) // docname: NOT NULL without a default
		}
	}
	for i := range cols {
		j := i + r.Intn(len(cols)-i)
		cols[i], cols[j] = cols[j], cols[i]
	}
	if len(cols) == 0 {
		cols = []int{len(t.cols) - 1}
	}
	m.Cols = cols
	nrows := 1
	if o.insMode == "mixed-pk" || batch || r.Chance(2, 5) {
		nrows = 2 + r.Intn(2)
	}
	m.NRows = nrows
	b := &sqlb{}
	var names []string
	for _, c := range cols {
		names = append(names, t.cols[c].Name)
	}
	b.w("INSERT INTO " + t.name + " (" + strings.Join(names, ", ") + ") VALUES ")
	for row := 0; row < nrows; row++ {
		if row > 0 {
			b.w(", ")
		}
		b.w("(")
		keyv := map[int]atrun.Arg{}
		for i, c := range cols {
			if i > 0 {
				b.w(", ")
			}
			col := t.cols[c]
			var v atrun.Arg
			if t.isPK(c) {
				if col.Kind == "int" {
					v = atrun.I(g0.freshInt())
					if !t.auto && o.insMode == "" && r.Chance(1, 5) {
						v = atrun.I(0) // without AUTO_INCREMENT 0 is an ordinary key value (also as a component of a composite key)
					}
				} else {
					v = atrun.S("n" + strconv.FormatInt(g0.freshInt(), 10))
				}
				if genAll || (o.insMode == "mixed-pk" && row == 0) {
					v = []atrun.Arg{atrun.NullArg(), atrun.I(0)}[r.Intn(2)]
				}
				if row == 0 {
					switch o.insMode {
					case "dup":
						if col.Kind == "int" {
							v = atrun.I(1)
						} else if len(t.pk) == 1 {
							v = atrun.S("c1")
						} else {
							v = atrun.S("y")
						}
					}
				}
				keyv[c] = v
			} else if col.Kind == "int" {
				v = atrun.I(int64(r.Intn(90)))
			} else if col.Name == "docname" {
				v = atrun.S("f" + strconv.FormatInt(g0.freshInt(), 10))
			} else {
				v = atrun.S("i" + strconv.Itoa(r.Intn(40)))
			}
			switch {
			case !t.isPK(c) && col.Nullable && r.Chance(1, 6):
				b.w("NULL")
			case !t.isPK(c) && col.Name != "docname" && r.Chance(1, 8):
				b.w("DEFAULT")
			case r.Chance(3, 5):
				b.w("?")
				b.args = append(b.args, v)
			default:
				b.w(litOf(v))
			}
		}
		b.w(")")
		if !omit {
			var key []atrun.Arg
			for _, p := range t.pk {
				key = append(key, keyv[p])
			}
			m.Listed = append(m.Listed, key)
		}
	}
	if o.insMode == "dup" || o.insMode == "mixed-pk" {
		m.Expect = "reject"
	}
	m.Args = b.args
	return b.sb.String(), m
}

// C18Scenario: one table, one global transaction, 1-4 autocommit DML statements; around every statement the
// committed table is dumped and (update/delete) the matched keys are selected on a bare connection with the
// statement's own WHERE text.
func buildScenario(r *hutil.Rng, i int, stream string, prop string) (atrun.Scenario, Meta) {
	g0 = &genState{}
	variant := r.Intn(6)
	pred := ""
	if strings.HasPrefix(stream, "finding:") {
		pred = strings.TrimPrefix(stream, "finding:")
		if pred == "upsert.pk-listed.unique-changed" {
			variant = 5
		}
	}
	if pred == "lockkey.separator" {
		variant = 1
	}
	if pred == "" && r.Chance(1, 4) {
		variant = 5 // upserts only exist on the schema with a secondary unique index: keep it frequent
	}
	t := mkTable(r, variant, pred == "lockkey.separator")
	onlyCare := r.Chance(1, 2)
	setup := append([]string{t.ddl}, t.setup...)
	qualified := pred == "" && variant != 5 && r.Chance(1, 8)
	if qualified {
		// the statements address `oth`.<table>: a same-named table with the same keys but other contents lives in the
		// connection's own schema
		for _, q := range append([]string{t.ddl}, t.setup...) {
			q = strings.Replace(q, "CREATE TABLE "+t.name, "CREATE TABLE oth."+t.name, 1)
			setup = append(setup, strings.Replace(q, "INSERT INTO "+t.name, "INSERT INTO oth."+t.name, 1))
		}
		for c := range t.cols {
			if !t.isPK(c) && t.cols[c].Kind == "int" {
				setup = append(setup, "UPDATE "+t.name+" SET "+t.cols[c].Name+" = "+t.cols[c].Name+" + 500")
				break
			}
		}
		t.name = "oth." + t.name
	}
	sc := atrun.Scenario{Name: fmt.Sprintf("%s-%s-%d", prop, strings.ReplaceAll(stream, ":", "-"), i), Setup: setup}
	autoStep := 1
	if t.auto {
		autoStep = []int{1, 1, 2, 5}[r.Intn(4)]
		sc.Config.AutoIncrementIncrement = autoStep
	}
	sc.Config.OnlyCareUpdateColumns = &onlyCare
	meta := Meta{Stream: stream, Table: t.name, Cols: t.cols, PK: t.pk, AutoInc: t.auto, OnlyCare: onlyCare}
	body := []atrun.Step{{Op: "dump", Tables: []string{t.name}}}
	nst := 1 + r.Intn(4)
	for s := 0; s < nst; s++ {
		if !qualified && s > 0 && r.Chance(1, 4) {
			// the table-meta cache is replaced between two statements (expiry / refresh / another instance)
			body = append(body, atrun.Step{Op: "meta_refresh"})
		}
		if t.auto && s > 0 && r.Chance(1, 4) {
			// the session's auto_increment_increment changes between two statements
			autoStep = []int{1, 2, 3, 5}[r.Intn(4)]
			body = append(body, atrun.Step{Op: "db_autoinc", N: autoStep})
		}
		o := stmtOpt{where: whereOpt{depth: 1 + r.Intn(3), keyBias: true}}
		special := s == nst-1 // the stream's special statement comes last
		if stream == "malformed" && special {
			switch r.Intn(4) {
			case 0:
				o.pkChange = true
			case 1:
				o.insMode = "dup"
			case 2:
				if t.auto && t.name != "t_doc" {
					o.insMode = "mixed-pk"
				}
			}
		}
		if pred != "" && special {
			switch pred {
			case "where.node.func":
				o.where.extra = "func"
			case "where.string-literal":
				o.where.extra = "strlit"
			case "upsert.pk-listed.unique-changed":
				o.upMode = "pk-unique"
			}
		}
		var sql string
		var sm StmtMeta
		kind := r.Intn(10)
		switch {
		case o.insMode != "":
			sql, sm = genInsert(r, &t, o)
		case o.pkChange:
			sql, sm = genUpdate(r, &t, o)
		case o.where.extra != "":
			for tries := 0; ; tries++ {
				if r.Chance(1, 2) {
					sql, sm = genUpdate(r, &t, o)
				} else {
					sql, sm = genDelete(r, &t, o)
				}
				if (o.where.extra == "func" && strings.Contains(sql, "abs(?)")) || (o.where.extra == "strlit" && strings.Contains(sql[strings.Index(sql+" WHERE", " WHERE"):], "'")) || tries > 200 {
					break
				}
			}
			sm.Pred = pred
		case t.name == "t_doc" && (kind < 5 || o.upMode != "" || (stream == "malformed" && special)):
			if stream == "malformed" && special {
				o.pkChange = true
			}
			var msql string
			var margs []atrun.Arg
			sql, sm, msql, margs = genUpsert(r, &t, o)
			sm.MatchPath = fmt.Sprintf("0.%d", len(body))
			body = append(body, atrun.Step{Op: "query", Via: "bare", NoCtx: true, SQL: msql, Args: margs})
			if o.upMode != "" {
				sm.Pred = pred
			}
		case kind < 5:
			sql, sm = genUpdate(r, &t, o)
		case kind < 7:
			sql, sm = genDelete(r, &t, o)
		default:
			sql, sm = genInsert(r, &t, o)
		}
		if pred == "lockkey.separator" {
			sm.Pred = pred
		}
		if stream == "malformed" && special && !o.pkChange && o.insMode == "" && sm.Kind != "upsert" {
			// a statement the database rejects: unknown column / wrong argument count
			if r.Chance(1, 2) {
				sql = strings.Replace(sql, t.cols[len(t.cols)-1].Name, "nosuch", 1)
				if !strings.Contains(sql, "nosuch") {
					sql += " AND nosuch = 1"
				}
			} else {
				sm.Args = append(sm.Args, atrun.I(1))
			}
			sm.Expect = "reject-db" // refused by the database for a reason outside the row-level model
		}
		if sm.Kind != "insert" && sm.Kind != "upsert" {
			sel := "SELECT " + strings.Join(t.pkNames(), ", ") + " FROM " + t.name + sql[tailStart(sql):]
			nTail := strings.Count(sql[tailStart(sql):], "?")
			margs := sm.Args
			if nTail <= len(margs) {
				margs = margs[len(margs)-nTail:]
			}
			sm.MatchPath = fmt.Sprintf("0.%d", len(body))
			body = append(body, atrun.Step{Op: "query", Via: "bare", NoCtx: true, SQL: sel, Args: margs})
		}
		if qualified {
			sm.Expect = "reject-db" // a schema-qualified table is outside what the executors describe: refused, or exact
		} else if !strings.Contains(stream, "finding") {
			spelled := t.name
			if r.Chance(1, 3) {
				spelled = caseVariant(r, t.name) // table names are case-insensitive: every statement may spell its own
				sql = strings.Replace(sql, " "+t.name, " "+spelled, 1)
			}
			if sm.Kind != "upsert" && r.Chance(1, 6) {
				sql = strings.Replace(sql, " "+spelled, " `"+spelled+"`", 1) // back-quoted table name
			}
		}
		sm.Step = autoStep
		sm.DumpPre = fmt.Sprintf("0.%d", lastDump(body))
		sm.Path = fmt.Sprintf("0.%d", len(body))
		body = append(body, atrun.Step{Op: "exec", SQL: sql, Args: sm.Args})
		sm.DumpPost = fmt.Sprintf("0.%d", len(body))
		body = append(body, atrun.Step{Op: "dump", Tables: []string{t.name}})
		sm.Roots = ParseRoots(sql)
		meta.Stmts = append(meta.Stmts, sm)
	}
	sc.Steps = []atrun.Step{{Op: "gtx", Steps: body}}
	return sc, meta
}

func lastDump(body []atrun.Step) int {
	for i := len(body) - 1; i >= 0; i-- {
		if body[i].Op == "dump" {
			return i
		}
	}
	return 0
}

// index where the WHERE/ORDER/LIMIT tail of an UPDATE/DELETE starts (len(sql) if none)
func tailStart(sql string) int {
	for _, kw := range []string{" WHERE ", " ORDER BY ", " LIMIT "} {
		if i := strings.Index(sql, kw); i >= 0 {
			return i
		}
	}
	return len(sql)
}

// genUpsert: INSERT ... ON DUPLICATE KEY UPDATE on t_doc (auto-increment key ID, unique (docname, ver)); returns the
// statement, its metadata and a bare SELECT of the keys of the existing rows it collides with.
func genUpsert(r *hutil.Rng, t *table, o stmtOpt) (string, StmtMeta, string, []atrun.Arg) {
	m := StmtMeta{Kind: "upsert", Expect: "ok"}
	pkListed := r.Chance(1, 3) || o.upMode == "pk-unique"
	nrows := 1 + r.Intn(2)
	if o.upMode == "pk-unique" {
		nrows = 1
	}
	m.NRows = nrows
	b := &sqlb{}
	if pkListed {
		b.w("INSERT INTO t_doc (ID, docname, ver, body) VALUES ")
	} else {
		b.w("INSERT INTO t_doc (docname, ver, body) VALUES ")
	}
	var arms []string
	var margs []atrun.Arg
	val := func(a atrun.Arg) {
		if r.Chance(3, 5) {
			b.w("?")
			b.args = append(b.args, a)
		} else {
			b.w(litOf(a))
		}
	}
	for row := 0; row < nrows; row++ {
		if row > 0 {
			b.w(", ")
		}
		b.w("(")
		pair := [2]string{"n" + strconv.FormatInt(g0.freshInt(), 10), "1"}
		collide := r.Chance(1, 2) && len(t.pairs) > 0
		if pkListed {
			id := atrun.I(g0.freshInt())
			if r.Chance(1, 4) && o.upMode == "" {
				id = atrun.I(int64(1 + r.Intn(t.nkeys))) // collides on the primary key only
				collide = false
			}
			val(id)
			b.w(", ")
			arms = append(arms, "ID = ?")
			margs = append(margs, id)
		}
		if collide || o.upMode == "pk-unique" {
			pair = t.pairs[r.Intn(len(t.pairs))]
		}
		ver, _ := strconv.ParseInt(pair[1], 10, 64)
		val(atrun.S(pair[0]))
		b.w(", ")
		val(atrun.I(ver))
		b.w(", ")
		val(atrun.S("b" + strconv.Itoa(r.Intn(40))))
		b.w(")")
		arms = append(arms, "(docname = ? AND ver = ?)")
		margs = append(margs, atrun.S(pair[0]), atrun.I(ver))
	}
	b.w(" ON DUPLICATE KEY UPDATE ")
	switch {
	case o.pkChange:
		b.w("ID = ID + 100")
		m.Cols = []int{0}
		m.Expect = "reject"
	case o.upMode == "pk-unique" || (nrows == 1 && !pkListed && r.Chance(1, 2)):
		b.w("ver = ver + 10")
		m.Cols = []int{2}
	case r.Chance(1, 2):
		b.w("body = VALUES(body)")
		m.Cols = []int{3}
	default:
		b.w("body = ?")
		b.args = append(b.args, atrun.S("d"+strconv.Itoa(r.Intn(40))))
		m.Cols = []int{3}
	}
	m.Args = b.args
	return b.sb.String(), m, "SELECT ID FROM t_doc WHERE " + strings.Join(arms, " OR "), margs
}

// caseVariant: another spelling of a (case-insensitive) table name
func caseVariant(r *hutil.Rng, name string) string {
	switch r.Intn(3) {
	case 0:
		return strings.ToUpper(name)
	case 1:
		b := []byte(strings.ToLower(name))
		for i := range b {
			if i%2 == 0 && b[i] >= 'a' && b[i] <= 'z' {
				b[i] -= 32
			}
		}
		return string(b)
	}
	return strings.ToUpper(name[:1]) + name[1:]
}
