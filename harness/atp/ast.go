package atp

import (
	"reflect"

	"github.com/arana-db/parser"
	"github.com/arana-db/parser/ast"
	"github.com/arana-db/parser/test_driver"
)

// Expr is the generic syntax tree handed to the Coq model: a parameter marker (P = its 0-based
// textual order) or a node (K = Go type name of the parser node, C = child-bearing fields in
// declaration order, a slice field repeated once per element).
type Expr struct {
	P *int    `json:"p,omitempty"`
	K string  `json:"k,omitempty"`
	C []Child `json:"c,omitempty"`
}
type Child struct {
	F string `json:"f"`
	E Expr   `json:"e"`
}
type Root struct {
	Name string `json:"name"`
	E    Expr   `json:"e"`
}

var nodeType = reflect.TypeOf((*ast.Node)(nil)).Elem()

// DumpNode walks a parser node by reflection: every exported field that holds a Node (or a slice of
// Nodes) is a child. Nothing about the code under check is used here.
func DumpNode(n ast.Node) Expr {
	if pm, ok := n.(*test_driver.ParamMarkerExpr); ok {
		o := pm.Order
		return Expr{P: &o}
	}
	v := reflect.ValueOf(n)
	for v.Kind() == reflect.Ptr || v.Kind() == reflect.Interface {
		if v.IsNil() {
			return Expr{K: "nil"}
		}
		v = v.Elem()
	}
	e := Expr{K: v.Type().Name()}
	if v.Kind() != reflect.Struct {
		return e
	}
	for i := 0; i < v.NumField(); i++ {
		f := v.Type().Field(i)
		if f.PkgPath != "" || f.Anonymous {
			continue
		}
		fv := v.Field(i)
		switch {
		case f.Type.Implements(nodeType):
			if (fv.Kind() == reflect.Ptr || fv.Kind() == reflect.Interface) && fv.IsNil() {
				continue
			}
			if c, ok := fv.Interface().(ast.Node); ok && c != nil {
				e.C = append(e.C, Child{F: f.Name, E: DumpNode(c)})
			}
		case f.Type.Kind() == reflect.Slice && f.Type.Elem().Implements(nodeType):
			for j := 0; j < fv.Len(); j++ {
				ev := fv.Index(j)
				if (ev.Kind() == reflect.Ptr || ev.Kind() == reflect.Interface) && ev.IsNil() {
					continue
				}
				if c, ok := ev.Interface().(ast.Node); ok && c != nil {
					e.C = append(e.C, Child{F: f.Name, E: DumpNode(c)})
				}
			}
		}
	}
	return e
}

// ParseRoots parses one UPDATE / DELETE / SELECT and returns the WHERE, ORDER BY items and LIMIT
// operands as roots named like the fields of the SELECT statement the executors build.
func ParseRoots(sql string) []Root {
	nodes, _, err := parser.New().Parse(sql, "", "")
	if err != nil || len(nodes) != 1 {
		return nil
	}
	var where ast.ExprNode
	var order *ast.OrderByClause
	var limit *ast.Limit
	switch s := nodes[0].(type) {
	case *ast.UpdateStmt:
		where, order, limit = s.Where, s.Order, s.Limit
	case *ast.DeleteStmt:
		where, order, limit = s.Where, s.Order, s.Limit
	case *ast.SelectStmt:
		where, order, limit = s.Where, s.OrderBy, s.Limit
	default:
		return nil
	}
	var out []Root
	if where != nil {
		out = append(out, Root{"Where", DumpNode(where)})
	}
	if order != nil {
		for _, it := range order.Items {
			out = append(out, Root{"OrderBy.Items", DumpNode(it)})
		}
	}
	if limit != nil {
		if limit.Offset != nil {
			out = append(out, Root{"Limit.Offset", DumpNode(limit.Offset)})
		}
		if limit.Count != nil {
			out = append(out, Root{"Limit.Count", DumpNode(limit.Count)})
		}
	}
	return out
}
