// Package proxyrun (C16): differential runs of generated statement programs
// through the AT proxy, the XA proxy and the bare driver from identical
// databases (harness/atrun over fakedb + tcstub). For every program it emits
// the tokenised journals (for the Coq correspondence) and evaluates the
// property's own statement on the real runs (direct oracle).
package proxyrun

import (
	"encoding/json"
	"fmt"
	"os"
	"reflect"
	"regexp"
	"sort"
	"strings"

	"github.com/arana-db/parser/ast"
	"github.com/arana-db/parser/test_driver"

	"seata.apache.org/seata-go/pkg/datasource/sql/parser"
	"seata.apache.org/seata-go/pkg/datasource/sql/types"

	"verifh/atrun"
	"verifh/fakedb"
	"verifh/hutil"
)

// ---------------------------------------------------------------- programs

// Op is one user-level operation of a program.
type Op struct {
	K        string      `json:"k"`              // stmt | begin | commit | rollback
	Conn     string      `json:"conn,omitempty"` // "" = pool
	SQL      string      `json:"sql,omitempty"`
	Args     []atrun.Arg `json:"args,omitempty"`
	Query    bool        `json:"query,omitempty"`
	Prepared bool        `json:"prepared,omitempty"`
	Plain    bool        `json:"plain,omitempty"`     // inside a global-transaction segment: use a context WITHOUT the xid for this operation
	ReadOnly bool        `json:"read_only,omitempty"` // begin: sql.TxOptions
	Iso      int         `json:"iso,omitempty"`       // begin: sql.IsolationLevel (0 default)
	// Fault (operations of segments without a global transaction only): a one-shot database fault armed right before
	// the operation and disarmed after it, identical in every run: action error | after | drop at the operation's own
	// call (COMMIT / ROLLBACK / BEGIN, or the call carrying the statement's verbatim text; skip=1: its second call,
	// i.e. the STMT_EXEC / STMT_QUERY after the PREPARE)
	Fault *OpFault `json:"fault,omitempty"`
	// filled by Describe:
	Expect  string `json:"expect,omitempty"`   // the operation lies in the input predicate of a listed finding: "<pred>=<expected error class>" (fails, no effect)
	SQLType string `json:"sql_type,omitempty"` // identifier of the repo's types.SQLType constant the repo's own parser assigns ("unparsed" when it rejects the text)
}

// OpFault: see Op.Fault.
type OpFault struct {
	Action string `json:"action"`
	Skip   int    `json:"skip,omitempty"`
}

func faultStep(o Op) *atrun.Step {
	if o.Fault == nil {
		return nil
	}
	f := fakedb.Fault{Action: o.Fault.Action, Skip: o.Fault.Skip, Count: 1}
	switch o.K {
	case "begin":
		f.Kinds = []string{fakedb.JBegin}
	case "commit":
		f.Kinds = []string{fakedb.JCommit}
	case "rollback":
		f.Kinds = []string{fakedb.JRollback}
	default:
		if o.SQL == "" {
			return nil
		}
		f.Pattern = "^" + regexp.QuoteMeta(o.SQL) + "$"
	}
	return &atrun.Step{Op: "db_fault", Fault: &f}
}

// Segment is a run of ops outside (Gtx=false) or inside one committed global transaction.
type Segment struct {
	Gtx bool `json:"gtx"`
	Ops []Op `json:"ops"`
}

// Program is one generated case.
type Program struct {
	Name   string    `json:"name"`
	Stream string    `json:"stream"` // clean-out | clean-in | malformed | finding:<pred>
	Params string    `json:"params,omitempty"`
	Setup  []string  `json:"setup"`
	Segs   []Segment `json:"segs"`
	// XAMix: also run through the XA proxy although there is a global transaction (exactly one, holding one
	// autocommit statement on the pool; phase two commit is delivered right after it); Version: SELECT VERSION()
	XAMix   bool   `json:"xa_mix,omitempty"`
	Version string `json:"version,omitempty"`
}

var sqlTypeNames = map[types.SQLType]string{
	types.SQLTypeSelect: "SQLTypeSelect", types.SQLTypeInsert: "SQLTypeInsert", types.SQLTypeUpdate: "SQLTypeUpdate",
	types.SQLTypeDelete: "SQLTypeDelete", types.SQLTypeSelectForUpdate: "SQLTypeSelectForUpdate",
	types.SQLTypeInsertOnDuplicateUpdate: "SQLTypeInsertOnDuplicateUpdate", types.SQLTypeMulti: "SQLTypeMulti",
}

type strLitFinder struct{ found bool }

func (f *strLitFinder) Enter(n ast.Node) (ast.Node, bool) {
	if v, ok := n.(*test_driver.ValueExpr); ok && (v.Kind() == test_driver.KindString || v.Kind() == test_driver.KindBytes) {
		f.found = true
	}
	return n, false
}
func (f *strLitFinder) Leave(n ast.Node) (ast.Node, bool) { return n, true }

func whereHasStringLiteral(pc *types.ParseContext) bool {
	var w ast.ExprNode
	switch {
	case pc.UpdateStmt != nil:
		w = pc.UpdateStmt.Where
	case pc.DeleteStmt != nil:
		w = pc.DeleteStmt.Where
	}
	if w == nil {
		return false
	}
	f := &strLitFinder{}
	w.Accept(f)
	return f.found
}

// temporalImage: the image the AT executor takes for the statement holds a temporal column: DELETE and upsert
// image whole rows of a table that has one; INSERT / UPDATE image the columns they name.
func temporalImage(p *Program, ty types.SQLType, sql string) bool {
	low := " " + strings.ToLower(sql) + " "
	for _, ddl := range p.Setup {
		d := strings.ToLower(ddl)
		if !strings.HasPrefix(d, "create table ") {
			continue
		}
		name := strings.Fields(d[len("create table "):])[0]
		if !strings.Contains(low, " "+name+" ") && !strings.Contains(low, " "+name+"(") {
			continue
		}
		for _, def := range strings.Split(d[strings.Index(d, "(")+1:], ",") {
			f := strings.Fields(def)
			if len(f) < 2 || !(strings.HasPrefix(f[1], "date") || strings.HasPrefix(f[1], "timestamp")) {
				continue
			}
			if ty == types.SQLTypeDelete || ty == types.SQLTypeInsertOnDuplicateUpdate {
				return true
			}
			head := low
			if i := strings.Index(low, " where "); i >= 0 {
				head = low[:i]
			}
			for _, sep := range []string{" ", ",", "("} {
				for _, end := range []string{" ", ",", ")", "="} {
					if strings.Contains(head, sep+f[0]+end) {
						return true
					}
				}
			}
		}
	}
	return false
}

func interpolates(params string) bool {
	if params == "" {
		return true
	}
	return strings.Contains(params, "interpolateParams=true")
}

// Describe classifies every statement with the repository's own parser and
// marks the operations inside the input predicate of a listed finding with the
// outcome the finding describes.
func Describe(p *Program) {
	for si := range p.Segs {
		for oi := range p.Segs[si].Ops {
			o := &p.Segs[si].Ops[oi]
			o.Expect = ""
			if o.K != "stmt" {
				continue
			}
			pc, err := parser.DoParser(o.SQL)
			if err != nil {
				o.SQLType = "unparsed"
				continue
			}
			if n, ok := sqlTypeNames[pc.SQLType]; ok {
				o.SQLType = n
			} else {
				o.SQLType = fmt.Sprintf("SQLType#%d", int(pc.SQLType))
			}
			xid := p.Segs[si].Gtx && !o.Plain
			dml := pc.SQLType == types.SQLTypeUpdate || pc.SQLType == types.SQLTypeDelete
			anyDML := dml || pc.SQLType == types.SQLTypeInsert || pc.SQLType == types.SQLTypeInsertOnDuplicateUpdate
			switch {
			case xid && dml && !o.Query && o.Prepared:
				// Stmt.ExecContext inside a global transaction: the image builders have no connection (or, before the
				// table is in the meta cache, no schema name to look it up)
				o.Expect = "stmt.prepared-in-gtx=seata:invalid-conn|seata:no-table-meta"
			case xid && (pc.SQLType == types.SQLTypeUpdate || pc.SQLType == types.SQLTypeDelete) && whereHasStringLiteral(pc):
				o.Expect = "where.string-literal=sql:1054"
			case xid && anyDML && !o.Prepared && o.Conn == "" && strings.Contains(p.Params, "parseTime=false") && temporalImage(p, pc.SQLType, o.SQL):
				// the image builder scans DATE/DATETIME/TIMESTAMP columns into time.Time, which needs parseTime=true
				o.Expect = "dsn.parsetime-off.temporal=seata:scan-error"
			}
		}
	}
}

// Scenario builds the atrun scenario of a program for a mode (at|xa|bare).
func Scenario(p *Program, mode string) atrun.Scenario {
	sc := atrun.Scenario{Name: p.Name, Mode: mode, Params: p.Params, Setup: p.Setup, Version: p.Version}
	sc.Config.StepLimitMs = 5000
	sc.Steps = append(sc.Steps, atrun.Step{Op: "query", SQL: "SELECT 1"}) // warm-up: opens the handle (not compared)
	conv := func(o Op) atrun.Step {
		switch o.K {
		case "begin":
			return atrun.Step{Op: "tx_begin", Conn: o.Conn, NoCtx: o.Plain, ReadOnly: o.ReadOnly, Isolation: o.Iso}
		case "commit":
			return atrun.Step{Op: "tx_commit", Conn: o.Conn}
		case "rollback":
			return atrun.Step{Op: "tx_rollback", Conn: o.Conn}
		}
		st := atrun.Step{Op: "exec", Conn: o.Conn, SQL: o.SQL, Args: o.Args, Prepared: o.Prepared, NoCtx: o.Plain}
		if o.Expect != "" && mode == "bare" {
			// the reference run: the finding says the statement fails WITHOUT effect, so the bare
			// driver does not execute it (everything after it is still compared)
			// (a SELECT 1 on the same connection keeps the pool history of the two runs alike)
			return atrun.Step{Op: "query", Conn: o.Conn, SQL: "SELECT 1", NoCtx: o.Plain}
		}
		if o.Query {
			st.Op = "query"
		}
		return st
	}
	for _, sg := range p.Segs {
		if !sg.Gtx {
			for _, o := range sg.Ops {
				fs := faultStep(o)
				if fs != nil {
					sc.Steps = append(sc.Steps, *fs)
				}
				sc.Steps = append(sc.Steps, conv(o))
				if fs != nil {
					sc.Steps = append(sc.Steps, atrun.Step{Op: "db_fault_clear"})
				}
			}
			continue
		}
		g := atrun.Step{Op: "gtx"}
		for _, o := range sg.Ops {
			g.Steps = append(g.Steps, conv(o))
		}
		sc.Steps = append(sc.Steps, g)
		if mode == "xa" {
			sc.Steps = append(sc.Steps, atrun.Step{Op: "phase2", Action: "commit", Gtx: -1, Branch: -1})
		}
	}
	return sc
}

// ---------------------------------------------------------------- observations

// Tok is one tokenised journal event of a step window.
type Tok struct {
	T  string `json:"t"`  // BEGIN COMMIT ROLLBACK BIZ:<KIND> IMG SP UNDOP UNDO META TC:<kind> X:<what>
	Ok bool   `json:"ok"` // the call succeeded
	Nz bool   `json:"nz"` // a result set with at least one row
}

// Raw is the strict projection of a journal entry (outside clause: nothing erased).
type Raw struct {
	Conn     int      `json:"conn"` // canonical: order of first appearance after the warm-up
	Kind     string   `json:"kind"`
	SQL      string   `json:"sql"`
	Args     []string `json:"args"`
	Err      string   `json:"err"`
	Affected int64    `json:"affected"`
	LastID   int64    `json:"last_id"`
	NRows    int      `json:"nrows"`
	InTx     bool     `json:"in_tx"`
	Implicit bool     `json:"implicit"`
}

// StepObs is what one mode observed for one op.
type StepObs struct {
	Class    string        `json:"class"`
	ErrClass string        `json:"err_class"`
	Affected int64         `json:"affected"`
	LastID   int64         `json:"last_id"`
	Columns  []string      `json:"columns"`
	ColTypes []string      `json:"col_types"`
	Rows     [][]atrun.Val `json:"rows"`
	Toks     []Tok         `json:"toks"`
	Raw      []Raw         `json:"raw"`
	TC       []string      `json:"tc"`
	ErrText  string        `json:"err_text,omitempty"`
}

// ModeObs is one run.
type ModeObs struct {
	Mode     string             `json:"mode"`
	SetupErr string             `json:"setup_err,omitempty"`
	Steps    []StepObs          `json:"steps"` // one per op, in program order (segments flattened)
	GtxClass []string           `json:"gtx_class"`
	Dump     []fakedb.TableDump `json:"dump"` // without undo_log
	OpenTx   int                `json:"open_tx"`
	Locks    int                `json:"locks"`
	PoolRet  int                `json:"pool_returns_in_tx"`
	Phase2   []string           `json:"phase2,omitempty"`
}

// FlatOp is an op with its position.
type FlatOp struct {
	Op
	Gtx bool `json:"gtx"` // the operation's context carries an xid
	Seg int  `json:"seg"`
}

// Case is the output record of one program.
type Case struct {
	Program Program  `json:"program"`
	Ops     []FlatOp `json:"ops"`
	Bare    *ModeObs `json:"bare"`
	AT      *ModeObs `json:"at"`
	XA      *ModeObs `json:"xa,omitempty"`
	Oracle  []string `json:"oracle"` // violations of the property's own statement on the real runs
	Known   []string `json:"known"`  // finding predicates whose described outcome was observed
	Feat    []string `json:"feat"`   // features (evidence distribution)
}

func isInfoSchema(sql string) bool {
	return strings.Contains(strings.ToUpper(sql), "INFORMATION_SCHEMA")
}

// metaConns: the connections of the proxy's private pool that only ever ran
// the table-metadata queries (INFORMATION_SCHEMA). The cache behind them is
// also refreshed by a background goroutine, so their traffic is not tied to a
// statement window and is left out of every comparison.
func metaConns(tr *atrun.Trace) map[int]bool {
	meta, other := map[int]bool{}, map[int]bool{}
	for _, e := range tr.Journal {
		if e.DB == nil {
			continue
		}
		switch e.DB.Kind {
		case fakedb.JReset, fakedb.JConnect, fakedb.JClose:
		case fakedb.JPrepare, fakedb.JStmtQuery:
			if isInfoSchema(e.DB.SQL) {
				meta[e.DB.Conn] = true
			} else {
				other[e.DB.Conn] = true
			}
		default:
			other[e.DB.Conn] = true
		}
	}
	for c := range other {
		delete(meta, c)
	}
	return meta
}

func tokenize(tr *atrun.Trace, meta map[int]bool, st atrun.StepResult, business string, isStmt bool, canon map[int]int, strict bool) ([]Tok, []Raw, []string) {
	toks, raws, tcs := []Tok{}, []Raw{}, []string{}
	for _, e := range tr.Journal {
		if e.Seq <= st.SeqFrom || e.Seq > st.SeqTo {
			continue
		}
		if e.DB != nil && meta[e.DB.Conn] {
			continue
		}
		if e.TC != nil {
			if strings.HasPrefix(e.TC.Kind, "AsyncRequest") {
				continue // heartbeat-like traffic of the background client
			}
			toks = append(toks, Tok{T: "TC:" + e.TC.Kind, Ok: e.TC.Outcome == "ok"})
			tcs = append(tcs, e.TC.Kind)
			continue
		}
		d := e.DB
		args := []string{}
		for _, a := range d.Args {
			args = append(args, a.K+":"+a.V)
		}
		if strict {
			// connection identity is compared outside global transactions only;
			// numbered by first appearance in those windows
			if _, ok := canon[d.Conn]; !ok {
				canon[d.Conn] = len(canon) + 1
			}
		}
		raws = append(raws, Raw{Conn: canon[d.Conn], Kind: d.Kind, SQL: d.SQL, Args: args, Err: d.Err, Affected: d.Affected,
			LastID: d.LastID, NRows: d.NRows, InTx: d.InTx, Implicit: d.Implicit})
		ok, nz := d.Err == "", d.NRows > 0
		low := strings.ToLower(strings.TrimSpace(d.SQL))
		switch {
		case d.Kind == fakedb.JReset || d.Kind == fakedb.JConnect || d.Kind == fakedb.JClose:
		case d.Kind == fakedb.JBegin || d.Kind == fakedb.JCommit || d.Kind == fakedb.JRollback:
			toks = append(toks, Tok{T: d.Kind, Ok: ok})
		case !isStmt && d.Kind == fakedb.JExec && strings.HasPrefix(d.SQL, "SET TRANSACTION ISOLATION LEVEL"):
			toks = append(toks, Tok{T: "ISO", Ok: ok})
		case isStmt && d.SQL == business:
			toks = append(toks, Tok{T: "BIZ:" + d.Kind, Ok: ok, Nz: nz})
		case isInfoSchema(d.SQL):
			toks = append(toks, Tok{T: "META", Ok: ok})
		case strings.HasPrefix(low, "insert into undo_log"):
			if d.Kind == fakedb.JPrepare {
				toks = append(toks, Tok{T: "UNDOP", Ok: ok})
			} else {
				toks = append(toks, Tok{T: "UNDO", Ok: ok})
			}
		case strings.HasPrefix(low, "savepoint "), strings.HasPrefix(low, "rollback to "), strings.HasPrefix(low, "release savepoint "):
			toks = append(toks, Tok{T: "SP", Ok: ok})
		case d.Kind == fakedb.JPrepare && (strings.HasPrefix(low, "select") || strings.HasPrefix(low, "show variables")):
			// an image / auxiliary query issued through a prepared statement (the driver answered ErrSkip to the
			// direct call): it counts once, at its STMT_QUERY
			if !ok {
				toks = append(toks, Tok{T: "X:" + d.Kind, Ok: ok})
			}
		case (d.Kind == fakedb.JQuery || d.Kind == fakedb.JStmtQuery) && strings.HasPrefix(low, "show variables"):
			toks = append(toks, Tok{T: "AUX", Ok: ok, Nz: nz})
		case (d.Kind == fakedb.JQuery || d.Kind == fakedb.JStmtQuery) && strings.HasPrefix(low, "select"):
			toks = append(toks, Tok{T: "IMG", Ok: ok, Nz: nz})
		default:
			toks = append(toks, Tok{T: "X:" + d.Kind, Ok: ok, Nz: nz})
		}
	}
	return toks, raws, tcs
}

func observe(p *Program, mode string) *ModeObs {
	tr := atrun.Run(Scenario(p, mode))
	mo := &ModeObs{Mode: mode, SetupErr: tr.SetupErr, Steps: []StepObs{}, GtxClass: []string{}, Dump: []fakedb.TableDump{}}
	if tr.SetupErr != "" {
		return mo
	}
	canon := map[int]int{}
	meta := metaConns(tr)
	add := func(st atrun.StepResult, o Op, strict bool) {
		toks, raws, tcs := tokenize(tr, meta, st, o.SQL, o.K == "stmt", canon, strict)
		so := StepObs{Class: st.Class, ErrClass: st.ErrClass, Affected: st.Affected, LastID: st.LastID, Columns: st.Columns,
			ColTypes: st.ColTypes, Rows: st.Rows, Toks: toks, Raw: raws, TC: tcs}
		if st.Class != "ok" {
			so.ErrText = st.ErrText
			if len(so.ErrText) > 200 {
				so.ErrText = so.ErrText[:200]
			}
		}
		mo.Steps = append(mo.Steps, so)
	}
	si := 1 // step 0 is the warm-up
	for _, sg := range p.Segs {
		if !sg.Gtx {
			for _, o := range sg.Ops {
				faulted := faultStep(o) != nil
				if faulted {
					si++
				}
				if si < len(tr.Steps) {
					add(tr.Steps[si], o, true)
				}
				si++
				if faulted {
					si++
				}
			}
			continue
		}
		if si < len(tr.Steps) {
			g := tr.Steps[si]
			mo.GtxClass = append(mo.GtxClass, g.Class+"/"+g.ErrClass)
			for i, o := range sg.Ops {
				if i < len(g.Sub) {
					add(g.Sub[i], o, o.Plain)
				}
			}
		}
		si++
		if mode == "xa" {
			if si < len(tr.Steps) {
				for _, r := range tr.Steps[si].Phase2 {
					mo.Phase2 = append(mo.Phase2, fmt.Sprintf("%s/replied=%v/status=%d", r.Class, r.Replied, r.Status))
				}
			}
			si++
		}
	}
	for _, d := range tr.FinalDump {
		if strings.ToLower(d.Name) != "undo_log" {
			mo.Dump = append(mo.Dump, d)
		}
	}
	mo.OpenTx, mo.Locks, mo.PoolRet = len(tr.OpenTxAtEnd), len(tr.DBLocksAtEnd), len(tr.PoolReturnsTx)
	return mo
}

// sameResult compares what the caller sees.
func sameResult(a, b StepObs) string {
	switch {
	case a.Class != b.Class || a.ErrClass != b.ErrClass:
		return fmt.Sprintf("outcome %s/%s vs %s/%s", a.Class, a.ErrClass, b.Class, b.ErrClass)
	case a.Affected != b.Affected:
		return fmt.Sprintf("affected %d vs %d", a.Affected, b.Affected)
	case a.LastID != b.LastID:
		return fmt.Sprintf("generated id %d vs %d", a.LastID, b.LastID)
	case !reflect.DeepEqual(a.Columns, b.Columns) || !reflect.DeepEqual(a.ColTypes, b.ColTypes):
		return "result columns differ"
	case !reflect.DeepEqual(a.Rows, b.Rows):
		return "result rows differ"
	}
	return ""
}

// eraseExtra removes what the property allows the AT proxy to add inside a
// global transaction: image / metadata SELECTs, savepoints of the locking
// read, the undo-log insert, coordinator messages, and the local transaction
// bracket around an autocommit statement.
func eraseExtra(toks []Tok, bracket bool) []Tok {
	out := []Tok{}
	for _, t := range toks {
		switch {
		case t.T == "IMG", t.T == "AUX", t.T == "META", t.T == "SP", t.T == "UNDO", t.T == "UNDOP", strings.HasPrefix(t.T, "TC:"):
		case bracket && (t.T == "BEGIN" || t.T == "COMMIT" || t.T == "ROLLBACK"):
		default:
			out = append(out, t)
		}
	}
	return out
}

func tokStr(ts []Tok) string {
	s := []string{}
	for _, t := range ts {
		x := t.T
		if !t.Ok {
			x += "!"
		}
		s = append(s, x)
	}
	return strings.Join(s, " ")
}

// oracle evaluates C16's own statement on the real runs.
func oracle(c *Case) {
	flat := c.Ops
	known := map[string]bool{}
	check := func(name string, m *ModeObs) {
		if m == nil {
			return
		}
		if m.SetupErr != "" || c.Bare.SetupErr != "" {
			c.Oracle = append(c.Oracle, "setup failed: "+m.SetupErr+c.Bare.SetupErr)
			return
		}
		if len(m.Steps) != len(flat) || len(c.Bare.Steps) != len(flat) {
			c.Oracle = append(c.Oracle, fmt.Sprintf("%s: %d of %d ops produced an outcome (bare %d)", name, len(m.Steps), len(flat), len(c.Bare.Steps)))
			return
		}
		inTx := map[string]bool{}
		for i, o := range flat {
			a, b := m.Steps[i], c.Bare.Steps[i]
			where := fmt.Sprintf("%s op %d (%s %s xid-ctx=%v conn=%q prepared=%v) [%s]", name, i, o.K, o.SQLType, o.Gtx, o.Conn, o.Prepared, o.SQL)
			if o.Expect != "" && name == "at" {
				// inside a listed finding's predicate: the DESCRIBED outcome must be observed (the bare
				// reference did not run the statement); anything else in the region is a violation
				pred, want := o.Expect, ""
				if j := strings.IndexByte(o.Expect, '='); j >= 0 {
					pred, want = o.Expect[:j], o.Expect[j+1:]
				}
				applied := false
				for _, t := range a.Toks {
					if (t.T == "BIZ:EXEC" || t.T == "BIZ:STMT_EXEC") && t.Ok {
						applied = true
					}
					if t.T == "ROLLBACK" && t.Ok {
						applied = false // executed inside the proxy's bracket, which was rolled back
					}
				}
				got := a.ErrClass
				if got == "other" && strings.Contains(a.ErrText, "columnMeta") {
					got = "seata:no-table-meta"
				}
				if got == "other" && strings.Contains(a.ErrText, "Scan error") {
					got = "seata:scan-error"
				}
				okClass := false
				for _, w := range strings.Split(want, "|") {
					okClass = okClass || w == got
				}
				if a.Class != "err" || !okClass || applied {
					c.Oracle = append(c.Oracle, fmt.Sprintf("%s: inside the predicate of finding %s the outcome is %s/%s (applied=%v), the finding describes err/%s without effect",
						where, pred, a.Class, got, applied, want))
				} else {
					known[pred] = true
				}
				continue
			}
			if d := sameResult(a, b); d != "" {
				c.Oracle = append(c.Oracle, where+": caller-visible result differs from the bare driver: "+d)
			}
			switch {
			case !o.Gtx:
				if !reflect.DeepEqual(a.Raw, b.Raw) {
					c.Oracle = append(c.Oracle, where+": outside a global transaction the statements reaching the database differ from the bare run")
				}
				if len(a.TC) > 0 {
					c.Oracle = append(c.Oracle, where+": coordinator traffic outside a global transaction: "+strings.Join(a.TC, ","))
				}
			case name == "xa":
				// the XA branch protocol itself is C17's subject; here only the result (above) and the data (below)
			default:
				bracket := o.K == "stmt" && !inTx[o.Conn]
				ea, eb := eraseExtra(a.Toks, bracket), eraseExtra(b.Toks, false)
				if !reflect.DeepEqual(ea, eb) {
					c.Oracle = append(c.Oracle, fmt.Sprintf("%s: inside a global transaction the journal minus the allowed extras is [%s], the bare run's is [%s]", where, tokStr(ea), tokStr(eb)))
				}
			}
			switch o.K {
			case "begin":
				inTx[o.Conn] = true
			case "commit", "rollback":
				inTx[o.Conn] = false
			}
		}
		if !reflect.DeepEqual(m.Dump, c.Bare.Dump) {
			c.Oracle = append(c.Oracle, name+": committed data at the end differs from the bare run")
		}
		if m.PoolRet > c.Bare.PoolRet {
			c.Oracle = append(c.Oracle, fmt.Sprintf("%s: a connection went back to the pool inside an open local transaction (%d times; bare run %d)", name, m.PoolRet, c.Bare.PoolRet))
		}
		if m.OpenTx > c.Bare.OpenTx || m.Locks > c.Bare.Locks {
			c.Oracle = append(c.Oracle, fmt.Sprintf("%s: %d transactions / %d row locks are still open at the end (bare run %d / %d)", name, m.OpenTx, m.Locks, c.Bare.OpenTx, c.Bare.Locks))
		}
	}
	check("at", c.AT)
	check("xa", c.XA)
	for k := range known {
		c.Known = append(c.Known, k)
	}
	sort.Strings(c.Known)
}

func hasGtx(p *Program) bool {
	for _, s := range p.Segs {
		if s.Gtx {
			return true
		}
	}
	return false
}

// RunProgram runs one program through the three drivers.
func RunProgram(p Program) Case {
	Describe(&p)
	c := Case{Program: p, Oracle: []string{}, Feat: []string{}, Known: []string{}}
	for si, sg := range p.Segs {
		for _, o := range sg.Ops {
			c.Ops = append(c.Ops, FlatOp{Op: o, Gtx: sg.Gtx && !o.Plain, Seg: si})
		}
	}
	c.Bare = observe(&p, "bare")
	c.AT = observe(&p, "at")
	if !hasGtx(&p) || p.XAMix {
		c.XA = observe(&p, "xa")
	}
	oracle(&c)
	feat := map[string]bool{}
	for _, o := range c.Ops {
		g := "out"
		if o.Gtx {
			g = "in"
		}
		if o.K == "stmt" {
			feat[g+"."+o.SQLType] = true
			if o.Prepared {
				feat[g+".prepared"] = true
			}
			if len(o.Args) > 0 {
				feat[g+".bound-args"] = true
			}
			if o.Conn != "" {
				feat[g+".named-conn"] = true
			}
			if o.Plain {
				feat["in.plain-ctx-stmt"] = true
			}
			if o.Fault != nil {
				feat["fault.stmt."+o.Fault.Action] = true
			}
			if o.Expect != "" {
				feat["finding."+strings.SplitN(o.Expect, "=", 2)[0]] = true
			}
		} else {
			feat[g+".tx-"+o.K] = true
			if o.Fault != nil {
				feat["fault."+o.K+"."+o.Fault.Action] = true
			}
			if o.ReadOnly || o.Iso != 0 {
				feat["tx-options"] = true
			}
		}
	}
	for i, s := range c.Bare.Steps {
		if s.ErrClass != "none" && i < len(c.Ops) {
			feat["err."+s.ErrClass] = true
		}
	}
	for k := range feat {
		c.Feat = append(c.Feat, k)
	}
	sort.Strings(c.Feat)
	return c
}

// Output of the sub-command.
type Output struct {
	Seed  uint64 `json:"seed"`
	Cases []Case `json:"cases"`
}

// Main: proxyrun out=<file> seed=<n> nout=<k> nin=<k> nmal=<k> nfind=<k> | replay=<programs.json>
func Main(args map[string]string) {
	out := hutil.ArgStr(args, "out", "")
	seed := hutil.ArgU64(args, "seed", 1)
	o := Output{Seed: seed, Cases: []Case{}}
	if f := hutil.ArgStr(args, "replay", ""); f != "" {
		b, err := os.ReadFile(f)
		if err != nil {
			fmt.Fprintln(os.Stderr, err)
			os.Exit(2)
		}
		var ps []Program
		if err := json.Unmarshal(b, &ps); err != nil {
			fmt.Fprintln(os.Stderr, err)
			os.Exit(2)
		}
		for _, p := range ps {
			o.Cases = append(o.Cases, RunProgram(p))
		}
		hutil.WriteJSON(out, o)
		return
	}
	rng := hutil.NewRng(seed)
	gen := func(n int, stream string, g func(r *hutil.Rng, i int) Program) {
		for i := 0; i < n; i++ {
			p := g(rng.Fork(uint64(i)), i)
			p.Stream = stream
			p.Name = fmt.Sprintf("%s-%d", strings.ReplaceAll(stream, ":", "-"), i)
			o.Cases = append(o.Cases, RunProgram(p))
		}
	}
	gen(hutil.ArgInt(args, "nout", 40), "clean-out", GenOutside)
	gen(hutil.ArgInt(args, "nin", 40), "clean-in", GenInside)
	gen(hutil.ArgInt(args, "nmal", 20), "malformed", GenMalformed)
	gen(hutil.ArgInt(args, "nxa", 20), "xa-mix", GenXAMix)
	nf := hutil.ArgInt(args, "nfind", 4)
	for _, pred := range FindingPreds {
		pred := pred
		gen(nf, "finding:"+pred, func(r *hutil.Rng, i int) Program { return GenFinding(pred, r, i) })
	}
	hutil.WriteJSON(out, o)
}
