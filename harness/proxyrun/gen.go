package proxyrun

import (
	"fmt"
	"strconv"
	"strings"

	"verifh/atrun"
	"verifh/hutil"
)

var baseSetup = []string{
	"CREATE TABLE t_user (id BIGINT NOT NULL AUTO_INCREMENT, name VARCHAR(32) DEFAULT NULL, age INT NOT NULL DEFAULT 0, PRIMARY KEY (id))",
	"CREATE TABLE t_item (code VARCHAR(16) NOT NULL, qty INT DEFAULT 0, price DECIMAL(10,2) DEFAULT NULL, ts DATETIME(6) DEFAULT NULL, bin VARBINARY(16) DEFAULT NULL, PRIMARY KEY (code))",
	"CREATE TABLE t_kv (a INT NOT NULL, b VARCHAR(8) NOT NULL, v INT DEFAULT NULL, f DOUBLE DEFAULT NULL, PRIMARY KEY (a, b), UNIQUE KEY uk_v (v))",
}

func setup(r *hutil.Rng) []string {
	s := append([]string{}, baseSetup...)
	n := 3 + r.Intn(4)
	for i := 1; i <= n; i++ {
		s = append(s, fmt.Sprintf("INSERT INTO t_user (id, name, age) VALUES (%d, 'n%d', %d)", i, i, 10*i))
	}
	for i, c := range []string{"a1", "a2", "b1"} {
		s = append(s, fmt.Sprintf("INSERT INTO t_item (code, qty, price, ts) VALUES ('%s', %d, %d.50, '2024-02-0%d 10:00:00.250000')", c, i+1, i+2, i+1))
	}
	s = append(s, "INSERT INTO t_kv (a, b, v, f) VALUES (1, 'x', 10, 1.5), (1, 'y', 11, NULL), (2, 'x', NULL, 2.25)")
	return s
}

func iv(n int) atrun.Arg      { return atrun.Arg{T: "int", V: strconv.Itoa(n)} }
func sv(s string) atrun.Arg   { return atrun.Arg{T: "str", V: s} }
func fv(f float64) atrun.Arg  { return atrun.Arg{T: "float", V: strconv.FormatFloat(f, 'g', -1, 64)} }
func nullv() atrun.Arg        { return atrun.Arg{T: "null"} }
func tv(s string) atrun.Arg   { return atrun.Arg{T: "time", V: s} }
func bv(hex string) atrun.Arg { return atrun.Arg{T: "bytes", V: hex} }

type sgen struct {
	noParseTime bool // DSN with parseTime=false
	faults      bool // arm database faults at operations of segments without a global transaction
	noInterp    bool // DSN without interpolateParams: bound arguments reach the target as driver.ErrSkip + prepared statement
	noNow       bool // programs with a global transaction: the AT proxy reads the server clock too (undo_log), so now() values differ
	r           *hutil.Rng
	tmp         int
	uniq        int
}

func (g *sgen) id() int { return 1 + g.r.Intn(8) }

func stmt(sql string, query bool, args ...atrun.Arg) Op {
	return Op{K: "stmt", SQL: sql, Query: query, Args: args}
}

// sel: a query (literals and parameters; no string literal when lit=false).
func (g *sgen) sel(strLit bool) Op {
	r := g.r
	switch r.Intn(9) {
	case 0:
		return stmt("SELECT id, name, age FROM t_user WHERE id = ?", true, iv(g.id()))
	case 1:
		return stmt(fmt.Sprintf("SELECT id, age FROM t_user WHERE age BETWEEN %d AND ? ORDER BY id DESC LIMIT %d", r.Intn(40), 1+r.Intn(4)), true, iv(30+r.Intn(60)))
	case 2:
		return stmt("SELECT * FROM t_kv WHERE (a, b) IN ((1, ?), (?, ?)) ORDER BY a, b", true, sv("x"), iv(1+r.Intn(2)), sv([]string{"x", "y", "q"}[r.Intn(3)]))
	case 3:
		return stmt("SELECT COUNT(*) FROM t_user WHERE age > "+strconv.Itoa(r.Intn(60)), true)
	case 4:
		if strLit {
			return stmt("SELECT code, qty, price, ts FROM t_item WHERE code LIKE 'a%' ORDER BY code", true)
		}
		return stmt("SELECT code, qty, price, ts, bin FROM t_item WHERE qty >= ? ORDER BY code", true, iv(r.Intn(3)))
	case 5:
		return stmt("SELECT name FROM t_user WHERE name IS NULL OR id IN (1, 2, ?) ORDER BY id", true, iv(g.id()))
	case 6:
		return stmt("SELECT a, b, v, f FROM t_kv WHERE f IS NOT NULL AND NOT (a = 2) ORDER BY a, b LIMIT 2 OFFSET 0", true)
	case 7:
		return stmt("SHOW VARIABLES LIKE 'auto_increment_increment'", true)
	}
	return stmt("SELECT id + 1, age * 2 - 1 FROM t_user WHERE id <= "+strconv.Itoa(g.id())+" ORDER BY id", true)
}

func (g *sgen) sfu() Op {
	if g.r.Chance(1, 2) {
		return stmt("SELECT id, name FROM t_user WHERE id = ? FOR UPDATE", true, iv(g.id()))
	}
	return stmt(fmt.Sprintf("SELECT id, age FROM t_user WHERE id IN (%d, %d) FOR UPDATE", g.id(), g.id()), true)
}

// insert1: a single-row INSERT that cannot collide (fresh keys).
func (g *sgen) insert1() Op {
	g.uniq++
	r := g.r
	switch r.Intn(4) {
	case 0:
		return stmt("INSERT INTO t_user (name, age) VALUES (?, ?)", false, sv("u"+strconv.Itoa(g.uniq)), iv(r.Intn(90)))
	case 1:
		return stmt(fmt.Sprintf("INSERT INTO t_user (name, age) VALUES ('w%d', %d)", g.uniq, r.Intn(90)), false)
	case 2:
		return stmt("INSERT INTO t_item (code, qty, price, ts, bin) VALUES (?, ?, ?, ?, ?)", false, sv("k"+strconv.Itoa(g.uniq)), iv(r.Intn(9)),
			sv(fmt.Sprintf("%d.%02d", r.Intn(100), r.Intn(100))), tv("2024-03-04 05:06:07.125"), bv("00ff10"))
	}
	return stmt(fmt.Sprintf("INSERT INTO t_item (code, qty, price) VALUES ('j%d', %d, NULL)", g.uniq, r.Intn(9)), false)
}

// insertWide: the INSERT shapes that work inside a global transaction since the C18 fixes: multi-row with
// generated keys, NULL / 0 keys, explicit keys (descending from a high base, so that generated keys never
// reach them), composite keys, single and multi-row, literal and bound
func (g *sgen) insertWide() Op {
	g.uniq++
	r, u := g.r, g.uniq
	switch r.Intn(7) {
	case 0:
		return stmt(fmt.Sprintf("INSERT INTO t_user (name, age) VALUES ('m%d', 1), (?, ?), ('m%d', DEFAULT)", u, u), false, sv("q"), iv(r.Intn(50)))
	case 1:
		return stmt(fmt.Sprintf("INSERT INTO t_user (id, name) VALUES (NULL, 'k%d'), (0, 'z%d')", u, u), false)
	case 2:
		return stmt("INSERT INTO t_user (id, name, age) VALUES (?, ?, ?)", false, []atrun.Arg{nullv(), iv(0)}[r.Intn(2)], sv("o"+strconv.Itoa(u)), iv(r.Intn(90)))
	case 3:
		return stmt(fmt.Sprintf("INSERT INTO t_user (id, name) VALUES (%d, 'e%d')", 100000-u, u), false)
	case 4:
		return stmt(fmt.Sprintf("INSERT INTO t_kv (a, b, v) VALUES (%d, 'z', NULL), (?, ?, ?)", 20+u), false, iv(20+u), sv("w"), iv(1000+10*u))
	case 5:
		return stmt("INSERT INTO t_kv (a, b, v, f) VALUES (?, ?, ?, ?)", false, iv(60+u), sv("c"), iv(1001+10*u), fv(0.25))
	}
	return stmt(fmt.Sprintf("INSERT INTO t_item (code, qty, price) VALUES ('g%d', 1, 1.25), ('h%d', 2, NULL)", u, u), false)
}

// upsert: INSERT ... ON DUPLICATE KEY UPDATE with a primary-key collision, without one, with a collision on the
// secondary unique key, and mixed rows; the values written stay unique
func (g *sgen) upsert() Op {
	g.uniq++
	r, u := g.r, g.uniq
	switch r.Intn(4) {
	case 0:
		return stmt("INSERT INTO t_kv (a, b, v) VALUES (?, ?, ?) ON DUPLICATE KEY UPDATE v = VALUES(v) + 100", false, iv(1+r.Intn(2)), sv([]string{"x", "y"}[r.Intn(2)]), iv(2000+10*u))
	case 1:
		return stmt(fmt.Sprintf("INSERT INTO t_kv (a, b, v) VALUES (%d, 'n', %d) ON DUPLICATE KEY UPDATE v = VALUES(v) + 100", 100+u, 3000+10*u), false)
	case 2:
		return stmt(fmt.Sprintf("INSERT INTO t_kv (a, b, v) VALUES (%d, 's', %d) ON DUPLICATE KEY UPDATE f = 9.5", 140+u, 10+r.Intn(2)), false)
	}
	return stmt(fmt.Sprintf("INSERT INTO t_kv (a, b, v) VALUES (1, 'y', %d), (%d, 'k', %d) ON DUPLICATE KEY UPDATE v = VALUES(v) + 1", 4000+10*u, 180+u, 5000+10*u), false)
}

// replace: REPLACE of an existing and of a new row (routed to the insert executor)
func (g *sgen) replace() Op {
	g.uniq++
	r, u := g.r, g.uniq
	if r.Chance(1, 2) {
		return stmt(fmt.Sprintf("REPLACE INTO t_kv (a, b, v, f) VALUES (%d, 'x', %d, 0.5)", 1+r.Intn(3), 6000+10*u), false)
	}
	return stmt("REPLACE INTO t_kv (a, b, v) VALUES (?, ?, ?)", false, iv(220+u), sv("r"), iv(7000+10*u))
}

// update / delete with numeric WHERE (literals or parameters), no primary-key change.
func (g *sgen) update() Op {
	r := g.r
	switch r.Intn(6) {
	case 0:
		return stmt("UPDATE t_user SET age = ? WHERE id = ?", false, iv(r.Intn(99)), iv(g.id()))
	case 1:
		return stmt(fmt.Sprintf("UPDATE t_user SET age = age + 1, name = 'z%d' WHERE id IN (%d, %d)", r.Intn(9), g.id(), g.id()), false)
	case 2:
		return stmt(fmt.Sprintf("UPDATE t_user SET name = ? WHERE id BETWEEN %d AND %d AND age < 1000", g.id(), g.id()), false, sv("p"+strconv.Itoa(r.Intn(9))))
	case 3:
		return stmt("UPDATE t_item SET qty = qty + ?, price = ? WHERE code = ?", false, iv(1+r.Intn(3)), sv(fmt.Sprintf("%d.25", r.Intn(50))), sv([]string{"a1", "a2", "b1", "zz"}[r.Intn(4)]))
	case 4:
		return stmt("UPDATE t_kv SET f = ? WHERE a = ? AND b = ?", false, fv(float64(r.Intn(100))/4), iv(1+r.Intn(2)), sv([]string{"x", "y"}[r.Intn(2)]))
	}
	return stmt(fmt.Sprintf("UPDATE t_user SET age = %d WHERE age > %d", r.Intn(99), 20+r.Intn(50)), false)
}

func (g *sgen) del() Op {
	r := g.r
	switch r.Intn(3) {
	case 0:
		return stmt("DELETE FROM t_user WHERE id = ?", false, iv(g.id()))
	case 1:
		return stmt(fmt.Sprintf("DELETE FROM t_user WHERE age >= %d AND id > %d", 40+r.Intn(40), r.Intn(4)), false)
	}
	return stmt("DELETE FROM t_kv WHERE a = ? AND b = ?", false, iv(1+r.Intn(2)), sv([]string{"x", "y"}[r.Intn(2)]))
}

func (g *sgen) ddl() Op {
	g.tmp++
	if g.r.Chance(1, 3) && g.tmp > 1 {
		return stmt(fmt.Sprintf("DROP TABLE IF EXISTS t_tmp%d", g.tmp-1), false)
	}
	return stmt(fmt.Sprintf("CREATE TABLE t_tmp%d (x INT NOT NULL, y VARCHAR(8) DEFAULT 'd', PRIMARY KEY (x))", g.tmp), false)
}

// wide: statements only used outside a global transaction.
func (g *sgen) wide() Op {
	r := g.r
	g.uniq++
	switch r.Intn(14) {
	case 0:
		return stmt(fmt.Sprintf("INSERT INTO t_user (name, age) VALUES ('m%d', 1), (?, ?), ('m%d', DEFAULT)", g.uniq, g.uniq), false, sv("q"), iv(r.Intn(50)))
	case 1:
		return stmt("INSERT INTO t_kv (a, b, v) VALUES (?, ?, ?) ON DUPLICATE KEY UPDATE v = VALUES(v) + 100", false, iv(1+r.Intn(3)), sv([]string{"x", "y"}[r.Intn(2)]), iv(200+g.uniq))
	case 2:
		return stmt(fmt.Sprintf("REPLACE INTO t_kv (a, b, v, f) VALUES (%d, 'x', %d, 0.5)", 1+r.Intn(3), 300+g.uniq), false)
	case 3:
		return stmt(fmt.Sprintf("INSERT INTO t_user (id, name) VALUES (%d, 'dup')", g.id()), false) // may be a duplicate key
	case 4:
		return stmt(fmt.Sprintf("UPDATE t_user SET age = age + 1 WHERE id = %d; DELETE FROM t_kv WHERE a = %d", g.id(), 3+r.Intn(2)), false)
	case 5:
		return stmt("UPDATE t_user SET name = 'lit' WHERE name = 'n"+strconv.Itoa(g.id())+"'", false)
	case 6:
		if g.noNow {
			return stmt("INSERT INTO t_item (code, ts) VALUES (?, NULL)", false, sv("t"+strconv.Itoa(g.uniq)))
		}
		return stmt("INSERT INTO t_item (code, ts) VALUES (?, now(6))", false, sv("t"+strconv.Itoa(g.uniq)))
	case 7:
		return stmt("SELECT * FROM t_nope", true) // 1146
	case 8:
		return stmt("UPDATE t_user SET nope = 1", false) // 1054
	case 9:
		return stmt("INSERT INTO t_user (name) VALUES (?)", false, sv(strings.Repeat("x", 40))) // 1406
	case 10:
		return stmt("INSERT INTO t_user (age) VALUES (NULL)", false) // 1048
	case 11:
		return stmt("UPDATE t_kv SET v = 10 WHERE a = 2 AND b = 'x'", false) // unique collision with (1,x)
	case 12:
		return stmt("XA RECOVER", true)
	}
	return stmt("SELECT VERSION()", true)
}

func (g *sgen) anyOut() Op {
	switch g.r.Intn(10) {
	case 0, 1:
		return g.sel(true)
	case 2:
		return g.sfu()
	case 3:
		return g.insert1()
	case 4, 5:
		return g.update()
	case 6:
		return g.del()
	case 7:
		return g.ddl()
	}
	return g.wide()
}

// anyIn: the statement shapes of the clean stream inside a global transaction.
func (g *sgen) anyIn() Op {
	switch g.r.Intn(14) {
	case 0, 1:
		return g.sel(false)
	case 2:
		return g.sfu()
	case 3:
		return g.insert1()
	case 10, 11:
		return g.insertWide()
	case 12:
		return g.upsert()
	case 13:
		return g.replace()
	case 4:
		return g.insert1()
	case 5, 6, 7:
		return g.update()
	case 8:
		return g.del()
	}
	return g.ddl()
}

func (g *sgen) maybePrepared(o Op) Op {
	if g.r.Chance(1, 4) && !strings.Contains(o.SQL, ";") && !strings.HasPrefix(o.SQL, "XA ") {
		o.Prepared = true
	}
	return o
}

// outsideOps: autocommit on the pool and on named connections, explicit
// transactions (commit or rollback) with savepoints, interleaved connections.
func (g *sgen) outsideOps(n int) []Op {
	r := g.r
	var ops []Op
	open := map[string]bool{}
	for len(ops) < n {
		conn := []string{"", "", "c1", "c2"}[r.Intn(4)]
		switch {
		case conn != "" && !open[conn] && r.Chance(1, 3):
			b := Op{K: "begin", Conn: conn}
			if r.Chance(1, 5) {
				b.ReadOnly = true
			}
			if r.Chance(1, 4) {
				b.Iso = []int{1, 2, 4, 6}[r.Intn(4)]
			}
			ops = append(ops, b)
			open[conn] = true
		case conn != "" && open[conn] && r.Chance(1, 4):
			k := "commit"
			if r.Chance(1, 3) {
				k = "rollback"
			}
			ops = append(ops, Op{K: k, Conn: conn})
			open[conn] = false
		case conn != "" && open[conn] && r.Chance(1, 5):
			sp := []string{"SAVEPOINT s1", "ROLLBACK TO s1", "ROLLBACK TO SAVEPOINT s1", "RELEASE SAVEPOINT s1", "SAVEPOINT s2"}[r.Intn(5)]
			o := stmt(sp, false)
			o.Conn = conn
			ops = append(ops, o)
		default:
			o := g.maybePrepared(g.anyOut())
			o.Conn = conn
			ops = append(ops, o)
		}
	}
	for _, c := range []string{"c1", "c2"} {
		if open[c] {
			k := "commit"
			if r.Chance(1, 2) {
				k = "rollback"
			}
			ops = append(ops, Op{K: k, Conn: c})
		}
	}
	if g.faults {
		// database faults at the operation's own call, the same in the proxied and the bare run
		for i := range ops {
			den := 9
			if ops[i].K == "commit" {
				den = 3
			}
			if r.Chance(1, den) {
				f := &OpFault{Action: []string{"error", "error", "after", "drop"}[r.Intn(4)]}
				if ops[i].K == "stmt" && r.Chance(1, 3) {
					f.Skip = 1
				}
				ops[i].Fault = f
			}
		}
	}
	return ops
}

// insideOps: autocommit statements on the pool, and explicit transactions on a
// named connection that are finished before anything else runs.
func (g *sgen) insideOps(n int) []Op {
	r := g.r
	var ops []Op
	// statements inside the predicate of a listed finding (they fail without effect; the rest of the
	// program is still compared), and statements run with a context that does NOT carry the xid
	isDML := func(o Op) bool {
		return strings.HasPrefix(o.SQL, "UPDATE") || strings.HasPrefix(o.SQL, "DELETE") || strings.HasPrefix(o.SQL, "INSERT")
	}
	special := func(o Op, localTx, inTx bool) Op {
		switch {
		case o.Query && r.Chance(1, 3):
			o.Prepared = true // prepared queries (plain and locking reads): Stmt.QueryContext
		case r.Chance(1, 12) && (strings.HasPrefix(o.SQL, "UPDATE") || strings.HasPrefix(o.SQL, "DELETE")):
			o.Prepared = true // finding region stmt.prepared-in-gtx
		case r.Chance(1, 14):
			o = stmt(fmt.Sprintf("UPDATE t_user SET age = %d WHERE name = 'n%d'", r.Intn(90), 1+r.Intn(3)), false) // where.string-literal
		}
		if r.Chance(1, 5) {
			o.Plain = true
		}
		if !o.Plain && g.noParseTime && inTx && strings.Contains(o.SQL, "t_item") && isDML(o) {
			// parseTime off: a statement whose image holds a temporal column fails; inside an explicit transaction the
			// outcome depends on whether it was applied before the image query: not generated there (docs)
			o = g.sel(false)
		}
		if !o.Plain && localTx && strings.Contains(o.SQL, "FOR UPDATE") && !o.Prepared {
			o = g.sel(false) // a locking read with an xid context inside a transaction begun without one: not generated (docs)
		}
		return o
	}
	for len(ops) < n {
		if r.Chance(1, 3) {
			local := r.Chance(1, 3)
			ops = append(ops, Op{K: "begin", Conn: "c1", Plain: local})
			for k := 0; k < 1+r.Intn(3); k++ {
				o := g.anyIn()
				for strings.HasPrefix(o.SQL, "CREATE") || strings.HasPrefix(o.SQL, "DROP") {
					o = g.anyIn() // DDL commits implicitly: keep it out of explicit transactions
				}
				o = special(o, local, true)
				o.Conn = "c1"
				ops = append(ops, o)
			}
			k := "commit"
			if r.Chance(1, 4) {
				k = "rollback"
			}
			ops = append(ops, Op{K: k, Conn: "c1"})
			continue
		}
		ops = append(ops, special(g.anyIn(), false, false))
	}
	return ops
}

func params(r *hutil.Rng) string {
	p := []string{"interpolateParams=true&parseTime=true&multiStatements=true", "interpolateParams=true&parseTime=true&multiStatements=true",
		"interpolateParams=false&parseTime=true&multiStatements=true", "interpolateParams=true&parseTime=false&multiStatements=true",
		"interpolateParams=true&parseTime=true"}
	return p[r.Intn(len(p))]
}

// GenOutside: programs without any global transaction.
func GenOutside(r *hutil.Rng, i int) Program {
	g := &sgen{r: r, faults: i%2 == 1}
	return Program{Setup: setup(r), Params: params(r), Segs: []Segment{{Ops: g.outsideOps(4 + r.Intn(10))}}}
}

// GenInside: programs mixing outside segments and committed global transactions.
func GenInside(r *hutil.Rng, i int) Program {
	g := &sgen{r: r, noNow: true}
	p := Program{Setup: setup(r), Params: []string{"interpolateParams=true&parseTime=true&multiStatements=true",
		"interpolateParams=false&parseTime=true&multiStatements=true", "interpolateParams=true&parseTime=true",
		"interpolateParams=true&parseTime=false&multiStatements=true", "interpolateParams=false&parseTime=false"}[r.Intn(5)]}
	g.noParseTime = strings.Contains(p.Params, "parseTime=false")
	g.noInterp = !interpolates(p.Params)
	for k := 0; k < 1+r.Intn(3); k++ {
		if r.Chance(1, 2) {
			p.Segs = append(p.Segs, Segment{Ops: g.outsideOps(1 + r.Intn(4))})
		}
		p.Segs = append(p.Segs, Segment{Gtx: true, Ops: g.insideOps(1 + r.Intn(5))})
	}
	if r.Chance(1, 2) {
		p.Segs = append(p.Segs, Segment{Ops: g.outsideOps(1 + r.Intn(3))})
	}
	return p
}

// GenMalformed: outside-only programs dominated by rejected input.
func GenMalformed(r *hutil.Rng, i int) Program {
	g := &sgen{r: r}
	bad := func() Op {
		switch r.Intn(9) {
		case 0:
			return stmt("SELEC 1", true)
		case 1:
			return stmt("UPDATE t_user SET age = WHERE id = 1", false)
		case 2:
			return stmt("SELECT id FROM t_user WHERE id = ? AND age = ?", true, iv(1)) // argument count
		case 3:
			return stmt("INSERT INTO t_user (name) VALUES (?)", false, sv("it's \\ \"q\" 中\x00;--"))
		case 4:
			return stmt("INSERT INTO t_user (id, age) VALUES (?, ?)", false, atrun.Arg{T: "uint", V: "18446744073709551615"}, iv(1))
		case 5:
			return stmt("", false)
		case 6:
			return stmt("SELECT * FROM t_user WHERE (id, age) IN ((1))", true) // operand columns
		case 7:
			return stmt("INSERT INTO t_kv (a, b) VALUES (1)", false) // column count
		}
		return stmt("ROLLBACK TO nosuch", false)
	}
	var ops []Op
	open := false
	for k := 0; k < 3+r.Intn(6); k++ {
		var o Op
		if r.Chance(2, 3) {
			o = bad()
		} else {
			o = g.anyOut()
		}
		o.Conn = []string{"", "c1"}[r.Intn(2)]
		if r.Chance(1, 4) && o.SQL != "" {
			o.Prepared = true
		}
		ops = append(ops, o)
		if r.Chance(1, 5) {
			if open {
				ops = append(ops, Op{K: []string{"commit", "rollback"}[r.Intn(2)], Conn: "c1"})
			} else {
				ops = append(ops, Op{K: "begin", Conn: "c1"})
			}
			open = !open
		}
	}
	if open {
		ops = append(ops, Op{K: "rollback", Conn: "c1"})
	}
	return Program{Setup: setup(r), Params: params(r), Segs: []Segment{{Ops: ops}}}
}

// FindingPreds are the input predicates of the findings listed under C16.
var FindingPreds = []string{"where.string-literal", "stmt.prepared-in-gtx", "dsn.parsetime-off.temporal"}

// GenFinding: a minimal program inside the predicate.
func GenFinding(pred string, r *hutil.Rng, i int) Program {
	g := &sgen{r: r}
	var o Op
	switch pred {
	case "where.string-literal":
		if r.Chance(1, 2) {
			o = stmt(fmt.Sprintf("UPDATE t_user SET age = %d WHERE name = 'n%d'", r.Intn(90), 1+r.Intn(3)), false)
		} else {
			o = stmt(fmt.Sprintf("DELETE FROM t_item WHERE code = '%s'", []string{"a1", "a2", "b1"}[r.Intn(3)]), false)
		}
	case "dsn.parsetime-off.temporal":
		if r.Chance(1, 2) {
			o = stmt("DELETE FROM t_item WHERE qty >= ?", false, iv(r.Intn(3)))
		} else {
			g.uniq++
			o = stmt("INSERT INTO t_item (code, qty, price, ts, bin) VALUES (?, ?, ?, ?, ?)", false, sv("k"+strconv.Itoa(g.uniq)), iv(r.Intn(9)), sv("1.50"), tv("2024-03-04 05:06:07.125"), bv("00ff10"))
		}
	case "stmt.prepared-in-gtx":
		o = g.update()
		if r.Chance(1, 3) {
			o = g.del()
		}
		o.Prepared = true // UPDATE / DELETE only: a prepared INSERT is applied before its image query fails
	}
	after := []Op{g.update(), stmt("UPDATE t_user SET age = age + 1 WHERE id = 1", false), g.sel(true)}
	params := ""
	if pred == "dsn.parsetime-off.temporal" {
		params = "interpolateParams=true&parseTime=false&multiStatements=true"
	}
	return Program{Setup: setup(r), Params: params, Segs: []Segment{{Gtx: true, Ops: []Op{g.sel(false), o, g.update()}}, {Ops: after}}}
}

// GenXAMix: one global transaction with one autocommit statement on the pool between
// outside segments; after it, statements (some failing) run on the same pooled connection.
func GenXAMix(r *hutil.Rng, i int) Program {
	g := &sgen{r: r, noNow: true}
	pool := func(n int) []Op {
		var ops []Op
		for k := 0; k < n; k++ {
			o := g.anyOut()
			for strings.HasPrefix(o.SQL, "XA ") {
				o = g.anyOut()
			}
			ops = append(ops, g.maybePrepared(o))
		}
		return ops
	}
	var in Op
	switch r.Intn(4) {
	case 0:
		in = g.del()
	case 1:
		in = g.insert1()
	default:
		in = g.update()
	}
	in.Args, in.SQL = nil, strings.ReplaceAll(in.SQL, "?", "1") // literal form only: bound arguments inside are a finding region
	if strings.Contains(in.SQL, "t_item") || strings.Contains(in.SQL, "t_kv") {
		in = stmt(fmt.Sprintf("UPDATE t_user SET age = %d WHERE id = %d", r.Intn(90), g.id()), false)
	}
	after := append(pool(1+r.Intn(3)), stmt(fmt.Sprintf("INSERT INTO t_user (id, name) VALUES (%d, 'dup')", 1+r.Intn(3)), false))
	after = append(after, pool(1+r.Intn(3))...)
	return Program{Setup: setup(r), XAMix: true, Version: []string{"5.7.30", "8.0.30"}[r.Intn(2)],
		Segs: []Segment{{Ops: pool(r.Intn(3))}, {Gtx: true, Ops: []Op{in}}, {Ops: after}}}
}
