package main

import "verifh/frame"

func init() { subcommands["frame"] = frame.Run }
