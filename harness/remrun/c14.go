// Package remrun: harness of C14 (pending-request table) and C15 (phase-two
// processors).  The REAL remoting client / listener / processors run against a
// fake getty.Session that records what is written; replies are delivered by
// calling the real listener's OnMessage from separate goroutines, as getty's
// task pool does.
package remrun

import (
	"fmt"
	"os"
	"runtime"
	"sort"
	"strconv"
	"strings"
	"sync"
	"sync/atomic"
	"time"

	getty "github.com/apache/dubbo-getty"

	"seata.apache.org/seata-go/pkg/client"
	"seata.apache.org/seata-go/pkg/protocol/message"
	sgetty "seata.apache.org/seata-go/pkg/remoting/getty"

	"verifh/hutil"
)

// ---------------------------------------------------------------- fake session
type wrec struct {
	ID   int32
	Type message.GettyRequestType
	Tag  string // tag carried by the body ("" for heartbeats)
	Body interface{}
}

type fakeSession struct {
	getty.Session // nil: a method the code under test is not expected to call panics (observable)
	name          string
	closed        atomic.Bool
	wire          atomic.Bool // frames take the way of the real writer: encode, (later) hand the SAME slice to the socket, decode there
	w             *world
}

func (s *fakeSession) IsClosed() bool                        { return s.closed.Load() }
func (s *fakeSession) RemoteAddr() string                    { return "127.0.0.1:8091" }
func (s *fakeSession) LocalAddr() string                     { return "127.0.0.1:40000" }
func (s *fakeSession) Stat() string                          { return "fake-session " + s.name }
func (s *fakeSession) Close()                                { s.closed.Store(true) }
func (s *fakeSession) GetAttribute(interface{}) interface{}  { return nil }
func (s *fakeSession) SetAttribute(interface{}, interface{}) {}
func (s *fakeSession) RemoveAttribute(interface{})           {}
func (s *fakeSession) ID() uint32                            { return 1 }
func (s *fakeSession) WritePkg(pkg interface{}, _ time.Duration) (int, int, error) {
	m, ok := pkg.(message.RpcMessage)
	if !ok {
		return 0, 0, fmt.Errorf("fake session: not an RpcMessage: %T", pkg)
	}
	if s.wire.Load() {
		// what getty's session.WritePkg does: writer.Write(pkg) yields the frame, Connection.Send takes
		// that very slice afterwards (other goroutines encode their frames in between); the
		// coordinator decodes what the socket took
		h := &sgetty.RpcPackageHandler{}
		frame, err := h.Write(s, m)
		if err != nil {
			return 0, 0, err
		}
		time.Sleep(time.Duration(uint32(m.ID)%5) * 300 * time.Microsecond)
		onWire := append([]byte(nil), frame...)
		dec, n, derr := h.Read(s, onWire)
		dm, isMsg := dec.(message.RpcMessage)
		if derr != nil || !isMsg || n != len(onWire) {
			s.w.mu.Lock()
			s.w.wireErrs = append(s.w.wireErrs, fmt.Sprintf("the frame written for message id %d (%d bytes) does not decode at the coordinator: consumed %d, err %v", m.ID, len(onWire), n, derr))
			s.w.mu.Unlock()
			return len(onWire), len(onWire), nil
		}
		m = dm
	}
	return s.w.onWrite(s, m)
}

func bodyTag(b interface{}) string {
	switch x := b.(type) {
	case message.GlobalBeginRequest:
		return x.TransactionName
	case message.BranchCommitResponse:
		return x.Xid
	case message.BranchRollbackResponse:
		return x.Xid
	case message.RegisterRMRequest:
		return "regrm"
	case message.RegisterTMRequest:
		return "regtm"
	case message.HeartBeatMessage:
		return "hb"
	}
	return fmt.Sprintf("%T", b)
}

// world: the scripted coordinator side
type world struct {
	mu       sync.Mutex
	failTags map[string]bool
	failHB   bool
	waitTag  map[string]chan wrec // writes announced per tag
	all      []wrec
	hook     func(wrec)            // conc mode: called (outside the lock) on every successful write
	early    map[string]func(wrec) // seq mode: reply delivered before WritePkg returns to the caller
	wireErrs []string              // wire mode: frames the coordinator side could not decode
}

func newWorld() *world {
	return &world{failTags: map[string]bool{}, waitTag: map[string]chan wrec{}, early: map[string]func(wrec){}}
}

func (w *world) tagChan(tag string) chan wrec {
	w.mu.Lock()
	defer w.mu.Unlock()
	c, ok := w.waitTag[tag]
	if !ok {
		c = make(chan wrec, 64)
		w.waitTag[tag] = c
	}
	return c
}

func (w *world) onWrite(s *fakeSession, m message.RpcMessage) (int, int, error) {
	r := wrec{ID: m.ID, Type: m.Type, Tag: bodyTag(m.Body), Body: m.Body}
	w.mu.Lock()
	fail := w.failTags[r.Tag] || (r.Tag == "hb" && w.failHB)
	w.all = append(w.all, r)
	hook := w.hook
	early := w.early[r.Tag]
	w.mu.Unlock()
	if early != nil && !fail {
		early(r)
	}
	if fail {
		return 0, 0, fmt.Errorf("fake session: scripted write failure")
	}
	select {
	case w.tagChan(r.Tag) <- r:
	default:
	}
	if hook != nil {
		hook(r)
	}
	return 1, 1, nil
}

// patient(d) is time.After(d) measured in 5 ms steps of this process: if the whole
// process (or machine) is stalled, the limit does not run out while the goroutine
// being waited for had no chance to run either. stop() releases the ticker goroutine.
func patient(d time.Duration) (<-chan struct{}, func()) {
	ch := make(chan struct{})
	var stopped atomic.Bool
	steps := int(d / (5 * time.Millisecond))
	go func() {
		for i := 0; i < steps && !stopped.Load(); i++ {
			time.Sleep(5 * time.Millisecond)
		}
		close(ch)
	}()
	return ch, func() { stopped.Store(true) }
}

// guard is hutil.Guard with a stall-robust limit
func guard(limit time.Duration, f func() error) (class string, detail string) {
	type res struct{ class, detail string }
	ch := make(chan res, 1)
	go func() {
		defer func() {
			if p := recover(); p != nil {
				ch <- res{hutil.OutPanic, fmt.Sprintf("%v", p)}
			}
		}()
		if err := f(); err != nil {
			ch <- res{hutil.OutErr, err.Error()}
			return
		}
		ch <- res{hutil.OutOK, ""}
	}()
	lim, stop := patient(limit)
	defer stop()
	select {
	case r := <-ch:
		return r.class, r.detail
	case <-lim:
		return hutil.OutDiverged, "no result within " + limit.String()
	}
}

// ---------------------------------------------------------------- observation
// goroutines blocked sending the completion signal (response delivery parked)
func parkedDeliveries() int {
	buf := make([]byte, 1<<20)
	for {
		n := runtime.Stack(buf, true)
		if n < len(buf) {
			buf = buf[:n]
			break
		}
		buf = make([]byte, 2*len(buf))
	}
	cnt := 0
	for _, g := range strings.Split(string(buf), "\n\n") {
		nl := strings.IndexByte(g, '\n')
		if nl < 0 {
			continue
		}
		head := g[:nl]
		if !strings.Contains(head, "chan send") {
			continue
		}
		if strings.Contains(g, "NotifyRpcMessageResponse") || strings.Contains(g, "clientOnResponseProcessor") {
			cnt++
		}
	}
	return cnt
}

func pendingFutures() int {
	f, _ := sgetty.VerifPendingFutures()
	return f
}

// ---------------------------------------------------------------- cases
type outRec struct {
	K     int    `json:"k"`
	ID    int64  `json:"id"`
	HasID bool   `json:"has_id"`
	Sync  bool   `json:"sync"`
	Class int    `json:"class"` // 0 still waiting / unobservable, 1 ok, 2 error
	Val   int64  `json:"val"`   // body tag when ok; 1 timeout, 2 write error, 3 no session, 9 other when error
	Err   string `json:"err,omitempty"`
}

type c14case struct {
	Mode        string          `json:"mode"`
	C0          uint32          `json:"c0"`
	H0          uint32          `json:"h0"`
	Events      [][]interface{} `json:"events"`
	Out         []outRec        `json:"out"`
	Oracle      []string        `json:"oracle"` // direct-oracle failures (empty = property held on this history)
	Fresh       bool            `json:"fresh_ok"`
	Callers     int             `json:"callers"`
	Secs        float64         `json:"secs"`
	TimeoutWait float64         `json:"timeout_wait_s,omitempty"` // batch: seconds until every unanswered waiter had timed out
}

type result struct {
	v   interface{}
	err error
}

type waiterInfo struct {
	k         int
	sync      bool
	id        int32
	hasID     bool
	waiting   bool // written successfully and not yet returned
	res       chan result
	done      bool
	delivered []int64 // bodies of replies delivered while it was waiting (direct oracle)
}

type runner struct {
	w        *world
	sess     *fakeSession
	nsess    int
	cs       *c14case
	ws       map[int]*waiterInfo
	byID     map[int32]*waiterInfo
	bodyID   map[int64]int32 // reply body tag -> id it was addressed to
	nextK    int
	nextBody int64
	openReqs []interface{} // sent by the real OnOpen on every new session after the RegisterTM (RegisterRM re-announcements)
	rmIDs    []int32       // ids of the RegisterRM requests written so far and not yet answered
	handler  interface {
		OnMessage(getty.Session, interface{})
		OnOpen(getty.Session) error
		OnClose(getty.Session)
		OnCron(getty.Session)
	}
}

var initOnce sync.Once

func initClient(args map[string]string) {
	initOnce.Do(func() {
		conf := hutil.ArgStr(args, "conf", "")
		if conf == "" {
			fmt.Fprintln(os.Stderr, "remrun: conf= missing")
			os.Exit(2)
		}
		client.InitPath(conf)
	})
}

func newRunner(mode string, c0, h0 uint32) *runner {
	r := &runner{w: newWorld(), ws: map[int]*waiterInfo{}, byID: map[int32]*waiterInfo{}, bodyID: map[int64]int32{}}
	r.handler = sgetty.GetGettyClientHandlerInstance()
	r.cs = &c14case{Mode: mode, C0: c0, H0: h0}
	sgetty.VerifClearPending()
	sgetty.VerifSetIDGenerators(c0, h0)
	sgetty.SetSessionOpenRequests(func() []interface{} { return r.openReqs })
	return r
}

// announce: k resources are registered, so every session open re-announces them
func (r *runner) announce(k int) {
	r.openReqs = nil
	for i := 0; i < k; i++ {
		r.openReqs = append(r.openReqs, message.RegisterRMRequest{ResourceIds: "res-" + strconv.Itoa(i),
			AbstractIdentifyRequest: message.AbstractIdentifyRequest{Version: "1.5.2", ApplicationId: "verif", TransactionServiceGroup: "g"}})
	}
}

func (r *runner) ev(a ...interface{}) { r.cs.Events = append(r.cs.Events, a) }
func (r *runner) obs()                { r.ev("obs", pendingFutures(), parkedDeliveries()) }
func (r *runner) oracle(f string, a ...interface{}) {
	r.cs.Oracle = append(r.cs.Oracle, fmt.Sprintf(f, a...))
}

// open a (new) fake session through the real listener; its RegisterTM request is
// a one-way send of the real client (a waiter of the model)
func (r *runner) open() *waiterInfo {
	r.nsess++
	r.sess = &fakeSession{name: strconv.Itoa(r.nsess), w: r.w}
	ch := r.w.tagChan("regtm")
	for len(ch) > 0 {
		<-ch
	}
	_ = r.handler.OnOpen(r.sess)
	r.ev("O")
	wi := &waiterInfo{k: r.nextK, sync: false}
	r.nextK++
	r.ws[wi.k] = wi
	pt1, stop1 := patient(5 * time.Second)
	defer stop1()
	select {
	case rec := <-ch:
		wi.id, wi.hasID, wi.waiting = rec.ID, true, true
		r.byID[rec.ID] = wi
	case <-pt1:
		r.oracle("RegisterTM request of a new session was not written")
	}
	r.ev("S", wi.k, false)
	// the RegisterRM re-announcements: written without callback, nobody waits for their answers
	rm := r.w.tagChan("regrm")
	for range r.openReqs {
		nw := &waiterInfo{k: r.nextK, sync: false, done: true}
		r.nextK++
		r.ws[nw.k] = nw
		pt, stop := patient(5 * time.Second)
		select {
		case rec := <-rm:
			nw.id, nw.hasID = rec.ID, true
			r.rmIDs = append(r.rmIDs, rec.ID)
		case <-pt:
			r.oracle("a RegisterRM re-announcement of a new session was not written")
		}
		stop()
		r.ev("N", nw.k)
	}
	return wi
}

// answerRM: the coordinator answers a RegisterRM re-announcement (under that request's id)
func (r *runner) answerRM(id int32) {
	r.nextBody++
	b := r.nextBody
	wi := r.byID[id]
	hit := wi != nil && wi.waiting // only if ids are not unique: a pending caller carries the same id
	m := message.RpcMessage{ID: id, Type: message.GettyRequestTypeResponse, Codec: 1,
		Body: message.RegisterRMResponse{AbstractIdentifyResponse: message.AbstractIdentifyResponse{Identified: true, Version: "1.5.2"}}}
	ret, pan := r.inbound(m, 3*time.Second)
	r.ev("D", int64(id), b)
	if pan != "" || !ret {
		r.oracle("delivery of the answer to a RegisterRM request (id %d): returned=%v panic=%s", id, ret, firstLine(pan))
	} else {
		r.ev("R", int64(id))
	}
	if hit && wi.sync {
		pt, stop := patient(3 * time.Second)
		defer stop()
		select {
		case res := <-wi.res:
			r.oracle("caller %d (request id %d) was handed the answer to ANOTHER request of the client (the RegisterRM re-announcement sent on session open under the same id): %T", wi.k, id, res.v)
			r.finish(wi, res)
		case <-pt:
		}
	}
}

func (r *runner) closeSess(silent bool) {
	if silent {
		r.sess.closed.Store(true)
	} else {
		r.handler.OnClose(r.sess)
	}
	r.ev("C")
}

func classify(err error) int64 {
	s := err.Error()
	switch {
	case strings.Contains(s, "wait response timeout"):
		return 1
	case strings.Contains(s, "scripted write failure"):
		return 2
	case strings.Contains(s, "session is closed"), strings.Contains(s, "no available session"):
		return 3
	}
	return 9
}

// Send: a caller (sync) or a one-way sender; returns once the request was written
// (or the call failed)
func (r *runner) send(sync bool, wfail bool) *waiterInfo {
	wi := &waiterInfo{k: r.nextK, sync: sync, res: make(chan result, 1)}
	r.nextK++
	r.ws[wi.k] = wi
	tag := "w" + strconv.Itoa(wi.k)
	if wfail {
		r.w.mu.Lock()
		r.w.failTags[tag] = true
		r.w.mu.Unlock()
	}
	ch := r.w.tagChan(tag)
	body := message.GlobalBeginRequest{TransactionName: tag, Timeout: time.Second}
	go func() {
		defer func() {
			if p := recover(); p != nil {
				wi.res <- result{nil, fmt.Errorf("panic: %v", p)}
			}
		}()
		if sync {
			v, err := sgetty.GetGettyRemotingClient().SendSyncRequest(body)
			wi.res <- result{v, err}
		} else {
			err := sgetty.GetGettyRemotingClient().SendAsyncRequest(body)
			wi.res <- result{nil, err}
		}
	}()
	r.ev("S", wi.k, wfail)
	if sync {
		pt2, stop2 := patient(10 * time.Second)
		defer stop2()
		select {
		case rec := <-ch:
			wi.id, wi.hasID, wi.waiting = rec.ID, true, true
			r.byID[rec.ID] = wi
		case res := <-wi.res:
			r.finish(wi, res)
		case <-pt2:
			r.oracle("caller %d neither wrote its request nor returned within 10 s", wi.k)
		}
	} else {
		pt3, stop3 := patient(10 * time.Second)
		defer stop3()
		select {
		case res := <-wi.res:
			if res.err != nil {
				wi.done = true
			} else {
				select {
				case rec := <-ch:
					wi.id, wi.hasID, wi.waiting = rec.ID, true, true
					r.byID[rec.ID] = wi
				default:
					r.oracle("one-way sender %d returned nil without writing", wi.k)
				}
			}
		case <-pt3:
			r.oracle("one-way sender %d did not return within 10 s", wi.k)
		}
	}
	return wi
}

// sendEarly: the coordinator's reply overtakes the caller: it is processed while the
// caller is still inside WritePkg, i.e. before it blocks on the completion signal
func (r *runner) sendEarly(copies int) {
	wi := &waiterInfo{k: r.nextK, sync: true, res: make(chan result, 1)}
	r.nextK++
	r.ws[wi.k] = wi
	tag := "w" + strconv.Itoa(wi.k)
	var bodies []int64
	for i := 0; i < copies; i++ {
		r.nextBody++
		bodies = append(bodies, r.nextBody)
	}
	delivered := make(chan bool, 1)
	var dwg sync.WaitGroup
	done := make(chan struct{})
	handler, sess := r.handler, r.sess
	r.w.mu.Lock()
	r.w.early[tag] = func(rec wrec) {
		wi.id, wi.hasID = rec.ID, true
		for _, b := range bodies {
			r.bodyID[b] = rec.ID
			dwg.Add(1)
			go func(b int64) {
				defer func() { recover(); dwg.Done() }()
				handler.OnMessage(sess, message.RpcMessage{ID: rec.ID, Type: message.GettyRequestTypeResponse, Codec: 1,
					Body: message.GlobalBeginResponse{Xid: strconv.FormatInt(b, 10)}})
			}(b)
		}
		go func() { dwg.Wait(); close(done) }()
		select {
		case <-done:
			delivered <- true
		case <-time.After(20 * time.Millisecond): // a blocking signal waits for the caller: let the caller go on
			delivered <- false
		}
	}
	r.w.mu.Unlock()
	go func() {
		defer func() {
			if p := recover(); p != nil {
				wi.res <- result{nil, fmt.Errorf("panic: %v", p)}
			}
		}()
		v, err := sgetty.GetGettyRemotingClient().SendSyncRequest(message.GlobalBeginRequest{TransactionName: tag})
		wi.res <- result{v, err}
	}()
	r.ev("S", wi.k, false)
	pt4, stop4 := patient(10 * time.Second)
	defer stop4()
	select {
	case <-delivered:
	case <-pt4:
		r.oracle("caller %d did not write its request within 10 s", wi.k)
		return
	}
	r.byID[wi.id] = wi
	wi.delivered = append(wi.delivered, bodies...)
	// the deliveries are logged so that the body the caller returned is the last one written
	logD := func(ret int64) {
		for _, b := range bodies {
			if b != ret {
				r.ev("D", int64(wi.id), b)
			}
		}
		if ret >= 0 {
			r.ev("D", int64(wi.id), ret)
		}
	}
	pt6, stop6 := patient(3 * time.Second)
	defer stop6()
	select {
	case res := <-wi.res:
		var ret int64 = -1
		if res.err == nil {
			if gb, ok := res.v.(message.GlobalBeginResponse); ok {
				if v, e := strconv.ParseInt(gb.Xid, 10, 64); e == nil && r.bodyID[v] == wi.id {
					ret = v
				}
			}
		}
		logD(ret)
		r.finish(wi, res)
		pt5, stop5 := patient(3 * time.Second)
		defer stop5()
		select { // both steps of every delivery are over before the next event
		case <-done:
			for range bodies {
				r.ev("R", int64(wi.id))
			}
		case <-pt5:
			r.oracle("a delivery of the %d replies for id %d did not return within 3 s (message processing blocked)", copies, wi.id)
		}
		if res.err == nil {
			r.ev("K", wi.k)
		} else {
			r.oracle("caller %d (id %d): its reply was processed right after the request was written, yet it returned error %q", wi.k, wi.id, firstLine(res.err.Error()))
		}
	case <-pt6:
		logD(-1)
		wi.waiting = true
		r.oracle("caller %d (id %d): its reply was processed right after the request was written, yet it did not return (reply lost)", wi.k, wi.id)
	}
}

func (r *runner) finish(wi *waiterInfo, res result) {
	wi.done, wi.waiting = true, false
	o := outRec{K: wi.k, ID: int64(wi.id), HasID: wi.hasID, Sync: wi.sync}
	if res.err != nil {
		o.Class, o.Val, o.Err = 2, classify(res.err), firstLine(res.err.Error())
	} else if gb, ok := res.v.(message.GlobalBeginResponse); ok {
		b, _ := strconv.ParseInt(gb.Xid, 10, 64)
		o.Class, o.Val = 1, b
		// direct oracle: the body returned was addressed to this caller's id
		if to, ok := r.bodyID[b]; !ok || to != wi.id {
			r.oracle("caller %d (request id %d) received reply body %d addressed to id %d", wi.k, wi.id, b, to)
		}
	} else if res.v == nil {
		o.Class, o.Val = 2, 4 // (nil, nil): the model's DoneErr 4
		r.oracle("caller %d (request id %d) returned (nil, nil): neither a reply nor an error", wi.k, wi.id)
	} else {
		o.Class, o.Val = 1, -1
		r.oracle("caller %d returned a value that is no reply of this run: %T", wi.k, res.v)
	}
	r.cs.Out = append(r.cs.Out, o)
}

func firstLine(s string) string {
	if i := strings.IndexByte(s, '{'); i > 0 {
		s = s[:i]
	}
	if len(s) > 80 {
		s = s[:80]
	}
	return s
}

// one inbound message, handled as getty does: own goroutine, recover
func (r *runner) inbound(m interface{}, limit time.Duration) (returned bool, panicked string) {
	done := make(chan string, 1)
	sess := r.sess
	go func() {
		defer func() {
			if p := recover(); p != nil {
				done <- fmt.Sprintf("%v", p)
			}
		}()
		r.handler.OnMessage(sess, m)
		done <- ""
	}()
	pt7, stop7 := patient(limit)
	defer stop7()
	select {
	case p := <-done:
		return true, p
	case <-pt7:
		return false, ""
	}
}

// reply to id; both steps of the delivery, then the waiter's wake-up if it returns
func (r *runner) reply(id int32) {
	r.nextBody++
	b := r.nextBody
	r.bodyID[b] = id
	wi := r.byID[id]
	wasWaiting := wi != nil && wi.waiting
	m := message.RpcMessage{ID: id, Type: message.GettyRequestTypeResponse, Codec: 1,
		Body: message.GlobalBeginResponse{Xid: strconv.FormatInt(b, 10),
			AbstractTransactionResponse: message.AbstractTransactionResponse{AbstractResultMessage: message.AbstractResultMessage{ResultCode: message.ResultCodeSuccess}}}}
	ret, pan := r.inbound(m, 3*time.Second)
	r.ev("D", int64(id), b)
	if pan != "" {
		r.oracle("delivery of a reply for id %d panicked: %s", id, firstLine(pan))
	}
	if ret {
		r.ev("R", int64(id))
	} else {
		r.oracle("delivery of a reply for id %d did not return within 3 s (message processing blocked)", id)
	}
	if wasWaiting {
		wi.delivered = append(wi.delivered, b)
		if wi.sync {
			pt8, stop8 := patient(3 * time.Second)
			defer stop8()
			select {
			case res := <-wi.res:
				r.finish(wi, res)
				if res.err == nil {
					r.ev("K", wi.k)
				} else {
					if classify(res.err) == 1 {
						r.ev("T", wi.k)
					}
					r.oracle("caller %d (id %d) was waiting when its reply was delivered but returned error %q", wi.k, id, firstLine(res.err.Error()))
				}
			case <-pt8:
				r.oracle("caller %d (id %d) was waiting when its reply was delivered but did not return", wi.k, id)
			}
		} else {
			wi.waiting, wi.done = false, true
			r.ev("K", wi.k)
		}
	}
}

func (r *runner) writeResp(id int32, wfail bool) {
	tag := "resp" + strconv.Itoa(len(r.cs.Events))
	if wfail {
		r.w.mu.Lock()
		r.w.failTags[tag] = true
		r.w.mu.Unlock()
	}
	cls, det := guard(10*time.Second, func() error {
		return sgetty.GetGettyRemotingClient().SendAsyncResponse(id, message.BranchCommitResponse{
			AbstractBranchEndResponse: message.AbstractBranchEndResponse{Xid: tag, BranchId: 1}})
	})
	if cls == hutil.OutPanic || cls == hutil.OutDiverged {
		r.oracle("SendAsyncResponse(%d): %s %s", id, cls, firstLine(det))
	}
	r.ev("W", int64(id), wfail)
}

func (r *runner) heartbeat(wfail bool) {
	r.w.mu.Lock()
	r.w.failHB = wfail
	r.w.mu.Unlock()
	sess := r.sess
	cls, det := guard(10*time.Second, func() error { r.handler.OnCron(sess); return nil })
	if cls != hutil.OutOK {
		r.oracle("OnCron: %s %s", cls, firstLine(det))
	}
	r.ev("H", wfail)
}

func (r *runner) pong(id int32) {
	m := message.RpcMessage{ID: id, Type: message.GettyRequestTypeHeartbeatResponse, Codec: 1, Body: message.HeartBeatMessagePong}
	if ret, pan := r.inbound(m, 3*time.Second); !ret || pan != "" {
		r.oracle("heartbeat answer %d: returned=%v panic=%s", id, ret, firstLine(pan))
	}
	r.ev("P", int64(id))
}

// junk: inbound traffic that must leave everything untouched (no model event)
func (r *runner) junk(rng *hutil.Rng, id int32) {
	var m interface{}
	switch rng.Intn(4) {
	case 0:
		m = "not an rpc message"
	case 1:
		m = message.RpcMessage{ID: id, Type: message.GettyRequestTypeResponse, Body: message.GlobalBeginRequest{TransactionName: "x"}} // no processor
	case 2:
		m = message.RpcMessage{ID: id, Type: message.GettyRequestTypeResponse, Body: message.MergeResultMessage{}} // nothing merged under this id
	default:
		m = message.RpcMessage{ID: id, Type: message.GettyRequestTypeResponse, Body: 42}
	}
	if ret, pan := r.inbound(m, 3*time.Second); !ret || pan != "" {
		r.oracle("junk inbound message: returned=%v panic=%s", ret, firstLine(pan))
	}
	r.ev("X")
}

func (r *runner) sortedWaiters() []*waiterInfo {
	var l []*waiterInfo
	for _, wi := range r.ws {
		l = append(l, wi)
	}
	sort.Slice(l, func(i, j int) bool { return l[i].k < l[j].k })
	return l
}

func (r *runner) waitingIDs() []int32 {
	var ids []int32
	for _, wi := range r.ws {
		if wi.waiting {
			ids = append(ids, wi.id)
		}
	}
	sort.Slice(ids, func(i, j int) bool { return ids[i] < ids[j] })
	return ids
}

// end of a history: direct oracle on what is left behind
func (r *runner) endChecks(expectQuiescent bool) {
	p, k := pendingFutures(), parkedDeliveries()
	if k != 0 {
		r.oracle("%d goroutine(s) parked in response delivery", k)
	}
	if expectQuiescent && p != 0 {
		r.oracle("%d entr(ies) left in the pending-future table after every request completed or was abandoned: ids %v", p, sgetty.VerifPendingIDs())
	}
}

func (r *runner) fresh() {
	wi := r.send(true, false)
	if !wi.waiting {
		r.oracle("fresh request could not be sent")
		return
	}
	r.reply(wi.id)
	r.obs()
	for _, o := range r.cs.Out {
		if o.K == wi.k && o.Class == 1 {
			r.cs.Fresh = true
		}
	}
	if !r.cs.Fresh {
		r.oracle("a fresh request after the history did not complete")
	}
}

func (r *runner) finalOut() {
	for _, wi := range r.ws {
		if !wi.done {
			r.cs.Out = append(r.cs.Out, outRec{K: wi.k, ID: int64(wi.id), HasID: wi.hasID, Sync: wi.sync, Class: 0})
		} else if !wi.sync || !wi.hasID {
			found := false
			for _, o := range r.cs.Out {
				if o.K == wi.k {
					found = true
				}
			}
			if !found {
				r.cs.Out = append(r.cs.Out, outRec{K: wi.k, ID: int64(wi.id), HasID: wi.hasID, Sync: wi.sync, Class: 0})
			}
		}
	}
	sort.Slice(r.cs.Out, func(i, j int) bool { return r.cs.Out[i].K < r.cs.Out[j].K })
	r.cs.Callers = len(r.ws)
}

var startPoints = []uint32{0, 0, 5, 1000, 2147483645, 2147483647, 4294967293, 4294967295, 123456789}

func pickStart(rng *hutil.Rng) (uint32, uint32) {
	c0 := startPoints[rng.Intn(len(startPoints))]
	if rng.Chance(1, 4) {
		c0 = uint32(rng.Next())
	}
	h0 := c0
	switch rng.Intn(4) {
	case 0:
		h0 = c0 + uint32(rng.Intn(4))
	case 1:
		h0 = c0 - uint32(rng.Intn(3))
	case 2:
		h0 = uint32(rng.Next())
	}
	return c0, h0
}

// ---------------------------------------------------------------- sequenced histories (no timeouts)
func seqCase(rng *hutil.Rng, malformed bool) *c14case {
	t0 := time.Now()
	c0, h0 := pickStart(rng)
	r := newRunner("seq", c0, h0)
	r.announce(rng.Intn(3))
	reg := r.open()
	r.obs()
	if rng.Chance(2, 3) {
		r.reply(reg.id)
		r.obs()
	}
	n := 4 + rng.Intn(28)
	for i := 0; i < n; i++ {
		if len(r.cs.Oracle) > 0 {
			break // the history is cut at the first failure of the property: it is the failing input
		}
		ids := r.waitingIDs()
		x := rng.Intn(100)
		if malformed {
			x = 40 + rng.Intn(60)
		}
		anyID := func() int32 {
			if len(ids) > 0 && rng.Chance(3, 4) {
				return ids[rng.Intn(len(ids))]
			}
			return int32(c0) + int32(rng.Intn(40)) - 10
		}
		switch {
		case x < 6:
			r.sendEarly(1 + rng.Intn(3)/2*(1+rng.Intn(2)))
		case x < 30:
			r.send(rng.Chance(5, 6), rng.Chance(1, 8))
		case x < 55:
			if len(ids) > 0 {
				r.reply(ids[rng.Intn(len(ids))])
			} else {
				r.send(true, false)
			}
		case x < 63: // duplicate / unknown / already answered id
			r.reply(anyID() + int32(rng.Intn(2))*int32(rng.Intn(3)))
		case x < 73:
			r.writeResp(anyID(), rng.Chance(1, 5))
		case x < 81:
			r.heartbeat(rng.Chance(1, 5))
		case x < 88:
			r.pong(anyID())
		case x < 91:
			r.junk(rng, anyID())
		case x < 94:
			if len(r.rmIDs) > 0 {
				j := rng.Intn(len(r.rmIDs))
				r.answerRM(r.rmIDs[j])
				r.rmIDs = append(r.rmIDs[:j], r.rmIDs[j+1:]...)
			} else {
				r.junk(rng, anyID())
			}
		default:
			silent := rng.Chance(1, 2)
			r.closeSess(silent)
			r.obs()
			if silent && rng.Chance(1, 2) {
				r.send(true, false) // no open session is registered: immediate error
				r.obs()
			}
			if silent {
				r.handler.OnClose(r.sess)
			}
			r.open()
		}
		r.obs()
	}
	// complete whatever is still waiting (in a random order, some twice)
	ids := r.waitingIDs()
	for len(ids) > 0 && len(r.cs.Oracle) == 0 {
		j := rng.Intn(len(ids))
		r.reply(ids[j])
		if rng.Chance(1, 4) {
			r.reply(ids[j])
		}
		r.obs()
		ids = r.waitingIDs()
	}
	if len(r.cs.Oracle) == 0 {
		r.endChecks(true)
		r.fresh()
		r.endChecks(true)
	}
	r.finalOut()
	r.handler.OnClose(r.sess) // leave no registered session behind for the next history
	r.cs.Secs = time.Since(t0).Seconds()
	return r.cs
}

// ---------------------------------------------------------------- all reply orders for n callers in flight
func permOf(rng *hutil.Rng, n int) []int {
	p := make([]int, n)
	for i := range p {
		p[i] = i
	}
	for i := n - 1; i > 0; i-- {
		j := rng.Intn(i + 1)
		p[i], p[j] = p[j], p[i]
	}
	return p
}

func permutations(n int) [][]int {
	if n == 0 {
		return [][]int{{}}
	}
	var out [][]int
	for _, p := range permutations(n - 1) {
		for pos := 0; pos <= len(p); pos++ {
			q := append(append(append([]int{}, p[:pos]...), n-1), p[pos:]...)
			out = append(out, q)
		}
	}
	return out
}

// permCase: n callers in flight, replies in the given order; with dup every reply
// is delivered twice, the second copies after all first copies (stragglers)
func permCase(rng *hutil.Rng, n int, order []int, dup bool) *c14case {
	t0 := time.Now()
	c0, h0 := pickStart(rng)
	r := newRunner("perm", c0, h0)
	reg := r.open()
	r.reply(reg.id)
	var ws []*waiterInfo
	for i := 0; i < n; i++ {
		ws = append(ws, r.send(true, false))
	}
	r.obs()
	for _, i := range order {
		r.reply(ws[i].id)
		r.obs()
	}
	if dup {
		for _, i := range order {
			r.reply(ws[i].id)
		}
		r.obs()
	}
	r.endChecks(true)
	r.fresh()
	r.endChecks(true)
	r.finalOut()
	r.handler.OnClose(r.sess)
	r.cs.Secs = time.Since(t0).Seconds()
	return r.cs
}

// ---------------------------------------------------------------- concurrent histories
// n callers at once, replies from separate goroutines in any order, with delays
// and duplicates; the recorded history is a witness linearisation (sends in id
// order, for every caller the deliveries ordered so that the body it returned
// is the last one written before it woke up).
func concCase(rng *hutil.Rng, n int) *c14case {
	t0 := time.Now()
	c0, h0 := pickStart(rng)
	r := newRunner("conc", c0, h0)
	reg := r.open()
	r.reply(reg.id)
	r.obs()
	type plan struct {
		copies int
		delays []time.Duration
	}
	plans := make([]plan, n)
	for i := range plans {
		c := 1
		if rng.Chance(1, 3) {
			c = 2 + rng.Intn(2)
		}
		burst := rng.Chance(1, 6) || i == 0
		if burst {
			c = 6
			if i == 0 {
				c = 16
			}
		}
		p := plan{copies: c}
		for j := 0; j < c; j++ {
			d := time.Duration(rng.Intn(3000)) * time.Microsecond
			if burst {
				d = 0 // all copies at once: several pass the lookup before the first removes the entry
			}
			p.delays = append(p.delays, d)
		}
		plans[i] = p
	}
	var mu sync.Mutex
	var wg sync.WaitGroup
	sent := map[string]int32{}
	bodies := map[int32][]int64{}
	var bodyCtr int64 = 1000000
	parkedOrPanic := int32(0)
	handler := r.handler
	sess := r.sess
	r.w.mu.Lock()
	r.w.hook = func(rec wrec) {
		if !strings.HasPrefix(rec.Tag, "c") {
			return
		}
		i, _ := strconv.Atoi(rec.Tag[1:])
		mu.Lock()
		sent[rec.Tag] = rec.ID
		p := plans[i]
		var bs []int64
		for range p.delays {
			bodyCtr++
			bs = append(bs, bodyCtr)
			r.bodyID[bodyCtr] = rec.ID
		}
		bodies[rec.ID] = bs
		mu.Unlock()
		for j, d := range p.delays {
			wg.Add(1)
			go func(b int64, d time.Duration) {
				defer wg.Done()
				defer func() {
					if p := recover(); p != nil {
						atomic.AddInt32(&parkedOrPanic, 1)
					}
				}()
				time.Sleep(d)
				handler.OnMessage(sess, message.RpcMessage{ID: rec.ID, Type: message.GettyRequestTypeResponse, Codec: 1,
					Body: message.GlobalBeginResponse{Xid: strconv.FormatInt(b, 10)}})
			}(bs[j], d)
		}
	}
	r.w.mu.Unlock()
	type cres struct {
		i   int
		res result
	}
	resCh := make(chan cres, n)
	start := make(chan struct{})
	for i := 0; i < n; i++ {
		go func(i int) {
			defer func() {
				if p := recover(); p != nil {
					resCh <- cres{i, result{nil, fmt.Errorf("panic: %v", p)}}
				}
			}()
			<-start
			v, err := sgetty.GetGettyRemotingClient().SendSyncRequest(message.GlobalBeginRequest{TransactionName: "c" + strconv.Itoa(i)})
			resCh <- cres{i, result{v, err}}
		}(i)
	}
	close(start)
	got := map[int]result{}
	deadline, stopDeadline := patient(15 * time.Second)
	defer stopDeadline()
loop:
	for len(got) < n {
		select {
		case c := <-resCh:
			got[c.i] = c.res
		case <-deadline:
			break loop
		}
	}
	wdone := make(chan struct{})
	go func() { wg.Wait(); close(wdone) }()
	pt9, stop9 := patient(5 * time.Second)
	defer stop9()
	select {
	case <-wdone:
	case <-pt9:
		r.oracle("reply deliveries still blocked 5 s after the last caller returned")
	}
	r.w.mu.Lock()
	r.w.hook = nil
	r.w.mu.Unlock()
	if parkedOrPanic != 0 {
		r.oracle("%d reply deliveries panicked", parkedOrPanic)
	}
	// witness linearisation
	type snd struct {
		i   int
		id  int32
		off uint32
	}
	var sends []snd
	mu.Lock()
	for tag, id := range sent {
		i, _ := strconv.Atoi(tag[1:])
		sends = append(sends, snd{i, id, uint32(id) - c0})
	}
	mu.Unlock()
	sort.Slice(sends, func(a, b int) bool { return sends[a].off < sends[b].off })
	base := r.nextK
	keyOf := map[int]int{}
	for j, s := range sends {
		keyOf[s.i] = base + j
		r.ev("S", base+j, false)
		wi := &waiterInfo{k: base + j, sync: true, id: s.id, hasID: true}
		r.ws[wi.k] = wi
	}
	r.nextK = base + len(sends)
	if len(sends) != n {
		r.oracle("%d of %d concurrent callers wrote a request", len(sends), n)
	}
	for _, s := range sends {
		wi := r.ws[keyOf[s.i]]
		res, ok := got[s.i]
		bs := bodies[s.id]
		if !ok {
			r.oracle("concurrent caller %d (id %d) did not return although %d replies were delivered", s.i, s.id, len(bs))
			for _, b := range bs {
				r.ev("D", int64(s.id), b)
			}
			continue
		}
		var ret int64 = -1
		if res.err == nil {
			if gb, ok2 := res.v.(message.GlobalBeginResponse); ok2 {
				ret, _ = strconv.ParseInt(gb.Xid, 10, 64)
			}
		}
		for _, b := range bs {
			if b != ret {
				r.ev("D", int64(s.id), b)
			}
		}
		if res.err == nil {
			r.ev("D", int64(s.id), ret)
			r.ev("K", wi.k)
		} else {
			r.oracle("concurrent caller %d (id %d) got error %q although %d replies were delivered", s.i, s.id, firstLine(res.err.Error()), len(bs))
		}
		for i := 0; i < len(bs); i++ {
			r.ev("R", int64(s.id))
		}
		r.finish(wi, res)
	}
	r.obs()
	r.endChecks(true)
	r.fresh()
	r.endChecks(true)
	r.finalOut()
	r.handler.OnClose(r.sess) // leave no registered session behind for the next history
	r.cs.Secs = time.Since(t0).Seconds()
	return r.cs
}

// ---------------------------------------------------------------- a session opens while resources are registered and requests are pending
// k resources registered; p sync callers pending; the connection is lost and a new session opens:
// the real OnOpen re-announces the resources (RegisterRM requests, no callback). The coordinator
// answers those FIRST, then the pending callers: every caller must still get the answer to its own request.
func reopenCase(rng *hutil.Rng) *c14case {
	t0 := time.Now()
	c0 := startPoints[rng.Intn(len(startPoints))]
	h0 := c0 + uint32(rng.Intn(4)) - 1 // both generators count from about the same point (both start at 0 in a fresh process)
	r := newRunner("reopen", c0, h0)
	r.announce(1 + rng.Intn(3))
	reg := r.open()
	r.reply(reg.id)
	r.obs()
	var ws []*waiterInfo
	for i, p := 0, 3+rng.Intn(4); i < p; i++ {
		ws = append(ws, r.send(true, false))
	}
	r.obs()
	for rng.Chance(1, 2) {
		r.heartbeat(false)
	}
	silent := rng.Chance(1, 2)
	r.closeSess(silent)
	if silent {
		r.handler.OnClose(r.sess)
	}
	reg2 := r.open()
	r.obs()
	for _, id := range r.rmIDs {
		r.answerRM(id)
		r.obs()
	}
	r.rmIDs = nil
	r.reply(reg2.id)
	for _, j := range permOf(rng, len(ws)) {
		if ws[j].waiting {
			r.reply(ws[j].id)
		}
		r.obs()
	}
	if len(r.cs.Oracle) == 0 {
		r.endChecks(true)
		r.fresh()
		r.endChecks(true)
	}
	r.finalOut()
	r.handler.OnClose(r.sess)
	r.cs.Secs = time.Since(t0).Seconds()
	return r.cs
}

// ---------------------------------------------------------------- callers crossing the int32 boundary of the id space together
// n callers spin on a flag and are released at once while the id counter stands k steps before
// MaxInt32; all requests are in flight before any reply is sent. Direct oracle: two requests
// in flight never carry the same id; then every caller gets its own reply.
func boundaryCase(rng *hutil.Rng, n, k int) *c14case {
	t0 := time.Now()
	c0 := uint32(2147483647 - k)
	r := newRunner("boundary", c0, uint32(rng.Next()))
	reg := r.open()
	r.reply(reg.id)
	r.obs()
	var mu sync.Mutex
	sent := map[int]int32{}
	r.w.mu.Lock()
	r.w.hook = func(rec wrec) {
		if strings.HasPrefix(rec.Tag, "c") {
			i, _ := strconv.Atoi(rec.Tag[1:])
			mu.Lock()
			sent[i] = rec.ID
			mu.Unlock()
		}
	}
	r.w.mu.Unlock()
	var ready, goFlag atomic.Int32
	type cres struct {
		i   int
		res result
	}
	resCh := make(chan cres, n)
	for i := 0; i < n; i++ {
		go func(i int) {
			defer func() {
				if p := recover(); p != nil {
					resCh <- cres{i, result{nil, fmt.Errorf("panic: %v", p)}}
				}
			}()
			ready.Add(1)
			for goFlag.Load() == 0 {
			}
			v, err := sgetty.GetGettyRemotingClient().SendSyncRequest(message.GlobalBeginRequest{TransactionName: "c" + strconv.Itoa(i)})
			resCh <- cres{i, result{v, err}}
		}(i)
	}
	for ready.Load() < int32(n) {
		time.Sleep(50 * time.Microsecond)
	}
	goFlag.Store(1)
	lim, stop := patient(10 * time.Second)
	defer stop()
	nsent := func() int { mu.Lock(); defer mu.Unlock(); return len(sent) }
waitSent:
	for nsent() < n {
		select {
		case <-lim:
			r.oracle("%d of %d callers wrote a request within 10 s", nsent(), n)
			break waitSent
		default:
			time.Sleep(50 * time.Microsecond)
		}
	}
	r.w.mu.Lock()
	r.w.hook = nil
	r.w.mu.Unlock()
	mu.Lock()
	byID := map[int32][]int{}
	for i, id := range sent {
		byID[id] = append(byID[id], i)
	}
	mu.Unlock()
	for id, l := range byID {
		if len(l) > 1 {
			sort.Ints(l)
			r.oracle("%d requests in flight at once carry the same id %d (callers %v of %d released together, id counter %d before the crossing): one future replaces the other", len(l), id, l, n, c0+1)
		}
	}
	type snd struct {
		i   int
		id  int32
		off uint32
	}
	var sends []snd
	for i, id := range sent {
		sends = append(sends, snd{i, id, uint32(id) - c0})
	}
	sort.Slice(sends, func(a, b int) bool {
		return sends[a].off < sends[b].off || (sends[a].off == sends[b].off && sends[a].i < sends[b].i)
	})
	base := r.nextK
	for j, sd := range sends {
		r.ev("S", base+j, false)
		r.ws[base+j] = &waiterInfo{k: base + j, sync: true, id: sd.id, hasID: true, waiting: true}
	}
	r.nextK = base + len(sends)
	r.obs()
	if len(r.cs.Oracle) > 0 { // the failing input is complete; the callers are left to their timeouts
		r.finalOut()
		r.handler.OnClose(r.sess)
		r.cs.Secs = time.Since(t0).Seconds()
		return r.cs
	}
	// one reply each, from separate goroutines, in a random order
	order := rng.Intn(len(sends) + 1)
	var wg sync.WaitGroup
	bodies := map[int32]int64{}
	for j := range sends {
		sd := sends[(j+order)%len(sends)]
		r.nextBody++
		b := r.nextBody
		r.bodyID[b] = sd.id
		bodies[sd.id] = b
		wg.Add(1)
		go func(id int32, b int64) {
			defer func() { recover(); wg.Done() }()
			r.handler.OnMessage(r.sess, message.RpcMessage{ID: id, Type: message.GettyRequestTypeResponse, Codec: 1,
				Body: message.GlobalBeginResponse{Xid: strconv.FormatInt(b, 10)}})
		}(sd.id, b)
	}
	got := map[int]result{}
	lim2, stop2 := patient(10 * time.Second)
	defer stop2()
collect:
	for len(got) < n {
		select {
		case c := <-resCh:
			got[c.i] = c.res
		case <-lim2:
			break collect
		}
	}
	wdone := make(chan struct{})
	go func() { wg.Wait(); close(wdone) }()
	lim3, stop3 := patient(5 * time.Second)
	defer stop3()
	select {
	case <-wdone:
	case <-lim3:
		r.oracle("reply deliveries still blocked 5 s after the replies were sent")
	}
	for j, sd := range sends {
		wi := r.ws[base+j]
		res, ok := got[sd.i]
		r.ev("D", int64(sd.id), bodies[sd.id])
		r.ev("R", int64(sd.id))
		if !ok {
			r.oracle("caller %d (id %d) did not return although its reply was delivered", sd.i, sd.id)
			continue
		}
		if res.err == nil && res.v != nil {
			r.ev("K", wi.k)
		}
		r.finish(wi, res)
		if res.err != nil {
			r.oracle("caller %d (id %d) got error %q although its reply was delivered", sd.i, sd.id, firstLine(res.err.Error()))
		}
	}
	r.obs()
	r.endChecks(true)
	r.fresh()
	r.endChecks(true)
	r.finalOut()
	r.handler.OnClose(r.sess)
	r.cs.Secs = time.Since(t0).Seconds()
	return r.cs
}

// ---------------------------------------------------------------- prompt replies (used under the race detector)
type promptResult struct {
	Requests int      `json:"requests"`
	Nil      int      `json:"nil_returns"`
	Oracle   []string `json:"oracle"`
	Secs     float64  `json:"secs"`
}

// promptBurst: g callers send requests one after the other; the fake session answers each
// request at once from its own goroutine (exactly one reply per request, no duplicates), so a
// waiter wakes up as early as it can. Every caller must return the reply to its own request.
func promptBurst(g, per int) *promptResult {
	t0 := time.Now()
	res := &promptResult{}
	r := newRunner("prompt", 1000, 500000)
	reg := r.open()
	r.reply(reg.id)
	handler, sess := r.handler, r.sess
	r.w.mu.Lock()
	r.w.hook = func(rec wrec) {
		if !strings.HasPrefix(rec.Tag, "p") {
			return
		}
		go func() {
			defer func() { recover() }()
			handler.OnMessage(sess, message.RpcMessage{ID: rec.ID, Type: message.GettyRequestTypeResponse, Codec: 1,
				Body: message.GlobalBeginResponse{Xid: "re-" + rec.Tag}})
		}()
	}
	r.w.mu.Unlock()
	var mu sync.Mutex
	var wg sync.WaitGroup
	for w := 0; w < g; w++ {
		wg.Add(1)
		go func(w int) {
			defer wg.Done()
			for i := 0; i < per; i++ {
				tag := "p" + strconv.Itoa(w) + "-" + strconv.Itoa(i)
				v, err := func() (v interface{}, err error) {
					defer func() {
						if p := recover(); p != nil {
							err = fmt.Errorf("panic: %v", p)
						}
					}()
					return sgetty.GetGettyRemotingClient().SendSyncRequest(message.GlobalBeginRequest{TransactionName: tag})
				}()
				mu.Lock()
				res.Requests++
				switch {
				case err != nil:
					res.Oracle = append(res.Oracle, fmt.Sprintf("request %s answered at once: caller got error %q", tag, firstLine(err.Error())))
				case v == nil:
					res.Nil++
					if res.Nil <= 3 {
						res.Oracle = append(res.Oracle, fmt.Sprintf("request %s answered at once: caller returned (nil, nil), not its reply", tag))
					}
				default:
					if gb, ok := v.(message.GlobalBeginResponse); !ok || gb.Xid != "re-"+tag {
						res.Oracle = append(res.Oracle, fmt.Sprintf("request %s answered at once: caller returned %v, not its reply", tag, v))
					}
				}
				stop := len(res.Oracle) >= 3
				mu.Unlock()
				if stop {
					return
				}
			}
		}(w)
	}
	done := make(chan struct{})
	go func() { wg.Wait(); close(done) }()
	lim, stopL := patient(120 * time.Second)
	defer stopL()
	select {
	case <-done:
	case <-lim:
		mu.Lock()
		res.Oracle = append(res.Oracle, "prompt burst did not finish within its bound")
		mu.Unlock()
	}
	res.Secs = time.Since(t0).Seconds()
	return res
}

// ---------------------------------------------------------------- one batch with real timeouts (20 s)
func batchCase(rng *hutil.Rng, n int) *c14case {
	t0 := time.Now()
	c0, h0 := pickStart(rng)
	r := newRunner("batch", c0, h0)
	reg := r.open() // its RegisterTM is never answered: the one-way waiter times out too
	_ = reg
	r.obs()
	type treat struct {
		wi   *waiterInfo
		kind int // 0 drop, 1 late reply, 2 late duplicate replies, 3 answered in time then a late duplicate, 4 colliding traffic then answered
	}
	var ts []treat
	for i := 0; i < n; i++ {
		kind := rng.Intn(5)
		sync := rng.Chance(4, 5)
		wi := r.send(sync, false)
		ts = append(ts, treat{wi, kind})
		if rng.Chance(1, 3) {
			r.obs()
		}
	}
	r.obs()
	for _, t := range ts {
		if !t.wi.waiting {
			continue
		}
		switch t.kind {
		case 3:
			r.reply(t.wi.id)
		case 4:
			switch rng.Intn(3) {
			case 0:
				r.writeResp(t.wi.id, rng.Chance(1, 3))
			case 1:
				r.pong(t.wi.id)
			default:
				r.heartbeat(rng.Chance(1, 3))
			}
			r.obs()
			r.reply(t.wi.id)
		}
	}
	r.obs()
	// connection loss with requests pending, then a new session
	lost := rng.Chance(2, 3)
	if lost {
		r.closeSess(false)
		r.obs()
		r.open()
		r.obs()
	}
	// wait for the timeouts of everything unanswered
	// the client's timer (gost timer wheel) may fire late under CPU load — a whole
	// revolution of its seconds wheel late when a tick is missed — so the limit is
	// generous; normally everything has returned 20-21 s after the sends
	// (limits are counted in polling steps of this process, not in wall-clock time:
	// a stall of the whole machine must not look like a caller that never returns)
	steps, maxSteps := 0, 4000 // x 50 ms = 200 s
	for {
		open := 0
		for _, wi := range r.sortedWaiters() {
			if wi.waiting && wi.sync {
				open++
				select {
				case res := <-wi.res:
					r.finish(wi, res)
					r.ev("T", wi.k)
					if res.err == nil {
						r.oracle("caller %d (id %d) returned a value although no reply was delivered to it", wi.k, wi.id)
					} else if classify(res.err) != 1 {
						r.oracle("caller %d whose reply never came returned %q, not the timeout error", wi.k, firstLine(res.err.Error()))
					}
				default:
				}
			}
		}
		steps++
		if open == 0 || steps > maxSteps {
			break
		}
		time.Sleep(50 * time.Millisecond)
	}
	// one-way waiters time out inside the client: wait until the table drains
	// (they were sent at most a few seconds after the callers that have just returned)
	for drain := 0; drain < 450 && steps <= maxSteps && pendingFutures() > 0; drain++ {
		steps += 2
		time.Sleep(100 * time.Millisecond)
	}
	time.Sleep(300 * time.Millisecond)
	r.cs.TimeoutWait = time.Since(t0).Seconds()
	for _, wi := range r.sortedWaiters() {
		if wi.waiting && !wi.sync {
			wi.waiting, wi.done = false, true
			r.ev("T", wi.k)
		}
		if wi.waiting && wi.sync {
			r.oracle("caller %d (id %d) did not return within 200 s", wi.k, wi.id)
		}
	}
	r.obs()
	r.endChecks(true)
	// stragglers
	for _, t := range ts {
		if !t.wi.hasID {
			continue
		}
		switch t.kind {
		case 1, 3:
			r.reply(t.wi.id)
		case 2:
			r.reply(t.wi.id)
			r.reply(t.wi.id)
		}
		r.obs()
	}
	r.endChecks(true)
	r.fresh()
	r.endChecks(true)
	r.finalOut()
	r.handler.OnClose(r.sess) // leave no registered session behind for the next history
	r.cs.Secs = time.Since(t0).Seconds()
	return r.cs
}

// Run14: remrun14 out= seed= mode=seq|batch conf= nseq= nconc= nbatch=
func Run14(args map[string]string) {
	initClient(args)
	seed := hutil.ArgU64(args, "seed", 1)
	mode := hutil.ArgStr(args, "mode", "seq")
	rng := hutil.NewRng(seed ^ 0xC14)
	var cases []*c14case
	if mode == "prompt" {
		hutil.WriteJSON(args["out"], map[string]interface{}{"cases": cases, "mode": mode, "seed": seed,
			"prompt": promptBurst(hutil.ArgInt(args, "g", 8), hutil.ArgInt(args, "per", 500))})
		return
	}
	if mode == "batch" {
		cases = append(cases, batchCase(rng.Fork(77), hutil.ArgInt(args, "nbatch", 24)))
	} else {
		nseq := hutil.ArgInt(args, "nseq", 100)
		failing := func() int {
			n := 0
			for _, c := range cases {
				if len(c.Oracle) > 0 {
					n++
				}
			}
			return n
		}
		for i := 0; i < nseq && failing() < 3; i++ {
			cases = append(cases, seqCase(rng.Fork(uint64(i)), i%5 == 4))
		}
		// exhaustive: every order of the replies for up to maxperm callers in flight
		for n := 1; n <= hutil.ArgInt(args, "maxperm", 3); n++ {
			for pi, order := range permutations(n) {
				if failing() >= 3 {
					break
				}
				cases = append(cases, permCase(rng.Fork(uint64(50000+100*n+pi)), n, order, pi%2 == 1))
			}
		}
		for i := 0; i < hutil.ArgInt(args, "nreopen", 30) && failing() < 3; i++ {
			cases = append(cases, reopenCase(rng.Fork(uint64(60000+i))))
		}
		// callers crossing the int32 boundary of the id space together
		for i := 0; i < hutil.ArgInt(args, "nbound", 40) && failing() < 3; i++ {
			cases = append(cases, boundaryCase(rng.Fork(uint64(70000+i)), 8+rng.Intn(8), 1+rng.Intn(4)))
		}
		sizes := []int{1, 2, 8, 64}
		nconc := hutil.ArgInt(args, "nconc", 8)
		for i := 0; i < nconc && failing() < 3; i++ {
			sz := sizes[i%len(sizes)]
			if i >= 2*len(sizes) && i%7 == 0 {
				sz = 256
			}
			cases = append(cases, concCase(rng.Fork(uint64(1000+i)), sz))
		}
	}
	hutil.WriteJSON(args["out"], map[string]interface{}{"cases": cases, "mode": mode, "seed": seed})
}
