package remrun

// TCP smoke scenario (C14 + C15 over the FULL stack): a stand-in coordinator
// listens on a loopback port with the repository's own frame reader/writer and
// codecs; the real client connects through getty (session manager, event
// listener, task pool, heartbeats). It shows that what the fake-session level
// observes is what the full stack does. Direct oracle only (no model tie).

import (
	"fmt"
	"net"
	"os"
	"strconv"
	"strings"
	"sync"
	"time"

	getty "github.com/apache/dubbo-getty"
	gxsync "github.com/dubbogo/gost/sync"

	"seata.apache.org/seata-go/pkg/client"
	"seata.apache.org/seata-go/pkg/protocol/branch"
	"seata.apache.org/seata-go/pkg/protocol/message"
	sgetty "seata.apache.org/seata-go/pkg/remoting/getty"
	"seata.apache.org/seata-go/pkg/rm"

	"verifh/hutil"
)

type tcStub struct {
	mu     sync.Mutex
	sess   getty.Session
	opened chan struct{}
	begins chan message.RpcMessage
	resps  []p2resp
	hb     int
	opens  int
	closes int
	regIDs []int32 // ids of the RegisterTM requests seen
	other  []string
}

func (t *tcStub) OnOpen(s getty.Session) error {
	t.mu.Lock()
	t.sess = s
	t.opens++
	t.mu.Unlock()
	return nil
}
func (t *tcStub) OnError(getty.Session, error) { t.mu.Lock(); t.closes++; t.mu.Unlock() }
func (t *tcStub) OnClose(getty.Session)        { t.mu.Lock(); t.closes++; t.mu.Unlock() }
func (t *tcStub) OnCron(getty.Session)         {}
func (t *tcStub) OnMessage(s getty.Session, pkg interface{}) {
	m, ok := pkg.(message.RpcMessage)
	if !ok {
		return
	}
	switch b := m.Body.(type) {
	case message.RegisterTMRequest:
		t.mu.Lock()
		t.regIDs = append(t.regIDs, m.ID)
		t.mu.Unlock()
		_, _, _ = s.WritePkg(message.RpcMessage{ID: m.ID, Type: message.GettyRequestTypeResponse, Codec: 1,
			Body: message.RegisterTMResponse{AbstractIdentifyResponse: message.AbstractIdentifyResponse{Identified: true, Version: "1.5.2"}}}, time.Second)
		select {
		case t.opened <- struct{}{}:
		default:
		}
	case message.HeartBeatMessage:
		t.mu.Lock()
		t.hb++
		t.mu.Unlock()
		_, _, _ = s.WritePkg(message.RpcMessage{ID: m.ID, Type: message.GettyRequestTypeHeartbeatResponse, Codec: 1, Body: message.HeartBeatMessagePong}, time.Second)
	case message.GlobalBeginRequest:
		t.begins <- m
	case message.BranchCommitResponse:
		t.mu.Lock()
		t.resps = append(t.resps, p2resp{m.ID, "BranchCommitResponse", b.Xid, b.BranchId, int(b.BranchStatus), int(b.ResultCode)})
		t.mu.Unlock()
	case message.BranchRollbackResponse:
		t.mu.Lock()
		t.resps = append(t.resps, p2resp{m.ID, "BranchRollbackResponse", b.Xid, b.BranchId, int(b.BranchStatus), int(b.ResultCode)})
		t.mu.Unlock()
	default:
		t.mu.Lock()
		t.other = append(t.other, fmt.Sprintf("%T", m.Body))
		t.mu.Unlock()
	}
}

// pendingBesidesRegistration: entries of the pending-future table that do not belong to a
// RegisterTM request. The client connects while it is still initialising (InitGetty dials before
// the processors are registered), so the answer to its first RegisterTM can be dropped as "no
// processor"; that one-way waiter then keeps its entry until its own 20 s timeout — no leak.
func (t *tcStub) pendingBesidesRegistration() []int32 {
	t.mu.Lock()
	reg := map[int32]bool{}
	for _, id := range t.regIDs {
		reg[id] = true
	}
	t.mu.Unlock()
	var out []int32
	for _, id := range sgetty.VerifPendingIDs() {
		if !reg[id] {
			out = append(out, id)
		}
	}
	return out
}

type tcpResult struct {
	Skipped    string   `json:"skipped,omitempty"` // infrastructure reason (no verdict)
	Oracle     []string `json:"oracle"`
	Callers    int      `json:"callers"`
	Replies    int      `json:"replies_sent"`
	P2Reqs     int      `json:"p2_requests"`
	P2Resps    int      `json:"p2_responses"`
	Heartbeats int      `json:"heartbeats_seen"`
	Secs       float64  `json:"secs"`
}

// RunTCP: remruntcp out= seed= conf=<template yml with 127.0.0.1:1> n= m=
func RunTCP(args map[string]string) {
	t0 := time.Now()
	res := &tcpResult{}
	var tcRef *tcStub
	defer func() {
		if tcRef != nil {
			tcRef.mu.Lock()
			opens, closes := tcRef.opens, tcRef.closes
			tcRef.mu.Unlock()
			if (opens > 1 || closes > 0) && res.Skipped == "" {
				// the connection was lost / re-established while the scenario ran (read timeouts on a loaded
				// machine): requests in flight then wait for their 20 s timeout and their entries are no leak;
				// the smoke scenario gives no verdict in that case
				res.Skipped = fmt.Sprintf("the loopback connection was re-established during the scenario (%d opens, %d closes)", opens, closes)
				res.Oracle = nil
			}
		}
		res.Secs = time.Since(t0).Seconds()
		hutil.WriteJSON(args["out"], map[string]interface{}{"tcp": res})
	}()
	seed := hutil.ArgU64(args, "seed", 1)
	rng := hutil.NewRng(seed ^ 0x7C9)
	l, err := net.Listen("tcp", "127.0.0.1:0")
	if err != nil {
		res.Skipped = "cannot listen on loopback: " + err.Error()
		return
	}
	port := l.Addr().(*net.TCPAddr).Port
	l.Close()
	addr := "127.0.0.1:" + strconv.Itoa(port)
	tmpl, err := os.ReadFile(hutil.ArgStr(args, "conf", ""))
	if err != nil {
		res.Skipped = "conf: " + err.Error()
		return
	}
	confPath := strings.TrimSuffix(args["out"], ".json") + "_conf.yml"
	if err := os.WriteFile(confPath, []byte(strings.ReplaceAll(string(tmpl), "127.0.0.1:1", addr)), 0o644); err != nil {
		res.Skipped = "conf: " + err.Error()
		return
	}
	tc := &tcStub{opened: make(chan struct{}, 4), begins: make(chan message.RpcMessage, 1024)}
	tcRef = tc
	srv := getty.NewTCPServer(getty.WithLocalAddress(addr), getty.WithServerTaskPool(gxsync.NewTaskPoolSimple(0)))
	go srv.RunEventLoop(func(s getty.Session) error {
		s.SetName("tc-stub")
		s.SetMaxMsgLen(16498688)
		s.SetPkgHandler(&sgetty.RpcPackageHandler{})
		s.SetEventListener(tc)
		s.SetReadTimeout(time.Second)
		s.SetWriteTimeout(5 * time.Second)
		s.SetCronPeriod(60000)
		s.SetWaitTime(time.Second)
		return nil
	})
	time.Sleep(200 * time.Millisecond)
	client.InitPath(confPath)
	lim, stop := patient(15 * time.Second)
	defer stop()
	select {
	case <-tc.opened:
	case <-lim:
		res.Skipped = "the client did not connect and register within 15 s"
		return
	}
	for _, bt := range []branch.BranchType{branch.BranchTypeAT, branch.BranchTypeTCC, branch.BranchTypeXA} {
		rm.GetRmCacheInstance().RegisterResourceManager(&scriptedRM{bt: bt})
	}
	time.Sleep(300 * time.Millisecond) // let the RegisterTM answer settle
	oracle := func(f string, a ...interface{}) { res.Oracle = append(res.Oracle, fmt.Sprintf(f, a...)) }

	// ---- C14 over TCP: n concurrent callers, replies permuted, some duplicated
	n := hutil.ArgInt(args, "n", 16)
	res.Callers = n
	type cr struct {
		i   int
		v   interface{}
		err error
	}
	out := make(chan cr, n)
	for i := 0; i < n; i++ {
		go func(i int) {
			defer func() {
				if p := recover(); p != nil {
					out <- cr{i, nil, fmt.Errorf("panic: %v", p)}
				}
			}()
			v, err := sgetty.GetGettyRemotingClient().SendSyncRequest(message.GlobalBeginRequest{TransactionName: "t" + strconv.Itoa(i), Timeout: time.Second})
			out <- cr{i, v, err}
		}(i)
	}
	var reqs []message.RpcMessage
	lim2, stop2 := patient(10 * time.Second)
	defer stop2()
collect:
	for len(reqs) < n {
		select {
		case m := <-tc.begins:
			reqs = append(reqs, m)
		case <-lim2:
			oracle("only %d of %d requests reached the coordinator stand-in", len(reqs), n)
			break collect
		}
	}
	for i := len(reqs) - 1; i > 0; i-- { // reply in a permuted order
		j := rng.Intn(i + 1)
		reqs[i], reqs[j] = reqs[j], reqs[i]
	}
	tc.mu.Lock()
	sess := tc.sess
	tc.mu.Unlock()
	for _, m := range reqs {
		tag := m.Body.(message.GlobalBeginRequest).TransactionName
		copies := 1
		if rng.Chance(1, 3) {
			copies = 2
		}
		for c := 0; c < copies; c++ {
			res.Replies++
			_, _, _ = sess.WritePkg(message.RpcMessage{ID: m.ID, Type: message.GettyRequestTypeResponse, Codec: 1,
				Body: message.GlobalBeginResponse{Xid: "r-" + tag + "-" + strconv.Itoa(int(m.ID)),
					AbstractTransactionResponse: message.AbstractTransactionResponse{AbstractResultMessage: message.AbstractResultMessage{ResultCode: message.ResultCodeSuccess}}}}, time.Second)
		}
	}
	lim3, stop3 := patient(15 * time.Second)
	defer stop3()
	got := 0
wait:
	for got < n {
		select {
		case r := <-out:
			got++
			if r.err != nil {
				oracle("tcp caller %d: %s", r.i, firstLine(r.err.Error()))
				continue
			}
			gb, ok := r.v.(message.GlobalBeginResponse)
			if !ok || !strings.HasPrefix(gb.Xid, "r-t"+strconv.Itoa(r.i)+"-") {
				oracle("tcp caller %d received %#v, not the reply to its own request", r.i, r.v)
			}
		case <-lim3:
			oracle("%d of %d tcp callers did not return although every request was answered", n-got, n)
			break wait
		}
	}
	time.Sleep(300 * time.Millisecond)
	if k := parkedDeliveries(); k != 0 {
		oracle("tcp: %d goroutine(s) parked in response delivery", k)
	}
	if p := tc.pendingBesidesRegistration(); len(p) != 0 {
		oracle("tcp: %d entries left in the pending-future table: %v", len(p), p)
	}

	// let at least one real heartbeat (cron period 1 s) and its answer pass
	time.Sleep(time.Duration(hutil.ArgInt(args, "hbwait", 1300)) * time.Millisecond)
	if p := tc.pendingBesidesRegistration(); len(p) != 0 {
		oracle("tcp: %d entries in the pending-future table after a heartbeat round: %v", len(p), p)
	}

	// ---- C15 over TCP: phase-two requests from the coordinator stand-in
	cs := &p2case{Mgrs: registeredTypes()}
	cs.Reqs = genP2(rng.Fork(5), 900, hutil.ArgInt(args, "m", 24), false)
	theP2.mu.Lock()
	theP2.script = map[string]*p2req{}
	theP2.consults = nil
	for i := range cs.Reqs {
		q := &cs.Reqs[i]
		q.PanicM = false
		if q.Code != 3 && q.Code != 5 {
			q.Code = 3
		}
		if q.BType != 0 && q.BType != 1 && q.BType != 3 {
			q.BType = 1
		}
		q.Expect = stFor(q.Status, q.BType, q.Fail, false)
		theP2.script[q.Xid+"/"+strconv.FormatInt(q.Branch, 10)] = q
	}
	theP2.mu.Unlock()
	res.P2Reqs = len(cs.Reqs)
	expect := 0
	var wg sync.WaitGroup
	for i := range cs.Reqs {
		q := &cs.Reqs[i]
		if !q.Fail {
			expect++
		}
		wg.Add(1)
		go func() {
			defer wg.Done()
			_, _, _ = sess.WritePkg(message.RpcMessage{ID: q.MsgID, Type: message.GettyRequestTypeRequestSync, Codec: 1, Body: q.body()}, time.Second)
		}()
	}
	wg.Wait()
	lim4, stop4 := patient(10 * time.Second)
	defer stop4()
settle:
	for {
		tc.mu.Lock()
		k := len(tc.resps)
		tc.mu.Unlock()
		if k >= expect {
			break
		}
		select {
		case <-lim4:
			break settle
		default:
			time.Sleep(20 * time.Millisecond)
		}
	}
	time.Sleep(300 * time.Millisecond)
	tc.mu.Lock()
	cs.Resps = append(cs.Resps, tc.resps...)
	res.Heartbeats = tc.hb
	tc.mu.Unlock()
	theP2.mu.Lock()
	cs.Consults = append(cs.Consults, theP2.consults...)
	theP2.mu.Unlock()
	res.P2Resps = len(cs.Resps)
	p2Oracle(cs)
	for _, o := range cs.Oracle {
		oracle("tcp: %s", o)
	}
	if p := tc.pendingBesidesRegistration(); len(p) != 0 {
		oracle("tcp: %d entries left in the pending-future table after the phase-two answers: %v", len(p), p)
	}
}
