package remrun

// C15: streams of phase-two requests (and other inbound traffic) delivered
// concurrently to the REAL listener; scripted resource managers registered in the
// real rm cache; response frames captured at the fake session.

import (
	"context"
	"fmt"
	"strconv"
	"strings"
	"sync"
	"time"

	gxbytes "github.com/dubbogo/gost/bytes"

	"seata.apache.org/seata-go/pkg/protocol/branch"
	"seata.apache.org/seata-go/pkg/protocol/message"
	sgetty "seata.apache.org/seata-go/pkg/remoting/getty"
	"seata.apache.org/seata-go/pkg/rm"

	"verifh/hutil"
)

type p2req struct {
	Idx      int    `json:"idx"`
	Code     int    `json:"code"` // type code of the body
	MsgID    int32  `json:"msg_id"`
	Xid      string `json:"xid"`
	Branch   int64  `json:"branch"`
	BType    int    `json:"btype"` // byte value
	Resource string `json:"resource"`
	Data     string `json:"data"`
	Status   int    `json:"status"`        // base of the scripted status (the manager's type is mixed in, see stFor)
	Expect   int    `json:"expect"`        // status the manager of the request's OWN branch type returns
	Raw      bool   `json:"raw,omitempty"` // the manager returns Status as it is (known-finding stream)
	Fail     bool   `json:"fail"`
	PanicM   bool   `json:"panic_in_manager"`
	DelayUs  int    `json:"delay_us"`
	ErrBytes int    `json:"err_bytes,omitempty"` // the manager's error text has this many UTF-8 bytes (CJK)
	Panicked string `json:"panicked,omitempty"`  // observed
}

type p2consult struct {
	Mgr      int    `json:"mgr"`
	Method   string `json:"method"`
	Xid      string `json:"xid"`
	Branch   int64  `json:"branch"`
	Resource string `json:"resource"`
	Data     string `json:"data"`
}

type p2resp struct {
	MsgID  int32  `json:"msg_id"`
	Type   string `json:"type"`
	Xid    string `json:"xid"`
	Branch int64  `json:"branch"`
	Status int    `json:"status"`
	RC     int    `json:"rc"`
}

type p2case struct {
	inwire   bool // requests arrive as frames through ONE reusable receive buffer, as getty reads a session
	late     []string
	Kind     string      `json:"kind"`
	Known    []string    `json:"known"`                 // failures inside the predicate of a listed finding
	Pending  []int32     `json:"pending_ids,omitempty"` // ids of the client's OWN requests awaiting their answers during the stream
	Mgrs     []int       `json:"mgrs"`
	Reqs     []p2req     `json:"reqs"`
	Consults []p2consult `json:"consults"`
	Resps    []p2resp    `json:"resps"`
	Oracle   []string    `json:"oracle"`
	Secs     float64     `json:"secs"`
}

type p2world struct {
	gate     chan struct{} // when set: managers block here until the stream's later frames have been received
	entered  chan struct{} // a manager has been entered (and is about to block)
	mu       sync.Mutex
	script   map[string]*p2req
	consults []p2consult
}

var theP2 = &p2world{script: map[string]*p2req{}}

type scriptedRM struct{ bt branch.BranchType }

func (s *scriptedRM) call(method string, res rm.BranchResource) (branch.BranchStatus, error) {
	k := res.Xid + "/" + strconv.FormatInt(res.BranchId, 10)
	theP2.mu.Lock()
	theP2.consults = append(theP2.consults, p2consult{int(uint8(s.bt)), method, strings.Clone(res.Xid), res.BranchId, strings.Clone(res.ResourceId), string(res.ApplicationData)})
	sc := theP2.script[k]
	gate, entered := theP2.gate, theP2.entered
	theP2.mu.Unlock()
	if gate != nil {
		select {
		case entered <- struct{}{}:
		default:
		}
		lim, stop := patient(10 * time.Second)
		select {
		case <-gate:
		case <-lim:
		}
		stop()
	}
	if sc == nil {
		return branch.BranchStatusUnknown, fmt.Errorf("scripted manager: unknown branch %s", k)
	}
	if sc.DelayUs > 0 {
		time.Sleep(time.Duration(sc.DelayUs) * time.Microsecond)
	}
	if sc.PanicM {
		panic("scripted manager panic")
	}
	st := branch.BranchStatus(stFor(sc.Status, int(uint8(s.bt)), sc.Fail, sc.Raw))
	if sc.Fail {
		if sc.ErrBytes > 0 {
			return st, fmt.Errorf("scripted manager failure: %s", strings.Repeat("\u5931\u8d25\u4e86", sc.ErrBytes/9))
		}
		return st, fmt.Errorf("scripted manager failure")
	}
	return st, nil
}

// statuses a failing manager may return: everything but the two phase-two success statuses
var failStatuses = []int{0, 1, 2, 3, 4, 6, 7, 9, 10}

// stFor: the status the scripted manager of branch type bt returns for a script with base
// status `base`. Managers of different types return DIFFERENT statuses for the same
// (xid, branch id), so a response whose status came from another type's manager is visible.
func stFor(base, bt int, fail, raw bool) int {
	if raw {
		return base
	}
	idx := map[int]int{0: 0, 1: 1, 3: 2}[bt]
	if fail {
		return failStatuses[(base+3*idx)%len(failStatuses)]
	}
	return (base + 3*idx) % 11
}
func (s *scriptedRM) BranchCommit(_ context.Context, r rm.BranchResource) (branch.BranchStatus, error) {
	return s.call("BranchCommit", r)
}
func (s *scriptedRM) BranchRollback(_ context.Context, r rm.BranchResource) (branch.BranchStatus, error) {
	return s.call("BranchRollback", r)
}
func (s *scriptedRM) BranchRegister(context.Context, rm.BranchRegisterParam) (int64, error) {
	return 0, nil
}
func (s *scriptedRM) BranchReport(context.Context, rm.BranchReportParam) error   { return nil }
func (s *scriptedRM) LockQuery(context.Context, rm.LockQueryParam) (bool, error) { return true, nil }
func (s *scriptedRM) RegisterResource(rm.Resource) error                         { return nil }
func (s *scriptedRM) UnregisterResource(rm.Resource) error                       { return nil }
func (s *scriptedRM) GetCachedResources() *sync.Map                              { return &sync.Map{} }
func (s *scriptedRM) GetBranchType() branch.BranchType                           { return s.bt }

func registeredTypes() []int {
	var out []int
	for b := -2; b <= 12; b++ {
		func() {
			defer func() { recover() }()
			if rm.GetRmCacheInstance().GetResourceManager(branch.BranchType(b)) != nil {
				out = append(out, int(uint8(int8(b))))
			}
		}()
	}
	return out
}

func genP2(rng *hutil.Rng, caseNo, n int, malformed bool) []p2req {
	var reqs []p2req
	for i := 0; i < n; i++ {
		q := p2req{Idx: i}
		x := rng.Intn(100)
		switch {
		case x < 46:
			q.Code = 3
		case x < 92:
			q.Code = 5
		case x < 96:
			q.Code = 1 // GlobalBeginRequest: no processor
		default:
			q.Code = 120 // heartbeat
		}
		if malformed && rng.Chance(1, 3) {
			q.Code = []int{1, 120, 7, 3, 5}[rng.Intn(5)]
		}
		q.MsgID = int32(rng.Next())
		if rng.Chance(1, 3) {
			q.MsgID = int32(rng.Intn(6)) // equal ids across requests do occur (matching is by xid/branch)
		}
		q.Xid = fmt.Sprintf("10.0.0.%d:8091:%d", rng.Intn(3), 1000*caseNo+rng.Intn(5))
		q.Branch = int64(caseNo)*100000 + int64(i)
		if rng.Chance(1, 6) {
			q.Branch = -q.Branch
		}
		bts := []int{0, 1, 3}
		q.BType = bts[rng.Intn(3)]
		if rng.Chance(1, 10) || (malformed && rng.Chance(1, 3)) {
			q.BType = []int{2, 9, 255, 4, 100}[rng.Intn(5)]
		}
		q.Resource = []string{"jdbc:mysql://a/db", "tcc-action", "", "res-" + strconv.Itoa(rng.Intn(4))}[rng.Intn(4)]
		q.Data = []string{"", "{\"k\":1}", "{not json", string(rng.Bytes(rng.Intn(12)))}[rng.Intn(4)]
		q.Status = rng.Intn(12)
		if rng.Chance(1, 2) {
			q.Status = []int{5, 8}[rng.Intn(2)]
		}
		q.Fail = rng.Chance(1, 4)
		q.Expect = stFor(q.Status, q.BType, q.Fail, false)
		q.PanicM = rng.Chance(1, 25)
		q.DelayUs = rng.Intn(4) * rng.Intn(800)
		reqs = append(reqs, q)
	}
	return reqs
}

func (q *p2req) body() interface{} {
	switch q.Code {
	case 3:
		return message.BranchCommitRequest{AbstractBranchEndRequest: message.AbstractBranchEndRequest{
			Xid: q.Xid, BranchId: q.Branch, BranchType: branch.BranchType(int8(uint8(q.BType))), ResourceId: q.Resource, ApplicationData: []byte(q.Data)}}
	case 5:
		return message.BranchRollbackRequest{AbstractBranchEndRequest: message.AbstractBranchEndRequest{
			Xid: q.Xid, BranchId: q.Branch, BranchType: branch.BranchType(int8(uint8(q.BType))), ResourceId: q.Resource, ApplicationData: []byte(q.Data)}}
	case 1:
		return message.GlobalBeginRequest{TransactionName: q.Xid}
	case 120:
		return message.HeartBeatMessagePing
	}
	return message.GlobalStatusRequest{AbstractGlobalEndRequest: message.AbstractGlobalEndRequest{Xid: q.Xid}}
}

// one phase of a stream: the requests idxs are delivered through the real OnMessage, each in
// its own goroutine (workers == 0) or by `workers` goroutines that each walk their share
// one request after the other (long concurrent runs). Bounded: what has not returned within
// `bound` stays behind (its goroutine is abandoned) and is judged by the oracle.
func deliverPhase(r *runner, cs *p2case, idxs []int, workers int, bound time.Duration, pan []string) {
	var wg sync.WaitGroup
	start := make(chan struct{})
	one := func(i int) {
		defer func() {
			if p := recover(); p != nil {
				pan[i] = firstLine(fmt.Sprintf("%v", p))
			}
		}()
		q := &cs.Reqs[i]
		r.handler.OnMessage(r.sess, message.RpcMessage{ID: q.MsgID, Type: message.GettyRequestTypeRequestSync, Codec: 1, Body: q.body()})
	}
	if cs.inwire {
		// getty's read side: every frame is received into the session's ONE packet buffer (gost
		// bytes.Buffer: the storage is reused once drained), decoded there by the real
		// RpcPackageHandler.Read, handed to OnMessage in a task goroutine, and the buffer moves on.
		// The managers block until all later frames (and one more receive) have gone through.
		h := &sgetty.RpcPackageHandler{}
		pktBuf := gxbytes.NewBuffer(nil)
		recv := func(c []byte) {
			for len(c) > 0 {
				buf := pktBuf.WriteNextBegin(4 * 1024)
				n := copy(buf, c)
				pktBuf.WriteNextEnd(n)
				c = c[n:]
			}
		}
		gate, entered := make(chan struct{}), make(chan struct{}, len(idxs)+1)
		theP2.mu.Lock()
		theP2.gate, theP2.entered = gate, entered
		theP2.mu.Unlock()
		for _, i := range idxs {
			q := &cs.Reqs[i]
			frame, err := h.Write(r.sess, message.RpcMessage{ID: q.MsgID, Type: message.GettyRequestTypeRequestSync, Codec: 1, Body: q.body()})
			if err != nil {
				cs.late = append(cs.late, fmt.Sprintf("request %d cannot be encoded: %v", i, err))
				continue
			}
			recv(append([]byte(nil), frame...))
			for pktBuf.Len() > 0 {
				pkg, n, derr := h.Read(r.sess, pktBuf.Bytes())
				if derr != nil || pkg == nil || n <= 0 {
					cs.late = append(cs.late, fmt.Sprintf("frame of request %d not decoded: n=%d err=%v", i, n, derr))
					pktBuf.Reset()
					break
				}
				wg.Add(1)
				go func(i int, pkg interface{}) {
					defer wg.Done()
					defer func() {
						if p := recover(); p != nil {
							pan[i] = firstLine(fmt.Sprintf("%v", p))
						}
					}()
					r.handler.OnMessage(r.sess, pkg)
				}(i, pkg)
				pktBuf.Next(n)
			}
			// the next frame arrives while this request's manager is at work
			lim, stop := patient(200 * time.Millisecond)
			select {
			case <-entered:
			case <-lim:
			}
			stop()
		}
		filler := make([]byte, 256)
		for i := range filler {
			filler[i] = 0xee
		}
		recv(filler)
		theP2.mu.Lock()
		theP2.gate, theP2.entered = nil, nil
		theP2.mu.Unlock()
		close(gate)
		close(start)
	} else if workers == 0 {
		for _, i := range idxs {
			wg.Add(1)
			go func(i int) { defer wg.Done(); <-start; one(i) }(i)
		}
	} else {
		for w := 0; w < workers; w++ {
			wg.Add(1)
			go func(w int) {
				defer wg.Done()
				<-start
				for k := w; k < len(idxs); k += workers {
					one(idxs[k])
				}
			}(w)
		}
	}
	if !cs.inwire {
		close(start)
	}
	done := make(chan struct{})
	go func() { wg.Wait(); close(done) }()
	limit, stopLimit := patient(bound)
	defer stopLimit()
	select {
	case <-done:
	case <-limit:
		cs.late = append(cs.late, fmt.Sprintf("request processing did not finish within the bound of %s", bound))
	}
}

// runStream: script the managers, deliver the phases, collect consultations and frames, judge
func runStream(r *runner, cs *p2case, phases [][]int, workers int, bound time.Duration) *p2case {
	t0 := time.Now()
	cs.Mgrs = registeredTypes()
	theP2.mu.Lock()
	theP2.script = map[string]*p2req{}
	theP2.consults = nil
	for i := range cs.Reqs {
		q := &cs.Reqs[i]
		theP2.script[q.Xid+"/"+strconv.FormatInt(q.Branch, 10)] = q
	}
	theP2.mu.Unlock()
	r.w.mu.Lock()
	r.w.all = nil
	r.w.mu.Unlock()
	pan := make([]string, len(cs.Reqs))
	for _, ph := range phases {
		deliverPhase(r, cs, ph, workers, bound, pan)
	}
	for i := range cs.Reqs {
		cs.Reqs[i].Panicked = pan[i]
	}
	theP2.mu.Lock()
	cs.Consults = append(cs.Consults, theP2.consults...)
	theP2.mu.Unlock()
	r.w.mu.Lock()
	for _, rec := range r.w.all {
		switch b := rec.Body.(type) {
		case message.BranchCommitResponse:
			cs.Resps = append(cs.Resps, p2resp{rec.ID, "BranchCommitResponse", shortXid(b.Xid), b.BranchId, int(b.BranchStatus), int(b.ResultCode)})
		case message.BranchRollbackResponse:
			cs.Resps = append(cs.Resps, p2resp{rec.ID, "BranchRollbackResponse", shortXid(b.Xid), b.BranchId, int(b.BranchStatus), int(b.ResultCode)})
		default:
			cs.Oracle = append(cs.Oracle, fmt.Sprintf("unexpected frame written: %T", rec.Body))
		}
		if rec.Type != message.GettyRequestTypeResponse {
			cs.Oracle = append(cs.Oracle, fmt.Sprintf("frame for id %d written with type %d, not as a response", rec.ID, rec.Type))
		}
	}
	r.w.mu.Unlock()
	p2Oracle(cs)
	cs.Oracle = append(cs.Oracle, cs.late...)
	if p := pendingFutures(); p != len(cs.Pending) {
		cs.Oracle = append(cs.Oracle, fmt.Sprintf("%d entries in the pending-future table after the response sends, %d client requests are pending", p, len(cs.Pending)))
	}
	cs.Secs = time.Since(t0).Seconds()
	return cs
}

// an xid decoded from the middle of some other text can be very long: keep its head and its size
func shortXid(x string) string {
	if len(x) <= 96 {
		return x
	}
	return fmt.Sprintf("%q...(%d bytes)", x[:48], len(x))
}

func allIdx(n int) []int {
	l := make([]int, n)
	for i := range l {
		l[i] = i
	}
	return l
}

func p2Case(r *runner, rng *hutil.Rng, caseNo, n int, malformed bool) *p2case {
	cs := &p2case{Kind: "mixed"}
	cs.Reqs = genP2(rng, caseNo, n, malformed)
	return runStream(r, cs, [][]int{allIdx(len(cs.Reqs))}, 0, 10*time.Second)
}

// withPending: the stream runs while `pend` requests of the client itself (SendSyncRequest callers)
// await their answers; coordinator frame ids are drawn from a pool that includes the ids of those
// pending requests (both id spaces are small integers counted from 1). Afterwards the pending
// callers are answered: each must still get its own reply and nothing may be left in the table.
func withPending(r *runner, rng *hutil.Rng, pend int, share int, build func() *p2case, run func(*p2case) *p2case) *p2case {
	r.cs.Oracle, r.cs.Events, r.cs.Out = nil, nil, nil
	var ws []*waiterInfo
	for j := 0; j < pend; j++ {
		if wi := r.send(true, false); wi.waiting {
			ws = append(ws, wi)
		}
	}
	cs := build()
	for _, wi := range ws {
		cs.Pending = append(cs.Pending, wi.id)
	}
	if len(ws) > 0 {
		for i := range cs.Reqs {
			if rng.Intn(share) == 0 {
				cs.Reqs[i].MsgID = ws[rng.Intn(len(ws))].id
			}
		}
	}
	cs = run(cs)
	// the table holds exactly the pending requests while they wait ...
	for _, wi := range ws {
		r.reply(wi.id)
	}
	for _, o := range r.cs.Oracle {
		cs.Oracle = append(cs.Oracle, "client request pending during the stream: "+o)
	}
	if p := pendingFutures(); p != 0 {
		cs.Oracle = append(cs.Oracle, fmt.Sprintf("%d entries left in the pending-future table after the pending client requests were answered", p))
	}
	r.cs.Oracle, r.cs.Events, r.cs.Out = nil, nil, nil
	return cs
}

// hammer: `workers` goroutines walk long runs of healthy commit/rollback requests whose branch
// types alternate from one request to the next, without delays: lookups of DIFFERENT branch
// types overlap all the time; every response must carry the status of the manager of the
// request's own type (managers of other types answer the same branch with another status)
func hammerCase(r *runner, rng *hutil.Rng, caseNo, n, workers int) *p2case {
	cs := &p2case{Kind: "hammer"}
	bts := []int{0, 1, 3}
	for i := 0; i < n; i++ {
		q := p2req{Idx: i, Code: []int{3, 5}[rng.Intn(2)], MsgID: int32(i), Xid: "10.0.0.9:8091:" + strconv.Itoa(caseNo),
			Branch: int64(caseNo)*1000000 + int64(i), BType: bts[(i+i/workers)%3], Resource: "r", Status: rng.Intn(11)}
		q.Expect = stFor(q.Status, q.BType, false, false)
		cs.Reqs = append(cs.Reqs, q)
	}
	return runStream(r, cs, [][]int{allIdx(n)}, workers, 20*time.Second)
}

// attrition: a long run of failing / panicking / unroutable commits (and a few rollbacks),
// then healthy requests: earlier failures of OTHER branches must not cost later requests their reply
func attritionCase(r *runner, rng *hutil.Rng, caseNo, nfail, nok int) *p2case {
	cs := &p2case{Kind: "attrition"}
	bts := []int{0, 1, 3}
	var ph1, ph2 []int
	for i := 0; i < nfail+nok; i++ {
		q := p2req{Idx: i, Code: 3, MsgID: int32(1000 + i), Xid: "10.0.0.8:8091:" + strconv.Itoa(caseNo),
			Branch: int64(caseNo)*1000000 + int64(i), BType: bts[rng.Intn(3)], Resource: "r", Status: rng.Intn(11)}
		if i < nfail {
			switch rng.Intn(8) {
			case 0:
				q.PanicM = true
			case 1:
				q.BType = 9 // no manager: panics in the lookup
			case 2:
				q.Code = 5
				q.Fail = true
			default:
				q.Fail = true
			}
			ph1 = append(ph1, i)
		} else {
			if rng.Chance(1, 4) {
				q.Code = 5
			}
			ph2 = append(ph2, i)
		}
		q.Expect = stFor(q.Status, q.BType, q.Fail, false)
		cs.Reqs = append(cs.Reqs, q)
	}
	return runStream(r, cs, [][]int{ph1, ph2}, 0, 5*time.Second)
}

// wireCase: a mixed concurrent stream whose replies take the way of the real frame writer and are
// decoded on the coordinator's side of the socket (fakeSession.wire); some managers fail with a
// non-Unknown status and a multi-byte error text of 40 000 - 130 000 bytes
func wireCase(r *runner, rng *hutil.Rng, caseNo, n int) *p2case {
	cs := &p2case{Kind: "wire"}
	cs.Reqs = genP2(rng, caseNo, n, false)
	for i := range cs.Reqs {
		q := &cs.Reqs[i]
		q.DelayUs = 0
		if rng.Chance(1, 2) {
			q.MsgID = int32(rng.Intn(5)) // several frame sizes and socket delays in flight together
		}
		if q.Fail && rng.Chance(1, 3) {
			q.ErrBytes = []int{40000, 66000, 70002, 131000}[rng.Intn(4)]
			for stFor(q.Status, q.BType, true, false) == 0 {
				q.Status++
			}
			q.Expect = stFor(q.Status, q.BType, true, false)
		}
	}
	r.sess.wire.Store(true)
	r.w.mu.Lock()
	r.w.wireErrs = nil
	r.w.mu.Unlock()
	cs = runStream(r, cs, [][]int{allIdx(len(cs.Reqs))}, 0, 10*time.Second)
	r.sess.wire.Store(false)
	r.w.mu.Lock()
	cs.Oracle = append(cs.Oracle, r.w.wireErrs...)
	r.w.wireErrs = nil
	r.w.mu.Unlock()
	return cs
}

// inwireCase: requests arrive as frames through getty's reusable receive buffer while the managers
// of earlier requests are still at work; every reply must carry its OWN request's xid and branch id
func inwireCase(r *runner, rng *hutil.Rng, caseNo, n int) *p2case {
	cs := &p2case{Kind: "inwire", inwire: true}
	bts := []int{0, 1, 3}
	for i := 0; i < n; i++ {
		q := p2req{Idx: i, Code: []int{3, 5}[rng.Intn(2)], MsgID: int32(100 + i),
			Xid:    fmt.Sprintf("10.0.%d.%d:8091:%09d", rng.Intn(10), rng.Intn(10), rng.Intn(1000000000)),
			Branch: int64(caseNo)*1000000 + int64(i), BType: bts[rng.Intn(3)],
			Resource: fmt.Sprintf("jdbc:mysql://db-%04d/app", rng.Intn(10000)), Data: fmt.Sprintf("{\"k\":%06d}", rng.Intn(1000000)),
			Status: rng.Intn(11), Fail: rng.Chance(1, 6)}
		q.Expect = stFor(q.Status, q.BType, q.Fail, false)
		cs.Reqs = append(cs.Reqs, q)
	}
	return runStream(r, cs, [][]int{allIdx(n)}, 0, 15*time.Second)
}

// lookupHammer: the routing step itself (rm cache: branch type -> manager) under concurrent
// lookups of different branch types, the way concurrent phase-two requests of different
// types perform it: every lookup must return the manager registered for the type asked for
func lookupHammer(workers, per int) (lookups int, wrong []string) {
	bts := []branch.BranchType{branch.BranchTypeAT, branch.BranchTypeTCC, branch.BranchTypeXA}
	var mu sync.Mutex
	var wg sync.WaitGroup
	for w := 0; w < workers; w++ {
		wg.Add(1)
		go func(w int) {
			defer wg.Done()
			defer func() {
				if p := recover(); p != nil {
					mu.Lock()
					wrong = append(wrong, fmt.Sprintf("lookup panicked: %v", p))
					mu.Unlock()
				}
			}()
			for i := 0; i < per; i++ {
				bt := bts[(i+w)%3]
				m := rm.GetRmCacheInstance().GetResourceManager(bt)
				if got := m.GetBranchType(); got != bt {
					mu.Lock()
					if len(wrong) < 5 {
						wrong = append(wrong, fmt.Sprintf("concurrent lookups: the manager handed out for branch type %d is the one registered for branch type %d", bt, got))
					}
					mu.Unlock()
					return
				}
			}
		}(w)
	}
	wg.Wait()
	return workers * per, wrong
}

// knownCase: the one listed finding (KNOWN_FINDINGS error-with-success-status): a manager that
// returns an error TOGETHER WITH a phase-two success status
func knownCase(r *runner, caseNo int) *p2case {
	cs := &p2case{Kind: "known"}
	cs.Reqs = []p2req{
		{Idx: 0, Code: 3, MsgID: 71, Xid: "10.0.0.7:8091:" + strconv.Itoa(caseNo), Branch: int64(caseNo)*1000000 + 1, BType: 1, Resource: "r", Status: 5, Expect: 5, Raw: true, Fail: true},
		{Idx: 1, Code: 5, MsgID: 72, Xid: "10.0.0.7:8091:" + strconv.Itoa(caseNo), Branch: int64(caseNo)*1000000 + 2, BType: 0, Resource: "r", Status: 8, Expect: 8, Raw: true, Fail: true},
	}
	return runStream(r, cs, [][]int{allIdx(2)}, 0, 10*time.Second)
}

// the property's own statement on the real run
func p2Oracle(cs *p2case) {
	reg := map[int]bool{}
	for _, m := range cs.Mgrs {
		reg[m] = true
	}
	used := make([]bool, len(cs.Resps))
	usedC := make([]bool, len(cs.Consults))
	for _, q := range cs.Reqs {
		var rs []p2resp
		for i, p := range cs.Resps {
			if p.Xid == q.Xid && p.Branch == q.Branch {
				rs = append(rs, p)
				used[i] = true
			}
		}
		var cn []p2consult
		for i, c := range cs.Consults {
			if c.Xid == q.Xid && c.Branch == q.Branch {
				cn = append(cn, c)
				usedC[i] = true
			}
		}
		name := fmt.Sprintf("request %d (code %d, id %d, %s/%d, branch type %d)", q.Idx, q.Code, q.MsgID, q.Xid, q.Branch, q.BType)
		if q.Code != 3 && q.Code != 5 {
			if len(rs)+len(cn) > 0 {
				cs.Oracle = append(cs.Oracle, name+": not a phase-two request, yet a manager was consulted or a response sent")
			}
			continue
		}
		meth, rtype := "BranchCommit", "BranchCommitResponse"
		if q.Code == 5 {
			meth, rtype = "BranchRollback", "BranchRollbackResponse"
		}
		for _, c := range cn {
			if c.Mgr != q.BType || c.Method != meth {
				cs.Oracle = append(cs.Oracle, fmt.Sprintf("%s: routed to manager of branch type %d method %s", name, c.Mgr, c.Method))
			}
			if c.Resource != q.Resource || c.Data != q.Data {
				cs.Oracle = append(cs.Oracle, name+": manager saw another resource id / application data")
			}
		}
		if !reg[q.BType] {
			if len(cn) > 0 || len(rs) > 0 {
				cs.Oracle = append(cs.Oracle, name+": no manager for this branch type, yet a manager was consulted or a response sent")
			}
			continue
		}
		if len(cn) > 1 || (len(cn) == 0 && (len(rs) > 0 || q.Fail || q.PanicM)) {
			cs.Oracle = append(cs.Oracle, fmt.Sprintf("%s: manager consulted %d times", name, len(cn)))
		}
		if q.Fail || q.PanicM {
			if len(rs) > 1 {
				cs.Oracle = append(cs.Oracle, fmt.Sprintf("%s: the manager failed, %d responses were sent", name, len(rs)))
			}
			for _, p := range rs {
				if p.MsgID != q.MsgID || p.Type != rtype {
					cs.Oracle = append(cs.Oracle, fmt.Sprintf("%s: the manager failed; the response sent is %s id %d", name, p.Type, p.MsgID))
				}
				if p.Status == 5 || p.Status == 8 || p.RC == int(message.ResultCodeSuccess) {
					what := fmt.Sprintf("%s: the manager failed, yet a response reports status %d result code %d", name, p.Status, p.RC)
					if q.Raw && !q.PanicM && (q.Status == 5 || q.Status == 8) && p.Status == q.Status && p.RC != int(message.ResultCodeSuccess) {
						// the manager itself returned the success status together with its error
						cs.Known = append(cs.Known, what)
					} else {
						cs.Oracle = append(cs.Oracle, what)
					}
				}
			}
			continue
		}
		if len(rs) == 0 {
			if len(cn) == 0 {
				cs.Oracle = append(cs.Oracle, fmt.Sprintf("%s: never reached its manager and got no response within the bound", name))
			} else {
				cs.Oracle = append(cs.Oracle, fmt.Sprintf("%s: no response within the bound although the manager returned status %d", name, q.Expect))
			}
			continue
		}
		if len(rs) != 1 {
			cs.Oracle = append(cs.Oracle, fmt.Sprintf("%s: the manager returned status %d, %d responses were sent", name, q.Expect, len(rs)))
			continue
		}
		p := rs[0]
		if p.MsgID != q.MsgID || p.Status != q.Expect || p.Type != rtype || p.RC != int(message.ResultCodeSuccess) {
			cs.Oracle = append(cs.Oracle, fmt.Sprintf("%s: the manager of its branch type returns status %d; response is %s id %d status %d result code %d", name, q.Expect, p.Type, p.MsgID, p.Status, p.RC))
		}
	}
	for i, p := range cs.Resps {
		if !used[i] {
			for _, q := range cs.Reqs {
				if q.Branch == p.Branch && q.MsgID == p.MsgID && q.Xid != p.Xid {
					whose := "no request's"
					for _, o := range cs.Reqs {
						if o.Xid == p.Xid {
							whose = fmt.Sprintf("request %d's", o.Idx)
						}
					}
					// first in the list: it names what went wrong for the "no response" entries of this request
					cs.Oracle = append([]string{fmt.Sprintf("the reply to request %d (id %d, branch id %d, xid %s) carries the xid %q, which is %s", q.Idx, q.MsgID, q.Branch, q.Xid, p.Xid, whose)}, cs.Oracle...)
				}
			}
			cs.Oracle = append(cs.Oracle, fmt.Sprintf("response id %d %s/%d status %d answers no request of the stream", p.MsgID, p.Xid, p.Branch, p.Status))
		}
	}
	for i, c := range cs.Consults {
		if !usedC[i] {
			cs.Oracle = append(cs.Oracle, fmt.Sprintf("manager %d consulted for %s/%d which no request of the stream names", c.Mgr, c.Xid, c.Branch))
		}
	}
}

// Run15: remrun15 out= seed= n= max= conf=
func Run15(args map[string]string) {
	initClient(args)
	seed := hutil.ArgU64(args, "seed", 1)
	rng := hutil.NewRng(seed ^ 0xC15)
	for _, bt := range []branch.BranchType{branch.BranchTypeAT, branch.BranchTypeTCC, branch.BranchTypeXA} {
		rm.GetRmCacheInstance().RegisterResourceManager(&scriptedRM{bt: bt})
	}
	r := newRunner("p2", 0, 0)
	reg := r.open()
	r.reply(reg.id)
	n := hutil.ArgInt(args, "n", 40)
	max := hutil.ArgInt(args, "max", 40)
	var cases []*p2case
	failing := func() int {
		k := 0
		for _, c := range cases {
			if len(c.Oracle) > 0 {
				k++
			}
		}
		return k
	}
	cases = append(cases, knownCase(r, 9001))
	// phase-two requests whose frame ids ARE the ids of pending client requests
	cases = append(cases, withPending(r, rng.Fork(902), 3, 1, func() *p2case {
		cs := &p2case{Kind: "collision"}
		g := rng.Fork(903)
		for i := 0; i < 12; i++ {
			q := p2req{Idx: i, Code: []int{3, 5}[g.Intn(2)], Xid: "10.0.0.6:8091:9003", Branch: 9003000000 + int64(i),
				BType: []int{0, 1, 3}[g.Intn(3)], Resource: "r", Status: g.Intn(11)}
			q.Expect = stFor(q.Status, q.BType, false, false)
			cs.Reqs = append(cs.Reqs, q)
		}
		return cs
	}, func(cs *p2case) *p2case { return runStream(r, cs, [][]int{allIdx(len(cs.Reqs))}, 0, 10*time.Second) }))
	cases = append(cases, attritionCase(r, rng.Fork(901), 9002, hutil.ArgInt(args, "nfail", 48), 12))
	for i := 0; i < hutil.ArgInt(args, "wires", 8) && failing() < 3; i++ {
		cases = append(cases, wireCase(r, rng.Fork(uint64(950+i)), 9500+i, 24+rng.Intn(24)))
	}
	for i := 0; i < hutil.ArgInt(args, "inwires", 4) && failing() < 3; i++ {
		cases = append(cases, inwireCase(r, rng.Fork(uint64(970+i)), 9700+i, 8+rng.Intn(12)))
	}
	for h := 0; h < hutil.ArgInt(args, "hammers", 2) && failing() < 1; h++ {
		cases = append(cases, hammerCase(r, rng.Fork(uint64(910+h)), 9010+h, hutil.ArgInt(args, "hammer", 6000), 8))
	}
	for i := 0; i < n && failing() < 3; i++ {
		sz := 1 + rng.Intn(max)
		if i%9 == 0 {
			sz = 1 + rng.Intn(3)
		}
		if i%3 == 1 {
			i, sz := i, sz
			cases = append(cases, withPending(r, rng.Fork(uint64(5000+i)), 1+rng.Intn(3), 3, func() *p2case {
				cs := &p2case{Kind: "mixed"}
				cs.Reqs = genP2(rng.Fork(uint64(i)), i+1, sz, i%5 == 4)
				return cs
			}, func(cs *p2case) *p2case { return runStream(r, cs, [][]int{allIdx(len(cs.Reqs))}, 0, 10*time.Second) }))
			continue
		}
		cases = append(cases, p2Case(r, rng.Fork(uint64(i)), i+1, sz, i%5 == 4))
	}
	lookups, wrong := lookupHammer(8, hutil.ArgInt(args, "lookups", 200000))
	hutil.WriteJSON(args["out"], map[string]interface{}{"cases": cases, "seed": seed, "lookups": lookups, "lookup_wrong": wrong})
}
