// Package xarun (C17): drives the REAL XA proxy driver (seataXADriver -> XAConn ->
// xa.MysqlXAConn -> XAResourceManager) over a small logging stand-in for a MySQL
// server that implements the XA state diagram, with a scripted coordinator behind
// GettyRemotingClient.SendSyncRequest.
package xarun

import (
	"context"
	"database/sql/driver"
	"errors"
	"fmt"
	"io"
	"strings"
	"sync"
	"time"

	"github.com/go-sql-driver/mysql"
)

// Event is one entry of the scenario's single ordered journal: coordinator
// requests and the statements that reached the database, in arrival order.
type Event struct {
	K      string `json:"k"`              // reg | report | sql | kill
	Conn   int    `json:"conn,omitempty"` // physical connection number (order of Connect)
	Cmd    string `json:"cmd,omitempty"`  // START END PREPARE COMMIT ROLLBACK STMT
	ID     string `json:"id,omitempty"`   // XA identifier named by the command
	Res    string `json:"res,omitempty"`  // ok | fault | rmfail | nota | dupid | outside
	Xid    string `json:"xid,omitempty"`
	IDH    string `json:"idh,omitempty"`  // hex of ID (JSON strings cannot carry arbitrary bytes)
	XidH   string `json:"xidh,omitempty"` // hex of Xid
	Branch int64  `json:"branch,omitempty"`
	Status int    `json:"status,omitempty"`
}

const (
	stActive   = 1
	stIdle     = 2
	stPrepared = 3
)

type xaBranch struct {
	state int
	conn  int // owning connection, -1 when detached (owner disconnected / server >= 8.0.29 after PREPARE)
}

// world is one scenario's database server + journal.
type world struct {
	mu       sync.Mutex
	version  string
	detach   bool // server detaches a branch from its session at PREPARE (>= 8.0.29)
	nconn    int
	open     map[int]bool
	cur      map[int]string // connection -> identifier of the branch attached to it
	branches map[string]*xaBranch
	done     map[string]string // identifier -> "COMMIT" | "ROLLBACK" (server forgot it)
	events   []Event
	count    map[string]int  // occurrences of each command kind so far (fault addressing)
	faults   map[string]string // "<KIND>:<n>" => the n-th (0-based) command of that kind fails with that error ("gen" | "badconn" | "ctx")
	other    []string        // statements that are neither XA nor the business statement
	slow     bool            // the next business statement takes a while
}

func (w *world) openSet() map[int]bool {
	w.mu.Lock()
	defer w.mu.Unlock()
	m := map[int]bool{}
	for c, o := range w.open {
		if o {
			m[c] = true
		}
	}
	return m
}

func (w *world) setSlow(b bool) { w.mu.Lock(); w.slow = b; w.mu.Unlock() }
func (w *world) nconnNow() int  { w.mu.Lock(); defer w.mu.Unlock(); return w.nconn }

func newWorld(version string, faults []Fault) *world {
	w := &world{version: version, open: map[int]bool{}, cur: map[int]string{}, branches: map[string]*xaBranch{},
		done: map[string]string{}, count: map[string]int{}, faults: map[string]string{}}
	w.detach = versionGE(version, 8, 0, 29)
	for _, f := range faults {
		e := f.Err
		if e == "" {
			e = "gen"
		}
		w.faults[fmt.Sprintf("%s:%d", f.Kind, f.Nth)] = e
	}
	return w
}

func versionGE(v string, a, b, c int) bool {
	var x, y, z int
	fmt.Sscanf(v, "%d.%d.%d", &x, &y, &z)
	if x != a {
		return x > a
	}
	if y != b {
		return y > b
	}
	return z >= c
}

func (w *world) faulted(kind string) string {
	n := w.count[kind]
	w.count[kind] = n + 1
	return w.faults[fmt.Sprintf("%s:%d", kind, n)]
}

var errInjected = errors.New("verif: injected failure")

// serverErr: what a MySQL server answers, as the MySQL driver hands it on
func serverErr(code string) error {
	switch code {
	case "nota":
		return &mysql.MySQLError{Number: 1397, Message: "XAER_NOTA: Unknown XID"}
	case "rmfail":
		return &mysql.MySQLError{Number: 1399, Message: "XAER_RMFAIL: The command cannot be executed when global transaction is in the wrong state"}
	case "dupid":
		return &mysql.MySQLError{Number: 1440, Message: "XAER_DUPID: The XID already exists"}
	case "rbidle":
		return &mysql.MySQLError{Number: 1402, Message: "XA_RBROLLBACK: Transaction branch was rolled back"}
	}
	return xaErr{code}
}

type xaErr struct{ code string }

func (e xaErr) Error() string { return "XAER " + e.code }

// exec applies one statement arriving on connection c.
func (w *world) exec(c int, q string) error {
	w.mu.Lock()
	defer w.mu.Unlock()
	cmd, id := classify(q)
	if cmd == "" {
		w.other = append(w.other, q)
		return nil
	}
	ev := Event{K: "sql", Conn: c, Cmd: cmd, ID: id}
	if cmd == "STMT" {
		ev.ID = w.cur[c]
		if w.slow {
			w.mu.Unlock()
			time.Sleep(2 * time.Millisecond)
			w.mu.Lock()
		}
	}
	if fk := w.faulted(cmd); fk != "" {
		// the command is not executed: the server's state is unchanged, the session stays usable
		ev.Res = "fault"
		w.events = append(w.events, ev)
		switch fk {
		case "rbonly":
			// XA END of a rollback-only branch: the server answers an XA_RB* error and the branch
			// is IDLE afterwards (only XA ROLLBACK is accepted); for other commands: a plain failure
			if cmd == "END" {
				if id2, has := w.cur[c]; has && id2 == id && w.branches[id].state == stActive {
					w.branches[id].state = stIdle
					w.events[len(w.events)-1].Res = "rbidle"
					return serverErr("rbidle")
				}
			}
			return errInjected
		case "badconn":
			return driver.ErrBadConn
		case "ctx":
			return context.DeadlineExceeded
		}
		return errInjected
	}
	ev.Res = w.step(c, cmd, id)
	w.events = append(w.events, ev)
	if ev.Res != "ok" {
		return serverErr(ev.Res)
	}
	return nil
}

// step is the MySQL XA state diagram (per identifier; one branch per session).
func (w *world) step(c int, cmd, id string) string {
	curID, has := w.cur[c]
	switch cmd {
	case "STMT":
		if has && w.branches[curID].state != stActive {
			return "rmfail" // statements are refused in IDLE / PREPARED
		}
		return "ok"
	case "START":
		if has {
			return "rmfail"
		}
		if _, ok := w.branches[id]; ok {
			return "dupid"
		}
		w.branches[id] = &xaBranch{state: stActive, conn: c}
		w.cur[c] = id
		return "ok"
	case "END":
		if !has || curID != id {
			return "nota"
		}
		if w.branches[id].state != stActive {
			return "rmfail"
		}
		w.branches[id].state = stIdle
		return "ok"
	case "PREPARE":
		if !has || curID != id {
			return "nota"
		}
		if w.branches[id].state != stIdle {
			return "rmfail"
		}
		w.branches[id].state = stPrepared
		if w.detach {
			w.branches[id].conn = -1
			delete(w.cur, c)
		}
		return "ok"
	case "COMMIT", "ROLLBACK":
		b, ok := w.branches[id]
		if !ok {
			return "nota"
		}
		if b.conn == c {
			if b.state == stActive || (cmd == "COMMIT" && b.state == stIdle) {
				return "rmfail"
			}
			delete(w.cur, c)
		} else if b.conn == -1 {
			if has {
				return "rmfail" // this session is busy with another branch
			}
		} else {
			return "nota" // attached to another live session
		}
		delete(w.branches, id)
		w.done[id] = cmd
		return "ok"
	}
	return "ok"
}

// drop is a disconnect: ACTIVE/IDLE branches of the session are rolled back by
// the server, a PREPARED one survives detached.
func (w *world) drop(c int, record bool) {
	w.mu.Lock()
	defer w.mu.Unlock()
	if !w.open[c] {
		return
	}
	w.open[c] = false
	if record {
		w.events = append(w.events, Event{K: "kill", Conn: c})
	}
	if id, ok := w.cur[c]; ok {
		b := w.branches[id]
		if b.state == stPrepared {
			b.conn = -1
		} else {
			delete(w.branches, id)
			w.done[id] = "DROPPED"
		}
		delete(w.cur, c)
	}
}

func classify(q string) (cmd, id string) {
	s := strings.TrimSpace(q)
	u := strings.ToUpper(s)
	for _, k := range []string{"START", "END", "PREPARE", "COMMIT", "ROLLBACK"} {
		if strings.HasPrefix(u, "XA "+k+" ") {
			i, j := strings.Index(s, "'"), strings.LastIndex(s, "'")
			if i >= 0 && j > i {
				id = s[i+1 : j]
			}
			return k, id
		}
	}
	if strings.HasPrefix(u, "UPDATE ") || strings.HasPrefix(u, "INSERT ") || strings.HasPrefix(u, "DELETE ") {
		return "STMT", ""
	}
	return "", ""
}

// ---------------------------------------------------------------- database/sql/driver

var (
	worldsMu sync.Mutex
	worlds   = map[string]*world{}
)

type fakeDriver struct{}

func (fakeDriver) Open(dsn string) (driver.Conn, error) {
	worldsMu.Lock()
	w := worlds[dsn]
	worldsMu.Unlock()
	if w == nil {
		return nil, errors.New("verif: unknown dsn " + dsn)
	}
	w.mu.Lock()
	n := w.nconn
	w.nconn++
	w.open[n] = true
	w.mu.Unlock()
	return &fakeConn{w: w, n: n}, nil
}

type fakeConn struct {
	w *world
	n int
}

func (c *fakeConn) Prepare(q string) (driver.Stmt, error) { return &fakeStmt{c: c, q: q}, nil }
func (c *fakeConn) Close() error                            { c.w.drop(c.n, false); return nil }
func (c *fakeConn) Begin() (driver.Tx, error)               { return fakeTx{}, nil }
func (c *fakeConn) BeginTx(ctx context.Context, o driver.TxOptions) (driver.Tx, error) {
	return fakeTx{}, nil
}
func (c *fakeConn) ResetSession(ctx context.Context) error { return nil }
func (c *fakeConn) Ping(ctx context.Context) error         { return nil }
func (c *fakeConn) IsValid() bool {
	c.w.mu.Lock()
	defer c.w.mu.Unlock()
	return c.w.open[c.n]
}

func (c *fakeConn) ExecContext(ctx context.Context, q string, args []driver.NamedValue) (driver.Result, error) {
	if !c.IsValid() {
		return nil, driver.ErrBadConn
	}
	if err := c.w.exec(c.n, q); err != nil {
		return nil, err
	}
	return driver.RowsAffected(1), nil
}

func (c *fakeConn) QueryContext(ctx context.Context, q string, args []driver.NamedValue) (driver.Rows, error) {
	if strings.Contains(strings.ToUpper(q), "VERSION()") {
		return &fakeRows{cols: []string{"VERSION()"}, data: [][]driver.Value{{c.w.version}}}, nil
	}
	c.w.mu.Lock()
	c.w.other = append(c.w.other, q)
	c.w.mu.Unlock()
	return &fakeRows{cols: []string{"c"}}, nil
}

type fakeTx struct{}

func (fakeTx) Commit() error   { return nil }
func (fakeTx) Rollback() error { return nil }

type fakeStmt struct {
	c *fakeConn
	q string
}

func (s *fakeStmt) Close() error  { return nil }
func (s *fakeStmt) NumInput() int { return -1 }
func (s *fakeStmt) Exec(args []driver.Value) (driver.Result, error) {
	return s.c.ExecContext(context.Background(), s.q, nil)
}
func (s *fakeStmt) Query(args []driver.Value) (driver.Rows, error) {
	return s.c.QueryContext(context.Background(), s.q, nil)
}

type fakeRows struct {
	cols []string
	data [][]driver.Value
	i    int
}

func (r *fakeRows) Columns() []string { return r.cols }
func (r *fakeRows) Close() error      { return nil }
func (r *fakeRows) Next(dest []driver.Value) error {
	if r.i >= len(r.data) {
		return io.EOF
	}
	copy(dest, r.data[r.i])
	r.i++
	return nil
}
