package xarun

import (
	"context"
	"sort"
	"database/sql/driver"
	"encoding/hex"
	gosql "database/sql"
	"errors"
	"fmt"
	"os"
	"reflect"
	"strconv"
	"sync"
	"time"

	"github.com/agiledragon/gomonkey/v2"

	"seata.apache.org/seata-go/pkg/client"
	seatasql "seata.apache.org/seata-go/pkg/datasource/sql"
	"seata.apache.org/seata-go/pkg/protocol/branch"
	"seata.apache.org/seata-go/pkg/protocol/message"
	"seata.apache.org/seata-go/pkg/remoting/getty"
	"seata.apache.org/seata-go/pkg/rm"
	"seata.apache.org/seata-go/pkg/tm"

	"verifh/hutil"
)

// Fault: the Nth (0-based, per scenario) command of kind Kind fails at the
// database without changing its state. Kind in START STMT END PREPARE COMMIT ROLLBACK.
type Fault struct {
	Kind string `json:"kind"`
	Nth  int    `json:"nth"`
	Err  string `json:"err"` // error value the driver returns: "" generic | "badconn" driver.ErrBadConn | "ctx" context.DeadlineExceeded
}

// Op kinds:
//
//	auto     one autocommit business statement inside global transaction G on a FRESH connection
//	local    one business statement outside any global transaction on a fresh connection
//	p2       phase two for the branch created by op Target (commit/rollback, holder/stranger)
//	reuse    autocommit statement of global transaction G on the connection of op Target (finding stream)
//	explicit BeginTx .. NStmts statements .. Commit/Rollback inside global transaction G (finding stream)
type Op struct {
	K        string `json:"k"`
	G        int    `json:"g"`
	Target   int    `json:"target"`
	Commit   bool   `json:"commit"`
	Stranger bool   `json:"stranger"`
	NStmts   int    `json:"nstmts"`
	Reuse    bool   `json:"reuse"` // auto: run on the connection of op Target, taken back out of the pool
	Slow     bool   `json:"slow"`  // auto: the business statement outlasts xa_branch_execution_timeout
	Expired  bool   `json:"expired"` // check: one pass of the two-phase timeout checker; Expired: the hold time is over (else: 1 h)
	Db       bool   `json:"db"`    // auto (fresh): through db.ExecContext, i.e. with database/sql's retry on
	// driver.ErrBadConn; the two ops that follow are K="retry" and stand for the 2nd and 3rd attempt
	// retire (K="retire"): the pool retires the connection of op Target (SetMaxIdleConns(0)): driver Close
}

type Scenario struct {
	Version  string   `json:"version"`
	Xids     []string `json:"xids"`
	Branches []int64  `json:"branches"` // branch id the coordinator assigns to the k-th BranchRegister
	Refuse   []int    `json:"refuse"`   // k-th BranchRegister: 0 accept, 1 refused by result code, 2 transport error
	Faults   []Fault  `json:"faults"`
	Ops      []Op     `json:"ops"`
	Stream   string   `json:"stream"` // clean | malformed | finding:<pred>
	XidsHex  []string `json:"xids_hex"` // authoritative when present (replays)
}

type OpResult struct {
	Class  string `json:"class"`            // ok | err | panic | diverged | skipped
	Status int    `json:"status,omitempty"` // p2: branch status returned by the resource manager
	Detail string `json:"detail,omitempty"`
	Bad    bool   `json:"bad,omitempty"`  // the returned error is (wraps) driver.ErrBadConn
	Good   bool   `json:"good,omitempty"` // p2: returned without error and with the Committed / Rollbacked status
	ID     string `json:"id,omitempty"` // auto: identifier of the branch this op created ("" if none)
	EvFrom int    `json:"ev_from"`      // events [EvFrom, EvTo) were produced by this op
	EvTo   int    `json:"ev_to"`
	ReqID  string `json:"req_id,omitempty"` // p2: xa_id of the request's (xid, branch id)
	Closed []int  `json:"closed,omitempty"` // check: sessions the pass closed
}

type Result struct {
	Scenario Scenario   `json:"scenario"`
	Events   []Event    `json:"events"`
	Ops      []OpResult `json:"ops"`
	Other    int        `json:"other"` // statements that were neither XA nor business
	Oracle   []string   `json:"oracle"`
	Legal    bool       `json:"legal"`
	Tags     []string   `json:"tags"` // input features computed on the run (finding predicates)
}

// ---------------------------------------------------------------- coordinator stub

type coord struct {
	mu   sync.Mutex
	w    *world
	sc   *Scenario
	nreg int
}

var (
	curMu sync.Mutex
	cur   *coord
)

func stubSend(_ *getty.GettyRemotingClient, msg interface{}) (interface{}, error) {
	curMu.Lock()
	c := cur
	curMu.Unlock()
	ok := message.AbstractResultMessage{ResultCode: message.ResultCodeSuccess}
	switch m := msg.(type) {
	case message.RegisterRMRequest:
		return message.RegisterRMResponse{AbstractIdentifyResponse: message.AbstractIdentifyResponse{
			AbstractResultMessage: ok, Identified: true, Version: "1.5.2"}}, nil
	case message.RegisterTMRequest:
		return message.RegisterTMResponse{AbstractIdentifyResponse: message.AbstractIdentifyResponse{
			AbstractResultMessage: ok, Identified: true, Version: "1.5.2"}}, nil
	case message.BranchRegisterRequest:
		if c == nil {
			return nil, errors.New("verif: no scenario")
		}
		c.mu.Lock()
		k := c.nreg
		c.nreg++
		c.mu.Unlock()
		mode := 0
		if k < len(c.sc.Refuse) {
			mode = c.sc.Refuse[k]
		}
		var b int64 = int64(1000 + k)
		if k < len(c.sc.Branches) {
			b = c.sc.Branches[k]
		}
		c.w.mu.Lock()
		ev := Event{K: "reg", Xid: m.Xid, Res: "ok", Branch: b}
		if mode != 0 {
			ev.Res, ev.Branch = "refused", 0
		}
		c.w.events = append(c.w.events, ev)
		c.w.mu.Unlock()
		switch mode {
		case 1:
			return message.BranchRegisterResponse{AbstractTransactionResponse: message.AbstractTransactionResponse{
				AbstractResultMessage: message.AbstractResultMessage{ResultCode: message.ResultCodeFailed, Msg: "refused"}}}, nil
		case 2:
			return nil, errors.New("verif: transport failure")
		}
		return message.BranchRegisterResponse{AbstractTransactionResponse: message.AbstractTransactionResponse{
			AbstractResultMessage: ok}, BranchId: b}, nil
	case message.BranchReportRequest:
		if c != nil {
			c.w.mu.Lock()
			c.w.events = append(c.w.events, Event{K: "report", Xid: m.Xid, Branch: m.BranchId, Status: int(m.Status)})
			c.w.mu.Unlock()
		}
		return message.BranchReportResponse{AbstractTransactionResponse: message.AbstractTransactionResponse{
			AbstractResultMessage: ok}}, nil
	}
	return nil, fmt.Errorf("verif: unexpected request %T", msg)
}

// ---------------------------------------------------------------- one scenario on the real code

const stmtSQL = "UPDATE t_acct SET bal = bal + 1 WHERE id = 1"

var dsnSeq int

func gctx(xid string) context.Context {
	ctx := tm.InitSeataContext(context.Background())
	tm.SetXID(ctx, xid)
	return ctx
}

func runScenario(sc Scenario) Result {
	if len(sc.XidsHex) > 0 {
		sc.Xids = nil
		for _, h := range sc.XidsHex {
			b, _ := hex.DecodeString(h)
			sc.Xids = append(sc.Xids, string(b))
		}
	} else {
		for _, x := range sc.Xids {
			sc.XidsHex = append(sc.XidsHex, hex.EncodeToString([]byte(x)))
		}
	}
	dsnSeq++
	dsn := fmt.Sprintf("u:p@tcp(127.0.0.1:3306)/d%d_%d?interpolateParams=true", os.Getpid(), dsnSeq)
	resID := dsn[:len(dsn)-len("?interpolateParams=true")]
	w := newWorld(sc.Version, sc.Faults)
	worldsMu.Lock()
	worlds[dsn] = w
	worldsMu.Unlock()
	co := &coord{w: w, sc: &sc}
	curMu.Lock()
	cur = co
	curMu.Unlock()
	res := Result{Scenario: sc}
	defer func() {
		worldsMu.Lock()
		delete(worlds, dsn)
		worldsMu.Unlock()
	}()

	db, err := gosql.Open("verif-xa", dsn)
	if err != nil {
		res.Oracle = append(res.Oracle, "sql.Open failed: "+err.Error())
		return res
	}
	var pinned []*gosql.Conn
	opConn := map[int]*gosql.Conn{} // op index -> pinned pool connection it used
	opID := map[int]string{}        // op index -> branch identifier
	opPhys := map[int]int{}         // op index -> physical connection number
	finished := map[int]bool{}

	opPhysAll := map[int]int{}  // op index -> physical connection its pool connection sits on
	prepOn := map[int]bool{}    // physical connection -> a branch was prepared on it
	startOK := map[int]bool{}   // op index -> its XA START was accepted
	tags := map[string]bool{}
	pre := map[int]OpResult{} // results of the retry ops that follow a db-mode statement
	preFrom, preTo := 0, 0
	for i, op := range sc.Ops {
		var r OpResult
		evFrom := len(w.snapshot())
		if pr, ok := pre[i]; ok && op.K == "retry" {
			r = pr
			r.EvFrom, r.EvTo = preFrom, preTo
			res.Ops = append(res.Ops, r)
			continue
		}
		switch op.K {
		case "away":
			// the next phase-two request for op Target lands on a process that does not hold the
			// connection (RM cluster) while the holder stays connected: nothing is in the keeper there
			id, ok := opID[op.Target]
			if ok && w.prepared(id) && !finished[op.Target] {
				if v, ok2 := rm.GetRmCacheInstance().GetResourceManager(branch.BranchTypeXA).GetCachedResources().Load(resID); ok2 {
					if dr, ok3 := v.(*seatasql.DBResource); ok3 {
						dr.Release(id)
					}
				}
			}
			r = OpResult{Class: "skipped"}
		case "check":
			open0 := w.openSet()
			hold := time.Hour
			if op.Expired {
				hold = time.Nanosecond
			}
			cl, det := hutil.Guard(5*time.Second, func() error {
				if !seatasql.VerifXATwoPhaseCheck(hold) {
					return errors.New("no XA resource manager")
				}
				return nil
			})
			r = OpResult{Class: cl, Detail: clip(det), Closed: []int{}}
			open1 := w.openSet()
			for c := range open0 {
				if !open1[c] {
					r.Closed = append(r.Closed, c)
				}
			}
			sort.Ints(r.Closed)
		case "retire":
			conn := opConn[op.Target]
			if conn == nil {
				r = OpResult{Class: "skipped"}
				break
			}
			hutil.Guard(5*time.Second, func() error {
				db.SetMaxIdleConns(0)
				conn.Close()
				db.SetMaxIdleConns(2)
				return nil
			})
			for k, c := range opConn {
				if c == conn {
					delete(opConn, k)
				}
			}
			opConn[i] = nil
			r = OpResult{Class: "ok"}
		case "auto", "local", "reuse":
			if op.K == "auto" && op.Db {
				// database/sql picks the connection and retries on driver.ErrBadConn
				ctx := gctx(sc.Xids[op.G])
				if op.Slow {
					seatasql.VerifSetXAConnTimeout(time.Nanosecond)
					w.setSlow(true)
				}
				nB := w.nconnNow()
				before := len(w.snapshot())
				var lastErr error
				cl, det := hutil.Guard(10*time.Second, func() error {
					_, e := db.ExecContext(ctx, stmtSQL)
					lastErr = e
					return e
				})
				w.setSlow(false)
				seatasql.VerifSetXAConnTimeout(time.Hour)
				attempts := w.nconnNow() - nB
				if attempts < 1 {
					attempts = 1
				}
				final := OpResult{Class: cl, Detail: clip(det), Bad: lastErr != nil && errors.Is(lastErr, driver.ErrBadConn)}
				evs := w.snapshot()
				preFrom, preTo = before, len(evs)
				for j := 0; j < 3; j++ {
					var a OpResult
					switch {
					case j < attempts-1:
						a = OpResult{Class: "err", Bad: true, Detail: "driver: bad connection (retried by database/sql)"}
					case j == attempts-1:
						a = final
					default:
						a = OpResult{Class: "skipped"}
					}
					if j < attempts {
						opPhysAll[i+j] = nB + j
						for _, ev := range evs[before:] {
							if ev.K == "sql" && ev.Cmd == "START" && ev.Conn == nB+j {
								a.ID = ev.ID
								opID[i+j] = ev.ID
								opPhys[i+j] = ev.Conn
								startOK[i+j] = ev.Res == "ok"
							}
							if ev.K == "sql" && ev.Cmd == "PREPARE" && ev.Res == "ok" {
								prepOn[ev.Conn] = true
							}
						}
					}
					if j == 0 {
						r = a
					} else {
						pre[i+j] = a
					}
				}
				if !final.Bad && cl != "panic" && cl != "diverged" {
					// the connection went back to the pool: take it out again so that nothing idles
					if c, cerr := db.Conn(context.Background()); cerr == nil {
						pinned = append(pinned, c)
						opConn[i+attempts-1] = c
						if w.nconnNow() != nB+attempts {
							res.Oracle = append(res.Oracle, "harness: the pool did not hand back the connection of the statement")
						}
					}
				}
				break
			}
			var conn *gosql.Conn
			reused := false
			if op.K == "reuse" || (op.K == "auto" && op.Reuse) {
				conn = opConn[op.Target]
				reused = conn != nil
				if reused && op.K == "reuse" && prepOn[opPhysAll[op.Target]] {
					// a pinned sql.Conn (no ResetSession) used again after a SUCCESSFUL branch; through the
					// pool the same history is an error to the caller and is part of the clean stream
					tags["xa.conn-reuse"] = true
				}
				if conn != nil && op.K == "auto" {
					// through the pool: the connection goes back and is taken out again (ResetSession)
					conn.Close()
					for k, c := range opConn {
						if c == conn {
							delete(opConn, k)
						}
					}
					conn = nil
				}
			}
			nBefore := w.nconnNow()
			if conn == nil {
				c, cerr := db.Conn(context.Background())
				if cerr != nil {
					r = OpResult{Class: "err", Detail: "db.Conn: " + cerr.Error()}
					break
				}
				conn = c
				pinned = append(pinned, c)
			}
			opConn[i] = conn
			if w.nconnNow() > nBefore {
				opPhysAll[i] = nBefore
			} else if reused {
				opPhysAll[i] = opPhysAll[op.Target]
			}
			ctx := context.Background()
			if op.K != "local" {
				ctx = gctx(sc.Xids[op.G])
			}
			if op.Slow {
				seatasql.VerifSetXAConnTimeout(time.Nanosecond)
				w.setSlow(true)
			} else {
				seatasql.VerifSetXAConnTimeout(time.Hour)
			}
			before := len(w.snapshot())
			var lastErr error
			cl, det := hutil.Guard(5*time.Second, func() error {
				_, e := conn.ExecContext(ctx, stmtSQL)
				lastErr = e
				return e
			})
			w.setSlow(false)
			seatasql.VerifSetXAConnTimeout(time.Hour)
			r = OpResult{Class: cl, Detail: clip(det), Bad: lastErr != nil && errors.Is(lastErr, driver.ErrBadConn)}
			if r.Bad {
				delete(opConn, i) // database/sql closed the sql.Conn and dropped the connection
			}
			for _, ev := range w.snapshot()[before:] {
				if ev.K == "sql" && ev.Cmd == "START" {
					r.ID = ev.ID
					opID[i] = ev.ID
					opPhys[i] = ev.Conn
					startOK[i] = ev.Res == "ok"
				}
				if ev.K == "sql" && ev.Cmd == "PREPARE" && ev.Res == "ok" {
					prepOn[ev.Conn] = true
				}
			}
		case "explicit":
			ctx := gctx(sc.Xids[op.G])
			beforeX := len(w.snapshot())
			cl, det := hutil.Guard(5*time.Second, func() error {
				tx, e := db.BeginTx(ctx, nil)
				if e != nil {
					return e
				}
				for k := 0; k < op.NStmts; k++ {
					if _, e = tx.ExecContext(ctx, stmtSQL); e != nil {
						tx.Rollback()
						return e
					}
				}
				if op.Commit {
					return tx.Commit()
				}
				return tx.Rollback()
			})
			r = OpResult{Class: cl, Detail: clip(det)}
			for _, ev := range w.snapshot()[beforeX:] {
				if ev.K == "sql" && ev.Cmd == "START" {
					r.ID = ev.ID
				}
			}
		case "p2":
			// delivered to a PREPARED branch, or (rollback only) to a registered branch whose XA START failed
			id, ok := opID[op.Target]
			isPrep := ok && w.prepared(id)
			failedStart := ok && !startOK[op.Target] && !op.Commit
			if !ok || !(isPrep || failedStart) || finished[op.Target] {
				r = OpResult{Class: "skipped"}
				break
			}
			finished[op.Target] = true
			xid, b := w.regOf(id)
			r.ReqID = xaID(xid, b)
			if failedStart && !isPrep {
				for k, ph := range opPhysAll {
					if k > op.Target && ph == opPhysAll[op.Target] && !versionGE(sc.Version, 8, 0, 29) {
						tags["xa.stale-keeper"] = true
					}
				}
			}
			if op.Stranger && isPrep {
				// the process that ran phase one is gone: its session is dropped by the
				// server (a PREPARED branch survives, detached) and nobody holds the connection
				w.drop(opPhys[op.Target], true)
				if v, ok2 := rm.GetRmCacheInstance().GetResourceManager(branch.BranchTypeXA).GetCachedResources().Load(resID); ok2 {
					if dr, ok3 := v.(*seatasql.DBResource); ok3 {
						dr.Release(id)
					}
				}
			}
			var st branch.BranchStatus
			cl, det := hutil.Guard(5*time.Second, func() error {
				var e error
				mgr := rm.GetRmCacheInstance().GetResourceManager(branch.BranchTypeXA)
				br := rm.BranchResource{ResourceId: resID, Xid: xid, BranchId: b}
				if op.Commit {
					st, e = mgr.BranchCommit(context.Background(), br)
				} else {
					st, e = mgr.BranchRollback(context.Background(), br)
				}
				return e
			})
			r = OpResult{Class: cl, Detail: clip(det), Status: int(st), ReqID: r.ReqID}
			r.Good = cl == "ok" && ((op.Commit && st == branch.BranchStatusPhasetwoCommitted) ||
				(!op.Commit && st == branch.BranchStatusPhasetwoRollbacked))
		default:
			r = OpResult{Class: "skipped"}
		}
		r.EvFrom, r.EvTo = evFrom, len(w.snapshot())
		res.Ops = append(res.Ops, r)
	}
	for i, op := range sc.Ops {
		if op.K == "auto" && op.Slow && i < len(res.Ops) {
			for _, ev := range w.snapshot()[res.Ops[i].EvFrom:res.Ops[i].EvTo] {
				if ev.K == "sql" && ev.Cmd == "ROLLBACK" && ev.Res == "fault" {
					tags["xa.timeout.rollback-fault"] = true
				}
			}
		}
	}
	for t := range tags {
		res.Tags = append(res.Tags, t)
	}
	hutil.Guard(5*time.Second, func() error {
		for _, c := range pinned {
			c.Close()
		}
		return db.Close()
	})
	curMu.Lock()
	cur = nil
	curMu.Unlock()
	w.mu.Lock()
	res.Events = append([]Event{}, w.events...)
	for i := range res.Events {
		res.Events[i].IDH = hex.EncodeToString([]byte(res.Events[i].ID))
		res.Events[i].XidH = hex.EncodeToString([]byte(res.Events[i].Xid))
	}
	res.Other = len(w.other)
	w.mu.Unlock()
	hn := res.Oracle
	res.Oracle, res.Legal = oracle(&sc, &res)
	res.Oracle = append(hn, res.Oracle...)
	return res
}

func clip(s string) string {
	if len(s) > 300 {
		return s[:300]
	}
	return s
}

func (w *world) snapshot() []Event {
	w.mu.Lock()
	defer w.mu.Unlock()
	return append([]Event{}, w.events...)
}

func (w *world) prepared(id string) bool {
	w.mu.Lock()
	defer w.mu.Unlock()
	b, ok := w.branches[id]
	return ok && b.state == stPrepared
}

// regOf: the (xid, branch id) of the accepted registration that immediately
// preceded the XA START naming id.
func (w *world) regOf(id string) (string, int64) {
	w.mu.Lock()
	defer w.mu.Unlock()
	var xid string
	var b int64
	for _, ev := range w.events {
		if ev.K == "reg" && ev.Res == "ok" {
			xid, b = ev.Xid, ev.Branch
		}
		if ev.K == "sql" && ev.Cmd == "START" && ev.ID == id {
			return xid, b
		}
	}
	return xid, b
}

// ---------------------------------------------------------------- direct oracle (the property's own statement)

func xaID(xid string, b int64) string { return xid + "-" + strconv.FormatUint(uint64(b), 10) }

// oracle evaluates C17 on what the real code did.
func oracle(sc *Scenario, r *Result) (fails []string, legal bool) {
	bad := func(f string, a ...interface{}) { fails = append(fails, fmt.Sprintf(f, a...)) }
	legal = true
	// (1) per identifier: the commands form START stmt* END PREPARE (COMMIT|ROLLBACK), or a
	// failure prefix ending in ROLLBACK; nothing the server rejects; never COMMIT without PREPARE
	endFaults := map[string]int{}
	for _, ev := range r.Events {
		if ev.K == "sql" && ev.Cmd == "END" && ev.Res == "fault" {
			endFaults[ev.ID]++
		}
	}
	nfaultAll := map[string]int{}
	for _, ev := range r.Events {
		if ev.K == "sql" && (ev.Res == "fault" || ev.Res == "rbidle") {
			nfaultAll[ev.ID]++
		}
	}
	// events of phase-two calls that were routed to a process that does not hold the connection
	awayWin := map[int]bool{}
	awayT := map[int]bool{}
	for j, op := range sc.Ops {
		if op.K == "away" {
			awayT[op.Target] = true
		}
		if op.K == "p2" && awayT[op.Target] && j < len(r.Ops) {
			for k := r.Ops[j].EvFrom; k < r.Ops[j].EvTo; k++ {
				awayWin[k] = true
			}
		}
	}
	onConn := map[int]string{} // session -> identifier of the branch bound to it
	boundTo := map[string]int{} // identifier -> session it is bound to (0: detached / none)
	state := map[string]int{} // 0 none, 1 active, 2 idle, 3 prepared, 4 committed, 5 rolled back
	failed := map[string]bool{}
	order := []string{}
	var lastReg *Event
	regOf := map[string]Event{}
	for i := range r.Events {
		ev := r.Events[i]
		switch ev.K {
		case "reg":
			e := ev
			lastReg = &e
		case "kill":
			for x, c := range boundTo {
				if c == ev.Conn {
					boundTo[x] = 0
				}
			}
		case "sql":
			if ev.Cmd == "STMT" && ev.ID == "" {
				if ev.Res != "ok" && ev.Res != "fault" {
					bad("business statement outside a branch rejected: %s", ev.Res)
					legal = false
				}
				continue
			}
			id := ev.ID
			if _, seen := state[id]; !seen {
				state[id] = 0
				order = append(order, id)
			}
			if ev.Res == "rbidle" {
				// rollback-only branch: XA END is answered with an XA_RB* error and the branch is IDLE afterwards
				if ev.Cmd == "END" && state[id] == 1 {
					state[id] = 2
					failed[id] = true
				} else {
					bad("XA %s '%s' answered rollback-only in state %d", ev.Cmd, id, state[id])
				}
				continue
			}
			if ev.Res != "ok" && ev.Res != "fault" {
				// the one tolerated rejection: XA END(success) AND the XA END(fail) after it were both
				// made to fail, the closing XA ROLLBACK then meets a still active branch (docs/C17.md)
				if ev.Cmd == "ROLLBACK" && ev.Res == "nota" && (state[id] == 0 || state[id] == 5) {
					continue // nothing to roll back: never started / already rolled back (reading in docs/C17.md)
				}
				if (ev.Cmd == "COMMIT" || ev.Cmd == "ROLLBACK") && ev.Res == "nota" && state[id] == 3 && boundTo[id] != ev.Conn && boundTo[id] != 0 && awayWin[i] {
					// a process that does not hold the session: on this server family the branch is only
					// visible to the session that prepared it; nothing changed, the answer must say so (checked per op)
					continue
				}
				if ev.Cmd == "END" && ev.Res == "rmfail" && state[id] == 2 {
					continue // XA END repeated on an already IDLE branch: refused, no effect
				}
				if ev.Cmd == "START" && ev.Res == "rmfail" && state[id] == 0 && nfaultAll[onConn[ev.Conn]] >= 2 {
					// the session is still bound to an earlier branch whose compensating XA ROLLBACK was
					// made to fail as well (second failure): the new branch cannot start, its caller gets the error
					continue
				}
				if endFaults[id] < 2 {
					bad("XA %s '%s' rejected by the server (%s): illegal in state %d", ev.Cmd, id, ev.Res, state[id])
					legal = false
				}
				continue
			}
			s := state[id]
			if ev.Cmd == "END" && ev.Res == "fault" && s == 2 {
				continue // XA END repeated on an already IDLE branch, made to fail: no effect either way
			}
			if ev.Cmd == "ROLLBACK" && ev.Res == "fault" && (s == 0 || s == 5) {
				continue // as above: a rollback with nothing to roll back, made to fail
			}
			if ev.Res == "ok" {
				switch ev.Cmd {
				case "START":
					onConn[ev.Conn] = id
					boundTo[id] = ev.Conn
				case "COMMIT", "ROLLBACK":
					for c, x := range onConn {
						if x == id {
							delete(onConn, c)
						}
					}
				case "PREPARE":
					if versionGE(sc.Version, 8, 0, 29) {
						delete(onConn, ev.Conn)
						boundTo[id] = 0
					}
				}
			}
			okHere := false
			switch ev.Cmd {
			case "START":
				okHere = s == 0
				// (3) registered before XA START, identifier = f(xid, branch id)
				if lastReg == nil || lastReg.Res != "ok" {
					bad("XA START '%s' without a preceding accepted BranchRegister", id)
				} else if xaID(lastReg.Xid, lastReg.Branch) != id {
					bad("XA START '%s' does not carry the identifier of (%s, %d)", id, lastReg.Xid, lastReg.Branch)
				} else {
					regOf[id] = *lastReg
				}
				lastReg = nil
				if ev.Res == "ok" && okHere {
					state[id] = 1
				}
			case "STMT":
				okHere = s == 1
				if ev.Res == "fault" {
					failed[id] = true
				}
			case "END":
				okHere = s == 1
				if ev.Res == "ok" && okHere {
					state[id] = 2
				}
			case "PREPARE":
				okHere = s == 2
				if ev.Res == "ok" && okHere {
					state[id] = 3
				}
			case "COMMIT":
				okHere = s == 3
				if ev.Res == "ok" && okHere {
					state[id] = 4
				}
			case "ROLLBACK":
				okHere = s == 2 || s == 3
				if ev.Res == "ok" && okHere {
					state[id] = 5
				}
			}
			if ev.Res == "fault" && s < 3 {
				failed[id] = true
			}
			if !okHere && endFaults[id] < 2 {
				bad("XA %s '%s' issued in state %d: not a legal XA sequence", ev.Cmd, id, s)
				legal = false
			}
		}
	}
	// (2) a refused registration is followed by no XA command at all (checked above: START needs
	// an accepted registration), and the caller gets an error
	// (4) failure before a successful PREPARE: branch ends rolled back (unless the compensating
	// END/ROLLBACK was itself made to fail), caller gets an error, never committed
	// (single-failure reading: when a second command of the same branch is made to fail too,
	// only legality and never-committed are required)
	nfault := map[string]int{}
	for _, ev := range r.Events {
		if ev.K == "sql" && (ev.Res == "fault" || ev.Res == "rbidle") {
			nfault[ev.ID]++
		}
	}
	for _, id := range order {
		if failed[id] {
			if state[id] == 4 {
				bad("branch '%s' failed before a successful PREPARE and was committed", id)
			}
			if state[id] != 5 && state[id] != 0 && nfault[id] < 2 {
				bad("branch '%s' failed before a successful PREPARE and was not rolled back (state %d)", id, state[id])
			}
		}
	}
	for i, op := range sc.Ops {
		if i >= len(r.Ops) {
			break
		}
		o := r.Ops[i]
		if o.Class == "panic" || o.Class == "diverged" {
			bad("op %d (%s): %s %s", i, op.K, o.Class, firstLine(o.Detail))
			continue
		}
		switch op.K {
		case "check":
			// a held connection whose branch is PREPARED is not force-closed before the hold time is over: the
			// coordinator decides (and phase two finds the session that prepared the branch)
			if !op.Expired {
				for _, c := range o.Closed {
					if id, ok := boundAt(r.Events[:o.EvFrom], c, sc.Version); ok {
						bad("op %d: the two-phase timeout checker closed session %d whose branch '%s' is PREPARED, within the hold time", i, c, id)
					}
				}
			}
		case "explicit":
			id := o.ID
			if o.Class == "ok" && op.Commit && !(id != "" && prefixPrepared(r.Events, id)) {
				bad("op %d: explicit transaction committed successfully but its branch '%s' was never ended and prepared", i, id)
			}
			if !op.Commit && id != "" && state[id] != 5 && state[id] != 0 {
				bad("op %d: explicit transaction rolled back but its branch '%s' was not rolled back at the database (state %d)", i, id, state[id])
			}
		case "auto", "reuse", "retry":
			// outcome must tell the truth: ok <=> its branch is PREPARED (or later finished by phase two)
			id := o.ID
			prepared := id != "" && prefixPrepared(r.Events, id)
			if o.Class == "ok" && !prepared {
				bad("op %d: statement reported success but its branch '%s' was not prepared", i, id)
			}
			if o.Class == "err" && prepared {
				bad("op %d: statement reported an error but its branch '%s' is prepared", i, id)
			}
		case "p2":
			if o.Class == "skipped" {
				continue
			}
			// phase two names xa_id of the REQUEST's (xid, branch id), whatever connection serves it
			for _, ev := range r.Events[o.EvFrom:o.EvTo] {
				if ev.K == "sql" && ev.ID != o.ReqID {
					bad("op %d: phase two for '%s' sent XA %s '%s'", i, o.ReqID, ev.Cmd, ev.ID)
				}
			}
			id := r.Ops[op.Target].ID
			if !prefixPrepared(r.Events[:o.EvFrom], id) {
				continue // rollback request for a branch whose XA START failed: nothing more to require
			}
			want := "ROLLBACK"
			if op.Commit {
				want = "COMMIT"
			}
			n := 0
			var last Event
			for _, ev := range r.Events {
				if ev.K == "sql" && (ev.Cmd == "COMMIT" || ev.Cmd == "ROLLBACK") && ev.ID == id && afterPrepare(r.Events, id, ev) {
					n++
					last = ev
				}
			}
			if n != 1 || last.Cmd != want {
				bad("op %d: phase two of '%s' issued %d finishing commands (want exactly one XA %s with that identifier)", i, id, n, want)
			} else {
				done := last.Res == "ok"
				good := (op.Commit && o.Status == int(branch.BranchStatusPhasetwoCommitted)) ||
					(!op.Commit && o.Status == int(branch.BranchStatusPhasetwoRollbacked))
				if done != (good && o.Class == "ok") {
					bad("op %d: phase two of '%s' finished=%v but reported class=%s status=%d", i, id, done, o.Class, o.Status)
				}
			}
		}
	}
	return fails, legal
}

func firstLine(s string) string {
	for i := 0; i < len(s); i++ {
		if s[i] == '\n' {
			return s[:i]
		}
	}
	return s
}

func prefixPrepared(evs []Event, id string) bool {
	for _, ev := range evs {
		if ev.K == "sql" && ev.Cmd == "PREPARE" && ev.ID == id && ev.Res == "ok" {
			return true
		}
	}
	return false
}

func afterPrepare(evs []Event, id string, at Event) bool {
	seen := false
	for _, ev := range evs {
		if ev.K == "sql" && ev.Cmd == "PREPARE" && ev.ID == id && ev.Res == "ok" {
			seen = true
		}
		if ev == at {
			return seen
		}
	}
	return false
}

// ---------------------------------------------------------------- identifier stream (pure functions)

type IdentCase struct {
	Xid     string `json:"xid"` // hex
	Branch  uint64 `json:"branch"`
	Str     string `json:"str"`   // hex of XaIdBuild(xid, b).String()
	Gtrid   string `json:"gtrid"` // hex
	Bqual   string `json:"bqual"` // hex
	DecXid  string `json:"dec_xid"`
	DecB    uint64 `json:"dec_b"`
	RmStr   string `json:"rm_str"` // hex of what the resource manager's builder yields for (xid, int64(b))
	Oracle  string `json:"oracle"`
	BranchS string `json:"branch_s"` // decimal, for Coq
}

var initOnce sync.Once

// Init initialises the client offline, with the coordinator stubbed and the
// two-phase timeout checker (a free-running 1 s ticker that force-closes held
// connections; out of C17's scope, see docs/C17.md) switched off.
func Init(repo string) {
	initOnce.Do(func() {
		gomonkey.ApplyMethod(reflect.TypeOf(getty.GetGettyRemotingClient()), "SendSyncRequest", stubSend)
		gomonkey.ApplyPrivateMethod(reflect.TypeOf(&seatasql.XAResourceManager{}), "xaTwoPhaseTimeoutChecker",
			func(_ *seatasql.XAResourceManager) {})
		client.InitPath(repo + "/testdata/conf/seatago.yml")
		seatasql.RegisterVerifDrivers("", "verif-xa", fakeDriver{})
	})
}

// boundAt: the branch that was PREPARED on session c and is not yet finished, by the events so far
func boundAt(evs []Event, c int, version string) (string, bool) {
	st := map[string]int{}
	on := map[string]int{}
	for _, ev := range evs {
		if ev.K != "sql" || ev.Res != "ok" {
			continue
		}
		switch ev.Cmd {
		case "START":
			st[ev.ID], on[ev.ID] = 1, ev.Conn
		case "END":
			st[ev.ID] = 2
		case "PREPARE":
			st[ev.ID] = 3
		case "COMMIT", "ROLLBACK":
			st[ev.ID] = 4
		}
	}
	for id, s := range st {
		if s == 3 && on[id] == c {
			return id, true
		}
	}
	return "", false
}
