package xarun

import (
	"encoding/hex"
	"encoding/json"
	"fmt"
	"os"
	"strconv"

	seatasql "seata.apache.org/seata-go/pkg/datasource/sql"

	"verifh/hutil"
)

var kinds = []string{"START", "STMT", "END", "PREPARE", "COMMIT", "ROLLBACK"}

// longXid: transaction ids as a coordinator on an IPv6 / long host name hands them out, and ids
// up to 200 bytes (the identifier is xid + "-" + branch id: the branch id sits at the tail)
func longXid(r *hutil.Rng) string {
	switch r.Intn(3) {
	case 0:
		return fmt.Sprintf("[fe80::%x:%x:%x:%x%%eth0]:8091:%d", r.Intn(65536), r.Intn(65536), r.Intn(65536), r.Intn(65536),
			1000000000000000000+r.Next()%8000000000000000000)
	case 1:
		return fmt.Sprintf("[2001:db8:85a3:%x:%x:8a2e:370:%x]:8091:%d", r.Intn(65536), r.Intn(65536), r.Intn(65536),
			1000000000000000000+r.Next()%8000000000000000000)
	}
	n := 40 + r.Intn(161)
	b := make([]byte, n)
	for i := range b {
		b[i] = "abcdefghijklmnopqrstuvwxyz0123456789.:-"[r.Intn(39)]
	}
	return string(b)
}

func genXid(r *hutil.Rng, hostile bool) string {
	if r.Chance(1, 5) {
		return longXid(r)
	}
	switch r.Intn(8) {
	case 0:
		return "a-" + strconv.Itoa(r.Intn(30))
	case 1:
		return strconv.Itoa(r.Intn(1000))
	case 2:
		return "tx--" + strconv.Itoa(r.Intn(9)) + "-"
	case 3:
		if hostile {
			b := r.Bytes(1 + r.Intn(40))
			for i := range b {
				if b[i] == '\'' || b[i] == '\\' || b[i] == 0 {
					b[i] = '-'
				}
			}
			return string(b)
		}
	}
	return fmt.Sprintf("192.168.%d.%d:8091:%d", r.Intn(256), r.Intn(256), r.Next()%1000000000000000000)
}

func genBranch(r *hutil.Rng, hostile bool, used map[int64]bool) int64 {
	for {
		var b int64
		switch r.Intn(6) {
		case 0:
			b = int64(1 + r.Intn(100))
		case 1:
			b = int64(r.Next() >> 1) // up to 2^63-1
		case 2:
			if hostile {
				b = -int64(r.Intn(5)) // 0 and negative ids (wrap to uint64)
			} else {
				b = int64(10 + r.Intn(10)) // collisions of digits with the xids above
			}
		default:
			b = int64(r.Next() % 100000000000000000)
		}
		if !used[b] {
			used[b] = true
			return b
		}
	}
}

func genScenario(r *hutil.Rng, stream string) Scenario {
	hostile := stream == "malformed"
	sc := Scenario{Stream: stream}
	switch r.Intn(10) {
	case 0, 1:
		sc.Version = "8.0.30"
	case 2:
		sc.Version = "8.0.28"
	default:
		sc.Version = "5.7.30"
	}
	nx := 1 + r.Intn(3)
	for i := 0; i < nx; i++ {
		x := genXid(r, hostile)
		for x == "" {
			x = genXid(r, hostile)
		}
		sc.Xids = append(sc.Xids, x)
	}
	na := 1 + r.Intn(4)
	if hostile {
		na = 1 + r.Intn(6)
	}
	used := map[int64]bool{}
	var autos []int
	// connection chains: last op that ran on each pool connection; a chain is closed for reuse
	// once a stranger phase two may have dropped its session
	var chainLast []int
	chainOf := map[int]int{}
	dead := map[int]bool{}
	for i := 0; i < na; i++ {
		if r.Chance(1, 6) {
			chainOf[len(sc.Ops)] = len(chainLast)
			chainLast = append(chainLast, len(sc.Ops))
			sc.Ops = append(sc.Ops, Op{K: "local"})
		}
		op := Op{K: "auto", G: r.Intn(nx), Slow: r.Chance(1, 9)}
		var live []int
		for c := range chainLast {
			if !dead[c] {
				live = append(live, c)
			}
		}
		if i > 0 && r.Chance(1, 7) {
			// one pass of the two-phase timeout checker; connections it may have closed are not reused
			sc.Ops = append(sc.Ops, Op{K: "check", Expired: r.Chance(1, 2)})
			for c := range chainLast {
				dead[c] = true
			}
			live = nil
		}
		if len(live) > 0 && r.Chance(1, 8) {
			// the pool retires a connection (idle limit / lifetime)
			c := live[r.Intn(len(live))]
			sc.Ops = append(sc.Ops, Op{K: "retire", Target: chainLast[c]})
			dead[c] = true
			live = nil
			for c2 := range chainLast {
				if !dead[c2] {
					live = append(live, c2)
				}
			}
		}
		if len(live) > 0 && r.Chance(1, 3) {
			c := live[r.Intn(len(live))]
			op.Reuse, op.Target = true, chainLast[c]
			chainOf[len(sc.Ops)] = c
			chainLast[c] = len(sc.Ops)
		} else if r.Chance(1, 4) {
			// through db.ExecContext: database/sql may run it up to three times (retry ops)
			op.Db = true
			for j := 0; j < 3; j++ {
				chainOf[len(sc.Ops)+j] = len(chainLast)
			}
			dead[len(chainLast)] = true // which attempt keeps the connection is not known here
			chainLast = append(chainLast, len(sc.Ops))
		} else {
			chainOf[len(sc.Ops)] = len(chainLast)
			chainLast = append(chainLast, len(sc.Ops))
		}
		autos = append(autos, len(sc.Ops))
		sc.Ops = append(sc.Ops, op)
		nreg := 1
		if op.Db {
			autos = append(autos, len(sc.Ops), len(sc.Ops)+1)
			sc.Ops = append(sc.Ops, Op{K: "retry", G: op.G, Slow: op.Slow}, Op{K: "retry", G: op.G, Slow: op.Slow})
			nreg = 3
		}
		for j := 0; j < nreg; j++ {
			sc.Branches = append(sc.Branches, genBranch(r, hostile, used))
			m := 0
			if r.Chance(1, 10) {
				m = 1 + r.Intn(2)
			}
			sc.Refuse = append(sc.Refuse, m)
		}
		// phase two may arrive while later branches are still being created
		if r.Chance(1, 4) {
			t := autos[r.Intn(len(autos))]
			p := Op{K: "p2", Target: t, Commit: r.Chance(1, 2), Stranger: r.Chance(1, 3)}
			if p.Stranger {
				dead[chainOf[t]] = true
			}
			sc.Ops = append(sc.Ops, p)
		}
	}
	if r.Chance(1, 5) {
		sc.Ops = append(sc.Ops, Op{K: "check", Expired: r.Chance(1, 2)})
	}
	for _, t := range autos {
		if r.Chance(5, 6) {
			p := Op{K: "p2", Target: t, Commit: r.Chance(2, 3), Stranger: r.Chance(1, 3)}
			if !p.Stranger && r.Chance(1, 5) {
				// the request lands on a process that does not hold the connection; the holder stays connected
				sc.Ops = append(sc.Ops, Op{K: "away", Target: t})
			}
			sc.Ops = append(sc.Ops, p)
		}
	}
	if hostile {
		// duplicated / dangling phase-two deliveries (skipped by construction, see docs)
		for k := r.Intn(3); k > 0; k-- {
			sc.Ops = append(sc.Ops, Op{K: "p2", Target: r.Intn(len(sc.Ops) + 2), Commit: r.Chance(1, 2), Stranger: r.Chance(1, 2)})
		}
	}
	nf := 0
	switch x := r.Intn(20); {
	case x < 6:
		nf = 0
	case x < 17:
		nf = 1
	default:
		nf = 2 + r.Intn(2)
	}
	if hostile {
		nf = r.Intn(7)
	}
	seen := map[string]bool{}
	for i := 0; i < nf; i++ {
		f := Fault{Kind: kinds[r.Intn(len(kinds))], Nth: r.Intn(na + 2)}
		switch x := r.Intn(20); {
		case x >= 17:
			f.Err = "rbonly" // a rollback-only branch at XA END; a plain failure for the other commands
		case x < 7:
			f.Err = "badconn"
		case x < 9:
			f.Err = "ctx"
		}
		k := fmt.Sprintf("%s:%d", f.Kind, f.Nth)
		if !seen[k] {
			seen[k] = true
			sc.Faults = append(sc.Faults, f)
		}
	}
	return sc
}

// every single-fault position of one branch + registration refusal, both
// phase-two outcomes, holder and stranger: enumerated, independent of the seed
func enumScenarios() []Scenario {
	var out []Scenario
	for _, ver := range []string{"5.7.30", "8.0.30"} {
		for _, commit := range []bool{true, false} {
			for _, stranger := range []bool{false, true} {
				base := Scenario{Version: ver, Xids: []string{"10.0.0.7:8091:2612345678901234567"}, Branches: []int64{2612345678901234568},
					Refuse: []int{0}, Stream: "clean",
					Ops: []Op{{K: "auto"}, {K: "p2", Target: 0, Commit: commit, Stranger: stranger}}}
				out = append(out, base)
				for _, k := range kinds {
					s := base
					s.Faults = []Fault{{Kind: k, Nth: 0}}
					out = append(out, s)
				}
				for m := 1; m <= 2; m++ {
					s := base
					s.Refuse = []int{m}
					out = append(out, s)
				}
			}
		}
	}
	return out
}

// connection reuse through the pool after every kind of failed first branch, a second
// failing branch, phase two for the failed-START branch while its connection serves another
// branch, and the branch-timeout path: enumerated, independent of the seed
func enumReuse() []Scenario {
	var out []Scenario
	x := []string{"10.0.0.7:8091:2612345678901234567", "10.0.0.9:8091:77"}
	type first struct {
		f      []Fault
		refuse int
		slow   bool
	}
	firsts := []first{{} /* the first branch PREPAREs: through the pool the second statement is refused */, {f: []Fault{{Kind: "STMT", Nth: 0}}}, {f: []Fault{{Kind: "END", Nth: 0}}}, {f: []Fault{{Kind: "PREPARE", Nth: 0}}},
		{f: []Fault{{Kind: "START", Nth: 0}}}, {refuse: 1}, {slow: true}, {f: []Fault{{Kind: "STMT", Nth: 0}, {Kind: "END", Nth: 0}}},
		{f: []Fault{{Kind: "STMT", Nth: 0}, {Kind: "ROLLBACK", Nth: 0}}}}
	seconds := [][]Fault{nil, {{Kind: "STMT", Nth: 1}}, {{Kind: "PREPARE", Nth: 0}}, {{Kind: "START", Nth: 1}}}
	for _, ver := range []string{"5.7.30", "8.0.30"} {
		for _, a := range firsts {
			for _, b := range seconds {
				for _, tail := range [][]Op{
					{{K: "p2", Target: 0, Commit: false}, {K: "p2", Target: 1, Commit: true}},
					{{K: "p2", Target: 1, Commit: false}, {K: "p2", Target: 0, Commit: false}}} {
					s := Scenario{Version: ver, Xids: x, Branches: []int64{2612345678901234568, 2612345678901234569, 2612345678901234570},
						Refuse: []int{a.refuse, 0, 0}, Stream: "clean"}
					s.Faults = append(append([]Fault{}, a.f...), b...)
					s.Ops = append([]Op{{K: "auto", G: 0, Slow: a.slow}, {K: "auto", G: 1, Reuse: true, Target: 0}}, tail...)
					out = append(out, s)
				}
			}
		}
		// three branches in a row on one connection, the last two failing
		out = append(out, Scenario{Version: ver, Xids: x, Branches: []int64{71, 72, 73}, Refuse: []int{0, 0, 0}, Stream: "clean",
			Faults: []Fault{{Kind: "PREPARE", Nth: 0}, {Kind: "STMT", Nth: 1}, {Kind: "STMT", Nth: 2}},
			Ops: []Op{{K: "auto", G: 0}, {K: "auto", G: 1, Reuse: true, Target: 0}, {K: "auto", G: 0, Reuse: true, Target: 1},
				{K: "p2", Target: 2, Commit: false}}})
		// timeout alone, with both phase-two kinds
		for _, c := range []bool{true, false} {
			out = append(out, Scenario{Version: ver, Xids: x, Branches: []int64{81}, Refuse: []int{0}, Stream: "clean",
				Ops: []Op{{K: "auto", G: 0, Slow: true}, {K: "p2", Target: 0, Commit: c}}})
		}
	}
	return out
}

// the pool retires connections between phase one and phase two; every fault kind as
// driver.ErrBadConn; statements through db.ExecContext with database/sql's retry: enumerated
func enumPool() []Scenario {
	var out []Scenario
	x := []string{"10.0.0.7:8091:2612345678901234567", "10.0.0.9:8091:77"}
	bs := []int64{2612345678901234568, 2612345678901234569, 2612345678901234570, 2612345678901234571}
	mk := func(ver string, ops []Op, fs ...Fault) Scenario {
		return Scenario{Version: ver, Xids: x, Branches: bs, Refuse: []int{0, 0, 0, 0}, Stream: "clean", Ops: ops, Faults: fs}
	}
	bad := func(k string, n int) Fault { return Fault{Kind: k, Nth: n, Err: "badconn"} }
	for _, ver := range []string{"5.7.30", "8.0.30"} {
		for _, c := range []bool{true, false} {
			for _, st := range []bool{false, true} {
				out = append(out, mk(ver, []Op{{K: "auto"}, {K: "retire", Target: 0}, {K: "p2", Target: 0, Commit: c, Stranger: st}}))
			}
		}
		out = append(out, mk(ver, []Op{{K: "auto"}, {K: "retire", Target: 0}, {K: "auto", G: 1, Reuse: true, Target: 0}, {K: "p2", Target: 2, Commit: true}},
			Fault{Kind: "STMT", Nth: 0}))
		out = append(out, mk(ver, []Op{{K: "auto"}, {K: "retire", Target: 0}, {K: "p2", Target: 0, Commit: false}}, Fault{Kind: "START", Nth: 0}))
		out = append(out, mk(ver, []Op{{K: "auto"}, {K: "retire", Target: 0}, {K: "p2", Target: 0, Commit: false}},
			Fault{Kind: "STMT", Nth: 0}, Fault{Kind: "ROLLBACK", Nth: 0}))
		// each command failing with driver.ErrBadConn on a pinned connection, then the next statement
		for _, fs := range [][]Fault{{bad("START", 0)}, {bad("STMT", 0)}, {bad("END", 0)}, {bad("PREPARE", 0)},
			{{Kind: "STMT", Nth: 0}, bad("ROLLBACK", 0)}, {bad("PREPARE", 0), bad("ROLLBACK", 0)}, {bad("STMT", 0), bad("END", 0)}} {
			out = append(out, mk(ver, []Op{{K: "auto"}, {K: "auto", G: 1, Reuse: true, Target: 0}, {K: "p2", Target: 0, Commit: false},
				{K: "p2", Target: 1, Commit: true}}, fs...))
		}
		out = append(out, mk(ver, []Op{{K: "local"}, {K: "auto", G: 1, Reuse: true, Target: 0}}, bad("STMT", 0)))
		// through db.ExecContext
		dbops := []Op{{K: "auto", Db: true}, {K: "retry"}, {K: "retry"}, {K: "p2", Target: 0, Commit: false},
			{K: "p2", Target: 1, Commit: true}, {K: "p2", Target: 2, Commit: true}}
		for _, fs := range [][]Fault{nil, {bad("STMT", 0)}, {bad("STMT", 0), bad("STMT", 1)}, {bad("STMT", 0), bad("STMT", 1), bad("STMT", 2)},
			{bad("START", 0)}, {bad("END", 0)}, {bad("PREPARE", 0)}, {{Kind: "STMT", Nth: 0}}, {{Kind: "STMT", Nth: 0, Err: "ctx"}},
			{bad("STMT", 0), {Kind: "PREPARE", Nth: 0}}, {bad("PREPARE", 0), bad("ROLLBACK", 0)}} {
			out = append(out, mk(ver, dbops, fs...))
		}
		s := mk(ver, []Op{{K: "auto", Db: true, Slow: true}, {K: "retry", Slow: true}, {K: "retry", Slow: true}})
		out = append(out, s)
	}
	return out
}

// several branches of ONE global transaction whose xid is long (IPv6 coordinator address),
// each finished by its own phase two: enumerated
func enumLongXid() []Scenario {
	var out []Scenario
	x := []string{"[fe80::1ff:fe23:4567:890a%eth0]:8091:2612345678901234567", "[2001:db8:85a3::8a2e:370:7334]:8091:2612345678901234568"}
	for _, ver := range []string{"5.7.30", "8.0.30"} {
		for _, order := range [][]Op{
			{{K: "p2", Target: 1, Commit: true}, {K: "p2", Target: 0, Commit: true}, {K: "p2", Target: 2, Commit: false}},
			{{K: "p2", Target: 0, Commit: false}, {K: "p2", Target: 2, Commit: true, Stranger: true}, {K: "p2", Target: 1, Commit: true}}} {
			out = append(out, Scenario{Version: ver, Xids: x, Branches: []int64{2612345678901234570, 2612345678901234571, 2612345678901234572},
				Refuse: []int{0, 0, 0}, Stream: "clean",
				Ops: append([]Op{{K: "auto", G: 0}, {K: "auto", G: 0}, {K: "auto", G: 1}}, order...)})
		}
	}
	return out
}

// the two-phase timeout checker between phase one and phase two: within and after the hold time,
// over prepared, failed-START and stuck phase-one connections, both server families: enumerated
func enumCheck() []Scenario {
	var out []Scenario
	x := []string{"10.0.0.7:8091:2612345678901234567", "10.0.0.9:8091:77"}
	bs := []int64{2612345678901234568, 2612345678901234569, 2612345678901234570}
	mk := func(ver string, ops []Op, fs ...Fault) Scenario {
		return Scenario{Version: ver, Xids: x, Branches: bs, Refuse: []int{0, 0, 0}, Stream: "clean", Ops: ops, Faults: fs}
	}
	for _, ver := range []string{"5.7.30", "8.0.30"} {
		for _, e := range []bool{false, true} {
			for _, c := range []bool{true, false} {
				for _, st := range []bool{false, true} {
					out = append(out, mk(ver, []Op{{K: "auto"}, {K: "check", Expired: e}, {K: "p2", Target: 0, Commit: c, Stranger: st}}))
				}
			}
			out = append(out, mk(ver, []Op{{K: "auto"}, {K: "check", Expired: e}, {K: "p2", Target: 0, Commit: false}}, Fault{Kind: "START", Nth: 0}))
			out = append(out, mk(ver, []Op{{K: "auto"}, {K: "auto", G: 1}, {K: "check", Expired: e}, {K: "p2", Target: 1, Commit: true}},
				Fault{Kind: "STMT", Nth: 0}, Fault{Kind: "END", Nth: 0}))
			out = append(out, mk(ver, []Op{{K: "auto"}, {K: "auto", G: 1, Reuse: true, Target: 0}, {K: "check", Expired: e},
				{K: "p2", Target: 0, Commit: false}, {K: "p2", Target: 1, Commit: true}}, Fault{Kind: "START", Nth: 0}))
			out = append(out, mk(ver, []Op{{K: "auto"}, {K: "auto", G: 1}, {K: "check", Expired: e}, {K: "check", Expired: true},
				{K: "p2", Target: 1, Commit: false}, {K: "p2", Target: 0, Commit: true}, {K: "retire", Target: 0}}))
			out = append(out, mk(ver, []Op{{K: "auto", Db: true}, {K: "retry"}, {K: "retry"}, {K: "check", Expired: e},
				{K: "p2", Target: 1, Commit: true}, {K: "p2", Target: 0, Commit: false}}, Fault{Kind: "START", Nth: 0, Err: "badconn"}))
		}
	}
	return out
}

// phase two on a process that never saw phase one while the holder is still connected (both server
// families, commit and rollback), and rollback-only branches at XA END: enumerated
func enumAway() []Scenario {
	var out []Scenario
	x := []string{"10.0.0.7:8091:2612345678901234567", "10.0.0.9:8091:77"}
	bs := []int64{2612345678901234568, 2612345678901234569}
	mk := func(ver string, ops []Op, fs ...Fault) Scenario {
		return Scenario{Version: ver, Xids: x, Branches: bs, Refuse: []int{0, 0}, Stream: "clean", Ops: ops, Faults: fs}
	}
	for _, ver := range []string{"5.7.30", "8.0.28", "8.0.30"} {
		for _, c := range []bool{true, false} {
			out = append(out, mk(ver, []Op{{K: "auto"}, {K: "away", Target: 0}, {K: "p2", Target: 0, Commit: c}}))
			out = append(out, mk(ver, []Op{{K: "auto"}, {K: "auto", G: 1}, {K: "away", Target: 1}, {K: "p2", Target: 1, Commit: c},
				{K: "p2", Target: 0, Commit: !c}}))
		}
		rb := Fault{Kind: "END", Nth: 0, Err: "rbonly"}
		out = append(out, mk(ver, []Op{{K: "auto"}, {K: "p2", Target: 0, Commit: false}}, rb))
		out = append(out, mk(ver, []Op{{K: "auto"}, {K: "auto", G: 1, Reuse: true, Target: 0}, {K: "p2", Target: 1, Commit: true}}, rb))
		out = append(out, mk(ver, []Op{{K: "auto"}, {K: "auto", G: 1, Reuse: true, Target: 0}}, Fault{Kind: "STMT", Nth: 0}, rb))
		out = append(out, mk(ver, []Op{{K: "auto"}}, rb, Fault{Kind: "END", Nth: 1}))
		out = append(out, mk(ver, []Op{{K: "auto"}}, rb, Fault{Kind: "ROLLBACK", Nth: 0}))
		out = append(out, mk(ver, []Op{{K: "auto", Db: true}, {K: "retry"}, {K: "retry"}, {K: "p2", Target: 0, Commit: false}}, rb))
	}
	return out
}

func findingScenarios(r *hutil.Rng) []Scenario {
	// same histories as the committed replays of the findings, other identifiers: the driver requires
	// them to do exactly what the replays are recorded to do (oracle messages, command/result
	// sequence, outcomes)
	var out []Scenario
	x := genXid(r, false)
	out = append(out, Scenario{Version: "5.7.30", Xids: []string{x, genXid(r, false)}, Branches: []int64{int64(41 + r.Intn(1000)), 2042}, Refuse: []int{0, 0},
		Stream: "finding:xa.conn-reuse",
		Ops:    []Op{{K: "auto"}, {K: "p2", Target: 0, Commit: true}, {K: "reuse", G: 1, Target: 0}}})
	for _, commit := range []bool{true, false} {
		n := 1
		if commit {
			n = 2
		}
		out = append(out, Scenario{Version: "5.7.30", Xids: []string{x}, Branches: []int64{int64(51 + r.Intn(1000))}, Refuse: []int{0},
			Stream: "finding:xa.explicit-tx",
			Ops:    []Op{{K: "explicit", NStmts: n, Commit: commit}}})
	}
	return out
}

func identCase(xid []byte, b uint64) IdentCase {
	c := IdentCase{Xid: hex.EncodeToString(xid), Branch: b, BranchS: strconv.FormatUint(b, 10)}
	x := seatasql.XaIdBuild(string(xid), b)
	c.Str = hex.EncodeToString([]byte(x.String()))
	c.Gtrid = hex.EncodeToString(x.GetGlobalTransactionId())
	c.Bqual = hex.EncodeToString(x.GetBranchQualifier())
	y := seatasql.XaIdBuildWithByte(x.GetGlobalTransactionId(), x.GetBranchQualifier())
	c.DecXid = hex.EncodeToString([]byte(y.GetGlobalXid()))
	c.DecB = y.GetBranchId()
	// the identifier is a function of (xid, branch id) that tells branches apart
	for _, b2 := range []uint64{b + 1, b ^ 1, b / 10} {
		if b2 != b && seatasql.XaIdBuild(string(xid), b2).String() == x.String() {
			c.Oracle = fmt.Sprintf("branch ids %d and %d of one xid share the identifier", b, b2)
		}
	}
	if y.GetGlobalXid() != string(xid) || y.GetBranchId() != b {
		c.Oracle = "decode(encode(xid, branch)) differs from (xid, branch)"
	}
	if x.GetGlobalXid() != string(xid) || x.GetBranchId() != b {
		c.Oracle = "the built identifier does not carry (xid, branch)"
	}
	return c
}

func genIdent(r *hutil.Rng, n int) []IdentCase {
	var out []IdentCase
	fixed := []struct {
		x string
		b uint64
	}{{"", 0}, {"", 7}, {"x", 0}, {"a-1", 2}, {"a", 12}, {"a-", 1}, {"-", 0}, {"--", 18446744073709551615}, {"a-1-2", 3}, {"a-1", 23}}
	for _, f := range fixed {
		out = append(out, identCase([]byte(f.x), f.b))
	}
	for i := 0; i < n; i++ {
		var xid []byte
		switch r.Intn(5) {
		case 4:
			xid = []byte(longXid(r))
		case 0:
			xid = []byte(genXid(r, true))
		case 1:
			xid = r.Bytes(r.Intn(24))
		case 2:
			xid = []byte(fmt.Sprintf("%d-%d", r.Intn(100), r.Intn(100)))
		default:
			xid = []byte(genXid(r, false))
		}
		var b uint64
		switch r.Intn(4) {
		case 0:
			b = uint64(r.Intn(200))
		case 1:
			b = r.Next()
		case 2:
			b = ^uint64(0) - uint64(r.Intn(3))
		default:
			b = r.Next() % 1000000000000
		}
		out = append(out, identCase(xid, b))
	}
	return out
}

type Output struct {
	Seed     uint64      `json:"seed"`
	Results  []Result    `json:"results"`
	Ident    []IdentCase `json:"ident"`
	InitNote string      `json:"init_note"`
}

// Run: verifh xarun out=<file> seed=<n> n=<random clean scenarios> m=<malformed> ident=<cases> [replay=<file with scenarios>]
func Run(args map[string]string) {
	repo := hutil.ArgStr(args, "repo", os.Getenv("VERIF_REPO"))
	if repo == "" {
		repo = "/repo"
	}
	seed := hutil.ArgU64(args, "seed", 1)
	n := hutil.ArgInt(args, "n", 100)
	m := hutil.ArgInt(args, "m", 30)
	ni := hutil.ArgInt(args, "ident", 300)
	Init(repo)
	out := Output{Seed: seed}
	var scs []Scenario
	if p := hutil.ArgStr(args, "replay", ""); p != "" {
		b, err := os.ReadFile(p)
		if err == nil {
			err = json.Unmarshal(b, &scs)
		}
		if err != nil {
			fmt.Fprintln(os.Stderr, "replay:", err)
			os.Exit(2)
		}
		ni = 0
	} else {
		r := hutil.NewRng(seed)
		scs = append(scs, enumScenarios()...)
		scs = append(scs, enumReuse()...)
		scs = append(scs, enumPool()...)
		scs = append(scs, enumLongXid()...)
		scs = append(scs, enumCheck()...)
		scs = append(scs, enumAway()...)
		rc := r.Fork(1)
		for i := 0; i < n; i++ {
			scs = append(scs, genScenario(rc, "clean"))
		}
		rm := r.Fork(2)
		for i := 0; i < m; i++ {
			scs = append(scs, genScenario(rm, "malformed"))
		}
		scs = append(scs, findingScenarios(r.Fork(3))...)
		out.Ident = genIdent(r.Fork(4), ni)
	}
	for _, sc := range scs {
		out.Results = append(out.Results, runScenario(sc))
	}
	hutil.WriteJSON(args["out"], out)
}
