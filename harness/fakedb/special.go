package fakedb

import (
	"sort"
	"strings"
)

// Statements the TiDB-derived parser rejects although MySQL accepts them are
// recognised here, before the parser is called: SAVEPOINT x, ROLLBACK TO
// [SAVEPOINT] x, RELEASE SAVEPOINT x, XA START|BEGIN|END|PREPARE|COMMIT|
// ROLLBACK|RECOVER.

const (
	xaNone = iota
	xaActive
	xaIdle
	xaPrepared
)

func splitWords(s string) []string {
	var out []string
	cur := strings.Builder{}
	inq := byte(0)
	flush := func() {
		if cur.Len() > 0 {
			out = append(out, cur.String())
			cur.Reset()
		}
	}
	for i := 0; i < len(s); i++ {
		ch := s[i]
		switch {
		case inq != 0:
			cur.WriteByte(ch)
			if ch == inq {
				inq = 0
				flush()
			}
		case ch == '\'' || ch == '"' || ch == '`':
			flush()
			inq = ch
			cur.WriteByte(ch)
		case ch == ' ' || ch == '\t' || ch == '\n' || ch == '\r':
			flush()
		case ch == ',':
			flush()
			out = append(out, ",")
		default:
			cur.WriteByte(ch)
		}
	}
	flush()
	return out
}

func unquote(w string) (string, bool) {
	if len(w) >= 2 && (w[0] == '\'' || w[0] == '"') && w[len(w)-1] == w[0] {
		return w[1 : len(w)-1], true
	}
	return w, false
}

// parseXid reads 'gtrid'[,'bqual'[,formatID]] from words; returns the key.
func parseXid(ws []string) (xid string, rest []string, ok bool) {
	if len(ws) == 0 {
		return "", nil, false
	}
	g, q := unquote(ws[0])
	if !q {
		return "", nil, false
	}
	xid, rest = g, ws[1:]
	if len(rest) >= 2 && rest[0] == "," {
		b, q := unquote(rest[1])
		if !q {
			return "", nil, false
		}
		xid += "\x00" + b
		rest = rest[2:]
		if len(rest) >= 2 && rest[0] == "," {
			rest = rest[2:]
		}
	}
	return xid, rest, true
}

func xaStateName(st int) string {
	return [...]string{"NON-EXISTING", "ACTIVE", "IDLE", "PREPARED"}[st]
}

func rmfail(st int) error {
	return myErr(ErXaerRmfail, "XAER_RMFAIL: The command cannot be executed when global transaction is in the  %s state", xaStateName(st))
}

func (c *conn) xaCur() int {
	if c.xaAttached != "" {
		return xaPrepared
	}
	if c.tx != nil && c.tx.xid != "" {
		return c.tx.xaState
	}
	return xaNone
}

// runSpecial handles the statements above; handled=false passes the text on
// to the parser.
func (c *conn) runSpecial(sql string) (*result, bool, error) {
	s := c.srv
	text := strings.TrimSpace(sql)
	text = strings.TrimRight(text, "; \t\r\n")
	ws := splitWords(text)
	if len(ws) == 0 {
		return nil, false, nil
	}
	w0 := strings.ToLower(ws[0])
	switch {
	case w0 == "savepoint" && len(ws) == 2:
		if c.xaCur() == xaIdle || c.xaCur() == xaPrepared {
			return nil, true, rmfail(c.xaCur())
		}
		name := strings.ToLower(strings.Trim(ws[1], "`"))
		if c.tx == nil {
			return &result{}, true, nil // autocommit: the savepoint vanishes at once
		}
		kept := c.tx.savepoints[:0:0]
		for _, sp := range c.tx.savepoints {
			if sp.name != name {
				kept = append(kept, sp)
			}
		}
		c.tx.savepoints = append(kept, savepoint{name: name, overlay: cloneOverlay(c.tx.overlay), nlocks: len(c.tx.locks)})
		return &result{}, true, nil
	case w0 == "rollback" && len(ws) >= 3 && strings.EqualFold(ws[1], "to"):
		nameW := ws[2]
		if strings.EqualFold(ws[2], "savepoint") {
			if len(ws) != 4 {
				return nil, false, nil
			}
			nameW = ws[3]
		} else if len(ws) != 3 {
			return nil, false, nil
		}
		name := strings.ToLower(strings.Trim(nameW, "`"))
		if c.tx != nil {
			for i := len(c.tx.savepoints) - 1; i >= 0; i-- {
				if c.tx.savepoints[i].name == name {
					sp := c.tx.savepoints[i]
					c.tx.overlay = cloneOverlay(sp.overlay)
					s.releaseFrom(c.tx, sp.nlocks)
					c.tx.savepoints = c.tx.savepoints[:i+1]
					return &result{}, true, nil
				}
			}
		}
		return nil, true, myErr(ErSpDoesNotExist, "SAVEPOINT %s does not exist", nameW)
	case w0 == "release" && len(ws) == 3 && strings.EqualFold(ws[1], "savepoint"):
		name := strings.ToLower(strings.Trim(ws[2], "`"))
		if c.tx != nil {
			for i := len(c.tx.savepoints) - 1; i >= 0; i-- {
				if c.tx.savepoints[i].name == name {
					c.tx.savepoints = c.tx.savepoints[:i]
					return &result{}, true, nil
				}
			}
		}
		return nil, true, myErr(ErSpDoesNotExist, "SAVEPOINT %s does not exist", ws[2])
	case w0 == "xa" && len(ws) >= 2:
		r, err := c.runXA(ws[1:])
		return r, true, err
	}
	return nil, false, nil
}

func (s *Server) detachOnPrepare() bool {
	// MySQL >= 8.0.29: xa_detach_on_prepare=ON
	return versionAtLeast(s.version, 8, 0, 29)
}

func versionAtLeast(v string, a, b, c int) bool {
	nums := [3]int{}
	part := 0
	for i := 0; i < len(v) && part < 3; i++ {
		ch := v[i]
		switch {
		case ch >= '0' && ch <= '9':
			nums[part] = nums[part]*10 + int(ch-'0')
		case ch == '.':
			part++
		default:
			i = len(v)
		}
	}
	want := [3]int{a, b, c}
	for i := 0; i < 3; i++ {
		if nums[i] != want[i] {
			return nums[i] > want[i]
		}
	}
	return true
}

func (c *conn) runXA(ws []string) (*result, error) {
	s := c.srv
	verb := strings.ToLower(ws[0])
	cur := c.xaCur()
	switch verb {
	case "recover":
		vb := ColType{Base: "VARCHAR", Len: 128, Dec: -1}
		in := ColType{Base: "INT", Len: 11, Dec: -1}
		res := &result{isQuery: true, cols: []resCol{{name: "formatID", typ: in}, {name: "gtrid_length", typ: in}, {name: "bqual_length", typ: in}, {name: "data", typ: vb}}}
		var xids []string
		for x, t := range s.xa {
			if t.xaState == xaPrepared {
				xids = append(xids, x)
			}
		}
		sort.Strings(xids)
		for _, x := range xids {
			g, b := x, ""
			if i := strings.IndexByte(x, 0); i >= 0 {
				g, b = x[:i], x[i+1:]
			}
			res.rows = append(res.rows, []Value{IntV(1), IntV(int64(len(g))), IntV(int64(len(b))), StrV(g + b)})
		}
		return res, nil
	case "start", "begin":
		xid, rest, ok := parseXid(ws[1:])
		if !ok {
			return nil, myErr(ErParse, "You have an error in your SQL syntax near XA")
		}
		if len(rest) == 1 && (strings.EqualFold(rest[0], "join") || strings.EqualFold(rest[0], "resume")) {
			return nil, myErr(ErXaerInval, "XAER_INVAL: Invalid arguments (or unsupported command)")
		}
		if len(rest) != 0 {
			return nil, myErr(ErParse, "You have an error in your SQL syntax near XA")
		}
		if cur != xaNone {
			return nil, rmfail(cur)
		}
		if c.tx != nil {
			return nil, myErr(ErXaerOutside, "XAER_OUTSIDE: Some work is done outside global transaction")
		}
		if _, dup := s.xa[xid]; dup {
			return nil, myErr(ErXaerDupid, "XAER_DUPID: The XID already exists")
		}
		c.tx = newTx()
		c.tx.xid, c.tx.xaState = xid, xaActive
		s.xa[xid] = c.tx
		return &result{}, nil
	case "end":
		xid, rest, ok := parseXid(ws[1:])
		if !ok {
			return nil, myErr(ErParse, "You have an error in your SQL syntax near XA")
		}
		if len(rest) > 0 && !strings.EqualFold(rest[0], "suspend") {
			return nil, myErr(ErParse, "You have an error in your SQL syntax near XA")
		}
		if cur != xaActive {
			if cur == xaNone {
				return nil, myErr(ErXaerNota, "XAER_NOTA: Unknown XID")
			}
			return nil, rmfail(cur)
		}
		if c.tx.xid != xid {
			return nil, myErr(ErXaerNota, "XAER_NOTA: Unknown XID")
		}
		c.tx.xaState = xaIdle
		return &result{}, nil
	case "prepare":
		xid, rest, ok := parseXid(ws[1:])
		if !ok || len(rest) != 0 {
			return nil, myErr(ErParse, "You have an error in your SQL syntax near XA")
		}
		if cur != xaIdle {
			if cur == xaNone {
				return nil, myErr(ErXaerNota, "XAER_NOTA: Unknown XID")
			}
			return nil, rmfail(cur)
		}
		if c.tx.xid != xid {
			return nil, myErr(ErXaerNota, "XAER_NOTA: Unknown XID")
		}
		c.tx.xaState = xaPrepared
		c.tx.savepoints = nil
		if !s.detachOnPrepare() {
			c.xaAttached = xid
		}
		c.tx = nil
		return &result{}, nil
	case "commit", "rollback":
		xid, rest, ok := parseXid(ws[1:])
		if !ok {
			return nil, myErr(ErParse, "You have an error in your SQL syntax near XA")
		}
		onePhase := false
		if verb == "commit" && len(rest) == 2 && strings.EqualFold(rest[0], "one") && strings.EqualFold(rest[1], "phase") {
			onePhase = true
		} else if len(rest) != 0 {
			return nil, myErr(ErParse, "You have an error in your SQL syntax near XA")
		}
		// own branch, not yet prepared
		if c.tx != nil && c.tx.xid != "" {
			if c.tx.xid != xid {
				return nil, myErr(ErXaerNota, "XAER_NOTA: Unknown XID")
			}
			if c.tx.xaState != xaIdle {
				return nil, rmfail(c.tx.xaState)
			}
			if verb == "commit" {
				if !onePhase {
					return nil, rmfail(xaIdle)
				}
				s.commitTx(c.tx)
			} else {
				s.rollbackTx(c.tx)
			}
			delete(s.xa, xid)
			c.tx = nil
			return &result{}, nil
		}
		if c.tx != nil {
			return nil, myErr(ErXaerOutside, "XAER_OUTSIDE: Some work is done outside global transaction")
		}
		if c.xaAttached != "" && c.xaAttached != xid {
			return nil, rmfail(xaPrepared)
		}
		t, found := s.xa[xid]
		if !found || t.xaState != xaPrepared {
			return nil, myErr(ErXaerNota, "XAER_NOTA: Unknown XID")
		}
		if c.xaAttached != xid {
			// prepared by another session: only reachable when detached
			for _, oc := range s.conns {
				if oc != c && !oc.closed && oc.xaAttached == xid {
					return nil, myErr(ErXaerNota, "XAER_NOTA: Unknown XID")
				}
			}
		}
		if onePhase {
			return nil, rmfail(xaPrepared)
		}
		if verb == "commit" {
			s.commitTx(t)
		} else {
			s.rollbackTx(t)
		}
		delete(s.xa, xid)
		c.xaAttached = ""
		return &result{}, nil
	}
	return nil, myErr(ErParse, "You have an error in your SQL syntax near XA")
}
