package fakedb

import (
	"sort"
	"strings"
	"time"

	"github.com/arana-db/parser"
	"github.com/arana-db/parser/ast"
	"github.com/arana-db/parser/format"
	"github.com/arana-db/parser/mysql"
	"github.com/arana-db/parser/opcode"
	_ "github.com/arana-db/parser/test_driver"
)

func timeDuration(n int64) time.Duration { return time.Duration(n) }

type resCol struct {
	name     string
	typ      ColType
	nullable bool
}

// result of one statement.
type result struct {
	isQuery  bool
	cols     []resCol
	rows     [][]Value
	affected int64
	lastID   int64
	// fault "breakrows": Next fails with breakErr once breakAfter rows were delivered
	breakSet   bool
	breakAfter int
	breakErr   error
}

// runSQL executes a (possibly multi-statement) string; s.mu is held.
func (c *conn) runSQL(sql string, args []Value) ([]*result, error) {
	if r, handled, err := c.runSpecial(sql); handled {
		if err != nil {
			return nil, err
		}
		return []*result{r}, nil
	}
	stmts, _, err := parser.New().Parse(sql, "", "")
	if err != nil {
		return nil, myErr(ErParse, "You have an error in your SQL syntax; %v", err)
	}
	if len(stmts) == 0 {
		return nil, myErr(1065, "Query was empty")
	}
	if len(stmts) > 1 && !c.cfg.MultiStatements {
		return nil, myErr(ErParse, "You have an error in your SQL syntax; multiple statements need multiStatements=true")
	}
	var out []*result
	for _, st := range stmts {
		r, err := c.runStmt(st, args)
		if err != nil {
			return out, err
		}
		out = append(out, r)
	}
	return out, nil
}

func (c *conn) runStmt(st ast.StmtNode, args []Value) (*result, error) {
	s := c.srv
	if c.xaAttached != "" {
		return nil, myErr(ErXaerRmfail, "XAER_RMFAIL: The command cannot be executed when global transaction is in the  PREPARED state")
	}
	if c.tx != nil && c.tx.xid != "" && c.tx.xaState == xaIdle {
		return nil, myErr(ErXaerRmfail, "XAER_RMFAIL: The command cannot be executed when global transaction is in the  IDLE state")
	}
	inXA := c.tx != nil && c.tx.xid != ""
	if c.tx != nil && c.tx.readOnly {
		switch st.(type) {
		case *ast.InsertStmt, *ast.UpdateStmt, *ast.DeleteStmt, *ast.CreateTableStmt, *ast.DropTableStmt, *ast.TruncateTableStmt:
			return nil, myErr(1792, "Cannot execute statement in a READ ONLY transaction.")
		}
	}
	switch x := st.(type) {
	case *ast.SelectStmt:
		return c.doSelect(x, args)
	case *ast.InsertStmt:
		return c.doInsert(x, args)
	case *ast.UpdateStmt:
		return c.doUpdate(x, args)
	case *ast.DeleteStmt:
		return c.doDelete(x, args)
	case *ast.CreateTableStmt:
		if inXA {
			return nil, myErr(ErXaerRmfail, "XAER_RMFAIL: The command cannot be executed when global transaction is in the  ACTIVE state")
		}
		c.implicitCommit()
		return c.doCreateTable(x)
	case *ast.DropTableStmt:
		if inXA {
			return nil, myErr(ErXaerRmfail, "XAER_RMFAIL: The command cannot be executed when global transaction is in the  ACTIVE state")
		}
		c.implicitCommit()
		for _, tn := range x.Tables {
			if _, ok := s.tables[s.tblKey(tn.Schema.O, tn.Name.O)]; !ok {
				if x.IfExists {
					continue
				}
				return nil, myErr(ErBadTable, "Unknown table '%s.%s'", s.Schema, tn.Name.O)
			}
			delete(s.tables, s.tblKey(tn.Schema.O, tn.Name.O))
		}
		return &result{}, nil
	case *ast.TruncateTableStmt:
		if inXA {
			return nil, myErr(ErXaerRmfail, "XAER_RMFAIL: The command cannot be executed when global transaction is in the  ACTIVE state")
		}
		c.implicitCommit()
		t, err := c.table(x.Table)
		if err != nil {
			return nil, err
		}
		t.rows, t.autoInc = nil, 1
		return &result{}, nil
	case *ast.BeginStmt:
		if inXA {
			return nil, myErr(ErXaerRmfail, "XAER_RMFAIL: The command cannot be executed when global transaction is in the  ACTIVE state")
		}
		c.implicitCommit()
		c.tx = newTx()
		return &result{}, nil
	case *ast.CommitStmt:
		if inXA {
			return nil, myErr(ErXaerRmfail, "XAER_RMFAIL: The command cannot be executed when global transaction is in the  ACTIVE state")
		}
		c.implicitCommit()
		return &result{}, nil
	case *ast.RollbackStmt:
		if inXA {
			return nil, myErr(ErXaerRmfail, "XAER_RMFAIL: The command cannot be executed when global transaction is in the  ACTIVE state")
		}
		if c.tx != nil {
			s.rollbackTx(c.tx)
			c.tx = nil
		}
		return &result{}, nil
	case *ast.SetStmt:
		for _, v := range x.Variables {
			if strings.EqualFold(v.Name, "autocommit") {
				e := &env{c: c, srv: s, args: args}
				val, err := e.eval(v.Value)
				if err != nil {
					return nil, err
				}
				if truth(val) == 1 {
					c.implicitCommit()
				} else if c.tx == nil {
					c.tx = newTx()
					c.autocommitOff = true
				}
			}
		}
		return &result{}, nil
	case *ast.UseStmt:
		return &result{}, nil
	case *ast.ShowStmt:
		return c.doShow(x)
	}
	return nil, unsupported("statement %T", st)
}

func (c *conn) implicitCommit() {
	if c.tx != nil && c.tx.xid == "" {
		c.srv.commitTx(c.tx)
		c.tx = nil
	}
}

// stmtTx runs f inside the connection's transaction, or inside a statement-
// long one in autocommit mode; a failing statement leaves no effect.
func (c *conn) stmtTx(f func(tx *txState) error) error {
	s := c.srv
	auto := c.tx == nil
	tx := c.tx
	if auto {
		tx = newTx()
	}
	snap := cloneOverlay(tx.overlay)
	if err := f(tx); err != nil {
		tx.overlay = snap
		if auto {
			s.releaseFrom(tx, 0)
		}
		return err
	}
	if auto {
		s.commitTx(tx)
	}
	return nil
}

func (c *conn) table(tn *ast.TableName) (*Table, error) {
	s := c.srv
	if tn.Schema.L == "information_schema" {
		return nil, unsupported("information_schema.%s outside SELECT", tn.Name.O)
	}
	t := s.tables[s.tblKey(tn.Schema.O, tn.Name.O)]
	if t == nil {
		schema := s.Schema
		if tn.Schema.O != "" {
			schema = tn.Schema.O
		}
		return nil, myErr(ErNoSuchTable, "Table '%s.%s' doesn't exist", schema, tn.Name.O)
	}
	return t, nil
}

// singleTable extracts the one table of a FROM / table-refs clause.
func (c *conn) singleTable(refs *ast.TableRefsClause) (*ast.TableName, string, error) {
	if refs == nil || refs.TableRefs == nil {
		return nil, "", nil
	}
	j := refs.TableRefs
	if j.Right != nil {
		return nil, "", unsupported("joins")
	}
	src, ok := j.Left.(*ast.TableSource)
	if !ok {
		return nil, "", unsupported("table reference %T", j.Left)
	}
	tn, ok := src.Source.(*ast.TableName)
	if !ok {
		return nil, "", unsupported("derived table")
	}
	return tn, src.AsName.L, nil
}

func restore(n ast.Node) string {
	var sb strings.Builder
	_ = n.Restore(format.NewRestoreCtx(format.DefaultRestoreFlags, &sb))
	return sb.String()
}

// ---------------------------------------------------------------- SELECT

func kindType(v Value) ColType {
	switch v.K {
	case KInt:
		return ColType{Base: "BIGINT", Len: -1, Dec: -1}
	case KUint:
		return ColType{Base: "BIGINT", Unsigned: true, Len: -1, Dec: -1}
	case KFloat:
		return ColType{Base: "DOUBLE", Len: -1, Dec: -1}
	case KDec:
		return ColType{Base: "DECIMAL", Len: 65, Dec: decScale(v.S)}
	case KBytes:
		return ColType{Base: "VARBINARY", Len: -1, Dec: -1}
	case KTime:
		return ColType{Base: "DATETIME", Len: -1, Dec: -1}
	case KNull:
		return ColType{Base: "NULL", Len: -1, Dec: -1}
	}
	return ColType{Base: "VARCHAR", Len: -1, Dec: -1}
}

func (c *conn) doSelect(x *ast.SelectStmt, args []Value) (*result, error) {
	s := c.srv
	if x.Kind != ast.SelectStmtKindSelect || x.GroupBy != nil || x.Having != nil || x.Distinct || x.With != nil || len(x.WindowSpecs) > 0 {
		return nil, unsupported("SELECT form (GROUP BY/HAVING/DISTINCT/WITH/VALUES/TABLE)")
	}
	if x.SelectIntoOpt != nil {
		return nil, unsupported("SELECT ... INTO")
	}
	tn, alias, err := c.singleTable(x.From)
	if err != nil {
		return nil, err
	}
	e := &env{c: c, srv: s, args: args, alias: alias}
	res := &result{isQuery: true}
	if tn == nil {
		row := []Value{}
		for _, f := range x.Fields.Fields {
			if f.WildCard != nil {
				return nil, myErr(1096, "No tables used")
			}
			v, err := e.eval(f.Expr)
			if err != nil {
				return nil, err
			}
			row = append(row, v)
			res.cols = append(res.cols, resCol{name: fieldName(f), typ: kindType(v), nullable: v.IsNull()})
		}
		res.rows = [][]Value{row}
		return res, nil
	}
	var t *Table
	if tn.Schema.L == "information_schema" {
		t = s.infoSchema(tn.Name.L)
		if t == nil {
			return nil, unsupported("information_schema.%s", tn.Name.O)
		}
		e.ci = true
	} else if t, err = c.table(tn); err != nil {
		return nil, err
	}
	e.t = t

	// field list
	type fld struct {
		col  int // >=0: table column
		expr ast.ExprNode
		name string
	}
	var flds []fld
	countStar := false
	for _, f := range x.Fields.Fields {
		if f.WildCard != nil {
			for i, cdef := range t.Cols {
				flds = append(flds, fld{col: i, name: cdef.Name})
			}
			continue
		}
		if ag, ok := f.Expr.(*ast.AggregateFuncExpr); ok {
			if strings.EqualFold(ag.F, "count") && len(x.Fields.Fields) == 1 && !ag.Distinct {
				countStar = true
				flds = append(flds, fld{col: -1, expr: f.Expr, name: fieldName(f)})
				continue
			}
			return nil, unsupported("aggregate %s", ag.F)
		}
		if cn, ok := f.Expr.(*ast.ColumnNameExpr); ok {
			e.row = nil
			if _, err := e.column(cn.Name); err != nil {
				return nil, err
			}
			i, _ := t.col(cn.Name.Name.L)
			flds = append(flds, fld{col: i, name: fieldName(f)})
			continue
		}
		flds = append(flds, fld{col: -1, expr: f.Expr, name: fieldName(f)})
	}

	for _, f := range flds {
		if f.col < 0 {
			if err := e.resolveColumns(f.expr); err != nil {
				return nil, err
			}
		}
	}
	if err := e.resolveColumns(append([]ast.ExprNode{x.Where}, byItemExprs(x.OrderBy)...)...); err != nil {
		return nil, err
	}
	locking := x.LockInfo != nil && x.LockInfo.LockType != ast.SelectLockNone
	run := func(tx *txState) error {
		var rows []*row
		if t.virtual {
			rows = t.rows
		} else {
			rows = s.view(tx, t)
		}
		var sel []*row
		for _, r := range rows {
			e.row = r.vals
			if x.Where != nil {
				v, err := e.eval(x.Where)
				if err != nil {
					return err
				}
				if truth(v) != 1 {
					continue
				}
			}
			sel = append(sel, r)
		}
		if x.OrderBy != nil {
			if sel, err = e.orderRows(sel, x.OrderBy.Items); err != nil {
				return err
			}
		}
		if sel, err = e.limitRows(sel, x.Limit); err != nil {
			return err
		}
		if locking && !t.virtual {
			for _, r := range sel {
				if err := s.acquire(tx, lockName(t, r.key)); err != nil {
					return err
				}
			}
		}
		if countStar {
			n := int64(0)
			ag := flds[0].expr.(*ast.AggregateFuncExpr)
			for _, r := range sel {
				e.row = r.vals
				if len(ag.Args) == 1 {
					if _, isCol := ag.Args[0].(*ast.ColumnNameExpr); isCol {
						v, err := e.eval(ag.Args[0])
						if err != nil {
							return err
						}
						if v.IsNull() {
							continue
						}
					}
				}
				n++
			}
			res.cols = []resCol{{name: flds[0].name, typ: ColType{Base: "BIGINT", Len: 21, Dec: -1}}}
			res.rows = [][]Value{{IntV(n)}}
			return nil
		}
		res.rows = make([][]Value, 0, len(sel))
		exprTypes := make([]ColType, len(flds))
		exprNull := make([]bool, len(flds))
		for _, r := range sel {
			e.row = r.vals
			out := make([]Value, len(flds))
			for i, f := range flds {
				if f.col >= 0 {
					out[i] = r.vals[f.col]
					continue
				}
				v, err := e.eval(f.expr)
				if err != nil {
					return err
				}
				out[i] = v
				if v.IsNull() {
					exprNull[i] = true
				} else if exprTypes[i].Base == "" {
					exprTypes[i] = kindType(v)
				}
			}
			res.rows = append(res.rows, out)
		}
		for i, f := range flds {
			if f.col >= 0 {
				cd := t.Cols[f.col]
				res.cols = append(res.cols, resCol{name: f.name, typ: cd.Type, nullable: !cd.NotNull})
				continue
			}
			ty := exprTypes[i]
			if ty.Base == "" {
				ty = ColType{Base: "VARCHAR", Len: -1, Dec: -1}
				if len(sel) == 0 {
					e.row = nil
					if v, err := e.eval(f.expr); err == nil && !v.IsNull() {
						ty = kindType(v)
					}
				}
			}
			res.cols = append(res.cols, resCol{name: f.name, typ: ty, nullable: exprNull[i] || len(sel) == 0})
		}
		return nil
	}
	if locking && !t.virtual {
		if err := c.stmtTx(run); err != nil {
			return nil, err
		}
		return res, nil
	}
	if err := run(c.tx); err != nil {
		return nil, err
	}
	return res, nil
}

func fieldName(f *ast.SelectField) string {
	if f.AsName.O != "" {
		return f.AsName.O
	}
	if cn, ok := f.Expr.(*ast.ColumnNameExpr); ok {
		return cn.Name.Name.O
	}
	if t := strings.TrimSpace(f.Text()); t != "" {
		return t
	}
	return restore(f.Expr)
}

func (e *env) orderRows(rows []*row, items []*ast.ByItem) ([]*row, error) {
	type keyed struct {
		r *row
		k []Value
	}
	ks := make([]keyed, len(rows))
	for i, r := range rows {
		e.row = r.vals
		k := make([]Value, len(items))
		for j, it := range items {
			v, err := e.eval(it.Expr)
			if err != nil {
				return nil, err
			}
			k[j] = v
		}
		ks[i] = keyed{r, k}
	}
	sort.SliceStable(ks, func(a, b int) bool {
		for j, it := range items {
			c := orderCmp(ks[a].k[j], ks[b].k[j])
			if it.Desc {
				c = -c
			}
			if c != 0 {
				return c < 0
			}
		}
		return false
	})
	out := make([]*row, len(rows))
	for i := range ks {
		out[i] = ks[i].r
	}
	return out, nil
}

func (e *env) limitRows(rows []*row, l *ast.Limit) ([]*row, error) {
	if l == nil {
		return rows, nil
	}
	num := func(n ast.ExprNode) (int, error) {
		if n == nil {
			return 0, nil
		}
		saved := e.row
		e.row = nil
		v, err := e.eval(n)
		e.row = saved
		if err != nil {
			return 0, err
		}
		if v.isString() {
			v = strAsNumber(v.S)
		}
		if v.K != KInt || v.I < 0 {
			return 0, myErr(ErParse, "You have an error in your SQL syntax; LIMIT needs a non-negative integer")
		}
		if v.I > 1<<30 {
			return 1 << 30, nil
		}
		return int(v.I), nil
	}
	off, err := num(l.Offset)
	if err != nil {
		return nil, err
	}
	cnt, err := num(l.Count)
	if err != nil {
		return nil, err
	}
	if off > len(rows) {
		off = len(rows)
	}
	rows = rows[off:]
	if l.Count != nil && cnt < len(rows) {
		rows = rows[:cnt]
	}
	return rows, nil
}

// ---------------------------------------------------------------- SHOW

func (c *conn) doShow(x *ast.ShowStmt) (*result, error) {
	s := c.srv
	switch x.Tp {
	case ast.ShowVariables:
		vars := map[string]string{"auto_increment_increment": itoa(int(s.autoStep())), "auto_increment_offset": "1", "autocommit": "ON",
			"version": s.version, "tx_isolation": "READ-COMMITTED", "transaction_isolation": "READ-COMMITTED", "lower_case_table_names": "1",
			"max_allowed_packet": "4194304", "sql_mode": "STRICT_TRANS_TABLES"}
		names := make([]string, 0, len(vars))
		for n := range vars {
			names = append(names, n)
		}
		sort.Strings(names)
		vc := ColType{Base: "VARCHAR", Len: 1024, Dec: -1}
		res := &result{isQuery: true, cols: []resCol{{name: "Variable_name", typ: vc}, {name: "Value", typ: vc, nullable: true}}}
		for _, n := range names {
			if x.Pattern != nil {
				e := &env{c: c, srv: s}
				p, err := e.eval(x.Pattern.Pattern)
				if err != nil {
					return nil, err
				}
				if !likeMatch(n, strings.ToLower(p.Text()), x.Pattern.Escape) {
					continue
				}
			}
			res.rows = append(res.rows, []Value{StrV(n), StrV(vars[n])})
		}
		return res, nil
	case ast.ShowTables:
		names := make([]string, 0, len(s.tables))
		for _, t := range s.tables {
			names = append(names, t.Name)
		}
		sort.Strings(names)
		res := &result{isQuery: true, cols: []resCol{{name: "Tables_in_" + s.Schema, typ: ColType{Base: "VARCHAR", Len: 64, Dec: -1}}}}
		for _, n := range names {
			res.rows = append(res.rows, []Value{StrV(n)})
		}
		return res, nil
	}
	return nil, unsupported("SHOW type %d", x.Tp)
}

// ---------------------------------------------------------------- INSERT

func (c *conn) doInsert(x *ast.InsertStmt, args []Value) (*result, error) {
	s := c.srv
	if x.Select != nil {
		return nil, unsupported("INSERT ... SELECT")
	}
	tn, _, err := c.singleTable(x.Table)
	if err != nil {
		return nil, err
	}
	if tn == nil {
		return nil, unsupported("INSERT target")
	}
	t, err := c.table(tn)
	if err != nil {
		return nil, err
	}
	// column list
	var cols []int
	lists := x.Lists
	if len(x.Setlist) > 0 {
		row := make([]ast.ExprNode, 0, len(x.Setlist))
		for _, a := range x.Setlist {
			i, ok := t.col(a.Column.Name.L)
			if !ok {
				return nil, myErr(ErBadField, "Unknown column '%s' in 'field list'", a.Column.Name.O)
			}
			cols = append(cols, i)
			row = append(row, a.Expr)
		}
		lists = [][]ast.ExprNode{row}
	} else if len(x.Columns) > 0 {
		seen := map[int]bool{}
		for _, cn := range x.Columns {
			i, ok := t.col(cn.Name.L)
			if !ok {
				return nil, myErr(ErBadField, "Unknown column '%s' in 'field list'", cn.Name.O)
			}
			if seen[i] {
				return nil, myErr(ErFieldTwice, "Column '%s' specified twice", cn.Name.O)
			}
			seen[i] = true
			cols = append(cols, i)
		}
	} else {
		for i := range t.Cols {
			cols = append(cols, i)
		}
	}
	res := &result{}
	e := &env{c: c, srv: s, args: args, t: t}
	for rn, list := range lists {
		if len(list) != len(cols) && !(len(list) == 0 && len(x.Columns) == 0) {
			return nil, myErr(ErWrongValueCount, "Column count doesn't match value count at row %d", rn+1)
		}
		if err := e.resolveColumns(list...); err != nil {
			return nil, err
		}
	}
	for _, a := range x.OnDuplicate {
		if _, ok := t.col(a.Column.Name.L); !ok {
			return nil, myErr(ErBadField, "Unknown column '%s' in 'field list'", a.Column.Name.O)
		}
		if err := e.resolveColumns(a.Expr); err != nil {
			return nil, err
		}
	}
	err = c.stmtTx(func(tx *txState) error {
		for rn, list := range lists {
			if len(list) != len(cols) {
				if len(list) == 0 && len(x.Columns) == 0 {
					list = nil // INSERT INTO t VALUES ()
				} else {
					return myErr(ErWrongValueCount, "Column count doesn't match value count at row %d", rn+1)
				}
			}
			vals := make([]Value, len(t.Cols))
			given := make([]bool, len(t.Cols))
			e.row = nil
			for i, ex := range list {
				ci := cols[i]
				var v Value
				if d, ok := ex.(*ast.DefaultExpr); ok && d.Name == nil {
					if v, err = e.defaultOf(t.Cols[ci]); err != nil {
						return err
					}
				} else if v, err = e.eval(ex); err != nil {
					return err
				}
				vals[ci], given[ci] = v, true
			}
			for i, cd := range t.Cols {
				if !given[i] {
					if vals[i], err = e.defaultOf(cd); err != nil {
						return err
					}
				}
			}
			// auto-increment
			for i, cd := range t.Cols {
				if !cd.AutoInc {
					continue
				}
				if vals[i].IsNull() || (vals[i].K == KInt && vals[i].I == 0) {
					gen := c.srv.nextAuto(t.autoInc)
					vals[i] = IntV(gen)
					if res.lastID == 0 {
						res.lastID = gen
					}
					t.autoInc = gen + 1
				}
			}
			for i, cd := range t.Cols {
				if vals[i], err = storeValue(cd, vals[i], rn+1); err != nil {
					return err
				}
				if cd.AutoInc && vals[i].K == KInt && vals[i].I >= t.autoInc {
					t.autoInc = vals[i].I + 1
				}
			}
			n, err := c.insertRow(tx, t, vals, x, e)
			if err != nil {
				return err
			}
			res.affected += n
		}
		return nil
	})
	if err != nil {
		return nil, err
	}
	if res.lastID != 0 {
		c.lastInsertID = res.lastID
	}
	return res, nil
}

// conflicts returns the visible rows that collide with vals on the primary
// key or a unique index (excluding the row with key `self`).
func (c *conn) conflicts(tx *txState, t *Table, vals []Value, self string) ([]*row, *Index) {
	var out []*row
	var first *Index
	seen := map[string]bool{}
	for _, ix := range t.Indexes {
		if !ix.Unique {
			continue
		}
		hasNull := false
		for _, ci := range ix.Cols {
			if vals[ci].IsNull() {
				hasNull = true
			}
		}
		if hasNull {
			continue
		}
		for _, r := range c.srv.view(tx, t) {
			if r.key == self || seen[r.key] {
				continue
			}
			same := true
			for _, ci := range ix.Cols {
				if cmp, ok := Compare(r.vals[ci], vals[ci]); !ok || cmp != 0 {
					same = false
					break
				}
			}
			if same {
				out = append(out, r)
				seen[r.key] = true
				if first == nil {
					first = ix
				}
			}
		}
	}
	return out, first
}

func dupErr(t *Table, ix *Index, vals []Value) error {
	parts := make([]string, len(ix.Cols))
	for i, ci := range ix.Cols {
		parts[i] = vals[ci].Text()
	}
	return myErr(ErDupEntry, "Duplicate entry '%s' for key '%s'", strings.Join(parts, "-"), ix.Name)
}

// lockRowKeys takes the row lock and the unique-value locks of a row image.
func (c *conn) lockRowKeys(tx *txState, t *Table, kv []Value, vals []Value) error {
	s := c.srv
	if err := s.acquire(tx, lockName(t, keyString(kv))); err != nil {
		return err
	}
	for _, ix := range t.Indexes {
		if !ix.Unique || ix.Primary {
			continue
		}
		uv := make([]Value, len(ix.Cols))
		null := false
		for i, ci := range ix.Cols {
			uv[i] = vals[ci]
			null = null || vals[ci].IsNull()
		}
		if null {
			continue
		}
		if err := s.acquire(tx, uniqLockName(t, ix, uv)); err != nil {
			return err
		}
	}
	return nil
}

func (c *conn) insertRow(tx *txState, t *Table, vals []Value, x *ast.InsertStmt, e *env) (int64, error) {
	rowid := int64(0)
	if t.pk == nil {
		t.nextRowID++
		rowid = t.nextRowID
	}
	kv := t.keyOf(vals, rowid)
	if err := c.lockRowKeys(tx, t, kv, vals); err != nil {
		return 0, err
	}
	confl, ix := c.conflicts(tx, t, vals, "")
	if len(confl) == 0 {
		tx.put(t, kv, vals)
		return 1, nil
	}
	switch {
	case len(x.OnDuplicate) > 0:
		old := confl[0]
		if err := c.srv.acquire(tx, lockName(t, old.key)); err != nil {
			return 0, err
		}
		e.insert = vals
		defer func() { e.insert = nil }()
		changed, err := c.updateRow(tx, t, old, x.OnDuplicate, e, 1)
		if err != nil {
			return 0, err
		}
		if changed {
			return 2, nil
		}
		return 0, nil
	case x.IsReplace:
		n := int64(1)
		for _, r := range confl {
			if err := c.srv.acquire(tx, lockName(t, r.key)); err != nil {
				return 0, err
			}
			tx.del(t, r.kv)
			n++
		}
		tx.put(t, kv, vals)
		return n, nil
	case x.IgnoreErr:
		return 0, nil
	}
	return 0, dupErr(t, ix, vals)
}

// updateRow applies assignments to an existing row; reports whether it changed.
func (c *conn) updateRow(tx *txState, t *Table, old *row, list []*ast.Assignment, e *env, rowNo int) (bool, error) {
	vals := append([]Value(nil), old.vals...)
	set := make([]bool, len(vals))
	for _, a := range list {
		i, ok := t.col(a.Column.Name.L)
		if !ok {
			return false, myErr(ErBadField, "Unknown column '%s' in 'field list'", a.Column.Name.O)
		}
		e.row = vals
		var v Value
		var err error
		if d, isDef := a.Expr.(*ast.DefaultExpr); isDef && d.Name == nil {
			v, err = e.defaultOf(t.Cols[i])
		} else {
			v, err = e.eval(a.Expr)
		}
		if err != nil {
			return false, err
		}
		if v, err = storeValue(t.Cols[i], v, rowNo); err != nil {
			return false, err
		}
		vals[i], set[i] = v, true
	}
	changed := false
	for i := range vals {
		if !vals[i].Equal(old.vals[i]) {
			changed = true
		}
	}
	if !changed {
		return false, nil
	}
	for i, cd := range t.Cols {
		if cd.OnUpdateNow && !set[i] {
			fsp := cd.Type.Dec
			if fsp < 0 {
				fsp = 0
			}
			vals[i] = e.stmtNow(fsp)
		}
		if cd.AutoInc && vals[i].K == KInt && vals[i].I >= t.autoInc {
			t.autoInc = vals[i].I + 1
		}
	}
	kv := old.kv
	if t.pk != nil {
		kv = t.keyOf(vals, 0)
	}
	if err := c.lockRowKeys(tx, t, kv, vals); err != nil {
		return false, err
	}
	if confl, ix := c.conflicts(tx, t, vals, old.key); len(confl) > 0 {
		return false, dupErr(t, ix, vals)
	}
	if keyString(kv) != old.key {
		tx.del(t, old.kv)
	}
	tx.put(t, kv, vals)
	return true, nil
}

// ---------------------------------------------------------------- UPDATE / DELETE

func (c *conn) selectForWrite(tx *txState, t *Table, e *env, where ast.ExprNode, order *ast.OrderByClause, limit *ast.Limit) ([]*row, error) {
	if err := e.resolveColumns(append([]ast.ExprNode{where}, byItemExprs(order)...)...); err != nil {
		return nil, err
	}
	var sel []*row
	for _, r := range c.srv.view(tx, t) {
		e.row = r.vals
		if where != nil {
			v, err := e.eval(where)
			if err != nil {
				return nil, err
			}
			if truth(v) != 1 {
				continue
			}
		}
		sel = append(sel, r)
	}
	var err error
	if order != nil {
		if sel, err = e.orderRows(sel, order.Items); err != nil {
			return nil, err
		}
	}
	if sel, err = e.limitRows(sel, limit); err != nil {
		return nil, err
	}
	for _, r := range sel {
		if err := c.srv.acquire(tx, lockName(t, r.key)); err != nil {
			return nil, err
		}
	}
	return sel, nil
}

func (c *conn) doUpdate(x *ast.UpdateStmt, args []Value) (*result, error) {
	if x.MultipleTable {
		return nil, unsupported("multi-table UPDATE")
	}
	tn, alias, err := c.singleTable(x.TableRefs)
	if err != nil {
		return nil, err
	}
	t, err := c.table(tn)
	if err != nil {
		return nil, err
	}
	e := &env{c: c, srv: c.srv, args: args, t: t, alias: alias}
	for _, a := range x.List {
		if _, ok := t.col(a.Column.Name.L); !ok {
			return nil, myErr(ErBadField, "Unknown column '%s' in 'field list'", a.Column.Name.O)
		}
	}
	for _, a := range x.List {
		if err := e.resolveColumns(a.Expr); err != nil {
			return nil, err
		}
	}
	res := &result{}
	err = c.stmtTx(func(tx *txState) error {
		sel, err := c.selectForWrite(tx, t, e, x.Where, x.Order, x.Limit)
		if err != nil {
			return err
		}
		for i, r := range sel {
			ch, err := c.updateRow(tx, t, r, x.List, e, i+1)
			if err != nil {
				return err
			}
			if ch {
				res.affected++
			}
		}
		return nil
	})
	if err != nil {
		return nil, err
	}
	return res, nil
}

func (c *conn) doDelete(x *ast.DeleteStmt, args []Value) (*result, error) {
	if x.IsMultiTable {
		return nil, unsupported("multi-table DELETE")
	}
	tn, alias, err := c.singleTable(x.TableRefs)
	if err != nil {
		return nil, err
	}
	t, err := c.table(tn)
	if err != nil {
		return nil, err
	}
	e := &env{c: c, srv: c.srv, args: args, t: t, alias: alias}
	res := &result{}
	err = c.stmtTx(func(tx *txState) error {
		sel, err := c.selectForWrite(tx, t, e, x.Where, x.Order, x.Limit)
		if err != nil {
			return err
		}
		for _, r := range sel {
			tx.del(t, r.kv)
			res.affected++
		}
		return nil
	})
	if err != nil {
		return nil, err
	}
	return res, nil
}

// ---------------------------------------------------------------- DDL

func colTypeOf(cd *ast.ColumnDef) (ColType, error) {
	ft := cd.Tp
	t := ColType{Len: ft.Flen, Dec: ft.Decimal, Unsigned: mysql.HasUnsignedFlag(ft.Flag)}
	bin := ft.Charset == "binary" || mysql.HasBinaryFlag(ft.Flag) && ft.Charset == "binary"
	pick := func(text, blob string) string {
		if bin {
			return blob
		}
		return text
	}
	switch ft.Tp {
	case mysql.TypeTiny:
		t.Base = "TINYINT"
	case mysql.TypeShort:
		t.Base = "SMALLINT"
	case mysql.TypeInt24:
		t.Base = "MEDIUMINT"
	case mysql.TypeLong:
		t.Base = "INT"
	case mysql.TypeLonglong:
		t.Base = "BIGINT"
	case mysql.TypeFloat:
		t.Base = "FLOAT"
	case mysql.TypeDouble:
		t.Base = "DOUBLE"
	case mysql.TypeNewDecimal:
		t.Base = "DECIMAL"
		if t.Len < 0 {
			t.Len = 10
		}
		if t.Dec < 0 {
			t.Dec = 0
		}
	case mysql.TypeVarchar, mysql.TypeVarString:
		t.Base = pick("VARCHAR", "VARBINARY")
	case mysql.TypeString:
		t.Base = pick("CHAR", "BINARY")
		if t.Len < 0 {
			t.Len = 1
		}
	case mysql.TypeTinyBlob:
		t.Base = pick("TINYTEXT", "TINYBLOB")
	case mysql.TypeBlob:
		t.Base = pick("TEXT", "BLOB")
	case mysql.TypeMediumBlob:
		t.Base = pick("MEDIUMTEXT", "MEDIUMBLOB")
	case mysql.TypeLongBlob:
		t.Base = pick("LONGTEXT", "LONGBLOB")
	case mysql.TypeDate:
		t.Base = "DATE"
	case mysql.TypeDatetime:
		t.Base = "DATETIME"
	case mysql.TypeTimestamp:
		t.Base = "TIMESTAMP"
	case mysql.TypeDuration:
		t.Base = "TIME"
	case mysql.TypeYear:
		t.Base = "YEAR"
	case mysql.TypeJSON:
		t.Base = "JSON"
	default:
		return t, unsupported("column type %s", ft.String())
	}
	if t.isTemporal() && t.Dec < 0 {
		t.Dec = 0
	}
	return t, nil
}

func (c *conn) doCreateTable(x *ast.CreateTableStmt) (*result, error) {
	s := c.srv
	if x.ReferTable != nil || x.Select != nil || x.Partition != nil {
		return nil, unsupported("CREATE TABLE ... LIKE/SELECT/PARTITION")
	}
	if _, ok := s.tables[s.tblKey(x.Table.Schema.O, x.Table.Name.O)]; ok {
		if x.IfNotExists {
			return &result{}, nil
		}
		return nil, myErr(ErTableExists, "Table '%s' already exists", x.Table.Name.O)
	}
	t := &Table{Name: x.Table.Name.O, colIdx: map[string]int{}, autoInc: 1}
	if k := s.tblKey(x.Table.Schema.O, x.Table.Name.O); strings.Contains(k, ".") {
		t.Schema = x.Table.Schema.O
	}
	e := &env{c: c, srv: s}
	addIndex := func(name string, cols []int, unique, primary bool) error {
		if primary {
			if t.pk != nil {
				return myErr(ErMultiplePriKey, "Multiple primary key defined")
			}
			name = "PRIMARY"
			for _, ci := range cols {
				t.Cols[ci].NotNull = true
			}
		}
		if name == "" {
			base := t.Cols[cols[0]].Name
			name = base
			for n := 2; ; n++ {
				dup := false
				for _, ix := range t.Indexes {
					if strings.EqualFold(ix.Name, name) {
						dup = true
					}
				}
				if !dup {
					break
				}
				name = base + "_" + itoa(n)
			}
		}
		for _, ix := range t.Indexes {
			if strings.EqualFold(ix.Name, name) {
				return myErr(ErDupKeyName, "Duplicate key name '%s'", name)
			}
		}
		ix := &Index{Name: name, Cols: cols, Unique: unique, Primary: primary}
		if primary {
			t.pk = ix
			t.Indexes = append([]*Index{ix}, t.Indexes...)
		} else {
			t.Indexes = append(t.Indexes, ix)
		}
		return nil
	}
	type pending struct {
		unique, primary bool
		col             int
	}
	var inline []pending
	for _, cd := range x.Cols {
		ty, err := colTypeOf(cd)
		if err != nil {
			return nil, err
		}
		col := &Column{Name: cd.Name.Name.O, Type: ty}
		if _, dup := t.colIdx[cd.Name.Name.L]; dup {
			return nil, myErr(1060, "Duplicate column name '%s'", col.Name)
		}
		if mysqlNotNull(cd) {
			col.NotNull = true
		}
		idx := len(t.Cols)
		for _, o := range cd.Options {
			switch o.Tp {
			case ast.ColumnOptionNotNull:
				col.NotNull = true
			case ast.ColumnOptionNull:
				col.NotNull = false
			case ast.ColumnOptionAutoIncrement:
				col.AutoInc = true
			case ast.ColumnOptionPrimaryKey:
				inline = append(inline, pending{primary: true, unique: true, col: idx})
			case ast.ColumnOptionUniqKey:
				inline = append(inline, pending{unique: true, col: idx})
			case ast.ColumnOptionDefaultValue:
				if f, ok := o.Expr.(*ast.FuncCallExpr); ok {
					switch f.FnName.L {
					case "current_timestamp", "now", "localtime", "localtimestamp":
						col.DefaultNow, col.HasDefault = true, true
						continue
					}
				}
				v, err := e.eval(o.Expr)
				if err != nil {
					return nil, err
				}
				col.HasDefault = true
				col.Default = v
			case ast.ColumnOptionOnUpdate:
				col.OnUpdateNow = true
			case ast.ColumnOptionComment, ast.ColumnOptionCollate:
			default:
				return nil, unsupported("column option %d", o.Tp)
			}
		}
		t.colIdx[cd.Name.Name.L] = idx
		t.Cols = append(t.Cols, col)
	}
	for _, p := range inline {
		if err := addIndex("", []int{p.col}, p.unique, p.primary); err != nil {
			return nil, err
		}
	}
	for _, k := range x.Constraints {
		var cols []int
		for _, part := range k.Keys {
			if part.Column == nil {
				return nil, unsupported("expression index")
			}
			i, ok := t.col(part.Column.Name.L)
			if !ok {
				return nil, myErr(ErKeyColumnMissing, "Key column '%s' doesn't exist in table", part.Column.Name.O)
			}
			cols = append(cols, i)
		}
		switch k.Tp {
		case ast.ConstraintPrimaryKey:
			if err := addIndex("PRIMARY", cols, true, true); err != nil {
				return nil, err
			}
		case ast.ConstraintUniq, ast.ConstraintUniqKey, ast.ConstraintUniqIndex:
			if err := addIndex(k.Name, cols, true, false); err != nil {
				return nil, err
			}
		case ast.ConstraintKey, ast.ConstraintIndex:
			if err := addIndex(k.Name, cols, false, false); err != nil {
				return nil, err
			}
		default:
			return nil, unsupported("constraint type %d", k.Tp)
		}
	}
	for _, col := range t.Cols {
		if col.HasDefault && !col.DefaultNow && !col.Default.IsNull() {
			v, err := storeValue(col, col.Default, 0)
			if err != nil {
				return nil, myErr(1067, "Invalid default value for '%s'", col.Name)
			}
			col.Default = v
		}
		if col.AutoInc {
			keyed := false
			for _, ix := range t.Indexes {
				if t.Cols[ix.Cols[0]] == col {
					keyed = true
				}
			}
			if !keyed || !col.Type.isInt() {
				return nil, myErr(ErWrongAutoKey, "Incorrect table definition; there can be only one auto column and it must be defined as a key")
			}
		}
	}
	for _, o := range x.Options {
		if o.Tp == ast.TableOptionAutoIncrement && o.UintValue > 0 {
			t.autoInc = int64(o.UintValue)
		}
	}
	s.tables[s.tblKey(x.Table.Schema.O, x.Table.Name.O)] = t
	return &result{}, nil
}

func mysqlNotNull(cd *ast.ColumnDef) bool { return mysql.HasNotNullFlag(cd.Tp.Flag) }

var _ = opcode.EQ
