package fakedb

import (
	"fmt"
	"math"
	"sort"
	"strconv"
	"strings"
	"unicode/utf8"

	"github.com/go-sql-driver/mysql"
)

// MySQL error numbers used by fakedb.
const (
	ErDupEntry          = 1062
	ErParse             = 1064
	ErNoSuchTable       = 1146
	ErLockWaitTimeout   = 1205
	ErBadNull           = 1048
	ErTableExists       = 1050
	ErBadTable          = 1051
	ErBadField          = 1054
	ErUnknownErr        = 1105
	ErFieldTwice        = 1110
	ErWrongValueCount   = 1136
	ErNotSupported      = 1235 // also: outside fakedb's subset
	ErOperandColumns    = 1241
	ErOutOfRange        = 1264
	ErDataTruncated     = 1265
	ErTruncatedValue    = 1292
	ErSpDoesNotExist    = 1305
	ErNoDefault         = 1364
	ErWrongValueField   = 1366
	ErDataTooLong       = 1406
	ErDataOutOfRange    = 1690
	ErXaerNota          = 1397
	ErXaerInval         = 1398
	ErXaerRmfail        = 1399
	ErXaerOutside       = 1400
	ErXaerDupid         = 1440
	ErCantChangeTxChars = 1568
	ErMultiplePriKey    = 1068
	ErDupKeyName        = 1061
	ErKeyColumnMissing  = 1072
	ErWrongAutoKey      = 1075
	ErUnknownSysVar     = 1193
	ErCommitNotAllowed  = 1399
)

func myErr(no uint16, format string, a ...interface{}) *mysql.MySQLError {
	return &mysql.MySQLError{Number: no, Message: fmt.Sprintf(format, a...)}
}

func unsupported(format string, a ...interface{}) *mysql.MySQLError {
	return myErr(ErNotSupported, "fakedb: unsupported: "+format, a...)
}

// ColType is a column's declared type.
type ColType struct {
	Base     string // upper case MySQL type name as the driver reports it: INT, VARCHAR, ...
	Unsigned bool
	Len      int // display width / char length / precision (-1 unspecified)
	Dec      int // scale or fsp
}

func (t ColType) isInt() bool {
	switch t.Base {
	case "TINYINT", "SMALLINT", "MEDIUMINT", "INT", "BIGINT", "YEAR":
		return true
	}
	return false
}
func (t ColType) isChar() bool {
	switch t.Base {
	case "CHAR", "VARCHAR", "TINYTEXT", "TEXT", "MEDIUMTEXT", "LONGTEXT", "JSON", "TIME", "ENUM":
		return true
	}
	return false
}
func (t ColType) isBinary() bool {
	switch t.Base {
	case "BINARY", "VARBINARY", "TINYBLOB", "BLOB", "MEDIUMBLOB", "LONGBLOB":
		return true
	}
	return false
}
func (t ColType) isTemporal() bool {
	return t.Base == "DATE" || t.Base == "DATETIME" || t.Base == "TIMESTAMP"
}

// DataType is INFORMATION_SCHEMA.COLUMNS.DATA_TYPE.
func (t ColType) DataType() string { return strings.ToLower(t.Base) }

// ColumnTypeText is INFORMATION_SCHEMA.COLUMNS.COLUMN_TYPE.
func (t ColType) ColumnTypeText() string {
	s := strings.ToLower(t.Base)
	switch {
	case t.isInt() && t.Base != "YEAR":
		w := map[string]int{"TINYINT": 4, "SMALLINT": 6, "MEDIUMINT": 9, "INT": 11, "BIGINT": 20}[t.Base]
		if t.Unsigned && t.Base != "BIGINT" {
			w--
		}
		if t.Len > 0 {
			w = t.Len
		}
		s += fmt.Sprintf("(%d)", w)
	case t.Base == "DECIMAL":
		s += fmt.Sprintf("(%d,%d)", t.Len, t.Dec)
	case t.Base == "CHAR" || t.Base == "VARCHAR" || t.Base == "BINARY" || t.Base == "VARBINARY":
		s += fmt.Sprintf("(%d)", t.Len)
	case (t.Base == "DATETIME" || t.Base == "TIMESTAMP" || t.Base == "TIME") && t.Dec > 0:
		s += fmt.Sprintf("(%d)", t.Dec)
	case t.Base == "YEAR":
		s += "(4)"
	}
	if t.Unsigned {
		s += " unsigned"
	}
	return s
}

// Column of a table.
type Column struct {
	Name        string
	Type        ColType
	NotNull     bool
	HasDefault  bool
	Default     Value // when HasDefault && !DefaultNow
	DefaultNow  bool  // DEFAULT CURRENT_TIMESTAMP
	OnUpdateNow bool
	AutoInc     bool
}

// Index of a table (primary, unique or plain).
type Index struct {
	Name    string
	Cols    []int
	Unique  bool
	Primary bool
}

type row struct {
	key  string
	kv   []Value // key values (pk columns or hidden rowid)
	vals []Value
}

// Table definition + committed rows (sorted by key).
type Table struct {
	Name      string
	Schema    string // "" = the server's own schema; else a table created / addressed as `schema`.`name`
	Cols      []*Column
	colIdx    map[string]int
	Indexes   []*Index
	pk        *Index
	rows      []*row
	autoInc   int64 // next auto-increment value
	nextRowID int64
	virtual   bool
}

func (t *Table) col(name string) (int, bool) {
	i, ok := t.colIdx[strings.ToLower(name)]
	return i, ok
}

func (t *Table) keyOf(vals []Value, rowid int64) []Value {
	if t.pk == nil {
		return []Value{IntV(rowid)}
	}
	kv := make([]Value, len(t.pk.Cols))
	for i, c := range t.pk.Cols {
		kv[i] = vals[c]
	}
	return kv
}

func cmpKey(a, b []Value) int {
	for i := range a {
		if i >= len(b) {
			return 1
		}
		if c := orderCmp(a[i], b[i]); c != 0 {
			return c
		}
	}
	if len(a) < len(b) {
		return -1
	}
	return 0
}

func sortRows(rs []*row) {
	sort.SliceStable(rs, func(i, j int) bool { return cmpKey(rs[i].kv, rs[j].kv) < 0 })
}

func lockName(t *Table, key string) string { return "r|" + strings.ToLower(t.qname()) + "|" + key }
func uniqLockName(t *Table, ix *Index, vals []Value) string {
	return "u|" + strings.ToLower(t.qname()) + "|" + ix.Name + "|" + keyString(vals)
}

// ---------------------------------------------------------------- storing

func intRange(t ColType) (lo int64, hi uint64) {
	switch t.Base {
	case "TINYINT":
		lo, hi = math.MinInt8, math.MaxInt8
		if t.Unsigned {
			lo, hi = 0, math.MaxUint8
		}
	case "SMALLINT":
		lo, hi = math.MinInt16, math.MaxInt16
		if t.Unsigned {
			lo, hi = 0, math.MaxUint16
		}
	case "MEDIUMINT":
		lo, hi = -8388608, 8388607
		if t.Unsigned {
			lo, hi = 0, 16777215
		}
	case "INT":
		lo, hi = math.MinInt32, math.MaxInt32
		if t.Unsigned {
			lo, hi = 0, math.MaxUint32
		}
	case "YEAR":
		lo, hi = 0, 2155
	default:
		lo, hi = math.MinInt64, math.MaxInt64
		if t.Unsigned {
			lo, hi = 0, math.MaxUint64
		}
	}
	return
}

// storeValue converts v to the column's stored form or rejects it (strict and
// narrow: a value the column cannot hold exactly is an error, never converted).
func storeValue(c *Column, v Value, rowNo int) (Value, error) {
	if v.K == KNull {
		if c.NotNull {
			return v, myErr(ErBadNull, "Column '%s' cannot be null", c.Name)
		}
		return v, nil
	}
	t := c.Type
	bad := func(what string) error {
		return myErr(ErWrongValueField, "Incorrect %s value: '%s' for column '%s' at row %d", what, v.Text(), c.Name, rowNo)
	}
	oor := func() error {
		return myErr(ErOutOfRange, "Out of range value for column '%s' at row %d", c.Name, rowNo)
	}
	switch {
	case t.isInt():
		n := v
		if v.isString() {
			n = strAsNumber(strings.TrimSpace(v.S))
			if !isDecimalText(strings.TrimSpace(v.S)) {
				return v, bad("integer")
			}
		}
		if n.K == KTime {
			return v, bad("integer")
		}
		if n.K == KFloat {
			if n.F != math.Trunc(n.F) || math.IsInf(n.F, 0) || math.IsNaN(n.F) {
				return v, myErr(ErDataTruncated, "Data truncated for column '%s' at row %d", c.Name, rowNo)
			}
			if n.F >= -9.2e18 && n.F <= 9.2e18 {
				n = IntV(int64(n.F))
			} else if n.F > 0 && n.F < 1.8e19 {
				n = UintV(uint64(n.F))
			} else {
				return v, oor()
			}
		}
		if n.K == KDec {
			r, _ := ratOf(n)
			if r == nil || !r.IsInt() {
				return v, myErr(ErDataTruncated, "Data truncated for column '%s' at row %d", c.Name, rowNo)
			}
			if r.Num().IsInt64() {
				n = IntV(r.Num().Int64())
			} else if r.Num().IsUint64() {
				n = UintV(r.Num().Uint64())
			} else {
				return v, oor()
			}
		}
		lo, hi := intRange(t)
		if n.K == KUint {
			if n.U > hi {
				return v, oor()
			}
			if n.U <= math.MaxInt64 {
				n = IntV(int64(n.U))
			}
		} else {
			if n.I < lo || (n.I > 0 && uint64(n.I) > hi) {
				return v, oor()
			}
		}
		if t.Base == "YEAR" && n.K == KInt && n.I != 0 && n.I < 1901 {
			return v, oor()
		}
		return n, nil
	case t.Base == "FLOAT" || t.Base == "DOUBLE":
		if v.isString() && !looksNumeric(v.S) || v.K == KTime {
			return v, bad("double")
		}
		f := toFloat(v)
		if t.Base == "FLOAT" {
			if math.Abs(f) > math.MaxFloat32 {
				return v, oor()
			}
			f = float64(float32(f))
		}
		return FloatV(f), nil
	case t.Base == "DECIMAL":
		n := v
		if v.isString() {
			if !isDecimalText(strings.TrimSpace(v.S)) {
				return v, bad("decimal")
			}
			n = DecV(canonDec(strings.TrimSpace(v.S)))
		}
		if n.K == KFloat {
			n = DecV(canonDec(strconv.FormatFloat(n.F, 'f', -1, 64)))
		}
		r, ok := ratOf(n)
		if !ok || n.K == KTime {
			return v, bad("decimal")
		}
		scale := t.Dec
		if scale < 0 {
			scale = 0
		}
		out := ratToDec(r, scale)
		if r2, _ := ratOf(out); r2 == nil || r2.Cmp(r) != 0 {
			return v, myErr(ErDataTruncated, "Data truncated for column '%s' at row %d", c.Name, rowNo)
		}
		prec := t.Len
		if prec <= 0 {
			prec = 10
		}
		digits := len(strings.TrimLeft(strings.Split(strings.TrimPrefix(out.S, "-"), ".")[0], "0"))
		if digits > prec-scale {
			return v, oor()
		}
		return out, nil
	case t.isChar():
		s := v.Text()
		if v.K == KTime {
			s = formatTime(v.T, -1, false)
		}
		limit := t.Len
		switch t.Base {
		case "TINYTEXT":
			limit = 255
		case "TEXT":
			limit = 65535
		case "MEDIUMTEXT", "LONGTEXT", "JSON", "TIME", "ENUM":
			limit = 1 << 30
		}
		n := utf8.RuneCountInString(s)
		if t.Base == "TEXT" || t.Base == "TINYTEXT" {
			n = len(s)
		}
		if limit >= 0 && n > limit {
			return v, myErr(ErDataTooLong, "Data too long for column '%s' at row %d", c.Name, rowNo)
		}
		if t.Base == "CHAR" {
			s = strings.TrimRight(s, " ")
		}
		return StrV(s), nil
	case t.isBinary():
		s := v.Text()
		limit := t.Len
		switch t.Base {
		case "TINYBLOB":
			limit = 255
		case "BLOB":
			limit = 65535
		case "MEDIUMBLOB", "LONGBLOB":
			limit = 1 << 30
		}
		if limit >= 0 && len(s) > limit {
			return v, myErr(ErDataTooLong, "Data too long for column '%s' at row %d", c.Name, rowNo)
		}
		if t.Base == "BINARY" && len(s) < t.Len {
			s += strings.Repeat("\x00", t.Len-len(s))
		}
		return BytesV(s), nil
	case t.isTemporal():
		var tm = v.T
		switch {
		case v.K == KTime:
		case v.isString():
			p, ok := parseTimeText(v.S)
			if !ok {
				return v, myErr(ErTruncatedValue, "Incorrect datetime value: '%s' for column '%s' at row %d", v.S, c.Name, rowNo)
			}
			tm = p
		default:
			return v, myErr(ErTruncatedValue, "Incorrect datetime value: '%s' for column '%s' at row %d", v.Text(), c.Name, rowNo)
		}
		tm = tm.UTC()
		if t.Base == "DATE" {
			if tm.Hour() != 0 || tm.Minute() != 0 || tm.Second() != 0 || tm.Nanosecond() != 0 {
				return v, myErr(ErTruncatedValue, "Incorrect date value: '%s' for column '%s' at row %d", v.Text(), c.Name, rowNo)
			}
			return TimeV(tm), nil
		}
		fsp := t.Dec
		if fsp < 0 {
			fsp = 0
		}
		unit := int64(1e9)
		for i := 0; i < fsp; i++ {
			unit /= 10
		}
		if int64(tm.Nanosecond())%unit != 0 {
			return v, myErr(ErTruncatedValue, "Incorrect datetime value: '%s' for column '%s' at row %d (fakedb: more fractional digits than the column keeps)", v.Text(), c.Name, rowNo)
		}
		return TimeV(tm), nil
	}
	return v, unsupported("column type %s", t.Base)
}

func looksNumeric(s string) bool {
	_, err := strconv.ParseFloat(strings.TrimSpace(s), 64)
	return err == nil
}

// qname is the table name as dumps and lock names show it: qualified when the table lives in another schema
func (t *Table) qname() string {
	if t.Schema != "" {
		return t.Schema + "." + t.Name
	}
	return t.Name
}

// tblKey is the catalog key of a (possibly schema-qualified) table name: tables of other schemas on the same
// server are kept under "schema.name"
func (s *Server) tblKey(schema, name string) string {
	if schema != "" && !strings.EqualFold(schema, s.Schema) {
		return strings.ToLower(schema) + "." + strings.ToLower(name)
	}
	return strings.ToLower(name)
}
