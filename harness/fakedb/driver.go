package fakedb

import (
	"context"
	"database/sql"
	"database/sql/driver"
	"encoding/json"
	"errors"
	"fmt"
	"io"
	"math"
	"reflect"
	"strconv"
	"strings"
	"sync"
	"time"

	"github.com/arana-db/parser"
	"github.com/arana-db/parser/ast"
	"github.com/arana-db/parser/test_driver"
	"github.com/go-sql-driver/mysql"
)

// FakeDriver implements driver.Driver and driver.DriverContext. Connections
// whose DSN (MySQL DSN syntax, parsed with mysql.ParseDSN) names the same
// address and schema share one Server.
type FakeDriver struct {
	mu      sync.Mutex
	servers map[string]*Server
}

// Driver is the process-wide instance (register it as the target of the proxy
// drivers, or as a plain driver for bare runs).
var Driver = &FakeDriver{servers: map[string]*Server{}}

// BareName is the database/sql name under which Driver itself is registered.
const BareName = "fakedb"

func init() { sql.Register(BareName, Driver) }

func serverKey(cfg *mysql.Config) string { return cfg.Addr + "/" + cfg.DBName }

// Server returns (creating it if needed) the server a DSN points to.
func (d *FakeDriver) Server(dsn string) (*Server, error) {
	cfg, err := mysql.ParseDSN(dsn)
	if err != nil {
		return nil, err
	}
	return d.serverFor(cfg), nil
}

func (d *FakeDriver) serverFor(cfg *mysql.Config) *Server {
	d.mu.Lock()
	defer d.mu.Unlock()
	k := serverKey(cfg)
	s := d.servers[k]
	if s == nil {
		s = newServer(k, cfg.DBName)
		d.servers[k] = s
	}
	return s
}

// DropServer forgets the server of a DSN (its connections become invalid).
func (d *FakeDriver) DropServer(dsn string) {
	cfg, err := mysql.ParseDSN(dsn)
	if err != nil {
		return
	}
	d.mu.Lock()
	s := d.servers[serverKey(cfg)]
	delete(d.servers, serverKey(cfg))
	d.mu.Unlock()
	if s != nil {
		s.mu.Lock()
		for _, c := range s.conns {
			c.closed = true
		}
		s.mu.Unlock()
	}
}

func (d *FakeDriver) Open(dsn string) (driver.Conn, error) {
	c, err := d.OpenConnector(dsn)
	if err != nil {
		return nil, err
	}
	return c.Connect(context.Background())
}

func (d *FakeDriver) OpenConnector(dsn string) (driver.Connector, error) {
	cfg, err := mysql.ParseDSN(dsn)
	if err != nil {
		return nil, err
	}
	return &connector{d: d, cfg: cfg}, nil
}

type connector struct {
	d   *FakeDriver
	cfg *mysql.Config
}

func (cn *connector) Driver() driver.Driver { return cn.d }

func (cn *connector) Connect(ctx context.Context) (driver.Conn, error) {
	s := cn.d.serverFor(cn.cfg)
	s.mu.Lock()
	defer s.mu.Unlock()
	tag := cn.cfg.Params["tag"]
	if s.connectFail != 0 {
		if s.connectFail > 0 {
			s.connectFail--
		}
		s.log(JournalEntry{Kind: JConnect, Err: "refused", Injected: true, DSNTag: tag})
		return nil, fmt.Errorf("dial tcp %s: connect: connection refused", cn.cfg.Addr)
	}
	s.nconn++
	c := &conn{srv: s, id: s.nconn, cfg: cn.cfg, tag: tag}
	s.conns[c.id] = c
	s.log(JournalEntry{Kind: JConnect, Conn: c.id, DSNTag: tag})
	return c, nil
}

// ---------------------------------------------------------------- conn

type conn struct {
	srv           *Server
	id            int
	cfg           *mysql.Config
	tag           string
	tx            *txState
	autocommitOff bool
	xaAttached    string // xid prepared on this session and still attached to it (MySQL < 8.0.29)
	closed        bool
	lastInsertID  int64
	nstmt         int
}

var (
	_ driver.Conn               = (*conn)(nil)
	_ driver.ConnBeginTx        = (*conn)(nil)
	_ driver.ConnPrepareContext = (*conn)(nil)
	_ driver.ExecerContext      = (*conn)(nil)
	_ driver.QueryerContext     = (*conn)(nil)
	_ driver.Pinger             = (*conn)(nil)
	_ driver.SessionResetter    = (*conn)(nil)
	_ driver.Validator          = (*conn)(nil)
	_ driver.NamedValueChecker  = (*conn)(nil)
)

// ConnID exposes the fakedb connection id of a raw driver connection
// (for `sql.Conn.Raw`); ok=false when dc is not a fakedb connection.
func ConnID(dc interface{}) (int, bool) {
	if c, ok := dc.(*conn); ok {
		return c.id, true
	}
	return 0, false
}

func errClass(err error) string {
	if err == nil {
		return ""
	}
	var me *mysql.MySQLError
	if errors.As(err, &me) {
		return strconv.Itoa(int(me.Number))
	}
	switch {
	case errors.Is(err, driver.ErrBadConn):
		return "badconn"
	case errors.Is(err, mysql.ErrInvalidConn):
		return "invalidconn"
	case errors.Is(err, driver.ErrSkip):
		return "skip"
	case errors.Is(err, context.Canceled), errors.Is(err, context.DeadlineExceeded):
		return "ctx"
	}
	return "other"
}

func tagArgs(args []Value) []TaggedValue {
	if len(args) == 0 {
		return nil
	}
	out := make([]TaggedValue, len(args))
	for i, a := range args {
		out[i] = a.Tagged()
	}
	return out
}

// convertArg maps a driver argument to a Value; ok=false for a type the real
// driver cannot send.
func (c *conn) convertArg(a interface{}) (Value, bool) {
	switch v := a.(type) {
	case nil:
		return Null, true
	case int64:
		return IntV(v), true
	case uint64:
		if v <= math.MaxInt64 {
			return IntV(int64(v)), true
		}
		return UintV(v), true
	case float64:
		return FloatV(v), true
	case bool:
		return IntV(int64(b2i(v))), true
	case []byte:
		if v == nil {
			return Null, true
		}
		return BytesV(string(v)), true
	case json.RawMessage:
		return StrV(string(v)), true
	case string:
		return StrV(v), true
	case time.Time:
		if v.IsZero() {
			return StrV("0000-00-00"), true
		}
		loc := c.cfg.Loc
		if loc == nil {
			loc = time.UTC
		}
		w := v.In(loc)
		return TimeV(time.Date(w.Year(), w.Month(), w.Day(), w.Hour(), w.Minute(), w.Second(), w.Nanosecond(), time.UTC)), true
	}
	return Null, false
}

// CheckNamedValue mirrors go-sql-driver/mysql's converter.
func (c *conn) CheckNamedValue(nv *driver.NamedValue) error {
	v, err := convertValue(nv.Value)
	if err != nil {
		return err
	}
	nv.Value = v
	return nil
}

func convertValue(v interface{}) (driver.Value, error) {
	if driver.IsValue(v) {
		return v, nil
	}
	if vr, ok := v.(driver.Valuer); ok {
		sv, err := callValuerValue(vr)
		if err != nil {
			return nil, err
		}
		if driver.IsValue(sv) {
			return sv, nil
		}
		if u, ok := sv.(uint64); ok {
			return u, nil
		}
		return nil, fmt.Errorf("non-Value type %T returned from Value", sv)
	}
	rv := reflect.ValueOf(v)
	switch rv.Kind() {
	case reflect.Ptr:
		if rv.IsNil() {
			return nil, nil
		}
		return convertValue(rv.Elem().Interface())
	case reflect.Int, reflect.Int8, reflect.Int16, reflect.Int32, reflect.Int64:
		return rv.Int(), nil
	case reflect.Uint, reflect.Uint8, reflect.Uint16, reflect.Uint32, reflect.Uint64:
		return rv.Uint(), nil
	case reflect.Float32, reflect.Float64:
		return rv.Float(), nil
	case reflect.Bool:
		return rv.Bool(), nil
	case reflect.Slice:
		if rv.Type().Elem().Kind() == reflect.Uint8 {
			return rv.Bytes(), nil
		}
	case reflect.String:
		return rv.String(), nil
	}
	return nil, fmt.Errorf("unsupported type %T, a %s", v, rv.Kind())
}

func callValuerValue(vr driver.Valuer) (v driver.Value, err error) {
	if rv := reflect.ValueOf(vr); rv.Kind() == reflect.Ptr && rv.IsNil() &&
		rv.Type().Elem().Implements(reflect.TypeOf((*driver.Valuer)(nil)).Elem()) {
		return nil, nil
	}
	return vr.Value()
}

func namedToValues(args []driver.NamedValue) ([]driver.Value, error) {
	out := make([]driver.Value, len(args))
	for i, a := range args {
		if a.Name != "" {
			return nil, errors.New("mysql: driver does not support the use of Named Parameters")
		}
		out[i] = a.Value
	}
	return out, nil
}

// direct runs a text-protocol statement (Exec/Query without prepare).
func (c *conn) direct(ctx context.Context, kind, query string, dargs []driver.Value) ([]*result, error) {
	s := c.srv
	// a fault with action "call": its callback runs after the statement, once the server lock is released
	defer func() {
		s.mu.Lock()
		fn, pending := s.callFn, s.pendingCall
		s.pendingCall = false
		s.mu.Unlock()
		if pending && fn != nil {
			fn()
		}
	}()
	s.mu.Lock()
	defer s.mu.Unlock()
	if c.closed {
		return nil, driver.ErrBadConn
	}
	var args []Value
	if len(dargs) > 0 {
		if !c.cfg.InterpolateParams {
			return nil, driver.ErrSkip
		}
		if strings.Count(query, "?") != len(dargs) {
			return nil, driver.ErrSkip
		}
		for _, a := range dargs {
			v, ok := c.convertArg(a)
			if !ok {
				return nil, driver.ErrSkip
			}
			args = append(args, v)
		}
	}
	if err := ctx.Err(); err != nil {
		return nil, err
	}
	return c.journalled(kind, query, args, func() ([]*result, error) { return c.runSQL(query, args) })
}

// journalled wraps one database call with fault injection and the journal.
func (c *conn) journalled(kind, query string, args []Value, f func() ([]*result, error)) ([]*result, error) {
	s := c.srv
	e := JournalEntry{Conn: c.id, Kind: kind, SQL: query, Args: tagArgs(args), InTx: c.tx != nil || c.xaAttached != "", DSNTag: c.tag}
	var rs []*result
	var err error
	flt := s.checkFault(kind, query, c.tag)
	if flt != nil && (flt.Action == "breakrows" || flt.Action == "call") {
		rs, err = f()
		if err == nil {
			e.Injected = true
			if flt.Action == "call" {
				s.pendingCall = true
			} else if n := len(rs); n > 0 && rs[n-1].isQuery {
				rs[n-1].breakSet, rs[n-1].breakAfter, rs[n-1].breakErr = true, flt.Rows, myErr(flt.ErrNo, "fakedb: result set broken off")
			}
		}
	} else if flt != nil && flt.Action != "after" {
		e.Injected = true
		if flt.Action == "drop" {
			c.die()
			err = mysql.ErrInvalidConn
		} else if flt.Action == "badconn" {
			c.die()
			err = driver.ErrBadConn
		} else if flt.Action == "cancel" {
			if s.cancelFn != nil {
				s.cancelFn()
			}
			err = context.Canceled
		} else {
			err = myErr(flt.ErrNo, "fakedb: injected fault")
		}
	} else {
		rs, err = f()
		if err == nil && flt != nil {
			e.Injected = true
			rs, err = nil, myErr(flt.ErrNo, "fakedb: injected fault after the statement was applied")
		}
	}
	e.Err = errClass(err)
	if err != nil {
		e.ErrMsg = err.Error()
	}
	if n := len(rs); n > 0 && err == nil {
		last := rs[n-1]
		e.Affected, e.LastID, e.NRows = last.affected, last.lastID, len(last.rows)
	}
	s.log(e)
	return rs, err
}

// die: the connection is lost; its open work is discarded.
func (c *conn) die() {
	s := c.srv
	if c.tx != nil {
		if c.tx.xid != "" {
			delete(s.xa, c.tx.xid)
		}
		s.rollbackTx(c.tx)
		c.tx = nil
	}
	c.xaAttached = ""
	c.closed = true
}

func (c *conn) ExecContext(ctx context.Context, query string, args []driver.NamedValue) (driver.Result, error) {
	dargs, err := namedToValues(args)
	if err != nil {
		return nil, err
	}
	rs, err := c.direct(ctx, JExec, query, dargs)
	if err != nil {
		return nil, err
	}
	last := rs[len(rs)-1]
	return &execResult{last.affected, last.lastID}, nil
}

func (c *conn) QueryContext(ctx context.Context, query string, args []driver.NamedValue) (driver.Rows, error) {
	dargs, err := namedToValues(args)
	if err != nil {
		return nil, err
	}
	rs, err := c.direct(ctx, JQuery, query, dargs)
	if err != nil {
		return nil, err
	}
	return newRows(c, rs, false), nil
}

func (c *conn) Prepare(query string) (driver.Stmt, error) {
	return c.PrepareContext(context.Background(), query)
}

type paramCounter struct{ n int }

func (p *paramCounter) Enter(n ast.Node) (ast.Node, bool) {
	if _, ok := n.(*test_driver.ParamMarkerExpr); ok {
		p.n++
	}
	return n, false
}
func (p *paramCounter) Leave(n ast.Node) (ast.Node, bool) { return n, true }

func (c *conn) PrepareContext(ctx context.Context, query string) (driver.Stmt, error) {
	s := c.srv
	s.mu.Lock()
	defer s.mu.Unlock()
	if c.closed {
		return nil, driver.ErrBadConn
	}
	if err := ctx.Err(); err != nil {
		return nil, err
	}
	var st *stmt
	_, err := c.journalled(JPrepare, query, nil, func() ([]*result, error) {
		text := strings.TrimRight(strings.TrimSpace(query), "; \t\r\n")
		if ws := splitWords(text); len(ws) > 0 {
			switch w0 := strings.ToLower(ws[0]); {
			case w0 == "savepoint", w0 == "xa", w0 == "release",
				w0 == "rollback" && len(ws) > 1 && strings.EqualFold(ws[1], "to"):
				return nil, myErr(1295, "This command is not supported in the prepared statement protocol yet")
			}
		}
		nodes, _, err := parser.New().Parse(query, "", "")
		if err != nil {
			return nil, myErr(ErParse, "You have an error in your SQL syntax; %v", err)
		}
		if len(nodes) != 1 {
			return nil, myErr(ErParse, "You have an error in your SQL syntax; a prepared statement holds exactly one statement")
		}
		pc := &paramCounter{}
		nodes[0].Accept(pc)
		// unknown table is reported at prepare time, as the server does
		var tn *ast.TableName
		switch x := nodes[0].(type) {
		case *ast.SelectStmt:
			tn, _, _ = c.singleTable(x.From)
		case *ast.InsertStmt:
			tn, _, _ = c.singleTable(x.Table)
		case *ast.UpdateStmt:
			tn, _, _ = c.singleTable(x.TableRefs)
		case *ast.DeleteStmt:
			tn, _, _ = c.singleTable(x.TableRefs)
		}
		if tn != nil && tn.Schema.L != "information_schema" {
			if _, err := c.table(tn); err != nil {
				return nil, err
			}
		}
		c.nstmt++
		st = &stmt{c: c, id: c.nstmt, query: query, node: nodes[0], nparams: pc.n}
		return nil, nil
	})
	if err != nil {
		return nil, err
	}
	return st, nil
}

func (c *conn) Begin() (driver.Tx, error) {
	return c.BeginTx(context.Background(), driver.TxOptions{})
}

func (c *conn) BeginTx(ctx context.Context, opts driver.TxOptions) (driver.Tx, error) {
	s := c.srv
	s.mu.Lock()
	defer s.mu.Unlock()
	if c.closed {
		return nil, driver.ErrBadConn
	}
	if err := ctx.Err(); err != nil {
		return nil, err
	}
	e := JournalEntry{Conn: c.id, Kind: JBegin, SQL: "START TRANSACTION", InTx: c.tx != nil, DSNTag: c.tag}
	var err error
	if flt := s.checkFault(JBegin, e.SQL, c.tag); flt != nil {
		e.Injected = true
		if flt.Action == "drop" {
			c.die()
			err = mysql.ErrInvalidConn
		} else if flt.Action == "badconn" {
			c.die()
			err = driver.ErrBadConn
		} else {
			err = myErr(flt.ErrNo, "fakedb: injected fault")
		}
	} else if st := c.xaCur(); st != xaNone {
		err = rmfail(st)
	} else {
		// like go-sql-driver/mysql: a non-default isolation level is sent as its own statement first
		if lvl := sql.IsolationLevel(opts.Isolation); lvl != sql.LevelDefault {
			name, ok := map[sql.IsolationLevel]string{sql.LevelRepeatableRead: "REPEATABLE READ", sql.LevelReadCommitted: "READ COMMITTED",
				sql.LevelReadUncommitted: "READ UNCOMMITTED", sql.LevelSerializable: "SERIALIZABLE"}[lvl]
			if !ok {
				return nil, fmt.Errorf("mysql: unsupported isolation level: %d", opts.Isolation)
			}
			if _, err := c.journalled(JExec, "SET TRANSACTION ISOLATION LEVEL "+name, nil, func() ([]*result, error) { return []*result{{}}, nil }); err != nil {
				return nil, err
			}
		}
		if opts.ReadOnly {
			e.SQL = "START TRANSACTION READ ONLY"
		}
		if c.tx != nil {
			e.Implicit = true
			c.implicitCommit()
		}
		c.tx = newTx()
		c.tx.readOnly = opts.ReadOnly
	}
	e.Err = errClass(err)
	if err != nil {
		e.ErrMsg = err.Error()
	}
	s.log(e)
	if err != nil {
		return nil, err
	}
	return &driverTx{c: c}, nil
}

type driverTx struct{ c *conn }

func (t *driverTx) finish(kind string) error {
	c := t.c
	s := c.srv
	s.mu.Lock()
	defer s.mu.Unlock()
	if c.closed {
		return mysql.ErrInvalidConn
	}
	e := JournalEntry{Conn: c.id, Kind: kind, SQL: kind, InTx: c.tx != nil, DSNTag: c.tag}
	var err error
	flt := s.checkFault(kind, kind, c.tag)
	do := func() {
		if st := c.xaCur(); st != xaNone {
			err = rmfail(st)
			return
		}
		if c.tx != nil {
			if kind == JCommit {
				s.commitTx(c.tx)
			} else {
				s.rollbackTx(c.tx)
			}
			c.tx = nil
		}
	}
	switch {
	case flt == nil:
		do()
	case flt.Action == "drop":
		e.Injected = true
		c.die()
		err = mysql.ErrInvalidConn
	case flt.Action == "badconn":
		e.Injected = true
		c.die()
		err = driver.ErrBadConn
	case flt.Action == "after":
		e.Injected = true
		do()
		if err == nil {
			err = myErr(flt.ErrNo, "fakedb: injected fault after %s was applied", kind)
		}
	default:
		e.Injected = true
		err = myErr(flt.ErrNo, "fakedb: injected fault")
	}
	e.Err = errClass(err)
	if err != nil {
		e.ErrMsg = err.Error()
	}
	s.log(e)
	return err
}

func (t *driverTx) Commit() error   { return t.finish(JCommit) }
func (t *driverTx) Rollback() error { return t.finish(JRollback) }

func (c *conn) Close() error {
	s := c.srv
	s.mu.Lock()
	defer s.mu.Unlock()
	if c.closed {
		delete(s.conns, c.id)
		return nil
	}
	open := c.tx != nil
	s.log(JournalEntry{Conn: c.id, Kind: JClose, InTx: open, OpenTx: open, DSNTag: c.tag})
	c.die()
	delete(s.conns, c.id)
	return nil
}

func (c *conn) ResetSession(ctx context.Context) error {
	s := c.srv
	s.mu.Lock()
	defer s.mu.Unlock()
	if c.closed {
		return driver.ErrBadConn
	}
	open := c.tx != nil
	s.log(JournalEntry{Conn: c.id, Kind: JReset, InTx: open, OpenTx: open, DSNTag: c.tag})
	if open && s.ResetDiscardsTx && c.tx.xid == "" {
		s.rollbackTx(c.tx)
		c.tx = nil
	}
	return nil
}

func (c *conn) IsValid() bool {
	c.srv.mu.Lock()
	defer c.srv.mu.Unlock()
	return !c.closed
}

func (c *conn) Ping(ctx context.Context) error {
	c.srv.mu.Lock()
	defer c.srv.mu.Unlock()
	if c.closed {
		return driver.ErrBadConn
	}
	return ctx.Err()
}

// ---------------------------------------------------------------- stmt

type stmt struct {
	c       *conn
	id      int
	query   string
	node    ast.StmtNode
	nparams int
	closed  bool
}

var (
	_ driver.Stmt              = (*stmt)(nil)
	_ driver.StmtExecContext   = (*stmt)(nil)
	_ driver.StmtQueryContext  = (*stmt)(nil)
	_ driver.NamedValueChecker = (*stmt)(nil)
)

func (st *stmt) Close() error {
	st.closed = true
	return nil
}
func (st *stmt) NumInput() int { return st.nparams }
func (st *stmt) CheckNamedValue(nv *driver.NamedValue) error {
	return st.c.CheckNamedValue(nv)
}

func (st *stmt) run(ctx context.Context, kind string, dargs []driver.Value) ([]*result, error) {
	c := st.c
	s := c.srv
	s.mu.Lock()
	defer s.mu.Unlock()
	if c.closed || st.closed {
		return nil, driver.ErrBadConn
	}
	if len(dargs) != st.nparams {
		return nil, fmt.Errorf("argument count mismatch (got: %d; has: %d)", len(dargs), st.nparams)
	}
	args := make([]Value, len(dargs))
	for i, a := range dargs {
		v, ok := c.convertArg(a)
		if !ok {
			return nil, fmt.Errorf("cannot convert type: %T", a)
		}
		args[i] = v
	}
	if err := ctx.Err(); err != nil {
		return nil, err
	}
	return c.journalled(kind, st.query, args, func() ([]*result, error) {
		// re-parse: the AST is mutated by nobody, but stays per-execution anyway
		r, err := c.runStmt(st.node, args)
		if err != nil {
			return nil, err
		}
		return []*result{r}, nil
	})
}

func (st *stmt) Exec(args []driver.Value) (driver.Result, error) {
	rs, err := st.run(context.Background(), JStmtExec, args)
	if err != nil {
		return nil, err
	}
	return &execResult{rs[0].affected, rs[0].lastID}, nil
}

func (st *stmt) Query(args []driver.Value) (driver.Rows, error) {
	rs, err := st.run(context.Background(), JStmtQuery, args)
	if err != nil {
		return nil, err
	}
	return newRows(st.c, rs, true), nil
}

func (st *stmt) ExecContext(ctx context.Context, args []driver.NamedValue) (driver.Result, error) {
	dargs, err := namedToValues(args)
	if err != nil {
		return nil, err
	}
	rs, err := st.run(ctx, JStmtExec, dargs)
	if err != nil {
		return nil, err
	}
	return &execResult{rs[0].affected, rs[0].lastID}, nil
}

func (st *stmt) QueryContext(ctx context.Context, args []driver.NamedValue) (driver.Rows, error) {
	dargs, err := namedToValues(args)
	if err != nil {
		return nil, err
	}
	rs, err := st.run(ctx, JStmtQuery, dargs)
	if err != nil {
		return nil, err
	}
	return newRows(st.c, rs, true), nil
}

type execResult struct{ affected, lastID int64 }

func (r *execResult) LastInsertId() (int64, error) { return r.lastID, nil }
func (r *execResult) RowsAffected() (int64, error) { return r.affected, nil }

// ---------------------------------------------------------------- rows

type rows struct {
	c      *conn
	sets   []*result
	cur    int
	pos    int
	binary bool
}

var (
	_ driver.Rows                           = (*rows)(nil)
	_ driver.RowsNextResultSet              = (*rows)(nil)
	_ driver.RowsColumnTypeDatabaseTypeName = (*rows)(nil)
	_ driver.RowsColumnTypeScanType         = (*rows)(nil)
	_ driver.RowsColumnTypeNullable         = (*rows)(nil)
)

func newRows(c *conn, rs []*result, binary bool) *rows {
	r := &rows{c: c, binary: binary}
	for _, x := range rs {
		if x.isQuery {
			r.sets = append(r.sets, x)
		}
	}
	if len(r.sets) == 0 {
		r.sets = []*result{{isQuery: true}}
	}
	return r
}

func (r *rows) Columns() []string {
	cs := r.sets[r.cur].cols
	out := make([]string, len(cs))
	for i, c := range cs {
		out[i] = c.name
	}
	return out
}

func (r *rows) Close() error { r.pos = 1 << 30; return nil }

func (r *rows) Next(dest []driver.Value) error {
	set := r.sets[r.cur]
	if set.breakSet && (r.pos >= set.breakAfter || r.pos >= len(set.rows)) {
		return set.breakErr // also when the set is shorter: the stream never ends cleanly
	}
	if r.pos >= len(set.rows) {
		return io.EOF
	}
	row := set.rows[r.pos]
	r.pos++
	for i := range dest {
		if i < len(row) {
			dest[i] = r.c.toDriver(row[i], set.cols[i].typ, r.binary)
		}
	}
	return nil
}

func (r *rows) HasNextResultSet() bool { return r.cur+1 < len(r.sets) }
func (r *rows) NextResultSet() error {
	if !r.HasNextResultSet() {
		return io.EOF
	}
	r.cur++
	r.pos = 0
	return nil
}

func (r *rows) ColumnTypeDatabaseTypeName(i int) string {
	t := r.sets[r.cur].cols[i].typ
	if t.Base == "NULL" {
		return "NULL"
	}
	return t.Base
}

func (r *rows) ColumnTypeNullable(i int) (nullable, ok bool) {
	return r.sets[r.cur].cols[i].nullable, true
}

var (
	scanTypeFloat32   = reflect.TypeOf(float32(0))
	scanTypeFloat64   = reflect.TypeOf(float64(0))
	scanTypeInt8      = reflect.TypeOf(int8(0))
	scanTypeInt16     = reflect.TypeOf(int16(0))
	scanTypeInt32     = reflect.TypeOf(int32(0))
	scanTypeInt64     = reflect.TypeOf(int64(0))
	scanTypeNullFloat = reflect.TypeOf(sql.NullFloat64{})
	scanTypeNullInt   = reflect.TypeOf(sql.NullInt64{})
	scanTypeNullTime  = reflect.TypeOf(sql.NullTime{})
	scanTypeUint8     = reflect.TypeOf(uint8(0))
	scanTypeUint16    = reflect.TypeOf(uint16(0))
	scanTypeUint32    = reflect.TypeOf(uint32(0))
	scanTypeUint64    = reflect.TypeOf(uint64(0))
	scanTypeRawBytes  = reflect.TypeOf(sql.RawBytes{})
	scanTypeUnknown   = reflect.TypeOf(new(interface{}))
)

// ColumnTypeScanType follows fields.go of go-sql-driver/mysql v1.6.0.
func (r *rows) ColumnTypeScanType(i int) reflect.Type {
	col := r.sets[r.cur].cols[i]
	notNull, uns := !col.nullable, col.typ.Unsigned
	pick := func(s, u reflect.Type) reflect.Type {
		if notNull {
			if uns {
				return u
			}
			return s
		}
		return scanTypeNullInt
	}
	switch col.typ.Base {
	case "TINYINT":
		return pick(scanTypeInt8, scanTypeUint8)
	case "SMALLINT", "YEAR":
		return pick(scanTypeInt16, scanTypeUint16)
	case "MEDIUMINT", "INT":
		return pick(scanTypeInt32, scanTypeUint32)
	case "BIGINT":
		return pick(scanTypeInt64, scanTypeUint64)
	case "FLOAT":
		if notNull {
			return scanTypeFloat32
		}
		return scanTypeNullFloat
	case "DOUBLE":
		if notNull {
			return scanTypeFloat64
		}
		return scanTypeNullFloat
	case "DATE", "DATETIME", "TIMESTAMP":
		return scanTypeNullTime
	case "NULL":
		return scanTypeUnknown
	}
	return scanTypeRawBytes
}

func (c *conn) toDriver(v Value, t ColType, binary bool) driver.Value {
	if v.K == KNull {
		return nil
	}
	if v.K == KTime {
		dateOnly := t.Base == "DATE"
		if c.cfg.ParseTime && (t.isTemporal() || !binary && false) {
			loc := c.cfg.Loc
			if loc == nil {
				loc = time.UTC
			}
			w := v.T
			return time.Date(w.Year(), w.Month(), w.Day(), w.Hour(), w.Minute(), w.Second(), w.Nanosecond(), loc)
		}
		fsp := t.Dec
		if !t.isTemporal() {
			fsp = 0
			if v.T.Nanosecond() != 0 {
				fsp = 6
			}
		}
		return []byte(formatTime(v.T, fsp, dateOnly))
	}
	if binary {
		switch {
		case t.isInt() || (t.Base == "BIGINT"):
			switch v.K {
			case KInt:
				return v.I
			case KUint:
				return []byte(strconv.FormatUint(v.U, 10))
			}
		case t.Base == "FLOAT" && v.K == KFloat:
			return float32(v.F)
		case t.Base == "DOUBLE" && v.K == KFloat:
			return v.F
		}
	}
	if v.K == KFloat && t.Base == "FLOAT" {
		return []byte(strconv.FormatFloat(v.F, 'g', -1, 32))
	}
	return []byte(v.Text())
}
