package fakedb

import (
	"regexp"
	"sort"
	"strings"
	"sync"
	"sync/atomic"
	"time"
)

// UndoDDL is Seata's standard undo_log table (unique key (xid, branch_id)).
const UndoDDL = "CREATE TABLE IF NOT EXISTS `undo_log` (`branch_id` BIGINT NOT NULL COMMENT 'branch transaction id', `xid` VARCHAR(128) NOT NULL, `context` VARCHAR(128) NOT NULL, `rollback_info` LONGBLOB NOT NULL, `log_status` INT(11) NOT NULL, `log_created` DATETIME(6) NOT NULL, `log_modified` DATETIME(6) NOT NULL, UNIQUE KEY `ux_undo_log` (`xid`, `branch_id`)) ENGINE = InnoDB AUTO_INCREMENT = 1 DEFAULT CHARSET = utf8mb4 COMMENT ='AT transaction mode undo table'"

// ---- the global sequence counter shared with the coordinator stub --------

var globalSeq int64

// NextSeq returns the next value of the process-wide event counter (database
// journal entries and coordinator-stub log entries are ordered by it).
func NextSeq() int64 { return atomic.AddInt64(&globalSeq, 1) }

// CurSeq reads the counter without advancing it.
func CurSeq() int64 { return atomic.LoadInt64(&globalSeq) }

// ---- journal ---------------------------------------------------------------

// Journal entry kinds.
const (
	JBegin     = "BEGIN"
	JExec      = "EXEC"
	JQuery     = "QUERY"
	JPrepare   = "PREPARE"
	JStmtExec  = "STMT_EXEC"
	JStmtQuery = "STMT_QUERY"
	JStmtClose = "STMT_CLOSE"
	JCommit    = "COMMIT"
	JRollback  = "ROLLBACK"
	JClose     = "CLOSE"
	JReset     = "RESET"
	JConnect   = "CONNECT"
	JPing      = "PING"
)

// JournalEntry is one driver-level call observed by the database.
type JournalEntry struct {
	Seq      int64         `json:"seq"`
	Conn     int           `json:"conn"`
	Kind     string        `json:"kind"`
	SQL      string        `json:"sql,omitempty"`
	Args     []TaggedValue `json:"args,omitempty"`
	Err      string        `json:"err,omitempty"`     // "" ok | MySQL error number | "skip" | "badconn" | "invalidconn" | "args" | "fault"
	ErrMsg   string        `json:"err_msg,omitempty"` // free text (not an observable)
	Affected int64         `json:"affected"`
	LastID   int64         `json:"last_id"`
	NRows    int           `json:"nrows"`              // rows of a result set
	InTx     bool          `json:"in_tx"`              // a transaction was open on the connection when the call arrived
	OpenTx   bool          `json:"open_tx,omitempty"`  // RESET/CLOSE only: returned to the pool / closed inside an open transaction
	Implicit bool          `json:"implicit,omitempty"` // BEGIN that implicitly committed an open transaction
	Injected bool          `json:"injected,omitempty"` // outcome produced by fault injection
	DSNTag   string        `json:"dsn_tag,omitempty"`  // value of the DSN parameter `tag` of the connection (who opened it)
}

// ---- faults ----------------------------------------------------------------

// Fault describes one armed fault. A journalled call matches when its kind is
// in Kinds (empty: any of EXEC QUERY PREPARE STMT_EXEC STMT_QUERY) and its SQL
// matches Pattern (Go regexp, case-insensitive, empty: any). The first Skip
// matches pass; the following Count (default 1) matches fail.
type Fault struct {
	Kinds   []string `json:"kinds,omitempty"`
	Pattern string   `json:"pattern,omitempty"`
	Skip    int      `json:"skip,omitempty"`
	Count   int      `json:"count,omitempty"`
	// Action: "error" (default: the call fails with ErrNo, nothing applied),
	// "drop" (the connection dies: open transaction discarded, the call returns
	// mysql.ErrInvalidConn, later calls driver.ErrBadConn),
	// "badconn" (as drop, but the call returns driver.ErrBadConn - what go-sql-driver returns when writing
	// the packet fails on a dead connection; database/sql then retries a pool statement on a fresh connection),
	// "after" (the call is applied, then fails with ErrNo: lost reply),
	// "cancel" (the caller's context is cancelled just before the call - Server.SetCancel - and the call is
	// refused with context.Canceled without being applied; the connection stays usable, as go-sql-driver
	// refuses a statement on a done context).
	// "breakrows" (a query is applied and its result set breaks off after Rows rows: Rows.Next returns ErrNo
	// - a deadlock victim / lost packet mid-stream - the connection stays usable),
	// "call" (the call is applied normally, then - after the server lock is released - the callback registered
	// with Server.OnCall runs: e.g. another session acting between two statements of a transaction; direct
	// Exec/Query calls only).
	Action string `json:"action,omitempty"`
	Rows   int    `json:"rows,omitempty"`  // breakrows: rows delivered before the error
	ErrNo  uint16 `json:"errno,omitempty"` // default 1105
	Tag    string `json:"tag,omitempty"`   // only connections whose DSN has tag=<Tag> ("" any)

	re      *regexp.Regexp
	seen    int
	fired   int
	Expired bool `json:"-"`
}

func (f *Fault) matches(kind, sql, tag string) bool {
	if f.Tag != "" && f.Tag != tag {
		return false
	}
	if len(f.Kinds) == 0 {
		switch kind {
		case JExec, JQuery, JPrepare, JStmtExec, JStmtQuery:
		default:
			return false
		}
	} else {
		ok := false
		for _, k := range f.Kinds {
			if strings.EqualFold(k, kind) {
				ok = true
			}
		}
		if !ok {
			return false
		}
	}
	if f.Pattern != "" {
		if f.re == nil {
			re, err := regexp.Compile("(?is)" + f.Pattern)
			if err != nil {
				return false
			}
			f.re = re
		}
		if !f.re.MatchString(sql) {
			return false
		}
	}
	return true
}

// ---- transactions ----------------------------------------------------------

type ovRow struct {
	kv   []Value
	vals []Value // nil: deleted
}

type savepoint struct {
	name    string
	overlay map[string]map[string]*ovRow
	nlocks  int
}

type txState struct {
	overlay    map[string]map[string]*ovRow // lower(table) -> key -> row
	locks      []string
	savepoints []savepoint
	readOnly   bool   // START TRANSACTION READ ONLY: writes fail with error 1792
	xid        string // XA branch, "" for a local transaction
	xaState    int
}

func newTx() *txState { return &txState{overlay: map[string]map[string]*ovRow{}} }

func cloneOverlay(o map[string]map[string]*ovRow) map[string]map[string]*ovRow {
	c := make(map[string]map[string]*ovRow, len(o))
	for t, m := range o {
		cm := make(map[string]*ovRow, len(m))
		for k, r := range m {
			cm[k] = r // ovRows are immutable once stored
		}
		c[t] = cm
	}
	return c
}

// ---- server ----------------------------------------------------------------

// Server is one database instance (all connections whose DSN names the same
// address and schema share it).
type Server struct {
	mu sync.Mutex

	Name     string
	Schema   string
	version  string

	tables map[string]*Table
	locks  map[string]*txState
	xa     map[string]*txState // prepared (or idle-detached) XA branches by xid
	conns  map[int]*conn
	nconn  int

	journal []JournalEntry
	faults  []*Fault

	connectFail int // fail the next n Connect calls (-1: until healed)
	clockTick   int64
	// ResetDiscardsTx: when true ResetSession rolls an open transaction back
	// (default false = what go-sql-driver/mysql does: nothing).
	ResetDiscardsTx bool
	callFn          func()
	pendingCall     bool
	cancelFn        func() // what a fault with action "cancel" calls (SetCancel)
	// AutoIncStep is auto_increment_increment (offset 1): generated keys are 1, 1+step, 1+2*step, ...;
	// SHOW VARIABLES / @@auto_increment_increment answer it. 0 or 1 = 1.
	AutoIncStep int64
	journalOff  bool
}

func newServer(name, schema string) *Server {
	return &Server{Name: name, Schema: schema, version: "5.7.30", tables: map[string]*Table{},
		locks: map[string]*txState{}, xa: map[string]*txState{}, conns: map[int]*conn{}}
}

// SetVersion sets the answer of SELECT VERSION().
func (s *Server) SetVersion(v string) { s.mu.Lock(); s.version = v; s.mu.Unlock() }

// now is a deterministic clock: 2024-01-01T00:00:00Z plus 1.000001 s per reading.
func (s *Server) now() time.Time {
	s.clockTick++
	return time.Date(2024, 1, 1, 0, 0, 0, 0, time.UTC).Add(time.Duration(s.clockTick) * (time.Second + time.Microsecond))
}

// AddFault arms a fault.
func (s *Server) AddFault(f Fault) {
	s.mu.Lock()
	defer s.mu.Unlock()
	if f.Count == 0 {
		f.Count = 1
	}
	if f.ErrNo == 0 {
		f.ErrNo = ErUnknownErr
	}
	s.faults = append(s.faults, &f)
}

// ClearFaults disarms everything (including Connect failures).
func (s *Server) ClearFaults() {
	s.mu.Lock()
	s.faults, s.connectFail = nil, 0
	s.mu.Unlock()
}

// FailConnect makes the next n Connect calls fail (n<0: until ClearFaults).
func (s *Server) FailConnect(n int) { s.mu.Lock(); s.connectFail = n; s.mu.Unlock() }

// checkFault is called with s.mu held; returns the fault to apply, if any.
func (s *Server) checkFault(kind, sql, tag string) *Fault {
	for _, f := range s.faults {
		if f.Expired || !f.matches(kind, sql, tag) {
			continue
		}
		f.seen++
		if f.seen <= f.Skip {
			continue
		}
		f.fired++
		if f.Count > 0 && f.fired >= f.Count {
			f.Expired = true
		}
		return f
	}
	return nil
}

// OnCall registers the callback of faults with action "call" (nil to clear). It runs without the server lock.
func (s *Server) OnCall(fn func()) {
	s.mu.Lock()
	s.callFn = fn
	s.mu.Unlock()
}

// SetAutoIncStep sets auto_increment_increment for the statements that follow (as SET GLOBAL would).
func (s *Server) SetAutoIncStep(n int64) {
	s.mu.Lock()
	s.AutoIncStep = n
	s.mu.Unlock()
}

func (s *Server) autoStep() int64 {
	if s.AutoIncStep > 1 {
		return s.AutoIncStep
	}
	return 1
}

// nextAuto is the smallest value >= from of the form 1 + k*step
func (s *Server) nextAuto(from int64) int64 {
	step := s.autoStep()
	if from < 1 {
		from = 1
	}
	if r := (from - 1) % step; r != 0 {
		from += step - r
	}
	return from
}

// SetCancel registers the cancel function of the context of the call(s) about to be made
// (nil to clear); a fault with action "cancel" invokes it.
func (s *Server) SetCancel(fn func()) {
	s.mu.Lock()
	s.cancelFn = fn
	s.mu.Unlock()
}

// Journal returns a copy of the journal (entries with Seq > afterSeq).
func (s *Server) Journal(afterSeq int64) []JournalEntry {
	s.mu.Lock()
	defer s.mu.Unlock()
	var out []JournalEntry
	for _, e := range s.journal {
		if e.Seq > afterSeq {
			out = append(out, e)
		}
	}
	return out
}

// ResetJournal drops the journal.
func (s *Server) ResetJournal() { s.mu.Lock(); s.journal = nil; s.mu.Unlock() }

func (s *Server) log(e JournalEntry) {
	if s.journalOff {
		return
	}
	e.Seq = NextSeq()
	s.journal = append(s.journal, e)
}

// OpenTransactions lists the connection ids that currently have an open
// (local or XA-active) transaction, and the prepared XA xids.
func (s *Server) OpenTransactions() (conns []int, preparedXids []string) {
	s.mu.Lock()
	defer s.mu.Unlock()
	for id, c := range s.conns {
		if c.tx != nil && !c.closed {
			conns = append(conns, id)
		}
	}
	for x, t := range s.xa {
		if t.xaState == xaPrepared {
			preparedXids = append(preparedXids, x)
		}
	}
	sort.Ints(conns)
	sort.Strings(preparedXids)
	return
}

// HeldLocks lists the row-lock names currently held (sorted).
func (s *Server) HeldLocks() []string {
	s.mu.Lock()
	defer s.mu.Unlock()
	out := make([]string, 0, len(s.locks))
	for k := range s.locks {
		out = append(out, k)
	}
	sort.Strings(out)
	return out
}

// ---- locks -----------------------------------------------------------------

func (s *Server) acquire(tx *txState, name string) error {
	if o, ok := s.locks[name]; ok {
		if o == tx {
			return nil
		}
		return myErr(ErLockWaitTimeout, "Lock wait timeout exceeded; try restarting transaction")
	}
	s.locks[name] = tx
	tx.locks = append(tx.locks, name)
	return nil
}

func (s *Server) releaseFrom(tx *txState, n int) {
	for _, l := range tx.locks[n:] {
		if s.locks[l] == tx {
			delete(s.locks, l)
		}
	}
	tx.locks = tx.locks[:n]
}

// ---- views -----------------------------------------------------------------

// view returns the rows of t visible to tx (committed rows overlaid with the
// transaction's own writes), in key order.
func (s *Server) view(tx *txState, t *Table) []*row {
	if tx == nil {
		return t.rows
	}
	ov := tx.overlay[strings.ToLower(t.qname())]
	if len(ov) == 0 {
		return t.rows
	}
	out := make([]*row, 0, len(t.rows)+len(ov))
	for _, r := range t.rows {
		if _, ok := ov[r.key]; !ok {
			out = append(out, r)
		}
	}
	for k, o := range ov {
		if o.vals != nil {
			out = append(out, &row{key: k, kv: o.kv, vals: o.vals})
		}
	}
	sortRows(out)
	return out
}

func (tx *txState) put(t *Table, kv, vals []Value) {
	n := strings.ToLower(t.qname())
	m := tx.overlay[n]
	if m == nil {
		m = map[string]*ovRow{}
		tx.overlay[n] = m
	}
	m[keyString(kv)] = &ovRow{kv: kv, vals: vals}
}

func (tx *txState) del(t *Table, kv []Value) {
	n := strings.ToLower(t.qname())
	m := tx.overlay[n]
	if m == nil {
		m = map[string]*ovRow{}
		tx.overlay[n] = m
	}
	m[keyString(kv)] = &ovRow{kv: kv}
}

// apply merges the transaction's writes into the committed state.
func (s *Server) apply(tx *txState) {
	for tn, m := range tx.overlay {
		t := s.tables[tn]
		if t == nil {
			continue // table dropped meanwhile
		}
		idx := make(map[string]int, len(t.rows))
		for i, r := range t.rows {
			idx[r.key] = i
		}
		var dels []int
		for k, o := range m {
			i, exists := idx[k]
			switch {
			case o.vals == nil && exists:
				dels = append(dels, i)
			case o.vals != nil && exists:
				t.rows[i] = &row{key: k, kv: o.kv, vals: o.vals}
			case o.vals != nil:
				t.rows = append(t.rows, &row{key: k, kv: o.kv, vals: o.vals})
			}
		}
		if len(dels) > 0 {
			sort.Ints(dels)
			out := t.rows[:0:0]
			j := 0
			for i, r := range t.rows {
				if j < len(dels) && dels[j] == i {
					j++
					continue
				}
				out = append(out, r)
			}
			t.rows = out
		}
		sortRows(t.rows)
	}
	tx.overlay = map[string]map[string]*ovRow{}
}

func (s *Server) commitTx(tx *txState) {
	s.apply(tx)
	s.releaseFrom(tx, 0)
	tx.savepoints = nil
}

func (s *Server) rollbackTx(tx *txState) {
	tx.overlay = map[string]map[string]*ovRow{}
	s.releaseFrom(tx, 0)
	tx.savepoints = nil
}

// ---- dumps -----------------------------------------------------------------

// TableDump is the deterministic dump of one table's committed rows.
type TableDump struct {
	Name    string          `json:"name"`
	Columns []string        `json:"columns"`
	Types   []string        `json:"types"`
	PK      []string        `json:"pk"`
	Rows    [][]TaggedValue `json:"rows"`
	AutoInc int64           `json:"auto_inc"`
}

func (s *Server) dumpTable(t *Table) TableDump {
	d := TableDump{Name: t.qname(), AutoInc: t.autoInc, Rows: [][]TaggedValue{}}
	for _, c := range t.Cols {
		d.Columns = append(d.Columns, c.Name)
		d.Types = append(d.Types, c.Type.ColumnTypeText())
	}
	if t.pk != nil {
		for _, i := range t.pk.Cols {
			d.PK = append(d.PK, t.Cols[i].Name)
		}
	}
	for _, r := range t.rows {
		tr := make([]TaggedValue, len(r.vals))
		for i, v := range r.vals {
			tr[i] = v.Tagged()
		}
		d.Rows = append(d.Rows, tr)
	}
	return d
}

// Dump returns the committed contents of every table (sorted by lower-cased
// table name; rows in key order). undo_log included.
func (s *Server) Dump() []TableDump {
	s.mu.Lock()
	defer s.mu.Unlock()
	names := make([]string, 0, len(s.tables))
	for n := range s.tables {
		names = append(names, n)
	}
	sort.Strings(names)
	out := make([]TableDump, 0, len(names))
	for _, n := range names {
		out = append(out, s.dumpTable(s.tables[n]))
	}
	return out
}

// DumpTable dumps one table (ok=false when it does not exist).
func (s *Server) DumpTable(name string) (TableDump, bool) {
	s.mu.Lock()
	defer s.mu.Unlock()
	t := s.tables[strings.ToLower(name)]
	if t == nil {
		return TableDump{}, false
	}
	return s.dumpTable(t), true
}

// RawRows returns the committed rows of a table as Values (for decoding
// undo_log rows etc.).
func (s *Server) RawRows(name string) (cols []string, rows [][]Value) {
	s.mu.Lock()
	defer s.mu.Unlock()
	t := s.tables[strings.ToLower(name)]
	if t == nil {
		return nil, nil
	}
	for _, c := range t.Cols {
		cols = append(cols, c.Name)
	}
	for _, r := range t.rows {
		rows = append(rows, append([]Value(nil), r.vals...))
	}
	return
}
