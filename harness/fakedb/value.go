// Package fakedb is an in-memory MySQL stand-in behind database/sql/driver
// (DESIGN 4.3). Statements are parsed with github.com/arana-db/parser (the
// parser the repository under check uses) and interpreted over in-memory
// tables with per-connection transactions, row locks, an XA state machine and
// a statement journal. It is environment, not subject: the contract is in
// docs/ATRUN.md.
package fakedb

import (
	"fmt"
	"math"
	"math/big"
	"strconv"
	"strings"
	"time"
	"unicode/utf8"
)

// Kind tags a stored / computed SQL value.
type Kind uint8

const (
	KNull Kind = iota
	KInt
	KUint
	KFloat
	KDec   // canonical decimal text in S
	KStr   // character data in S
	KBytes // binary data in S
	KTime  // T, UTC, microsecond precision (DATE: midnight)
)

func (k Kind) String() string {
	return [...]string{"null", "int", "uint", "float", "dec", "str", "bytes", "time"}[k]
}

// Value is one SQL value.
type Value struct {
	K Kind
	I int64
	U uint64
	F float64
	S string
	T time.Time
}

var Null = Value{}

func IntV(i int64) Value     { return Value{K: KInt, I: i} }
func UintV(u uint64) Value   { return Value{K: KUint, U: u} }
func FloatV(f float64) Value { return Value{K: KFloat, F: f} }
func StrV(s string) Value    { return Value{K: KStr, S: s} }
func BytesV(s string) Value  { return Value{K: KBytes, S: s} }
func DecV(s string) Value    { return Value{K: KDec, S: s} }
func TimeV(t time.Time) Value {
	return Value{K: KTime, T: t.UTC().Truncate(time.Microsecond)}
}

func (v Value) IsNull() bool { return v.K == KNull }

func (v Value) isNumeric() bool {
	return v.K == KInt || v.K == KUint || v.K == KFloat || v.K == KDec
}
func (v Value) isString() bool { return v.K == KStr || v.K == KBytes }

// Equal is exact identity of stored values (kind and payload).
func (v Value) Equal(w Value) bool {
	if v.K != w.K {
		return false
	}
	switch v.K {
	case KNull:
		return true
	case KInt:
		return v.I == w.I
	case KUint:
		return v.U == w.U
	case KFloat:
		return math.Float64bits(v.F) == math.Float64bits(w.F)
	case KTime:
		return v.T.Equal(w.T)
	default:
		return v.S == w.S
	}
}

const timeLayout = "2006-01-02 15:04:05.000000"

// Text renders a value as MySQL's text protocol would (fsp<0: as many
// fractional digits as needed, trailing zeros removed).
func (v Value) Text() string {
	switch v.K {
	case KNull:
		return "NULL"
	case KInt:
		return strconv.FormatInt(v.I, 10)
	case KUint:
		return strconv.FormatUint(v.U, 10)
	case KFloat:
		return formatFloat(v.F)
	case KTime:
		return formatTime(v.T, -1, false)
	default:
		return v.S
	}
}

func formatFloat(f float64) string {
	if f == math.Trunc(f) && math.Abs(f) < 1e15 {
		return strconv.FormatFloat(f, 'f', 0, 64)
	}
	a := math.Abs(f)
	if a >= 1e15 || a < 1e-5 {
		return strconv.FormatFloat(f, 'e', -1, 64)
	}
	return strconv.FormatFloat(f, 'f', -1, 64)
}

func formatTime(t time.Time, fsp int, dateOnly bool) string {
	if dateOnly {
		return t.Format("2006-01-02")
	}
	s := t.Format(timeLayout)
	switch {
	case fsp == 0:
		return s[:19]
	case fsp > 0 && fsp <= 6:
		return s[:20+fsp]
	default:
		s = strings.TrimRight(s, "0")
		return strings.TrimSuffix(s, ".")
	}
}

// TaggedValue is the JSON dump form of a value: kind + printable payload
// (bytes and non-UTF-8 strings in hex).
type TaggedValue struct {
	K string `json:"k"`
	V string `json:"v,omitempty"`
}

func (v Value) Tagged() TaggedValue {
	switch v.K {
	case KNull:
		return TaggedValue{K: "null"}
	case KBytes:
		return TaggedValue{K: "bytes", V: fmt.Sprintf("%x", v.S)}
	case KFloat:
		return TaggedValue{K: "float", V: strconv.FormatFloat(v.F, 'g', -1, 64)}
	case KTime:
		return TaggedValue{K: "time", V: v.T.Format(timeLayout)}
	case KStr:
		if !utf8.ValidString(v.S) {
			return TaggedValue{K: "strhex", V: fmt.Sprintf("%x", v.S)}
		}
		return TaggedValue{K: "str", V: v.S}
	default:
		return TaggedValue{K: v.K.String(), V: v.Text()}
	}
}

// ---------------------------------------------------------------- numbers

func parseTimeText(s string) (time.Time, bool) {
	s = strings.TrimSpace(s)
	for _, l := range []string{"2006-01-02 15:04:05.999999", "2006-01-02 15:04:05", "2006-01-02", "2006-01-02T15:04:05.999999Z07:00", "2006-01-02T15:04:05.999999"} {
		if t, err := time.Parse(l, s); err == nil {
			return t.UTC(), true
		}
	}
	return time.Time{}, false
}

// isDecimalText: optional sign, digits, optional fraction (no exponent).
func isDecimalText(s string) bool {
	if s == "" {
		return false
	}
	i := 0
	if s[0] == '+' || s[0] == '-' {
		i++
	}
	digits, dot := 0, false
	for ; i < len(s); i++ {
		c := s[i]
		switch {
		case c >= '0' && c <= '9':
			digits++
		case c == '.' && !dot:
			dot = true
		default:
			return false
		}
	}
	return digits > 0
}

// canonDec normalises decimal text: no '+', no leading zeros, "-0" -> "0";
// keeps the fractional digits as written.
func canonDec(s string) string {
	neg := false
	if strings.HasPrefix(s, "-") {
		neg, s = true, s[1:]
	} else if strings.HasPrefix(s, "+") {
		s = s[1:]
	}
	ip, fp := s, ""
	if i := strings.IndexByte(s, '.'); i >= 0 {
		ip, fp = s[:i], s[i+1:]
	}
	ip = strings.TrimLeft(ip, "0")
	if ip == "" {
		ip = "0"
	}
	out := ip
	if fp != "" {
		out += "." + fp
	}
	if neg && strings.Trim(out, "0.") != "" {
		out = "-" + out
	}
	return out
}

func decScale(s string) int {
	if i := strings.IndexByte(s, '.'); i >= 0 {
		return len(s) - i - 1
	}
	return 0
}

func ratOf(v Value) (*big.Rat, bool) {
	switch v.K {
	case KInt:
		return new(big.Rat).SetInt64(v.I), true
	case KUint:
		return new(big.Rat).SetInt(new(big.Int).SetUint64(v.U)), true
	case KDec:
		r, ok := new(big.Rat).SetString(v.S)
		return r, ok
	case KFloat:
		if math.IsInf(v.F, 0) || math.IsNaN(v.F) {
			return nil, false
		}
		return new(big.Rat).SetFloat64(v.F), true
	}
	return nil, false
}

func ratToDec(r *big.Rat, scale int) Value {
	return DecV(canonDec(r.FloatString(scale)))
}

// numericPrefix mimics MySQL's string -> double conversion (leading numeric
// prefix, 0 when none).
func numericPrefix(s string) float64 {
	s = strings.TrimLeft(s, " \t\r\n")
	end, seenDigit, seenDot, seenExp := 0, false, false, false
	for i := 0; i < len(s); i++ {
		c := s[i]
		switch {
		case c >= '0' && c <= '9':
			seenDigit = true
			end = i + 1
		case (c == '+' || c == '-') && (i == 0 || (seenExp && (s[i-1] == 'e' || s[i-1] == 'E'))):
		case c == '.' && !seenDot && !seenExp:
			seenDot = true
		case (c == 'e' || c == 'E') && seenDigit && !seenExp:
			seenExp = true
		default:
			i = len(s)
		}
	}
	if !seenDigit {
		return 0
	}
	f, err := strconv.ParseFloat(s[:end], 64)
	if err != nil {
		return 0
	}
	return f
}

func toFloat(v Value) float64 {
	switch v.K {
	case KInt:
		return float64(v.I)
	case KUint:
		return float64(v.U)
	case KFloat:
		return v.F
	case KDec:
		f, _ := strconv.ParseFloat(v.S, 64)
		return f
	case KStr, KBytes:
		return numericPrefix(v.S)
	case KTime:
		f, _ := strconv.ParseFloat(v.T.Format("20060102150405.000000"), 64)
		return f
	}
	return 0
}

// strAsNumber gives the exact numeric reading of a string when the whole
// string is a plain decimal; otherwise a float of its numeric prefix.
func strAsNumber(s string) Value {
	t := strings.TrimSpace(s)
	if isDecimalText(t) {
		c := canonDec(t)
		if !strings.Contains(c, ".") {
			if i, err := strconv.ParseInt(c, 10, 64); err == nil {
				return IntV(i)
			}
			if u, err := strconv.ParseUint(c, 10, 64); err == nil {
				return UintV(u)
			}
		}
		return DecV(c)
	}
	return FloatV(numericPrefix(s))
}

// Compare implements MySQL comparison with coercion; ok=false means UNKNOWN
// (a NULL operand).
func Compare(a, b Value) (int, bool) {
	if a.K == KNull || b.K == KNull {
		return 0, false
	}
	switch {
	case a.isString() && b.isString():
		return strings.Compare(a.S, b.S), true
	case a.K == KTime && b.K == KTime:
		return cmpTime(a.T, b.T), true
	case a.K == KTime && b.isString():
		if t, ok := parseTimeText(b.S); ok {
			return cmpTime(a.T, t), true
		}
		return strings.Compare(a.Text(), b.S), true
	case b.K == KTime && a.isString():
		c, ok := Compare(b, a)
		return -c, ok
	}
	// numeric context
	if a.isString() {
		a = strAsNumber(a.S)
	}
	if b.isString() {
		b = strAsNumber(b.S)
	}
	if a.K == KTime {
		a = FloatV(toFloat(a))
	}
	if b.K == KTime {
		b = FloatV(toFloat(b))
	}
	if a.K == KFloat || b.K == KFloat {
		x, y := toFloat(a), toFloat(b)
		switch {
		case x < y:
			return -1, true
		case x > y:
			return 1, true
		}
		return 0, true
	}
	if a.K == KInt && b.K == KInt {
		switch {
		case a.I < b.I:
			return -1, true
		case a.I > b.I:
			return 1, true
		}
		return 0, true
	}
	x, ok1 := ratOf(a)
	y, ok2 := ratOf(b)
	if !ok1 || !ok2 {
		return 0, false
	}
	return x.Cmp(y), true
}

func cmpTime(a, b time.Time) int {
	switch {
	case a.Before(b):
		return -1
	case a.After(b):
		return 1
	}
	return 0
}

// orderCmp is a total order used by ORDER BY and for primary-key order:
// NULL first, numbers numerically, strings bytewise.
func orderCmp(a, b Value) int {
	if a.K == KNull || b.K == KNull {
		switch {
		case a.K == KNull && b.K == KNull:
			return 0
		case a.K == KNull:
			return -1
		}
		return 1
	}
	c, _ := Compare(a, b)
	return c
}

// truth: three-valued boolean of a value (0 false, 1 true, -1 unknown).
func truth(v Value) int {
	switch v.K {
	case KNull:
		return -1
	case KInt:
		if v.I != 0 {
			return 1
		}
		return 0
	case KUint:
		if v.U != 0 {
			return 1
		}
		return 0
	default:
		if toFloat(v) != 0 {
			return 1
		}
		return 0
	}
}

func boolV(t int) Value {
	if t < 0 {
		return Null
	}
	return IntV(int64(t))
}

// keyString is an injective encoding of a key tuple (lock names, map keys).
func keyString(vals []Value) string {
	var sb strings.Builder
	for _, v := range vals {
		sb.WriteByte(byte('0' + v.K))
		t := v.Text()
		if v.K == KFloat {
			t = strconv.FormatUint(math.Float64bits(v.F), 16)
		}
		sb.WriteString(strconv.Itoa(len(t)))
		sb.WriteByte(':')
		sb.WriteString(t)
	}
	return sb.String()
}
