package fakedb

import (
	"math"
	"strconv"
	"strings"

	"github.com/arana-db/parser/ast"
	"github.com/arana-db/parser/opcode"
	"github.com/arana-db/parser/test_driver"
)

// env is the evaluation context of an expression.
type env struct {
	c      *conn
	t      *Table  // nil: no FROM
	alias  string  // table alias (lower), "" none
	row    []Value // current row of t
	args   []Value
	insert []Value // the row that would have been inserted (VALUES(col))
	now    *Value  // statement time, evaluated lazily
	ci     bool    // case-insensitive string comparison (information_schema)
	argErr *error  // set when a parameter marker has no argument
	srv    *Server
}

func (e *env) stmtNow(fsp int) Value {
	if e.now == nil {
		v := TimeV(e.srv.now())
		e.now = &v
	}
	t := e.now.T
	unit := int64(1e9)
	for i := 0; i < fsp && i < 6; i++ {
		unit /= 10
	}
	ns := int64(t.Nanosecond())
	t = t.Add(-timeDuration(ns % unit))
	return TimeV(t)
}

func datumValue(d *test_driver.Datum) (Value, error) {
	switch d.Kind() {
	case test_driver.KindNull:
		return Null, nil
	case test_driver.KindInt64:
		return IntV(d.GetInt64()), nil
	case test_driver.KindUint64:
		u := d.GetUint64()
		if u <= math.MaxInt64 {
			return IntV(int64(u)), nil
		}
		return UintV(u), nil
	case test_driver.KindFloat32, test_driver.KindFloat64:
		return FloatV(d.GetFloat64()), nil
	case test_driver.KindString:
		return StrV(d.GetString()), nil
	case test_driver.KindBytes:
		return BytesV(string(d.GetBytes())), nil
	case test_driver.KindMysqlDecimal:
		return DecV(canonDec(d.GetMysqlDecimal().String())), nil
	case test_driver.KindBinaryLiteral:
		return BytesV(string(d.GetBinaryLiteral())), nil
	}
	return Null, unsupported("literal kind %d", d.Kind())
}

func (e *env) eval(n ast.ExprNode) (Value, error) {
	switch x := n.(type) {
	case nil:
		return Null, nil
	case *test_driver.ParamMarkerExpr:
		if x.Order < 0 || x.Order >= len(e.args) {
			return Null, myErr(ErUnknownErr, "fakedb: parameter %d has no argument", x.Order)
		}
		return e.args[x.Order], nil
	case *test_driver.ValueExpr:
		return datumValue(&x.Datum)
	case *ast.ParenthesesExpr:
		return e.eval(x.Expr)
	case *ast.ColumnNameExpr:
		return e.column(x.Name)
	case *ast.BinaryOperationExpr:
		return e.binary(x)
	case *ast.UnaryOperationExpr:
		v, err := e.eval(x.V)
		if err != nil {
			return Null, err
		}
		switch x.Op {
		case opcode.Not, opcode.Not2:
			t := truth(v)
			if t < 0 {
				return Null, nil
			}
			return IntV(int64(1 - t)), nil
		case opcode.Minus:
			return arith(opcode.Minus, IntV(0), v)
		case opcode.Plus:
			return v, nil
		}
		return Null, unsupported("unary operator %v", x.Op)
	case *ast.IsNullExpr:
		v, err := e.eval(x.Expr)
		if err != nil {
			return Null, err
		}
		return boolV(b2i(v.IsNull() != x.Not)), nil
	case *ast.IsTruthExpr:
		v, err := e.eval(x.Expr)
		if err != nil {
			return Null, err
		}
		t := truth(v)
		r := t >= 0 && int64(t) == x.True
		return boolV(b2i(r != x.Not)), nil
	case *ast.BetweenExpr:
		v, err := e.eval(x.Expr)
		if err != nil {
			return Null, err
		}
		lo, err := e.eval(x.Left)
		if err != nil {
			return Null, err
		}
		hi, err := e.eval(x.Right)
		if err != nil {
			return Null, err
		}
		r := and3(e.cmp3(v, lo, opcode.GE), e.cmp3(v, hi, opcode.LE))
		if x.Not {
			r = not3(r)
		}
		return boolV(r), nil
	case *ast.PatternInExpr:
		if x.Sel != nil {
			return Null, unsupported("IN (subquery)")
		}
		r := 0
		for _, item := range x.List {
			eq, err := e.rowEq(x.Expr, item)
			if err != nil {
				return Null, err
			}
			r = or3(r, eq)
			if r == 1 {
				break
			}
		}
		if x.Not {
			r = not3(r)
		}
		return boolV(r), nil
	case *ast.PatternLikeExpr:
		v, err := e.eval(x.Expr)
		if err != nil {
			return Null, err
		}
		p, err := e.eval(x.Pattern)
		if err != nil {
			return Null, err
		}
		if v.IsNull() || p.IsNull() {
			return Null, nil
		}
		s, pat := v.Text(), p.Text()
		if e.ci || (v.K != KBytes && p.K != KBytes && false) {
			s, pat = strings.ToLower(s), strings.ToLower(pat)
		}
		m := likeMatch(s, pat, x.Escape)
		return boolV(b2i(m != x.Not)), nil
	case *ast.RowExpr:
		return Null, myErr(ErOperandColumns, "Operand should contain 1 column(s)")
	case *ast.DefaultExpr:
		if x.Name != nil && e.t != nil {
			if i, ok := e.t.col(x.Name.Name.L); ok {
				return e.defaultOf(e.t.Cols[i])
			}
			return Null, myErr(ErBadField, "Unknown column '%s' in 'field list'", x.Name.Name.O)
		}
		return Null, unsupported("DEFAULT outside an INSERT value list")
	case *ast.ValuesExpr:
		if e.insert == nil || e.t == nil {
			return Null, nil
		}
		i, ok := e.t.col(x.Column.Name.Name.L)
		if !ok {
			return Null, myErr(ErBadField, "Unknown column '%s' in 'field list'", x.Column.Name.Name.O)
		}
		return e.insert[i], nil
	case *ast.FuncCallExpr:
		return e.call(x)
	case *ast.AggregateFuncExpr:
		return Null, unsupported("aggregate %s in this position", x.F)
	case *ast.VariableExpr:
		if x.IsSystem {
			switch strings.ToLower(x.Name) {
			case "auto_increment_increment":
				return IntV(e.srv.autoStep()), nil
			case "autocommit":
				return IntV(1), nil
			case "version":
				return StrV(e.srv.version), nil
			case "tx_isolation", "transaction_isolation":
				return StrV("READ-COMMITTED"), nil
			}
		}
		return Null, unsupported("variable @%s", x.Name)
	}
	return Null, unsupported("expression %T", n)
}

func b2i(b bool) int {
	if b {
		return 1
	}
	return 0
}

func and3(a, b int) int {
	if a == 0 || b == 0 {
		return 0
	}
	if a < 0 || b < 0 {
		return -1
	}
	return 1
}
func or3(a, b int) int {
	if a == 1 || b == 1 {
		return 1
	}
	if a < 0 || b < 0 {
		return -1
	}
	return 0
}
func not3(a int) int {
	if a < 0 {
		return -1
	}
	return 1 - a
}

func (e *env) column(cn *ast.ColumnName) (Value, error) {
	if e.t == nil {
		return Null, myErr(ErBadField, "Unknown column '%s' in 'field list'", cn.Name.O)
	}
	if cn.Table.L != "" && cn.Table.L != strings.ToLower(e.t.Name) && cn.Table.L != e.alias {
		return Null, myErr(ErBadField, "Unknown column '%s.%s' in 'field list'", cn.Table.O, cn.Name.O)
	}
	i, ok := e.t.col(cn.Name.L)
	if !ok {
		return Null, myErr(ErBadField, "Unknown column '%s' in 'field list'", cn.Name.O)
	}
	if e.row == nil {
		return Null, nil
	}
	return e.row[i], nil
}

func (e *env) defaultOf(c *Column) (Value, error) {
	switch {
	case c.DefaultNow:
		fsp := c.Type.Dec
		if fsp < 0 {
			fsp = 0
		}
		return e.stmtNow(fsp), nil
	case c.HasDefault:
		return c.Default, nil
	case c.AutoInc:
		return Null, nil
	case !c.NotNull:
		return Null, nil
	}
	return Null, myErr(ErNoDefault, "Field '%s' doesn't have a default value", c.Name)
}

// cmp3 compares with three-valued result for a comparison operator.
func (e *env) cmp3(a, b Value, op opcode.Op) int {
	if op == opcode.NullEQ {
		if a.IsNull() || b.IsNull() {
			return b2i(a.IsNull() && b.IsNull())
		}
		op = opcode.EQ
	}
	if e.ci && a.isString() && b.isString() {
		a.S, b.S = strings.ToLower(a.S), strings.ToLower(b.S)
	}
	c, ok := Compare(a, b)
	if !ok {
		return -1
	}
	switch op {
	case opcode.EQ:
		return b2i(c == 0)
	case opcode.NE:
		return b2i(c != 0)
	case opcode.LT:
		return b2i(c < 0)
	case opcode.LE:
		return b2i(c <= 0)
	case opcode.GT:
		return b2i(c > 0)
	case opcode.GE:
		return b2i(c >= 0)
	}
	return -1
}

func rowValues(n ast.ExprNode) ([]ast.ExprNode, bool) {
	for {
		p, ok := n.(*ast.ParenthesesExpr)
		if !ok {
			break
		}
		n = p.Expr
	}
	if r, ok := n.(*ast.RowExpr); ok {
		return r.Values, true
	}
	return nil, false
}

// rowEq is `l = r` where either side may be a row constructor.
func (e *env) rowEq(l, r ast.ExprNode) (int, error) {
	lv, lrow := rowValues(l)
	rv, rrow := rowValues(r)
	if lrow != rrow || (lrow && len(lv) != len(rv)) {
		n := 1
		if lrow {
			n = len(lv)
		}
		return 0, myErr(ErOperandColumns, "Operand should contain %d column(s)", n)
	}
	if !lrow {
		a, err := e.eval(l)
		if err != nil {
			return 0, err
		}
		b, err := e.eval(r)
		if err != nil {
			return 0, err
		}
		return e.cmp3(a, b, opcode.EQ), nil
	}
	res := 1
	for i := range lv {
		c, err := e.rowEq(lv[i], rv[i])
		if err != nil {
			return 0, err
		}
		res = and3(res, c)
	}
	return res, nil
}

func (e *env) binary(x *ast.BinaryOperationExpr) (Value, error) {
	switch x.Op {
	case opcode.LogicAnd:
		a, err := e.eval(x.L)
		if err != nil {
			return Null, err
		}
		b, err := e.eval(x.R)
		if err != nil {
			return Null, err
		}
		return boolV(and3(truth(a), truth(b))), nil
	case opcode.LogicOr:
		a, err := e.eval(x.L)
		if err != nil {
			return Null, err
		}
		b, err := e.eval(x.R)
		if err != nil {
			return Null, err
		}
		return boolV(or3(truth(a), truth(b))), nil
	case opcode.LogicXor:
		a, err := e.eval(x.L)
		if err != nil {
			return Null, err
		}
		b, err := e.eval(x.R)
		if err != nil {
			return Null, err
		}
		ta, tb := truth(a), truth(b)
		if ta < 0 || tb < 0 {
			return Null, nil
		}
		return IntV(int64(ta ^ tb)), nil
	case opcode.EQ, opcode.NE:
		if _, isRow := rowValues(x.L); isRow {
			r, err := e.rowEq(x.L, x.R)
			if err != nil {
				return Null, err
			}
			if x.Op == opcode.NE {
				r = not3(r)
			}
			return boolV(r), nil
		}
		fallthrough
	case opcode.LT, opcode.LE, opcode.GT, opcode.GE, opcode.NullEQ:
		a, err := e.eval(x.L)
		if err != nil {
			return Null, err
		}
		b, err := e.eval(x.R)
		if err != nil {
			return Null, err
		}
		return boolV(e.cmp3(a, b, x.Op)), nil
	case opcode.Plus, opcode.Minus, opcode.Mul:
		a, err := e.eval(x.L)
		if err != nil {
			return Null, err
		}
		b, err := e.eval(x.R)
		if err != nil {
			return Null, err
		}
		return arith(x.Op, a, b)
	}
	return Null, unsupported("operator %v", x.Op)
}

func arith(op opcode.Op, a, b Value) (Value, error) {
	if a.IsNull() || b.IsNull() {
		return Null, nil
	}
	if a.isString() {
		a = strAsNumber(a.S)
	}
	if b.isString() {
		b = strAsNumber(b.S)
	}
	if a.K == KTime || b.K == KTime {
		return Null, unsupported("arithmetic on temporal values")
	}
	if a.K == KFloat || b.K == KFloat {
		x, y := toFloat(a), toFloat(b)
		switch op {
		case opcode.Plus:
			return FloatV(x + y), nil
		case opcode.Minus:
			return FloatV(x - y), nil
		default:
			return FloatV(x * y), nil
		}
	}
	x, _ := ratOf(a)
	y, _ := ratOf(b)
	z := x
	scale := 0
	sa, sb := 0, 0
	if a.K == KDec {
		sa = decScale(a.S)
	}
	if b.K == KDec {
		sb = decScale(b.S)
	}
	switch op {
	case opcode.Plus:
		z = x.Add(x, y)
		scale = maxInt(sa, sb)
	case opcode.Minus:
		z = x.Sub(x, y)
		scale = maxInt(sa, sb)
	default:
		z = x.Mul(x, y)
		scale = sa + sb
	}
	if a.K == KDec || b.K == KDec {
		return ratToDec(z, scale), nil
	}
	if !z.IsInt() {
		return Null, unsupported("non-integral integer arithmetic")
	}
	if z.Num().IsInt64() {
		return IntV(z.Num().Int64()), nil
	}
	if z.Num().IsUint64() && (a.K == KUint || b.K == KUint) {
		return UintV(z.Num().Uint64()), nil
	}
	return Null, myErr(ErDataOutOfRange, "BIGINT value is out of range in '(%s %s %s)'", a.Text(), op.String(), b.Text())
}

func maxInt(a, b int) int {
	if a > b {
		return a
	}
	return b
}

func likeMatch(s, p string, esc byte) bool {
	if esc == 0 {
		esc = '\\'
	}
	// dynamic programming over bytes (binary collation)
	var rec func(si, pi int) bool
	memo := map[[2]int]bool{}
	rec = func(si, pi int) bool {
		k := [2]int{si, pi}
		if v, ok := memo[k]; ok {
			return v
		}
		var r bool
		switch {
		case pi == len(p):
			r = si == len(s)
		case p[pi] == '%':
			r = rec(si, pi+1) || (si < len(s) && rec(si+1, pi))
		case p[pi] == '_':
			r = si < len(s) && rec(si+1, pi+1)
		case p[pi] == esc && pi+1 < len(p):
			r = si < len(s) && s[si] == p[pi+1] && rec(si+1, pi+2)
		default:
			r = si < len(s) && s[si] == p[pi] && rec(si+1, pi+1)
		}
		memo[k] = r
		return r
	}
	return rec(0, 0)
}

func (e *env) call(x *ast.FuncCallExpr) (Value, error) {
	name := x.FnName.L
	args := make([]Value, len(x.Args))
	for i, a := range x.Args {
		v, err := e.eval(a)
		if err != nil {
			return Null, err
		}
		args[i] = v
	}
	switch name {
	case "now", "current_timestamp", "localtime", "localtimestamp", "sysdate":
		fsp := 0
		if len(args) == 1 && args[0].K == KInt {
			fsp = int(args[0].I)
		}
		return e.stmtNow(fsp), nil
	case "version":
		return StrV(e.srv.version), nil
	case "database", "schema":
		return StrV(e.srv.Schema), nil
	case "last_insert_id":
		if e.c != nil {
			return IntV(e.c.lastInsertID), nil
		}
		return IntV(0), nil
	case "connection_id":
		if e.c != nil {
			return IntV(int64(e.c.id)), nil
		}
		return IntV(0), nil
	case "concat":
		var sb strings.Builder
		for _, a := range args {
			if a.IsNull() {
				return Null, nil
			}
			sb.WriteString(a.Text())
		}
		return StrV(sb.String()), nil
	case "upper", "ucase", "lower", "lcase":
		if len(args) != 1 {
			break
		}
		if args[0].IsNull() {
			return Null, nil
		}
		if name[0] == 'u' {
			return StrV(strings.ToUpper(args[0].Text())), nil
		}
		return StrV(strings.ToLower(args[0].Text())), nil
	case "length", "octet_length":
		if len(args) != 1 {
			break
		}
		if args[0].IsNull() {
			return Null, nil
		}
		return IntV(int64(len(args[0].Text()))), nil
	case "abs":
		if len(args) != 1 {
			break
		}
		if args[0].IsNull() {
			return Null, nil
		}
		if c, _ := Compare(args[0], IntV(0)); c < 0 {
			return arith(opcode.Minus, IntV(0), args[0])
		}
		return args[0], nil
	case "ifnull":
		if len(args) != 2 {
			break
		}
		if args[0].IsNull() {
			return args[1], nil
		}
		return args[0], nil
	case "coalesce":
		for _, a := range args {
			if !a.IsNull() {
				return a, nil
			}
		}
		return Null, nil
	case "if":
		if len(args) != 3 {
			break
		}
		if truth(args[0]) == 1 {
			return args[1], nil
		}
		return args[2], nil
	}
	return Null, unsupported("function %s/%d", name, len(args))
}

func itoa(i int) string { return strconv.Itoa(i) }
