package fakedb

import (
	"context"
	"database/sql"
	"errors"
	"testing"
	"time"

	"github.com/go-sql-driver/mysql"
)

func open(t *testing.T, db string) *sql.DB {
	d, err := sql.Open(BareName, "u:p@tcp(127.0.0.1:3306)/"+db+"?interpolateParams=true&parseTime=true&multiStatements=true")
	if err != nil {
		t.Fatal(err)
	}
	return d
}

func errno(err error) int {
	var me *mysql.MySQLError
	if errors.As(err, &me) {
		return int(me.Number)
	}
	if err != nil {
		return -1
	}
	return 0
}

func TestBasics(t *testing.T) {
	db := open(t, "t1")
	defer db.Close()
	must := func(q string, args ...interface{}) sql.Result {
		r, err := db.Exec(q, args...)
		if err != nil {
			t.Fatalf("%s: %v", q, err)
		}
		return r
	}
	must("CREATE TABLE t_user (id BIGINT NOT NULL AUTO_INCREMENT, name VARCHAR(32) DEFAULT NULL, age INT NOT NULL DEFAULT 7, bal DECIMAL(10,2), ts DATETIME(6), PRIMARY KEY (id), UNIQUE KEY uk_name (name))")
	must(UndoDDL)
	r := must("INSERT INTO t_user (name, age) VALUES ('a', 1), (?, ?), ('c', DEFAULT)", "b", 2)
	if n, _ := r.RowsAffected(); n != 3 {
		t.Fatal("affected", n)
	}
	if id, _ := r.LastInsertId(); id != 1 {
		t.Fatal("last id", id)
	}
	if _, err := db.Exec("INSERT INTO t_user (name) VALUES ('a')"); errno(err) != 1062 {
		t.Fatal("want 1062", err)
	}
	if _, err := db.Exec("SELECT * FROM nope"); errno(err) != 1146 {
		t.Fatal("want 1146", err)
	}
	if _, err := db.Exec("SELEC 1"); errno(err) != 1064 {
		t.Fatal("want 1064", err)
	}
	r = must("UPDATE t_user SET age = 1 WHERE id = 1")
	if n, _ := r.RowsAffected(); n != 0 {
		t.Fatal("same-value update counted", n)
	}
	r = must("INSERT INTO t_user (id, name, age) VALUES (1, 'a', 9) ON DUPLICATE KEY UPDATE age = VALUES(age) + 1")
	if n, _ := r.RowsAffected(); n != 2 {
		t.Fatal("upsert affected", n)
	}
	var age int
	var name sql.NullString
	if err := db.QueryRow("SELECT SQL_NO_CACHE age, name FROM t_user WHERE (`id`) IN ((?)) FOR UPDATE", 1).Scan(&age, &name); err != nil || age != 10 {
		t.Fatal(age, err)
	}
	rows, err := db.Query("SELECT id FROM t_user WHERE (id, name) IN ((1,'a'),(?,?)) ORDER BY id DESC LIMIT 5", 3, "c")
	if err != nil {
		t.Fatal(err)
	}
	var ids []int
	for rows.Next() {
		var id int
		rows.Scan(&id)
		ids = append(ids, id)
	}
	if len(ids) != 2 || ids[0] != 3 {
		t.Fatal(ids)
	}
	// prepared, binary protocol, now(6), uint64 arg, string vs number coercion
	st, err := db.Prepare("INSERT INTO undo_log(branch_id,xid,context,rollback_info,log_status,log_created,log_modified) VALUES (?, ?, ?, ?, ?, now(6), now(6))")
	if err != nil {
		t.Fatal(err)
	}
	if _, err := st.Exec(uint64(77), "x:1", "ctx", []byte("{}"), int64(0)); err != nil {
		t.Fatal(err)
	}
	var created time.Time
	var info []byte
	if err := db.QueryRow("SELECT log_created, rollback_info FROM undo_log WHERE branch_id IN (?) AND xid IN (?)", "77", "x:1").Scan(&created, &info); err != nil {
		t.Fatal(err)
	}
	if created.Year() != 2024 || string(info) != "{}" {
		t.Fatal(created, info)
	}
	// transactions + locks
	tx1, _ := db.Begin()
	tx2, _ := db.Begin()
	if _, err := tx1.Exec("UPDATE t_user SET age = 50 WHERE id = 2"); err != nil {
		t.Fatal(err)
	}
	if _, err := tx2.Exec("UPDATE t_user SET age = 60 WHERE id = 2"); errno(err) != 1205 {
		t.Fatal("want 1205", err)
	}
	if _, err := tx2.Exec("SAVEPOINT sp1"); err != nil {
		t.Fatal(err)
	}
	if _, err := tx2.Exec("DELETE FROM t_user WHERE id = 3"); err != nil {
		t.Fatal(err)
	}
	if _, err := tx2.Exec("ROLLBACK TO SAVEPOINT sp1"); err != nil {
		t.Fatal(err)
	}
	if _, err := tx1.Exec("UPDATE t_user SET age = 51 WHERE id = 3"); err != nil {
		t.Fatal("lock after savepoint rollback not released", err)
	}
	tx1.Rollback()
	tx2.Commit()
	db.QueryRow("SELECT age FROM t_user WHERE id = 2").Scan(&age)
	if age != 2 {
		t.Fatal("rollback", age)
	}
	// info schema
	var n int
	if err := db.QueryRow("SELECT COUNT(*) FROM INFORMATION_SCHEMA.COLUMNS WHERE `TABLE_SCHEMA` = ? AND `TABLE_NAME` = ?", "t1", "T_USER").Scan(&n); err != nil || n != 5 {
		t.Fatal(n, err)
	}
	var v string
	if err := db.QueryRow("SELECT VERSION()").Scan(&v); err != nil || v != "5.7.30" {
		t.Fatal(v, err)
	}
	var vn, vv string
	if err := db.QueryRow("SHOW VARIABLES LIKE 'auto_increment_increment'").Scan(&vn, &vv); err != nil || vv != "1" {
		t.Fatal(vn, vv, err)
	}
	// XA
	c, _ := db.Conn(nil2())
	for _, q := range []string{"XA START 'g1'", "UPDATE t_user SET age = 99 WHERE id = 2", "XA END 'g1'", "XA PREPARE 'g1'"} {
		if _, err := c.ExecContext(nil2(), q); err != nil {
			t.Fatal(q, err)
		}
	}
	if _, err := c.ExecContext(nil2(), "SELECT 1"); errno(err) != 1399 {
		t.Fatal("want 1399", err)
	}
	if _, err := c.ExecContext(nil2(), "XA COMMIT 'g1'"); err != nil {
		t.Fatal(err)
	}
	c.Close()
	db.QueryRow("SELECT age FROM t_user WHERE id = 2").Scan(&age)
	if age != 99 {
		t.Fatal("xa commit", age)
	}
	s, _ := Driver.Server("u:p@tcp(127.0.0.1:3306)/t1")
	if len(s.Journal(0)) == 0 || len(s.Dump()) != 2 {
		t.Fatal("journal/dump")
	}
	if l := s.HeldLocks(); len(l) != 0 {
		t.Fatal("locks left", l)
	}
}

func nil2() context.Context { return context.Background() }
