package fakedb

import "github.com/arana-db/parser/ast"

// Name resolution happens before any row is looked at (as in MySQL): a
// statement that names an unknown column fails with 1054 even when its table
// is empty or the evaluation would never reach the name.

type colResolver struct {
	e   *env
	err error
}

func (c *colResolver) Enter(n ast.Node) (ast.Node, bool) {
	if c.err != nil {
		return n, true
	}
	switch x := n.(type) {
	case *ast.ColumnNameExpr:
		saved := c.e.row
		c.e.row = nil
		_, c.err = c.e.column(x.Name)
		c.e.row = saved
		return n, true
	case *ast.SubqueryExpr:
		return n, true
	}
	return n, false
}

func (c *colResolver) Leave(n ast.Node) (ast.Node, bool) { return n, true }

// resolveColumns checks every column reference of the given expressions
// against e.t (nil nodes are skipped).
func (e *env) resolveColumns(nodes ...ast.ExprNode) error {
	c := &colResolver{e: e}
	for _, n := range nodes {
		if n == nil {
			continue
		}
		n.Accept(c)
		if c.err != nil {
			return c.err
		}
	}
	return nil
}

func byItemExprs(o *ast.OrderByClause) []ast.ExprNode {
	if o == nil {
		return nil
	}
	out := make([]ast.ExprNode, 0, len(o.Items))
	for _, it := range o.Items {
		out = append(out, it.Expr)
	}
	return out
}
