package fakedb

import (
	"sort"
	"strings"
)

func vtable(name string, cols ...*Column) *Table {
	t := &Table{Name: name, colIdx: map[string]int{}, virtual: true}
	for i, c := range cols {
		t.colIdx[strings.ToLower(c.Name)] = i
		t.Cols = append(t.Cols, c)
	}
	return t
}

func vcol(name, base string, notNull bool) *Column {
	return &Column{Name: name, Type: ColType{Base: base, Len: map[string]int{"VARCHAR": 64, "BIGINT": 21, "LONGTEXT": -1}[base], Dec: -1}, NotNull: notNull}
}

// infoSchema synthesises INFORMATION_SCHEMA.COLUMNS / STATISTICS / TABLES from
// the catalog (the queries of pkg/datasource/sql/datasource/mysql/trigger.go).
func (s *Server) schemaOf(t *Table) string {
	if t.Schema != "" {
		return t.Schema
	}
	return s.Schema
}

func (s *Server) infoSchema(name string) *Table {
	names := make([]string, 0, len(s.tables))
	for n := range s.tables {
		names = append(names, n)
	}
	sort.Strings(names)
	switch name {
	case "columns":
		t := vtable("COLUMNS",
			vcol("TABLE_CATALOG", "VARCHAR", true), vcol("TABLE_SCHEMA", "VARCHAR", true), vcol("TABLE_NAME", "VARCHAR", true),
			vcol("COLUMN_NAME", "VARCHAR", true), vcol("ORDINAL_POSITION", "BIGINT", true), vcol("COLUMN_DEFAULT", "LONGTEXT", false),
			vcol("IS_NULLABLE", "VARCHAR", true), vcol("DATA_TYPE", "VARCHAR", true), vcol("COLUMN_TYPE", "LONGTEXT", true),
			vcol("COLUMN_KEY", "VARCHAR", true), vcol("EXTRA", "VARCHAR", true), vcol("COLUMN_COMMENT", "VARCHAR", true))
		for _, n := range names {
			tb := s.tables[n]
			for i, c := range tb.Cols {
				def := Null
				switch {
				case c.DefaultNow:
					def = StrV("CURRENT_TIMESTAMP")
					if c.Type.Dec > 0 {
						def = StrV("CURRENT_TIMESTAMP(" + itoa(c.Type.Dec) + ")")
					}
				case c.HasDefault && !c.Default.IsNull():
					def = StrV(c.Default.Text())
					if c.Default.K == KTime {
						def = StrV(formatTime(c.Default.T, c.Type.Dec, c.Type.Base == "DATE"))
					}
				}
				key := ""
				for _, ix := range tb.Indexes {
					if ix.Cols[0] != i {
						continue
					}
					switch {
					case ix.Primary:
						key = "PRI"
					case ix.Unique && len(ix.Cols) == 1 && key != "PRI":
						key = "UNI"
					case key == "":
						key = "MUL"
					}
				}
				if key == "" && tb.pk != nil {
					for _, ci := range tb.pk.Cols {
						if ci == i {
							key = "PRI"
						}
					}
				}
				extra := ""
				if c.AutoInc {
					extra = "auto_increment"
				} else if c.OnUpdateNow {
					extra = "on update CURRENT_TIMESTAMP"
				}
				nullable := "YES"
				if c.NotNull {
					nullable = "NO"
				}
				t.rows = append(t.rows, &row{vals: []Value{StrV("def"), StrV(s.schemaOf(tb)), StrV(tb.Name), StrV(c.Name), IntV(int64(i + 1)), def,
					StrV(nullable), StrV(c.Type.DataType()), StrV(c.Type.ColumnTypeText()), StrV(key), StrV(extra), StrV("")}})
			}
		}
		return t
	case "statistics":
		t := vtable("STATISTICS",
			vcol("TABLE_CATALOG", "VARCHAR", true), vcol("TABLE_SCHEMA", "VARCHAR", true), vcol("TABLE_NAME", "VARCHAR", true),
			vcol("NON_UNIQUE", "BIGINT", true), vcol("INDEX_SCHEMA", "VARCHAR", true), vcol("INDEX_NAME", "VARCHAR", true),
			vcol("SEQ_IN_INDEX", "BIGINT", true), vcol("COLUMN_NAME", "VARCHAR", true), vcol("INDEX_TYPE", "VARCHAR", true))
		for _, n := range names {
			tb := s.tables[n]
			for _, ix := range tb.Indexes {
				for seq, ci := range ix.Cols {
					t.rows = append(t.rows, &row{vals: []Value{StrV("def"), StrV(s.schemaOf(tb)), StrV(tb.Name), IntV(int64(b2i(!ix.Unique))),
						StrV(s.schemaOf(tb)), StrV(ix.Name), IntV(int64(seq + 1)), StrV(tb.Cols[ci].Name), StrV("BTREE")}})
				}
			}
		}
		return t
	case "tables":
		t := vtable("TABLES", vcol("TABLE_CATALOG", "VARCHAR", true), vcol("TABLE_SCHEMA", "VARCHAR", true), vcol("TABLE_NAME", "VARCHAR", true),
			vcol("TABLE_TYPE", "VARCHAR", true))
		for _, n := range names {
			t.rows = append(t.rows, &row{vals: []Value{StrV("def"), StrV(s.schemaOf(s.tables[n])), StrV(s.tables[n].Name), StrV("BASE TABLE")}})
		}
		return t
	}
	return nil
}
