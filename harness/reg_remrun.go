package main

import "verifh/remrun"

func init() {
	subcommands["remrun14"] = remrun.Run14
	subcommands["remrun15"] = remrun.Run15
	subcommands["remruntcp"] = remrun.RunTCP
}
