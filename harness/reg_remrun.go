package main

import "verifh/remrun"

func init() {
	subcommands["remrun14"] = remrun.Run14
}
