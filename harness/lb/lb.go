// Package lb (C19): (1) runs the REAL loadbalance.Select over a registry of fake
// getty sessions that open and close between selections and records which
// session every call returned; (2) drives the real client handler
// (gettyClientHandler.OnOpen / OnClose) and the real resource registration
// (TCC resource manager -> RMRemoting.RegisterResource) over a fake session
// that records what is written, through connection-loss / reconnect histories.
// The property's own statement is evaluated here (direct oracle); the driver
// compares with the Coq model (coq/Remoting/LbModel.v).
package lb

import (
	"context"
	"crypto/md5"
	"encoding/hex"
	"fmt"
	"net"
	"reflect"
	"sort"
	"strings"
	"sync"
	"time"

	gettylib "github.com/apache/dubbo-getty"

	at "seata.apache.org/seata-go/pkg/datasource/sql"
	"seata.apache.org/seata-go/pkg/datasource/sql/undo"
	"seata.apache.org/seata-go/pkg/discovery"
	"seata.apache.org/seata-go/pkg/protocol/branch"
	"seata.apache.org/seata-go/pkg/protocol/codec"
	"seata.apache.org/seata-go/pkg/protocol/message"
	rconfig "seata.apache.org/seata-go/pkg/remoting/config"
	"seata.apache.org/seata-go/pkg/remoting/getty"
	"seata.apache.org/seata-go/pkg/remoting/loadbalance"
	"seata.apache.org/seata-go/pkg/remoting/rpc"
	"seata.apache.org/seata-go/pkg/rm"
	"seata.apache.org/seata-go/pkg/rm/tcc"
	"seata.apache.org/seata-go/pkg/tm"

	"verifh/hutil"
)

// ---------------------------------------------------------------- fake session

type fakeSession struct {
	gettylib.Session // nil: any method not overridden below panics (an observable)
	id               int
	addr             string
	mu               sync.Mutex
	closed           bool
	writes           []message.RpcMessage
	onWrite          func(s *fakeSession, m message.RpcMessage)
	failNext         int // the next failNext writes fail (write timeout / full buffer) while the session stays open
	attempts         int // WritePkg calls, failed ones included
	attrs            sync.Map
}

func (s *fakeSession) IsClosed() bool {
	s.mu.Lock()
	defer s.mu.Unlock()
	return s.closed
}
func (s *fakeSession) Close() {
	s.mu.Lock()
	s.closed = true
	s.mu.Unlock()
}
func (s *fakeSession) RemoteAddr() string                  { return s.addr }
func (s *fakeSession) LocalAddr() string                   { return "127.0.0.1:50000" }
func (s *fakeSession) Stat() string                        { return fmt.Sprintf("fake-session-%d{%s}", s.id, s.addr) }
func (s *fakeSession) ID() uint32                          { return uint32(s.id) }
func (s *fakeSession) Conn() net.Conn                      { return nil }
func (s *fakeSession) GetAttribute(k interface{}) interface{} { v, _ := s.attrs.Load(k); return v }
func (s *fakeSession) SetAttribute(k interface{}, v interface{}) { s.attrs.Store(k, v) }
func (s *fakeSession) RemoveAttribute(k interface{})       { s.attrs.Delete(k) }
func (s *fakeSession) WritePkg(pkg interface{}, timeout time.Duration) (int, int, error) {
	if s.IsClosed() {
		return 0, 0, fmt.Errorf("session closed")
	}
	m, ok := pkg.(message.RpcMessage)
	if !ok {
		return 0, 0, fmt.Errorf("not an RpcMessage")
	}
	s.mu.Lock()
	s.attempts++
	if s.failNext > 0 {
		s.failNext--
		s.mu.Unlock()
		return 0, 0, fmt.Errorf("write tcp %s: i/o timeout", s.addr)
	}
	s.writes = append(s.writes, m)
	cb := s.onWrite
	s.mu.Unlock()
	if cb != nil {
		cb(s, m)
	}
	return 1, 1, nil
}
func (s *fakeSession) nAttempts() int {
	s.mu.Lock()
	defer s.mu.Unlock()
	return s.attempts
}
func (s *fakeSession) nWrites() int {
	s.mu.Lock()
	defer s.mu.Unlock()
	return len(s.writes)
}

// ---------------------------------------------------------------- selection histories

type Event struct {
	K      string `json:"k"` // open | close | release | begin | end | select
	ID     int    `json:"id,omitempty"`
	Addr   string `json:"addr,omitempty"` // hex
	Policy string `json:"policy,omitempty"`
	Xid    string `json:"xid,omitempty"` // hex
	// observation of a select
	Class  string `json:"class,omitempty"` // ok | panic | diverged
	Nil    bool   `json:"nil,omitempty"`
	Pick   int    `json:"pick,omitempty"`
	Oracle string `json:"oracle,omitempty"`
	Via    string `json:"via,omitempty"` // integrated path: the request type that was sent
}

type History struct {
	Events []Event           `json:"events"`
	Hash   map[string]uint32 `json:"hash"` // hex(key) -> first 4 bytes of md5, big-endian
	Oracle string            `json:"oracle"`
	BadAt  int               `json:"bad_at"`
	Feat   []string          `json:"feat"`
	Index  int               `json:"index"`
}

// the first entries are in a string-prefix relation with each other (port 809 / 8091 / 80,
// ip 10.0.0.1 / 10.0.0.10): an address comparison that is not an equality shows
var addrPool = []string{"10.0.0.1:8091", "10.0.0.1:809", "10.0.0.10:8091", "10.0.0.1:80", "10.0.0.2:8091", "10.0.0.2:8092", "tc-0.seata:8091", "[::1]:8091"}
var policies = []string{"RandomLoadBalance", "XID", "RoundRobinLoadBalance", "ConsistentHashLoadBalance", "LeastActiveLoadBalance"}
var oddPolicies = []string{"", "Random", "xid", "ConsistentHash", "LeastActive "}

func hx(s string) string { return hex.EncodeToString([]byte(s)) }

func md5pos(key string) uint32 {
	h := md5.Sum([]byte(key))
	return uint32(h[0])<<24 | uint32(h[1])<<16 | uint32(h[2])<<8 | uint32(h[3])
}

func genXid(r *hutil.Rng, addrs []string) string {
	switch r.Intn(10) {
	case 0:
		return ""
	case 1:
		return string(r.Bytes(1 + r.Intn(12)))
	case 2:
		return addrPool[r.Intn(len(addrPool))] // two parts only
	case 3:
		return addrPool[r.Intn(len(addrPool))] + ":7:8" // four parts
	case 4:
		return "::" + fmt.Sprint(r.Intn(99))
	case 5:
		return addrPool[r.Intn(len(addrPool))] + ":" + fmt.Sprint(r.Next()%100000)
	default:
		if len(addrs) > 0 {
			return addrs[r.Intn(len(addrs))] + ":" + fmt.Sprint(r.Next()%100000)
		}
		return addrPool[r.Intn(len(addrPool))] + ":1"
	}
}

type regEntry struct {
	s        *fakeSession
	released bool
}

func runHistory(r *hutil.Rng, idx int) History {
	loadbalance.VerifReset()
	for _, a := range addrPool {
		rpc.RemoveStatus(a)
	}
	h := History{Hash: map[string]uint32{}, BadAt: -1}
	m := &sync.Map{}
	var reg []*regEntry
	active := map[string]int{}
	nextID := 1
	// the history's policy mix
	mainPolicy := policies[idx%len(policies)]
	mixed := r.Chance(1, 5)
	n := 8 + r.Intn(18)
	npool := 2 + r.Intn(len(addrPool)-1)
	feat := map[string]bool{}
	open := func() {
		a := addrPool[r.Intn(npool)]
		s := &fakeSession{id: nextID, addr: a}
		nextID++
		m.Store(s, true)
		reg = append(reg, &regEntry{s: s})
		h.Events = append(h.Events, Event{K: "open", ID: s.id, Addr: hx(a)})
		for i := 0; i < 10; i++ {
			k := fmt.Sprintf("%s%d", a, i)
			h.Hash[hx(k)] = md5pos(k)
		}
	}
	for i := 0; i < 1+r.Intn(4); i++ {
		open()
	}
	if r.Chance(1, 12) { // start from an empty / all-closed registry sometimes
		for _, e := range reg {
			e.s.Close()
			h.Events = append(h.Events, Event{K: "close", ID: e.s.id})
		}
	}
	for step := 0; step < n; step++ {
		var live []*regEntry
		for _, e := range reg {
			if !e.released && !e.s.IsClosed() {
				live = append(live, e)
			}
		}
		c := r.Intn(100)
		switch {
		case c < 12 && nextID <= 7:
			open()
		case c < 26 && len(live) > 0:
			e := live[r.Intn(len(live))]
			if r.Chance(1, 2) {
				e.s.Close() // closed, still in the registry until some Range drops it
				h.Events = append(h.Events, Event{K: "close", ID: e.s.id})
			} else { // SessionManager.releaseSession: delete, then close
				m.Delete(e.s)
				e.s.Close()
				e.released = true
				h.Events = append(h.Events, Event{K: "release", ID: e.s.id})
			}
			feat["close"] = true
		case c < 34:
			a := addrPool[r.Intn(npool)]
			if active[a] > 0 && r.Chance(1, 2) {
				rpc.EndCount(a)
				active[a]--
				h.Events = append(h.Events, Event{K: "end", Addr: hx(a)})
			} else {
				rpc.BeginCount(a)
				active[a]++
				h.Events = append(h.Events, Event{K: "begin", Addr: hx(a)})
			}
		default:
			p := mainPolicy
			if mixed {
				p = policies[r.Intn(len(policies))]
			}
			if r.Chance(1, 25) {
				p = oddPolicies[r.Intn(len(oddPolicies))]
			}
			var liveAddrs []string
			for _, e := range reg {
				liveAddrs = append(liveAddrs, e.s.addr)
			}
			xid := genXid(r, liveAddrs)
			h.Hash[hx(xid)] = md5pos(xid)
			// the same selection several times: sync.Map iteration order varies between calls
			reps := 1 + r.Intn(3)
			for rep := 0; rep < reps; rep++ {
				ev := doSelect(p, m, xid, reg, live)
				feat[p] = true
				if ev.Oracle != "" && h.Oracle == "" {
					h.Oracle, h.BadAt = ev.Oracle, len(h.Events)
				}
				h.Events = append(h.Events, ev)
			}
		}
	}
	for k := range feat {
		h.Feat = append(h.Feat, k)
	}
	// leave the global status map clean
	for a, c := range active {
		for ; c > 0; c-- {
			rpc.EndCount(a)
		}
	}
	return h
}

// ---- enumerated families: short scripted histories, each on a FRESH map and fresh package
// state, repeated because what they look for depends on sync.Map's iteration order and on the
// random fallback (per round the pick is decided by two coin flips at worst)
type step struct {
	op   string // open | close | release | select
	addr string // open
	i    int    // close / release: index of the session in opening order
	xid  string // select
}

func runScripted(policy string, steps []step, feat string) History {
	loadbalance.VerifReset()
	for _, a := range addrPool {
		rpc.RemoveStatus(a)
	}
	h := History{Hash: map[string]uint32{}, BadAt: -1, Feat: []string{feat, policy}}
	m := &sync.Map{}
	var reg []*regEntry
	for _, st := range steps {
		switch st.op {
		case "open":
			s := &fakeSession{id: len(reg) + 1, addr: st.addr}
			m.Store(s, true)
			reg = append(reg, &regEntry{s: s})
			h.Events = append(h.Events, Event{K: "open", ID: s.id, Addr: hx(st.addr)})
			for i := 0; i < 10; i++ {
				k := fmt.Sprintf("%s%d", st.addr, i)
				h.Hash[hx(k)] = md5pos(k)
			}
		case "close": // closed, still in the registry (the reconnect window)
			reg[st.i].s.Close()
			h.Events = append(h.Events, Event{K: "close", ID: reg[st.i].s.id})
		case "release":
			m.Delete(reg[st.i].s)
			reg[st.i].s.Close()
			reg[st.i].released = true
			h.Events = append(h.Events, Event{K: "release", ID: reg[st.i].s.id})
		case "select":
			var live []*regEntry
			for _, e := range reg {
				if !e.released && !e.s.IsClosed() {
					live = append(live, e)
				}
			}
			h.Hash[hx(st.xid)] = md5pos(st.xid)
			ev := doSelect(policy, m, st.xid, reg, live)
			if ev.Oracle != "" && h.Oracle == "" {
				h.Oracle, h.BadAt = ev.Oracle, len(h.Events)
			}
			h.Events = append(h.Events, ev)
		}
	}
	return h
}

// families returns the scripted histories of one run (deterministic from the rng)
func families(r *hutil.Rng) []History {
	var out []History
	others := []string{"10.0.0.2:8091", "10.0.0.10:8091", "tc-0.seata:8091"}
	xidOf := func(a string) string { return a + ":" + fmt.Sprint(r.Next()%1000000) }
	// (F1) the reconnect window: a CLOSED session and its OPEN successor at the xid's address,
	// both registered, k other open sessions; ONE selection (the first after the reconnect)
	for _, p := range policies {
		rounds := 8
		if p == "XID" {
			rounds = 90
		}
		for round := 0; round < rounds; round++ {
			a := addrPool[round%2] // 10.0.0.1:8091 / 10.0.0.1:809
			k := 1 + round%3
			var st []step
			// the order in which the sessions enter the map varies too
			switch round % 3 {
			case 0:
				st = append(st, step{op: "open", addr: a}, step{op: "close", i: 0}, step{op: "open", addr: a})
				for j := 0; j < k; j++ {
					st = append(st, step{op: "open", addr: others[j]})
				}
			case 1:
				for j := 0; j < k; j++ {
					st = append(st, step{op: "open", addr: others[j]})
				}
				st = append(st, step{op: "open", addr: a}, step{op: "close", i: k}, step{op: "open", addr: a})
			default:
				st = append(st, step{op: "open", addr: a}, step{op: "open", addr: others[0]}, step{op: "close", i: 0}, step{op: "open", addr: a})
				for j := 1; j < k; j++ {
					st = append(st, step{op: "open", addr: others[j]})
				}
			}
			st = append(st, step{op: "select", xid: xidOf(a)})
			out = append(out, runScripted(p, st, "family:reconnect-window"))
		}
	}
	// (F2) addresses in a string-prefix relation, xid of the longer one; ONE selection
	for round := 0; round < 40; round++ {
		pair := [][2]string{{"10.0.0.1:809", "10.0.0.1:8091"}, {"10.0.0.1:80", "10.0.0.1:809"}, {"10.0.0.1:8091", "10.0.0.10:8091"}}[round%3]
		st := []step{{op: "open", addr: pair[round/3%2]}, {op: "open", addr: pair[1-round/3%2]}}
		if round%4 == 0 {
			st = append(st, step{op: "open", addr: others[0]})
		}
		st = append(st, step{op: "select", xid: xidOf(pair[1])})
		out = append(out, runScripted("XID", st, "family:prefix-addresses"))
	}
	// (F3) consistent hash: the ring is built over an EMPTY registry, sessions open later
	for round := 0; round < 6; round++ {
		st := []step{{op: "select", xid: xidOf(others[0])}}
		for j := 0; j <= round%3; j++ {
			st = append(st, step{op: "open", addr: addrPool[(round+j)%len(addrPool)]})
		}
		st = append(st, step{op: "select", xid: xidOf(addrPool[round%4])}, step{op: "select", xid: xidOf(others[1])})
		out = append(out, runScripted("ConsistentHashLoadBalance", st, "family:ring-built-empty"))
	}
	// (F4) consistent hash: every ring member closes (flag only / released), a new session opens
	for round := 0; round < 10; round++ {
		a, b, c := addrPool[round%5], addrPool[(round+2)%5+1], addrPool[(round+4)%6]
		st := []step{{op: "open", addr: a}, {op: "open", addr: b}, {op: "select", xid: xidOf(a)}}
		if round%2 == 0 {
			st = append(st, step{op: "close", i: 0}, step{op: "close", i: 1})
		} else {
			st = append(st, step{op: "release", i: 0}, step{op: "close", i: 1})
		}
		st = append(st, step{op: "open", addr: c}, step{op: "select", xid: xidOf(a)}, step{op: "select", xid: xidOf(c)})
		out = append(out, runScripted("ConsistentHashLoadBalance", st, "family:stale-ring"))
	}
	return out
}

// doSelect calls the real Select once and evaluates the property on the answer
func doSelect(p string, m *sync.Map, xid string, reg []*regEntry, live []*regEntry) Event {
	ev := Event{K: "select", Policy: p, Xid: hx(xid)}
	var got gettylib.Session
	class, detail := hutil.Guard(6*time.Second, func() error {
		got = loadbalance.Select(p, m, xid)
		return nil
	})
	ev.Class = class
	if class != hutil.OutOK {
		ev.Oracle = "Select " + class + ": " + firstLine(detail)
		return ev
	}
	if got == nil {
		ev.Nil = true
		if len(live) > 0 {
			ev.Oracle = fmt.Sprintf("Select(%s) returned nil although %d registered session(s) are open", p, len(live))
		}
		return ev
	}
	fs, ok := got.(*fakeSession)
	if !ok {
		ev.Oracle = "Select returned a foreign session"
		return ev
	}
	ev.Pick = fs.id
	var ent *regEntry
	for _, e := range reg {
		if e.s == fs {
			ent = e
		}
	}
	switch {
	case fs.IsClosed():
		ev.Oracle = fmt.Sprintf("Select(%s) returned the CLOSED session %d (%s) while %d open session(s) are registered", p, fs.id, fs.addr, len(live))
	case ent == nil || ent.released:
		ev.Oracle = fmt.Sprintf("Select(%s) returned session %d which is not registered", p, fs.id)
	case p == "XID":
		parts := strings.Split(xid, ":")
		if len(parts) == 3 {
			want := parts[0] + ":" + parts[1]
			has := false
			for _, e := range live {
				if e.s.addr == want {
					has = true
				}
			}
			if has && fs.addr != want {
				ev.Oracle = fmt.Sprintf("XID policy: xid %q went to the session connected to %s although an open session to %s exists", xid, fs.addr, want)
			}
		}
	}
	return ev
}

func firstLine(s string) string {
	if i := strings.IndexByte(s, '\n'); i >= 0 {
		return s[:i]
	}
	return s
}

// ---------------------------------------------------------------- re-announcement histories

type CEvent struct {
	K      string   `json:"k"` // resource | lost | reconnect
	Res    string   `json:"res,omitempty"`
	BT     int      `json:"bt"` // resource: branch type (0 AT, 1 TCC, 3 XA)
	SendFail bool   `json:"send_fail,omitempty"` // resource: the write of its RegisterRMRequest fails
	ByPeer bool     `json:"by_peer,omitempty"` // lost: the session was already closed when the handler released it
	Via    string   `json:"via,omitempty"`     // lost: OnClose | OnError
	Addr   string   `json:"addr"`              // address of the session the event is about
	Sent   []string `json:"sent"`              // requests written as a consequence: "TM" | "RM:<resource ids>" | other type names
	Sess   int      `json:"sess"`              // session they were written on (0: none)
	WriteFail bool  `json:"write_fail,omitempty"` // reconnect: the first write on the new session fails while it is open
	Open   bool     `json:"open"`              // the event's session is open once the event has settled
	Per    int      `json:"per"`               // VerifServerSessions(addr) after the event: entries recorded under the address
	All    int      `json:"all"`               // ... and size of the registry used for selection
	// reconnect events: the property evaluated on the real run
	Oracle string   `json:"oracle,omitempty"`
	Pred   []string `json:"pred,omitempty"` // feature predicates of KNOWN_FINDINGS the history up to here satisfies
	Held   []string `json:"held,omitempty"` // resources registered before this event
}

type CHistory struct {
	Events    []CEvent `json:"events"`
	Oracle    string   `json:"oracle"`
	BadAt     int      `json:"bad_at"`
	Resources []string `json:"resources"`
}

// a resource of a data-source resource manager without a database behind it
type plainResource struct {
	id string
	bt branch.BranchType
}

func (p *plainResource) GetResourceGroupId() string       { return "DEFAULT" }
func (p *plainResource) GetResourceId() string            { return p.id }
func (p *plainResource) GetBranchType() branch.BranchType { return p.bt }

type action struct{ name string }

func (a *action) Prepare(ctx context.Context, params interface{}) (bool, error) { return true, nil }
func (a *action) Commit(ctx context.Context, b *tm.BusinessActionContext) (bool, error) {
	return true, nil
}
func (a *action) Rollback(ctx context.Context, b *tm.BusinessActionContext) (bool, error) {
	return true, nil
}
func (a *action) GetActionName() string { return a.name }

var clientOnce sync.Once

func initClient() {
	clientOnce.Do(func() {
		// a file registry without any endpoint: the session manager starts no TCP client,
		// every session the client sees is one the harness opens
		discovery.InitRegistry(&discovery.ServiceConfig{}, &discovery.RegistryConfig{Type: discovery.FILE})
		getty.InitGetty(&rconfig.Config{LoadBalanceType: "XID"},
			&rconfig.SeataConfig{ApplicationID: "verif-app", TxServiceGroup: "verif-group", LoadBalanceType: "XID"})
		rm.InitRm(rm.RmConfig{ApplicationID: "verif-app", TxServiceGroup: "verif-group"})
		tcc.InitTCC()
		at.InitAT(undo.Config{}, at.AsyncWorkerConfig{BufferLimit: 10, BufferCleanInterval: time.Hour, ReceiveChanSize: 10, CommitWorkerCount: 1, CommitWorkerBufferSize: 10})
		at.InitXA(at.XAConfig{TwoPhaseHoldTime: time.Second})
	})
}

func describe(m message.RpcMessage) string {
	switch b := m.Body.(type) {
	case message.RegisterTMRequest:
		return "TM"
	case message.RegisterRMRequest:
		return "RM:" + b.ResourceIds
	case message.HeartBeatMessage:
		return "HB"
	default:
		return fmt.Sprintf("%T", m.Body)
	}
}

// answer completes sync requests so that RegisterResource returns
func answer(s *fakeSession, m message.RpcMessage) {
	var body interface{}
	switch m.Body.(type) {
	case message.RegisterRMRequest:
		body = message.RegisterRMResponse{AbstractIdentifyResponse: message.AbstractIdentifyResponse{Identified: true, Version: "1.5.2"}}
	case message.RegisterTMRequest:
		body = message.RegisterTMResponse{AbstractIdentifyResponse: message.AbstractIdentifyResponse{Identified: true, Version: "1.5.2"}}
	default:
		return
	}
	go func() {
		defer func() { recover() }()
		time.Sleep(2 * time.Millisecond)
		getty.GetGettyRemotingClient().NotifyRpcMessageResponse(message.RpcMessage{ID: m.ID, Type: message.GettyRequestTypeResponse, Codec: m.Codec, Body: body})
	}()
}

func waitWrites(s *fakeSession, want int, max time.Duration) {
	// the first request (RegisterTM) is written by a goroutine of OnOpen: give it
	// ample time even on a loaded machine, then wait briefly for anything further
	dl := time.Now().Add(8 * time.Second)
	for time.Now().Before(dl) && s.nWrites() < 1 {
		time.Sleep(2 * time.Millisecond)
	}
	dl = time.Now().Add(max)
	for time.Now().Before(dl) {
		if s.nWrites() >= want {
			break
		}
		time.Sleep(2 * time.Millisecond)
	}
	time.Sleep(15 * time.Millisecond) // late writes
}

func sentOf(s *fakeSession, from int) []string {
	s.mu.Lock()
	defer s.mu.Unlock()
	out := []string{}
	for _, m := range s.writes[from:] {
		d := describe(m)
		if d != "HB" {
			out = append(out, d)
		}
	}
	return out
}

var resCounter int

// resources registered by the client history of this process (the caches are process-global)
var heldResources []string

var clientAddrs = []string{"127.0.0.1:8091", "127.0.0.1:8092", "10.0.0.5:8091"}

// one history through the REAL session manager paths (OnOpen -> registerSession,
// OnClose/OnError -> releaseSession). Script tokens:
//   resource | lost:open | lost:peer | reconnect:same | reconnect:other
// lost:peer = the session is already closed when the handler hears about it (peer
// reset / EOF); lost:open = released while still open (heart-beat retry path).
func runClientHistory(r *hutil.Rng, script []string) CHistory {
	initClient()
	h := CHistory{BadAt: -1}
	handler := getty.GetGettyClientHandlerInstance()
	sid := 1000
	addrIdx := 0
	var registered []string
	typesHeld := map[branch.BranchType]bool{}
	var cur *fakeSession
	connected := false
	counts := func(ev *CEvent) {
		ev.Per, ev.All = getty.VerifServerSessions(ev.Addr)
	}
	check := func(ev *CEvent, idx int) {
		// the property on a new session: RegisterTM and RegisterRM for every registered resource
		var missing []string
		hasTM := false
		announced := map[string]bool{}
		for _, s := range ev.Sent {
			if s == "TM" {
				hasTM = true
			}
			if strings.HasPrefix(s, "RM:") {
				for _, id := range strings.Split(s[3:], ",") {
					announced[id] = true
				}
			}
		}
		if !ev.Open {
			// the session did not survive its own opening (OnOpen released it again): there is
			// no established session to speak of; getty reconnects
			return
		}
		if !hasTM {
			missing = append(missing, "RegisterTMRequest")
		}
		for _, id := range registered {
			if !announced[id] {
				missing = append(missing, "RegisterRMRequest("+id+")")
			}
		}
		ev.Held = append([]string{}, registered...)
		if len(missing) > 0 {
			ev.Oracle = fmt.Sprintf("after the connection was (re-)established the new session %d to %s is open and registered (%d in the registry) but did not carry: %s", ev.Sess, ev.Addr, ev.All, strings.Join(missing, ", "))
			if ev.WriteFail {
				ev.Oracle += " (its first write failed and nothing retried)"
			}
			if h.Oracle == "" {
				h.Oracle, h.BadAt = ev.Oracle, idx
			}
		}
	}
	for _, k := range script {
		switch {
		case strings.HasPrefix(k, "resource"):
			if !connected {
				continue // registering while disconnected waits 60 s for a session (C14/C15 territory)
			}
			resCounter++
			// branch type of the resource: TCC through the TCC resource manager, AT / XA through
			// the data-source resource managers (a resource without a database behind it: the
			// managers cache and announce any rm.Resource)
			bt := []branch.BranchType{branch.BranchTypeTCC, branch.BranchTypeTCC, branch.BranchTypeAT, branch.BranchTypeXA}[r.Intn(4)]
			switch { // a script may name the resource manager
			case strings.HasSuffix(k, ":tcc"):
				bt = branch.BranchTypeTCC
			case strings.HasSuffix(k, ":at"):
				bt = branch.BranchTypeAT
			case strings.HasSuffix(k, ":xa"):
				bt = branch.BranchTypeXA
			}
			name := fmt.Sprintf("verifRes%d_%d", resCounter, r.Intn(1000))
			if bt != branch.BranchTypeTCC {
				name = fmt.Sprintf("jdbc:mysql://db%d:3306/s%d", r.Intn(1000), resCounter)
			}
			before := cur.nWrites()
			var res rm.Resource
			if bt == branch.BranchTypeTCC {
				act, err := rm.ParseTwoPhaseAction(&action{name: name})
				if err != nil {
					h.Oracle = "ParseTwoPhaseAction: " + err.Error()
					return h
				}
				res = &tcc.TCCResource{ResourceGroupId: "DEFAULT", AppName: "verif-app", TwoPhaseAction: act}
			} else {
				res = &plainResource{id: name, bt: bt}
			}
			sendFails := strings.HasPrefix(k, "resource:fail")
			if sendFails {
				cur.mu.Lock()
				cur.failNext = 1 // the RegisterRMRequest cannot be written (timeout, full buffer); the session stays open
				cur.mu.Unlock()
			}
			class, detail := hutil.Guard(12*time.Second, func() error {
				return rm.GetRmCacheInstance().GetResourceManager(bt).RegisterResource(res)
			})
			ev := CEvent{K: "resource", Res: name, BT: int(bt), Sess: cur.id, Addr: cur.addr, SendFail: sendFails}
			switch {
			case class == hutil.OutPanic || class == hutil.OutDiverged:
				ev.Sent = []string{"<<" + class + ": " + firstLine(detail) + ">>"}
				if h.Oracle == "" {
					h.Oracle, h.BadAt = "RegisterResource "+class+": "+firstLine(detail), len(h.Events)
				}
			case class == hutil.OutErr && !sendFails:
				ev.Sent = []string{"<<error: " + firstLine(detail) + ">>"}
				if h.Oracle == "" {
					h.Oracle, h.BadAt = "RegisterResource failed although the session accepted the write: "+firstLine(detail), len(h.Events)
				}
			default:
				// the application has registered the resource, whatever became of the first
				// announcement (an error is returned to it when the write failed): from now on
				// every new session has to be told
				ev.Sent = sentOf(cur, before)
				registered = append(registered, name)
				typesHeld[bt] = true
			}
			ev.Open = !cur.IsClosed()
			counts(&ev)
			h.Events = append(h.Events, ev)
		case strings.HasPrefix(k, "lost"):
			if !connected {
				continue
			}
			s := cur
			ev := CEvent{K: "lost", Sess: s.id, Addr: s.addr, Sent: []string{}, ByPeer: k == "lost:peer", Via: "OnClose"}
			if ev.ByPeer {
				s.Close() // the peer went away: getty finds the session closed and then tells the listener
			}
			switch r.Intn(3) {
			case 0:
				ev.Via = "OnError"
			case 1:
				ev.Via = "OnError+OnClose" // what getty does on a read error: the listener hears both
			}
			hutil.Guard(5*time.Second, func() error {
				if ev.Via != "OnClose" {
					handler.OnError(s, fmt.Errorf("connection reset by peer"))
				}
				if ev.Via != "OnError" {
					handler.OnClose(s)
				}
				return nil
			})
			connected = false
			ev.Open = !s.IsClosed()
			counts(&ev)
			h.Events = append(h.Events, ev)
		case strings.HasPrefix(k, "reconnect"):
			if connected {
				continue
			}
			if strings.HasPrefix(k, "reconnect:other") {
				addrIdx = (addrIdx + 1 + r.Intn(len(clientAddrs)-1)) % len(clientAddrs)
			}
			sid++
			cur = &fakeSession{id: sid, addr: clientAddrs[addrIdx], onWrite: answer}
			s := cur
			ev := CEvent{K: "reconnect", Sess: s.id, Addr: s.addr, WriteFail: strings.HasSuffix(k, ":fail")}
			if ev.WriteFail {
				s.failNext = 1 // write timeout / full buffer on the fresh connection; the session stays open
			}
			class, detail := hutil.Guard(5*time.Second, func() error { return handler.OnOpen(s) })
			if class != hutil.OutOK {
				ev.Sent = []string{"<<" + class + ": " + firstLine(detail) + ">>"}
			} else if ev.WriteFail {
				// wait for the attempt, then for what OnOpen does about the failure
				dl := time.Now().Add(8 * time.Second)
				for time.Now().Before(dl) && s.nAttempts() < 1 {
					time.Sleep(2 * time.Millisecond)
				}
				dl = time.Now().Add(250 * time.Millisecond)
				for time.Now().Before(dl) && !s.IsClosed() {
					time.Sleep(2 * time.Millisecond)
				}
				time.Sleep(15 * time.Millisecond)
				ev.Sent = sentOf(s, 0)
			} else {
				waitWrites(s, 1+len(typesHeld), 250*time.Millisecond)
				ev.Sent = sentOf(s, 0)
			}
			ev.Open = !s.IsClosed()
			connected = ev.Open
			counts(&ev)
			check(&ev, len(h.Events))
			h.Events = append(h.Events, ev)
		}
	}
	// leave no open session behind
	if connected {
		s := cur
		hutil.Guard(5*time.Second, func() error { handler.OnClose(s); return nil })
	}
	h.Resources = registered
	heldResources = append(heldResources, registered...)
	return h
}

// the scripts of one run are joined into ONE history (the client is process-global);
// the first ones run before any resource exists (clean stream of the known finding) and
// cover {lost while open, closed by the peer} x {reconnect to the same address, to
// another one}, each combination twice in a row and then interleaved
func genScript(r *hutil.Rng, i int) []string {
	switch i {
	case 0:
		return []string{"reconnect:same", // the first connection
			"lost:open", "reconnect:same", "lost:open", "reconnect:same",
			"lost:peer", "reconnect:same", "lost:peer", "reconnect:same",
			"lost:open", "reconnect:other", "lost:open", "reconnect:other",
			"lost:peer", "reconnect:other", "lost:peer", "reconnect:other",
			"lost:peer", "reconnect:same", "lost:open", "reconnect:same", "lost:peer", "reconnect:other", "lost:peer", "reconnect:same",
			// the first write on the fresh connection fails while the session is open; getty reconnects
			"lost:peer", "reconnect:same:fail", "reconnect:same",
			"lost:open", "reconnect:other:fail", "reconnect:same:fail", "reconnect:same"}
	case 1:
		return []string{"resource", "lost:peer", "reconnect:same", // one resource, one reconnect
			// a first announcement that fails, then a reconnect: once per resource manager
			"resource:fail:tcc", "lost:open", "reconnect:same",
			"resource:fail:at", "resource:fail:xa", "resource:tcc", "lost:peer", "reconnect:other"}
	case 2:
		return []string{"resource", "resource", "lost:open", "reconnect:same", "lost:peer", "reconnect:other"}
	case 3:
		return []string{"lost:peer", "reconnect:same", "resource", "lost:open", "reconnect:other:fail", "reconnect:same"}
	}
	n := 3 + r.Intn(7)
	var s []string
	lost := []string{"lost:open", "lost:peer"}
	rec := []string{"reconnect:same", "reconnect:same", "reconnect:other", "reconnect:same:fail"}
	for j := 0; j < n; j++ {
		switch r.Intn(5) {
		case 0:
			s = append(s, "resource")
		case 1:
			s = append(s, []string{"resource", "resource:fail"}[r.Intn(2)])
		default:
			s = append(s, lost[r.Intn(2)], rec[r.Intn(4)], "reconnect:same")
		}
	}
	return s
}

// ---------------------------------------------------------------- integrated selection path
// Requests carrying an xid go through the REAL GettyRemotingClient.SendAsyncRequest ->
// SessionManager.selectSession -> loadbalance.Select with the configured policy XID, over
// sessions registered through the real OnOpen. Recorded as a selection history (same shape
// as the direct ones) so that the same model and the same oracle judge it.

// xidMessageTypes enumerates, through the codec registry (every registered codec decodes
// an empty body into a zero value of its message type), the message types that carry an
// `Xid string` field and that the CLIENT sends: requests, except those the coordinator
// sends to the client (branch commit / rollback, undo-log delete), and the client's
// replies to those (branch commit / rollback responses).
func xidMessageTypes() []reflect.Type {
	var out []reflect.Type
	seen := map[reflect.Type]bool{}
	for code := 0; code < 256; code++ {
		c := codec.GetCodecManager().GetCodec(codec.CodecTypeSeata, message.MessageType(code))
		if c == nil {
			continue
		}
		var v interface{}
		func() {
			defer func() { recover() }()
			v = c.Decode(make([]byte, 64))
		}()
		if v == nil {
			continue
		}
		t := reflect.TypeOf(v)
		if t.Kind() == reflect.Ptr {
			t = t.Elem()
		}
		if t.Kind() != reflect.Struct || seen[t] {
			continue
		}
		f, ok := t.FieldByName("Xid")
		if !ok || f.Type.Kind() != reflect.String {
			continue
		}
		n := t.Name()
		fromCoordinator := n == "BranchCommitRequest" || n == "BranchRollbackRequest" || n == "UndoLogDeleteRequest"
		clientSends := (strings.HasSuffix(n, "Request") && !fromCoordinator) || n == "BranchCommitResponse" || n == "BranchRollbackResponse"
		if clientSends {
			seen[t] = true
			out = append(out, t)
		}
	}
	sort.Slice(out, func(i, j int) bool { return out[i].Name() < out[j].Name() })
	return out
}

func xidRequest(t reflect.Type, xid string) (interface{}, string) {
	v := reflect.New(t).Elem()
	v.FieldByName("Xid").SetString(xid)
	return v.Interface(), t.Name()
}

// integratedSend sends one xid-carrying request through the real SendAsyncRequest ->
// selectSession and records on which of the open sessions it was written
func integratedSend(h *History, reg []*regEntry, t reflect.Type, xid string) {
	req, name := xidRequest(t, xid)
	before := make([]int, len(reg))
	for j, e := range reg {
		before[j] = e.s.nWrites()
	}
	ev := Event{K: "select", Policy: "XID", Xid: hx(xid), Class: hutil.OutOK, Via: name}
	class, detail := hutil.Guard(8*time.Second, func() error { return getty.GetGettyRemotingClient().SendAsyncRequest(req) })
	if class != hutil.OutOK {
		ev.Class = class
		ev.Oracle = "SendAsyncRequest(" + name + ") " + class + ": " + firstLine(detail)
	} else {
		var got *fakeSession
		for j, e := range reg {
			if e.s.nWrites() > before[j] {
				got = e.s
			}
		}
		if got == nil {
			ev.Nil = true
			ev.Oracle = "the request was written on no session although open sessions are registered"
		} else {
			ev.Pick = got.id
			parts := strings.Split(xid, ":")
			want := parts[0] + ":" + parts[1]
			has := false
			for _, e := range reg {
				if e.s.addr == want && !e.released && !e.s.IsClosed() {
					has = true
				}
			}
			if has && got.addr != want {
				ev.Oracle = fmt.Sprintf("XID policy through SendAsyncRequest/selectSession: %s with xid %q was written on the session connected to %s although an open session to %s is registered", name, xid, got.addr, want)
			}
		}
	}
	if ev.Oracle != "" && h.Oracle == "" {
		h.Oracle, h.BadAt = ev.Oracle, len(h.Events)
	}
	h.Events = append(h.Events, ev)
}

// runIntegratedLosses: two (three) coordinators; connections break the way getty reports it —
// OnError followed by OnClose for the same session, the session closed by the peer or still
// open — and are re-established; after every step requests carrying the xid of each coordinator
// go through the real selectSession. Runs first in the process (the session manager's counters
// start from zero), so a run replays as it is.
func runIntegratedLosses(r *hutil.Rng) History {
	initClient()
	h := History{Hash: map[string]uint32{}, BadAt: -1, Feat: []string{"integrated", "integrated:losses"}, Index: -2}
	types := xidMessageTypes()
	if len(types) == 0 {
		return h
	}
	handler := getty.GetGettyClientHandlerInstance()
	coords := []string{"10.9.2.1:8091", "10.9.2.2:8091", "10.9.2.20:8091"}[:2+r.Intn(2)]
	var reg []*regEntry
	cur := map[string]*regEntry{}
	nextID := 7001
	sends := 0
	open := func(a string) {
		s := &fakeSession{id: nextID, addr: a, onWrite: answer}
		nextID++
		hutil.Guard(5*time.Second, func() error { return handler.OnOpen(s) })
		time.Sleep(40 * time.Millisecond) // the RegisterTM goroutine of OnOpen (routed by the balancer)
		e := &regEntry{s: s}
		reg = append(reg, e)
		cur[a] = e
		h.Events = append(h.Events, Event{K: "open", ID: s.id, Addr: hx(a)})
	}
	lose := func(a string, twice, byPeer bool) {
		e := cur[a]
		if e == nil {
			return
		}
		s := e.s
		if byPeer {
			s.Close()
		}
		hutil.Guard(5*time.Second, func() error {
			handler.OnError(s, fmt.Errorf("read tcp %s: connection reset by peer", a))
			if twice {
				handler.OnClose(s)
			}
			return nil
		})
		e.released = true
		cur[a] = nil
		h.Events = append(h.Events, Event{K: "release", ID: s.id})
	}
	selects := func(n int) {
		for i := 0; i < n; i++ {
			var live []string
			for _, a := range coords {
				if cur[a] != nil {
					live = append(live, a)
				}
			}
			if len(live) == 0 {
				return // nothing is open: a send would wait a minute for a session
			}
			a := live[r.Intn(len(live))]
			integratedSend(&h, reg, types[sends%len(types)], a+":"+fmt.Sprint(r.Next()%1000000))
			sends++
		}
	}
	for _, a := range coords {
		open(a)
	}
	selects(4)
	// every coordinator connection breaks and comes back, several times over
	for cycle := 0; cycle < 6; cycle++ {
		for _, a := range coords {
			lose(a, true, r.Chance(1, 2))
			selects(4)
			open(a)
			selects(8)
		}
	}
	for _, a := range coords {
		lose(a, false, false)
	}
	return h
}

func runIntegrated(r *hutil.Rng, nsend int) History {
	initClient()
	h := History{Hash: map[string]uint32{}, BadAt: -1, Feat: []string{"integrated"}, Index: -1}
	types := xidMessageTypes()
	for _, t := range types {
		h.Feat = append(h.Feat, "xid-type:"+t.Name())
	}
	if len(types) == 0 {
		h.Oracle = "no message type with an Xid field found through the codec registry"
		return h
	}
	if nsend < 3*len(types) {
		nsend = 3 * len(types)
	}
	handler := getty.GetGettyClientHandlerInstance()
	addrs := []string{"10.0.0.1:8091", "10.0.0.1:809", "10.0.0.2:8091", "10.0.0.10:8091"}
	var reg []*regEntry
	for i, a := range addrs[:2+r.Intn(3)] {
		s := &fakeSession{id: 5001 + i, addr: a, onWrite: answer}
		hutil.Guard(5*time.Second, func() error { return handler.OnOpen(s) })
		reg = append(reg, &regEntry{s: s})
		h.Events = append(h.Events, Event{K: "open", ID: s.id, Addr: hx(a)})
	}
	// let the goroutines of OnOpen finish (the RegisterTM is routed by the balancer)
	time.Sleep(80 * time.Millisecond)
	// several coordinator connections at once: every one of them must have been told, on
	// ITSELF, the resources the client holds (registered during the client history)
	for i, e := range reg {
		announced := map[string]bool{}
		for _, d := range sentOf(e.s, 0) {
			if strings.HasPrefix(d, "RM:") {
				for _, id := range strings.Split(d[3:], ",") {
					announced[id] = true
				}
			}
		}
		var missing []string
		for _, id := range heldResources {
			if !announced[id] {
				missing = append(missing, id)
			}
		}
		if len(missing) > 0 && h.Oracle == "" {
			h.Oracle = fmt.Sprintf("session %d to %s, opened while %d other coordinator connection(s) were up, was not told %d of the %d registered resources on itself (e.g. %s)",
				e.s.id, e.s.addr, i, len(missing), len(heldResources), missing[0])
			h.BadAt = i
		}
	}
	for i := 0; i < nsend; i++ {
		target := reg[r.Intn(len(reg))]
		xid := target.s.addr + ":" + fmt.Sprint(r.Next()%1000000)
		if r.Chance(1, 8) {
			xid = "10.9.9.9:8091:" + fmt.Sprint(r.Intn(1000)) // no session there: any open one
		}
		req, name := xidRequest(types[i%len(types)], xid) // every type in turn
		before := make([]int, len(reg))
		for j, e := range reg {
			before[j] = e.s.nWrites()
		}
		ev := Event{K: "select", Policy: "XID", Xid: hx(xid), Class: hutil.OutOK, Via: name}
		class, detail := hutil.Guard(6*time.Second, func() error { return getty.GetGettyRemotingClient().SendAsyncRequest(req) })
		if class != hutil.OutOK {
			ev.Class = class
			ev.Oracle = "SendAsyncRequest(" + name + ") " + class + ": " + firstLine(detail)
		} else {
			var got *fakeSession
			for j, e := range reg {
				if e.s.nWrites() > before[j] {
					got = e.s
				}
			}
			if got == nil {
				ev.Nil = true
				ev.Oracle = "the request was written on no session although open sessions are registered"
			} else {
				ev.Pick = got.id
				parts := strings.Split(xid, ":")
				want := parts[0] + ":" + parts[1]
				has := false
				for _, e := range reg {
					if e.s.addr == want {
						has = true
					}
				}
				if has && got.addr != want {
					ev.Oracle = fmt.Sprintf("XID policy through SendAsyncRequest/selectSession: %s with xid %q was written on the session connected to %s although an open session to %s is registered", name, xid, got.addr, want)
				}
			}
		}
		if ev.Oracle != "" && h.Oracle == "" {
			h.Oracle, h.BadAt = ev.Oracle, len(h.Events)
		}
		h.Events = append(h.Events, ev)
	}
	for _, e := range reg {
		s := e.s
		hutil.Guard(5*time.Second, func() error { handler.OnClose(s); return nil })
	}
	return h
}

type Result struct {
	Integrated []History `json:"integrated"`
	Histories []History  `json:"histories"`
	Client    []CHistory `json:"client"`
	Selects   int        `json:"selects"`
}

// Run: sub-command `lb`.  seed= n= (selection histories) nc= (client histories)
func Run(a map[string]string) {
	seed := hutil.ArgU64(a, "seed", 1)
	n := hutil.ArgInt(a, "n", 200)
	nc := hutil.ArgInt(a, "nc", 8)
	root := hutil.NewRng(seed)
	res := Result{Histories: []History{}, Client: []CHistory{}}
	only := hutil.ArgInt(a, "only", -1)
	forks := make([]*hutil.Rng, n)
	for i := range forks {
		forks[i] = root.Fork(uint64(100 + i))
	}
	famRng := root.Fork(800000)
	for i := 0; i < n; i++ {
		if only >= 0 && i != only {
			continue
		}
		h := runHistory(forks[i], i)
		h.Index = i
		for _, e := range h.Events {
			if e.K == "select" {
				res.Selects++
			}
		}
		res.Histories = append(res.Histories, h)
	}
	// the enumerated families (indices n, n+1, ...: a replay re-runs them all and keeps one)
	if hutil.ArgInt(a, "families", 1) > 0 && (only < 0 || only >= n) {
		for j, h := range families(famRng) {
			h.Index = n + j
			if only >= 0 && h.Index != only {
				continue
			}
			for _, e := range h.Events {
				if e.K == "select" {
					res.Selects++
				}
			}
			res.Histories = append(res.Histories, h)
		}
	}
	// the client (session manager, resource caches) is process-global state: ONE long
	// history per run, made of nc scripts joined by a connection loss
	if nc > 0 {
		res.Integrated = append(res.Integrated, runIntegratedLosses(root.Fork(905000)))
		r := root.Fork(900000)
		var script []string
		for i := 0; i < nc; i++ {
			script = append(script, genScript(r, i)...)
			script = append(script, []string{"lost:open", "lost:peer"}[r.Intn(2)], []string{"reconnect:same", "reconnect:other"}[r.Intn(2)])
		}
		res.Client = append(res.Client, runClientHistory(r, script))
		res.Integrated = append(res.Integrated, runIntegrated(root.Fork(910000), hutil.ArgInt(a, "nint", 40)))
	}
	hutil.WriteJSON(a["out"], res)
}
