// Package hutil: helpers shared by the harness sub-packages (one PRNG state per
// run, argument parsing, result output, panic/timeout capture).
package hutil

import (
	"encoding/json"
	"fmt"
	"os"
	"runtime/debug"
	"strconv"
	"time"
)

// Rng is splitmix64: every random choice of the harness derives from one state
// so a case replays from (seed, index); cases are also self-contained in the output.
type Rng struct{ s uint64 }

func NewRng(seed uint64) *Rng { return &Rng{s: seed*0x9E3779B97F4A7C15 + 0x1234567} }

func (r *Rng) Next() uint64 {
	r.s += 0x9E3779B97F4A7C15
	z := r.s
	z = (z ^ (z >> 30)) * 0xBF58476D1CE4E5B9
	z = (z ^ (z >> 27)) * 0x94D049BB133111EB
	return z ^ (z >> 31)
}

func (r *Rng) Intn(n int) int {
	if n <= 0 {
		return 0
	}
	return int(r.Next() % uint64(n))
}

func (r *Rng) Chance(num, den int) bool { return r.Intn(den) < num }

func (r *Rng) Fork(tag uint64) *Rng { return NewRng(r.Next() ^ tag) }

func (r *Rng) Bytes(n int) []byte {
	b := make([]byte, n)
	mode := r.Intn(4)
	for i := range b {
		switch mode {
		case 0:
			b[i] = byte('a' + r.Intn(26))
		case 1:
			b[i] = byte(r.Next())
		case 2:
			b[i] = []byte{0xe4, 0xb8, 0xad, 'x'}[i%4]
		default:
			b[i] = byte(0x20 + r.Intn(0x5f))
		}
	}
	return b
}

func ArgInt(a map[string]string, k string, def int) int {
	if v, ok := a[k]; ok {
		if n, err := strconv.Atoi(v); err == nil {
			return n
		}
	}
	return def
}

func ArgU64(a map[string]string, k string, def uint64) uint64 {
	if v, ok := a[k]; ok {
		if n, err := strconv.ParseUint(v, 10, 64); err == nil {
			return n
		}
	}
	return def
}

func ArgStr(a map[string]string, k, def string) string {
	if v, ok := a[k]; ok {
		return v
	}
	return def
}

// WriteJSON writes the run's result; the harness writes results only to files
// named on its command line (the code under test logs to stdout/stderr).
func WriteJSON(path string, v interface{}) {
	b, err := json.Marshal(v)
	if err != nil {
		fmt.Fprintln(os.Stderr, "marshal:", err)
		os.Exit(2)
	}
	if err := os.WriteFile(path, b, 0o644); err != nil {
		fmt.Fprintln(os.Stderr, "write:", err)
		os.Exit(2)
	}
}

// Outcome classes of one call into the code under test.
const (
	OutOK       = "ok"
	OutErr      = "err"
	OutPanic    = "panic"
	OutDiverged = "diverged"
)

// Guard runs f in its own goroutine with a wall-clock limit, converting a panic
// or a hang into an observable. A diverged goroutine is abandoned (callers that
// need isolation run the case in a child process).
func Guard(limit time.Duration, f func() error) (class string, detail string) {
	type res struct {
		class, detail string
	}
	ch := make(chan res, 1)
	go func() {
		defer func() {
			if p := recover(); p != nil {
				ch <- res{OutPanic, fmt.Sprintf("%v\n%s", p, debug.Stack())}
			}
		}()
		if err := f(); err != nil {
			ch <- res{OutErr, err.Error()}
			return
		}
		ch <- res{OutOK, ""}
	}()
	select {
	case r := <-ch:
		return r.class, r.detail
	case <-time.After(limit):
		return OutDiverged, "no result within " + limit.String()
	}
}
