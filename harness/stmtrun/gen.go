package stmtrun

import (
	"fmt"
	"strings"

	"verifh/hutil"
)

// ---------------------------------------------------------------- schemas

type gcol struct {
	Name    string
	IsInt   bool
	SQLType string
	Lo, Hi  string // integer range, decimal text
	StrKind string // SVarchar | SChar | SText
	Limit   int
	NotNull bool
	HasDef  bool
	DefNull bool
	DefInt  int64
	DefStr  string
	Auto    bool
	PK      bool
}

type gschema struct {
	Table string
	Cols  []*gcol
	PK    []int
	Uniq  [][]int // secondary unique indexes uk0, uk1, ... (column indices)
}

type intType struct {
	sql    string
	lo, hi string
}

var intTypes = []intType{
	{"TINYINT", "-128", "127"},
	{"TINYINT UNSIGNED", "0", "255"},
	{"SMALLINT", "-32768", "32767"},
	{"INT", "-2147483648", "2147483647"},
	{"INT UNSIGNED", "0", "4294967295"},
	{"BIGINT", "-9223372036854775808", "9223372036854775807"},
	{"BIGINT UNSIGNED", "0", "18446744073709551615"},
}

func genIntCol(r *hutil.Rng, name string, key bool) *gcol {
	t := intTypes[r.Intn(len(intTypes))]
	if key && r.Chance(1, 2) {
		t = intTypes[3+r.Intn(3)]
	}
	return &gcol{Name: name, IsInt: true, SQLType: t.sql, Lo: t.lo, Hi: t.hi}
}

func genStrCol(r *hutil.Rng, name string, key bool) *gcol {
	c := &gcol{Name: name}
	switch k := r.Intn(6); {
	case k < 3 || key:
		c.StrKind, c.Limit = "SVarchar", 4+r.Intn(12)
		c.SQLType = fmt.Sprintf("VARCHAR(%d)", c.Limit)
	case k < 5:
		c.StrKind, c.Limit = "SChar", 3+r.Intn(6)
		c.SQLType = fmt.Sprintf("CHAR(%d)", c.Limit)
	default:
		c.StrKind, c.Limit = "SText", 65535
		c.SQLType = "TEXT"
	}
	return c
}

var colNames = []string{"name", "Age", "tag", "v", "W", "note", "qty"}

func genSchema(r *hutil.Rng, idx int) *gschema {
	s := &gschema{Table: fmt.Sprintf("t%d", idx%7)}
	if r.Chance(1, 4) {
		s.Table = strings.ToUpper(s.Table[:1]) + s.Table[1:] + "_x"
	}
	switch r.Intn(5) {
	case 0, 1: // single integer key, often AUTO_INCREMENT
		c := genIntCol(r, "id", true)
		c.PK, c.NotNull = true, true
		c.Auto = r.Chance(2, 3)
		s.Cols = append(s.Cols, c)
		s.PK = []int{0}
	case 2: // single string key
		c := genStrCol(r, "code", true)
		c.PK, c.NotNull = true, true
		s.Cols = append(s.Cols, c)
		s.PK = []int{0}
	case 3: // composite (int, string)
		a := genIntCol(r, "a", true)
		b := genStrCol(r, "b", true)
		a.PK, a.NotNull, b.PK, b.NotNull = true, true, true, true
		s.Cols = append(s.Cols, a, b)
		s.PK = []int{0, 1}
	default: // composite (int, int), key columns declared in the other order
		a := genIntCol(r, "a", true)
		b := genIntCol(r, "b", true)
		a.PK, a.NotNull, b.PK, b.NotNull = true, true, true, true
		s.Cols = append(s.Cols, a, b)
		s.PK = []int{1, 0}
	}
	n := 2 + r.Intn(3)
	used := map[string]bool{}
	for i := 0; i < n; i++ {
		name := colNames[r.Intn(len(colNames))]
		if used[strings.ToLower(name)] {
			continue
		}
		used[strings.ToLower(name)] = true
		var c *gcol
		if r.Chance(1, 2) {
			c = genIntCol(r, name, false)
		} else {
			c = genStrCol(r, name, false)
		}
		c.NotNull = r.Chance(1, 3)
		switch r.Intn(4) {
		case 0:
			if !c.NotNull {
				c.HasDef, c.DefNull = true, true
			}
		case 1, 2:
			c.HasDef = true
			if c.IsInt {
				c.DefInt = int64(r.Intn(100))
			} else {
				c.DefStr = []string{"w", "dflt", "", "a b"}[r.Intn(4)]
				if len(c.DefStr) > c.Limit {
					c.DefStr = "w"
				}
			}
		}
		s.Cols = append(s.Cols, c)
	}
	// primary key in the middle of the column list now and then
	if len(s.PK) == 1 && len(s.Cols) > 2 && r.Chance(1, 4) {
		s.Cols[0], s.Cols[1] = s.Cols[1], s.Cols[0]
		s.PK = []int{1}
	}
	// one or two secondary unique indexes in most tables (not on TEXT columns)
	var cand []int
	for i, c := range s.Cols {
		if !c.PK && c.StrKind != "SText" {
			cand = append(cand, i)
		}
	}
	if len(cand) > 0 && r.Chance(2, 3) {
		n := 1 + r.Intn(2)
		for k := 0; k < n; k++ {
			ix := []int{cand[r.Intn(len(cand))]}
			if len(cand) > 1 && r.Chance(1, 3) {
				o := cand[r.Intn(len(cand))]
				if o != ix[0] {
					ix = append(ix, o)
				}
			}
			s.Uniq = append(s.Uniq, ix)
		}
	}
	return s
}

func sqlStr(s string) string {
	s = strings.ReplaceAll(s, `\`, `\\`)
	return "'" + strings.ReplaceAll(s, "'", "''") + "'"
}

func (s *gschema) ddl() string {
	var parts []string
	for _, c := range s.Cols {
		p := c.Name + " " + c.SQLType
		if c.NotNull {
			p += " NOT NULL"
		}
		if c.HasDef {
			switch {
			case c.DefNull:
				p += " DEFAULT NULL"
			case c.IsInt:
				p += fmt.Sprintf(" DEFAULT %d", c.DefInt)
			default:
				p += " DEFAULT " + sqlStr(c.DefStr)
			}
		}
		if c.Auto {
			p += " AUTO_INCREMENT"
		}
		parts = append(parts, p)
	}
	pk := make([]string, len(s.PK))
	for i, ci := range s.PK {
		pk[i] = s.Cols[ci].Name
	}
	parts = append(parts, "PRIMARY KEY ("+strings.Join(pk, ", ")+")")
	for i, ix := range s.Uniq {
		names := make([]string, len(ix))
		for j, ci := range ix {
			names[j] = s.Cols[ci].Name
		}
		parts = append(parts, fmt.Sprintf("UNIQUE KEY uk%d (%s)", i, strings.Join(names, ", ")))
	}
	return "CREATE TABLE " + s.Table + " (" + strings.Join(parts, ", ") + ")"
}

func (s *gschema) coq() string {
	cols := make([]string, len(s.Cols))
	for i, c := range s.Cols {
		ty := ""
		if c.IsInt {
			ty = fmt.Sprintf("TInt %s %s", coqZ(c.Lo), coqZ(c.Hi))
		} else {
			ty = fmt.Sprintf("TStr %s %d%%Z", c.StrKind, c.Limit)
		}
		def := "None"
		if c.HasDef {
			switch {
			case c.DefNull:
				def = "(Some VNull)"
			case c.IsInt:
				def = fmt.Sprintf("(Some (VInt %s))", coqZ(fmt.Sprint(c.DefInt)))
			default:
				def = "(Some (VStr " + coqBytes(c.DefStr) + "))"
			}
		}
		cols[i] = fmt.Sprintf("{| c_name := %s; c_ty := %s; c_notnull := %s; c_default := %s; c_auto := %s |}",
			coqBytes(strings.ToLower(c.Name)), ty, coqBool(c.NotNull), def, coqBool(c.Auto))
	}
	pk := make([]string, len(s.PK))
	for i, ci := range s.PK {
		pk[i] = fmt.Sprintf("%d%%nat", ci)
	}
	uq := make([]string, len(s.Uniq))
	for i, ix := range s.Uniq {
		cs := make([]string, len(ix))
		for j, ci := range ix {
			cs[j] = fmt.Sprintf("%d%%nat", ci)
		}
		uq[i] = coqList(cs)
	}
	return fmt.Sprintf("{| s_cols := %s; s_pk := %s; s_uniq := %s |}", coqList(cols), coqList(pk), coqList(uq))
}

// ---------------------------------------------------------------- statements

// Arg is one statement argument: t = null | int | str | bytes(hex).
type Arg struct {
	T string `json:"t"`
	V string `json:"v,omitempty"`
}

type gen struct {
	r    *hutil.Rng
	s    *gschema
	rows [][]Arg // current table contents (from the last dump), column order
	args []Arg
	lit  bool // literals only (no `?`)
	tx   bool // multi-connection schedules: more locking reads
}

var strPool = []string{"a", "b", "c", "ab", "abc", "A", "1", "2", "10", "7", "1.0", " 3", "x1", "", "a b", "été", "%", "a_c", "3 ", "1.5", "-2", "9x", "zz", "1e1", "07", "+4", ".5"}

func (g *gen) mixCase(name string) string {
	switch g.r.Intn(6) {
	case 0:
		return strings.ToUpper(name)
	case 1:
		return "`" + name + "`"
	case 2:
		return g.s.Table + "." + name
	}
	return name
}

func (g *gen) smallInt() int64 {
	switch g.r.Intn(12) {
	case 0:
		return -int64(g.r.Intn(5))
	case 1:
		return int64(g.r.Intn(300))
	}
	return int64(g.r.Intn(10))
}

// lit renders an integer or string either as a literal or as a `?` argument.
func (g *gen) emitInt(i int64) string {
	if !g.lit && g.r.Chance(1, 3) {
		g.args = append(g.args, Arg{T: "int", V: fmt.Sprint(i)})
		return "?"
	}
	return fmt.Sprint(i)
}

func (g *gen) emitStr(s string) string {
	if !g.lit && g.r.Chance(1, 3) {
		if g.r.Chance(1, 6) {
			g.args = append(g.args, Arg{T: "bytes", V: fmt.Sprintf("%x", s)})
		} else {
			g.args = append(g.args, Arg{T: "str", V: s})
		}
		return "?"
	}
	return sqlStr(s)
}

func (g *gen) emitNull() string {
	if !g.lit && g.r.Chance(1, 4) {
		g.args = append(g.args, Arg{T: "null"})
		return "?"
	}
	return "NULL"
}

func (g *gen) poolStr(c *gcol) string {
	for i := 0; i < 8; i++ {
		s := strPool[g.r.Intn(len(strPool))]
		if c == nil || len([]rune(s)) <= c.Limit {
			return s
		}
	}
	return "a"
}

// existing picks the value of column ci in a random current row (ok=false when the table is empty).
func (g *gen) existing(ci int) (Arg, bool) {
	if len(g.rows) == 0 {
		return Arg{}, false
	}
	return g.rows[g.r.Intn(len(g.rows))][ci], true
}

func (g *gen) emitArg(a Arg) string {
	switch a.T {
	case "null":
		return g.emitNull()
	case "int":
		var i int64
		if _, err := fmt.Sscan(a.V, &i); err != nil {
			return a.V // beyond int64: literal
		}
		return g.emitInt(i)
	}
	return g.emitStr(a.V)
}

// val: a value that fits column ci (mostly), for comparisons and assignments.
func (g *gen) val(ci int, forStore bool) string {
	c := g.s.Cols[ci]
	if g.r.Chance(1, 3) {
		if a, ok := g.existing(ci); ok && a.T != "null" {
			return g.emitArg(a)
		}
	}
	if !forStore && g.r.Chance(1, 8) {
		// the other kind: MySQL's number/string coercion
		if c.IsInt {
			return g.emitStr(g.poolStr(nil))
		}
		return g.emitInt(g.smallInt())
	}
	if c.IsInt {
		if forStore && g.r.Chance(1, 10) {
			return g.emitStr(fmt.Sprint(g.r.Intn(10))) // numeric string into an integer column
		}
		i := g.smallInt()
		if c.Lo == "0" && i < 0 && forStore {
			i = -i
		}
		if forStore && i > 127 {
			i = 100
		}
		return g.emitInt(i)
	}
	if forStore && g.r.Chance(1, 12) {
		return g.emitInt(g.smallInt()) // number into a string column
	}
	return g.emitStr(g.poolStr(c))
}

func (g *gen) anyCol() int { return g.r.Intn(len(g.s.Cols)) }

func (g *gen) colOfKind(isInt bool) (int, bool) {
	var idx []int
	for i, c := range g.s.Cols {
		if c.IsInt == isInt {
			idx = append(idx, i)
		}
	}
	if len(idx) == 0 {
		return 0, false
	}
	return idx[g.r.Intn(len(idx))], true
}

var cmpOps = []string{"=", "=", "=", "<>", "!=", "<", "<=", ">", ">="}

func (g *gen) pred(depth int) string {
	r := g.r
	if !g.tx && r.Chance(1, 90) { // outside the Coq grammar: counted as skipped by the tie
		return "LENGTH(" + g.s.Cols[g.anyCol()].Name + ") > 1"
	}
	k := r.Intn(14)
	if depth <= 0 && k >= 11 {
		k = r.Intn(11)
	}
	switch k {
	case 0, 1, 2:
		ci := g.anyCol()
		if r.Chance(1, 9) { // comparison with NULL: UNKNOWN
			return g.mixCase(g.s.Cols[ci].Name) + " " + cmpOps[r.Intn(len(cmpOps))] + " " + g.emitNull()
		}
		return g.mixCase(g.s.Cols[ci].Name) + " " + cmpOps[r.Intn(len(cmpOps))] + " " + g.val(ci, false)
	case 3:
		ci := g.anyCol()
		n := 1 + r.Intn(3)
		items := make([]string, n)
		for i := range items {
			if r.Chance(1, 5) {
				items[i] = g.emitNull()
			} else if a, ok := g.existing(ci); ok && a.T != "null" && r.Chance(1, 2) {
				items[i] = g.emitArg(a)
			} else {
				items[i] = g.val(ci, false)
			}
		}
		not := ""
		if r.Chance(1, 3) {
			not = "NOT "
		}
		return g.mixCase(g.s.Cols[ci].Name) + " " + not + "IN (" + strings.Join(items, ", ") + ")"
	case 4: // the shape the AT executors build: (pk...) IN ((?..),(?..))
		names := make([]string, len(g.s.PK))
		for i, ci := range g.s.PK {
			names[i] = "`" + g.s.Cols[ci].Name + "`"
		}
		n := 1 + r.Intn(3)
		items := make([]string, n)
		for i := range items {
			vs := make([]string, len(g.s.PK))
			if len(g.rows) > 0 && r.Chance(2, 3) {
				row := g.rows[r.Intn(len(g.rows))]
				for j, ci := range g.s.PK {
					vs[j] = g.emitArg(row[ci])
				}
			} else {
				for j, ci := range g.s.PK {
					vs[j] = g.val(ci, false)
				}
			}
			items[i] = "(" + strings.Join(vs, ", ") + ")"
		}
		not := ""
		if r.Chance(1, 5) {
			not = "NOT "
		}
		return "(" + strings.Join(names, ", ") + ") " + not + "IN (" + strings.Join(items, ", ") + ")"
	case 5:
		ci := g.anyCol()
		not := ""
		if r.Chance(1, 4) {
			not = "NOT "
		}
		return g.mixCase(g.s.Cols[ci].Name) + " " + not + "BETWEEN " + g.val(ci, false) + " AND " + g.val(ci, false)
	case 6:
		ci := g.anyCol()
		if r.Chance(1, 2) {
			return g.mixCase(g.s.Cols[ci].Name) + " IS NULL"
		}
		return g.mixCase(g.s.Cols[ci].Name) + " IS NOT NULL"
	case 7:
		ci, ok := g.colOfKind(false)
		if !ok {
			ci = g.anyCol()
		}
		pats := []string{"a%", "%b", "%", "_", "a_c", "%b%", "abc", "", "_b%", `a\_c`, `\%`, "1%", "a_", "__", "_%_", "_", "%_"}
		not := ""
		if r.Chance(1, 4) {
			not = "NOT "
		}
		return g.mixCase(g.s.Cols[ci].Name) + " " + not + "LIKE " + g.emitStr(pats[r.Intn(len(pats))])
	case 8:
		ci, ok := g.colOfKind(true)
		if !ok {
			return g.pred(0)
		}
		name := g.mixCase(g.s.Cols[ci].Name)
		switch r.Intn(4) {
		case 0:
			return name + " + " + g.emitInt(g.smallInt()) + " " + cmpOps[r.Intn(len(cmpOps))] + " " + g.emitInt(g.smallInt())
		case 1:
			return name + " * 2 " + cmpOps[r.Intn(len(cmpOps))] + " " + g.emitInt(g.smallInt())
		case 2:
			return "-" + name + " < " + g.emitInt(g.smallInt())
		}
		return name + " - " + g.emitInt(g.smallInt()) + " = " + g.emitInt(g.smallInt())
	case 9:
		ci := g.anyCol()
		if r.Chance(1, 3) {
			return g.mixCase(g.s.Cols[ci].Name) + " <=> " + g.emitNull()
		}
		return g.mixCase(g.s.Cols[ci].Name) + " <=> " + g.val(ci, false)
	case 10:
		switch r.Intn(4) {
		case 0:
			return g.emitStr(g.poolStr(nil)) + " " + cmpOps[r.Intn(len(cmpOps))] + " " + g.emitInt(g.smallInt())
		case 1:
			return g.emitStr(g.poolStr(nil)) + " " + cmpOps[r.Intn(len(cmpOps))] + " " + g.emitStr(g.poolStr(nil))
		case 2:
			return g.mixCase(g.s.Cols[g.anyCol()].Name) // a bare column as a condition
		}
		return g.emitInt(g.smallInt()) + " " + cmpOps[r.Intn(len(cmpOps))] + " " + g.emitInt(g.smallInt())
	case 11:
		return "(" + g.pred(depth-1) + " AND " + g.pred(depth-1) + ")"
	case 12:
		op := " OR "
		if r.Chance(1, 5) {
			op = " XOR "
		}
		return "(" + g.pred(depth-1) + op + g.pred(depth-1) + ")"
	}
	if r.Chance(1, 4) {
		return "!(" + g.pred(depth-1) + ")"
	}
	return "NOT (" + g.pred(depth-1) + ")"
}

func (g *gen) where(prob int) string {
	if !g.r.Chance(prob, 100) {
		return ""
	}
	return " WHERE " + g.pred(2)
}

func (g *gen) orderBy(prob int) string {
	if !g.r.Chance(prob, 100) {
		return ""
	}
	n := 1 + g.r.Intn(2)
	items := make([]string, n)
	for i := range items {
		items[i] = g.mixCase(g.s.Cols[g.anyCol()].Name)
		if ci, ok := g.colOfKind(true); ok && g.r.Chance(1, 8) {
			items[i] = g.s.Cols[ci].Name + " * -1"
		}
		switch g.r.Intn(3) {
		case 0:
			items[i] += " DESC"
		case 1:
			items[i] += " ASC"
		}
	}
	return " ORDER BY " + strings.Join(items, ", ")
}

func (g *gen) limitClause(prob int, offset bool) string {
	if !g.r.Chance(prob, 100) {
		return ""
	}
	if offset {
		switch g.r.Intn(4) {
		case 0:
			return " LIMIT " + g.emitInt(int64(g.r.Intn(3))) + ", " + g.emitInt(int64(g.r.Intn(4)))
		case 1:
			return " LIMIT " + g.emitInt(int64(g.r.Intn(4))) + " OFFSET " + g.emitInt(int64(g.r.Intn(3)))
		}
	}
	return " LIMIT " + g.emitInt(int64(g.r.Intn(4)))
}

// leaf3: a comparison that is often UNKNOWN
func (g *gen) leaf3() string {
	ci := g.anyCol()
	name := g.s.Cols[ci].Name
	switch g.r.Intn(4) {
	case 0:
		return name + " = " + g.emitNull()
	case 1:
		return name + " IS NULL"
	}
	return name + " " + cmpOps[g.r.Intn(len(cmpOps))] + " " + g.val(ci, false)
}

func (g *gen) selectStmt() string {
	r := g.r
	var fields string
	if r.Chance(1, 10) { // the truth tables, cell by cell (literals: the operands are repeated)
		g.lit = true
		a, b := g.leaf3(), g.leaf3()
		g.lit = false
		return "SELECT " + g.s.Cols[g.s.PK[0]].Name + ", (" + a + ") AND (" + b + "), (" + a + ") OR (" + b + "), NOT (" + a + "), (" + a + ") XOR (" + b + "), NOT ((" + a + ") AND (" + b + ")) FROM " + g.s.Table + g.where(30)
	}
	switch k := r.Intn(10); {
	case k < 5:
		fields = "*"
	case k < 8:
		n := 1 + r.Intn(3)
		fs := make([]string, n)
		for i := range fs {
			fs[i] = g.mixCase(g.s.Cols[g.anyCol()].Name)
		}
		fields = strings.Join(fs, ", ")
	case k < 9 || (k == 9 && r.Chance(1, 2)):
		ci := g.anyCol()
		fields = g.s.Cols[g.s.PK[0]].Name + ", " + g.pred(1) + " AS p, " + g.val(ci, false)
		if ii, ok := g.colOfKind(true); ok {
			fields += ", " + g.s.Cols[ii].Name + " + 1"
		}
	default:
		fields = "COUNT(*)"
	}
	q := "SELECT " + fields + " FROM " + g.s.Table + g.where(80) + g.orderBy(40) + g.limitClause(30, true)
	if r.Chance(15, 100) || (g.tx && r.Chance(1, 3)) {
		q += " FOR UPDATE"
	}
	return q
}

// freshKey: key values that are (most likely) not in the table.
func (g *gen) keyValue(ci int, fresh bool) string {
	c := g.s.Cols[ci]
	if !fresh {
		if a, ok := g.existing(ci); ok {
			return g.emitArg(a)
		}
	}
	if c.IsInt {
		return g.emitInt(int64(1 + g.r.Intn(40)))
	}
	return g.emitStr([]string{"k", "a", "b", "ab", "q", "zz", "m", "k1", "k2", "1", "2"}[g.r.Intn(11)] + []string{"", "", "x", "7"}[g.r.Intn(4)])
}

func (g *gen) inUnique(ci int) bool {
	for _, ix := range g.s.Uniq {
		for _, c := range ix {
			if c == ci {
				return true
			}
		}
	}
	return false
}

func (g *gen) storeValue(ci int) string {
	c := g.s.Cols[ci]
	if g.inUnique(ci) && g.r.Chance(1, 3) {
		if a, ok := g.existing(ci); ok && a.T != "null" {
			return g.emitArg(a)
		}
	}
	switch k := g.r.Intn(12); {
	case k < 2 && !c.NotNull:
		return g.emitNull()
	case k == 1 && (c.HasDef || !c.NotNull):
		return "DEFAULT"
	}
	return g.val(ci, true)
}

func (g *gen) insertStmt() string {
	r := g.r
	s := g.s
	listed := r.Chance(3, 4)
	// now and then a row that is in the way twice: primary key of one row, unique values of another
	double := len(s.Uniq) > 0 && len(g.rows) > 1 && r.Chance(1, 5)
	if double {
		listed = false
	}
	var cols []int
	if listed {
		for i, c := range s.Cols {
			switch {
			case c.PK && c.Auto:
				if r.Chance(1, 3) {
					cols = append(cols, i)
				}
			case c.PK || (c.NotNull && !c.HasDef):
				cols = append(cols, i)
			default:
				if r.Chance(2, 3) {
					cols = append(cols, i)
				}
			}
		}
		for i := len(cols) - 1; i > 0; i-- {
			j := r.Intn(i + 1)
			cols[i], cols[j] = cols[j], cols[i]
		}
		if len(cols) == 0 {
			cols = append(cols, 0)
		}
	} else {
		for i := range s.Cols {
			cols = append(cols, i)
		}
	}
	nrows := 1
	if r.Chance(1, 3) {
		nrows = 2 + r.Intn(2)
	}
	fresh := r.Chance(3, 4)
	if double {
		fresh = false
	}
	rows := make([]string, nrows)
	for i := range rows {
		vs := make([]string, len(cols))
		for j, ci := range cols {
			c := s.Cols[ci]
			switch {
			case c.PK && c.Auto:
				switch r.Intn(4) {
				case 0:
					vs[j] = "NULL"
				case 1:
					vs[j] = "0"
				case 2:
					vs[j] = "DEFAULT"
				default:
					vs[j] = g.keyValue(ci, fresh)
				}
			case c.PK:
				vs[j] = g.keyValue(ci, fresh)
			case double && g.inUnique(ci):
				if a, ok := g.existing(ci); ok && a.T != "null" {
					vs[j] = g.emitArg(a)
				} else {
					vs[j] = g.storeValue(ci)
				}
			default:
				vs[j] = g.storeValue(ci)
			}
		}
		rows[i] = "(" + strings.Join(vs, ", ") + ")"
	}
	verb := "INSERT"
	ondup := ""
	k := r.Intn(20)
	if double {
		k = []int{0, 7, 7, 8, 10}[r.Intn(5)] // upsert, REPLACE, plain
	}
	switch {
	case k < 5:
		var sets []string
		n := 1 + r.Intn(2)
		for i := 0; i < n; i++ {
			ci := g.anyCol()
			c := s.Cols[ci]
			if c.PK && !r.Chance(1, 6) {
				continue
			}
			switch r.Intn(4) {
			case 0:
				sets = append(sets, c.Name+" = VALUES("+c.Name+")")
			case 1:
				if c.IsInt {
					sets = append(sets, c.Name+" = "+c.Name+" + "+g.emitInt(1+int64(r.Intn(3))))
				} else {
					sets = append(sets, c.Name+" = "+g.storeValue(ci))
				}
			case 2:
				if oi, ok := g.colOfKind(c.IsInt); ok {
					sets = append(sets, c.Name+" = VALUES("+s.Cols[oi].Name+")")
				}
			default:
				sets = append(sets, c.Name+" = "+g.storeValue(ci))
			}
		}
		if len(sets) > 0 {
			ondup = " ON DUPLICATE KEY UPDATE " + strings.Join(sets, ", ")
		}
	case k < 7:
		verb = "INSERT IGNORE"
	case k < 9:
		verb = "REPLACE"
	}
	q := verb + " INTO " + s.Table
	if listed {
		names := make([]string, len(cols))
		for i, ci := range cols {
			names[i] = s.Cols[ci].Name
			if r.Chance(1, 6) {
				names[i] = strings.ToUpper(names[i])
			}
		}
		q += " (" + strings.Join(names, ", ") + ")"
	}
	return q + " VALUES " + strings.Join(rows, ", ") + ondup
}

func (g *gen) setList() string {
	r := g.r
	n := 1 + r.Intn(2)
	var sets []string
	if r.Chance(1, 7) { // a later assignment reads an earlier one
		a, ok1 := g.colOfKind(true)
		b, ok2 := g.colOfKind(true)
		if ok1 && ok2 && a != b && !g.s.Cols[a].PK && !g.s.Cols[b].PK {
			return g.s.Cols[a].Name + " = " + g.s.Cols[a].Name + " + 1, " + g.s.Cols[b].Name + " = " + g.s.Cols[a].Name
		}
	}
	for i := 0; i < n; i++ {
		ci := g.anyCol()
		c := g.s.Cols[ci]
		if c.PK && !r.Chance(1, 8) {
			continue
		}
		name := g.mixCase(c.Name)
		if strings.Contains(name, ".") {
			name = c.Name
		}
		switch k := r.Intn(8); {
		case k == 0 && c.IsInt:
			sets = append(sets, name+" = "+c.Name+" + "+g.emitInt(1+int64(r.Intn(3))))
		case k == 1 && c.IsInt:
			sets = append(sets, name+" = "+c.Name+" - 1")
		case k == 2:
			if oi, ok := g.colOfKind(c.IsInt); ok {
				sets = append(sets, name+" = "+g.s.Cols[oi].Name)
				break
			}
			fallthrough
		default:
			sets = append(sets, name+" = "+g.storeValue(ci))
		}
	}
	if len(sets) == 0 {
		for ci, c := range g.s.Cols {
			if !c.PK {
				sets = append(sets, c.Name+" = "+g.val(ci, true))
				break
			}
		}
	}
	return strings.Join(sets, ", ")
}

func (g *gen) updateStmt() string {
	q := "UPDATE " + g.s.Table + " SET " + g.setList() + g.where(85)
	if g.r.Chance(1, 5) {
		q += g.orderBy(80) + g.limitClause(80, false)
	}
	return q
}

func (g *gen) deleteStmt() string {
	q := "DELETE FROM " + g.s.Table + g.where(92)
	if g.r.Chance(1, 4) {
		q += g.orderBy(80) + g.limitClause(90, false)
	}
	return q
}

// malformed: statements that MySQL refuses (each with exactly one fault).
func (g *gen) malformed() string {
	r := g.r
	s := g.s
	t := s.Table
	g.lit = r.Chance(1, 2)
	defer func() { g.lit = false }()
	nonPK := -1
	for i, c := range s.Cols {
		if !c.PK {
			nonPK = i
		}
	}
	anyc := s.Cols[g.anyCol()].Name
	switch r.Intn(16) {
	case 0:
		return "SELECT * FROM " + t + " WHERE nosuch = " + g.emitInt(1)
	case 1:
		return "SELECT " + anyc + ", nosuch FROM " + t
	case 2:
		return "SELECT * FROM " + t + " ORDER BY nosuch"
	case 3:
		return "UPDATE " + t + " SET nosuch = 1" + g.where(60)
	case 4:
		return "UPDATE " + t + " SET " + s.Cols[nonPK].Name + " = " + g.val(nonPK, true) + " WHERE nosuch IS NULL"
	case 5:
		return "DELETE FROM " + t + " WHERE " + anyc + " = 1 OR nosuch IN (1, 2)"
	case 6:
		return "INSERT INTO " + t + " (" + s.Cols[0].Name + ", nosuch) VALUES (" + g.keyValue(0, true) + ", 1)"
	case 7: // duplicate primary key
		if len(g.rows) == 0 {
			return g.insertStmt()
		}
		g.lit = true
		row := g.rows[r.Intn(len(g.rows))]
		names := make([]string, 0, len(s.Cols))
		vals := make([]string, 0, len(s.Cols))
		for i, c := range s.Cols {
			if c.PK {
				names = append(names, c.Name)
				vals = append(vals, g.emitArg(row[i]))
			} else if c.NotNull && !c.HasDef {
				names = append(names, c.Name)
				vals = append(vals, g.val(i, true))
			}
		}
		q := "INSERT INTO " + t + " (" + strings.Join(names, ", ") + ") VALUES "
		if r.Chance(1, 2) {
			// a good row first: the whole statement must leave no trace
			vs := make([]string, 0, len(names))
			for i, c := range s.Cols {
				if c.PK {
					if c.Auto {
						vs = append(vs, "NULL")
					} else {
						vs = append(vs, g.keyValue(i, true))
					}
				} else if c.NotNull && !c.HasDef {
					vs = append(vs, g.val(i, true))
				}
			}
			q += "(" + strings.Join(vs, ", ") + "), "
		}
		return q + "(" + strings.Join(vals, ", ") + ")"
	case 8: // NULL into NOT NULL
		for i, c := range s.Cols {
			if c.NotNull && !c.Auto {
				if r.Chance(1, 2) {
					return "UPDATE " + t + " SET " + c.Name + " = " + g.emitNull() + g.where(50)
				}
				names := []string{}
				vals := []string{}
				for j, d := range s.Cols {
					if d.PK || (d.NotNull && !d.HasDef) || j == i {
						names = append(names, d.Name)
						if j == i {
							vals = append(vals, g.emitNull())
						} else if d.PK {
							vals = append(vals, g.keyValue(j, true))
						} else {
							vals = append(vals, g.val(j, true))
						}
					}
				}
				return "INSERT INTO " + t + " (" + strings.Join(names, ", ") + ") VALUES (" + strings.Join(vals, ", ") + ")"
			}
		}
		return g.selectStmt()
	case 9: // arity
		g.lit = true
		names := []string{}
		vals := []string{}
		for j, d := range s.Cols {
			if d.PK || (d.NotNull && !d.HasDef) {
				names = append(names, d.Name)
				if d.PK {
					vals = append(vals, g.keyValue(j, true))
				} else {
					vals = append(vals, g.val(j, true))
				}
			}
		}
		good := "(" + strings.Join(vals, ", ") + ")"
		bad := "(" + strings.Join(append(append([]string{}, vals...), "1"), ", ") + ")"
		if r.Chance(1, 2) {
			bad = "(" + strings.Join(vals[:len(vals)-1], ", ") + ")"
			if len(vals) == 1 {
				bad = "(1, 2)"
			}
		}
		if r.Chance(1, 2) {
			return "INSERT INTO " + t + " (" + strings.Join(names, ", ") + ") VALUES " + good + ", " + bad
		}
		return "INSERT INTO " + t + " (" + strings.Join(names, ", ") + ") VALUES " + bad
	case 10: // value the column cannot hold
		ci := g.anyCol()
		c := s.Cols[ci]
		var v string
		if c.IsInt {
			v = []string{"99999999999999999999", "-99999999999", "'abc'", "'1.5'", "1.5", "'12x'", "''"}[r.Intn(7)]
			if c.Hi == "18446744073709551615" && v == "99999999999999999999" {
				v = "-1"
			}
		} else {
			v = sqlStr(strings.Repeat("x", 300))
			if c.StrKind == "SText" {
				return g.updateStmt()
			}
		}
		if c.PK {
			return "INSERT INTO " + t + " (" + c.Name + ") VALUES (" + v + ")"
		}
		return "UPDATE " + t + " SET " + c.Name + " = " + v + g.where(40)
	case 11: // column twice
		c := s.Cols[0].Name
		return "INSERT INTO " + t + " (" + c + ", " + strings.ToUpper(c) + ") VALUES (" + g.keyValue(0, true) + ", " + g.keyValue(0, true) + ")"
	case 12: // NOT NULL column without default left out
		for _, c := range s.Cols {
			if c.NotNull && !c.HasDef && !c.Auto {
				var names, vals []string
				for j, d := range s.Cols {
					if d != c && d.PK {
						names = append(names, d.Name)
						vals = append(vals, g.keyValue(j, true))
					}
				}
				if len(names) == 0 {
					return "INSERT INTO " + t + " () VALUES ()"
				}
				return "INSERT INTO " + t + " (" + strings.Join(names, ", ") + ") VALUES (" + strings.Join(vals, ", ") + ")"
			}
		}
		return g.deleteStmt()
	case 13: // LIMIT that is not a non-negative integer
		g.args = append(g.args, Arg{T: "int", V: "-1"})
		return "SELECT * FROM " + t + " LIMIT ?"
	case 14: // BIGINT overflow in an expression
		if ci, ok := g.colOfKind(true); ok {
			return "SELECT * FROM " + t + " WHERE " + s.Cols[ci].Name + " + 9223372036854775807 > 0 OR " + s.Cols[ci].Name + " - 9223372036854775807 - 100 < 0"
		}
		return g.selectStmt()
	default: // operand shape
		names := make([]string, len(s.PK))
		for i, ci := range s.PK {
			names[i] = s.Cols[ci].Name
		}
		return "SELECT * FROM " + t + " WHERE (" + strings.Join(names, ", ") + ", " + anyc + ") IN ((1, 2, 3, 4))"
	}
}

// next produces the next statement of the program and its arguments.
func (g *gen) next(malformedPct int) (string, []Arg) {
	g.args = nil
	var q string
	switch k := g.r.Intn(100); {
	case k < malformedPct:
		q = g.malformed()
	case k < malformedPct+25:
		q = g.selectStmt()
	case k < malformedPct+50:
		q = g.insertStmt()
	case k < malformedPct+70:
		q = g.updateStmt()
	default:
		q = g.deleteStmt()
	}
	return q, g.args
}
