package stmtrun

import (
	"context"
	"database/sql"
	"fmt"
	"strconv"
	"strings"

	"verifh/fakedb"
	"verifh/hutil"
)

// TxStep is one operation of a multi-connection schedule and what fakedb showed afterwards.
type TxStep struct {
	Conn     int                    `json:"conn"`
	Op       string                 `json:"op"` // begin commit rollback stmt savepoint rollback_to release close
	SQL      string                 `json:"sql"`
	Args     []Arg                  `json:"args"`
	Prepared bool                   `json:"prepared"`
	Skip     string                 `json:"skip,omitempty"`
	Obs      Obs                    `json:"obs"`
	Dump     [][]fakedb.TaggedValue `json:"dump"` // COMMITTED rows
	Auto     int64                  `json:"auto"`
	Locks    []string               `json:"locks"` // fakedb lock names held by anybody
	InTx     []int                  `json:"in_tx"` // fakedb connection ids with an open transaction
}

type TxCase struct {
	Index    int                    `json:"index"`
	Table    string                 `json:"table"`
	DDL      string                 `json:"ddl"`
	Setup    []string               `json:"setup"`
	Init     [][]fakedb.TaggedValue `json:"init"`
	InitAuto int64                  `json:"init_auto"`
	Steps    []TxStep               `json:"steps"`
	Coq      string                 `json:"coq"`
}

type TxOutput struct {
	Seed       uint64         `json:"seed"`
	Cases      []TxCase       `json:"cases"`
	Statements int            `json:"statements"` // operations
	Skipped    int            `json:"skipped"`
	SkipWhy    map[string]int `json:"skip_why"`
	Kinds      map[string]int `json:"kinds"`
	Errnos     map[string]int `json:"errnos"`
	Aborted    []string       `json:"aborted"`
}

// parseLockKey turns a fakedb row-lock name "r|<table>|<keyString>" into the Coq key term.
func parseLockKey(name, table string) (string, error) {
	prefix := "r|" + strings.ToLower(table) + "|"
	var vals []string
	if up := "u|" + strings.ToLower(table) + "|uk"; strings.HasPrefix(name, up) {
		// unique-value lock of secondary index uk<i>: VNull :: VInt i :: values
		rest := name[len(up):]
		j := strings.IndexByte(rest, '|')
		if j < 1 {
			return "", unsup("malformed lock name %q", name)
		}
		vals = append(vals, "VNull", "(VInt "+coqZ(rest[:j])+")")
		prefix = up + rest[:j+1]
	}
	if !strings.HasPrefix(name, prefix) {
		return "", unsup("lock %q is not a lock of the table", name)
	}
	ks := name[len(prefix):]
	for len(ks) > 0 {
		kind := ks[0]
		i := strings.IndexByte(ks, ':')
		if i < 2 {
			return "", unsup("malformed lock name %q", name)
		}
		n, err := strconv.Atoi(ks[1:i])
		if err != nil || i+1+n > len(ks) {
			return "", unsup("malformed lock name %q", name)
		}
		text := ks[i+1 : i+1+n]
		ks = ks[i+1+n:]
		switch kind {
		case '0':
			vals = append(vals, "VNull")
		case '1', '2':
			vals = append(vals, "(VInt "+coqZ(text)+")")
		case '5':
			vals = append(vals, "(VStr "+coqBytes(text)+")")
		case '6':
			vals = append(vals, "(VBytes "+coqBytes(text)+")")
		case '4':
			vals = append(vals, "(VDec "+coqBytes(text)+")")
		default:
			return "", unsup("lock on a value of kind %c", kind)
		}
	}
	return coqList(vals), nil
}

// RunTxCase generates and runs schedule `idx` of the seed.
func RunTxCase(seed uint64, idx, steps int, out *TxOutput) TxCase {
	r := hutil.NewRng(seed ^ 0x7478).Fork((uint64(idx) + 1) * 0xD1342543DE82EF95)
	sch := genSchema(r, idx)
	co := TxCase{Index: idx, Table: sch.Table, DDL: sch.ddl()}
	dsn := fmt.Sprintf("u:p@tcp(127.0.0.1:3306)/txx_%d_%d?interpolateParams=true", seed, idx)
	fakedb.Driver.DropServer(dsn)
	db, err := sql.Open(fakedb.BareName, dsn)
	if err != nil {
		out.Aborted = append(out.Aborted, fmt.Sprintf("case %d: open: %v", idx, err))
		return co
	}
	defer db.Close()
	defer fakedb.Driver.DropServer(dsn)
	db.SetMaxIdleConns(0) // a released connection is closed for real
	srv, _ := fakedb.Driver.Server(dsn)
	if _, err := db.Exec(co.DDL); err != nil {
		out.Aborted = append(out.Aborted, fmt.Sprintf("case %d: %s: %v", idx, co.DDL, err))
		return co
	}
	g := &gen{r: r, s: sch, tx: true}
	n0 := 2 + r.Intn(5)
	for i := 0; i < n0; i++ {
		g.args = nil
		q := g.insertStmt()
		execute(db, q, g.args, false)
		co.Setup = append(co.Setup, q)
		if d, ok := srv.DumpTable(sch.Table); ok {
			g.rows = rowsToArgs(d.Rows)
		}
	}
	d, ok := srv.DumpTable(sch.Table)
	if !ok {
		out.Aborted = append(out.Aborted, fmt.Sprintf("case %d: no table after setup", idx))
		return co
	}
	co.Init, co.InitAuto = d.Rows, d.AutoInc
	g.rows = rowsToArgs(d.Rows)
	initCoq, err := dumpCoq(d.Rows)
	if err != nil {
		out.Aborted = append(out.Aborted, fmt.Sprintf("case %d: %v", idx, err))
		return co
	}
	ctx := context.Background()
	nconn := 2 + r.Intn(2)
	conns := make([]*sql.Conn, nconn)
	inTx := make([]bool, nconn) // the generator's own idea, only used to bias the choice of operations
	for i := range conns {
		if conns[i], err = db.Conn(ctx); err != nil {
			out.Aborted = append(out.Aborted, fmt.Sprintf("case %d: conn: %v", idx, err))
			return co
		}
	}
	defer func() {
		for _, c := range conns {
			if c != nil {
				c.Close()
			}
		}
	}()
	saves := []string{"s1", "s2", "S1"}
	lastSave := make([]string, nconn)
	type forced struct {
		ci, k int
		name  string
	}
	var queue []forced
	var stepTerms []string
	for i := 0; i < steps; i++ {
		ci := r.Intn(nconn)
		forcedK, forcedName := -1, ""
		if len(queue) > 0 {
			ci, forcedK, forcedName = queue[0].ci, queue[0].k, queue[0].name
			queue = queue[1:]
		} else if inTx[ci] && r.Chance(1, 25) {
			// the same savepoint name twice, the newer one released, then back to the older one
			n := saves[r.Intn(len(saves))]
			queue = []forced{{ci, 99, ""}, {ci, 38, n}, {ci, 48, n}, {ci, 45, n}, {ci, 99, ""}}
			forcedK, forcedName = 38, n
		}
		st := TxStep{Conn: ci, Args: []Arg{}}
		opTerm := ""
		// weights: begin commit rollback savepoint rollback_to release close (rest: a statement)
		w := []int{3, 10, 7, 12, 10, 6, 3}
		if !inTx[ci] {
			w = []int{35, 2, 2, 2, 2, 1, 2}
		}
		bounds := []int{14, 24, 31, 39, 46, 49, 52} // the cut points used below
		k, x := 99, r.Intn(100)
		for j, acc := 0, 0; j < len(w); j++ {
			acc += w[j]
			if x < acc {
				k = bounds[j] - 1
				break
			}
		}
		if forcedK >= 0 {
			k = forcedK
		}
		pick := func() string {
			if forcedName != "" {
				return forcedName
			}
			return saves[r.Intn(len(saves))]
		}
		switch {
		case k < 14:
			st.Op, st.SQL, opTerm = "begin", []string{"BEGIN", "START TRANSACTION"}[r.Intn(2)], "OBegin"
			inTx[ci] = true
		case k < 24:
			st.Op, st.SQL, opTerm = "commit", "COMMIT", "OCommit"
			inTx[ci] = false
		case k < 31:
			st.Op, st.SQL, opTerm = "rollback", "ROLLBACK", "ORollback"
			inTx[ci] = false
		case k < 39:
			n := pick()
			st.Op, st.SQL, opTerm = "savepoint", "SAVEPOINT "+n, "(OSave "+coqBytes(strings.ToLower(n))+")"
			lastSave[ci] = n
		case k < 46:
			n := pick()
			if forcedName == "" && lastSave[ci] != "" && r.Chance(2, 3) {
				n = lastSave[ci]
			}
			st.Op, st.SQL = "rollback_to", "ROLLBACK TO "+n
			if r.Chance(1, 2) {
				st.SQL = "ROLLBACK TO SAVEPOINT " + n
			}
			opTerm = "(ORollbackTo " + coqBytes(strings.ToLower(n)) + ")"
		case k < 49:
			n := pick()
			st.Op, st.SQL, opTerm = "release", "RELEASE SAVEPOINT "+n, "(ORelease "+coqBytes(strings.ToLower(n))+")"
		case k < 52:
			st.Op, opTerm = "close", "OClose"
			inTx[ci] = false
		default:
			st.Op = "stmt"
			q, args := g.next(5)
			if strings.Count(q, "?") != len(args) {
				out.Aborted = append(out.Aborted, fmt.Sprintf("case %d: %d arguments for %q", idx, len(args), q))
				return co
			}
			st.SQL, st.Prepared = q, r.Chance(1, 4)
			if args != nil {
				st.Args = args
			}
			term, terr := Translate(q, sch.Table)
			argTerms := make([]string, len(args))
			for j, a := range args {
				s, err := argCoq(a)
				if err != nil && terr == nil {
					terr = err
				}
				argTerms[j] = s
			}
			if terr != nil {
				st.Skip = terr.Error()
			} else {
				opTerm = fmt.Sprintf("(OStmt %s %s)", term, coqList(argTerms))
			}
		}
		if st.Op == "close" {
			err := conns[ci].Close()
			st.Obs = Obs{Kind: "mod"}
			if err != nil {
				st.Obs = Obs{Kind: "err", Errno: errno(err), ErrText: err.Error()}
			}
			if conns[ci], err = db.Conn(ctx); err != nil {
				out.Aborted = append(out.Aborted, fmt.Sprintf("case %d: conn: %v", idx, err))
				return co
			}
		} else {
			st.Obs = execute(conns[ci], st.SQL, st.Args, st.Prepared)
		}
		if st.Obs.Kind == "err" && st.Obs.Errno == 1235 && st.Skip == "" {
			st.Skip = "engine: " + st.Obs.ErrText
		}
		d, _ := srv.DumpTable(sch.Table)
		st.Dump, st.Auto = d.Rows, d.AutoInc
		st.Locks = srv.HeldLocks()
		st.InTx, _ = srv.OpenTransactions()
		g.rows = rowsToArgs(d.Rows)
		dumpTerm, derr := dumpCoq(d.Rows)
		lockTerms := make([]string, 0, len(st.Locks))
		for _, l := range st.Locks {
			t, err := parseLockKey(l, sch.Table)
			if err != nil && derr == nil {
				derr = err
			}
			lockTerms = append(lockTerms, t)
		}
		if derr != nil && st.Skip == "" {
			st.Skip = derr.Error()
		}
		out.Statements++
		out.Kinds[st.Op]++
		if st.Obs.Kind == "err" {
			out.Errnos[fmt.Sprint(st.Obs.Errno)]++
		} else {
			out.Errnos["ok"]++
		}
		co.Steps = append(co.Steps, st)
		if st.Skip != "" {
			// the model cannot follow a statement it cannot read: the schedule ends here
			out.Skipped += steps - i
			why := st.Skip
			if len(why) > 60 {
				why = why[:60]
			}
			out.SkipWhy[why]++
			out.Statements += steps - i - 1
			break
		}
		stepTerms = append(stepTerms, fmt.Sprintf("{| t_conn := %d%%nat; t_op := Some %s; t_obs := %s; t_dump := %s; t_auto := %s; t_locks := %s |}",
			ci, opTerm, obsCoq(st.Obs), dumpTerm, coqZ(fmt.Sprint(st.Auto)), coqList(lockTerms)))
	}
	co.Coq = fmt.Sprintf("{| tc_schema := %s; tc_init := %s; tc_auto := %s; tc_steps := %s |}",
		sch.coq(), initCoq, coqZ(fmt.Sprint(co.InitAuto)), "[\n  "+strings.Join(stepTerms, ";\n  ")+"]")
	return co
}

// RunTx is the sub-command `txx`:
//
//	verifh txx seed=<n> n=<operations> [steps=<per schedule>] [only=<case index>] out=<file>
func RunTx(args map[string]string) {
	seed := hutil.ArgU64(args, "seed", 1)
	n := hutil.ArgInt(args, "n", 300)
	steps := hutil.ArgInt(args, "steps", 20)
	only := hutil.ArgInt(args, "only", -1)
	out := &TxOutput{Seed: seed, SkipWhy: map[string]int{}, Kinds: map[string]int{}, Errnos: map[string]int{}, Aborted: []string{}, Cases: []TxCase{}}
	ncases := (n + steps - 1) / steps
	for i := 0; i < ncases; i++ {
		if only >= 0 && i != only {
			continue
		}
		out.Cases = append(out.Cases, RunTxCase(seed, i, steps, out))
	}
	hutil.WriteJSON(hutil.ArgStr(args, "out", "txx.json"), out)
}
