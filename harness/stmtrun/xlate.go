// Package stmtrun is the differential tie between the in-memory MySQL stand-in
// (verifh/fakedb) and the Coq statement semantics coq/At/Stmt.v: it generates
// schemas, initial rows and statement programs, runs them on the BARE fakedb
// driver, and prints the same statements (parsed with the parser fakedb uses)
// as Coq `stmt` terms next to what fakedb answered. See docs/STMT.md.
package stmtrun

import (
	"fmt"
	"regexp"
	"strings"
	"unicode/utf8"

	"github.com/arana-db/parser"
	"github.com/arana-db/parser/ast"
	"github.com/arana-db/parser/opcode"
	"github.com/arana-db/parser/test_driver"
)

// unsupportedErr marks an AST node outside the Coq grammar: the statement is
// skipped by the tie and counted.
type unsupportedErr struct{ what string }

func (u unsupportedErr) Error() string { return "unsupported: " + u.what }

func unsup(format string, a ...interface{}) error {
	return unsupportedErr{fmt.Sprintf(format, a...)}
}

// ---------------------------------------------------------------- Coq printers

func coqBytes(s string) string {
	if s == "" {
		return "[]"
	}
	var sb strings.Builder
	sb.WriteByte('[')
	for i := 0; i < len(s); i++ {
		if i > 0 {
			sb.WriteByte(';')
		}
		fmt.Fprintf(&sb, "x%02x", s[i])
	}
	sb.WriteByte(']')
	return sb.String()
}

func coqZ(s string) string {
	if strings.HasPrefix(s, "-") {
		return "(" + s + ")%Z"
	}
	return s + "%Z"
}

func coqList(items []string) string { return "[" + strings.Join(items, "; ") + "]" }

func coqBool(b bool) string {
	if b {
		return "true"
	}
	return "false"
}

// asciiSpaceOnly: Go's TrimSpace also removes Unicode spaces (U+0085, U+00A0,
// ...); the model trims ASCII white space only, so such strings are skipped.
func asciiSpaceOnly(s string) bool {
	return strings.TrimSpace(s) == strings.Trim(s, " \t\n\v\f\r")
}

func coqStrValue(ctor, s string) (string, error) {
	if !utf8.ValidString(s) {
		return "", unsup("string that is not valid UTF-8")
	}
	if !asciiSpaceOnly(s) {
		return "", unsup("string with non-ASCII white space at an end")
	}
	return "(" + ctor + " " + coqBytes(s) + ")", nil
}

var canonDecRe = regexp.MustCompile(`^-?(0|[1-9][0-9]*)(\.[0-9]+)?$`)

// ---------------------------------------------------------------- expressions

type xl struct {
	table string // lower case
	alias string
}

func (x *xl) colName(cn *ast.ColumnName) (string, error) {
	if cn.Schema.L != "" {
		return "", unsup("schema-qualified column")
	}
	if cn.Table.L != "" && cn.Table.L != x.table && cn.Table.L != x.alias {
		return "", unsup("column qualified by another table")
	}
	return coqBytes(cn.Name.L), nil
}

func datum(d *test_driver.Datum) (string, error) {
	switch d.Kind() {
	case test_driver.KindNull:
		return "VNull", nil
	case test_driver.KindInt64:
		return fmt.Sprintf("(VInt %s)", coqZ(fmt.Sprint(d.GetInt64()))), nil
	case test_driver.KindUint64:
		return fmt.Sprintf("(VInt %s)", coqZ(fmt.Sprint(d.GetUint64()))), nil
	case test_driver.KindString:
		return coqStrValue("VStr", d.GetString())
	case test_driver.KindMysqlDecimal:
		s := d.GetMysqlDecimal().String()
		if !canonDecRe.MatchString(s) || (strings.HasPrefix(s, "-") && strings.Trim(s, "-0.") == "") {
			return "", unsup("decimal literal %q not in canonical form", s)
		}
		return "(VDec " + coqBytes(s) + ")", nil
	}
	return "", unsup("literal kind %d", d.Kind())
}

func rowValues(n ast.ExprNode) ([]ast.ExprNode, bool) {
	for {
		p, ok := n.(*ast.ParenthesesExpr)
		if !ok {
			break
		}
		n = p.Expr
	}
	if r, ok := n.(*ast.RowExpr); ok {
		return r.Values, true
	}
	return nil, false
}

func (x *xl) exprs(l []ast.ExprNode) ([]string, error) {
	out := make([]string, len(l))
	for i, e := range l {
		s, err := x.expr(e)
		if err != nil {
			return nil, err
		}
		out[i] = s
	}
	return out, nil
}

func (x *xl) expr(n ast.ExprNode) (string, error) {
	switch e := n.(type) {
	case *test_driver.ParamMarkerExpr:
		return fmt.Sprintf("(EParam %d)", e.Order), nil
	case *test_driver.ValueExpr:
		v, err := datum(&e.Datum)
		if err != nil {
			return "", err
		}
		return "(ELit " + v + ")", nil
	case *ast.ParenthesesExpr:
		if _, isRow := e.Expr.(*ast.RowExpr); isRow {
			return "", unsup("row constructor outside IN")
		}
		a, err := x.expr(e.Expr)
		if err != nil {
			return "", err
		}
		return "(EParen " + a + ")", nil
	case *ast.ColumnNameExpr:
		c, err := x.colName(e.Name)
		if err != nil {
			return "", err
		}
		return "(ECol " + c + ")", nil
	case *ast.BinaryOperationExpr:
		if _, isRow := rowValues(e.L); isRow {
			return "", unsup("row comparison")
		}
		if _, isRow := rowValues(e.R); isRow {
			return "", unsup("row comparison")
		}
		a, err := x.expr(e.L)
		if err != nil {
			return "", err
		}
		b, err := x.expr(e.R)
		if err != nil {
			return "", err
		}
		switch e.Op {
		case opcode.LogicAnd:
			return fmt.Sprintf("(EAnd %s %s)", a, b), nil
		case opcode.LogicOr:
			return fmt.Sprintf("(EOr %s %s)", a, b), nil
		case opcode.LogicXor:
			return fmt.Sprintf("(EXor %s %s)", a, b), nil
		case opcode.EQ:
			return fmt.Sprintf("(ECmp CEq %s %s)", a, b), nil
		case opcode.NE:
			return fmt.Sprintf("(ECmp CNe %s %s)", a, b), nil
		case opcode.LT:
			return fmt.Sprintf("(ECmp CLt %s %s)", a, b), nil
		case opcode.LE:
			return fmt.Sprintf("(ECmp CLe %s %s)", a, b), nil
		case opcode.GT:
			return fmt.Sprintf("(ECmp CGt %s %s)", a, b), nil
		case opcode.GE:
			return fmt.Sprintf("(ECmp CGe %s %s)", a, b), nil
		case opcode.NullEQ:
			return fmt.Sprintf("(ECmp CNullEq %s %s)", a, b), nil
		case opcode.Plus:
			return fmt.Sprintf("(EArith APlus %s %s)", a, b), nil
		case opcode.Minus:
			return fmt.Sprintf("(EArith AMinus %s %s)", a, b), nil
		case opcode.Mul:
			return fmt.Sprintf("(EArith AMul %s %s)", a, b), nil
		}
		return "", unsup("operator %v", e.Op)
	case *ast.UnaryOperationExpr:
		a, err := x.expr(e.V)
		if err != nil {
			return "", err
		}
		switch e.Op {
		case opcode.Not, opcode.Not2:
			return "(ENot " + a + ")", nil
		case opcode.Minus:
			return "(ENeg " + a + ")", nil
		case opcode.Plus:
			return "(EParen " + a + ")", nil
		}
		return "", unsup("unary operator %v", e.Op)
	case *ast.IsNullExpr:
		a, err := x.expr(e.Expr)
		if err != nil {
			return "", err
		}
		return fmt.Sprintf("(EIsNull %s %s)", coqBool(e.Not), a), nil
	case *ast.BetweenExpr:
		a, err := x.expr(e.Expr)
		if err != nil {
			return "", err
		}
		lo, err := x.expr(e.Left)
		if err != nil {
			return "", err
		}
		hi, err := x.expr(e.Right)
		if err != nil {
			return "", err
		}
		return fmt.Sprintf("(EBetween %s %s %s %s)", coqBool(e.Not), a, lo, hi), nil
	case *ast.PatternInExpr:
		if e.Sel != nil {
			return "", unsup("IN (subquery)")
		}
		if lv, isRow := rowValues(e.Expr); isRow {
			for _, v := range lv {
				if _, nested := rowValues(v); nested {
					return "", unsup("nested row constructor")
				}
			}
			l, err := x.exprs(lv)
			if err != nil {
				return "", err
			}
			items := make([]string, len(e.List))
			for i, it := range e.List {
				rv, ok := rowValues(it)
				if !ok {
					return "", unsup("row IN (scalar)")
				}
				for _, v := range rv {
					if _, nested := rowValues(v); nested {
						return "", unsup("nested row constructor")
					}
				}
				r, err := x.exprs(rv)
				if err != nil {
					return "", err
				}
				items[i] = coqList(r)
			}
			return fmt.Sprintf("(ERowIn %s %s %s)", coqBool(e.Not), coqList(l), coqList(items)), nil
		}
		a, err := x.expr(e.Expr)
		if err != nil {
			return "", err
		}
		for _, it := range e.List {
			if _, isRow := rowValues(it); isRow {
				return "", unsup("scalar IN (row)")
			}
		}
		l, err := x.exprs(e.List)
		if err != nil {
			return "", err
		}
		return fmt.Sprintf("(EIn %s %s %s)", coqBool(e.Not), a, coqList(l)), nil
	case *ast.PatternLikeExpr:
		if e.Escape != '\\' {
			return "", unsup("LIKE ... ESCAPE")
		}
		a, err := x.expr(e.Expr)
		if err != nil {
			return "", err
		}
		p, err := x.expr(e.Pattern)
		if err != nil {
			return "", err
		}
		return fmt.Sprintf("(ELike %s %s %s)", coqBool(e.Not), a, p), nil
	case *ast.DefaultExpr:
		if e.Name != nil {
			return "", unsup("DEFAULT(col)")
		}
		return "EDefault", nil
	case *ast.ValuesExpr:
		c, err := x.colName(e.Column.Name)
		if err != nil {
			return "", err
		}
		return "(EValues " + c + ")", nil
	}
	return "", unsup("expression %T", n)
}

// ---------------------------------------------------------------- statements

func singleTable(refs *ast.TableRefsClause) (string, string, error) {
	if refs == nil || refs.TableRefs == nil {
		return "", "", unsup("no table")
	}
	j := refs.TableRefs
	if j.Right != nil {
		return "", "", unsup("join")
	}
	src, ok := j.Left.(*ast.TableSource)
	if !ok {
		return "", "", unsup("table reference %T", j.Left)
	}
	tn, ok := src.Source.(*ast.TableName)
	if !ok {
		return "", "", unsup("derived table")
	}
	if tn.Schema.L != "" {
		return "", "", unsup("schema-qualified table")
	}
	return tn.Name.L, src.AsName.L, nil
}

func (x *xl) where(w ast.ExprNode) (string, error) {
	if w == nil {
		return "None", nil
	}
	s, err := x.expr(w)
	if err != nil {
		return "", err
	}
	return "(Some " + s + ")", nil
}

func (x *xl) order(o *ast.OrderByClause) (string, error) {
	if o == nil {
		return "[]", nil
	}
	if o.ForUnion {
		return "", unsup("ORDER BY of a union")
	}
	items := make([]string, len(o.Items))
	for i, it := range o.Items {
		if it.NullOrder {
			// the parser sets NullOrder for the default placement as well
		}
		s, err := x.expr(it.Expr)
		if err != nil {
			return "", err
		}
		items[i] = fmt.Sprintf("(%s, %s)", s, coqBool(it.Desc))
	}
	return coqList(items), nil
}

func limArg(n ast.ExprNode) (string, error) {
	switch e := n.(type) {
	case *test_driver.ParamMarkerExpr:
		return fmt.Sprintf("(LimArg %d)", e.Order), nil
	case *test_driver.ValueExpr:
		switch e.Datum.Kind() {
		case test_driver.KindInt64:
			return fmt.Sprintf("(LimLit %s)", coqZ(fmt.Sprint(e.Datum.GetInt64()))), nil
		case test_driver.KindUint64:
			return fmt.Sprintf("(LimLit %s)", coqZ(fmt.Sprint(e.Datum.GetUint64()))), nil
		}
	}
	return "", unsup("LIMIT argument %T", n)
}

func limit(l *ast.Limit, allowOffset bool) (string, error) {
	if l == nil {
		return "None", nil
	}
	if l.Count == nil {
		return "", unsup("LIMIT without count")
	}
	c, err := limArg(l.Count)
	if err != nil {
		return "", err
	}
	off := "None"
	if l.Offset != nil {
		if !allowOffset {
			return "", unsup("LIMIT offset here")
		}
		o, err := limArg(l.Offset)
		if err != nil {
			return "", err
		}
		off = "(Some " + o + ")"
	}
	return fmt.Sprintf("(Some (%s, %s))", c, off), nil
}

func (x *xl) assignments(l []*ast.Assignment) (string, error) {
	items := make([]string, len(l))
	for i, a := range l {
		c, err := x.colName(a.Column)
		if err != nil {
			return "", err
		}
		e, err := x.expr(a.Expr)
		if err != nil {
			return "", err
		}
		items[i] = fmt.Sprintf("(%s, %s)", c, e)
	}
	return coqList(items), nil
}

// Translate parses one statement (with the parser fakedb uses) and prints it
// as a Coq `stmt` term over table `table`.
func Translate(sql, table string) (string, error) {
	stmts, _, err := parser.New().Parse(sql, "", "")
	if err != nil {
		return "", unsup("parse error")
	}
	if len(stmts) != 1 {
		return "", unsup("%d statements", len(stmts))
	}
	table = strings.ToLower(table)
	switch s := stmts[0].(type) {
	case *ast.SelectStmt:
		if s.Kind != ast.SelectStmtKindSelect || s.GroupBy != nil || s.Having != nil || s.Distinct || s.With != nil ||
			len(s.WindowSpecs) > 0 || s.SelectIntoOpt != nil {
			return "", unsup("SELECT form")
		}
		tn, alias, err := singleTable(s.From)
		if err != nil {
			return "", err
		}
		if tn != table {
			return "", unsup("other table")
		}
		x := &xl{table: table, alias: alias}
		var fields string
		fl := s.Fields.Fields
		switch {
		case len(fl) == 1 && fl[0].WildCard != nil:
			w := fl[0].WildCard
			if w.Schema.L != "" || (w.Table.L != "" && w.Table.L != table && w.Table.L != alias) {
				return "", unsup("qualified *")
			}
			fields = "FStar"
		case len(fl) == 1 && isCountStar(fl[0].Expr):
			fields = "FCount"
		default:
			items := make([]string, len(fl))
			for i, f := range fl {
				if f.WildCard != nil {
					return "", unsup("* among other fields")
				}
				if items[i], err = x.expr(f.Expr); err != nil {
					return "", err
				}
			}
			fields = "(FList " + coqList(items) + ")"
		}
		w, err := x.where(s.Where)
		if err != nil {
			return "", err
		}
		o, err := x.order(s.OrderBy)
		if err != nil {
			return "", err
		}
		l, err := limit(s.Limit, true)
		if err != nil {
			return "", err
		}
		locking := s.LockInfo != nil && s.LockInfo.LockType != ast.SelectLockNone
		return fmt.Sprintf("(SSelect %s %s %s %s %s)", fields, w, o, l, coqBool(locking)), nil
	case *ast.InsertStmt:
		if s.Select != nil || len(s.Setlist) > 0 {
			return "", unsup("INSERT ... SELECT / SET")
		}
		tn, _, err := singleTable(s.Table)
		if err != nil {
			return "", err
		}
		if tn != table {
			return "", unsup("other table")
		}
		x := &xl{table: table}
		mode := "InsPlain"
		switch {
		case s.IsReplace:
			mode = "InsReplace"
		case s.IgnoreErr:
			mode = "InsIgnore"
		}
		cols := "None"
		if len(s.Columns) > 0 {
			names := make([]string, len(s.Columns))
			for i, c := range s.Columns {
				if names[i], err = x.colName(c); err != nil {
					return "", err
				}
			}
			cols = "(Some " + coqList(names) + ")"
		}
		rows := make([]string, len(s.Lists))
		for i, l := range s.Lists {
			r, err := x.exprs(l)
			if err != nil {
				return "", err
			}
			rows[i] = coqList(r)
		}
		od, err := x.assignments(s.OnDuplicate)
		if err != nil {
			return "", err
		}
		return fmt.Sprintf("(SInsert %s %s %s %s)", mode, cols, coqList(rows), od), nil
	case *ast.UpdateStmt:
		if s.MultipleTable || s.IgnoreErr {
			return "", unsup("UPDATE form")
		}
		tn, alias, err := singleTable(s.TableRefs)
		if err != nil {
			return "", err
		}
		if tn != table {
			return "", unsup("other table")
		}
		x := &xl{table: table, alias: alias}
		sets, err := x.assignments(s.List)
		if err != nil {
			return "", err
		}
		w, err := x.where(s.Where)
		if err != nil {
			return "", err
		}
		o, err := x.order(s.Order)
		if err != nil {
			return "", err
		}
		l, err := limit(s.Limit, false)
		if err != nil {
			return "", err
		}
		return fmt.Sprintf("(SUpdate %s %s %s %s)", sets, w, o, l), nil
	case *ast.DeleteStmt:
		if s.IsMultiTable || s.IgnoreErr {
			return "", unsup("DELETE form")
		}
		tn, alias, err := singleTable(s.TableRefs)
		if err != nil {
			return "", err
		}
		if tn != table {
			return "", unsup("other table")
		}
		x := &xl{table: table, alias: alias}
		w, err := x.where(s.Where)
		if err != nil {
			return "", err
		}
		o, err := x.order(s.Order)
		if err != nil {
			return "", err
		}
		l, err := limit(s.Limit, false)
		if err != nil {
			return "", err
		}
		return fmt.Sprintf("(SDelete %s %s %s)", w, o, l), nil
	}
	return "", unsup("statement %T", stmts[0])
}

func isCountStar(e ast.ExprNode) bool {
	ag, ok := e.(*ast.AggregateFuncExpr)
	if !ok || !strings.EqualFold(ag.F, "count") || ag.Distinct || len(ag.Args) != 1 {
		return false
	}
	v, ok := ag.Args[0].(*test_driver.ValueExpr)
	// COUNT(*) is parsed as COUNT(1); COUNT(NULL) would count nothing
	return ok && v.Datum.Kind() != test_driver.KindNull
}
