package stmtrun

import (
	"context"
	"database/sql"
	"encoding/hex"
	"errors"
	"fmt"
	"strconv"
	"strings"
	"time"

	"github.com/go-sql-driver/mysql"

	"verifh/fakedb"
	"verifh/hutil"
)

// Cell is one result cell as database/sql hands it over.
type Cell struct {
	K string `json:"k"` // null | int | text | other
	V string `json:"v,omitempty"`
}

type Obs struct {
	Kind     string   `json:"kind"` // rows | mod | err
	Rows     [][]Cell `json:"rows,omitempty"`
	Affected int64    `json:"affected,omitempty"`
	LastID   int64    `json:"last_id,omitempty"`
	Errno    int      `json:"errno,omitempty"`
	ErrText  string   `json:"err_text,omitempty"`
}

type StepOut struct {
	SQL      string                 `json:"sql"`
	Args     []Arg                  `json:"args"`
	Prepared bool                   `json:"prepared"`
	Skip     string                 `json:"skip,omitempty"` // why the tie does not compare this statement
	Obs      Obs                    `json:"obs"`
	Dump     [][]fakedb.TaggedValue `json:"dump"`
	Auto     int64                  `json:"auto"`
}

type CaseOut struct {
	Index    int                    `json:"index"`
	Table    string                 `json:"table"`
	DDL      string                 `json:"ddl"`
	Setup    []string               `json:"setup"`
	Init     [][]fakedb.TaggedValue `json:"init"`
	InitAuto int64                  `json:"init_auto"`
	Steps    []StepOut              `json:"steps"`
	Coq      string                 `json:"coq"` // the scase term
}

type Output struct {
	Seed       uint64         `json:"seed"`
	Cases      []CaseOut      `json:"cases"`
	Statements int            `json:"statements"`
	Skipped    int            `json:"skipped"`
	SkipWhy    map[string]int `json:"skip_why"`
	Kinds      map[string]int `json:"kinds"`   // statement verbs
	Errnos     map[string]int `json:"errnos"`  // fakedb answers: ok / error number
	Aborted    []string       `json:"aborted"` // cases whose setup failed (generator defect)
}

func argGo(a Arg) interface{} {
	switch a.T {
	case "null":
		return nil
	case "int":
		i, _ := strconv.ParseInt(a.V, 10, 64)
		return i
	case "bytes":
		b, _ := hex.DecodeString(a.V)
		if b == nil {
			b = []byte{}
		}
		return b
	}
	return a.V
}

func argCoq(a Arg) (string, error) {
	switch a.T {
	case "null":
		return "VNull", nil
	case "int":
		return "(VInt " + coqZ(a.V) + ")", nil
	case "bytes":
		b, _ := hex.DecodeString(a.V)
		return coqStrValue("VBytes", string(b))
	}
	return coqStrValue("VStr", a.V)
}

func taggedCoq(v fakedb.TaggedValue) (string, error) {
	switch v.K {
	case "null":
		return "VNull", nil
	case "int", "uint":
		return "(VInt " + coqZ(v.V) + ")", nil
	case "str":
		return "(VStr " + coqBytes(v.V) + ")", nil
	case "strhex":
		b, _ := hex.DecodeString(v.V)
		return "(VStr " + coqBytes(string(b)) + ")", nil
	case "bytes":
		b, _ := hex.DecodeString(v.V)
		return "(VBytes " + coqBytes(string(b)) + ")", nil
	case "dec":
		return "(VDec " + coqBytes(v.V) + ")", nil
	}
	return "", unsup("stored value of kind %s", v.K)
}

func dumpCoq(rows [][]fakedb.TaggedValue) (string, error) {
	out := make([]string, len(rows))
	for i, r := range rows {
		vs := make([]string, len(r))
		for j, v := range r {
			s, err := taggedCoq(v)
			if err != nil {
				return "", err
			}
			vs[j] = s
		}
		out[i] = coqList(vs)
	}
	return coqList(out), nil
}

func obsCoq(o Obs) string {
	switch o.Kind {
	case "rows":
		rows := make([]string, len(o.Rows))
		for i, r := range o.Rows {
			cs := make([]string, len(r))
			for j, c := range r {
				switch c.K {
				case "null":
					cs[j] = "ONull"
				case "int":
					cs[j] = "(OInt " + coqZ(c.V) + ")"
				default:
					cs[j] = "(OText " + coqBytes(c.V) + ")"
				}
			}
			rows[i] = coqList(cs)
		}
		return "(ObsRows " + coqList(rows) + ")"
	case "mod":
		return fmt.Sprintf("(ObsMod %s %s)", coqZ(fmt.Sprint(o.Affected)), coqZ(fmt.Sprint(o.LastID)))
	}
	return fmt.Sprintf("(ObsErr %d%%N)", o.Errno)
}

func errno(err error) int {
	var me *mysql.MySQLError
	if errors.As(err, &me) {
		return int(me.Number)
	}
	return 65535
}

func rowsToArgs(rows [][]fakedb.TaggedValue) [][]Arg {
	out := make([][]Arg, len(rows))
	for i, r := range rows {
		out[i] = make([]Arg, len(r))
		for j, v := range r {
			switch v.K {
			case "null":
				out[i][j] = Arg{T: "null"}
			case "int", "uint":
				out[i][j] = Arg{T: "int", V: v.V}
			default:
				out[i][j] = Arg{T: "str", V: v.V}
			}
		}
	}
	return out
}

// runner is what *sql.DB and *sql.Conn have in common.
type runner interface {
	ExecContext(ctx context.Context, query string, args ...interface{}) (sql.Result, error)
	QueryContext(ctx context.Context, query string, args ...interface{}) (*sql.Rows, error)
	PrepareContext(ctx context.Context, query string) (*sql.Stmt, error)
}

// execute runs one statement on the bare fakedb and records what came back.
func execute(db runner, q string, args []Arg, prepared bool) Obs {
	ctx := context.Background()
	goArgs := make([]interface{}, len(args))
	for i, a := range args {
		goArgs[i] = argGo(a)
	}
	var o Obs
	isQuery := strings.HasPrefix(strings.ToUpper(strings.TrimSpace(q)), "SELECT")
	class, detail := hutil.Guard(10*time.Second, func() error {
		var st *sql.Stmt
		var err error
		if prepared {
			if st, err = db.PrepareContext(ctx, q); err != nil {
				o = Obs{Kind: "err", Errno: errno(err), ErrText: err.Error()}
				return nil
			}
			defer st.Close()
		}
		if isQuery {
			var rows *sql.Rows
			if prepared {
				rows, err = st.Query(goArgs...)
			} else {
				rows, err = db.QueryContext(ctx, q, goArgs...)
			}
			if err != nil {
				o = Obs{Kind: "err", Errno: errno(err), ErrText: err.Error()}
				return nil
			}
			defer rows.Close()
			cols, _ := rows.Columns()
			o = Obs{Kind: "rows", Rows: [][]Cell{}}
			for rows.Next() {
				cells := make([]interface{}, len(cols))
				ptrs := make([]interface{}, len(cols))
				for i := range cells {
					ptrs[i] = &cells[i]
				}
				if err := rows.Scan(ptrs...); err != nil {
					o = Obs{Kind: "err", Errno: 65535, ErrText: err.Error()}
					return nil
				}
				out := make([]Cell, len(cols))
				for i, c := range cells {
					switch v := c.(type) {
					case nil:
						out[i] = Cell{K: "null"}
					case int64:
						out[i] = Cell{K: "int", V: fmt.Sprint(v)}
					case []byte:
						out[i] = Cell{K: "text", V: string(v)}
					case string:
						out[i] = Cell{K: "text", V: v}
					default:
						out[i] = Cell{K: "other", V: fmt.Sprint(v)}
					}
				}
				o.Rows = append(o.Rows, out)
			}
			if err := rows.Err(); err != nil {
				o = Obs{Kind: "err", Errno: errno(err), ErrText: err.Error()}
			}
			return nil
		}
		var res sql.Result
		if prepared {
			res, err = st.Exec(goArgs...)
		} else {
			res, err = db.ExecContext(ctx, q, goArgs...)
		}
		if err != nil {
			o = Obs{Kind: "err", Errno: errno(err), ErrText: err.Error()}
			return nil
		}
		o = Obs{Kind: "mod"}
		o.Affected, _ = res.RowsAffected()
		o.LastID, _ = res.LastInsertId()
		return nil
	})
	switch class {
	case hutil.OutPanic:
		return Obs{Kind: "err", Errno: 65534, ErrText: "panic: " + detail}
	case hutil.OutDiverged:
		return Obs{Kind: "err", Errno: 65533, ErrText: detail}
	}
	return o
}

func verb(q string) string {
	f := strings.Fields(strings.ToUpper(q))
	if len(f) == 0 {
		return "?"
	}
	return f[0]
}

// RunCase generates and runs program `idx` of the seed.
func RunCase(seed uint64, idx, steps, malformedPct int, out *Output) CaseOut {
	// hutil.Rng streams of nearby seeds are shifted copies of each other: spread the index
	r := hutil.NewRng(seed).Fork((uint64(idx) + 1) * 0xD1342543DE82EF95)
	sch := genSchema(r, idx)
	co := CaseOut{Index: idx, Table: sch.Table, DDL: sch.ddl()}
	dsn := fmt.Sprintf("u:p@tcp(127.0.0.1:3306)/stmtx_%d_%d?interpolateParams=true", seed, idx)
	fakedb.Driver.DropServer(dsn)
	db, err := sql.Open(fakedb.BareName, dsn)
	if err != nil {
		out.Aborted = append(out.Aborted, fmt.Sprintf("case %d: open: %v", idx, err))
		return co
	}
	defer db.Close()
	defer fakedb.Driver.DropServer(dsn)
	db.SetMaxOpenConns(1)
	srv, _ := fakedb.Driver.Server(dsn)
	if _, err := db.Exec(co.DDL); err != nil {
		out.Aborted = append(out.Aborted, fmt.Sprintf("case %d: %s: %v", idx, co.DDL, err))
		return co
	}
	g := &gen{r: r, s: sch}
	// initial rows through fakedb itself; failures (duplicate keys) are fine here
	n0 := r.Intn(7)
	for i := 0; i < n0; i++ {
		g.args = nil
		q := g.insertStmt()
		execute(db, q, g.args, false)
		co.Setup = append(co.Setup, q)
		if d, ok := srv.DumpTable(sch.Table); ok {
			g.rows = rowsToArgs(d.Rows)
		}
	}
	d, ok := srv.DumpTable(sch.Table)
	if !ok {
		out.Aborted = append(out.Aborted, fmt.Sprintf("case %d: no table after setup", idx))
		return co
	}
	co.Init, co.InitAuto = d.Rows, d.AutoInc
	g.rows = rowsToArgs(d.Rows)
	initCoq, err := dumpCoq(d.Rows)
	if err != nil {
		out.Aborted = append(out.Aborted, fmt.Sprintf("case %d: %v", idx, err))
		return co
	}
	var stepTerms []string
	for i := 0; i < steps; i++ {
		q, args := g.next(malformedPct)
		if strings.Count(q, "?") != len(args) {
			out.Aborted = append(out.Aborted, fmt.Sprintf("case %d: %d arguments for %q", idx, len(args), q))
			break
		}
		so := StepOut{SQL: q, Args: args, Prepared: r.Chance(1, 3)}
		if so.Args == nil {
			so.Args = []Arg{}
		}
		term, terr := Translate(q, sch.Table)
		argTerms := make([]string, len(args))
		for j, a := range args {
			s, err := argCoq(a)
			if err != nil && terr == nil {
				terr = err
			}
			argTerms[j] = s
		}
		so.Obs = execute(db, q, args, so.Prepared)
		d, _ := srv.DumpTable(sch.Table)
		so.Dump, so.Auto = d.Rows, d.AutoInc
		g.rows = rowsToArgs(d.Rows)
		dumpTerm, derr := dumpCoq(d.Rows)
		switch {
		case terr != nil:
			so.Skip = terr.Error()
		case derr != nil:
			so.Skip = derr.Error()
		case so.Obs.Kind == "err" && so.Obs.Errno == 1235:
			so.Skip = "engine: " + so.Obs.ErrText
		}
		out.Statements++
		out.Kinds[verb(q)]++
		if so.Obs.Kind == "err" {
			out.Errnos[fmt.Sprint(so.Obs.Errno)]++
		} else {
			out.Errnos["ok"]++
		}
		stmtTerm := "None"
		if so.Skip != "" {
			out.Skipped++
			why := so.Skip
			if len(why) > 60 {
				why = why[:60]
			}
			out.SkipWhy[why]++
			argTerms = nil
		} else {
			stmtTerm = "(Some " + term + ")"
		}
		if derr != nil {
			// cannot resynchronise the model: end of this program
			co.Steps = append(co.Steps, so)
			break
		}
		stepTerms = append(stepTerms, fmt.Sprintf("{| st_stmt := %s; st_args := %s; st_obs := %s; st_dump := %s; st_auto := %s |}",
			stmtTerm, coqList(argTerms), obsCoq(so.Obs), dumpTerm, coqZ(fmt.Sprint(so.Auto))))
		co.Steps = append(co.Steps, so)
	}
	co.Coq = fmt.Sprintf("{| sc_schema := %s; sc_init := %s; sc_auto := %s; sc_steps := %s |}",
		sch.coq(), initCoq, coqZ(fmt.Sprint(co.InitAuto)), "[\n  "+strings.Join(stepTerms, ";\n  ")+"]")
	return co
}

// Run is the sub-command `stmtx`:
//
//	verifh stmtx seed=<n> n=<statements> [steps=<per program>] [malformed=<percent>] [only=<case index>] out=<file>
func Run(args map[string]string) {
	seed := hutil.ArgU64(args, "seed", 1)
	n := hutil.ArgInt(args, "n", 300)
	steps := hutil.ArgInt(args, "steps", 12)
	mal := hutil.ArgInt(args, "malformed", 18)
	only := hutil.ArgInt(args, "only", -1)
	out := &Output{Seed: seed, SkipWhy: map[string]int{}, Kinds: map[string]int{}, Errnos: map[string]int{}, Aborted: []string{}, Cases: []CaseOut{}}
	ncases := (n + steps - 1) / steps
	for i := 0; i < ncases; i++ {
		if only >= 0 && i != only {
			continue
		}
		out.Cases = append(out.Cases, RunCase(seed, i, steps, mal, out))
	}
	hutil.WriteJSON(hutil.ArgStr(args, "out", "stmtx.json"), out)
}
