package fencerun

import (
	"encoding/json"
	"os"

	"verifh/hutil"
)

func readJSON(path string, v interface{}) error {
	b, err := os.ReadFile(path)
	if err != nil {
		return err
	}
	return json.Unmarshal(b, v)
}

type Output struct {
	Cases []Case         `json:"cases"`
	Dist  map[string]int `json:"dist"`
}

func enumHist(maxLen int, f func(h []int)) {
	var rec func(h []int)
	rec = func(h []int) {
		if len(h) > 0 {
			f(h)
		}
		if len(h) == maxLen {
			return
		}
		for p := 1; p <= 3; p++ {
			rec(append(append([]int{}, h...), p))
		}
	}
	rec(nil)
}

// Run: sub-command "fence".
//
//	seqlen   exhaustive fault-free histories of one branch up to this length
//	faultlen histories up to this length with a fault at every (delivery, operation index)
//	nsample  sampled multi-branch histories (random faults, a few invalid phases)
//	schedbits exhaustive schedule prefixes of this many bits for every (initial status, phase pair)
func Run(args map[string]string) {
	seed := hutil.ArgU64(args, "seed", 1)
	seqlen := hutil.ArgInt(args, "seqlen", 6)
	faultlen := hutil.ArgInt(args, "faultlen", 3)
	nsample := hutil.ArgInt(args, "nsample", 300)
	drvlen := hutil.ArgInt(args, "drvlen", 4)
	schedbits := hutil.ArgInt(args, "schedbits", 6)
	rng := hutil.NewRng(seed)
	out := Output{Dist: map[string]int{}}
	add := func(c Case, tag string) {
		runCase(&c)
		out.Cases = append(out.Cases, c)
		out.Dist[tag]++
	}
	if replay := hutil.ArgStr(args, "replay", ""); replay != "" {
		var c Case
		if err := readJSON(replay, &c); err == nil {
			c.Obs, c.RObs, c.Oracle, c.Infra = nil, nil, "", ""
			add(c, "replay")
		}
		hutil.WriteJSON(args["out"], out)
		return
	}
	enumHist(seqlen, func(h []int) {
		c := Case{Kind: "seq"}
		for _, p := range h {
			c.Hist = append(c.Hist, Delivery{Key: 0, Phase: p, Fault: -1})
		}
		add(c, "seq.exhaustive")
	})
	enumHist(faultlen, func(h []int) {
		for i := range h {
			for k := 0; k <= 9; k++ {
				// every error kind for the short histories (the kind only matters at a business statement)
				kinds := []int{(i + k) % 4}
				if len(h) <= 2 {
					kinds = []int{0, 1, 2, 3}
				}
				for _, fe := range kinds {
					c := Case{Kind: "seq"}
					for j, p := range h {
						d := Delivery{Key: 0, Phase: p, Fault: -1}
						if j == i {
							d.Fault, d.FErr = k, fe
						}
						c.Hist = append(c.Hist, d)
					}
					add(c, "seq.fault-each-op")
				}
			}
		}
	})
	// the proxy-driver mode: all histories of one branch (driver deliveries only), fault-free and
	// with a fault at every operation of every delivery of the shorter ones
	enumHist(drvlen, func(h []int) {
		c := Case{Kind: "seq"}
		for _, p := range h {
			c.Hist = append(c.Hist, Delivery{Key: 0, Phase: p, Fault: -1, Drv: true})
		}
		add(c, "drv.exhaustive")
		if len(h) <= drvlen-2 {
			for i := range h {
				for k := 0; k <= 9; k++ {
					cc := Case{Kind: "seq"}
					for j, p := range h {
						d := Delivery{Key: 0, Phase: p, Fault: -1, Drv: true}
						if j == i {
							d.Fault, d.FErr = k, (i+k)%4
						}
						cc.Hist = append(cc.Hist, d)
					}
					add(cc, "drv.fault-each-op")
				}
			}
		}
	})
	for n := 0; n < nsample; n++ {
		r := rng.Fork(uint64(n))
		c := Case{Kind: "seq"}
		l := 1 + r.Intn(12)
		nkeys := 1 + r.Intn(4)
		malformed := r.Chance(1, 10)
		mixed := r.Chance(1, 4) // some deliveries go through the proxy driver
		for j := 0; j < l; j++ {
			d := Delivery{Key: r.Intn(nkeys), Phase: 1 + r.Intn(3), Fault: -1}
			if r.Chance(1, 4) {
				d.Fault, d.FErr = r.Intn(10), r.Intn(4)
			}
			if mixed {
				d.Drv = r.Chance(1, 3)
			}
			if malformed && r.Chance(1, 3) {
				d.Phase = []int{0, 4, 7}[r.Intn(3)]
			}
			c.Hist = append(c.Hist, d)
		}
		if malformed {
			add(c, "sampled.with-invalid-phase")
		} else if mixed {
			add(c, "sampled.mixed-api-and-driver")
		} else {
			add(c, "sampled.multi-branch")
		}
	}
	prefixes := [][]int{{}, {1}, {1, 2}, {1, 3}, {3}}
	for _, pre := range prefixes {
		for p1 := 1; p1 <= 3; p1++ {
			for p2 := 1; p2 <= 3; p2++ {
				for s := 0; s < 1<<uint(schedbits); s++ {
					c := Case{Kind: "race", Race: &Race{P1: p1, P2: p2, F1: -1, F2: -1}}
					for _, p := range pre {
						c.Hist = append(c.Hist, Delivery{Key: 0, Phase: p, Fault: -1})
					}
					for b := 0; b < schedbits; b++ {
						c.Race.Sched = append(c.Race.Sched, s>>uint(b)&1 == 1)
					}
					add(c, "race.exhaustive-schedules")
				}
			}
		}
	}
	// races with a database failure at a row / lock operation of one (or both) of the deliveries
	fbits := hutil.ArgInt(args, "faultschedbits", 3)
	for _, pre := range prefixes {
		for p1 := 1; p1 <= 3; p1++ {
			for p2 := 1; p2 <= 3; p2++ {
				for f := 0; f < 9; f++ {
					f1, f2 := -1, -1
					switch {
					case f < 4:
						f1 = f
					case f < 8:
						f2 = f - 4
					default:
						f1, f2 = rng.Intn(4), rng.Intn(4)
					}
					for s := 0; s < 1<<uint(fbits); s++ {
						c := Case{Kind: "race", Race: &Race{P1: p1, P2: p2, F1: f1, F2: f2}}
						for _, p := range pre {
							c.Hist = append(c.Hist, Delivery{Key: 0, Phase: p, Fault: -1})
						}
						// spread the few schedule bits over the run: the prefix, then the same bits repeated
						for b := 0; b < 8; b++ {
							c.Race.Sched = append(c.Race.Sched, s>>uint(b%fbits)&1 == 1)
						}
						add(c, "race.fault-at-each-op")
					}
				}
			}
		}
	}
	hutil.WriteJSON(args["out"], out)
}
