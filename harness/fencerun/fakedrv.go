// Package fencerun (C06): runs the real fence.WithFence on a small stateful
// stand-in for MySQL behind database/sql/driver.
//
// The stand-in understands exactly the statement shapes of
// pkg/rm/tcc/fence/store/db/sql/tcc_fence_store_sql.go (insert with a unique
// (xid, branch_id) key -> *mysql.MySQLError 1062 on a duplicate, select ... for
// update, compare-and-set update of the status, delete) and one business
// statement `update biz set n = n + 1 where xid = ? and branch_id = ? and kind = ?`.
// Writes of a transaction live in an overlay that COMMIT applies and ROLLBACK
// (or a failed COMMIT) discards; a per-key exclusive lock is taken by insert,
// by update and by a select-for-update that sees a row, and is held to the end
// of the transaction.  Every driver operation of a delivery is journalled
// (kind only, never SQL text) and the k-th counted operation can be made to fail.
package fencerun

import (
	"context"
	"database/sql/driver"
	"errors"
	"fmt"
	"io"
	"regexp"
	"strings"
	"sync"
	"time"

	"github.com/go-sql-driver/mysql"
)

// operation kinds (the journal alphabet; the Coq model uses the same order)
const (
	OpBegin    = 0
	OpPrepIns  = 1
	OpIns      = 2
	OpPrepSel  = 3
	OpSel      = 4
	OpPrepUpd  = 5
	OpUpd      = 6
	OpBiz      = 7
	OpCommit   = 8
	OpRollback = 9
	OpPrepDel  = 10
	OpDel      = 11
	OpUnknown  = 12
)

var errInjected = errors.New("fakedrv: injected database failure")

type fkey struct {
	xid    string
	branch int64
}

type frow struct {
	action         string
	status         int64
	create, modify time.Time
}

type bkey struct {
	xid    string
	branch int64
	kind   int64
}

// Store is the committed database shared by all connections of one case.
type Store struct {
	mu    sync.Mutex
	fence map[fkey]frow
	biz   map[bkey]int64
	owner map[fkey]int // transaction (session id) holding the key lock
	table string
}

func NewStore() *Store {
	return &Store{fence: map[fkey]frow{}, biz: map[bkey]int64{}, owner: map[fkey]int{}, table: "tcc_fence_log"}
}

func (s *Store) Status(xid string, branch int64) int64 {
	s.mu.Lock()
	defer s.mu.Unlock()
	if r, ok := s.fence[fkey{xid, branch}]; ok {
		return r.status
	}
	return 0
}

func (s *Store) Biz(xid string, branch int64) [3]int64 {
	s.mu.Lock()
	defer s.mu.Unlock()
	return [3]int64{s.biz[bkey{xid, branch, 1}], s.biz[bkey{xid, branch, 2}], s.biz[bkey{xid, branch, 3}]}
}

// Biz2: the second row of every business step (kinds 11, 12, 13)
func (s *Store) Biz2(xid string, branch int64) [3]int64 {
	s.mu.Lock()
	defer s.mu.Unlock()
	return [3]int64{s.biz[bkey{xid, branch, 11}], s.biz[bkey{xid, branch, 12}], s.biz[bkey{xid, branch, 13}]}
}

func (s *Store) lockedByOther(k fkey, sid int) bool {
	s.mu.Lock()
	defer s.mu.Unlock()
	o, ok := s.owner[k]
	return ok && o != sid
}

// Session is one delivery: its journal, its fault position, its scheduler gate.
type Session struct {
	ID      int
	Store   *Store
	Fault   int // index of the counted operation to fail, -1 = none
	NOps    int
	Trace   []int
	Ran     int                                   // executions of the business callback (not transactional)
	Gate    func(s *Session, kind int, key *fkey) // nil = sequential
	Visible func(kind int) bool                   // journal filter (race mode hides begin/prepare)
	Misuse  string
	// kind of the operation the injected failure hit (-1: not reached)
	FaultedKind int
	// for a failing COMMIT: 1 = the first COMMIT of the delivery, 2 = the second (proxy driver: the fence transaction's)
	FaultedCommitNo int
	FaultErr        int  // error kind of a failure that hits a business statement: 0 generic, 1 MySQL 1205, 2 MySQL 1213, 3 driver.ErrBadConn
	Fired           bool // the injected failure was reached
}

// op journals one driver operation and decides whether it fails by injection.
// Rollback is journalled but never counted/failed.
func (s *Session) op(kind int, key *fkey) error {
	if s.Gate != nil && (s.Visible == nil || s.Visible(kind)) {
		s.Gate(s, kind, key)
	}
	if s.Visible == nil || s.Visible(kind) {
		s.Trace = append(s.Trace, kind)
	}
	if kind == OpRollback {
		return nil
	}
	if s.Visible != nil && !s.Visible(kind) {
		return nil // race mode: BEGIN / PREPARE are neither journalled nor counted
	}
	n := s.NOps
	s.NOps++
	if n == s.Fault {
		defer func() { s.Fired = true }()
		s.FaultedKind = kind
		if kind == OpCommit {
			for _, k := range s.Trace {
				if k == OpCommit {
					s.FaultedCommitNo++
				}
			}
		}
		// the ERROR KIND of the failure matters only to code that inspects it; at a business statement the
		// harness injects the kinds a real MySQL connection produces there
		if kind == OpBiz {
			switch s.FaultErr {
			case 1:
				return &mysql.MySQLError{Number: 1205, Message: "Lock wait timeout exceeded; try restarting transaction"}
			case 2:
				return &mysql.MySQLError{Number: 1213, Message: "Deadlock found when trying to get lock; try restarting transaction"}
			case 3:
				return driver.ErrBadConn
			}
		}
		return errInjected
	}
	return nil
}

type connector struct{ sess *Session }

func (c *connector) Connect(context.Context) (driver.Conn, error) { return &conn{sess: c.sess}, nil }
func (c *connector) Driver() driver.Driver                        { return fdriver{} }

type fdriver struct{}

// sessions addressed by DSN: the seata-fence-mysql proxy driver opens its target through
// DriverContext.OpenConnector(dsn)
var (
	dsnMu       sync.Mutex
	dsnSessions = map[string]*Session{}
)

func (fdriver) OpenConnector(dsn string) (driver.Connector, error) {
	dsnMu.Lock()
	defer dsnMu.Unlock()
	s, ok := dsnSessions[dsn]
	if !ok {
		return nil, errors.New("fakedrv: unknown dsn " + dsn)
	}
	return &connector{sess: s}, nil
}

func (fdriver) Open(string) (driver.Conn, error) {
	return nil, errors.New("fakedrv: use the connector")
}

type txn struct {
	fence   map[fkey]*frow // nil value = deleted
	biz     map[bkey]int64
	touched []fkey
}

type conn struct {
	sess   *Session
	tx     *txn
	locked []fkey
}

type stmtKind int

const (
	sIns stmtKind = iota
	sSel
	sUpd
	sDel
	sBiz
	sUnknown
)

type parsed struct {
	upsert bool     // insert ... on duplicate key update
	ondup  []string // columns the upsert clause copies from the new values
	kind   stmtKind
	nolock bool     // select without FOR UPDATE: plain read, takes and waits for no lock
	cols   []string // insert: column list; update: set columns then where columns; others: where columns
	nset   int
}

var (
	reSpace = regexp.MustCompile(`\s+`)
	reEqQ   = regexp.MustCompile(`(\w+)\s*=\s*\?`)
	reIns   = regexp.MustCompile(`^insert into (\S+) \(([^)]*)\) values \(([^)]*)\)( on duplicate key update (.*))?$`)
	reOnDup = regexp.MustCompile(`^(\w+) = values\((\w+)\)$`)
	reSel   = regexp.MustCompile(`^select (.*) from (\S+) where (.*?)( for update)?$`)
	reUpd   = regexp.MustCompile(`^update (\S+) set (.*) where (.*)$`)
	reDel   = regexp.MustCompile(`^delete from (\S+) where (.*)$`)
	reBiz   = regexp.MustCompile(`^update biz set n = n \+ 1 where xid = \? and branch_id = \? and kind = \?$`)
)

func eqCols(s string) []string {
	var out []string
	for _, m := range reEqQ.FindAllStringSubmatch(s, -1) {
		out = append(out, m[1])
	}
	return out
}

func (c *conn) parse(q string) parsed {
	n := strings.ToLower(strings.TrimSpace(reSpace.ReplaceAllString(q, " ")))
	tbl := c.sess.Store.table
	if reBiz.MatchString(n) {
		return parsed{kind: sBiz}
	}
	if m := reIns.FindStringSubmatch(n); m != nil && m[1] == tbl {
		var cols []string
		for _, x := range strings.Split(m[2], ",") {
			cols = append(cols, strings.TrimSpace(x))
		}
		if strings.Count(m[3], "?") == len(cols) {
			// optional MySQL upsert clause: `on duplicate key update c = values(c), ...`
			var ondup []string
			okClause := true
			if m[4] != "" {
				for _, a := range strings.Split(m[5], ",") {
					mm := reOnDup.FindStringSubmatch(strings.TrimSpace(a))
					if mm == nil || mm[1] != mm[2] {
						okClause = false
						break
					}
					ondup = append(ondup, mm[1])
				}
			}
			if okClause {
				return parsed{kind: sIns, cols: cols, ondup: ondup, upsert: m[4] != ""}
			}
		}
	}
	if m := reSel.FindStringSubmatch(n); m != nil && m[2] == tbl {
		want := "xid, branch_id, action_name, status, gmt_create, gmt_modified"
		if reSpace.ReplaceAllString(m[1], " ") == want && !strings.Contains(m[3], " or ") {
			return parsed{kind: sSel, cols: eqCols(m[3]), nolock: m[4] == ""}
		}
	}
	if m := reUpd.FindStringSubmatch(n); m != nil && m[1] == tbl && !strings.Contains(m[3], " or ") {
		set := eqCols(m[2])
		return parsed{kind: sUpd, cols: append(set, eqCols(m[3])...), nset: len(set)}
	}
	if m := reDel.FindStringSubmatch(n); m != nil && m[1] == tbl && !strings.Contains(m[2], " or ") &&
		!strings.Contains(m[2], "<") && !strings.Contains(m[2], " in ") {
		return parsed{kind: sDel, cols: eqCols(m[2])}
	}
	return parsed{kind: sUnknown}
}

func (c *conn) Prepare(q string) (driver.Stmt, error) {
	p := c.parse(q)
	kind := map[stmtKind]int{sIns: OpPrepIns, sSel: OpPrepSel, sUpd: OpPrepUpd, sDel: OpPrepDel, sBiz: -1, sUnknown: OpUnknown}[p.kind]
	if kind >= 0 {
		if err := c.sess.op(kind, nil); err != nil {
			return nil, err
		}
	}
	if p.kind == sUnknown {
		c.sess.Misuse = "unsupported statement: " + q
		return nil, errors.New("fakedrv: unsupported statement: " + q)
	}
	return &stmt{c: c, p: p, nin: strings.Count(q, "?")}, nil
}

// Close: like a MySQL connection that goes away, an open transaction is rolled back
func (c *conn) Close() error {
	st := c.sess.Store
	st.mu.Lock()
	defer st.mu.Unlock()
	c.tx = nil
	c.release()
	return nil
}

func (c *conn) Begin() (driver.Tx, error) { return c.BeginTx(context.Background(), driver.TxOptions{}) }

func (c *conn) BeginTx(context.Context, driver.TxOptions) (driver.Tx, error) {
	if err := c.sess.op(OpBegin, nil); err != nil {
		return nil, err
	}
	if c.tx != nil {
		c.sess.Misuse = "nested begin"
		return nil, errors.New("fakedrv: transaction already open")
	}
	c.tx = &txn{fence: map[fkey]*frow{}, biz: map[bkey]int64{}}
	return c, nil
}

func (c *conn) release() {
	st := c.sess.Store
	for _, k := range c.locked {
		if o, ok := st.owner[k]; ok && o == c.sess.ID {
			delete(st.owner, k)
		}
	}
	c.locked = nil
}

func (c *conn) Commit() error {
	err := c.sess.op(OpCommit, nil)
	st := c.sess.Store
	st.mu.Lock()
	defer st.mu.Unlock()
	t := c.tx
	c.tx = nil
	c.release()
	if err != nil || t == nil {
		return err // a failed COMMIT leaves nothing behind
	}
	for k, r := range t.fence {
		if r == nil {
			delete(st.fence, k)
		} else {
			st.fence[k] = *r
		}
	}
	for k, d := range t.biz {
		st.biz[k] += d
	}
	return nil
}

func (c *conn) Rollback() error {
	_ = c.sess.op(OpRollback, nil)
	st := c.sess.Store
	st.mu.Lock()
	defer st.mu.Unlock()
	c.tx = nil
	c.release()
	return nil
}

// view returns the row the transaction sees (own writes first)
func (c *conn) view(k fkey) (frow, bool) {
	if c.tx != nil {
		if r, ok := c.tx.fence[k]; ok {
			if r == nil {
				return frow{}, false
			}
			return *r, true
		}
	}
	r, ok := c.sess.Store.fence[k]
	return r, ok
}

func (c *conn) write(k fkey, r *frow) {
	if c.tx == nil { // autocommit
		if r == nil {
			delete(c.sess.Store.fence, k)
		} else {
			c.sess.Store.fence[k] = *r
		}
		return
	}
	c.tx.fence[k] = r
}

func (c *conn) lock(k fkey) error {
	st := c.sess.Store
	if o, ok := st.owner[k]; ok && o != c.sess.ID {
		if c.sess.Gate != nil {
			c.sess.Misuse = "lock conflict reached the store (scheduler bug)"
		}
		return &mysql.MySQLError{Number: 1205, Message: "Lock wait timeout exceeded"}
	}
	if c.tx != nil {
		st.owner[k] = c.sess.ID
		c.locked = append(c.locked, k)
	}
	return nil
}

type stmt struct {
	c   *conn
	p   parsed
	nin int
}

func (s *stmt) Close() error  { return nil }
func (s *stmt) NumInput() int { return s.nin }

func asInt(v driver.Value) (int64, bool) {
	switch x := v.(type) {
	case int64:
		return x, true
	case []byte:
		var n int64
		_, err := fmt.Sscan(string(x), &n)
		return n, err == nil
	case string:
		var n int64
		_, err := fmt.Sscan(x, &n)
		return n, err == nil
	}
	return 0, false
}

func asStr(v driver.Value) string {
	switch x := v.(type) {
	case string:
		return x
	case []byte:
		return string(x)
	}
	return fmt.Sprint(v)
}

func asTime(v driver.Value) time.Time {
	if t, ok := v.(time.Time); ok {
		return t
	}
	return time.Time{}
}

func keyOf(cols []string, args []driver.Value) (fkey, map[string]driver.Value) {
	m := map[string]driver.Value{}
	for i, c := range cols {
		if i < len(args) {
			m[c] = args[i]
		}
	}
	b, _ := asInt(m["branch_id"])
	return fkey{asStr(m["xid"]), b}, m
}

type result struct{ n int64 }

func (r result) LastInsertId() (int64, error) { return 0, nil }
func (r result) RowsAffected() (int64, error) { return r.n, nil }

func (s *stmt) Exec(args []driver.Value) (driver.Result, error) {
	c := s.c
	st := c.sess.Store
	switch s.p.kind {
	case sBiz:
		if err := c.sess.op(OpBiz, nil); err != nil {
			return nil, err
		}
		b, _ := asInt(args[1])
		kd, _ := asInt(args[2])
		st.mu.Lock()
		defer st.mu.Unlock()
		k := bkey{asStr(args[0]), b, kd}
		if c.tx != nil {
			c.tx.biz[k]++
		} else {
			st.biz[k]++
		}
		return result{1}, nil
	case sIns:
		k, m := keyOf(s.p.cols, args)
		if err := c.sess.op(OpIns, &k); err != nil {
			return nil, err
		}
		st.mu.Lock()
		defer st.mu.Unlock()
		if err := c.lock(k); err != nil {
			return nil, err
		}
		if cur, ok := c.view(k); ok {
			if s.p.upsert {
				// MySQL: the existing row is updated with the listed columns, 2 rows affected (0 if nothing changes), no error
				for _, col := range s.p.ondup {
					switch col {
					case "status":
						cur.status, _ = asInt(m["status"])
					case "action_name":
						cur.action = asStr(m["action_name"])
					case "gmt_modified":
						cur.modify = asTime(m["gmt_modified"])
					case "gmt_create":
						cur.create = asTime(m["gmt_create"])
					}
				}
				c.write(k, &cur)
				return result{2}, nil
			}
			return nil, &mysql.MySQLError{Number: 1062, Message: fmt.Sprintf("Duplicate entry '%s-%d' for key 'PRIMARY'", k.xid, k.branch)}
		}
		stv, _ := asInt(m["status"])
		c.write(k, &frow{action: asStr(m["action_name"]), status: stv, create: asTime(m["gmt_create"]), modify: asTime(m["gmt_modified"])})
		return result{1}, nil
	case sUpd:
		k, _ := keyOf(s.p.cols[s.p.nset:], args[s.p.nset:])
		if err := c.sess.op(OpUpd, &k); err != nil {
			return nil, err
		}
		st.mu.Lock()
		defer st.mu.Unlock()
		if err := c.lock(k); err != nil {
			return nil, err
		}
		_, set := keyOf(s.p.cols[:s.p.nset], args[:s.p.nset])
		_, where := keyOf(s.p.cols[s.p.nset:], args[s.p.nset:])
		r, ok := c.view(k)
		if !ok {
			return result{0}, nil
		}
		if w, has := where["status"]; has {
			if ws, _ := asInt(w); ws != r.status {
				return result{0}, nil
			}
		}
		if v, has := set["status"]; has {
			r.status, _ = asInt(v)
		}
		if v, has := set["gmt_modified"]; has {
			r.modify = asTime(v)
		}
		c.write(k, &r)
		return result{1}, nil
	case sDel:
		k, _ := keyOf(s.p.cols, args)
		if err := c.sess.op(OpDel, &k); err != nil {
			return nil, err
		}
		st.mu.Lock()
		defer st.mu.Unlock()
		if err := c.lock(k); err != nil {
			return nil, err
		}
		if _, ok := c.view(k); !ok {
			return result{0}, nil
		}
		c.write(k, nil)
		return result{1}, nil
	}
	c.sess.Misuse = "exec of a query statement"
	return nil, errors.New("fakedrv: not an exec statement")
}

func (s *stmt) Query(args []driver.Value) (driver.Rows, error) {
	c := s.c
	if s.p.kind != sSel {
		c.sess.Misuse = "query of an exec statement"
		return nil, errors.New("fakedrv: not a query statement")
	}
	k, _ := keyOf(s.p.cols, args)
	kp := &k
	if s.p.nolock {
		kp = nil // never waits for a lock
	}
	if err := c.sess.op(OpSel, kp); err != nil {
		return nil, err
	}
	st := c.sess.Store
	st.mu.Lock()
	defer st.mu.Unlock()
	if o, held := st.owner[k]; held && o != c.sess.ID && !s.p.nolock {
		if c.sess.Gate != nil {
			c.sess.Misuse = "lock conflict reached the store (scheduler bug)"
		}
		return nil, &mysql.MySQLError{Number: 1205, Message: "Lock wait timeout exceeded"}
	}
	r, ok := c.view(k)
	if !ok {
		return &rows{}, nil
	}
	if !s.p.nolock {
		if err := c.lock(k); err != nil {
			return nil, err
		}
	}
	return &rows{data: [][]driver.Value{{k.xid, k.branch, r.action, r.status, r.create, r.modify}}}, nil
}

type rows struct {
	data [][]driver.Value
	i    int
}

func (r *rows) Columns() []string {
	return []string{"xid", "branch_id", "action_name", "status", "gmt_create", "gmt_modified"}
}
func (r *rows) Close() error { return nil }
func (r *rows) Next(dest []driver.Value) error {
	if r.i >= len(r.data) {
		return io.EOF
	}
	copy(dest, r.data[r.i])
	r.i++
	return nil
}
