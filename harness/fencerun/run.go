package fencerun

import (
	"context"
	"database/sql"
	"errors"
	"fmt"
	"sync"
	"time"

	"github.com/go-sql-driver/mysql"

	"seata.apache.org/seata-go/pkg/rm/tcc/fence"
	"seata.apache.org/seata-go/pkg/rm/tcc/fence/enum"
	"seata.apache.org/seata-go/pkg/tm"

	"verifh/hutil"
)

// Delivery is one coordinator/TM delivery of a phase for a branch.
type Delivery struct {
	Key   int  `json:"key"`            // branch index: xid = "xid-<key/2>", branch id = 100+key (keys 2k, 2k+1 share an xid)
	Phase int  `json:"phase"`          // 1 prepare, 2 commit, 3 rollback
	Fault int  `json:"fault"`          // -1 none, else index of the failing counted driver operation
	FErr  int  `json:"ferr,omitempty"` // error kind if the failure hits a business statement: 0 generic, 1 MySQL 1205, 2 MySQL 1213, 3 driver.ErrBadConn
	Drv   bool `json:"drv,omitempty"`  // through the seata-fence-mysql proxy driver instead of WithFence(callback)
}

// Obs is what one delivery did (projected: no SQL text, no messages, no times).
type Obs struct {
	Ops    []int    `json:"ops"`    // driver operation journal (kinds)
	Err    int      `json:"err"`    // 0 none, 1 injected fault, 2 duplicate key, 3 refused by the fence, 4 lock wait timeout, 5 panic, 6 diverged, 7 other
	Ran    int      `json:"ran"`    // executions of the business callback
	Status int64    `json:"status"` // committed fence status of the key after the delivery (0 = no row)
	Biz    [3]int64 `json:"biz"`    // committed try/confirm/cancel effect counters of the key after the delivery (first row)
	Biz2   [3]int64 `json:"biz2"`   // the second row every business step updates in the same transaction
	Detail string   `json:"detail,omitempty"`
}

// Race is two deliveries of the same branch with interleaved statements.
type Race struct {
	P1    int    `json:"p1"`
	P2    int    `json:"p2"`
	F1    int    `json:"f1"` // fault position among the row / lock operations of the first delivery, -1 none
	F2    int    `json:"f2"`
	Sched []bool `json:"sched"`
}

type Case struct {
	Kind   string     `json:"kind"` // "seq" or "race"
	Hist   []Delivery `json:"hist"` // sequential deliveries (for a race: the prefix that sets up the initial status)
	Race   *Race      `json:"race,omitempty"`
	Obs    []Obs      `json:"obs"`            // one per sequential delivery
	RObs   []Obs      `json:"robs,omitempty"` // the two racing deliveries (status/biz read after both ended)
	Oracle string     `json:"oracle"`         // property statement evaluated on the real run; "" = holds
	Pred   string     `json:"pred,omitempty"` // input predicate of a known finding some delivery of the history satisfies
	Infra  string     `json:"infra,omitempty"`
}

func keyName(k int) (string, int64) { return fmt.Sprintf("xid-%d", k/2), int64(100 + k) }

func classify(err error, sess *Session) (int, string) {
	if err == nil {
		return 0, ""
	}
	var me *mysql.MySQLError
	switch {
	case errors.Is(err, errInjected), sess.Fired && sess.FaultedKind == OpBiz && sess.FaultErr != 0:
		return 1, ""
	case errors.As(err, &me) && me.Number == 1062:
		return 2, ""
	case sess.Misuse != "", errors.Is(err, sql.ErrTxDone), errors.Is(err, sql.ErrConnDone):
		return 7, err.Error()
	case errors.As(err, &me) && me.Number == 1205:
		return 4, "" // lock wait timeout: the fence row is locked by a transaction an earlier delivery leaked
	case errors.As(err, &me):
		return 7, err.Error()
	}
	return 3, err.Error()
}

// deliver performs one delivery the way a TCC participant method does: open a
// local transaction, run the business statement under fence.WithFence with the
// context pkg/rm/tcc prepares (xid, fence phase, business action context),
// commit if it returned nil, roll back otherwise.
func deliver(sess *Session, phase int, key int) (errc int, detail string) {
	xid, branch := keyName(key)
	db := sql.OpenDB(&connector{sess: sess})
	defer db.Close()
	ctx := tm.InitSeataContext(context.Background())
	tm.SetXID(ctx, xid)
	tm.SetTxName(ctx, "verif-fence")
	tm.SetFencePhase(ctx, enum.FencePhase(phase))
	tm.SetBusinessActionContext(ctx, &tm.BusinessActionContext{Xid: xid, BranchId: branch, ActionName: "verifAction",
		ActionContext: map[string]interface{}{}})
	tx, err := db.BeginTx(ctx, &sql.TxOptions{})
	if err != nil {
		return classify(err, sess)
	}
	err = fence.WithFence(ctx, tx, func() error {
		// the business step: two rows that must move together (sequential deliveries; in a race one statement)
		sess.Ran++
		if _, e := tx.Exec("update biz set n = n + 1 where xid = ? and branch_id = ? and kind = ?", xid, branch, phase); e != nil {
			return e
		}
		if sess.Gate != nil {
			return nil
		}
		_, e := tx.Exec("update biz set n = n + 1 where xid = ? and branch_id = ? and kind = ?", xid, branch, phase+10)
		return e
	})
	if err != nil {
		_ = tx.Rollback()
		return classify(err, sess)
	}
	if err = tx.Commit(); err != nil {
		return classify(err, sess)
	}
	return 0, ""
}

var (
	drvOnce sync.Once
	drvSeq  int
)

// deliverDrv performs one delivery through the proxy driver: the participant opens its
// transaction on a seata-fence-mysql connection (FenceConn.BeginTx runs the fence in a second
// transaction), executes the business statement on it and commits / rolls back (FenceTx).
func deliverDrv(sess *Session, phase int, key int) (errc int, detail string) {
	drvOnce.Do(func() { sql.Register("verif-fence-mysql", &fence.FenceDriver{TargetDriver: fdriver{}}) })
	xid, branch := keyName(key)
	dsnMu.Lock()
	drvSeq++
	dsn := fmt.Sprintf("sess-%d", drvSeq)
	dsnSessions[dsn] = sess
	dsnMu.Unlock()
	defer func() {
		dsnMu.Lock()
		delete(dsnSessions, dsn)
		dsnMu.Unlock()
	}()
	db, err := sql.Open("verif-fence-mysql", dsn)
	if err != nil {
		return 7, err.Error()
	}
	defer db.Close()
	ctx := tm.InitSeataContext(context.Background())
	tm.SetXID(ctx, xid)
	tm.SetTxName(ctx, "verif-fence")
	tm.SetFencePhase(ctx, enum.FencePhase(phase))
	tm.SetBusinessActionContext(ctx, &tm.BusinessActionContext{Xid: xid, BranchId: branch, ActionName: "verifAction",
		ActionContext: map[string]interface{}{}})
	tx, err := db.BeginTx(ctx, &sql.TxOptions{})
	if err != nil {
		return classify(err, sess)
	}
	sess.Ran++
	for _, kind := range []int{phase, phase + 10} {
		if _, err = tx.Exec("update biz set n = n + 1 where xid = ? and branch_id = ? and kind = ?", xid, branch, kind); err != nil {
			_ = tx.Rollback()
			return classify(err, sess)
		}
	}
	if err = tx.Commit(); err != nil {
		return classify(err, sess)
	}
	return 0, ""
}

func guarded(sess *Session, phase, key int, drv bool) (int, string) {
	var ec int
	var det string
	class, d := hutil.Guard(120*time.Second, func() error {
		if drv {
			ec, det = deliverDrv(sess, phase, key)
		} else {
			ec, det = deliver(sess, phase, key)
		}
		return nil
	})
	switch class {
	case hutil.OutPanic:
		return 5, "panic: " + d
	case hutil.OutDiverged:
		return 6, d
	}
	return ec, det
}

// drvDecided: the fence settles the delivery by itself (half of fence.drivermode.decided-business-committed)
func drvDecided(status int64, phase int) bool {
	return (phase == 2 && status == 2) || (phase == 3 && (status == 0 || status == 3 || status == 4))
}

func runSeq(st *Store, sid *int, hist []Delivery, pred *string) []Obs {
	var out []Obs
	for _, d := range hist {
		*sid++
		sess := &Session{ID: *sid, Store: st, Fault: d.Fault, FaultErr: d.FErr, FaultedKind: -1}
		xid, b := keyName(d.Key)
		decided := d.Drv && drvDecided(st.Status(xid, b), d.Phase)
		ec, det := guarded(sess, d.Phase, d.Key, d.Drv)
		// the two listed input regions, evaluated on the run (the driver takes the model's evaluation and
		// requires this one to agree): the failure hit the SECOND commit; or the fence decided the delivery
		// by itself and the caller's business transaction got committed
		ncommit := 0
		for _, k := range sess.Trace {
			if k == OpCommit {
				ncommit++
			}
		}
		if *pred == "" && d.Drv && sess.FaultedKind == OpCommit && sess.FaultedCommitNo == 2 {
			*pred = "fence.drivermode.fault-at-fence-commit"
		}
		if *pred == "" && decided && ncommit >= 1 && !(sess.FaultedKind == OpCommit && sess.FaultedCommitNo == 1) {
			*pred = "fence.drivermode.decided-business-committed"
		}
		if sess.Misuse != "" && det == "" {
			det = sess.Misuse
		}
		out = append(out, Obs{Ops: sess.Trace, Err: ec, Ran: sess.Ran, Status: st.Status(xid, b), Biz: st.Biz(xid, b), Biz2: st.Biz2(xid, b), Detail: det})
	}
	return out
}

// ---- the race: a sequential scheduler over two sessions -------------------

type event struct {
	tid  int
	done bool
	kind int
	key  *fkey
}

func raceVisible(kind int) bool {
	switch kind {
	case OpIns, OpSel, OpUpd, OpBiz, OpCommit, OpRollback, OpDel:
		return true
	}
	return false
}

func runRace(st *Store, sid *int, key int, r *Race) ([]Obs, string) {
	events := make(chan event, 4)
	grants := [2]chan struct{}{make(chan struct{}, 1), make(chan struct{}, 1)}
	var sess [2]*Session
	res := [2]struct {
		ec  int
		det string
	}{}
	for t := 0; t < 2; t++ {
		*sid++
		t := t
		sess[t] = &Session{ID: *sid, Store: st, Fault: [2]int{r.F1, r.F2}[t], FaultedKind: -1, Visible: raceVisible,
			Gate: func(s *Session, kind int, k *fkey) {
				events <- event{tid: t, kind: kind, key: k}
				<-grants[t]
			}}
	}
	phases := [2]int{r.P1, r.P2}
	for t := 0; t < 2; t++ {
		t := t
		go func() {
			defer func() {
				if p := recover(); p != nil {
					res[t].ec, res[t].det = 5, fmt.Sprint("panic: ", p)
				}
				events <- event{tid: t, done: true}
			}()
			res[t].ec, res[t].det = deliver(sess[t], phases[t], key)
		}()
	}
	var parked [2]*event
	var finished [2]bool
	wait := func(n int) bool {
		for i := 0; i < n; i++ {
			select {
			case e := <-events:
				ev := e
				if e.done {
					finished[e.tid] = true
					parked[e.tid] = nil
				} else {
					parked[e.tid] = &ev
				}
			case <-time.After(120 * time.Second):
				return false
			}
		}
		return true
	}
	if !wait(2) {
		return nil, "race: a delivery did not reach its first statement"
	}
	enabled := func(t int) bool {
		if finished[t] || parked[t] == nil {
			return false
		}
		e := parked[t]
		if (e.kind == OpIns || e.kind == OpSel || e.kind == OpUpd || e.kind == OpDel) && e.key != nil {
			return !st.lockedByOther(*e.key, sess[t].ID)
		}
		return true
	}
	step := 0
	for !(finished[0] && finished[1]) {
		pref := 0
		if step < len(r.Sched) && r.Sched[step] {
			pref = 1
		}
		step++
		pick := -1
		if enabled(pref) {
			pick = pref
		} else if enabled(1 - pref) {
			pick = 1 - pref
		}
		if pick < 0 {
			return nil, "race: deadlock (no delivery can take a step)"
		}
		if step > 64 {
			return nil, "race: more than 64 steps"
		}
		parked[pick] = nil
		grants[pick] <- struct{}{}
		if !wait(1) {
			return nil, "race: a delivery hung inside a statement"
		}
	}
	xid, b := keyName(key)
	var out []Obs
	for t := 0; t < 2; t++ {
		det := res[t].det
		if sess[t].Misuse != "" && det == "" {
			det = sess[t].Misuse
		}
		// (in a race the business step is its first statement only: the second row is reported as the first)
		out = append(out, Obs{Ops: sess[t].Trace, Err: res[t].ec, Ran: sess[t].Ran, Status: st.Status(xid, b), Biz: st.Biz(xid, b), Biz2: st.Biz(xid, b), Detail: det})
	}
	return out, ""
}

// ---- direct oracle: the property's own statement on the real run -----------

type keyState struct {
	status  int64
	biz     [3]int64
	suspend bool // a fault-free rollback was delivered while there was no record
}

// expectedDelta: the business effects that must have been committed together
// with a change of the committed fence status (two = a pair of racing deliveries,
// which may both take effect one after the other)
func expectedDelta(before, after int64, two bool) ([3]int64, bool) {
	switch {
	case before == after:
		return [3]int64{}, true
	case before == 0 && after == 1:
		return [3]int64{1, 0, 0}, true
	case before == 1 && after == 2:
		return [3]int64{0, 1, 0}, true
	case before == 1 && after == 3:
		return [3]int64{0, 0, 1}, true
	case before == 0 && after == 4:
		return [3]int64{}, true
	case two && before == 0 && after == 2:
		return [3]int64{1, 1, 0}, true
	case two && before == 0 && after == 3:
		return [3]int64{1, 0, 1}, true
	}
	return [3]int64{}, false
}

// oracleStep checks one (group of) delivery result(s) against C06's statement.
// phases = the phases delivered between the two snapshots.
func oracleStep(ks *keyState, phases []int, errs []int, rans []int, after Obs, faultFree bool) string {
	before := *ks
	for i := 0; i < 3; i++ {
		if after.Biz[i] > 1 {
			return fmt.Sprintf("%s effect applied %d times", []string{"try", "confirm", "cancel"}[i], after.Biz[i])
		}
		if after.Biz[i] < before.biz[i] {
			return "a committed business effect disappeared"
		}
	}
	if after.Biz2 != after.Biz {
		return fmt.Sprintf("the committed business effect is not exactly one application of the business step: first row %v, second row %v (a part of it was applied twice or not at all)", after.Biz, after.Biz2)
	}
	if after.Biz[1] >= 1 && after.Biz[2] >= 1 {
		return "confirm and cancel both applied"
	}
	want, legal := expectedDelta(before.status, after.Status, len(phases) == 2)
	if !legal {
		return fmt.Sprintf("fence status went %d -> %d", before.status, after.Status)
	}
	var delta [3]int64
	nd := 0
	for i := 0; i < 3; i++ {
		delta[i] = after.Biz[i] - before.biz[i]
		nd += int(delta[i])
	}
	if delta != want {
		return fmt.Sprintf("fence status %d -> %d committed but the committed business effects changed by %v (want %v): record and effect did not commit together", before.status, after.Status, delta, want)
	}
	allErr := true
	anyRanOK := false
	for i := range errs {
		if errs[i] == 0 {
			allErr = false
			if rans[i] > 0 {
				anyRanOK = true
			}
		}
		if rans[i] > 1 {
			return "business callback executed more than once in one delivery"
		}
	}
	if allErr && (after.Status != before.status || nd != 0) {
		return "a delivery that reported failure left a committed change"
	}
	if anyRanOK != (nd > 0) && len(errs) == 1 {
		return fmt.Sprintf("callback executed and delivery succeeded = %v, but committed effect delta = %d", anyRanOK, nd)
	}
	// a delivery that reports success is recorded: the coordinator will not deliver it again.  Committed,
	// rollbacked and suspended are final, so this also holds for a pair of racing deliveries.
	for i, p := range phases {
		if errs[i] != 0 {
			continue
		}
		switch {
		case p == 1 && (after.Status == 0 || after.Status == 4):
			return fmt.Sprintf("prepare reported success but the branch has no tried record (status %d)", after.Status)
		case p == 2 && after.Status != 2:
			return fmt.Sprintf("commit reported success but the branch is not committed (status %d): confirm is lost", after.Status)
		case p == 3 && after.Status != 3 && after.Status != 4:
			return fmt.Sprintf("rollback reported success but the branch is neither rollbacked nor suspended (status %d): the coordinator will not retry, cancel is lost and a late try is not fenced", after.Status)
		}
	}
	if before.suspend {
		if after.Status != 4 || nd != 0 {
			return "a branch suspended by an early rollback changed afterwards (late try not refused)"
		}
		for i, p := range phases {
			if p == 1 && errs[i] == 0 {
				return "try accepted after the rollback that preceded it"
			}
		}
	}
	if len(phases) == 1 && phases[0] == 3 && before.status == 0 && faultFree && errs[0] == 0 {
		if after.Status != 4 {
			return "rollback with no fence record did not record a suspension"
		}
	}
	if len(phases) == 1 && phases[0] == 3 && before.status == 0 && faultFree && errs[0] != 0 && errs[0] != 4 {
		return "rollback with no fence record failed instead of recording a suspension"
	}
	ks.status, ks.biz = after.Status, after.Biz
	if after.Status == 4 {
		ks.suspend = true
	}
	return ""
}

func oracleCase(c *Case) string {
	ks := map[int]*keyState{}
	get := func(k int) *keyState {
		if ks[k] == nil {
			ks[k] = &keyState{}
		}
		return ks[k]
	}
	for i, d := range c.Hist {
		o := c.Obs[i]
		if o.Err >= 5 {
			return fmt.Sprintf("delivery %d: unexpected outcome class %d: %s", i, o.Err, o.Detail)
		}
		if m := oracleStep(get(d.Key), []int{d.Phase}, []int{o.Err}, []int{o.Ran}, o, d.Fault < 0 || d.Fault >= len(o.Ops)); m != "" {
			return fmt.Sprintf("delivery %d (%s of key %d): %s", i, []string{"", "prepare", "commit", "rollback"}[d.Phase], d.Key, m)
		}
	}
	if c.Race != nil && len(c.RObs) == 2 {
		for _, o := range c.RObs {
			if o.Err >= 4 {
				return fmt.Sprintf("race: unexpected outcome class %d: %s", o.Err, o.Detail)
			}
		}
		if m := oracleStep(get(0), []int{c.Race.P1, c.Race.P2}, []int{c.RObs[0].Err, c.RObs[1].Err},
			[]int{c.RObs[0].Ran, c.RObs[1].Ran}, c.RObs[1], false); m != "" {
			return "race: " + m
		}
	}
	return ""
}

func runCase(c *Case) {
	st := NewStore()
	sid := 0
	c.Obs = runSeq(st, &sid, c.Hist, &c.Pred)
	if c.Race != nil {
		robs, infra := runRace(st, &sid, 0, c.Race)
		c.RObs, c.Infra = robs, infra
	}
	c.Oracle = oracleCase(c)
}
