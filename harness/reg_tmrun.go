package main

import "verifh/tmrun"

func init() {
	subcommands["tmrun"] = tmrun.Run
	subcommands["tmcarrier"] = tmrun.RunCarrier
}
