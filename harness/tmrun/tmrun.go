// Package tmrun drives the real tm.WithGlobalTx (nested scopes, every
// propagation mode, callbacks returning nil / an error / panicking, contexts
// cancelled at a scripted request) against a scripted coordinator patched in
// at (*GettyRemotingClient).SendSyncRequest, and records per case the trace
// the Coq model (coq/Tm/TmModel.v) also produces: requests with the reply
// given, what every callback sees in its context on entry and after each
// child returns, and the class of every value WithGlobalTx returns.
package tmrun

import (
	"context"
	"encoding/json"
	"errors"
	"fmt"
	"os"
	"reflect"
	"strconv"
	"strings"
	"sync"
	"sync/atomic"
	"time"

	"github.com/agiledragon/gomonkey/v2"

	"seata.apache.org/seata-go/pkg/protocol/message"
	"seata.apache.org/seata-go/pkg/remoting/getty"
	"seata.apache.org/seata-go/pkg/tm"

	"verifh/hutil"
)

// SendCap mirrors send_cap of the model: sends of one second phase before the
// run is declared diverged.
const SendCap = 8

type Scope struct {
	M      string   `json:"m"`
	ID     int      `json:"id"`
	Shared bool     `json:"shared"`
	Kids   []*Scope `json:"kids"`
	Out    string   `json:"out"` // nil | err | panic
	Pv     string   `json:"pv,omitempty"`    // dynamic type of the panic value: str | err | int | struct | ptr | rt
	Calls  []Call   `json:"calls,omitempty"` // carrier calls the callback makes on its own context before its children
}

// Call: an outgoing RPC through one of the integrations, made from inside a scope's callback on the
// scope's own context; Pre = what the outgoing metadata / invocation already holds (e.g. forwarded
// from the caller's own incoming request)
type Call struct {
	Kind string `json:"kind"` // grpc | dubbo
	Pre  []HV   `json:"pre"`
}

// CallObs: what a carrier call did
type CallObs struct {
	Scope int    `json:"scope"`
	Kind  string `json:"kind"`
	Pre   []HV   `json:"pre"`
	Got   string `json:"got"`   // xid the callee found (raw string)
	Want  string `json:"want"`  // xid bound in the caller's context when it made the call (raw string)
	After Ev     `json:"after"` // the caller's context right after the call
	Enter Ev     `json:"enter"` // ... and when the callback started
	Panic bool   `json:"panic"`
}

type Entry struct {
	Plain bool   `json:"plain"` // root called on a context that is not a seata context
	Xid   int    `json:"xid"`
	Role  string `json:"role"`
	Name  int    `json:"name"`
}

// Ev: K = req|enter|after|ret|diverge
type Ev struct {
	K    string `json:"k"`
	Q    string `json:"q,omitempty"` // begin|commit|rollback
	N    int    `json:"n"`           // name (begin) or xid (commit/rollback) or scope id
	R    string `json:"r,omitempty"` // reply letter, or result class
	Xid  int    `json:"xid"`
	Role string `json:"role,omitempty"`
	Name int    `json:"name"`
}

type Case struct {
	ID      int      `json:"id"`
	Suite   string   `json:"suite"`
	Gen     string   `json:"gen"` // which generator produced it
	Tree    *Scope   `json:"tree"`
	Entry   Entry    `json:"entry"`
	Script  []string `json:"script"` // o f e t n
	Default string   `json:"default"`
	Cancel  int      `json:"cancel"` // -1 never; j: cancelled once j requests were received
	Nc      int      `json:"nc"`
	Nr      int      `json:"nr"`
	Trace   []Ev     `json:"trace"`
	Hung    bool     `json:"hung"`
	Skipped bool     `json:"skipped"` // not run: too many earlier cases of the run did not return
	Calls   []CallObs `json:"callobs"`
	InCb    bool     `json:"incb"` // cancel==1 realised inside the root callback instead of in the stub
}

type caseRun struct {
	mu       sync.Mutex
	c        *Case
	base     context.Context
	cancel   context.CancelFunc
	frozen   bool
	nreq     int
	nextX    int
	pos      int
	lastKey  string
	lastErr  bool
	spCount  int
}

var (
	runsMu    sync.RWMutex
	runs      = map[int]*caseRun{}
	hungCount atomic.Int32
)

// no legitimate case takes longer than a few seconds (8 sends x 200 ms per second phase)
const hangLimit = 15 * time.Second

type bizStruct struct{ Code int }

// panicValue: panic values of several dynamic types (a recovered panic must surface whatever it is)
func panicValue(kind string) interface{} {
	switch kind {
	case "err":
		return errors.New("business panic (error value)")
	case "int":
		return 42
	case "struct":
		return bizStruct{7}
	case "ptr":
		return &bizStruct{8}
	case "rt":
		var m map[string]int
		m["x"] = 1 // runtime error: assignment to entry in nil map
		return nil
	}
	return "business panic"
}

func (cr *caseRun) emit(e Ev) {
	cr.mu.Lock()
	if !cr.frozen {
		cr.c.Trace = append(cr.c.Trace, e)
	}
	cr.mu.Unlock()
}

func nameStr(cid, n int) string {
	if n == 0 {
		return ""
	}
	return fmt.Sprintf("c%d.s%d", cid, n)
}
func xidStr(cid, x int) string {
	if x == 0 {
		return ""
	}
	return fmt.Sprintf("x%d-%d", cid, x)
}
func nameNum(s string) int {
	if s == "" {
		return 0
	}
	i := strings.LastIndex(s, ".s")
	if i < 0 {
		return 999
	}
	n, err := strconv.Atoi(s[i+2:])
	if err != nil {
		return 999
	}
	return n
}
func xidNum(s string) int {
	if s == "" {
		return 0
	}
	i := strings.LastIndex(s, "-")
	if i < 0 {
		return 998
	}
	n, err := strconv.Atoi(s[i+1:])
	if err != nil {
		return 998
	}
	return n
}
func caseOf(s string, prefix byte) int {
	// "c12.s3" / "x12-3" -> 12
	if len(s) < 2 || s[0] != prefix {
		return -1
	}
	j := 1
	for j < len(s) && s[j] >= '0' && s[j] <= '9' {
		j++
	}
	n, err := strconv.Atoi(s[1:j])
	if err != nil {
		return -1
	}
	return n
}

func roleStr(r tm.GlobalTransactionRole) string {
	switch r {
	case tm.Launcher:
		return "Launcher"
	case tm.Participant:
		return "Participant"
	case tm.UnKnow:
		return "UnKnow"
	}
	return "Role" + strconv.Itoa(int(r))
}
func roleOf(s string) tm.GlobalTransactionRole {
	switch s {
	case "Launcher":
		return tm.Launcher
	case "Participant":
		return tm.Participant
	}
	return tm.UnKnow
}
func propOf(m string) tm.Propagation {
	switch m {
	case "Required":
		return tm.Required
	case "RequiresNew":
		return tm.RequiresNew
	case "NotSupported":
		return tm.NotSupported
	case "Supports":
		return tm.Supports
	case "Never":
		return tm.Never
	case "Mandatory":
		return tm.Mandatory
	}
	return tm.Propagation(9)
}

// ---------------------------------------------------------------- scripted coordinator
func stub(_ *getty.GettyRemotingClient, msg interface{}) (interface{}, error) {
	var kind string
	var cid, num int
	switch m := msg.(type) {
	case message.GlobalBeginRequest:
		kind, cid, num = "begin", caseOf(m.TransactionName, 'c'), nameNum(m.TransactionName)
	case message.GlobalCommitRequest:
		kind, cid, num = "commit", caseOf(m.Xid, 'x'), xidNum(m.Xid)
	case message.GlobalRollbackRequest:
		kind, cid, num = "rollback", caseOf(m.Xid, 'x'), xidNum(m.Xid)
	default:
		return nil, fmt.Errorf("tmrun stub: unexpected request %T", msg)
	}
	runsMu.RLock()
	cr := runs[cid]
	runsMu.RUnlock()
	if cr == nil {
		return nil, fmt.Errorf("tmrun stub: request of an unknown case %d", cid)
	}
	cr.mu.Lock()
	defer cr.mu.Unlock()
	if cr.frozen {
		cr.mu.Unlock()
		time.Sleep(20 * time.Millisecond) // a caller that ignores the cancelled context must not spin
		cr.mu.Lock()
		return nil, errors.New("tmrun stub: run was stopped")
	}
	if kind != "begin" {
		key := kind + strconv.Itoa(num)
		if key == cr.lastKey && cr.lastErr {
			cr.spCount++
		} else {
			cr.spCount = 1
		}
		cr.lastKey = key
		if cr.spCount > SendCap {
			cr.c.Trace = append(cr.c.Trace, Ev{K: "diverge"})
			cr.frozen = true
			cr.cancel()
			return nil, errors.New("tmrun stub: send cap reached")
		}
	} else {
		cr.lastKey = ""
	}
	rep := cr.c.Default
	if cr.pos < len(cr.c.Script) {
		rep = cr.c.Script[cr.pos]
	}
	cr.pos++
	cr.nreq++
	cr.lastErr = rep == "e" || rep == "t"
	cr.c.Trace = append(cr.c.Trace, Ev{K: "req", Q: kind, N: num, R: rep})
	if cr.c.Cancel >= 1 && cr.nreq == cr.c.Cancel && !cr.c.InCb {
		cr.cancel()
	}
	switch rep {
	case "e":
		return nil, errors.New("tmrun: transport error")
	case "t":
		return nil, fmt.Errorf("wait response timeout, request: %#v", msg)
	case "n":
		return nil, nil
	}
	code := message.ResultCodeSuccess
	if rep == "f" {
		code = message.ResultCodeFailed
	}
	atr := message.AbstractTransactionResponse{AbstractResultMessage: message.AbstractResultMessage{ResultCode: code}}
	switch kind {
	case "begin":
		x := ""
		if rep == "o" {
			cr.nextX++
			x = xidStr(cid, cr.nextX)
		}
		return message.GlobalBeginResponse{AbstractTransactionResponse: atr, Xid: x}, nil
	case "commit":
		return message.GlobalCommitResponse{AbstractGlobalEndResponse: message.AbstractGlobalEndResponse{
			AbstractTransactionResponse: atr, GlobalStatus: message.GlobalStatusCommitted}}, nil
	default:
		return message.GlobalRollbackResponse{AbstractGlobalEndResponse: message.AbstractGlobalEndResponse{
			AbstractTransactionResponse: atr, GlobalStatus: message.GlobalStatusRollbacked}}, nil
	}
}

// ---------------------------------------------------------------- running one case
func (cr *caseRun) seen(k string, id int, ctx context.Context) Ev {
	e := Ev{K: k, N: id}
	if !tm.IsSeataContext(ctx) {
		e.Role = "UnKnow"
		return e
	}
	e.Xid = xidNum(tm.GetXID(ctx))
	e.Role = roleStr(*tm.GetTxRole(ctx))
	e.Name = nameNum(tm.GetTxName(ctx))
	return e
}

func (cr *caseRun) call(ctx context.Context, s *Scope, root bool) {
	gc := &tm.GtxConfig{Name: nameStr(cr.c.ID, s.ID), Propagation: propOf(s.M)}
	class := "nil"
	func() {
		defer func() {
			if p := recover(); p != nil {
				class = "panic"
			}
		}()
		err := tm.WithGlobalTx(ctx, gc, func(ctx context.Context) error {
			ent := cr.seen("enter", s.ID, ctx)
			cr.emit(ent)
			if root && cr.c.InCb && cr.c.Cancel == 1 {
				cr.cancel()
			}
			for _, cl := range s.Calls {
				ob := carrierCall(ctx, cl)
				ob.Scope, ob.Enter, ob.After = s.ID, ent, cr.seen("after", s.ID, ctx)
				cr.mu.Lock()
				cr.c.Calls = append(cr.c.Calls, ob)
				cr.mu.Unlock()
			}
			for _, k := range s.Kids {
				kctx := ctx
				if !k.Shared {
					// remote-call pattern: a context of its own carrying only the xid
					kctx = cr.base
					if x := tm.GetXID(ctx); x != "" {
						kctx = tm.InitSeataContext(cr.base)
						tm.SetXID(kctx, x)
					}
				}
				cr.call(kctx, k, false)
				cr.emit(cr.seen("after", s.ID, ctx))
			}
			switch s.Out {
			case "err":
				return errors.New("business error")
			case "panic":
				panic(panicValue(s.Pv))
			}
			return nil
		})
		if err != nil {
			class = "err"
		}
	}()
	cr.emit(Ev{K: "ret", N: s.ID, R: class})
}

func runCase(c *Case) {
	base, cancel := context.WithCancel(context.Background())
	defer cancel()
	cr := &caseRun{c: c, base: base, cancel: cancel}
	c.Trace = []Ev{}
	runsMu.Lock()
	runs[c.ID] = cr
	runsMu.Unlock()
	ctx := base
	if !c.Entry.Plain {
		ctx = tm.InitSeataContext(base)
		tm.SetTx(ctx, &tm.GlobalTransaction{Xid: xidStr(c.ID, c.Entry.Xid), TxName: nameStr(c.ID, c.Entry.Name), TxRole: roleOf(c.Entry.Role)})
	}
	if c.Cancel == 0 {
		cancel()
	}
	done := make(chan struct{})
	go func() {
		defer close(done)
		defer func() { recover() }()
		cr.call(ctx, c.Tree, true)
		if c.Entry.Plain {
			cr.emit(Ev{K: "after", N: 0, Role: "UnKnow"})
		} else {
			cr.emit(cr.seen("after", 0, ctx))
		}
	}()
	select {
	case <-done:
	case <-time.After(hangLimit):
		hungCount.Add(1)
		cr.mu.Lock()
		cr.frozen = true
		c.Hung = true
		cr.mu.Unlock()
		cancel()
	}
	cr.mu.Lock()
	cr.frozen = true
	cr.mu.Unlock()
	runsMu.Lock()
	delete(runs, c.ID)
	runsMu.Unlock()
}

// RunCases executes the cases grouped by retry configuration (tm's config is a
// package global); cases of one group run in parallel, each keyed by its id.
func RunCases(cases []*Case, par int) {
	p := gomonkey.ApplyMethod(reflect.TypeOf(getty.GetGettyRemotingClient()), "SendSyncRequest", stub)
	defer p.Reset()
	groups := map[[2]int][]*Case{}
	var order [][2]int
	for _, c := range cases {
		k := [2]int{c.Nc, c.Nr}
		if _, ok := groups[k]; !ok {
			order = append(order, k)
		}
		groups[k] = append(groups[k], c)
	}
	for _, k := range order {
		tm.InitTm(tm.TmConfig{CommitRetryCount: k[0], RollbackRetryCount: k[1], DefaultGlobalTransactionTimeout: 60 * time.Second})
		sem := make(chan struct{}, par)
		var wg sync.WaitGroup
		for _, c := range groups[k] {
			if hungCount.Load() >= 8 {
				c.Skipped = true // enough evidence; keep the run short
				c.Trace = []Ev{}
				continue
			}
			wg.Add(1)
			sem <- struct{}{}
			go func(c *Case) {
				defer wg.Done()
				runCase(c)
				<-sem
			}(c)
		}
		wg.Wait()
	}
}

type Output struct {
	Suite string  `json:"suite"`
	Cases []*Case `json:"cases"`
	Secs  float64 `json:"secs"`
}

// Run: suite=c04|c07 tier=quick|thorough seed=N [in=<cases.json>] out=<file>
func Run(args map[string]string) {
	suite := hutil.ArgStr(args, "suite", "c04")
	tier := hutil.ArgStr(args, "tier", "quick")
	seed := hutil.ArgU64(args, "seed", 1)
	var cases []*Case
	if in := hutil.ArgStr(args, "in", ""); in != "" {
		b, err := os.ReadFile(in)
		if err != nil {
			fmt.Fprintln(os.Stderr, "tmrun:", err)
			os.Exit(2)
		}
		if err := json.Unmarshal(b, &cases); err != nil {
			fmt.Fprintln(os.Stderr, "tmrun:", err)
			os.Exit(2)
		}
		for i, c := range cases {
			c.ID = i + 1
		}
	} else if suite == "c04" {
		cases = GenC04(tier, seed)
	} else {
		cases = GenC07(tier, seed)
	}
	t0 := time.Now()
	RunCases(cases, hutil.ArgInt(args, "par", 512))
	hutil.WriteJSON(args["out"], Output{Suite: suite, Cases: cases, Secs: time.Since(t0).Seconds()})
}
