package tmrun

// Carrier suite: the real gRPC interceptors, gin middleware and dubbo filter of
// pkg/integration are driven with generated xids and key spellings; the callee
// records the xid it finds in its context, then opens a Required scope under the
// scripted coordinator: it must be a participant of the carried transaction and
// never send a commit/rollback for it.

import (
	"context"
	"encoding/hex"
	"encoding/json"
	"os"
	"net/http"
	"net/http/httptest"
	"reflect"
	"sync"
	"time"

	"dubbo.apache.org/dubbo-go/v3/common"
	"dubbo.apache.org/dubbo-go/v3/protocol"
	"dubbo.apache.org/dubbo-go/v3/protocol/invocation"
	"github.com/agiledragon/gomonkey/v2"
	"github.com/gin-gonic/gin"
	"google.golang.org/grpc"
	"google.golang.org/grpc/metadata"

	"seata.apache.org/seata-go/pkg/constant"
	sdubbo "seata.apache.org/seata-go/pkg/integration/dubbo"
	sgin "seata.apache.org/seata-go/pkg/integration/gin"
	sgrpc "seata.apache.org/seata-go/pkg/integration/grpc"
	"seata.apache.org/seata-go/pkg/protocol/message"
	"seata.apache.org/seata-go/pkg/remoting/getty"
	"seata.apache.org/seata-go/pkg/tm"

	"verifh/hutil"
)

// HV: one header / metadata entry / attachment. Shape: "s" a string (Vals[0]); "l" a list of
// strings (gRPC / HTTP multi-value; dubbo: a []string attachment as the triple protocol hands
// them over); "o" a value that is neither (dubbo only).
type HV struct {
	Key   string   `json:"key"`   // hex
	Shape string   `json:"shape"` // s | l | o
	Vals  []string `json:"vals"`  // hex
}

type CCase struct {
	ID        int    `json:"id"`
	Kind      string `json:"kind"`      // grpc | gin | dubbo
	Roundtrip bool   `json:"roundtrip"` // the sender half ran with Xid on top of Hdrs
	Hdrs      []HV   `json:"hdrs"`      // roundtrip: what the outgoing context / request / invocation already holds; else: what the receiver is handed
	Xid       string `json:"xid"`       // hex
	// observed
	Ran      bool     `json:"ran"`    // the callee handler ran
	Seata    bool     `json:"seata"`  // its context is a seata context
	Got      string   `json:"got"`    // hex of tm.GetXID in the callee
	Inner    string   `json:"inner"`  // hex of the xid inside the callee's Required scope
	Role     string   `json:"role"`   // role inside that scope
	Reqs     []string `json:"reqs"`   // requests the coordinator received while the callee ran: kind:xid-or-name
	Status   int      `json:"status"` // gin: http status
	Ret      string   `json:"ret"`    // class of the callee's WithGlobalTx
	Panicked bool     `json:"panicked"`
}

func unhex(s string) string {
	b, _ := hex.DecodeString(s)
	return string(b)
}

func (h HV) strs() []string {
	out := make([]string, len(h.Vals))
	for i, v := range h.Vals {
		out[i] = unhex(v)
	}
	return out
}

var (
	ccMu  sync.Mutex
	ccCur *CCase
)

func carrierStub(_ *getty.GettyRemotingClient, msg interface{}) (interface{}, error) {
	ccMu.Lock()
	defer ccMu.Unlock()
	ok := message.AbstractTransactionResponse{AbstractResultMessage: message.AbstractResultMessage{ResultCode: message.ResultCodeSuccess}}
	switch m := msg.(type) {
	case message.GlobalBeginRequest:
		ccCur.Reqs = append(ccCur.Reqs, "begin:"+m.TransactionName)
		return message.GlobalBeginResponse{AbstractTransactionResponse: ok, Xid: "new-xid-of-callee"}, nil
	case message.GlobalCommitRequest:
		ccCur.Reqs = append(ccCur.Reqs, "commit:"+hex.EncodeToString([]byte(m.Xid)))
		return message.GlobalCommitResponse{AbstractGlobalEndResponse: message.AbstractGlobalEndResponse{AbstractTransactionResponse: ok, GlobalStatus: message.GlobalStatusCommitted}}, nil
	case message.GlobalRollbackRequest:
		ccCur.Reqs = append(ccCur.Reqs, "rollback:"+hex.EncodeToString([]byte(m.Xid)))
		return message.GlobalRollbackResponse{AbstractGlobalEndResponse: message.AbstractGlobalEndResponse{AbstractTransactionResponse: ok, GlobalStatus: message.GlobalStatusRollbacked}}, nil
	}
	ccCur.Reqs = append(ccCur.Reqs, "other")
	return nil, nil
}

// what every callee does with the context the integration hands it
func callee(c *CCase, ctx context.Context, fail bool) {
	c.Ran = true
	c.Seata = tm.IsSeataContext(ctx)
	c.Got = hex.EncodeToString([]byte(tm.GetXID(ctx)))
	err := tm.WithGlobalTx(ctx, &tm.GtxConfig{Name: "callee", Propagation: tm.Required}, func(ctx context.Context) error {
		c.Inner = hex.EncodeToString([]byte(tm.GetXID(ctx)))
		c.Role = roleStr(*tm.GetTxRole(ctx))
		if fail {
			return context.Canceled
		}
		return nil
	})
	c.Ret = "nil"
	if err != nil {
		c.Ret = "err"
	}
}

type capInvoker struct {
	f func(ctx context.Context, inv protocol.Invocation)
}

func (i *capInvoker) GetURL() *common.URL { return nil }
func (i *capInvoker) IsAvailable() bool   { return true }
func (i *capInvoker) Destroy()            {}
func (i *capInvoker) Invoke(ctx context.Context, inv protocol.Invocation) protocol.Result {
	i.f(ctx, inv)
	return &protocol.RPCResult{}
}

func runCarrier(c *CCase) {
	defer func() {
		if p := recover(); p != nil {
			c.Panicked = true
		}
	}()
	xid := unhex(c.Xid)
	fail := c.ID%3 == 0
	clientCtx := tm.InitSeataContext(context.Background())
	tm.SetXID(clientCtx, xid)
	switch c.Kind {
	case "grpc":
		pre := metadata.MD{}
		for _, h := range c.Hdrs {
			if vs := h.strs(); len(vs) > 0 {
				pre.Append(unhex(h.Key), vs...)
			} else {
				pre.Append(unhex(h.Key))
			}
		}
		md := pre
		if c.Roundtrip {
			// the caller's outgoing context already carries metadata (e.g. forwarded from its own
			// incoming call): half of it set as a whole, half appended key by key
			out := clientCtx
			if len(pre) > 0 {
				if c.ID%2 == 0 {
					out = metadata.NewOutgoingContext(out, pre.Copy())
				} else {
					for k, vs := range pre {
						for _, v := range vs {
							out = metadata.AppendToOutgoingContext(out, k, v)
						}
					}
				}
			}
			md = nil
			_ = sgrpc.ClientTransactionInterceptor(out, "/svc/m", nil, nil, nil,
				func(ctx context.Context, method string, req, reply interface{}, cc *grpc.ClientConn, opts ...grpc.CallOption) error {
					md, _ = metadata.FromOutgoingContext(ctx)
					return nil
				})
		}
		in := metadata.NewIncomingContext(context.Background(), md.Copy())
		_, _ = sgrpc.ServerTransactionInterceptor(in, nil, &grpc.UnaryServerInfo{FullMethod: "/svc/m"},
			func(ctx context.Context, req interface{}) (interface{}, error) {
				callee(c, ctx, fail)
				return nil, nil
			})
	case "gin":
		gin.SetMode(gin.ReleaseMode)
		r := gin.New()
		r.Use(sgin.TransactionMiddleware())
		r.GET("/m", func(g *gin.Context) {
			callee(c, g.Request.Context(), fail)
			g.Status(http.StatusOK)
		})
		req := httptest.NewRequest(http.MethodGet, "/m", nil)
		for _, h := range c.Hdrs {
			for _, v := range h.strs() {
				req.Header.Add(unhex(h.Key), v)
			}
		}
		if c.Roundtrip {
			req.Header.Set(constant.XidKey, tm.GetXID(clientCtx))
		}
		rec := httptest.NewRecorder()
		r.ServeHTTP(rec, req)
		c.Status = rec.Code
	case "dubbo":
		f := sdubbo.GetDubboTransactionFilter()
		att := map[string]interface{}{}
		for _, h := range c.Hdrs {
			switch h.Shape {
			case "s":
				att[unhex(h.Key)] = h.strs()[0]
			case "l":
				att[unhex(h.Key)] = h.strs()
			default:
				att[unhex(h.Key)] = []interface{}{42, nil}[len(h.Key)%2]
			}
		}
		if c.Roundtrip {
			inv := invocation.NewRPCInvocation("m", nil, att)
			att2 := map[string]interface{}{}
			f.Invoke(clientCtx, &capInvoker{f: func(ctx context.Context, inv protocol.Invocation) {
				for k, v := range inv.Attachments() {
					att2[k] = v
				}
			}}, inv)
			att = att2
		}
		inv2 := invocation.NewRPCInvocation("m", nil, att)
		f.Invoke(context.Background(), &capInvoker{f: func(ctx context.Context, inv protocol.Invocation) {
			callee(c, ctx, fail)
		}}, inv2)
	}
}

func mdOf(hdrs []HV) metadata.MD {
	md := metadata.MD{}
	for _, h := range hdrs {
		if vs := h.strs(); len(vs) > 0 {
			md.Append(unhex(h.Key), vs...)
		}
	}
	return md
}

func attOf(hdrs []HV) map[string]interface{} {
	att := map[string]interface{}{}
	for _, h := range hdrs {
		switch h.Shape {
		case "s":
			att[unhex(h.Key)] = h.strs()[0]
		case "l":
			att[unhex(h.Key)] = h.strs()
		default:
			att[unhex(h.Key)] = []interface{}{42, nil}[len(h.Key)%2]
		}
	}
	return att
}

// carrierCall: an outgoing RPC made from inside a scope's callback on the scope's own context:
// sender half on ctx (whose outgoing metadata / invocation already holds cl.Pre), then the
// receiver half on a context of its own; reports the xid the callee finds
func carrierCall(ctx context.Context, cl Call) (ob CallObs) {
	ob.Kind, ob.Pre = cl.Kind, cl.Pre
	ob.Want = tm.GetXID(ctx)
	defer func() {
		if p := recover(); p != nil {
			ob.Panic = true
		}
	}()
	switch cl.Kind {
	case "grpc":
		out := ctx
		if pre := mdOf(cl.Pre); len(pre) > 0 {
			out = metadata.NewOutgoingContext(out, pre)
		}
		var md metadata.MD
		_ = sgrpc.ClientTransactionInterceptor(out, "/svc/m", nil, nil, nil,
			func(c context.Context, method string, req, reply interface{}, cc *grpc.ClientConn, opts ...grpc.CallOption) error {
				md, _ = metadata.FromOutgoingContext(c)
				return nil
			})
		in := metadata.NewIncomingContext(context.Background(), md.Copy())
		_, _ = sgrpc.ServerTransactionInterceptor(in, nil, &grpc.UnaryServerInfo{FullMethod: "/svc/m"},
			func(c context.Context, req interface{}) (interface{}, error) {
				ob.Got = tm.GetXID(c)
				return nil, nil
			})
	case "dubbo":
		f := sdubbo.GetDubboTransactionFilter()
		inv := invocation.NewRPCInvocation("m", nil, attOf(cl.Pre))
		att2 := map[string]interface{}{}
		f.Invoke(ctx, &capInvoker{f: func(c context.Context, i protocol.Invocation) {
			for k, v := range i.Attachments() {
				att2[k] = v
			}
		}}, inv)
		inv2 := invocation.NewRPCInvocation("m", nil, att2)
		f.Invoke(context.Background(), &capInvoker{f: func(c context.Context, i protocol.Invocation) {
			ob.Got = tm.GetXID(c)
		}}, inv2)
	}
	return ob
}

var xidKeys = []string{"TX_XID", "tx_xid", "SEATA_XID", "seata_xid"}

func mixCase(r *hutil.Rng, s string) string {
	b := []byte(s)
	for i := range b {
		if b[i] >= 'a' && b[i] <= 'z' && r.Chance(1, 2) {
			b[i] -= 32
		} else if b[i] >= 'A' && b[i] <= 'Z' && r.Chance(1, 2) {
			b[i] += 32
		}
	}
	return string(b)
}

func genXid(r *hutil.Rng) string {
	switch r.Intn(8) {
	case 0:
		return ""
	case 1, 2, 3:
		return "192.168.0." + string(rune('0'+r.Intn(10))) + ":8091:" + hexDigits(r, 6+r.Intn(14))
	case 4:
		b := make([]byte, 1+r.Intn(40))
		for i := range b {
			b[i] = byte(0x21 + r.Intn(0x5e))
		}
		return string(b)
	case 5:
		return "xid with spaces " + hexDigits(r, 4)
	case 6:
		return "事务-" + hexDigits(r, 8)
	}
	b := make([]byte, 200+r.Intn(400))
	for i := range b {
		b[i] = byte('a' + r.Intn(26))
	}
	return string(b)
}

func hexDigits(r *hutil.Rng, n int) string {
	b := make([]byte, n)
	for i := range b {
		b[i] = "0123456789"[r.Intn(10)]
	}
	return string(b)
}

func hx(s string) string { return hex.EncodeToString([]byte(s)) }

func hv(key, shape string, vals ...string) HV {
	h := HV{Key: hx(key), Shape: shape, Vals: []string{}}
	for _, v := range vals {
		h.Vals = append(h.Vals, hx(v))
	}
	return h
}

var otherKeys = []string{"authorization", "x-request-id", "Trace-Id", "tx_xid2", "XID", "TX-XID", "seata_xid_", "user"}
var badKeys = []string{"TX-XID", "XID", "tx_xid2", "x-tx-xid", "TXXID", "Seata-Xid", "seata_xid_", "txxid"}

// a value of a random shape holding x (dubbo: also wrapped / ill-typed; grpc, gin: multi-values)
func shaped(r *hutil.Rng, kind, key, x string) HV {
	switch r.Intn(6) {
	case 0, 1, 2:
		return hv(key, "s", x)
	case 3:
		return hv(key, "l", x)
	case 4:
		return hv(key, "l", x, genXid(r))
	}
	if kind == "dubbo" {
		if r.Chance(1, 2) {
			return hv(key, "o")
		}
		return hv(key, "l")
	}
	return hv(key, "l", x, "")
}

// headers already present: other keys, stale xids under accepted and unaccepted spellings,
// in every value shape; keys distinct for dubbo (attachments are a map)
func genPre(r *hutil.Rng, kind string) []HV {
	var out []HV
	seen := map[string]bool{}
	n := r.Intn(4)
	for i := 0; i < n; i++ {
		var k string
		switch r.Intn(3) {
		case 0:
			k = otherKeys[r.Intn(len(otherKeys))]
		case 1:
			k = xidKeys[r.Intn(len(xidKeys))]
		default:
			k = mixCase(r, xidKeys[r.Intn(len(xidKeys))])
		}
		if kind == "dubbo" && seen[k] {
			continue
		}
		seen[k] = true
		out = append(out, shaped(r, kind, k, "stale-"+genXid(r)))
	}
	return out
}

// GenCarrier: round trips through both halves of each integration on outgoing contexts /
// requests / invocations that already hold headers; receivers handed one header under every
// accepted spelling and value shape, random case mixes, spellings that must NOT be accepted,
// and several headers at once.
func GenCarrier(tier string, seed uint64) []*CCase {
	var cases []*CCase
	r := hutil.NewRng(seed ^ 0xca771e7)
	add := func(kind string, rt bool, hdrs []HV, xid string) {
		if hdrs == nil {
			hdrs = []HV{}
		}
		cases = append(cases, &CCase{ID: len(cases) + 1, Kind: kind, Roundtrip: rt, Hdrs: hdrs, Xid: hx(xid), Reqs: []string{}})
	}
	n := 40
	if tier == "thorough" {
		n = 3000
	}
	const sample = "192.168.0.1:8091:2000042948"
	for _, kind := range []string{"grpc", "gin", "dubbo"} {
		add(kind, true, nil, "")
		for _, k := range xidKeys {
			// every accepted (and for grpc/gin: unaccepted) spelling x every value shape
			add(kind, false, []HV{hv(k, "s", sample)}, "")
			add(kind, false, []HV{hv(k, "l", sample)}, "")
			add(kind, false, []HV{hv(k, "l", sample, "second")}, "")
			add(kind, false, []HV{hv(k, "l", "", sample)}, "")
			if kind == "dubbo" {
				add(kind, false, []HV{hv(k, "l")}, "")
				add(kind, false, []HV{hv(k, "o")}, "")
			}
			add(kind, false, []HV{hv(k, "s", genXid(r))}, "")
			// the sender runs WITHOUT a transaction (none / suspended) but its outgoing context still
			// holds an xid under this spelling: nothing may travel
			add(kind, true, []HV{hv(k, "s", "stale-xid")}, "")
			add(kind, true, []HV{hv("user", "s", "u1"), hv(mixCase(r, k), "l", "stale-xid")}, "")
			// a stale xid under this spelling is already in the outgoing context
			add(kind, true, []HV{hv(k, "s", "stale-xid")}, sample)
			add(kind, true, []HV{hv(k, "l", "stale-xid")}, sample)
			add(kind, true, []HV{hv("user", "s", "u1"), hv(k, "s", "stale-xid")}, genXid(r)+"n")
		}
		for i := 0; i < n; i++ {
			add(kind, true, nil, genXid(r))
			add(kind, true, genPre(r, kind), genXid(r)+"x")
			if i%3 == 0 {
				add(kind, true, genPre(r, kind), "")
			}
			k := mixCase(r, xidKeys[r.Intn(len(xidKeys))])
			add(kind, false, []HV{shaped(r, kind, k, genXid(r))}, "")
			if i%2 == 0 {
				add(kind, false, genPre(r, kind), "")
			}
			if i%4 == 0 {
				add(kind, false, []HV{shaped(r, kind, badKeys[r.Intn(len(badKeys))], genXid(r))}, "")
			}
		}
	}
	return cases
}

type COutput struct {
	Cases []*CCase `json:"cases"`
	Secs  float64  `json:"secs"`
}

func RunCarrier(args map[string]string) {
	tier := hutil.ArgStr(args, "tier", "quick")
	seed := hutil.ArgU64(args, "seed", 1)
	cases := GenCarrier(tier, seed)
	if in := hutil.ArgStr(args, "in", ""); in != "" {
		b, err := os.ReadFile(in)
		if err != nil {
			panic(err)
		}
		cases = nil
		if err := json.Unmarshal(b, &cases); err != nil {
			panic(err)
		}
		for i, c := range cases {
			if c.ID == 0 {
				c.ID = i + 1
			}
			c.Reqs = []string{}
		}
	}
	p := gomonkey.ApplyMethod(reflect.TypeOf(getty.GetGettyRemotingClient()), "SendSyncRequest", carrierStub)
	defer p.Reset()
	tm.InitTm(tm.TmConfig{CommitRetryCount: 1, RollbackRetryCount: 1, DefaultGlobalTransactionTimeout: 60 * time.Second})
	t0 := time.Now()
	for _, c := range cases {
		ccMu.Lock()
		ccCur = c
		ccMu.Unlock()
		runCarrier(c)
	}
	hutil.WriteJSON(args["out"], COutput{Cases: cases, Secs: time.Since(t0).Seconds()})
}
